(* The typed helpers of LayeredFilesystem (src/layered_filesystem.rs) with NOTHING abstract: the section
   variables of Model/LayeredFS.v (Section Codec: compress / decompress; Section Typed: the parsers and
   serializers) instantiated with the models of the code the helpers really call.  Definitions only.

     self.compression_format.compress / decompress   ->  Model/LZDecode.v  cf_compress / cf_decompress
                                                         (LZ10 for FE9/FE10, LZ13 for FE13-FE15)
     BinArchive::from_bytes(&bytes, self.endian)      ->  Model/BinFormat.v  from_bytes
     archive.serialize()            (BinArchive)      ->  Model/BinFormat.v  serialize
     TextArchive::from_bytes(&bytes, self.text_archive_format, self.endian)
                                                      ->  Model/TextFormat.v from_bytes
     archive.serialize()            (TextArchive)     ->  Model/TextFormat.v serialize with the format and
                                                         endianness STORED IN THE ARCHIVE VALUE
     arc::from_bytes                                  ->  Model/Arc.v   arc_from_bytes
     fe9_arc::parse                                   ->  Model/Pack.v  parse
     Tpl::extract_textures / bch::read / ctpk::read / cgfx::read
                                                      ->  Model/Tpl.v, Bch.v, Ctpk.v, Cgfx.v
     texture_vec_to_map (bch, ctpk, cgfx)             ->  [tex_map]: HashMap keyed by file name, a later
                                                         texture of the same name replaces the earlier one

   [mc] is the arithmetic profile of the writing side (serializer + compressor), [md] the one of the
   reading side (decompressor + parser). *)
From Coq Require Import List NArith Bool.
From Mila Require Import Lib.Bytes Lib.Machine Model.Localize Model.LayeredFS.
From Mila Require Model.LZ10 Model.LZ11 Model.LZDecode Model.BinArchive Model.BinFormat Model.TextMap Model.TextFormat
  Model.Arc Model.Pack Model.TexCommon Model.Ctpk Model.Bch Model.Cgfx Model.Tpl.
Import ListNotations.
Local Open Scope N_scope.

(* ------------------------------------------------------------------ the codec *)
(* which CompressionFormat variant LayeredFilesystem::new builds *)
Definition fs_cformat (f : cfmt) : LZDecode.cformat :=
  match f with LayeredFS.LZ10 => LZDecode.CF10 | LayeredFS.LZ13 => LZDecode.CF13 end.
Definition lz_compress (mc : mode) (f : cfmt) (b : bytes) : outcome bytes := LZDecode.cf_compress (fs_cformat f) mc b.
Definition lz_decompress (md : mode) (f : cfmt) (b : bytes) : outcome bytes := LZDecode.cf_decompress (fs_cformat f) md b.

(* ------------------------------------------------------------------ the archive values *)
(* TextArchiveFormat of the configuration -> the format type of Model/TextFormat.v *)
Definition tformat_of (t : tfmt) : TextFormat.tformat :=
  match t with LayeredFS.ShiftJIS => TextFormat.ShiftJIS | LayeredFS.Unicode => TextFormat.Unicode end.

(* mila::TextArchive: the map plus the format and endianness it was created / parsed with *)
Record text_archive := mkTA { ta_fmt : TextFormat.tformat; ta_endian : endian; ta_map : TextMap.tmap }.

(* HashMap<String, Vec<u8>> / IndexMap<String, Vec<u8>>: association list (encoded name, contents) *)
Definition files := list (bytes * bytes).

(* Vec<Texture> (tpl) or HashMap<String, Texture> (bch, ctpk, cgfx) *)
Inductive textures := TexVec (l : list TexCommon.texture) | TexMap (m : list (bytes * TexCommon.texture)).

(* HashMap::insert on an association list: replace in place, else append *)
Fixpoint tex_set (k : bytes) (v : TexCommon.texture) (m : list (bytes * TexCommon.texture)) : list (bytes * TexCommon.texture) :=
  match m with
  | [] => [(k, v)]
  | (k', v') :: r => if bytes_eqb k k' then (k', v) :: r else (k', v') :: tex_set k v r
  end.
(* texture_vec_to_map: textures.into_iter().map(|t| (t.filename.clone(), t)).collect() *)
Definition tex_map (l : list TexCommon.texture) : list (bytes * TexCommon.texture) :=
  fold_left (fun m t => tex_set (TexCommon.x_name t) t m) l [].
Fixpoint tex_get (k : bytes) (m : list (bytes * TexCommon.texture)) : option TexCommon.texture :=
  match m with
  | [] => None
  | (k', v) :: r => if bytes_eqb k k' then Some v else tex_get k r
  end.

(* ------------------------------------------------------------------ parsers and serializers *)
Definition parse_bin (e : endian) (b : bytes) : outcome BinArchive.archive := BinFormat.from_bytes e b.
Definition ser_bin (kf : BinFormat.name_key) (mc : mode) (a : BinArchive.archive) : outcome bytes := BinFormat.serialize_k kf mc a.
Definition parse_text (t : tfmt) (e : endian) (b : bytes) : outcome text_archive :=
  match TextFormat.from_bytes (tformat_of t) e b with
  | Ok m => Ok (mkTA (tformat_of t) e m)
  | Err x => Err x
  | Panic k => Panic k
  end.
Definition ser_text (kf : BinFormat.name_key) (mc : mode) (a : text_archive) : outcome bytes :=
  TextFormat.serialize kf mc (ta_fmt a) (ta_endian a) (ta_map a).
Definition parse_arc (md : mode) (b : bytes) : outcome files := Arc.arc_from_bytes md b.
Definition parse_fe9_arc (md : mode) (b : bytes) : outcome files := Pack.parse md b.

Definition as_vec (o : outcome (list TexCommon.texture)) : outcome textures :=
  match o with Ok l => Ok (TexVec l) | Err x => Err x | Panic k => Panic k end.
Definition as_map (o : outcome (list TexCommon.texture)) : outcome textures :=
  match o with Ok l => Ok (TexMap (tex_map l)) | Err x => Err x | Panic k => Panic k end.
(* the selector of Model/LayeredFS.v: 0 tpl, 1 bch, 2 ctpk, 3 (and above) cgfx *)
Definition parse_tex (md : mode) (k : N) (b : bytes) : outcome textures :=
  match k with
  | 0 => as_vec (Tpl.read_tpl md b)
  | 1 => as_map (Bch.read_bch md b)
  | 2 => as_map (Ctpk.read_ctpk md b)
  | _ => as_map (Cgfx.read_cgfx md b)
  end.

(* ------------------------------------------------------------------ the operations of LayeredFilesystem *)
Definition read_file (md : mode) (S : fsys) (p : str) (loc : bool) : fres bytes := fs_read (lz_decompress md) S p loc.
Definition write_file (mc : mode) (S : fsys) (p : str) (b : bytes) (loc : bool) : fsys * fres unit :=
  fs_write (lz_compress mc) S p b loc.

Definition read_archive (md : mode) (S : fsys) (p : str) (loc : bool) : fres BinArchive.archive :=
  fs_read_archive (lz_decompress md) BinArchive.archive parse_bin S p loc.
Definition read_text_archive (md : mode) (S : fsys) (p : str) (loc : bool) : fres text_archive :=
  fs_read_text_archive (lz_decompress md) text_archive parse_text S p loc.
Definition read_arc (md : mode) (S : fsys) (p : str) (loc : bool) : fres files :=
  fs_read_arc (lz_decompress md) files (parse_arc md) S p loc.
Definition read_fe9_arc (md : mode) (S : fsys) (p : str) (loc : bool) : fres files :=
  fs_read_fe9_arc (lz_decompress md) files (parse_fe9_arc md) S p loc.
Definition read_textures (md : mode) (k : N) (S : fsys) (p : str) (loc : bool) : fres textures :=
  fs_read_textures (lz_decompress md) textures (parse_tex md) k S p loc.
Definition read_tpl_textures (md : mode) := read_textures md 0.
Definition read_bch_textures (md : mode) := read_textures md 1.
Definition read_ctpk_textures (md : mode) := read_textures md 2.
Definition read_cgfx_textures (md : mode) := read_textures md 3.

Definition write_archive (kf : BinFormat.name_key) (mc : mode) (S : fsys) (p : str) (a : BinArchive.archive) (loc : bool) : fsys * fres unit :=
  fs_write_archive (lz_compress mc) BinArchive.archive (ser_bin kf mc) S p a loc.
Definition write_text_archive (kf : BinFormat.name_key) (mc : mode) (S : fsys) (p : str) (a : text_archive) (loc : bool) : fsys * fres unit :=
  fs_write_text_archive (lz_compress mc) text_archive (ser_text kf mc) S p a loc.

(* one typed call of a history (the correspondence kind `fstyped` runs these) *)
Inductive tcall :=
| TRead (p : str) (loc : bool) | TWrite (p : str) (b : bytes) (loc : bool)
| TReadArchive (p : str) (loc : bool) | TReadText (p : str) (loc : bool)
| TReadArc (p : str) (loc : bool) | TReadFe9Arc (p : str) (loc : bool) | TReadTextures (k : N) (p : str) (loc : bool)
| TWriteArchive (p : str) (a : BinArchive.archive) (loc : bool) | TWriteText (p : str) (a : text_archive) (loc : bool).
Inductive tobs :=
| OBytes (r : fres bytes) | OUnit (r : fres unit) | OArchive (r : fres BinArchive.archive) | OText (r : fres text_archive)
| OFiles (r : fres files) | OTextures (r : fres textures).
Definition typed_step (kf : BinFormat.name_key) (mc md : mode) (S : fsys) (o : tcall) : fsys * tobs :=
  match o with
  | TRead p loc => (S, OBytes (read_file md S p loc))
  | TWrite p b loc => let '(S', r) := write_file mc S p b loc in (S', OUnit r)
  | TReadArchive p loc => (S, OArchive (read_archive md S p loc))
  | TReadText p loc => (S, OText (read_text_archive md S p loc))
  | TReadArc p loc => (S, OFiles (read_arc md S p loc))
  | TReadFe9Arc p loc => (S, OFiles (read_fe9_arc md S p loc))
  | TReadTextures k p loc => (S, OTextures (read_textures md k S p loc))
  | TWriteArchive p a loc => let '(S', r) := write_archive kf mc S p a loc in (S', OUnit r)
  | TWriteText p a loc => let '(S', r) := write_text_archive kf mc S p a loc in (S', OUnit r)
  end.
Fixpoint typed_run (kf : BinFormat.name_key) (mc md : mode) (S : fsys) (os : list tcall) : fsys :=
  match os with [] => S | o :: r => typed_run kf mc md (fst (typed_step kf mc md S o)) r end.
