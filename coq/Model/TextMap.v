(* Model of the in-memory API of mila::TextArchive (src/text_archive.rs):
   new, set_title, has_message, delete_message, get_message, set_message, is_dirty,
   get_entries (order of the IndexMap).  Strings are lists of Unicode scalar values (N).
   Definitions only; proofs live in Proofs/TextMapProofs.v. *)
From Coq Require Import List NArith Bool.
Import ListNotations.
Local Open Scope N_scope.

Definition str := list N.

Definition BS : N := 92.   (* backslash *)
Definition LN : N := 110.  (* 'n' *)
Definition NL : N := 10.   (* newline *)

Fixpoint str_eqb (a b : str) : bool :=
  match a, b with
  | [], [] => true
  | x :: a', y :: b' => andb (N.eqb x y) (str_eqb a' b')
  | _, _ => false
  end.

(* message.replace("\\n", "\n"): leftmost, non-overlapping replacement of the
   two-character sequence backslash, 'n' by a newline *)
Fixpoint unescape (s : str) : str :=
  match s with
  | [] => []
  | c1 :: r1 =>
    match r1 with
    | c2 :: r2 => if andb (c1 =? BS) (c2 =? LN) then NL :: unescape r2 else c1 :: unescape r1
    | [] => [c1]
    end
  end.

(* value.replace('\n', "\\n") *)
Fixpoint escape (s : str) : str :=
  match s with
  | [] => []
  | c :: r => if c =? NL then BS :: LN :: escape r else c :: escape r
  end.

Record tmap := { t_title : str; t_entries : list (str * str); t_dirty : bool }.

Definition tm_new : tmap := {| t_title := []; t_entries := []; t_dirty := false |}.

Fixpoint e_lookup (k : str) (es : list (str * str)) : option str :=
  match es with
  | [] => None
  | (k', v) :: r => if str_eqb k k' then Some v else e_lookup k r
  end.

(* IndexMap::entry(k).or_default() followed by assignment: replace in place, else append *)
Fixpoint e_set (k v : str) (es : list (str * str)) : list (str * str) :=
  match es with
  | [] => [(k, v)]
  | (k', v') :: r => if str_eqb k k' then (k', v) :: r else (k', v') :: e_set k v r
  end.

(* IndexMap::shift_remove *)
Fixpoint e_del (k : str) (es : list (str * str)) : list (str * str) :=
  match es with
  | [] => []
  | (k', v') :: r => if str_eqb k k' then r else (k', v') :: e_del k r
  end.

Definition tm_set_title (t : tmap) (s : str) : tmap :=
  {| t_title := s; t_entries := t_entries t; t_dirty := t_dirty t |}.
Definition tm_has (t : tmap) (k : str) : bool :=
  match e_lookup k (t_entries t) with Some _ => true | None => false end.
Definition tm_get (t : tmap) (k : str) : option str :=
  option_map escape (e_lookup k (t_entries t)).
Definition tm_set (t : tmap) (k m : str) : tmap :=
  {| t_title := t_title t; t_entries := e_set k (unescape m) (t_entries t); t_dirty := true |}.
Definition tm_del (t : tmap) (k : str) : tmap :=
  {| t_title := t_title t; t_entries := e_del k (t_entries t); t_dirty := t_dirty t |}.

Inductive top := TSet (k m : str) | TDel (k : str) | THas (k : str) | TGet (k : str) | TTitle (s : str).

Inductive tout := ONone | OBool (b : bool) | OStr (o : option str).

Definition tm_step (t : tmap) (o : top) : tmap * tout :=
  match o with
  | TSet k m => (tm_set t k m, ONone)
  | TDel k => (tm_del t k, ONone)
  | THas k => (t, OBool (tm_has t k))
  | TGet k => (t, OStr (tm_get t k))
  | TTitle s => (tm_set_title t s, ONone)
  end.

Definition tm_run (ops : list top) : tmap := fold_left (fun t o => fst (tm_step t o)) ops tm_new.

Definition tm_keys (t : tmap) : list str := map fst (t_entries t).
