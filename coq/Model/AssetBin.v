(* Model of mila::AssetBinary / mila::AssetSpec (src/asset_binary.rs).  Definitions only.

   An AssetSpec has a name (an always-present string cell that may hold no string), 33
   optional strings and 18 optional typed fields (3 colours, 3 f32, 11 u32, 1 more
   4-byte array) with a `use_*` flag each.  The source unrolls the 51 flagged fields by
   hand THREE times: in the reader (`from_stream`), in the flag computation
   (`compute_flags`) and in the writer (`append`).  The three unrollings are transcribed
   here as three independent tables (r_base/r_ext, f_schema, w_base/w_ext), line by line
   in source order, and the three functions are interpreters of their table written with
   the stream operations of Model/BinStreams.v.  Nothing in this file says the tables
   agree; that is a computed fact in Proofs/AssetBinSchema.v.

   Representation of a spec: fields are addressed by their position in the struct
   declaration (constants below): [sp_strs] = the 33 flagged strings conditional1..voice,
   [sp_typed] = the 18 typed fields hair_color..unk13 as (use flag, 32-bit pattern).
   A colour / `bitflags` array [c0,c1,c2,c3] is carried as c0 + 2^8 c1 + 2^16 c2 + 2^24 c3,
   an f32 as its bit pattern (to_bits).  Strings are Shift-JIS encoded bytes (A-codec). *)
From Coq Require Import List NArith ZArith Bool.
From Mila Require Import Lib.Bytes Lib.Machine Model.BinArchive Model.BinStreams Model.BinFormat.
Import ListNotations.
Local Open Scope N_scope.

Inductive fkind := KColor | KF32 | KU32.

Record spec := mkSpec {
  sp_name : option bytes;
  sp_strs : list (option bytes);
  sp_typed : list (bool * N) }.
Record asset_binary := mkAB { ab_flags : N; ab_specs : list spec }.

Definition N_STRS : nat := 33.
Definition N_TYPED : nat := 18.
(* AssetSpec::new() = Default::default() *)
Definition spec_default : spec :=
  {| sp_name := None; sp_strs := repeat None N_STRS; sp_typed := repeat (false, 0) N_TYPED |}.

(* ---- struct fields, in declaration order (src/asset_binary.rs:7-84) ---- *)
Definition conditional1 := 0%nat.        Definition conditional2 := 1%nat.
Definition body_model := 2%nat.          Definition body_texture := 3%nat.
Definition head_model := 4%nat.          Definition head_texture := 5%nat.
Definition hair_model := 6%nat.          Definition hair_texture := 7%nat.
Definition outer_clothing_model := 8%nat.  Definition outer_clothing_texture := 9%nat.
Definition underwear_model := 10%nat.    Definition underwear_texture := 11%nat.
Definition mount_model := 12%nat.        Definition mount_texture := 13%nat.
Definition mount_outer_clothing_model := 14%nat.  Definition mount_outer_clothing_texture := 15%nat.
Definition weapon_model_dual := 16%nat.  Definition weapon_model := 17%nat.
Definition skeleton := 18%nat.           Definition mount_skeleton := 19%nat.
Definition accessory1_model := 20%nat.   Definition accessory1_texture := 21%nat.
Definition accessory2_model := 22%nat.   Definition accessory2_texture := 23%nat.
Definition accessory3_model := 24%nat.   Definition accessory3_texture := 25%nat.
Definition attack_animation := 26%nat.   Definition attack_animation2 := 27%nat.
Definition visual_effect := 28%nat.      Definition hid := 29%nat.
Definition footstep_sound := 30%nat.     Definition clothing_sound := 31%nat.
Definition voice := 32%nat.
(* typed fields: X is the value, use_X its flag; both live at the same position of sp_typed *)
Definition hair_color := 0%nat.          Definition skin_color := 1%nat.
Definition weapon_trail_color := 2%nat.  Definition model_size := 3%nat.
Definition head_size := 4%nat.           Definition pupil_y := 5%nat.
Definition unk3 := 6%nat.   Definition unk4 := 7%nat.   Definition unk5 := 8%nat.   Definition unk6 := 9%nat.
Definition bitflags := 10%nat.
Definition unk7 := 11%nat.  Definition unk8 := 12%nat.  Definition unk9 := 13%nat.
Definition unk10 := 14%nat. Definition unk11 := 15%nat. Definition unk12 := 16%nat. Definition unk13 := 17%nat.

(* ---- field access ---- *)
Fixpoint upd {A} (n : nat) (f : A -> A) (l : list A) : list A :=
  match l with
  | [] => []
  | x :: r => match n with O => f x :: r | S n' => x :: upd n' f r end
  end.
Definition get_str (sp : spec) (t : nat) : option bytes := nth t (sp_strs sp) None.
Definition get_use (sp : spec) (t : nat) : bool := fst (nth t (sp_typed sp) (false, 0)).
Definition get_val (sp : spec) (t : nat) : N := snd (nth t (sp_typed sp) (false, 0)).
Definition set_name (v : option bytes) (sp : spec) : spec :=
  {| sp_name := v; sp_strs := sp_strs sp; sp_typed := sp_typed sp |}.
Definition set_str (t : nat) (v : option bytes) (sp : spec) : spec :=
  {| sp_name := sp_name sp; sp_strs := upd t (fun _ => v) (sp_strs sp); sp_typed := sp_typed sp |}.
Definition set_use (t : nat) (sp : spec) : spec :=
  {| sp_name := sp_name sp; sp_strs := sp_strs sp; sp_typed := upd t (fun p => (true, snd p)) (sp_typed sp) |}.
Definition set_val (t : nat) (v : N) (sp : spec) : spec :=
  {| sp_name := sp_name sp; sp_strs := sp_strs sp; sp_typed := upd t (fun p => (fst p, v)) (sp_typed sp) |}.

(* ================================================================== reader: from_stream *)
(* one line of from_stream:
     RStr f i            spec.f = read_flag_str(reader, &flags, i)?;
     RTyped b m u v k    if (flags[b] & m) != 0 { spec.use_<u> = true; spec.<v> = read_<k>(reader)?; } *)
Inductive rentry :=
| RStr (target : nat) (index : N)
| RTyped (byte : nat) (mask : N) (use_t val_t : nat) (k : fkind).

(* src/asset_binary.rs:152-185 *)
Definition r_base : list rentry :=
  [ RStr conditional1 1; RStr conditional2 2; RStr body_model 3; RStr body_texture 4;
    RStr head_model 5; RStr head_texture 6; RStr hair_model 7;
    RStr hair_texture 8; RStr outer_clothing_model 9; RStr outer_clothing_texture 10;
    RStr underwear_model 11; RStr underwear_texture 12; RStr mount_model 13; RStr mount_texture 14;
    RStr mount_outer_clothing_model 15;
    RStr mount_outer_clothing_texture 16; RStr weapon_model_dual 17; RStr weapon_model 18; RStr skeleton 19;
    RStr mount_skeleton 20; RStr accessory1_model 21; RStr accessory1_texture 22; RStr accessory2_model 23;
    RStr accessory2_texture 24; RStr accessory3_model 25; RStr accessory3_texture 26; RStr attack_animation 27;
    RStr attack_animation2 28; RStr visual_effect 29; RStr hid 30; RStr footstep_sound 31 ].
(* src/asset_binary.rs:187-262 (inside `if flag_count > 3`) *)
Definition r_ext : list rentry :=
  [ RStr clothing_sound 32; RStr voice 33;
    RTyped 4 4 hair_color hair_color KColor;                    (* flags[4] & 0b100 *)
    RTyped 4 8 skin_color skin_color KColor;                    (* 0b1000 *)
    RTyped 4 16 weapon_trail_color weapon_trail_color KColor;   (* 0b10000 *)
    RTyped 4 32 model_size model_size KF32;                     (* 0b100000 *)
    RTyped 4 64 head_size head_size KF32;                       (* 0b1000000 *)
    RTyped 4 128 pupil_y pupil_y KF32;                          (* 0b10000000 *)
    RTyped 5 1 unk3 unk3 KU32; RTyped 5 2 unk4 unk4 KU32; RTyped 5 4 unk5 unk5 KU32; RTyped 5 8 unk6 unk6 KU32;
    RTyped 5 16 bitflags bitflags KColor;                       (* read_color *)
    RTyped 5 32 unk7 unk7 KU32; RTyped 5 64 unk8 unk8 KU32; RTyped 5 128 unk9 unk9 KU32;
    RTyped 6 1 unk10 unk10 KU32; RTyped 6 2 unk11 unk11 KU32; RTyped 6 4 unk12 unk12 KU32; RTyped 6 8 unk13 unk13 KU32 ].

(* fn read_flag_str(reader, flags, index) *)
Definition read_flag_str (a : archive) (pos : N) (flags : list N) (index : N) : outcome (option bytes) * N :=
  let byte := index / 8 in
  let bit_index := index mod 8 in
  if orb (lenN flags <=? byte) (N.land (nth (N.to_nat byte) flags 0) (N.shiftl 1 bit_index) =? 0)
  then (Ok None, pos)
  else r_read_string a pos.

(* arr.swap(2, 0) on a [u8; 4] *)
Definition swap02 (l : bytes) : bytes := match l with [a; b; c; d] => [c; b; a; d] | _ => l end.
(* fn read_color: read_bytes(4), copy_from_slice (panics unless 4 bytes), swap(2,0) *)
Definition read_color (a : archive) (pos : N) : outcome N * N :=
  match r_read_bytes a pos 4 with
  | (Ok bs, p) => (match bs with [_; _; _; _] => Ok (dec_le (swap02 bs)) | _ => Panic PIndex end, p)
  | (Err e, p) => (Err e, p)
  | (Panic k, p) => (Panic k, p)
  end.
Definition read_typed (k : fkind) (a : archive) (pos : N) : outcome N * N :=
  match k with KColor => read_color a pos | KF32 => r_read_f32 a pos | KU32 => r_read_u32 a pos end.

Fixpoint read_entries (a : archive) (flags : list N) (es : list rentry) (sp : spec) (pos : N) : outcome (spec * N) :=
  match es with
  | [] => Ok (sp, pos)
  | RStr t index :: r =>
    match read_flag_str a pos flags index with
    | (Ok v, p) => read_entries a flags r (set_str t v sp) p
    | (Err e, _) => Err e
    | (Panic k, _) => Panic k
    end
  | RTyped byte mask ut vt k :: r =>
    match nth_error flags byte with
    | None => Panic PIndex                                   (* flags[byte] out of range *)
    | Some fb =>
      if N.land fb mask =? 0 then read_entries a flags r sp pos
      else match read_typed k a pos with
           | (Ok v, p) => read_entries a flags r (set_val vt v (set_use ut sp)) p
           | (Err e, _) => Err e
           | (Panic k', _) => Panic k'
           end
    end
  end.

Definition from_stream_with (rb re : list rentry) (a : archive) (pos : N) : outcome (spec * N) :=
  match r_read_u8 a pos with
  | (Ok raw, p1) =>
    let flag_count := if N.land raw 1 =? 1 then 7 else 3 in
    match r_read_bytes a p1 flag_count with
    | (Ok rest, p2) =>
      let flags := raw :: rest in
      match r_read_string a p2 with
      | (Ok name, p3) =>
        r1 <- read_entries a flags rb (set_name name spec_default) p3 ;;
        if 3 <? flag_count then read_entries a flags re (fst r1) (snd r1) else Ok r1
      | (Err e, _) => Err e
      | (Panic k, _) => Panic k
      end
    | (Err e, _) => Err e
    | (Panic k, _) => Panic k
    end
  | (Err e, _) => Err e
  | (Panic k, _) => Panic k
  end.
Definition from_stream := from_stream_with r_base r_ext.

(* ================================================================== compute_flags *)
(* one line of compute_flags:  flags[b] |= if <source absent> { 0 } else { m };
     FStr f : self.f.is_none()      FUse f : !self.use_f *)
Inductive fsrc := FStr (t : nat) | FUse (t : nat).
Definition fentry := (nat * N * fsrc)%type.

(* src/asset_binary.rs:269-437 *)
Definition fe (byte : nat) (mask : N) (s : fsrc) : fentry := (byte, mask, s).
Definition f_schema : list fentry :=
  [ fe 0 2 (FStr conditional1); fe 0 4 (FStr conditional2); fe 0 8 (FStr body_model); fe 0 16 (FStr body_texture);
    fe 0 32 (FStr head_model); fe 0 64 (FStr head_texture); fe 0 128 (FStr hair_model);
    fe 1 1 (FStr hair_texture); fe 1 2 (FStr outer_clothing_model); fe 1 4 (FStr outer_clothing_texture);
    fe 1 8 (FStr underwear_model); fe 1 16 (FStr underwear_texture); fe 1 32 (FStr mount_model);
    fe 1 64 (FStr mount_texture); fe 1 128 (FStr mount_outer_clothing_model);
    fe 2 1 (FStr mount_outer_clothing_texture); fe 2 2 (FStr weapon_model_dual); fe 2 4 (FStr weapon_model);
    fe 2 8 (FStr skeleton); fe 2 16 (FStr mount_skeleton); fe 2 32 (FStr accessory1_model);
    fe 2 64 (FStr accessory1_texture); fe 2 128 (FStr accessory2_model);
    fe 3 1 (FStr accessory2_texture); fe 3 2 (FStr accessory3_model); fe 3 4 (FStr accessory3_texture);
    fe 3 8 (FStr attack_animation); fe 3 16 (FStr attack_animation2); fe 3 32 (FStr visual_effect);
    fe 3 64 (FStr hid); fe 3 128 (FStr footstep_sound);
    fe 4 1 (FStr clothing_sound); fe 4 2 (FStr voice); fe 4 4 (FUse hair_color); fe 4 8 (FUse skin_color);
    fe 4 16 (FUse weapon_trail_color); fe 4 32 (FUse model_size); fe 4 64 (FUse head_size); fe 4 128 (FUse pupil_y);
    fe 5 1 (FUse unk3); fe 5 2 (FUse unk4); fe 5 4 (FUse unk5); fe 5 8 (FUse unk6); fe 5 16 (FUse bitflags);
    fe 5 32 (FUse unk7); fe 5 64 (FUse unk8); fe 5 128 (FUse unk9);
    fe 6 1 (FUse unk10); fe 6 2 (FUse unk11); fe 6 4 (FUse unk12); fe 6 8 (FUse unk13) ].

Definition src_present (sp : spec) (s : fsrc) : bool :=
  match s with
  | FStr t => match get_str sp t with Some _ => true | None => false end
  | FUse t => get_use sp t
  end.

(* fn count_bits(byte: u8) *)
Definition count_bits (byte : N) : N :=
  fold_left (fun count i => if N.land byte (N.shiftl 1 i) =? 0 then count else count + 1) [0; 1; 2; 3; 4; 5; 6; 7] 0.

Definition raw_flags_with (fs : list fentry) (sp : spec) : list N :=
  fold_left (fun flags (e : fentry) =>
               let '(byte, mask, s) := e in
               upd byte (fun b => N.lor b (if src_present sp s then mask else 0)) flags)
            fs (repeat 0 8%nat).

Definition compute_flags_with (fs : list fentry) (sp : spec) : list N * N :=
  let flags := raw_flags_with fs sp in
  (* if flags[4] == 0 && flags[5] == 0 && flags[6] == 0 { flags.resize(4, 0); } *)
  let flags := if andb (andb (nth 4 flags 0 =? 0) (nth 5 flags 0 =? 0)) (nth 6 flags 0 =? 0) then firstn 4 flags else flags in
  let size := fold_left (fun size flag => size + count_bits flag * 4) flags (lenN flags + 4) in
  let flags := if 4 <? lenN flags then upd 0 (fun b => N.lor b 1) flags else flags in
  (flags, size).
Definition compute_flags := compute_flags_with f_schema.

(* ================================================================== writer: append *)
(* one line of append:
     WStr f         write_flag_str(&mut writer, &self.f)?;
     WTyped u v k   if self.use_<u> { write_<k>(&self.<v>, &mut writer)?; } *)
Inductive wentry := WStr (t : nat) | WTyped (use_t val_t : nat) (k : fkind).

(* src/asset_binary.rs:460-493 *)
Definition w_base : list wentry :=
  [ WStr conditional1; WStr conditional2; WStr body_model; WStr body_texture; WStr head_model; WStr head_texture;
    WStr hair_model;
    WStr hair_texture; WStr outer_clothing_model; WStr outer_clothing_texture; WStr underwear_model;
    WStr underwear_texture; WStr mount_model; WStr mount_texture; WStr mount_outer_clothing_model;
    WStr mount_outer_clothing_texture; WStr weapon_model_dual; WStr weapon_model; WStr skeleton; WStr mount_skeleton;
    WStr accessory1_model; WStr accessory1_texture; WStr accessory2_model;
    WStr accessory2_texture; WStr accessory3_model; WStr accessory3_texture; WStr attack_animation;
    WStr attack_animation2; WStr visual_effect; WStr hid; WStr footstep_sound ].
(* src/asset_binary.rs:495-552 (inside `if flags.len() > 4`) *)
Definition w_ext : list wentry :=
  [ WStr clothing_sound; WStr voice;
    WTyped hair_color hair_color KColor; WTyped skin_color skin_color KColor;
    WTyped weapon_trail_color weapon_trail_color KColor;
    WTyped model_size model_size KF32; WTyped head_size head_size KF32; WTyped pupil_y pupil_y KF32;
    WTyped unk3 unk3 KU32; WTyped unk4 unk4 KU32; WTyped unk5 unk5 KU32; WTyped unk6 unk6 KU32;
    WTyped bitflags bitflags KColor;
    WTyped unk7 unk7 KU32; WTyped unk8 unk8 KU32; WTyped unk9 unk9 KU32;
    WTyped unk10 unk10 KU32; WTyped unk11 unk11 KU32; WTyped unk12 unk12 KU32; WTyped unk13 unk13 KU32 ].

(* fn write_color: arr = *color; arr.swap(2, 0); writer.write_bytes(&arr) *)
Definition write_color (a : archive) (pos v : N) : outcome unit * archive * N :=
  w_write_bytes a pos (swap02 (enc_le 4 v)).
Definition write_typed (k : fkind) (a : archive) (pos v : N) : outcome unit * archive * N :=
  match k with KColor => write_color a pos v | KF32 => w_write_f32 a pos v | KU32 => w_write_u32 a pos v end.

Fixpoint write_entries (es : list wentry) (sp : spec) (a : archive) (pos : N) : outcome unit * archive * N :=
  match es with
  | [] => (Ok tt, a, pos)
  | WStr t :: r =>
    match get_str sp t with
    | Some v =>
      match w_write_string a pos (Some v) with
      | (Ok _, a', p) => write_entries r sp a' p
      | other => other
      end
    | None => write_entries r sp a pos
    end
  | WTyped ut vt k :: r =>
    if get_use sp ut then
      match write_typed k a pos (get_val sp vt) with
      | (Ok _, a', p) => write_entries r sp a' p
      | other => other
      end
    else write_entries r sp a pos
  end.

Definition out_of {A} (r : outcome unit * A * N) : outcome A :=
  match r with (Ok _, a, _) => Ok a | (Err e, _, _) => Err e | (Panic k, _, _) => Panic k end.

Definition append_with (fs : list fentry) (wb we : list wentry) (sp : spec) (a : archive) : outcome archive :=
  let '(flags, sz) := compute_flags_with fs sp in
  let address := size a in
  let a1 := allocate_at_end a sz in
  match w_write_bytes a1 address flags with
  | (Ok _, a2, p2) =>
    match w_write_string a2 p2 (sp_name sp) with
    | (Ok _, a3, p3) =>
      match write_entries wb sp a3 p3 with
      | (Ok _, a4, p4) => if 4 <? lenN flags then out_of (write_entries we sp a4 p4) else Ok a4
      | other => out_of other
      end
    | other => out_of other
    end
  | other => out_of other
  end.
Definition append := append_with f_schema w_base w_ext.

(* ================================================================== AssetBinary *)
(* `while !error { match from_stream { Ok(spec) => push, Err(_) => error = true } }`
   Every successful from_stream consumes at least 8 bytes of a finite region, so the loop
   runs at most size/8 + 1 times; the fuel is never exhausted (Proofs/AssetBinTotal.v). *)
Fixpoint read_specs_with (rb re : list rentry) (fuel : nat) (a : archive) (pos : N) (acc : list spec) : outcome (list spec) :=
  match fuel with
  | O => Err EOutOfFuel
  | S fuel' =>
    match from_stream_with rb re a pos with
    | Ok (sp, p) => read_specs_with rb re fuel' a p (sp :: acc)
    | Err _ => Ok (rev acc)
    | Panic k => Panic k
    end
  end.
Definition from_archive_with (rb re : list rentry) (a : archive) : outcome asset_binary :=
  match r_read_u32 a 0 with
  | (Ok fl, p) =>
    specs <- read_specs_with rb re (S (length (a_data a))) a p [] ;;
    Ok {| ab_flags := fl; ab_specs := specs |}
  | (Err e, _) => Err e
  | (Panic k, _) => Panic k
  end.
Definition from_archive := from_archive_with r_base r_ext.

Fixpoint append_all_with (fs : list fentry) (wb we : list wentry) (specs : list spec) (a : archive) : outcome archive :=
  match specs with
  | [] => Ok a
  | sp :: r => a' <- append_with fs wb we sp a ;; append_all_with fs wb we r a'
  end.
(* the archive AssetBinary::serialize builds before calling archive.serialize() *)
Definition build_with (fs : list fentry) (wb we : list wentry) (b : asset_binary) : outcome archive :=
  let a1 := allocate_at_end (ba_new LE) 4 in
  a2 <- write_u32 a1 0 (ab_flags b) ;;
  a3 <- append_all_with fs wb we (ab_specs b) a2 ;;
  Ok (allocate_at_end a3 4).
Definition build := build_with f_schema w_base w_ext.

Definition serialize (m : mode) (b : asset_binary) : outcome bytes :=
  a <- build b ;; BinFormat.serialize m a.
(* AssetBinary::from_archive(&BinArchive::from_bytes(bytes, Endian::Little)?) *)
Definition parse (f : bytes) : outcome asset_binary :=
  a <- BinFormat.from_bytes LE f ;; from_archive a.
