(* Model of src/layered_filesystem.rs (properties C12, C13 and the file-system half of C14).

   The part of the layered file system that is logic - which layer answers, where a write
   goes, which ancestors are created, what a listing contains, how a path is rewritten,
   which codec a game uses - as pure functions on a tree model of the layer directories.
   std::fs / glob 0.3 / normpath / Path::join are represented by the per-layer functions
   [l_*] below (assumption A-fs; their real behaviour is reached by the correspondence check,
   which runs the real library on real temp directories and compares a full walk of every
   layer after every call).

   - a path string is a list of Unicode scalar values (as in Model/Localize.v); the modelled
     domain is "" (the layer root) and Localize's [SPlain comps trailing] (plain components
     joined by single '/', optional trailing '/'); everything else is [EUnmodelled];
   - a layer is an association list from component lists to [File bytes | Dir]
     (well-formedness [wf_layer] - no duplicates, plain names, ancestors are directories - is an
     invariant proved in Proofs/LayeredFSProofs.v, it is not needed to run the functions);
   - a file system is the list of layers (LAST = highest priority, the one written to) plus
     the configuration selected by [fs_new] from the game, plus the language;
   - the compression codec is a parameter (section variables): the LZ10/LZ13 models live in
     Model/LZ*.v and are plugged in by instantiating the section. *)
From Coq Require Import List NArith Bool Arith.
From Mila Require Import Lib.Bytes Lib.Machine Model.Localize.
Import ListNotations.
Local Open Scope N_scope.

(* ------------------------------------------------------------------ paths *)
Definition name := str.
Definition path := list name.
(* an addressed location: components + "the string ended in '/'" *)
Definition ppath := (path * bool)%type.

Fixpoint path_eqb (a b : path) : bool :=
  match a, b with
  | [], [] => true
  | x :: a', y :: b' => andb (str_eqb x y) (path_eqb a' b')
  | _, _ => false
  end.

(* Path::new(layer).join(s) on the modelled domain *)
Definition parse_path (s : str) : option ppath :=
  match classify s with
  | SEmpty => Some ([], false)          (* join("") = "<layer>/" : the layer root *)
  | SPlain comps tr => Some (comps, tr)
  | _ => None
  end.

(* what the API prints for a component list: components joined by '/' *)
Definition render_path (p : path) : str := join p.

(* all non-empty prefixes of p, shortest first; the proper ones *)
Definition prefixes (p : path) : list path := map (fun n => firstn n p) (seq 1 (length p)).
Definition proper_prefixes (p : path) : list path := map (fun n => firstn n p) (seq 1 (length p - 1)).

(* d is a prefix of q: the remainder *)
Fixpoint strip_prefix (d q : path) : option path :=
  match d, q with
  | [], _ => Some q
  | x :: d', y :: q' => if str_eqb x y then strip_prefix d' q' else None
  | _ :: _, [] => None
  end.

Fixpoint starts_with (pre s : str) : bool :=
  match pre, s with
  | [], _ => true
  | x :: pre', y :: s' => andb (x =? y) (starts_with pre' s')
  | _ :: _, [] => false
  end.
(* str::ends_with *)
Definition ends_with (suf s : str) : bool := starts_with (rev suf) (rev s).

(* ------------------------------------------------------------------ one layer (a directory tree) *)
Inductive entry := File (b : bytes) | Dir.
Definition layer := list (path * entry).

Fixpoint assoc (p : path) (L : layer) : option entry :=
  match L with
  | [] => None
  | (q, e) :: r => if path_eqb p q then Some e else assoc p r
  end.

(* the node at p; the layer root always exists and is a directory *)
Definition l_get (L : layer) (p : path) : option entry :=
  match p with [] => Some Dir | _ => assoc p L end.

Fixpoint l_remove (p : path) (L : layer) : layer :=
  match L with
  | [] => []
  | (q, e) :: r => if path_eqb p q then l_remove p r else (q, e) :: l_remove p r
  end.
Definition l_set (L : layer) (p : path) (e : entry) : layer := (p, e) :: l_remove p L.

(* Path::is_file / is_dir / exists on <layer>/<p>: a trailing '/' only resolves on a directory *)
Definition l_is_file (L : layer) (a : ppath) : bool :=
  match l_get L (fst a) with Some (File _) => negb (snd a) | _ => false end.
Definition l_is_dir (L : layer) (a : ppath) : bool :=
  match l_get L (fst a) with Some Dir => true | _ => false end.
Definition l_exists (L : layer) (a : ppath) : bool := orb (l_is_file L a) (l_is_dir L a).
(* std::fs::read *)
Definition l_read (L : layer) (a : ppath) : option bytes :=
  match l_get L (fst a) with Some (File b) => if snd a then None else Some b | _ => None end.

(* std::fs::create_dir_all: fails, creating nothing, when a component on the way is a file;
   otherwise creates every missing directory *)
Definition is_file_at (L : layer) (q : path) : bool :=
  match l_get L q with Some (File _) => true | _ => false end.
Definition blocked (L : layer) (qs : list path) : bool := existsb (is_file_at L) qs.
Definition mkdir1 (L : layer) (q : path) : layer :=
  match l_get L q with None => (q, Dir) :: L | Some _ => L end.
Definition mkdirs (L : layer) (qs : list path) : layer := fold_left mkdir1 qs L.

(* FileSystemLayer::write: create_dir_all(parent), then std::fs::write.
   Returns the new layer and whether the call succeeded.  Note that the parent directories
   stay created when the final write fails; that can only happen for a path with a trailing
   '/' (for a path without, a failing final write means the target is an existing directory,
   so its ancestors existed already). *)
Definition l_write (L : layer) (a : ppath) (c : bytes) : layer * bool :=
  let '(p, tr) := a in
  if blocked L (proper_prefixes p) then (L, false)
  else
    let L1 := mkdirs L (proper_prefixes p) in
    if tr then (L1, false)
    else match l_get L1 p with
         | Some Dir => (L1, false)                      (* EISDIR; includes the layer root *)
         | _ => (l_set L1 p (File c), true)
         end.

(* FileSystemLayer::create_dir = create_dir_all(<layer>/<p>) *)
Definition l_create_dir (L : layer) (a : ppath) : layer * bool :=
  let p := fst a in
  if blocked L (prefixes p) then (L, false) else (mkdirs L (prefixes p), true).

(* ---- listings ---- *)
(* the glob family of the property: "**/*" (the default), "*", "*.<ext>", "**/*.<ext>", "<name>/*".
   glob 0.3 with default MatchOptions: '*' also matches names with a leading dot, "**/" matches
   zero or more directories, directories are results like files (observed, see notes/fs.md). *)
Inductive pattern := PAll | PStar | PExt (ext : str) | PRecExt (ext : str) | PSub (n : name).

Definition has_ext (ext : str) (n : name) : bool := ends_with (DOT :: ext) n.

(* rel = the entry's path relative to the listed directory *)
Definition matches (pat : pattern) (rel : path) : bool :=
  match pat, rel with
  | PAll, _ :: _ => true
  | PStar, [_] => true
  | PExt e, [n] => has_ext e n
  | PRecExt e, _ :: _ => has_ext e (last rel [])
  | PSub s, [a; _] => str_eqb a s
  | _, _ => false
  end.

(* The caller's pattern string is pasted after the (escaped) directory and handed to glob::glob, which INTERPRETS it.
   The family above is modelled only for arguments that glob reads literally and that stay inside one path component:
   no '*' '?' '[' (the metacharacters of glob 0.3: Pattern::new), no '/' (the component separator), and - excluded as well,
   although glob 0.3.4 on Unix treats them as ordinary characters - no ']' '{' '}' '\' (metacharacters of other glob dialects,
   '\' a separator on Windows).  The <name> of "<name>/*" must moreover be a plain component (not "", "." or "..").
   With any other argument [fs_list] answers [EUnmodelled] (e.g. "*.[t]" selects "b.t" in the code; the literal reading
   would select "c.[t]": review r4, C13-1). *)
Definition glob_special : list N := [42; 63; 91; 93; 123; 125; 92; 47].    (* * ? [ ] { } \ / *)
Definition plain_pattern_arg (s : str) : bool := forallb (fun c => negb (existsb (N.eqb c) glob_special)) s.
Definition wf_pattern (pat : pattern) : bool :=
  match pat with
  | PAll | PStar => true
  | PExt e | PRecExt e => plain_pattern_arg e
  | PSub n => andb (plain n) (plain_pattern_arg n)
  end.

Definition under (pat : pattern) (d q : path) : bool :=
  match strip_prefix d q with Some rel => matches pat rel | None => false end.

(* FileSystemLayer::list: nothing unless <layer>/<d> is a directory; otherwise the entries
   (files and directories) of the layer that glob finds under it, relative to the layer root
   (the layer prefix is stripped at the start only - the repaired code, finding F16) *)
Definition l_list (L : layer) (d : ppath) (pat : pattern) : list path :=
  if l_is_dir L d then filter (under pat (fst d)) (map fst L) else [].

Definition is_dir_entry (e : entry) : bool := match e with Dir => true | File _ => false end.
(* FileSystemLayer::subdirectories: glob "<d>/*" filtered by is_dir *)
Definition l_subdirs (L : layer) (d : ppath) : list path :=
  if l_is_dir L d
  then map fst (filter (fun qe => andb (is_dir_entry (snd qe)) (under PStar (fst d) (fst qe))) L)
  else [].

(* HashSet + Vec::sort on Strings: ascending byte-wise order (UTF-8 preserves the order of
   scalar values, so comparing scalar-value lists is comparing the encoded bytes), no duplicates *)
Fixpoint insert_sorted (s : str) (l : list str) : list str :=
  match l with
  | [] => [s]
  | x :: r => match bytes_cmp s x with
              | Lt => s :: l
              | Eq => l
              | Gt => x :: insert_sorted s r
              end
  end.
Definition sort_dedup (l : list str) : list str := fold_right insert_sorted [] l.

(* ------------------------------------------------------------------ configuration *)
Inductive fsgame := FE9 | FE10 | FE11 | FE12 | FE13 | FE14 | FE15.
Inductive cfmt := LZ10 | LZ13.
Inductive tfmt := ShiftJIS | Unicode.
Record config := mkConfig { c_comp : cfmt; c_loc : game; c_endian : endian; c_text : tfmt }.

Inductive fserr :=
  | ENoLayers | EUnsupportedGame | ENoWriteableLayers
  | ENotFound                      (* LayeredFilesystemError::FileNotFound *)
  | ELocalization (e : lerr)
  | ECompression (e : ekind)
  | EWrite                         (* WriteError *)
  | EIo                            (* IOError (create_dir) *)
  | EParse (e : ekind)             (* archive / texture parse errors of the typed helpers *)
  | EUnmodelled.                   (* path outside the modelled domain *)
Inductive fres (A : Type) := FOk (a : A) | FErr (e : fserr) | FPanic (p : pkind).
Arguments FOk {A} a. Arguments FErr {A} e. Arguments FPanic {A} p.
Definition fbind {A B} (c : fres A) (k : A -> fres B) : fres B :=
  match c with FOk a => k a | FErr e => FErr e | FPanic p => FPanic p end.

(* the four matches of LayeredFilesystem::new, arm by arm *)
Definition comp_of_game (g : fsgame) : option cfmt :=
  match g with
  | FE9 => Some LZ10 | FE10 => Some LZ10
  | FE11 => None | FE12 => None
  | FE13 => Some LZ13 | FE14 => Some LZ13 | FE15 => Some LZ13
  end.
Definition loc_of_game (g : fsgame) : option game :=
  match g with
  | FE9 => Some GFE9 | FE10 => Some GFE10
  | FE11 => None | FE12 => None
  | FE13 => Some GFE13 | FE14 => Some GFE14 | FE15 => Some GFE15
  end.
Definition endian_of_game (g : fsgame) : endian := match g with FE9 | FE10 => BE | _ => LE end.
Definition text_of_game (g : fsgame) : tfmt := match g with FE9 | FE10 => ShiftJIS | _ => Unicode end.

Record fsys := mkFs { layers : list layer; conf : config; lng : lang }.

Definition fs_new (ls : list layer) (l : lang) (g : fsgame) : fres fsys :=
  match ls with
  | [] => FErr ENoLayers
  | _ =>
    match comp_of_game g with
    | None => FErr EUnsupportedGame
    | Some c =>
      match loc_of_game g with
      | None => FErr EUnsupportedGame
      | Some lz => FOk (mkFs ls (mkConfig c lz (endian_of_game g) (text_of_game g)) l)
      end
    end
  end.

(* LZ10CompressionFormat / LZ13CompressionFormat :: is_compressed_filename *)
Definition suffixes (c : cfmt) : list str :=
  match c with
  | LZ10 => [[46; 99; 109; 115]; [46; 99; 109; 112]]   (* ".cms" ".cmp" *)
  | LZ13 => [[46; 108; 122]]                           (* ".lz" *)
  end.
Definition is_compressed (c : cfmt) (p : str) : bool := existsb (fun s => ends_with s p) (suffixes c).

(* ------------------------------------------------------------------ the stack of layers *)
(* `for layer in self.layers.iter().rev() { if P(layer) { return .. } }`:
   the highest-priority layer satisfying P, with its index *)
Fixpoint search_top (P : layer -> bool) (ls : list layer) : option (nat * layer) :=
  match ls with
  | [] => None
  | L :: r =>
    match search_top P r with
    | Some (i, L') => Some (S i, L')
    | None => if P L then Some (O, L) else None
    end
  end.

(* replace the last element *)
Fixpoint set_last (ls : list layer) (L' : layer) : list layer :=
  match ls with
  | [] => []
  | [_] => [L']
  | L :: r => L :: set_last r L'
  end.

(* the path an operation addresses: localized or not, then Path::join *)
Definition fs_actual (S : fsys) (p : str) (loc : bool) : fres str :=
  if loc then
    match localize (c_loc (conf S)) (lng S) p with
    | LOk s => FOk s
    | LErr e => FErr (ELocalization e)
    | LPanic => FPanic PUnwrap       (* to_str().unwrap() in localization.rs; never happens on a str (C14_no_panic) *)
    | LUnmodelled => FErr EUnmodelled
    end
  else FOk p.
Definition fs_addr (S : fsys) (p : str) (loc : bool) : fres (str * ppath) :=
  fbind (fs_actual S p loc) (fun s =>
  match parse_path s with Some a => FOk (s, a) | None => FErr EUnmodelled end).

Definition fs_exists (S : fsys) (p : str) (loc : bool) : fres bool :=
  fbind (fs_addr S p loc) (fun sa =>
  FOk (match search_top (fun L => l_exists L (snd sa)) (layers S) with Some _ => true | None => false end)).
Definition fs_file_exists (S : fsys) (p : str) (loc : bool) : fres bool :=
  fbind (fs_addr S p loc) (fun sa =>
  FOk (match search_top (fun L => l_is_file L (snd sa)) (layers S) with Some _ => true | None => false end)).
Definition fs_directory_exists (S : fsys) (p : str) (loc : bool) : fres bool :=
  fbind (fs_addr S p loc) (fun sa =>
  FOk (match search_top (fun L => l_is_dir L (snd sa)) (layers S) with Some _ => true | None => false end)).
(* resolve: Some(<layer i>/<actual path>); a localisation error is None *)
Definition fs_resolve (S : fsys) (p : str) (loc : bool) : fres (option (nat * str)) :=
  match fs_actual S p loc with
  | FOk s =>
    match parse_path s with
    | Some a => FOk (match search_top (fun L => l_exists L a) (layers S) with
                     | Some (i, _) => Some (i, s) | None => None end)
    | None => FErr EUnmodelled
    end
  | FErr (ELocalization _) => FOk None
  | FErr e => FErr e
  | FPanic k => FPanic k
  end.

Definition fs_list (S : fsys) (d : str) (pat : pattern) (loc : bool) : fres (list str) :=
  fbind (fs_addr S d loc) (fun sa =>
  if wf_pattern pat
  then FOk (sort_dedup (map render_path (flat_map (fun L => l_list L (snd sa) pat) (layers S))))
  else FErr EUnmodelled).
Definition fs_subdirectories (S : fsys) (d : str) (loc : bool) : fres (list str) :=
  fbind (fs_addr S d loc) (fun sa =>
  FOk (sort_dedup (map render_path (flat_map (fun L => l_subdirs L (snd sa)) (layers S))))).

(* create_dir: on the write layer only; the state is returned also on failure *)
Definition fs_create_dir (S : fsys) (p : str) (loc : bool) : fsys * fres unit :=
  match fs_addr S p loc with
  | FOk sa =>
    match rev (layers S) with
    | [] => (S, FPanic PIndex)        (* self.layers[len - 1]; unreachable after fs_new *)
    | top :: _ =>
      let '(top', ok) := l_create_dir top (snd sa) in
      (mkFs (set_last (layers S) top') (conf S) (lng S), if ok then FOk tt else FErr EIo)
    end
  | FErr e => (S, FErr e)
  | FPanic k => (S, FPanic k)
  end.

Section Codec.
  (* the compression codec of the configured format; Model/LZ10.v, LZ11.v provide the instances *)
  Variable compress decompress : cfmt -> bytes -> outcome bytes.

  Definition lift_codec (o : outcome bytes) : fres bytes :=
    match o with Ok b => FOk b | Err e => FErr (ECompression e) | Panic k => FPanic k end.

  (* decode / encode by the name the CALLER used (not the localized one), as the code does *)
  Definition decode_by_name (S : fsys) (p : str) (raw : bytes) : fres bytes :=
    if is_compressed (c_comp (conf S)) p then lift_codec (decompress (c_comp (conf S)) raw) else FOk raw.
  Definition encode_by_name (S : fsys) (p : str) (b : bytes) : fres bytes :=
    if is_compressed (c_comp (conf S)) p then lift_codec (compress (c_comp (conf S)) b) else FOk b.

  Definition fs_read (S : fsys) (p : str) (loc : bool) : fres bytes :=
    fbind (fs_addr S p loc) (fun sa =>
    match search_top (fun L => l_is_file L (snd sa)) (layers S) with
    | Some (_, L) =>
      match l_read L (snd sa) with
      | Some raw => decode_by_name S p raw
      | None => FErr EUnmodelled      (* is_file but unreadable: not in the model *)
      end
    | None => FErr ENotFound
    end).

  Definition fs_write (S : fsys) (p : str) (b : bytes) (loc : bool) : fsys * fres unit :=
    match fs_addr S p loc with
    | FOk sa =>
      match encode_by_name S p b with
      | FOk contents =>
        match rev (layers S) with
        | [] => (S, FErr ENoWriteableLayers)
        | top :: _ =>
          let '(top', ok) := l_write top (snd sa) contents in
          (mkFs (set_last (layers S) top') (conf S) (lng S), if ok then FOk tt else FErr EWrite)
        end
      | FErr e => (S, FErr e)
      | FPanic k => (S, FPanic k)
      end
    | FErr e => (S, FErr e)
    | FPanic k => (S, FPanic k)
    end.

  (* ---- typed helpers: the byte-level operation composed with the configured codec ---- *)
  Section Typed.
    Variables BinA TextA ArcA Tex : Type.
    Variable parse_bin : endian -> bytes -> outcome BinA.              (* BinArchive::from_bytes *)
    Variable parse_text : tfmt -> endian -> bytes -> outcome TextA.    (* TextArchive::from_bytes *)
    Variable parse_arc : bytes -> outcome ArcA.                        (* arc::from_bytes *)
    Variable parse_fe9_arc : bytes -> outcome ArcA.                    (* fe9_arc::parse *)
    Variable parse_tex : N -> bytes -> outcome Tex.                    (* 0 tpl, 1 bch, 2 ctpk, 3 cgfx *)
    Variable ser_bin : BinA -> outcome bytes.                          (* BinArchive::serialize *)
    Variable ser_text : TextA -> outcome bytes.                        (* TextArchive::serialize *)

    Definition lift_parse {A} (o : outcome A) : fres A :=
      match o with Ok a => FOk a | Err e => FErr (EParse e) | Panic k => FPanic k end.

    Definition fs_read_archive (S : fsys) (p : str) (loc : bool) : fres BinA :=
      fbind (fs_read S p loc) (fun b => lift_parse (parse_bin (c_endian (conf S)) b)).
    Definition fs_read_text_archive (S : fsys) (p : str) (loc : bool) : fres TextA :=
      fbind (fs_read S p loc) (fun b => lift_parse (parse_text (c_text (conf S)) (c_endian (conf S)) b)).
    Definition fs_read_arc (S : fsys) (p : str) (loc : bool) : fres ArcA :=
      fbind (fs_read S p loc) (fun b => lift_parse (parse_arc b)).
    Definition fs_read_fe9_arc (S : fsys) (p : str) (loc : bool) : fres ArcA :=
      fbind (fs_read S p loc) (fun b => lift_parse (parse_fe9_arc b)).
    Definition fs_read_textures (k : N) (S : fsys) (p : str) (loc : bool) : fres Tex :=
      fbind (fs_read S p loc) (fun b => lift_parse (parse_tex k b)).
    Definition fs_write_archive (S : fsys) (p : str) (a : BinA) (loc : bool) : fsys * fres unit :=
      match lift_parse (ser_bin a) with
      | FOk b => fs_write S p b loc
      | FErr e => (S, FErr e)
      | FPanic k => (S, FPanic k)
      end.
    Definition fs_write_text_archive (S : fsys) (p : str) (a : TextA) (loc : bool) : fsys * fres unit :=
      match lift_parse (ser_text a) with
      | FOk b => fs_write S p b loc
      | FErr e => (S, FErr e)
      | FPanic k => (S, FPanic k)
      end.
  End Typed.

  (* ---- histories ---- *)
  Inductive op :=
  | ORead (p : str) (loc : bool)
  | OWrite (p : str) (b : bytes) (loc : bool)
  | OCreateDir (p : str) (loc : bool)
  | OExists (p : str) (loc : bool)
  | OFileExists (p : str) (loc : bool)
  | ODirExists (p : str) (loc : bool)
  | OResolve (p : str) (loc : bool)
  | OList (d : str) (pat : pattern) (loc : bool)
  | OSubdirs (d : str) (loc : bool).

  Inductive obs :=
  | VBytes (r : fres bytes) | VUnit (r : fres unit) | VBool (r : fres bool)
  | VResolve (r : fres (option (nat * str))) | VList (r : fres (list str)).

  Definition fs_step (S : fsys) (o : op) : fsys * obs :=
    match o with
    | ORead p loc => (S, VBytes (fs_read S p loc))
    | OWrite p b loc => let '(S', r) := fs_write S p b loc in (S', VUnit r)
    | OCreateDir p loc => let '(S', r) := fs_create_dir S p loc in (S', VUnit r)
    | OExists p loc => (S, VBool (fs_exists S p loc))
    | OFileExists p loc => (S, VBool (fs_file_exists S p loc))
    | ODirExists p loc => (S, VBool (fs_directory_exists S p loc))
    | OResolve p loc => (S, VResolve (fs_resolve S p loc))
    | OList d pat loc => (S, VList (fs_list S d pat loc))
    | OSubdirs d loc => (S, VList (fs_subdirectories S d loc))
    end.

  Fixpoint fs_run (S : fsys) (os : list op) : fsys :=
    match os with [] => S | o :: r => fs_run (fst (fs_step S o)) r end.
End Codec.

(* ------------------------------------------------------------------ executable well-formedness *)
Definition is_dir_at (L : layer) (q : path) : bool :=
  match l_get L q with Some Dir => true | _ => false end.
Fixpoint nodup_keys (L : layer) : bool :=
  match L with
  | [] => true
  | (p, _) :: r => andb (match assoc p r with None => true | Some _ => false end) (nodup_keys r)
  end.
Definition plain_name (c : name) : bool := andb (plain c) (negb (existsb (fun x => x =? SLASH) c)).
Definition wf_layerb (L : layer) : bool :=
  andb (nodup_keys L)
       (forallb (fun qe => andb (match fst qe with [] => false | _ => true end)
                           (andb (forallb plain_name (fst qe))
                                 (forallb (is_dir_at L) (proper_prefixes (fst qe))))) L).
