(* Specification side of C08-C11, written from the description of the LZ10 / LZ11 container and
   from neither program: what a well-formed stream is ([sparse10], [sparse11]: strict parsers) and
   how a token sequence is written down ([senc], [enc_stream]).

   LZ10:  0x10, size (24 bit LE), then groups: one flag byte, then up to eight tokens, bit 7 first;
          flag bit 0 = literal byte; flag bit 1 = two bytes  LD DD : length L+3, displacement DDD+1.
   LZ11:  0x11, size (24 bit LE; if that is 0 the size follows as 32 bit LE), same groups; a
          reference starts with a nibble I:
            I >= 2 : two bytes    ID DD       length I+1            (3..16)
            I = 0  : three bytes  0L LD DD    length LL+0x11        (17..272)
            I = 1  : four bytes   1L LL LD DD length LLLL+0x111     (273..65808)
          displacement DDD+1 in every form.
   A reference with displacement d copies from d bytes behind the write position, byte by byte
   (LZCore.expand); it is legal only if d <= number of bytes produced so far.  The stream ends
   exactly when [size] bytes have been produced: no token may overshoot, no byte may be left over. *)
From Coq Require Import List NArith Bool.
From Mila Require Import Lib.Bytes Model.LZCore.
Import ListNotations.
Local Open Scope N_scope.

Inductive version := V10 | V11.

(* one reference token: (length, displacement, remaining bytes) *)
Definition stoken (v : version) (bs : list N) : option (N * N * list N) :=
  match bs with
  | b0 :: b1 :: r =>
    match v with
    | V10 => Some (b0 / 16 + 3, (b0 mod 16) * 256 + b1 + 1, r)
    | V11 =>
      if 2 <=? b0 / 16 then Some (b0 / 16 + 1, (b0 mod 16) * 256 + b1 + 1, r)
      else if b0 / 16 =? 0 then
        match r with
        | b2 :: r' => Some ((b0 mod 16) * 16 + b1 / 16 + 17, (b1 mod 16) * 256 + b2 + 1, r')
        | [] => None
        end
      else
        match r with
        | b2 :: b3 :: r' => Some ((b0 mod 16) * 4096 + b1 * 16 + b2 / 16 + 273, (b2 mod 16) * 256 + b3 + 1, r')
        | _ => None
        end
    end
  | _ => None
  end.

(* up to [k] tokens under one flag byte (bit k-1 first); stops when [total] bytes are produced.
   Result: tokens, remaining input, bytes produced. *)
Fixpoint sgroup (v : version) (k : nat) (flag : N) (bs : list N) (prod total : N)
  : option (list token * list N * N) :=
  match k with
  | O => Some ([], bs, prod)
  | S bit =>
    if total <=? prod then Some ([], bs, prod) else
    if N.testbit flag (N.of_nat bit) then
      match stoken v bs with
      | Some (len, disp, bs') =>
        if disp <=? prod then                                   (* reaches only into data already produced *)
          match sgroup v bit flag bs' (prod + len) total with
          | Some (ts, r, p) => Some (Ref (N.to_nat len) (N.to_nat disp) :: ts, r, p)
          | None => None
          end
        else None
      | None => None
      end
    else
      match bs with
      | b :: bs' =>
        match sgroup v bit flag bs' (prod + 1) total with
        | Some (ts, r, p) => Some (Lit b :: ts, r, p)
        | None => None
        end
      | [] => None
      end
  end.

Fixpoint sgroups (v : version) (fuel : nat) (bs : list N) (prod total : N) : option (list token) :=
  if prod =? total then (match bs with [] => Some [] | _ => None end)       (* nothing left over *)
  else if total <? prod then None                                           (* a token overshot the size *)
  else
    match fuel, bs with
    | S f, flag :: bs' =>
      match sgroup v 8 flag bs' prod total with
      | Some (ts, r, p) =>
        match sgroups v f r p total with Some ts' => Some (ts ++ ts') | None => None end
      | None => None
      end
    | _, _ => None
    end.

Definition sbody (v : version) (bs : list N) (total : N) : option (list token) :=
  sgroups v (S (length bs)) bs 0 total.

(* (announced size, tokens) of a well-formed LZ10 stream *)
Definition sparse10 (s : list N) : option (N * list token) :=
  if negb (wfbb s) then None else
  match s with
  | 0x10 :: l0 :: l1 :: l2 :: body =>
    let n := l0 + 256 * l1 + 65536 * l2 in
    match sbody V10 body n with Some ts => Some (n, ts) | None => None end
  | _ => None
  end.

(* ... of a well-formed LZ11 stream, either header form *)
Definition sparse11 (s : list N) : option (N * list token) :=
  if negb (wfbb s) then None else
  match s with
  | 0x11 :: l0 :: l1 :: l2 :: body =>
    let n := l0 + 256 * l1 + 65536 * l2 in
    if n =? 0 then
      match body with
      | m0 :: m1 :: m2 :: m3 :: body' =>
        let n' := m0 + 256 * m1 + 65536 * m2 + 16777216 * m3 in
        match sbody V11 body' n' with Some ts => Some (n', ts) | None => None end
      | _ => None
      end
    else
      match sbody V11 body n with Some ts => Some (n, ts) | None => None end
  | _ => None
  end.

(* ---- writing a token sequence down (for "every conforming stream" in C11) ---- *)
Definition senc (v : version) (t : token) : list N :=
  match t with
  | Lit b => [b]
  | Ref len disp =>
    let len := N.of_nat len in
    let d := N.of_nat disp - 1 in
    match v with
    | V10 => [(len - 3) * 16 + d / 256; d mod 256]
    | V11 =>
      if len <=? 16 then [(len - 1) * 16 + d / 256; d mod 256]
      else if len <=? 272 then [(len - 17) / 16; ((len - 17) mod 16) * 16 + d / 256; d mod 256]
      else [16 + (len - 273) / 4096; ((len - 273) / 16) mod 256; ((len - 273) mod 16) * 16 + d / 256; d mod 256]
    end
  end.

(* flag byte of a group of at most eight tokens: bit 7 for the first one *)
Fixpoint flag_of (k : N) (g : list token) : N :=
  match g with
  | [] => 0
  | t :: r => let f := flag_of (k + 1) r in if is_ref t then N.setbit f (7 - k) else f
  end.

Fixpoint enc_groups (tb : token -> list N) (fuel : nat) (ts : list token) : list N :=
  match fuel, ts with
  | _, [] => []
  | O, _ => []
  | S f, _ => let g := firstn 8 ts in
              flag_of 0 g :: concat (map tb g) ++ enc_groups tb f (skipn 8 ts)
  end.
Definition enc_body (tb : token -> list N) (ts : list token) : list N := enc_groups tb (length ts) ts.

(* token legality: literal is a byte; reference has a length of the format and reaches back
   at most to the start of the output ([prod] = bytes produced before the token) *)
Definition max_len (v : version) : nat := match v with V10 => 18%nat | V11 => N.to_nat 65808 end.
Fixpoint valid_from (v : version) (prod : nat) (ts : list token) : Prop :=
  match ts with
  | [] => True
  | Lit b :: r => b < 256 /\ valid_from v (S prod) r
  | Ref len disp :: r =>
    (3 <= len <= max_len v)%nat /\ (1 <= disp <= 4096)%nat /\ (disp <= prod)%nat /\ valid_from v (prod + len) r
  end.
Definition valid (v : version) (ts : list token) : Prop := valid_from v 0 ts.

(* the two headers of C11 *)
Definition sheader (v : version) (ext : bool) (n : N) : list N :=
  match v with
  | V10 => 0x10 :: enc_le 3 n
  | V11 => if ext then 0x11 :: 0 :: 0 :: 0 :: enc_le 4 n else 0x11 :: enc_le 3 n
  end.
