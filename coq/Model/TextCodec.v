(* UTF-16 side of src/encoded_strings.rs on Unicode scalar values, and the bridge between the in-memory text
   archive of Model/TextMap.v (C07: strings = lists of Unicode scalar values) and the ENCODED text archive that
   Model/TextFormat.v serializes (C06: title / keys = Shift-JIS bytes, Unicode messages = UTF-16 code units).

     utf16_encode   str::encode_utf16 (used by to_utf_16)
     utf16_decode   UTF_16LE.decode_without_bom_handling + the `errors` flag of read_utf_16_impl:
                    None = DecodingFailed (an unpaired surrogate)
     encode_text    what TextArchive::serialize does to title, keys and messages before writing them, for the Unicode
                    format and keys / title in the ASCII range 1..127, on which Shift-JIS (WHATWG, encoding_rs) is the
                    identity; encode_text_fmt: also the legacy format with ASCII messages (identity)
     history_file   new -> any sequence of set_message / delete_message / set_title / ... -> serialize
     parse_text     from_bytes, decoded back to scalar values (get_title / get_entries)
   Definitions only; proofs in Proofs/Utf16Proofs.v and Proofs/TextHistory.v. *)
From Coq Require Import List NArith Bool.
From Mila Require Import Lib.Bytes Lib.Machine Model.TextMap Model.TextFormat.
Import ListNotations.
Local Open Scope N_scope.

Definition encode_char (c : N) : list N :=
  if c <? 0x10000 then [c]
  else let v := c - 0x10000 in [0xD800 + v / 0x400; 0xDC00 + v mod 0x400].
Definition utf16_encode (s : str) : list N := flat_map encode_char s.

Fixpoint utf16_decode (us : list N) : option str :=
  match us with
  | [] => Some []
  | u :: r =>
    if is_high u then
      match r with
      | l :: r' =>
        if is_low l then option_map (cons (0x10000 + (u - 0xD800) * 0x400 + (l - 0xDC00))) (utf16_decode r')
        else None
      | [] => None
      end
    else if is_low u then None
    else option_map (cons u) (utf16_decode r)
  end.

Definition encode_text (t : tmap) : tmap :=
  {| t_title := t_title t;
     t_entries := map (fun kv : str * str => (fst kv, utf16_encode (snd kv))) (t_entries t);
     t_dirty := t_dirty t |}.

Fixpoint decode_entries (es : list (str * str)) : option (list (str * str)) :=
  match es with
  | [] => Some []
  | (k, us) :: r =>
    match utf16_decode us, decode_entries r with
    | Some m, Some r' => Some ((k, m) :: r')
    | _, _ => None
    end
  end.
Definition decode_text (t : tmap) : option tmap :=
  option_map (fun es => {| t_title := t_title t; t_entries := es; t_dirty := t_dirty t |}) (decode_entries (t_entries t)).

(* per format: the legacy format passes messages through to_shift_jis as well (identity on ASCII) and stores no title *)
Definition encode_text_fmt (fmt : tformat) (t : tmap) : tmap :=
  match fmt with Unicode => encode_text t | ShiftJIS => t end.
Definition decode_text_fmt (fmt : tformat) (t : tmap) : option tmap :=
  match fmt with Unicode => decode_text t | ShiftJIS => Some t end.

Definition history_file (kf : BinFormat.name_key) (m : mode) (fmt : tformat) (e : endian) (ops : list top) : outcome bytes :=
  TextFormat.serialize kf m fmt e (encode_text_fmt fmt (tm_run ops)).
Definition parse_text (fmt : tformat) (e : endian) (f : bytes) : outcome (option tmap) :=
  t <- TextFormat.from_bytes fmt e f ;; Ok (decode_text_fmt fmt t).
