(* Model of src/etc1.rs (ETC1 / ETC1A4 decoding as the 3DS stores it: 8x8 tiles of 2x2 blocks of
   4x4 texels, each block a little-endian u64, ETC1A4 with a u64 of 4-bit alphas in front).
   Definitions only.  The model describes the REPAIRED code (finding F15): the second base colour of
   a differential block is computed with `wrapping_add`; the pre-repair expression is kept as
   [diff_second_prefix] so that the defect stays visible (Proofs/Etc1Proofs.v, F15_witness). *)
From Coq Require Import List NArith ZArith Arith Bool.
From Mila Require Import Lib.Bytes Lib.Machine Model.Pixel.
Import ListNotations.
Local Open Scope N_scope.

(* get_etc_modifiers_table *)
Definition ETC_MODIFIERS : list (Z * Z) :=
  [(2, 8); (5, 17); (9, 29); (13, 42); (18, 60); (24, 80); (33, 106); (47, 183)]%Z.
(* table[idx] with table = &modifiers[t] *)
Definition modifier (t idx : N) : Z :=
  let '(a, b) := nth (N.to_nat t) ETC_MODIFIERS (0, 0)%Z in if idx =? 0 then a else b.

(* complement(input: u8, bits: u8) -> u8 : sign extension by wrapping subtraction *)
Definition complement (input bits : N) : N :=
  if shr input (bits - 1) =? 0 then input else (input + 256 - as_u8 (shl 1 bits)) mod 256.

(* (r << 3) | ((r >> 2) & 7) on u8 *)
Definition ext5 (r : N) : N := bor (as_u8 (shl r 3)) (band (shr r 2) 7).
(* ((field) * 0x11) as u8 *)
Definition ext4 (v : N) : N := as_u8 (v * 0x11).

(* r.wrapping_add(complement(c, 3))   -- repaired *)
Definition diff_second (r c : N) : N := (r + complement c 3) mod 256.
(* r + complement(c, 3)               -- before the repair: u8 addition under the build's mode *)
Definition diff_second_prefix (m : mode) (r c : N) : outcome N := add_w W8 m r (complement c 3).

(* color1, color2 of a block *)
Definition block_colors (pixels : N) : list N * list N :=
  if band (shr pixels 33) 1 =? 1 then
    let r := band (shr pixels 59) 0x1F in
    let g := band (shr pixels 51) 0x1F in
    let b := band (shr pixels 43) 0x1F in
    let r2 := diff_second r (band (shr pixels 56) 7) in
    let g2 := diff_second g (band (shr pixels 48) 7) in
    let b2 := diff_second b (band (shr pixels 40) 7) in
    ([ext5 r; ext5 g; ext5 b], [ext5 r2; ext5 g2; ext5 b2])
  else
    ([ext4 (band (shr pixels 60) 0xF); ext4 (band (shr pixels 52) 0xF); ext4 (band (shr pixels 44) 0xF)],
     [ext4 (band (shr pixels 56) 0xF); ext4 (band (shr pixels 48) 0xF); ext4 (band (shr pixels 40) 0xF)]).

Definition block_colors_prefix (m : mode) (pixels : N) : outcome (list N * list N) :=
  if band (shr pixels 33) 1 =? 1 then
    let r := band (shr pixels 59) 0x1F in
    let g := band (shr pixels 51) 0x1F in
    let b := band (shr pixels 43) 0x1F in
    r2 <- diff_second_prefix m r (band (shr pixels 56) 7) ;;
    g2 <- diff_second_prefix m g (band (shr pixels 48) 7) ;;
    b2 <- diff_second_prefix m b (band (shr pixels 40) 7) ;;
    Ok ([ext5 r; ext5 g; ext5 b], [ext5 r2; ext5 g2; ext5 b2])
  else Ok (block_colors pixels).

(* (x as i32 + amount).min(0xFF).max(0) as u8 *)
Definition clamp_u8 (z : Z) : N := Z.to_N (Z.max 0 (Z.min 255 z)).

(* the colour written for texel (pixel_x, pixel_y) of a block *)
Definition texel (pixels alphas : N) (c1 c2 : list N) (px py : N) : color :=
  let horizontal := band (shr pixels 32) 1 =? 1 in
  let t1 := band (shr pixels 37) 7 in
  let t2 := band (shr pixels 34) 7 in
  let amounts := band pixels 0xFFFF in
  let signs := band (shr pixels 16) 0xFFFF in
  let offset := px * 4 + py in
  let first := if horizontal then py <? 2 else px <? 2 in
  let table := if first then t1 else t2 in
  let col := if first then c1 else c2 in
  let sign := band (shr signs offset) 1 in
  let mag := modifier table (band (shr amounts offset) 1) in
  let amount := if sign =? 1 then (- mag)%Z else mag in
  let ch (i : nat) := clamp_u8 (Z.of_N (nth i col 0) + amount) in
  [ch 0%nat; ch 1%nat; ch 2%nat; as_u8 (band (shr alphas (offset * 4)) 0xF * 0x11)].

(* the 16 texels of a block in loop order (pixel_y outer, pixel_x inner = row-major) *)
Definition decode_block (alphas pixels : N) : list color :=
  let '(c1, c2) := block_colors pixels in
  flat_map (fun py => map (fun px => texel pixels alphas c1 c2 (N.of_nat px) (N.of_nat py)) (seq 0 4)) (seq 0 4).

(* 1 << (((d as f64) / 8.0).ceil().log2() as usize)   (assumption A-float: ceil and log2 exact;
   log2(0) = -inf casts to 0) *)
Definition etc_tiles (d : N) : N :=
  let c := (d + 7) / 8 in if c =? 0 then 1 else 2 ^ N.log2 c.

(* iteration space of the four outer loops in loop order *)
Definition etc_blocks (tw th : nat) : list (nat * nat * nat * nat) :=
  flat_map (fun ty => flat_map (fun tx => flat_map (fun by_ => map (fun bx => (ty, tx, by_, bx)) (seq 0 2)) (seq 0 2))
    (seq 0 tw)) (seq 0 th).

(* pixel writes of one block, in loop order; texels outside the image are skipped *)
Definition block_writes (w h : N) (alphas pixels : N) (blk : nat * nat * nat * nat) : list (N * color) :=
  let '(ty, tx, by_, bx) := blk in
  let texels := decode_block alphas pixels in
  flat_map (fun py => flat_map (fun px =>
    let x := N.of_nat px + N.of_nat bx * 4 + N.of_nat tx * 8 in
    let y := N.of_nat py + N.of_nat by_ * 4 + N.of_nat ty * 8 in
    if (w <=? x) || (h <=? y) then []
    else [(y * w + x, nth (py * 4 + px) texels ZERO_PX)]) (seq 0 4)) (seq 0 4).

Fixpoint apply_writes (blen : N) (ws : list (N * color)) (bmp : list color) : outcome (list color) :=
  match ws with
  | [] => Ok bmp
  | (d, c) :: r => if d <? blen then apply_writes blen r (upd (N.to_nat d) c bmp) else Panic PIndex
  end.

(* &pixel_data[data_pos..data_pos + size] and the two u64 reads; None = slice out of range (panic) *)
Definition take_block (alpha : bool) (rest : bytes) : option (N * N * bytes) :=
  if alpha then
    match rest with
    | a0 :: a1 :: a2 :: a3 :: a4 :: a5 :: a6 :: a7 :: p0 :: p1 :: p2 :: p3 :: p4 :: p5 :: p6 :: p7 :: r =>
      Some (dec_le [a0; a1; a2; a3; a4; a5; a6; a7], dec_le [p0; p1; p2; p3; p4; p5; p6; p7], r)
    | _ => None
    end
  else
    match rest with
    | p0 :: p1 :: p2 :: p3 :: p4 :: p5 :: p6 :: p7 :: r =>
      Some (0xFFFFFFFFFFFFFFFF, dec_le [p0; p1; p2; p3; p4; p5; p6; p7], r)
    | _ => None
    end.

Fixpoint etc_loop (alpha : bool) (w h blen : N) (blocks : list (nat * nat * nat * nat)) (rest : bytes)
                  (bmp : list color) : outcome (list color) :=
  match blocks with
  | [] => Ok bmp
  | blk :: bs =>
    match take_block alpha rest with
    | None => Panic PIndex
    | Some (alphas, pixels, rest') =>
      bmp' <- apply_writes blen (block_writes w h alphas pixels blk) bmp ;;
      etc_loop alpha w h blen bs rest' bmp'
    end
  end.

Definition etc1_decode_pixels (m : mode) (data : bytes) (width height : N) (alpha : bool) : outcome (list color) :=
  t <- mul_w W64 m 4 width ;;
  _ <- mul_w W64 m t height ;;
  let np := width * height in
  if ALLOC_LIMIT <=? np then Panic PAlloc else
  let tw := etc_tiles width in
  let th := etc_tiles height in
  let bs := if alpha then 16 else 8 in
  if th * tw * 4 * bs <=? lenN data then
    etc_loop alpha width height np (etc_blocks (N.to_nat tw) (N.to_nat th)) data (repeat ZERO_PX (N.to_nat np))
  else Panic PIndex.

(* etc1::decode *)
Definition etc1_decode (m : mode) (data : bytes) (width height : N) (alpha : bool) : outcome bytes :=
  px <- etc1_decode_pixels m data width height alpha ;; Ok (flatten px).

(* texture_decoder::decode_pixel_data *)
Definition decode_pixels (m : mode) (data : bytes) (width height format : N) : outcome (list color) :=
  if format <=? 11 then decode_rgba_pixels m data width height format
  else if format =? 12 then etc1_decode_pixels m data width height false
  else if format =? 13 then etc1_decode_pixels m data width height true
  else Err EOther.
Definition decode_pixel_data (m : mode) (data : bytes) (width height format : N) : outcome bytes :=
  px <- decode_pixels m data width height format ;; Ok (flatten px).
