(* Model of the FILE side of mila::TextArchive (src/text_archive.rs: serialize, from_archive,
   from_bytes) and of the string readers it uses (src/encoded_strings.rs: the
   EncodedStringReader impl for BinArchiveReader, to_utf_16).  Definitions only.
   The in-memory API (set_message, ...) is Model/TextMap.v; the record [tmap] is shared.

   Strings are ENCODED (DESIGN 1.4, assumption A-codec):
   - title and keys: the Shift-JIS byte list encoding_rs produces (labels of the bin archive);
   - a message of the legacy format (ShiftJIS): its Shift-JIS byte list;
   - a message of the Unicode format: its list of UTF-16 code units (numbers < 65536).
     `to_utf_16` writes every unit little-endian whatever the archive's endianness is, and
     `read_utf_16_impl` reads byte pairs and decodes them as UTF-16LE.
   Repaired code: F10 (the zero-length write on an empty archive is skipped), F11 (UTF-16 is
   decoded without BOM sniffing: the units are returned as they are; the only decoding error
   is an unpaired surrogate).
   Loops over the data region run on explicit fuel [S (length data)]; Proofs/TextTotal.v shows
   that [Err EOutOfFuel] is never produced. *)
From Coq Require Import List NArith ZArith Bool.
From Mila Require Import Lib.Bytes Lib.Machine Model.BinArchive Model.BinStreams Model.BinFormat Model.TextMap.
Import ListNotations.
Local Open Scope N_scope.

Inductive tformat := ShiftJIS | Unicode.

(* ------------------------------------------------------------------ writer *)
(* to_utf_16: string.encode_utf16().map(|x| x.to_le_bytes()) *)
Definition units_le (us : list N) : bytes := flat_map (fun u => enc LE 2 u) us.

(* write_shift_jis_string(&mut bytes, s): extend, push 0, pad the WHOLE buffer to a multiple of 4 *)
Definition write_shift_jis_string (buf : bytes) (s : bytes) : bytes := pad_to 4 (buf ++ s ++ [0]).
(* write_utf_16_string: extend, push 0, push 0, pad *)
Definition write_utf_16_string (buf : bytes) (us : list N) : bytes := pad_to 4 (buf ++ units_le us ++ [0; 0]).
Definition write_message (fmt : tformat) (buf : bytes) (m : list N) : bytes :=
  match fmt with ShiftJIS => write_shift_jis_string buf m | Unicode => write_utf_16_string buf m end.

(* the loop `for (key, value) in &self.entries`: label_info.push((key, bytes.len())); write value *)
Definition layout_step (fmt : tformat) (st : bytes * list (bytes * N)) (kv : str * str) : bytes * list (bytes * N) :=
  (write_message fmt (fst st) (snd kv), snd st ++ [(fst kv, lenN (fst st))]).
Definition layout (fmt : tformat) (t : tmap) : bytes * list (bytes * N) :=
  let b0 := match fmt with Unicode => write_shift_jis_string [] (t_title t) | ShiftJIS => [] end in
  fold_left (layout_step fmt) (t_entries t) (b0, []).

(* for (label, address) in label_info { archive.write_label(address, label)?; } *)
Fixpoint write_label_all (a : archive) (info : list (bytes * N)) : outcome archive :=
  match info with
  | [] => Ok a
  | (l, address) :: r => a' <- write_label a address l ;; write_label_all a' r
  end.

(* the BinArchive handed to archive.serialize() *)
Definition build_archive (fmt : tformat) (e : endian) (t : tmap) : outcome archive :=
  let '(bs, info) := layout fmt t in
  let a0 := allocate_at_end (ba_new e) (lenN bs) in
  a1 <- match bs with [] => Ok a0 | _ :: _ => write_bytes a0 0 bs end ;;   (* fix F10: nothing to write *)
  write_label_all a1 info.

(* [kf]: the sort key of label names (the message keys), see Model/BinFormat.v [name_key] *)
Definition serialize (kf : name_key) (m : mode) (fmt : tformat) (e : endian) (t : tmap) : outcome bytes :=
  a <- build_archive fmt e t ;; BinFormat.serialize_k kf m a.

(* ------------------------------------------------------------------ string readers *)
(* while self.tell() % 4 != 0 { self.skip(1) } : at most three steps *)
Fixpoint skip_to_4 (n : nat) (pos : N) : N :=
  match n with
  | O => pos
  | S n' => if pos mod 4 =? 0 then pos else skip_to_4 n' (pos + 1)
  end.
Definition align4 (pos : N) : N := skip_to_4 3 pos.

(* read_shift_jis_impl(|| self.read_u8()): bytes up to the first 0; any read error is UnterminatedString *)
Fixpoint read_sjis_loop (fuel : nat) (a : archive) (pos : N) (acc : bytes) : outcome bytes * N :=
  match fuel with
  | O => (Err EOutOfFuel, pos)
  | S f =>
    match r_read_u8 a pos with
    | (Ok v, p) => if v =? 0 then (Ok (rev acc), p) else read_sjis_loop f a p (v :: acc)
    | (Err _, p) => (Err EUnterminated, p)
    | (Panic k, p) => (Panic k, p)
    end
  end.
Definition r_read_shift_jis_string (fuel : nat) (a : archive) (pos : N) : outcome bytes * N :=
  match read_sjis_loop fuel a pos [] with
  | (Ok s, p) => (Ok s, align4 p)
  | other => other
  end.

(* UTF-16 well-formedness = what UTF_16LE.decode_without_bom_handling reports as `errors`:
   every high surrogate is followed by a low surrogate and no low surrogate stands alone *)
Definition is_high (u : N) : bool := andb (0xD800 <=? u) (u <=? 0xDBFF).
Definition is_low (u : N) : bool := andb (0xDC00 <=? u) (u <=? 0xDFFF).
Fixpoint utf16_valid (us : list N) : bool :=
  match us with
  | [] => true
  | u :: r =>
    if is_high u then match r with l :: r' => andb (is_low l) (utf16_valid r') | [] => false end
    else if is_low u then false else utf16_valid r
  end.

(* read_utf_16_impl: two read_u8 calls per step (both are made before either result is looked at);
   a pair of zero bytes ends the string *)
Fixpoint read_utf16_loop (fuel : nat) (a : archive) (pos : N) (acc : list N) : outcome (list N) * N :=
  match fuel with
  | O => (Err EOutOfFuel, pos)
  | S f =>
    let '(r1, p1) := r_read_u8 a pos in
    let '(r2, p2) := r_read_u8 a p1 in
    match r1, r2 with
    | Panic k, _ => (Panic k, p2)
    | _, Panic k => (Panic k, p2)
    | Ok b1, Ok b2 =>
      if andb (b1 =? 0) (b2 =? 0) then (Ok (rev acc), p2) else read_utf16_loop f a p2 ((b1 + 256 * b2) :: acc)
    | _, _ => (Err EUnterminated, p2)
    end
  end.
Definition r_read_utf_16_string (fuel : nat) (a : archive) (pos : N) : outcome (list N) * N :=
  match read_utf16_loop fuel a pos [] with
  | (Ok us, p) => if utf16_valid us then (Ok us, align4 p) else (Err EDecoding, p)
  | other => other
  end.

Definition r_read_message (fmt : tformat) (fuel : nat) (a : archive) (pos : N) : outcome (list N) * N :=
  match fmt with ShiftJIS => r_read_shift_jis_string fuel a pos | Unicode => r_read_utf_16_string fuel a pos end.

(* ------------------------------------------------------------------ from_archive *)
(* while reader.tell() < archive.size() { labels; message; if let Some(k) = labels.first() { insert } } *)
Fixpoint walk (fuel sfuel : nat) (fmt : tformat) (a : archive) (pos : N) (acc : list (str * str)) : outcome (list (str * str)) :=
  match fuel with
  | O => Err EOutOfFuel
  | S f =>
    if pos <? size a then
      labels <- fst (r_read_labels a pos) ;;
      let '(rm, p) := r_read_message fmt sfuel a pos in
      msg <- rm ;;
      walk f sfuel fmt a p
           (match labels with
            | Some (k :: _) => e_set k msg acc       (* IndexMap::insert: replace in place, else append *)
            | _ => acc
            end)
    else Ok acc
  end.

(* the (first label, message) pairs in the order the loop meets them, before insertion into the map
   (observed by the C05 correspondence, where two different raw keys may decode to one string) *)
Fixpoint walk_trace (fuel sfuel : nat) (fmt : tformat) (a : archive) (pos : N) (acc : list (str * str)) : outcome (list (str * str)) :=
  match fuel with
  | O => Err EOutOfFuel
  | S f =>
    if pos <? size a then
      labels <- fst (r_read_labels a pos) ;;
      let '(rm, p) := r_read_message fmt sfuel a pos in
      msg <- rm ;;
      walk_trace f sfuel fmt a p (match labels with Some (k :: _) => (k, msg) :: acc | _ => acc end)
    else Ok (rev acc)
  end.

Definition data_fuel (a : archive) : nat := S (length (a_data a)).

Definition read_title (fmt : tformat) (fuel : nat) (a : archive) : outcome str * N :=
  match fmt with
  | Unicode => r_read_shift_jis_string fuel a 0
  | ShiftJIS => (Ok [], 0)
  end.

Definition from_archive (fmt : tformat) (a : archive) : outcome tmap :=
  let fuel := data_fuel a in
  let '(rt, p) := read_title fmt fuel a in
  title <- rt ;;
  es <- walk fuel fuel fmt a p [] ;;
  Ok {| t_title := title; t_entries := es; t_dirty := false |}.

Definition from_archive_trace (fmt : tformat) (a : archive) : outcome (str * list (str * str)) :=
  let fuel := data_fuel a in
  let '(rt, p) := read_title fmt fuel a in
  title <- rt ;;
  es <- walk_trace fuel fuel fmt a p [] ;;
  Ok (title, es).

Definition from_bytes (fmt : tformat) (e : endian) (f : bytes) : outcome tmap :=
  a <- BinFormat.from_bytes e f ;; from_archive fmt a.
Definition from_bytes_trace (fmt : tformat) (e : endian) (f : bytes) : outcome (str * list (str * str)) :=
  a <- BinFormat.from_bytes e f ;; from_archive_trace fmt a.
