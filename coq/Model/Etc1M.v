(* Moded model of src/etc1.rs: the same decoder as Model/Etc1.v with EVERY machine operation that can overflow its Rust type
   in the Machine monad (conventions of Model/PixelM.v): u64 shifts with constant and COMPUTED amounts (`signs >> offset`,
   `alphas >> (offset * 4)`), u8 shifts of the colour expansion and of `complement`, the u8 subtraction `bits - 1`, u64
   products `* 0x11`, the i32 negation and addition of the modifier, usize arithmetic of texel coordinates, pixel positions,
   the payload cursor `pos`, the tile counts `1 << ..`, table indexing.  `wrapping_add` and `Wrapping<u8>` subtraction are
   wrapping in every build by definition.  Proofs/Etc1MProofs.v: equal to Model/Etc1.v in both modes.  Definitions only. *)
From Coq Require Import List NArith ZArith Arith Bool.
From Mila Require Import Lib.Bytes Lib.Machine Model.Pixel Model.PixelM Model.Etc1.
Import ListNotations.
Local Open Scope N_scope.

(* ((pixels >> k) & mask) on u64 *)
Definition fld64 (m : mode) (v k mask : N) : outcome N := s <- shr_m W64 m v k ;; Ok (band s mask).

(* i32 arithmetic on Z *)
Definition neg_i32 (m : mode) (a : Z) : outcome Z :=
  if (a =? - 2 ^ 31)%Z then match m with Checked => Panic POverflow | Wrapping => Ok a end else Ok (- a)%Z.
Definition add_i32 (m : mode) (a b : Z) : outcome Z :=
  let s := (a + b)%Z in
  if ((- 2 ^ 31 <=? s) && (s <? 2 ^ 31))%Z then Ok s
  else match m with Checked => Panic POverflow | Wrapping => Ok ((s + 2 ^ 31) mod 2 ^ 32 - 2 ^ 31)%Z end.

(* complement(input: u8, bits: u8) *)
Definition complement_m (m : mode) (input bits : N) : outcome N :=
  b1 <- sub_w W8 m bits 1 ;;
  s <- shr_m W8 m input b1 ;;
  if s =? 0 then Ok input else
  o <- shl_m W8 m 1 bits ;;
  Ok ((input + 256 - o) mod 256).

(* (r << 3) | ((r >> 2) & 7) on u8 *)
Definition ext5_m (m : mode) (r : N) : outcome N :=
  a <- shl_m W8 m r 3 ;; b <- shr_m W8 m r 2 ;; Ok (bor a (band b 7)).
(* (field * 0x11) as u8, the product in u64 *)
Definition ext4_m (m : mode) (f : N) : outcome N := p <- mul_w W64 m f 0x11 ;; Ok (u8 p).

Definition block_colors_m (m : mode) (pixels : N) : outcome (list N * list N) :=
  d <- fld64 m pixels 33 1 ;;
  if d =? 1 then
    r <- fld64 m pixels 59 0x1F ;; g <- fld64 m pixels 51 0x1F ;; b <- fld64 m pixels 43 0x1F ;;
    let r := u8 r in let g := u8 g in let b := u8 b in
    c1r <- ext5_m m r ;; c1g <- ext5_m m g ;; c1b <- ext5_m m b ;;
    ri <- fld64 m pixels 56 7 ;; gi <- fld64 m pixels 48 7 ;; bi <- fld64 m pixels 40 7 ;;
    rc <- complement_m m (u8 ri) 3 ;; gc <- complement_m m (u8 gi) 3 ;; bc <- complement_m m (u8 bi) 3 ;;
    let r2 := (r + rc) mod 256 in let g2 := (g + gc) mod 256 in let b2 := (b + bc) mod 256 in   (* wrapping_add *)
    c2r <- ext5_m m r2 ;; c2g <- ext5_m m g2 ;; c2b <- ext5_m m b2 ;;
    Ok ([c1r; c1g; c1b], [c2r; c2g; c2b])
  else
    f1r <- fld64 m pixels 60 0xF ;; f1g <- fld64 m pixels 52 0xF ;; f1b <- fld64 m pixels 44 0xF ;;
    c1r <- ext4_m m f1r ;; c1g <- ext4_m m f1g ;; c1b <- ext4_m m f1b ;;
    f2r <- fld64 m pixels 56 0xF ;; f2g <- fld64 m pixels 48 0xF ;; f2b <- fld64 m pixels 40 0xF ;;
    c2r <- ext4_m m f2r ;; c2g <- ext4_m m f2g ;; c2b <- ext4_m m f2b ;;
    Ok ([c1r; c1g; c1b], [c2r; c2g; c2b]).

(* (x as i32 + amount).min(0xFF).max(0) as u8 *)
Definition channel_m (m : mode) (c : N) (amount : Z) : outcome N := s <- add_i32 m (Z.of_N c) amount ;; Ok (clamp_u8 s).

(* the colour of texel (pixel_x, pixel_y) *)
Definition texel_m (m : mode) (pixels alphas : N) (c1 c2 : list N) (px py : N) : outcome color :=
  h <- fld64 m pixels 32 1 ;;
  t1 <- fld64 m pixels 37 7 ;;
  t2 <- fld64 m pixels 34 7 ;;
  let amounts := band pixels 0xFFFF in
  signs <- fld64 m pixels 16 0xFFFF ;;
  o <- mul_w W64 m px 4 ;;
  offset <- add_w W64 m o py ;;
  let first := if h =? 1 then py <? 2 else px <? 2 in
  let t := if first then t1 else t2 in
  let col := if first then c1 else c2 in
  table <- index_m ETC_MODIFIERS t ;;
  sign <- fld64 m signs offset 1 ;;
  ai <- fld64 m amounts offset 1 ;;
  mag <- index_m [fst table; snd table] ai ;;
  amount <- (if sign =? 1 then neg_i32 m mag else Ok mag) ;;
  red <- channel_m m (nth 0 col 0) amount ;;
  green <- channel_m m (nth 1 col 0) amount ;;
  blue <- channel_m m (nth 2 col 0) amount ;;
  o4 <- mul_w W64 m offset 4 ;;
  fa <- fld64 m alphas o4 0xF ;;
  pa <- mul_w W64 m fa 0x11 ;;
  Ok [red; green; blue; u8 pa].

Fixpoint mapM {A B} (f : A -> outcome (list B)) (l : list A) : outcome (list B) :=
  match l with
  | [] => Ok []
  | a :: r => x <- f a ;; y <- mapM f r ;; Ok (x ++ y)
  end.

(* one texel of the inner loops: coordinates, the `continue`, the colour, pixel_pos = (y * width + x) * 4 *)
Definition texel_write_m (m : mode) (w h pixels alphas : N) (c1 c2 : list N) (blk : nat * nat * nat * nat) (py px : nat)
  : outcome (list (N * color)) :=
  let '(ty, tx, by_, bx) := blk in
  bx4 <- mul_w W64 m (N.of_nat bx) 4 ;; x <- add_w W64 m (N.of_nat px) bx4 ;;
  tx8 <- mul_w W64 m (N.of_nat tx) 8 ;; x <- add_w W64 m x tx8 ;;
  by4 <- mul_w W64 m (N.of_nat by_) 4 ;; y <- add_w W64 m (N.of_nat py) by4 ;;
  ty8 <- mul_w W64 m (N.of_nat ty) 8 ;; y <- add_w W64 m y ty8 ;;
  if (w <=? x) || (h <=? y) then Ok []
  else
    c <- texel_m m pixels alphas c1 c2 (N.of_nat px) (N.of_nat py) ;;
    yw <- mul_w W64 m y w ;; s <- add_w W64 m yw x ;; pp <- mul_w W64 m s 4 ;;
    Ok [(pp, c)].

Definition block_writes_m (m : mode) (w h alphas pixels : N) (blk : nat * nat * nat * nat) : outcome (list (N * color)) :=
  cs <- block_colors_m m pixels ;;
  let '(c1, c2) := cs in
  mapM (fun py => mapM (fun px => texel_write_m m w h pixels alphas c1 c2 blk py px) (seq 0 4)) (seq 0 4).

(* bmp[pixel_pos] .. bmp[pixel_pos + 3] *)
Fixpoint apply_writes_m (m : mode) (blen : N) (ws : list (N * color)) (bmp : list color) : outcome (list color) :=
  match ws with
  | [] => Ok bmp
  | (pp, c) :: r =>
    e <- add_w W64 m pp 3 ;;
    if e <? 4 * blen then apply_writes_m m blen r (upd (N.to_nat (pp / 4)) c bmp) else Panic PIndex
  end.

(* data_pos = pos; pos += size; &pixel_data[data_pos..data_pos + size] *)
Fixpoint etc_loop_m (m : mode) (alpha : bool) (w h blen : N) (blocks : list (nat * nat * nat * nat)) (pos : N) (rest : bytes)
                    (bmp : list color) : outcome (list color) :=
  match blocks with
  | [] => Ok bmp
  | blk :: bs =>
    pos' <- add_w W64 m pos (if alpha then 16 else 8) ;;
    match take_block alpha rest with
    | None => Panic PIndex
    | Some (alphas, pixels, rest') =>
      ws <- block_writes_m m w h alphas pixels blk ;;
      bmp' <- apply_writes_m m blen ws bmp ;;
      etc_loop_m m alpha w h blen bs pos' rest' bmp'
    end
  end.

(* 1 << ((d as f64 / 8.0).ceil().log2() as usize)   (A-float for the exponent) *)
Definition etc_tiles_m (m : mode) (d : N) : outcome N :=
  let c := (d + 7) / 8 in shl_m W64 m 1 (if c =? 0 then 0 else N.log2 c).

Definition etc1_decode_pixels_m (m : mode) (data : bytes) (width height : N) (alpha : bool) : outcome (list color) :=
  t <- mul_w W64 m 4 width ;;
  _ <- mul_w W64 m t height ;;
  let np := width * height in
  if ALLOC_LIMIT <=? np then Panic PAlloc else
  tw <- etc_tiles_m m width ;;
  th <- etc_tiles_m m height ;;
  let bs := if alpha then 16 else 8 in
  if th * tw * 4 * bs <=? lenN data then
    etc_loop_m m alpha width height np (etc_blocks (N.to_nat tw) (N.to_nat th)) 0 data (repeat ZERO_PX (N.to_nat np))
  else Panic PIndex.

(* texture_decoder::decode_pixel_data with the moded decoders *)
Definition decode_pixels_m (m : mode) (data : bytes) (width height format : N) : outcome (list color) :=
  if format <=? 11 then decode_rgba_pixels_m m data width height format
  else if format =? 12 then etc1_decode_pixels_m m data width height false
  else if format =? 13 then etc1_decode_pixels_m m data width height true
  else Err EOther.
Definition decode_pixel_data_m (m : mode) (data : bytes) (width height format : N) : outcome bytes :=
  px <- decode_pixels_m m data width height format ;; Ok (flatten px).
Definition etc1_decode_m (m : mode) (data : bytes) (width height : N) (alpha : bool) : outcome bytes :=
  px <- etc1_decode_pixels_m m data width height alpha ;; Ok (flatten px).
