(* Model of mila::arc::from_bytes (src/arc.rs): extraction of the files of a 3DS arc image.
   Definitions only.  Names are Shift-JIS ENCODED byte lists (the string cells of the archive).
   Repaired code (F9): `read_u32()? + header_padding` is a checked addition that reports an
   out-of-bounds error instead of panicking (checked build) or wrapping (release build); the
   model of the code before the repair is kept as [entry_loop_unrepaired] for the witness lemma
   in Proofs/ArcTotal.v.  After the repair no arithmetic of arc.rs depends on the build profile;
   the [mode] parameter is kept so that the C05 statements can quantify over it uniformly.

   `for _ in 0..count` runs on explicit fuel [S (length data)]: every iteration that succeeds
   consumes 16 bytes of the data region, so the loop fails long before the fuel runs out
   (Proofs/ArcTotal.v: [Err EOutOfFuel] is never produced); [count] itself - a u32 read from the
   file - never becomes a nat.
   HashMap<String, Vec<u8>> is an association list with insert = replace-or-append; the
   correspondence compares it sorted by name. *)
From Coq Require Import List NArith ZArith Bool.
From Mila Require Import Lib.Bytes Lib.Machine Model.BinArchive Model.BinStreams Model.BinFormat.
Import ListNotations.
Local Open Scope N_scope.

Definition COUNT : bytes := [67; 111; 117; 110; 116].   (* "Count" *)
Definition INFO : bytes := [73; 110; 102; 111].          (* "Info" *)
Definition HEADER_PAD : N := 0x60.

Record arc_entry := mkEntry { ae_name : bytes; ae_index : N; ae_size : N; ae_address : N }.

(* u32::checked_add *)
Definition checked_add32 (a b : N) : option N := if a + b <? 2 ^ 32 then Some (a + b) else None.

(* one iteration of the record loop: name (string cell, must be present), index, size, offset + padding *)
Definition read_entry (a : archive) (pos pad : N) : outcome arc_entry * N :=
  let '(r1, p1) := r_read_string a pos in
  match r1 with
  | Ok None => (Err EMissingName, p1)
  | Err e => (Err e, p1)
  | Panic k => (Panic k, p1)
  | Ok (Some name) =>
    let '(r2, p2) := r_read_u32 a p1 in
    match r2 with
    | Err e => (Err e, p2)
    | Panic k => (Panic k, p2)
    | Ok index =>
      let '(r3, p3) := r_read_u32 a p2 in
      match r3 with
      | Err e => (Err e, p3)
      | Panic k => (Panic k, p3)
      | Ok sz =>
        let '(r4, p4) := r_read_u32 a p3 in
        match r4 with
        | Err e => (Err e, p4)
        | Panic k => (Panic k, p4)
        | Ok off =>
          match checked_add32 off pad with
          | Some address => (Ok (mkEntry name index sz address), p4)
          | None => (Err EOob, p4)
          end
        end
      end
    end
  end.

Fixpoint entry_loop (fuel : nat) (a : archive) (remaining pos pad : N) (acc : list arc_entry) : outcome (list arc_entry) :=
  if remaining =? 0 then Ok (rev acc) else
  match fuel with
  | O => Err EOutOfFuel
  | S f =>
    match read_entry a pos pad with
    | (Ok en, p) => entry_loop f a (remaining - 1) p pad (en :: acc)
    | (Err e, _) => Err e
    | (Panic k, _) => Panic k
    end
  end.

(* reader.seek(entry.address as usize); reader.read_bytes(entry.size as usize)? *)
Fixpoint body_loop (a : archive) (entries : list arc_entry) (acc : list (bytes * bytes)) : outcome (list (bytes * bytes)) :=
  match entries with
  | [] => Ok (rev acc)
  | en :: r =>
    match fst (r_read_bytes a (ae_address en) (ae_size en)) with
    | Ok buffer => body_loop a r ((ae_name en, buffer) :: acc)
    | Err e => Err e
    | Panic k => Panic k
    end
  end.

(* HashMap::insert on an association list *)
Fixpoint fm_set (k v : bytes) (m : list (bytes * bytes)) : list (bytes * bytes) :=
  match m with
  | [] => [(k, v)]
  | (k', v') :: r => if bytes_eqb k k' then (k', v) :: r else (k', v') :: fm_set k v r
  end.
Fixpoint fm_get (k : bytes) (m : list (bytes * bytes)) : option bytes :=
  match m with
  | [] => None
  | (k', v) :: r => if bytes_eqb k k' then Some v else fm_get k r
  end.
Definition fm_of_list (l : list (bytes * bytes)) : list (bytes * bytes) :=
  fold_left (fun m kv => fm_set (fst kv) (snd kv) m) l [].

Definition data_fuel (a : archive) : nat := S (length (a_data a)).

(* the (name, body) pairs in record order, before they are inserted into the map *)
Definition arc_trace (m : mode) (a : archive) : outcome (list (bytes * bytes)) :=
  count_address <- of_option ENoCount (find_label_address a COUNT) ;;
  info_address <- of_option ENoInfo (find_label_address a INFO) ;;
  w0 <- read_u32 a 0 ;;
  let header_padding := if w0 =? 0 then HEADER_PAD else 0 in
  count <- fst (r_read_u32 a count_address) ;;
  entries <- entry_loop (data_fuel a) a count info_address header_padding [] ;;
  body_loop a entries [].

Definition arc_from_archive (m : mode) (a : archive) : outcome (list (bytes * bytes)) :=
  tr <- arc_trace m a ;; Ok (fm_of_list tr).

Definition arc_from_bytes (m : mode) (f : bytes) : outcome (list (bytes * bytes)) :=
  a <- BinFormat.from_bytes LE f ;; arc_from_archive m a.
Definition arc_from_bytes_trace (m : mode) (f : bytes) : outcome (list (bytes * bytes)) :=
  a <- BinFormat.from_bytes LE f ;; arc_trace m a.

(* ---- the code before the repair of F9: `reader.read_u32()? + header_padding` in u32 arithmetic ---- *)
Definition read_entry_unrepaired (m : mode) (a : archive) (pos pad : N) : outcome arc_entry * N :=
  let '(r1, p1) := r_read_string a pos in
  match r1 with
  | Ok None => (Err EMissingName, p1)
  | Err e => (Err e, p1)
  | Panic k => (Panic k, p1)
  | Ok (Some name) =>
    let '(r2, p2) := r_read_u32 a p1 in
    let '(r3, p3) := r_read_u32 a p2 in
    let '(r4, p4) := r_read_u32 a p3 in
    (index <- r2 ;; sz <- r3 ;; off <- r4 ;; address <- add_w 32 m off pad ;; Ok (mkEntry name index sz address), p4)
  end.
