(* Machine-level model of the part of the two compressors that Model/LZCore.v takes for granted:
   every slice index, every usize subtraction / addition and the fixed-size out_buffer of lz10.rs.

     get_occurrence_length (src/lz13.rs:7-38)                      [j_loop], [i_loop], [gol_m]
     the `while read_bytes < bytes.len()` loop of
       LZ10CompressionFormat::compress (src/lz10.rs:27-58)         [cm_loop] with L = 0x12, cap = Some 17
       LZ13CompressionFormat::compress (src/lz13.rs:182-220)       [cm_loop] with L = 0x1000, cap = None

   usize values are [N]; `a - b` is [Machine.sub_w W64 m] (Panic POverflow in the checked profile when
   b > a, wrap-around in the wrapping profile), `a + b` is [Machine.add_w W64 m], `bytes[i]` is [bidx]
   (Panic PIndex out of range).  The token that a step emits and the way it changes
   (out_buffer[0], out_buffer[1..buffer_length], buffered_blocks) is LZCore.e_step - here it is preceded
   by the checks the real code performs implicitly:
     * out_buffer is `[0; 8 * 2 + 1]` in lz10.rs: a write at index buffer_length panics when
       buffer_length >= 17 ([cap] = Some 17; a Vec in lz13.rs: [cap] = None).  The prefix
       out_buffer[0..buffer_length] is represented by e_flag :: e_ob (every write goes to the first free
       slot or to slot 0), so buffer_length = 1 + |e_ob|;
     * `1 << (7 - buffered_blocks)`: i32 shift, overflows unless 0 <= 7 - buffered_blocks;
     * `disp - 1` on usize.
   Proofs/LZCompressMachineProofs.v: for every input shorter than 2^63 bytes, in either profile, these
   loops return Ok of exactly what the list model computes (never Panic, never out of fuel). *)
From Coq Require Import List NArith Bool.
From Mila Require Import Lib.Bytes Lib.Machine Model.LZCore Model.LZ10 Model.LZ11 Model.LZ13Machine.
Import ListNotations.
Local Open Scope N_scope.

(* bytes[i] *)
Definition bidx (bytes : list N) (i : N) : outcome N :=
  match nth_error bytes (N.to_nat i) with Some v => Ok v | None => Panic PIndex end.

(* for j in 0..new_length { if bytes[current_old_start + j] != bytes[new_ptr + j] { break; } current_length += 1; }
   [n] iterations to go, [j] the loop variable, [cur] = current_length *)
Fixpoint j_loop (n : nat) (m : mode) (bytes : list N) (cos new_ptr j cur : N) : outcome N :=
  match n with
  | O => Ok cur
  | S n' =>
    a <- add_w W64 m cos j ;;
    x <- bidx bytes a ;;
    b <- add_w W64 m new_ptr j ;;
    y <- bidx bytes b ;;
    if x =? y then j_loop n' m bytes cos new_ptr (j + 1) (cur + 1) else Ok cur
  end.

(* for i in 0..(old_length - 1) { let current_old_start = old_ptr + i; ...
     if current_length > max_length { max_length = current_length; disp = old_length - i;
                                      if max_length == new_length { break; } } } *)
Fixpoint i_loop (n : nat) (m : mode) (bytes : list N) (new_ptr new_length old_ptr old_length i max_length disp : N)
  : outcome (N * N) :=
  match n with
  | O => Ok (max_length, disp)
  | S n' =>
    cos <- add_w W64 m old_ptr i ;;
    cur <- j_loop (N.to_nat new_length) m bytes cos new_ptr 0 0 ;;
    if max_length <? cur then
      d <- sub_w W64 m old_length i ;;
      if cur =? new_length then Ok (cur, d)
      else i_loop n' m bytes new_ptr new_length old_ptr old_length (i + 1) cur d
    else i_loop n' m bytes new_ptr new_length old_ptr old_length (i + 1) max_length disp
  end.

(* get_occurrence_length; the result is (max_length as i32, disp) with max_length <= new_length <= 0x1000 *)
Definition gol_m (m : mode) (bytes : list N) (new_ptr new_length old_ptr old_length : N) : outcome (N * N) :=
  if orb (new_length =? 0) (old_length =? 0) then Ok (0, 0) else
  lim <- sub_w W64 m old_length 1 ;;
  i_loop (N.to_nat lim) m bytes new_ptr new_length old_ptr old_length 0 0 0.

Section Loop.
  Variable m : mode.
  Variable L : N.                       (* look-ahead: 0x12 / 0x1000 *)
  Variable cap : option N.              (* Some 17: the array of lz10.rs; None: the Vec of lz13.rs *)
  Variable tb : token -> list N.        (* token bytes: tok10 / tok11 *)

  (* the checks a step performs before it changes the buffers *)
  Definition step_checks (s : estate) (t : token) : outcome unit :=
    _ <- (match t with Lit _ => Ok tt | Ref _ _ => if 7 <? e_blocks s then Panic POverflow else Ok tt end) ;;
    match cap with
    | Some c => if c <? 1 + lenN (e_ob s) + lenN (tb t) then Panic PIndex else Ok tt
    | None => Ok tt
    end.

  Fixpoint cm_loop (fuel : nat) (bytes : list N) (len : N) (s : estate) (read_bytes : N) : outcome estate :=
    if len <=? read_bytes then Ok s else
    match fuel with
    | O => Err EOutOfFuel
    | S f =>
      let s0 := if e_blocks s =? 8 then e_flush s else s in          (* dump out_buffer *)
      let old_length := N.min read_bytes 0x1000 in
      rest <- sub_w W64 m len read_bytes ;;                           (* bytes.len() - read_bytes *)
      old_ptr <- sub_w W64 m read_bytes old_length ;;                 (* read_bytes - old_length *)
      '(length, disp) <- gol_m m bytes read_bytes (N.min rest L) old_ptr old_length ;;
      if length <? 3 then
        v <- bidx bytes read_bytes ;;                                 (* bytes[read_bytes] *)
        let t := Lit v in
        _ <- step_checks s0 t ;;
        rb <- add_w W64 m read_bytes 1 ;;
        cm_loop f bytes len (e_step tb s t) rb
      else
        rb <- add_w W64 m read_bytes length ;;                        (* read_bytes += length as usize *)
        _ <- sub_w W64 m disp 1 ;;                                    (* disp - 1 *)
        let t := Ref (N.to_nat length) (N.to_nat disp) in
        _ <- step_checks s0 t ;;
        cm_loop f bytes len (e_step tb s t) rb
    end.

  Definition compress_loop_m (hdr bytes : list N) : outcome (list N) :=
    s <- cm_loop (length bytes) bytes (lenN bytes) (e_init hdr) 0 ;;
    Ok (e_finish s).
End Loop.

(* LZ10CompressionFormat::compress, machine level; first the size guard of F21 (bytes.len() > 0xFFFFFF) *)
Definition compress10_m (m : mode) (x : list N) : outcome (list N) :=
  if 0xFFFFFF <? lenN x then Err ETooLarge else
  compress_loop_m m 0x12 (Some 17) tok10 (header10 (lenN x)) x.

(* LZ13CompressionFormat::compress, machine level throughout: size guard, header value (LZ13Machine), reservation
   (LZ13Machine.compress13_reserve), main loop *)
Definition compress13_mm (m : mode) (x : list N) : outcome (list N) :=
  if too_large13 x then Err ETooLarge else
  h <- calculate_lz13_header_m x ;;
  _ <- compress13_reserve m (lenN x) ;;
  compress_loop_m m 0x1000 None tok11 (header13 h (lenN x)) x.
