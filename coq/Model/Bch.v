(* Machine-level model of src/bch.rs (3DS BCH container) -- definitions only.
   Names are decoded without BOM sniffing (repaired, finding F20).
   The header reads the two extended-data fields when backward_compatibility > 20 (decimal, as the code
   is written; the format puts the limit at 0x20, as the comment in the source says).  The difference
   cannot be seen through bch::read: every header field behind raw_data_address is ignored, so for
   versions 21..32 the reader merely consumes 8 more bytes of a file that continues with the contents
   section anyway (conforms_bch puts the contents section behind the header).
   Every u32 sum/product of the source is an explicit add32/mul32 under the build's [mode].
   `for entry in 0..entries` runs on the fuel [S (length f)]: an iteration that succeeds has read
   four bytes at table + 4*entry inside the file, so a loop over more entries than the file has
   bytes fails first (Err EOutOfFuel is only reachable with wrapped offsets in release builds). *)
From Coq Require Import List NArith Bool.
From Mila Require Import Lib.Bytes Lib.Machine Model.Pixel Model.Etc1 Model.TexCommon.
Import ListNotations.
Local Open Scope N_scope.

Definition BCH_MAGIC : N := 0x484342.          (* "BCH\0" little-endian *)
Definition BCH_EXT : N := 20.                  (* `backward_compatibility > 20` *)

Record bch_header := mkBHdr { bh_contents : N; bh_strings : N; bh_commands : N; bh_raw : N }.

(* Header::new *)
Definition bch_read_header (f : bytes) : outcome bch_header :=
  let ext := BCH_EXT in
  magic <- rd32 LE f 0 ;;
  _ <- guard (magic =? BCH_MAGIC) EBadMagic ;;
  bc <- rd8 f 4 ;;
  _ <- rd8 f 5 ;;
  _ <- rd16 LE f 6 ;;
  ca <- rd32 LE f 8 ;;
  sa <- rd32 LE f 12 ;;
  cma <- rd32 LE f 16 ;;
  ra <- rd32 LE f 20 ;;
  let e := if ext <? bc then 4 else 0 in
  _ <- (if ext <? bc then rd32 LE f 24 else Ok 0) ;;
  _ <- rd32 LE f (24 + e) ;;            (* relocation_address *)
  _ <- rd32 LE f (28 + e) ;;            (* contents_length *)
  _ <- rd32 LE f (32 + e) ;;            (* strings_length *)
  _ <- rd32 LE f (36 + e) ;;            (* commands_length *)
  _ <- rd32 LE f (40 + e) ;;            (* raw_data_length *)
  _ <- (if ext <? bc then rd32 LE f (44 + e) else Ok 0) ;;
  _ <- rd32 LE f (44 + 2 * e) ;;        (* relocation_length *)
  _ <- rd32 LE f (48 + 2 * e) ;;        (* uninit_data_length *)
  _ <- rd32 LE f (52 + 2 * e) ;;        (* uninit_commands_length *)
  Ok (mkBHdr ca sa cma ra).

(* ContentTable::new -> (textures_ptr_table_offset, textures_ptr_table_entries) *)
Definition bch_content_table (m : mode) (f : bytes) (ca : N) : outcome (N * N) :=
  p <- add32 m ca 0x24 ;;
  v <- rd32 LE f p ;;
  toff <- add32 m v ca ;;
  n <- rd32 LE f (p + 4) ;;
  Ok (toff, n).

(* the body of the loop for one entry *)
Definition bch_texture (m : mode) (f : bytes) (h : bch_header) (toff entry : N) : outcome texture :=
  e4 <- mul32 m entry 4 ;;
  tp <- add32 m toff e4 ;;
  dest <- rd32 LE f tp ;;
  ep <- add32 m dest (bh_contents h) ;;
  c0 <- rd32 LE f ep ;;
  cmd <- add32 m c0 (bh_commands h) ;;
  noff <- rd32 LE f (ep + 28) ;;
  np <- add32 m (bh_strings h) noff ;;
  name <- read_name utf8_valid f np ;;
  height <- rd16 LE f cmd ;;
  width <- rd16 LE f (cmd + 2) ;;
  d0 <- rd32 LE f (cmd + 16) ;;
  doff <- add32 m d0 (bh_raw h) ;;
  fmt <- rd32 LE f (cmd + 24) ;;
  data <- rd_exact f doff (payload_size32 fmt width height) ;;
  px <- decode_pixel_data m data width height fmt ;;
  Ok (mkTexture name width height px).

Fixpoint bch_loop (fuel : nat) (m : mode) (f : bytes) (h : bch_header) (toff entry entries : N)
  : outcome (list texture) :=
  if entries <=? entry then Ok [] else
  match fuel with
  | O => Err EOutOfFuel
  | S fuel' =>
    x <- bch_texture m f h toff entry ;;
    xs <- bch_loop fuel' m f h toff (entry + 1) entries ;;
    Ok (x :: xs)
  end.

(* bch::read *)
Definition read_bch (m : mode) (f : bytes) : outcome (list texture) :=
  h <- bch_read_header f ;;
  '(toff, n) <- bch_content_table m f (bh_contents h) ;;
  bch_loop (S (length f)) m f h toff 0 n.
