(* Machine-level model of calculate_lz13_header (src/lz13.rs:93-145) and of the part of
   LZ13CompressionFormat::compress that can fail (src/lz13.rs:155-160), for inputs of ANY length.

   Model/LZ11.v represents the positions sp, x, y of calculate_lz13_header by list positions, which is
   faithful as long as they do not wrap (inputs shorter than 2^31 bytes).  Here every one of the seven
   Wrapping<i32> variables is an integer in [-2^31, 2^31) that wraps ([w32]), every `v.0 as usize` is the
   sign extension to 64 bits ([as_usize]: a negative i32 becomes a number >= 2^64 - 2^31), and every
   slice index bytes[i] is a checked access that is [Panic PIndex] out of range.  So "never panics, for
   every input" is a theorem about this model (Proofs/LZ13MachineProofs.v) and not a reading of the source;
   for inputs shorter than 2^31 bytes the two models are proved equal.

   Line by line:
     let mut max_lead = Wrapping(0i32); let mut sp = Wrapping(0i32);
     let mut buffer_length = Wrapping(9i32); let mut fc = Wrapping(0i32);
     while (sp.0 as usize) < bytes.len() {                                            [m_loop]
         let mut length = Wrapping(1i32);
         let mut x = Wrapping(sp.0.min(4096));
         while x.0 >= 2 {                                                             [x_loop]
             let mut y = sp;
             while (y.0 as usize) < bytes.len()
                   && bytes[y.0 as usize] == bytes[(y - x).0 as usize] { y += 1; }    [y_loop]
             y -= sp;
             if y.0 >= 3 && y > length { length = y; }
             x -= 1;
         }
         if length.0 == 1 { buffer_length += 1; sp += 1; }
         else { sp += length;
                if length.0 <= 2 { return Err(..) } else if length.0 <= 0x10 { buffer_length += 1 }
                else if length.0 <= 0x110 { buffer_length += 2 } else { buffer_length += 3 }
                buffer_length += 1; }
         max_lead = max_lead.max(sp - buffer_length);
         fc += 1; if fc.0 == 8 { buffer_length += 1; fc = Wrapping(0i32); }
     }
     Ok((max_lead + buffer_length).0 as usize)

   The loops get fuel (Coq needs a structural argument); the proofs show that the fuel given is never
   exhausted: [Err EOutOfFuel] is not a possible result. *)
From Coq Require Import List NArith ZArith Bool.
From Mila Require Import Lib.Bytes Lib.Machine Model.LZCore Model.LZ11.
Import ListNotations.
Local Open Scope Z_scope.

(* `v as usize` for an i32 value v on a 64-bit target *)
Definition as_usize (v : Z) : Z := if v <? 0 then v + 18446744073709551616 else v.

(* bytes[i] for a usize i; [len] = bytes.len() *)
Definition idx (bytes : list N) (len i : Z) : outcome N :=
  if andb (0 <=? i) (i <? len) then
    match nth_error bytes (Z.to_nat i) with Some v => Ok v | None => Panic PIndex end
  else Panic PIndex.

Fixpoint y_loop (fuel : nat) (bytes : list N) (len x y : Z) : outcome Z :=
  match fuel with
  | O => Err EOutOfFuel
  | S f =>
    if as_usize y <? len then
      a <- idx bytes len (as_usize y) ;;
      b <- idx bytes len (as_usize (w32 (y - x))) ;;
      if (a =? b)%N then y_loop f bytes len x (w32 (y + 1)) else Ok y
    else Ok y
  end.

Fixpoint x_loop (fuel : nat) (bytes : list N) (len sp x length : Z) : outcome Z :=
  if 2 <=? x then
    match fuel with
    | O => Err EOutOfFuel
    | S f =>
      y <- y_loop (S (List.length bytes)) bytes len x sp ;;
      let y := w32 (y - sp) in
      let length := if andb (3 <=? y) (length <? y) then y else length in
      x_loop f bytes len sp (w32 (x - 1)) length
    end
  else Ok length.

Fixpoint m_loop (fuel : nat) (bytes : list N) (len sp max_lead buffer_length fc : Z) : outcome Z :=
  if as_usize sp <? len then
    match fuel with
    | O => Err EOutOfFuel
    | S f =>
      length <- x_loop WINDOW bytes len sp (Z.min sp 4096) 1 ;;     (* fuel: x <= 4096 *)
      let step (sp buffer_length : Z) :=
        let max_lead := Z.max max_lead (w32 (sp - buffer_length)) in
        let fc := w32 (fc + 1) in
        if fc =? 8 then m_loop f bytes len sp max_lead (w32 (buffer_length + 1)) 0
        else m_loop f bytes len sp max_lead buffer_length fc in
      if length =? 1 then step (w32 (sp + 1)) (w32 (buffer_length + 1))
      else
        let sp := w32 (sp + length) in
        if length <=? 2 then Err EInvalidInput
        else if length <=? 0x10 then step sp (w32 (w32 (buffer_length + 1) + 1))
        else if length <=? 0x110 then step sp (w32 (w32 (buffer_length + 2) + 1))
        else step sp (w32 (w32 (buffer_length + 3) + 1))
    end
  else Ok (w32 (max_lead + buffer_length)).

Definition calculate_lz13_header_m (x : list N) : outcome N :=
  let len := Z.of_nat (List.length x) in
  v <- m_loop (List.length x) x len 0 0 9 0 ;;
  Ok (Z.to_N (as_usize v)).

Local Open Scope N_scope.

(* LZ13CompressionFormat::compress with the machine-level header computation and with Vec::reserve's own
   check: `reserve` panics ("capacity overflow") when the requested capacity exceeds isize::MAX bytes.
   (An allocation FAILURE of the reservation aborts the process; that is the run-time environment and
   stays outside the model.)  Everything after the reservation cannot fail: pushes, the greedy loop whose
   positions are usize values below bytes.len(), get_occurrence_length's result <= 0x1000 as i32. *)
Definition ISIZE_MAX : N := 2 ^ 63 - 1.

(* result.reserve(12 + length + ((length + 7) >> 3)): the requested capacity as an observable.  The three usize
   additions run in the profile; Vec::reserve itself panics ("capacity overflow") above isize::MAX. *)
Definition compress13_reserve (m : mode) (n : N) : outcome N :=
  a <- add_w W64 m 12 n ;;
  b <- add_w W64 m n 7 ;;
  c <- add_w W64 m a (N.shiftr b 3) ;;
  if ISIZE_MAX <? c then Panic PAlloc else Ok c.

(* out_buffer.reserve_exact(8 * 4 + 1): a constant *)
Definition out_buffer_reserve : N := 8 * 4 + 1.

Definition compress13_m (m : mode) (x : list N) : outcome (list N) :=
  if too_large13 x then Err ETooLarge else                       (* the size guard of F21: length as u64 > 0xFFFF_FFFF *)
  h <- calculate_lz13_header_m x ;;
  _ <- compress13_reserve m (lenN x) ;;
  Ok (emit_loop tok11 (header13 h (lenN x)) (tokens 4096 x)).
