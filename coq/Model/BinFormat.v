(* Model of BinArchive::serialize and BinArchive::from_bytes (src/bin_archive.rs, repaired
   code: fixes b2dd42f text_start, 0360b89 BE tie-break, 6452b58 u64 header arithmetic).
   File layout: header (file_size, data_size, pointer_count, label_count : u32 in the
   archive's endianness, then 16 zero bytes), data (+ padded c-string pool), pointer table,
   label table (address, name offset), text section of NUL-terminated strings. *)
From Coq Require Import List NArith ZArith Bool.
From Mila Require Import Lib.Bytes Lib.Machine Model.BinArchive.
Import ListNotations.
Local Open Scope N_scope.

(* ---- the text pool: raw bytes + HashMap<String, usize> of offsets ---- *)
Record pool := mkPool { p_raw : bytes; p_len : N; p_offs : list (bytes * N) }.
Definition pool_empty : pool := {| p_raw := []; p_len := 0; p_offs := [] |}.
Fixpoint offs_get (s : bytes) (o : list (bytes * N)) : option N :=
  match o with
  | [] => None
  | (s', off) :: r => if bytes_eqb s s' then Some off else offs_get s r
  end.
Definition add_text (p : pool) (s : bytes) : pool * N :=
  match offs_get s (p_offs p) with
  | Some off => (p, off)
  | None => ({| p_raw := p_raw p ++ s ++ [0]; p_len := p_len p + lenN s + 1; p_offs := p_offs p ++ [(s, p_len p)] |}, p_len p)
  end.

(* cursor.seek(source); cursor.write_u32(v as u32) on a Cursor<&mut [u8]> over the data copy:
   an I/O error when the four bytes do not fit *)
Definition poke_u32 (e : endian) (d : bytes) (address v : N) : outcome bytes :=
  if address + 4 <=? lenN d
  then Ok (firstn (N.to_nat address) d ++ enc e 4 (trunc_w 32 v) ++ skipn (N.to_nat (address + 4)) d)
  else Err EIo.

Definition u32s (e : endian) (l : list N) : bytes := concat (map (fun v => enc e 4 (trunc_w 32 v)) l).

(* c-string pool: keys sorted by encoded bytes; every cell of a key points at data.len() + offset *)
Fixpoint cstr_pool (base : N) (cs : list (bytes * list N)) (p : pool) (acc : list (N * N)) : pool * list (N * N) :=
  match cs with
  | [] => (p, acc)
  | (s, cells) :: r =>
    let '(p', off) := add_text p s in
    cstr_pool base r p' (acc ++ map (fun c => (c, base + off)) cells)
  end.

Fixpoint poke_all (e : endian) (d : bytes) (ps : list (N * N)) : outcome bytes :=
  match ps with
  | [] => Ok d
  | (src, dst) :: r => d' <- poke_u32 e d src dst ;; poke_all e d' r
  end.

(* label table: (address, offset) per label, names added to the text pool in emission order *)
Fixpoint emit_bucket (address : N) (bucket : list bytes) (p : pool) (acc : list N) : pool * list N :=
  match bucket with
  | [] => (p, acc)
  | l :: r => let '(p', off) := add_text p l in emit_bucket address r p' (acc ++ [address; off])
  end.
Fixpoint emit_labels (ls : list (N * list bytes)) (p : pool) (acc : list N) : pool * list N :=
  match ls with
  | [] => (p, acc)
  | (address, bucket) :: r => let '(p', acc') := emit_bucket address bucket p acc in emit_labels r p' acc'
  end.

(* Vec<String> comparison: lexicographic over the names, names by bytes *)
Fixpoint bucket_cmp (a b : list bytes) : comparison :=
  match a, b with
  | [], [] => Eq
  | [], _ :: _ => Lt
  | _ :: _, [] => Gt
  | x :: a', y :: b' => match bytes_cmp x y with Eq => bucket_cmp a' b' | c => c end
  end.
Definition label_leb_be (x y : N * list bytes) : bool :=
  match bucket_cmp (snd x) (snd y) with Lt => true | Gt => false | Eq => fst x <=? fst y end.
Definition label_leb_le (x y : N * list bytes) : bool := fst x <=? fst y.

(* The SORT KEY of a name.  In the library a name is a Rust `String` and `Vec<String>::cmp` compares the names
   lexicographically by their Unicode scalar values (= UTF-8 byte order); in the model a name is its Shift-JIS
   ENCODED byte string.  The two orders differ (e.g. 82 A0 = U+3042 sorts after 83 BF = U+03B1 as a String,
   before it as bytes), so the big-endian comparison goes through a key function
       name_key : encoded name -> the sequence of numbers the library compares  (the scalars of the decoded name)
   which is a PARAMETER of serialize: nothing is assumed about it in the model, the theorems hold for every key
   function (some need it to be injective on the names of the archive, as the decoder is on lossless names:
   A-codec), and the correspondence check passes the library's own decoding of every name (case-line group `K`).
   [key_bytes] (the encoded bytes themselves) is the instance for little-endian archives, whose order never looks
   at a name. *)
Definition name_key := bytes -> list N.
Definition key_bytes : name_key := fun b => b.
Definition label_leb_be_k (kf : name_key) (x y : N * list bytes) : bool :=
  label_leb_be (fst x, map kf (snd x)) (fst y, map kf (snd y)).
Definition label_leb (kf : name_key) (e : endian) : N * list bytes -> N * list bytes -> bool :=
  match e with BE => label_leb_be_k kf | LE => label_leb_le end.

(* strings: sorted by address; pointer written into the cell; cells grouped by text offset in
   first-use order (IndexMap), each group sorted ascending *)
Fixpoint group_add (off cell : N) (g : list (N * list N)) : list (N * list N) :=
  match g with
  | [] => [(off, [cell])]
  | (o, cells) :: r => if off =? o then (o, cells ++ [cell]) :: r else (o, cells) :: group_add off cell r
  end.
Fixpoint emit_text (e : endian) (text_start : N) (ts : list (N * bytes)) (d : bytes) (p : pool) (g : list (N * list N))
  : outcome (bytes * pool * list (N * list N)) :=
  match ts with
  | [] => Ok (d, p, g)
  | (cell, s) :: r =>
    let '(p', off) := add_text p s in
    d' <- poke_u32 e d cell (text_start + off) ;;
    emit_text e text_start r d' p' (group_add off cell g)
  end.

Definition serialize_k (kf : name_key) (m : mode) (a : archive) : outcome bytes :=
  let e := a_endian a in
  let dlen := size a in
  let cs := isort (fun x y : bytes * list N => bytes_leb (fst x) (fst y)) (a_cstrs a) in
  let '(cpool, cptrs) := cstr_pool dlen cs pool_empty [] in
  let raw_cstrings := pad_to 4 (p_raw cpool) in
  let pointers := isort (fun x y : N * N => fst x <=? fst y) (a_ptrs a ++ cptrs) in
  d1 <- poke_all e (a_data a) pointers ;;
  let raw_pointers1 := map fst pointers in
  let labels := isort (label_leb kf e) (a_labels a) in
  let '(tpool1, raw_labels) := emit_labels labels pool_empty [] in
  let text := isort (fun x y : N * bytes => fst x <=? fst y) (a_text a) in
  let text_start := dlen + lenN raw_cstrings
                    + (N.of_nat (length raw_pointers1) + N.of_nat (length (a_text a)) + N.of_nat (length raw_labels)) * 4 in
  '(d2, tpool2, groups) <- emit_text e text_start text d1 tpool1 [] ;;
  let raw_pointers := raw_pointers1 ++ concat (map (fun g => isort N.leb (map (trunc_w 32) (snd g))) groups) in
  let file_size := dlen + lenN raw_cstrings + N.of_nat (length raw_pointers) * 4
                   + N.of_nat (length raw_labels) * 4 + p_len tpool2 + 32 in
  (* `if file_size > u32::MAX as usize { return Err(OtherError(..)) }`, u32::MAX = 4294967295 (fix 524d15f, finding F25): every size, count, address
     and offset of the file is stored in 32 bits; behind this guard none of the `as u32` below truncates and the u32 addition of
     the data size cannot overflow (Proofs/BinSerializeConforms.v: assemble_exact) *)
  _ <- guard (file_size <=? 4294967295) EOther ;;
  dsz <- add_w 32 m (trunc_w 32 dlen) (trunc_w 32 (lenN raw_cstrings)) ;;
  Ok (enc e 4 (trunc_w 32 file_size) ++ enc e 4 dsz ++ enc e 4 (trunc_w 32 (N.of_nat (length raw_pointers)))
      ++ enc e 4 (trunc_w 32 (N.of_nat (length raw_labels) / 2)) ++ zeros 16
      ++ d2 ++ raw_cstrings ++ u32s e raw_pointers ++ u32s e raw_labels ++ p_raw tpool2).

(* the instance whose sort key is the encoded name itself: THE image of a little-endian archive (whose label order
   ignores names: Proofs/BinDeterminism.v serialize_k_LE), used by the little-endian-only formats (C16-C18) *)
Definition serialize (m : mode) (a : archive) : outcome bytes := serialize_k key_bytes m a.

(* ------------------------------------------------------------------ from_bytes *)
(* archive.write_label during parsing *)
Fixpoint push_label (k : N) (s : bytes) (m : amap (list bytes)) : amap (list bytes) :=
  match m with
  | [] => [(k, [s])]
  | (k', b) :: r => if k =? k' then (k', b ++ [s]) :: r else (k', b) :: push_label k s r
  end.

(* cursor positioned anywhere (seek past the end is allowed); read_shift_jis_string *)
Definition string_at (f : bytes) (flen pos : N) : outcome bytes :=
  if pos <? flen then
    match cstr (skipn (N.to_nat pos) f) with Some s => Ok s | None => Err EUnterminated end
  else Err EUnterminated.

Definition u32_file (e : endian) (f : bytes) (pos : N) : outcome N :=
  of_option EIo (u32_at e f pos).

Fixpoint ptr_loop (e : endian) (f : bytes) (flen dsz : N) (n : nat) (pos : N) (a : archive) : outcome archive :=
  match n with
  | O => Ok a
  | S n' =>
    pa <- u32_file e f pos ;;
    pv <- read_u32 a pa ;;
    if dsz <? pv then
      s <- string_at f flen (pv + 32) ;;
      a' <- write_string a pa (Some s) ;;
      ptr_loop e f flen dsz n' (pos + 4) a'
    else
      a' <- write_pointer a pa (Some pv) ;;
      ptr_loop e f flen dsz n' (pos + 4) a'
  end.

Fixpoint lbl_loop (e : endian) (f : bytes) (flen tstart : N) (n : nat) (pos : N) (a : archive) : outcome archive :=
  match n with
  | O => Ok a
  | S n' =>
    addr <- u32_file e f pos ;;
    off <- u32_file e f (pos + 4) ;;
    s <- string_at f flen (tstart + off + 32) ;;
    _ <- validate_address addr (size a) true ;;
    lbl_loop e f flen tstart n' (pos + 8) (set_labels a (push_label addr s (a_labels a)))
  end.

(* returns the archive and the size of the single field-sized allocation (data.resize) *)
Definition from_bytes_alloc (e : endian) (f : bytes) : outcome (archive * N) :=
  let flen := lenN f in
  if flen <? 32 then Err ETooSmall else
  dsz <- u32_file e f 4 ;;
  pc <- u32_file e f 8 ;;
  lc <- u32_file e f 12 ;;
  let tstart := dsz + 4 * pc + 8 * lc in
  if flen <? tstart + 32 then Err ETooSmall else
  d <- of_option EIo (sliceN 32 dsz f) ;;
  a1 <- ptr_loop e f flen dsz (N.to_nat pc) (32 + dsz)
          {| a_data := d; a_text := []; a_ptrs := []; a_labels := []; a_cstrs := []; a_endian := e |} ;;
  a2 <- lbl_loop e f flen tstart (N.to_nat lc) (32 + dsz + 4 * pc) a1 ;;
  Ok (a2, dsz).

Definition from_bytes (e : endian) (f : bytes) : outcome archive :=
  r <- from_bytes_alloc e f ;; Ok (fst r).
