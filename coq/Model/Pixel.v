(* Model of src/texture_decoder.rs (3DS raw formats, the 8x8 Z-order tile walk),
   src/pixel_encodings.rs (RGB5A3, palette lookup) and src/texture_utils.rs
   (block_to_sequential, align, crop) -- definitions only.
   Pixels are 4-byte lists [r;g;b;a]; images are lists of pixels in row-major order and are
   flattened to bytes at the very end (Vec<u8> in the source).
   Numbers that come from data (width, height, format, values) are N; they become nat only
   after a comparison with the length of the payload. *)
From Coq Require Import List NArith ZArith Arith Bool.
From Mila Require Import Lib.Bytes Lib.Machine.
Import ListNotations.
Local Open Scope N_scope.

Definition color := list N.
Definition ZERO_PX : color := [0; 0; 0; 0].
Definition flatten (px : list color) : bytes := concat px.

(* ---- tables, transcribed ---- *)
Definition CONVERT_5_TO_8 : list N :=
  [0x00; 0x08; 0x10; 0x18; 0x20; 0x29; 0x31; 0x39; 0x41; 0x4A; 0x52; 0x5A; 0x62; 0x6A; 0x73; 0x7B;
   0x83; 0x8B; 0x94; 0x9C; 0xA4; 0xAC; 0xB4; 0xBD; 0xC5; 0xCD; 0xD5; 0xDE; 0xE6; 0xEE; 0xF6; 0xFF].

Definition TILE_ORDER : list N :=
  [0; 1; 8; 9; 2; 3; 10; 11; 16; 17; 24; 25; 18; 19; 26; 27; 4; 5; 12; 13; 6; 7; 14; 15; 20; 21;
   28; 29; 22; 23; 30; 31; 32; 33; 40; 41; 34; 35; 42; 43; 48; 49; 56; 57; 50; 51; 58; 59; 36; 37;
   44; 45; 38; 39; 46; 47; 52; 53; 60; 61; 54; 55; 62; 63].

Definition tbl (t : list N) (i : N) : N := nth (N.to_nat i) t 0.
Definition c5 (i : N) : N := tbl CONVERT_5_TO_8 i.

Definition shr (v k : N) : N := N.shiftr v k.
Definition shl (v k : N) : N := N.shiftl v k.
Definition band (a b : N) : N := N.land a b.
Definition bor (a b : N) : N := N.lor a b.
Definition as_u8 (v : N) : N := v mod 256.

(* decode_color(value: u32, format: u32) -> [r,g,b,a] *)
Definition decode_color (value format : N) : color :=
  match format with
  | 0 => [band (shr value 24) 0xFF; band (shr value 16) 0xFF; band (shr value 8) 0xFF; band value 0xFF]
  | 1 => [band (shr value 16) 0xFF; band (shr value 8) 0xFF; band value 0xFF; 0xFF]
  | 2 => [c5 (band (shr value 11) 0x1F); c5 (band (shr value 6) 0x1F); c5 (band (shr value 1) 0x1F);
          if band value 1 =? 1 then 0xFF else 0]
  | 3 => [c5 (band (shr value 11) 0x1F); as_u8 (band (shr value 5) 0x3F * 4); c5 (band value 0x1F); 0xFF]
  | 4 => let r := band (shr value 12) 0xF in
         let g := band (shr value 8) 0xF in
         let b := band (shr value 4) 0xF in
         let a := band value 0xF in
         [as_u8 (bor r (shl r 4)); as_u8 (bor g (shl g 4)); as_u8 (bor b (shl b 4)); as_u8 (bor a (shl a 4))]
  | 5 => let red := as_u8 (band (shr value 8) 0xFF) in [red; red; red; as_u8 (band value 0xFF)]
  | 6 => let red := as_u8 (shr value 8) in [red; red; red; 0xFF]
  | 7 => [as_u8 value; as_u8 value; as_u8 value; 0xFF]
  | 8 => [0xFF; 0xFF; 0xFF; as_u8 value]
  | 9 => let red := as_u8 (shr value 4) in [red; red; red; as_u8 (band value 0xF)]
  | 10 => let red := as_u8 (value * 0x11) in [red; red; red; 0xFF]
  | 11 => [0xFF; 0xFF; 0xFF; as_u8 (value * 0x11)]
  | _ => ZERO_PX
  end.

(* one `cursor.read_*` of the tile walk; the cursor is the unread rest of the payload.
   None = UnexpectedEof.  Format 1 reads four bytes and seeks back one. *)
Definition read_elem (format : N) (rest : bytes) : option (N * bytes) :=
  match format with
  | 0 => match rest with a :: b :: c :: d :: r => Some (dec_le [a; b; c; d], r) | _ => None end
  | 1 => match rest with a :: b :: c :: d :: r => Some (band (dec_le [a; b; c; d]) 0xFFFFFF, d :: r) | _ => None end
  | 2 | 3 | 4 | 5 => match rest with a :: b :: r => Some (dec_le [a; b], r) | _ => None end
  | 6 | 7 | 8 | 9 => match rest with a :: r => Some (a, r) | _ => None end
  | _ => Some (0, rest)
  end.

(* bytes the whole walk needs so that none of its [n] reads fails *)
Definition need (format n : N) : N :=
  match format with
  | 0 => 4 * n
  | 1 => if n =? 0 then 0 else 3 * n + 1
  | 2 | 3 | 4 | 5 => 2 * n
  | 6 | 7 | 8 | 9 => n
  | _ => 0
  end.

(* bmp[i] := v  (the slice write; an index outside the buffer would be a panic -- see rgba_loop) *)
Fixpoint upd {A} (i : nat) (v : A) (l : list A) : list A :=
  match l with
  | [] => []
  | x :: r => match i with O => v :: r | S i' => x :: upd i' v r end
  end.

(* (x, y) of the pixel-th entry of the tile: x = T[p] % 8, y = (T[p] - x) / 8 *)
Definition tile_xy (p : nat) : N * N :=
  let t := nth p TILE_ORDER 0 in
  let x := t mod 8 in (x, (t - x) / 8).

(* output_index / 4 of iteration (tile_y, tile_x, pixel) *)
Definition tile_dst (w : N) (ty tx p : nat) : N :=
  let '(x, y) := tile_xy p in N.of_nat tx * 8 + x + (N.of_nat ty * 8 + y) * w.

(* the iteration space of the three nested loops, in loop order, as output pixel indices *)
Definition tile_dsts (tw th : nat) (w : N) : list N :=
  flat_map (fun ty => flat_map (fun tx => map (fun p => tile_dst w ty tx p) (seq 0 64)) (seq 0 tw)) (seq 0 th).

(* the loop body folded over the iteration space: read one element, decode, store *)
(* [blen] = bmp.len() / 4, computed once *)
Fixpoint rgba_loop (format blen : N) (dsts : list N) (rest : bytes) (bmp : list color) : outcome (list color) :=
  match dsts with
  | [] => Ok bmp
  | d :: ds =>
    match read_elem format rest with
    | None => Err EIo
    | Some (v, rest') =>
      if d <? blen then rgba_loop format blen ds rest' (upd (N.to_nat d) (decode_color v format) bmp)
      else Panic PIndex
    end
  end.

(* allocations above this many pixels are treated as a failed allocation (assumption A-alloc;
   never reached on the property's domain) *)
Definition ALLOC_LIMIT : N := 2 ^ 32.

Definition decode_rgba_pixels (m : mode) (data : bytes) (width height format : N) : outcome (list color) :=
  np <- mul_w W64 m width height ;;
  _ <- mul_w W64 m 4 np ;;
  if ALLOC_LIMIT <=? np then Panic PAlloc else
  let tw := width / 8 in
  let th := height / 8 in
  if need format (th * tw * 64) <=? lenN data then
    rgba_loop format np (tile_dsts (N.to_nat tw) (N.to_nat th) width) data (repeat ZERO_PX (N.to_nat np))
  else Err EIo.

Definition decode_rgba_pixel_data (m : mode) (data : bytes) (width height format : N) : outcome bytes :=
  px <- decode_rgba_pixels m data width height format ;; Ok (flatten px).

(* get_pixel_format_bpp, doubled so that it stays an integer *)
Definition bpp2 (format : N) : N :=
  match format with
  | 0 => 8 | 1 => 6 | 2 | 3 | 4 | 5 => 4
  | 6 | 7 | 8 | 9 | 11 | 13 => 2
  | 10 | 12 => 1
  | _ => 0
  end.
(* (bpp * w as f32 * h as f32) as usize -- exact while w*h < 2^24 (assumption A-float) *)
Definition payload_size (format width height : N) : N := bpp2 format * width * height / 2.

(* ---------------- GameCube/Wii: RGB5A3 and palettes (pixel_encodings.rs) ---------------- *)
Definition decode_rgb5a3_pixel (value : N) : color :=
  if band value 0x8000 =? 0 then
    let a := 0x20 * band (shr value 12) 0x7 in
    let r := 0x11 * band (shr value 8) 0xF in
    let g := 0x11 * band (shr value 4) 0xF in
    let b := 0x11 * band value 0xF in
    [as_u8 r; as_u8 g; as_u8 b; as_u8 a]
  else
    let r := 0x8 * band (shr value 10) 0xFF in
    let g := 0x8 * band (shr value 5) 0x1F in
    let b := 0x8 * band value 0x1F in
    [as_u8 r; as_u8 g; as_u8 b; 0xFF].

(* ColorFormat::RGB5A3.decode: big-endian u16 per pixel; UnalignedData on odd length *)
Fixpoint rgb5a3_pixels (data : bytes) : list color :=
  match data with
  | hi :: lo :: r => decode_rgb5a3_pixel (256 * hi + lo) :: rgb5a3_pixels r
  | _ => []
  end.
Definition rgb5a3_decode (data : bytes) : outcome (list color) :=
  if lenN data mod 2 =? 0 then Ok (rgb5a3_pixels data) else Err EOther.

(* ColorFormat::CI8.decode_indexed with the palette as a list of pixels *)
Fixpoint ci8_lookup (data : bytes) (pal : list color) : outcome (list color) :=
  match data with
  | [] => Ok []
  | i :: r =>
    match nth_error pal (N.to_nat i) with
    | None => Err EOob
    | Some c => px <- ci8_lookup r pal ;; Ok (c :: px)
    end
  end.

(* rgba_palette: &[u8] -> pixels (None when the length is not a multiple of 4) *)
Fixpoint chunk4 (b : bytes) : option (list color) :=
  match b with
  | [] => Some []
  | r :: g :: bl :: a :: t => match chunk4 t with Some l => Some ([r; g; bl; a] :: l) | None => None end
  | _ => None
  end.
Definition decode_indexed_ci8 (data pal_bytes : bytes) : outcome bytes :=
  match chunk4 pal_bytes with
  | None => Err EOther
  | Some pal => px <- ci8_lookup data pal ;; Ok (flatten px)
  end.

(* ---------------- texture_utils.rs ---------------- *)
Definition align (value increment : N) : N :=
  if increment <=? 1 then value
  else let tmp := value mod increment in if 0 <? tmp then value + (increment - tmp) else value.

(* block_to_sequential: iteration space in loop order as (index_in_input, index_in_output) *)
Definition b2s_pairs (tw bw bh nblocks : nat) : list (nat * nat) :=
  let bsz := (bw * bh)%nat in
  let per_row := (tw / bw)%nat in
  flat_map (fun bn =>
    map (fun bi =>
      ((bn * bsz + bi)%nat,
       ((bn / per_row) * tw * bh + (bi / bw) * tw + (bn mod per_row) * bw + bi mod bw)%nat))
      (seq 0 bsz))
    (seq 0 nblocks).

(* [olen] = sequential.len(), computed once *)
Fixpoint b2s_loop (data : bytes) (olen : nat) (pairs : list (nat * nat)) (out : bytes) : bytes :=
  match pairs with
  | [] => out
  | (i, o) :: r =>
    match nth_error data i with
    | Some v => if (o <? olen)%nat then b2s_loop data olen r (upd o v out) else b2s_loop data olen r out
    | None => b2s_loop data olen r out
    end
  end.

(* texture_width/height are the aligned dimensions (u16-derived, < 2^16 + 8) *)
Definition block_to_sequential (data : bytes) (tw th bw bh : N) : bytes :=
  let n := tw * th in
  let nblocks := n / (bw * bh) in
  b2s_loop data (N.to_nat n) (b2s_pairs (N.to_nat tw) (N.to_nat bw) (N.to_nat bh) (N.to_nat nblocks)) (repeat 0 (N.to_nat n)).

(* crop: `input[base..base+width]` per row; a row outside the input would be a slice panic *)
Fixpoint crop_rows (input : bytes) (ow w : nat) (rows : nat) : option bytes :=
  match rows with
  | O => Some []
  | S k =>
    if (w <=? length input)%nat then
      match crop_rows (skipn ow input) ow w k with
      | Some t => Some (firstn w input ++ t)
      | None => None
      end
    else None
  end.
Definition crop (input : bytes) (original_width width height : N) : outcome bytes :=
  match crop_rows input (N.to_nat original_width) (N.to_nat width) (N.to_nat height) with
  | Some b => Ok b
  | None => Panic PIndex
  end.

(* the CI8 image path of Tpl::extract_textures: palette data (RGB5A3, big-endian) and block data
   (8x4 blocks) -> RGBA bytes of a width x height image *)
Definition tpl_ci8_image (pal_data img_data : bytes) (width height : N) : outcome bytes :=
  pal <- rgb5a3_decode pal_data ;;
  let aw := align width 8 in
  let ah := align height 4 in
  let seqd := block_to_sequential img_data aw ah 8 4 in
  cropped <- crop seqd aw width height ;;
  px <- ci8_lookup cropped pal ;; Ok (flatten px).
