(* Model of the rest of src/pixel_encodings.rs: ColorFormat::decode and ColorFormat::decode_indexed for every
   ColorFormat (RGBA8 = 0, RGB5A3 = 1, CI8 = 2, anything else = Unrecognized) with the error each branch returns.
   Neither function can panic (every slice is inside the checked length), so the result is a plain sum.
   Definitions only; the RGB5A3 and CI8 work is done by Model/Pixel.v. *)
From Coq Require Import List NArith Bool.
From Mila Require Import Lib.Bytes Lib.Machine Model.Pixel.
Import ListNotations.
Local Open Scope N_scope.

Inductive cf_err := UnsupportedFormat | UnalignedData | NotIndexed | NoPalette | OutOfBoundsIndex.
Inductive cf_res := CfOk (b : bytes) | CfErr (e : cf_err).

Definition cf_recognized (fmt : N) : bool := fmt <=? 2.
Definition cf_indexed (fmt : N) : bool := fmt =? 2.
Definition cf_bytes_per_pixel (fmt : N) : N := match fmt with 0 => 4 | 1 => 2 | 2 => 1 | _ => 0 end.

(* the RGBA8 arm of the loop: decoded.extend_from_slice(&pixel_data[i..i + 4]) for i in steps of 4 *)
Fixpoint rgba8_copy (data : bytes) : bytes :=
  match data with
  | a :: b :: c :: d :: r => [a; b; c; d] ++ rgba8_copy r
  | _ => []
  end.

Definition cf_decode (fmt : N) (data : bytes) : cf_res :=
  if negb (cf_recognized fmt) then CfErr UnsupportedFormat
  else if cf_indexed fmt then CfErr NoPalette
  else if negb (lenN data mod cf_bytes_per_pixel fmt =? 0) then CfErr UnalignedData
  else if fmt =? 0 then CfOk (rgba8_copy data)
  else CfOk (flatten (rgb5a3_pixels data)).

Definition cf_decode_indexed (fmt : N) (data pal_bytes : bytes) : cf_res :=
  if negb (cf_recognized fmt) then CfErr UnsupportedFormat
  else if negb (cf_indexed fmt) then CfErr NotIndexed
  else match decode_indexed_ci8 data pal_bytes with
       | Ok b => CfOk b
       | Err EOob => CfErr OutOfBoundsIndex
       | _ => CfErr UnalignedData       (* palette length not a multiple of 4 (pixel_data.len() % 1 is always 0) *)
       end.
