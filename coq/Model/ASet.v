(* Model of mila::ASetFile (src/aset.rs): animation-set files.  Definitions only.

   File layout (data region of a little-endian bin archive):
     0   u32 4            4   string cell: meta (may hold no string)       8   u32 0x100
     12  label "AnimClipNameTable"; 257 string cells (clip-name table; a cell may hold no string)
     then one record per set:  [label = set[0]]  u32 main_flags (bit g = group g present),
       for every present group g: u32 flags (bit b = slot 32g+b+1 present), one string cell per present slot.
   An ASetFile value: meta, the clip-name table, and the sets; a set is a vector whose entry 0 is
   the optional label and whose entries 1..256 are the optional slot names.
   Strings are Shift-JIS encoded bytes (assumption A-codec).  The reader and the writer are written
   with the stream operations of Model/BinStreams.v, call by call as in the source. *)
From Coq Require Import List NArith ZArith Bool.
From Mila Require Import Lib.Bytes Lib.Machine Model.BinArchive Model.BinStreams Model.BinFormat.
Import ListNotations.
Local Open Scope N_scope.

Record aset := mkASet {
  as_meta : option bytes;
  as_table : list (option bytes);
  as_sets : list (list (option bytes)) }.

(* "AnimClipNameTable" *)
Definition ACNT : bytes := [65; 110; 105; 109; 67; 108; 105; 112; 78; 97; 109; 101; 84; 97; 98; 108; 101].

Definition TABLE_LEN : nat := 257.
Definition GROUPS : nat := 8.
Definition GROUP_BITS : nat := 32.

(* ================================================================== reader *)
(* for _ in 0..n { v.push(reader.read_string()?) } *)
Fixpoint read_strings (n : nat) (a : archive) (pos : N) (acc : list (option bytes)) : outcome (list (option bytes) * N) :=
  match n with
  | O => Ok (rev acc, pos)
  | S n' =>
    match r_read_string a pos with
    | (Ok v, p) => read_strings n' a p (v :: acc)
    | (Err e, _) => Err e
    | (Panic k, _) => Panic k
    end
  end.

(* for bit in bits { if (flags & (1 << bit)) != 0 { set.push(reader.read_string()?) } else { set.push(None) } }
   [acc] is the set so far, most recent entry first *)
Fixpoint read_group (bits : list N) (flags : N) (a : archive) (pos : N) (acc : list (option bytes))
  : outcome (list (option bytes) * N) :=
  match bits with
  | [] => Ok (acc, pos)
  | bit :: r =>
    if N.land flags (N.shiftl 1 bit) =? 0 then read_group r flags a pos (None :: acc)
    else match r_read_string a pos with
         | (Ok v, p) => read_group r flags a p (v :: acc)
         | (Err e, _) => Err e
         | (Panic k, _) => Panic k
         end
  end.

Definition range (n : nat) : list N := map N.of_nat (seq 0 n).

(* for i in groups { if (main_flags & (1 << i)) != 0 { flags = read_u32()?; <read_group> } else { 32 x push(None) } } *)
Fixpoint read_groups (groups : list N) (main_flags : N) (a : archive) (pos : N) (acc : list (option bytes))
  : outcome (list (option bytes) * N) :=
  match groups with
  | [] => Ok (acc, pos)
  | i :: r =>
    if N.land main_flags (N.shiftl 1 i) =? 0
    then read_groups r main_flags a pos (repeat None GROUP_BITS ++ acc)
    else match r_read_u32 a pos with
         | (Ok flags, p) =>
           r1 <- read_group (range GROUP_BITS) flags a p acc ;;
           read_groups r main_flags a (snd r1) (fst r1)
         | (Err e, _) => Err e
         | (Panic k, _) => Panic k
         end
  end.

(* one iteration of `while reader.tell() < archive.size()` *)
Definition read_set (a : archive) (pos : N) : outcome (list (option bytes) * N) :=
  match r_read_label a pos 0 with
  | (Ok lbl, p0) =>
    match r_read_u32 a p0 with
    | (Ok main_flags, p1) =>
      r1 <- read_groups (range GROUPS) main_flags a p1 [lbl] ;;
      Ok (rev (fst r1), snd r1)
    | (Err e, _) => Err e
    | (Panic k, _) => Panic k
    end
  | (Err e, _) => Err e
  | (Panic k, _) => Panic k
  end.

(* every iteration consumes at least the 4 bytes of main_flags inside the data region, so at most
   size/4 iterations happen; the fuel is never exhausted (Proofs/ASetTotal.v) *)
Fixpoint read_sets (fuel : nat) (a : archive) (pos : N) (acc : list (list (option bytes))) : outcome (list (list (option bytes))) :=
  if size a <=? pos then Ok (rev acc) else
  match fuel with
  | O => Err EOutOfFuel
  | S fuel' =>
    r <- read_set a pos ;;
    read_sets fuel' a (snd r) (fst r :: acc)
  end.

Definition from_archive (a : archive) : outcome aset :=
  (* reader at 0; reader.skip(4) *)
  let pos := 0 + 4 in
  table_address <- of_option EOther (find_label_address a ACNT) ;;
  match r_read_string a pos with
  | (Ok meta, _) =>
    (* reader.seek(anim_clip_table_address) *)
    r <- read_strings TABLE_LEN a table_address [] ;;
    sets <- read_sets (S (length (a_data a))) a (snd r) [] ;;
    Ok {| as_meta := meta; as_table := fst r; as_sets := sets |}
  | (Err e, _) => Err e
  | (Panic k, _) => Panic k
  end.

(* ================================================================== writer *)
(* flag words: bit i of the word is set iff the i-th entry of the presence list is true *)
Fixpoint compile_flags_from (i : N) (bs : list bool) (acc : N) : N :=
  match bs with
  | [] => acc
  | b :: r => compile_flags_from (i + 1) r (if b then N.lor acc (N.shiftl 1 i) else acc)
  end.
Definition compile_flags (bs : list bool) : N := compile_flags_from 0 bs 0.

(* set.get(index).map(|entry| entry.is_some()).unwrap_or_default() *)
Definition slot (set : list (option bytes)) (index : nat) : option bytes :=
  match nth_error set index with Some (Some v) => Some v | _ => None end.
Definition slot_present (set : list (option bytes)) (index : nat) : bool :=
  match slot set index with Some _ => true | None => false end.
Definition group_presence (set : list (option bytes)) (g : nat) : list bool :=
  map (fun bit => slot_present set (g * 32 + bit + 1)) (seq 0 GROUP_BITS).
Definition compiled_flags (set : list (option bytes)) : list N :=
  map (fun g => compile_flags (group_presence set g)) (seq 0 GROUPS).
Definition main_flags_of (cf : list N) : N := compile_flags (map (fun f => negb (f =? 0)) cf).
Definition count_true (bs : list bool) : N := fold_left (fun n (b : bool) => if b then n + 1 else n) bs 0.
Definition strings_to_write (set : list (option bytes)) : N :=
  fold_left (fun n g => n + count_true (group_presence set g)) (seq 0 GROUPS) 0.
Definition flags_to_write (cf : list N) : N := count_true (map (fun f => negb (f =? 0)) cf).

(* for j in bits { if let Some(v) = set.get(i*32+j+1).and_then(as_deref) { writer.write_string(Some(v))? } } *)
Fixpoint write_slots (bits : list nat) (i : nat) (set : list (option bytes)) (a : archive) (pos : N)
  : outcome unit * archive * N :=
  match bits with
  | [] => (Ok tt, a, pos)
  | j :: r =>
    match slot set (i * 32 + j + 1) with
    | Some v =>
      match w_write_string a pos (Some v) with
      | (Ok _, a', p) => write_slots r i set a' p
      | other => other
      end
    | None => write_slots r i set a pos
    end
  end.

(* for (i, flag) in compiled_flags.iter().enumerate().take(8) { if *flag != 0 { write_u32(flag)?; <write_slots> } } *)
Fixpoint write_groups (cf : list (nat * N)) (set : list (option bytes)) (a : archive) (pos : N)
  : outcome unit * archive * N :=
  match cf with
  | [] => (Ok tt, a, pos)
  | (i, flag) :: r =>
    if flag =? 0 then write_groups r set a pos
    else match w_write_u32 a pos flag with
         | (Ok _, a1, p1) =>
           match write_slots (seq 0 GROUP_BITS) i set a1 p1 with
           | (Ok _, a2, p2) => write_groups r set a2 p2
           | other => other
           end
         | other => other
         end
  end.

Definition write_set (set : list (option bytes)) (a : archive) (pos : N) : outcome unit * archive * N :=
  let cf := compiled_flags set in
  let main_flags := main_flags_of cf in
  (* writer.allocate_at_end((flags_to_write + strings_to_write + 1) * 4) *)
  let a1 := allocate_at_end a ((flags_to_write cf + strings_to_write set + 1) * 4) in
  match set with
  | [] => (Panic PIndex, a1, pos)                    (* &set[0] *)
  | lbl :: _ =>
    match (match lbl with Some l => w_write_label a1 pos l | None => (Ok tt, a1, pos) end) with
    | (Ok _, a2, p2) =>
      match w_write_u32 a2 p2 main_flags with
      | (Ok _, a3, p3) => write_groups (firstn 8 (combine (seq 0 (length cf)) cf)) set a3 p3
      | other => other
      end
    | other => other
    end
  end.

Fixpoint write_sets (sets : list (list (option bytes))) (a : archive) (pos : N) : outcome unit * archive * N :=
  match sets with
  | [] => (Ok tt, a, pos)
  | s :: r =>
    match write_set s a pos with
    | (Ok _, a', p) => write_sets r a' p
    | other => other
    end
  end.

(* for name in &self.anim_clip_table { writer.write_string(name.as_deref())? } *)
Fixpoint write_table (t : list (option bytes)) (a : archive) (pos : N) : outcome unit * archive * N :=
  match t with
  | [] => (Ok tt, a, pos)
  | name :: r =>
    match w_write_string a pos name with
    | (Ok _, a', p) => write_table r a' p
    | other => other
    end
  end.

Definition out_of {A} (r : outcome unit * A * N) : outcome A :=
  match r with (Ok _, a, _) => Ok a | (Err e, _, _) => Err e | (Panic k, _, _) => Panic k end.

(* the archive ASetFile::serialize builds before calling archive.serialize() *)
Definition build (s : aset) : outcome archive :=
  let a1 := allocate_at_end (ba_new LE) 12 in
  a2 <- write_u32 a1 0 4 ;;
  a3 <- write_string a2 4 (as_meta s) ;;
  a4 <- write_u32 a3 8 256 ;;
  let a5 := allocate_at_end a4 (N.of_nat (length (as_table s)) * 4) in
  match w_write_label a5 12 ACNT with
  | (Ok _, a6, p6) =>
    match write_table (as_table s) a6 p6 with
    | (Ok _, a7, p7) => out_of (write_sets (as_sets s) a7 p7)
    | other => out_of other
    end
  | other => out_of other
  end.

Definition serialize (m : mode) (s : aset) : outcome bytes :=
  a <- build s ;; BinFormat.serialize m a.
(* ASetFile::from_archive(&BinArchive::from_bytes(bytes, Endian::Little)?) *)
Definition parse (f : bytes) : outcome aset :=
  a <- BinFormat.from_bytes LE f ;; from_archive a.
