(* LZ10CompressionFormat::compress (src/lz10.rs:16-63): header and token bytes with the
   shift/mask expressions of the source; the loop is LZCore.emit_loop over LZCore.tokens 0x12.
   compress never returns Err; its index expressions (out_buffer[buffer_length] with
   buffer_length <= 16, bytes[read_bytes] with read_bytes < len, the two subtractions) are in
   range by construction of the loop, so the model is a total function into byte lists. *)
From Coq Require Import List NArith Bool.
From Mila Require Import Lib.Bytes Lib.Machine Model.LZCore.
Import ListNotations.
Local Open Scope N_scope.

(*  out_buffer[n]   = (((length - 3) << 4) & 0xF0) as u8;
    out_buffer[n]  |= (((disp - 1) >> 8) & 0x0F) as u8;
    out_buffer[n+1] = ((disp - 1) & 0xFF) as u8;                                   *)
Definition tok10 (t : token) : list N :=
  match t with
  | Lit b => [b]
  | Ref len disp =>
    let length := N.of_nat len in
    let disp := N.of_nat disp in
    [ N.lor (N.land (N.shiftl (length - 3) 4) 0xF0) (N.land (N.shiftr (disp - 1) 8) 0x0F);
      N.land (disp - 1) 0xFF ]
  end.

(*  buf.push(0x10); buf.push((len & 0xFF) as u8); buf.push(((len >> 8) & 0xFF) as u8); buf.push(((len >> 16) & 0xFF) as u8) *)
Definition header10 (n : N) : list N :=
  [0x10; N.land n 0xFF; N.land (N.shiftr n 8) 0xFF; N.land (N.shiftr n 16) 0xFF].

Definition compress10 (x : list N) : list N :=
  emit_loop tok10 (header10 (lenN x)) (tokens 18 x).

(* LZ10CompressionFormat::compress as it is after the repair of F21 (lz10.rs:16-20):
     if bytes.len() > 0xFFFFFF { return Err(CompressionError::InputTooLarge(bytes.len(), "LZ10")) }
   and then the code above.  [compress10] is the part after the guard; it is what the format theorems speak
   about (for inputs the guard lets through), [compress10_o] is the function the library exports. *)
(* bytes.len(), counted with an accumulator: the extracted guard must answer on a 16 MiB list without
   recursing 2^24 frames deep (Proofs/LZFormat.v: lenN_tr x = lenN x) *)
Fixpoint len_acc (l : list N) (acc : N) : N := match l with [] => acc | _ :: r => len_acc r (acc + 1) end.
Definition lenN_tr (x : list N) : N := len_acc x 0.

Definition compress10_o (x : list N) : outcome (list N) :=
  if 0xFFFFFF <? lenN_tr x then Err ETooLarge else Ok (compress10 x).
