(* The GameCube/Wii "pack" container as a FORMAT: which byte strings are images of which
   ordered lists of named files.  Written from the property text (C15) and from the layout of
   the game files, independently of fe9_arc::parse and fe9_arc::serialize (Model/Pack.v does
   not appear here).  Names are in encoded form: the NUL-free Shift-JIS byte string of the
   file name (assumption A-codec).

     0   u32 BE  magic 0x7061636B ("pack")
     4   u16 BE  number of files
     6   2 bytes (ignored)
     8 + 16 i    entry i:  u32 BE (ignored) | u32 BE name address | u32 BE file address | u32 BE size
     name address: the name followed by a NUL;  file address: `size` bytes of contents

   Names and bodies may lie anywhere in the image (overlapping, permuted, with gaps). *)
From Coq Require Import List NArith Bool.
From Mila Require Import Lib.Bytes.
Import ListNotations.
Local Open Scope N_scope.

Definition PACK_MAGIC : N := 1885430635.   (* 0x7061636B *)
Definition PACK_MAX_FILES : N := 65535.

Notation pentry := (bytes * bytes)%type (only parsing).    (* (encoded name, contents) *)

(* the NUL-free string [nm] followed by a NUL stands at address [a] of [f] *)
Definition name_at (f : bytes) (a : N) (nm : bytes) : Prop :=
  exists pre post, f = pre ++ nm ++ 0 :: post /\ lenN pre = a /\ ~ In 0 nm.

(* the three meaningful fields recorded in entry [i] *)
Definition fields_at (f : bytes) (i : N) (na fa sz : N) : Prop :=
  (exists unk, u32_at BE f (8 + 16 * i) = Some unk) /\
  u32_at BE f (8 + 16 * i + 4) = Some na /\
  u32_at BE f (8 + 16 * i + 8) = Some fa /\
  u32_at BE f (8 + 16 * i + 12) = Some sz.

Definition entry_at (f : bytes) (i : N) (e : pentry) : Prop :=
  exists na fa sz, fields_at f i na fa sz /\ name_at f na (fst e) /\ sliceN fa sz f = Some (snd e).

Definition conforms_pack (f : bytes) (files : list pentry) : Prop :=
  u32_at BE f 0 = Some PACK_MAGIC /\
  N.of_nat (length files) <= PACK_MAX_FILES /\
  u16_at BE f 4 = Some (N.of_nat (length files)) /\
  (forall i e, nth_error files i = Some e -> entry_at f (N.of_nat i) e) /\
  NoDup (map fst files).

(* ---------------------------------------------------------------- boolean checker *)
Definition opt_bytes_eqb (o : option bytes) (b : bytes) : bool :=
  match o with Some x => bytes_eqb x b | None => false end.
Definition opt_N_eqb (o : option N) (v : N) : bool :=
  match o with Some x => x =? v | None => false end.

Fixpoint nodupb (l : list bytes) : bool :=
  match l with
  | [] => true
  | x :: r => negb (existsb (bytes_eqb x) r) && nodupb r
  end.

Definition entry_atb (f : bytes) (i : N) (e : pentry) : bool :=
  match u32_at BE f (8 + 16 * i), u32_at BE f (8 + 16 * i + 4),
        u32_at BE f (8 + 16 * i + 8), u32_at BE f (8 + 16 * i + 12) with
  | Some _, Some na, Some fa, Some sz =>
      opt_bytes_eqb (cstr_atN f na) (fst e) && opt_bytes_eqb (sliceN fa sz f) (snd e)
  | _, _, _, _ => false
  end.

Fixpoint entries_atb (f : bytes) (i : N) (files : list pentry) : bool :=
  match files with
  | [] => true
  | e :: r => entry_atb f i e && entries_atb f (i + 1) r
  end.

Definition conforms_packb (f : bytes) (files : list pentry) : bool :=
  let n := N.of_nat (length files) in
  opt_N_eqb (u32_at BE f 0) PACK_MAGIC && (n <=? PACK_MAX_FILES) && opt_N_eqb (u16_at BE f 4) n
  && entries_atb f 0 files && nodupb (map fst files).

(* ---------------------------------------------------------------- domain of the builder theorems *)
(* distinct, NUL-free names; names and contents are bytes *)
Definition wf_files (files : list pentry) : Prop :=
  NoDup (map fst files) /\ Forall (fun e => ~ In 0 (fst e) /\ wfb (fst e) /\ wfb (snd e)) files.

(* a simple upper bound of the size of the built image: header, table, names with terminators,
   every section and file padded by fewer than 32 bytes *)
Definition pack_bound (files : list pentry) : N :=
  8 + 16 * N.of_nat (length files) + 32
  + fold_right (fun e acc => lenN (fst e) + 1 + lenN (snd e) + 32 + acc) 0 files.
(* "sizes fit u32": every address and size of the image can be recorded in 32 bits *)
Definition fits32 (files : list pentry) : Prop := pack_bound files < 2 ^ 32.
