(* Model of mila::BinArchive (src/bin_archive.rs), in-memory API: accessors, annotations,
   allocate / deallocate / truncate.  Definitions only.
   - strings are Shift-JIS ENCODED byte lists (DESIGN 1.4, assumption A-codec);
   - HashMap<usize, T> is an association list [amap T] with distinct keys in SOME order;
     every function takes that order as it comes (theorems quantify over permutations);
   - addresses and lengths are N (usize: < 2^64); `address + 4` after a successful
     `validate_address(address, size, false)` cannot overflow (size <= isize::MAX) and is
     written as a plain sum; `address + amount` with caller-supplied amount is the
     checked addition of the repaired code (fix 2a0d67f);
   - slice indexing that would panic in Rust is [Panic PIndex], so "never panics" is a
     theorem about the guards and not true by construction;
   - pointer TARGETS are caller-supplied usize values that nothing validates (write_pointer), so
     `destination + count` in allocate is NOT a plain sum: [allocate] carries the representability
     check of the repaired code (fix 0edd128: new size <= isize::MAX, every target that moves stays
     below 2^64, else Err EOob before anything is changed), and [allocate_m] is the same function
     in machine arithmetic ([add_w 64] on every key and target, Checked/Wrapping) in the statement
     order of the code (checks, splice of the data, relocation of the maps) returning the archive
     the caller is left with; Proofs/BinRelocate.v proves the two equal (no panic, no wrapped value,
     and a rejected request leaves the archive as it was) for archives whose annotation KEYS (cells,
     label addresses) are <= size - which holds after every history of API calls
     (Proofs/BinKeysInvariant.v): keys are validated against the size when written. *)
From Coq Require Import List NArith ZArith Bool.
From Mila Require Import Lib.Bytes Lib.Machine.
Import ListNotations.
Local Open Scope N_scope.

(* ------------------------------------------------------------------ association maps *)
Definition amap (V : Type) := list (N * V).

Fixpoint am_get {V} (k : N) (m : amap V) : option V :=
  match m with
  | [] => None
  | (k', v) :: r => if k =? k' then Some v else am_get k r
  end.
(* HashMap::insert: replace, else add *)
Fixpoint am_set {V} (k : N) (v : V) (m : amap V) : amap V :=
  match m with
  | [] => [(k, v)]
  | (k', v') :: r => if k =? k' then (k, v) :: r else (k', v') :: am_set k v r
  end.
Fixpoint am_del {V} (k : N) (m : amap V) : amap V :=
  match m with
  | [] => []
  | (k', v') :: r => if k =? k' then r else (k', v') :: am_del k r
  end.
Definition am_keys {V} (m : amap V) : list N := map fst m.
Definition am_map_keys {V} (f : N -> N) (m : amap V) : amap V := map (fun p => (f (fst p), snd p)) m.
Definition am_filter_keys {V} (p : N -> bool) (m : amap V) : amap V := filter (fun q => p (fst q)) m.

(* ------------------------------------------------------------------ the archive *)
Record archive := mkArchive {
  a_data : bytes;
  a_text : amap bytes;                 (* cell -> string *)
  a_ptrs : amap N;                     (* cell -> destination *)
  a_labels : amap (list bytes);        (* address -> bucket (order matters) *)
  a_cstrs : list (bytes * list N);     (* HashMap<String, Vec<usize>>: string -> cells, push order *)
  a_endian : endian }.

Definition ba_new (e : endian) : archive :=
  {| a_data := []; a_text := []; a_ptrs := []; a_labels := []; a_cstrs := []; a_endian := e |}.
Definition size (a : archive) : N := lenN (a_data a).

Definition set_data (a : archive) (d : bytes) : archive :=
  {| a_data := d; a_text := a_text a; a_ptrs := a_ptrs a; a_labels := a_labels a; a_cstrs := a_cstrs a; a_endian := a_endian a |}.
Definition set_text (a : archive) (t : amap bytes) : archive :=
  {| a_data := a_data a; a_text := t; a_ptrs := a_ptrs a; a_labels := a_labels a; a_cstrs := a_cstrs a; a_endian := a_endian a |}.
Definition set_ptrs (a : archive) (p : amap N) : archive :=
  {| a_data := a_data a; a_text := a_text a; a_ptrs := p; a_labels := a_labels a; a_cstrs := a_cstrs a; a_endian := a_endian a |}.
Definition set_labels (a : archive) (l : amap (list bytes)) : archive :=
  {| a_data := a_data a; a_text := a_text a; a_ptrs := a_ptrs a; a_labels := l; a_cstrs := a_cstrs a; a_endian := a_endian a |}.
Definition set_cstrs (a : archive) (c : list (bytes * list N)) : archive :=
  {| a_data := a_data a; a_text := a_text a; a_ptrs := a_ptrs a; a_labels := a_labels a; a_cstrs := c; a_endian := a_endian a |}.

(* ------------------------------------------------------------------ validation *)
Definition validate_address (address sz : N) (end_is_valid : bool) : outcome unit :=
  if orb (andb end_is_valid (sz <? address)) (andb (negb end_is_valid) (sz <=? address))
  then Err EOob else Ok tt.
Definition validate_alignment (value k : N) : outcome unit :=
  if value mod k =? 0 then Ok tt else Err EUnaligned.

Definition USIZE_MAX1 : N := 2 ^ 64.
(* usize::checked_add *)
Definition checked_add64 (a b : N) : option N := if a + b <? USIZE_MAX1 then Some (a + b) else None.

(* validate_address(address, size, false)?; validate_address(address + w, size, true)? *)
Definition check_cell (a : archive) (address w : N) : outcome unit :=
  _ <- validate_address address (size a) false ;;
  validate_address (address + w) (size a) true.

(* &self.data[address..address + w] *)
Definition slice_or_panic (d : bytes) (address w : N) : outcome bytes :=
  match sliceN address w d with Some s => Ok s | None => Panic PIndex end.
(* self.data[address..address + |bs|].copy_from_slice(bs) *)
Definition splice (d : bytes) (address : N) (bs : bytes) : outcome bytes :=
  if address + lenN bs <=? lenN d
  then Ok (firstn (N.to_nat address) d ++ bs ++ skipn (N.to_nat (address + lenN bs)) d)
  else Panic PIndex.

(* ------------------------------------------------------------------ raw reads / writes *)
Definition read_uint (a : archive) (address : N) (w : nat) : outcome N :=
  _ <- check_cell a address (N.of_nat w) ;;
  s <- slice_or_panic (a_data a) address (N.of_nat w) ;;
  Ok (dec (a_endian a) s).
Definition read_u8 (a : archive) (address : N) : outcome N :=
  _ <- validate_address address (size a) false ;;
  s <- slice_or_panic (a_data a) address 1 ;;
  Ok (dec LE s).
Definition read_u16 a address := read_uint a address 2.
Definition read_u32 a address := read_uint a address 4.
Definition read_f32 a address := read_uint a address 4.   (* the 32-bit pattern *)

(* two's complement *)
Definition to_signed (w : N) (v : N) : Z :=
  if v <? 2 ^ (w - 1) then Z.of_N v else (Z.of_N v - Z.of_N (2 ^ w))%Z.
Definition of_signed (w : N) (z : Z) : N := Z.to_N (z mod Z.of_N (2 ^ w))%Z.

Definition read_i8 a address : outcome Z := v <- read_u8 a address ;; Ok (to_signed 8 v).
Definition read_i16 a address : outcome Z := v <- read_u16 a address ;; Ok (to_signed 16 v).
Definition read_i32 a address : outcome Z := v <- read_u32 a address ;; Ok (to_signed 32 v).

Definition read_bytes (a : archive) (address amount : N) : outcome bytes :=
  _ <- validate_address address (size a) false ;;
  e <- of_option EOob (checked_add64 address amount) ;;
  _ <- validate_address e (size a) true ;;
  slice_or_panic (a_data a) address amount.

Definition write_uint (a : archive) (address : N) (w : nat) (v : N) : outcome archive :=
  _ <- check_cell a address (N.of_nat w) ;;
  d <- splice (a_data a) address (enc (a_endian a) w v) ;;
  Ok (set_data a d).
Definition write_u8 (a : archive) (address v : N) : outcome archive :=
  _ <- validate_address address (size a) false ;;
  d <- splice (a_data a) address [v] ;;
  Ok (set_data a d).
Definition write_u16 a address v := write_uint a address 2 v.
Definition write_u32 a address v := write_uint a address 4 v.
Definition write_f32 a address v := write_uint a address 4 v.
Definition write_i8 a address (z : Z) := write_u8 a address (of_signed 8 z).
Definition write_i16 a address (z : Z) := write_u16 a address (of_signed 16 z).
Definition write_i32 a address (z : Z) := write_u32 a address (of_signed 32 z).

Definition write_bytes (a : archive) (address : N) (bs : bytes) : outcome archive :=
  _ <- validate_address address (size a) false ;;
  _ <- validate_address (address + lenN bs) (size a) true ;;
  d <- splice (a_data a) address bs ;;
  Ok (set_data a d).

(* ------------------------------------------------------------------ annotations *)
Definition read_string (a : archive) (address : N) : outcome (option bytes) :=
  _ <- check_cell a address 4 ;; Ok (am_get address (a_text a)).
Definition read_pointer (a : archive) (address : N) : outcome (option N) :=
  _ <- check_cell a address 4 ;; Ok (am_get address (a_ptrs a)).
Definition read_labels (a : archive) (address : N) : outcome (option (list bytes)) :=
  _ <- check_cell a address 4 ;; Ok (am_get address (a_labels a)).
(* pointer into the data region, NUL-terminated string there *)
Definition read_c_string (a : archive) (address : N) : outcome (option bytes) :=
  p <- read_pointer a address ;;
  match p with
  | None => Ok None
  | Some ptr =>
    _ <- validate_address ptr (size a) false ;;
    match cstr_atN (a_data a) ptr with
    | Some s => Ok (Some s)
    | None => Err EUnterminated
    end
  end.

Definition delete_string (a : archive) (address : N) : outcome archive :=
  _ <- check_cell a address 4 ;; Ok (set_text a (am_del address (a_text a))).
Definition delete_pointer (a : archive) (address : N) : outcome archive :=
  _ <- check_cell a address 4 ;; Ok (set_ptrs a (am_del address (a_ptrs a))).
Definition delete_labels (a : archive) (address : N) : outcome archive :=
  _ <- check_cell a address 4 ;; Ok (set_labels a (am_del address (a_labels a))).

Fixpoint remove_nth {A} (n : nat) (l : list A) : list A :=
  match n, l with
  | _, [] => []
  | O, _ :: r => r
  | S n', x :: r => x :: remove_nth n' r
  end.
Definition delete_label (a : archive) (address index : N) : outcome archive :=
  _ <- check_cell a address 4 ;;
  match am_get address (a_labels a) with
  | Some bucket =>
    if index <? N.of_nat (length bucket)
    then Ok (set_labels a (am_set address (remove_nth (N.to_nat index) bucket) (a_labels a)))
    else Err ELabelIndex
  | None => Ok a
  end.

(* cstrings.entry(value).or_default().push(address) *)
Fixpoint cs_push (s : bytes) (address : N) (c : list (bytes * list N)) : list (bytes * list N) :=
  match c with
  | [] => [(s, [address])]
  | (s', l) :: r => if bytes_eqb s s' then (s', l ++ [address]) :: r else (s', l) :: cs_push s address r
  end.
Definition write_c_string (a : archive) (address : N) (s : bytes) : outcome archive :=
  _ <- check_cell a address 4 ;; Ok (set_cstrs a (cs_push s address (a_cstrs a))).

Definition write_string (a : archive) (address : N) (v : option bytes) : outcome archive :=
  match v with
  | Some s => _ <- check_cell a address 4 ;; Ok (set_text a (am_set address s (a_text a)))
  | None => delete_string a address
  end.
Definition write_pointer (a : archive) (address : N) (v : option N) : outcome archive :=
  match v with
  | Some p => _ <- check_cell a address 4 ;; Ok (set_ptrs a (am_set address p (a_ptrs a)))
  | None => delete_pointer a address
  end.
Definition write_labels (a : archive) (address : N) (ls : list bytes) : outcome archive :=
  _ <- validate_address address (size a) true ;; Ok (set_labels a (am_set address ls (a_labels a))).
Definition write_label (a : archive) (address : N) (l : bytes) : outcome archive :=
  _ <- validate_address address (size a) true ;;
  match am_get address (a_labels a) with
  | Some bucket => Ok (set_labels a (am_set address (bucket ++ [l]) (a_labels a)))
  | None => Ok (set_labels a (am_set address [l] (a_labels a)))
  end.

(* ------------------------------------------------------------------ relocation *)
Definition adjust_pointer (pointer address count : N) (subtract : bool) : N :=
  if address <=? pointer then (if subtract then pointer - count else pointer + count) else pointer.
(* the comparison used for labels and pointer destinations *)
(* `pointer > address || (pointer >= address && ge)` *)
Definition moves (pointer address : N) (ge : bool) : bool := orb (address <? pointer) (andb (address <=? pointer) ge).
Definition adjust_dest (pointer address count : N) (subtract ge : bool) : N :=
  if moves pointer address ge
  then (if subtract then pointer - count else pointer + count) else pointer.
Definition in_range (address count x : N) : bool := andb (address <=? x) (x <? address + count).

Definition adjust_text {V} (m : amap V) (address count : N) (subtract : bool) : amap V :=
  am_map_keys (fun k => adjust_pointer k address count subtract) m.
Definition adjust_labels {V} (m : amap V) (address count : N) (subtract ge : bool) : amap V :=
  am_map_keys (fun k => adjust_dest k address count subtract ge) m.
Definition adjust_pointers (m : amap N) (address count : N) (subtract ge : bool) : amap N :=
  map (fun p => (adjust_pointer (fst p) address count subtract, adjust_dest (snd p) address count subtract ge)) m.
Definition filter_text_or_labels {V} (m : amap V) (address count : N) : amap V :=
  am_filter_keys (fun k => negb (in_range address count k)) m.
Definition filter_pointers (m : amap N) (address count : N) : amap N :=
  filter (fun p => negb (orb (in_range address count (fst p)) (in_range address count (snd p)))) m.
Definition adjust_cstrs (c : list (bytes * list N)) (address count : N) (subtract : bool) : list (bytes * list N) :=
  map (fun q => (fst q, map (fun k => adjust_pointer k address count subtract) (snd q))) c.
Definition filter_cstrs (p : N -> bool) (c : list (bytes * list N)) : list (bytes * list N) :=
  filter (fun q => match snd q with [] => false | _ => true end)
         (map (fun q => (fst q, filter p (snd q))) c).

Definition allocate_at_end (a : archive) (amount : N) : archive :=
  set_data a (a_data a ++ zeros (N.to_nat amount)).

Definition ISIZE_MAX : N := 2 ^ 63 - 1.
(* the representability check of allocate (fix 0edd128), evaluated before anything is changed:
     self.size().checked_add(amount).map_or(false, |new_size| new_size <= isize::MAX as usize)
     && self.pointers.values().all(|d| !(moves d) || d.checked_add(amount).is_some()) *)
Definition allocate_fits (a : archive) (address amount : N) (ge : bool) : bool :=
  andb (match checked_add64 (size a) amount with Some new_size => new_size <=? ISIZE_MAX | None => false end)
       (forallb (fun p => orb (negb (moves (snd p) address ge))
                              (match checked_add64 (snd p) amount with Some _ => true | None => false end))
                (a_ptrs a)).

Definition allocate_checks (a : archive) (address amount : N) (ge : bool) : outcome unit :=
  _ <- validate_address address (size a) true ;;
  _ <- validate_alignment address 4 ;;
  _ <- validate_alignment amount 4 ;;
  guard (allocate_fits a address amount ge) EOob.

Definition allocate (a : archive) (address amount : N) (ge : bool) : outcome archive :=
  _ <- allocate_checks a address amount ge ;;
  let d := firstn (N.to_nat address) (a_data a) ++ zeros (N.to_nat amount) ++ skipn (N.to_nat address) (a_data a) in
  Ok {| a_data := d;
        a_text := adjust_text (a_text a) address amount false;
        a_ptrs := adjust_pointers (a_ptrs a) address amount false ge;
        a_labels := adjust_labels (a_labels a) address amount false ge;
        a_cstrs := adjust_cstrs (a_cstrs a) address amount false;
        a_endian := a_endian a |}.

(* The same operation as the code executes it: EVERY usize addition of the relocation - annotation keys (cells, label
   addresses, c-string cells) and pointer targets - is [add_w 64] (Checked: overflow panics; Wrapping: wraps), the data is
   spliced BEFORE the maps are relocated, and the result is the outcome together with the archive `&mut self` is left with:
   after a panic in adjust_text / adjust_labels / adjust_pointers that is the spliced archive with the OLD maps [a1]; after a
   panic in the c-string loop the maps have been replaced already [a2] (the c-string lists would be partially updated).
   (Not extracted; equal to [allocate] for both modes on archives whose keys are <= size: BinRelocate.allocate_m_is_allocate.) *)
Definition add_at (m : mode) (moved : bool) (x count : N) : outcome N := if moved then add_w 64 m x count else Ok x.
Fixpoint relocate_keys_add {V} (m : mode) (mv : N -> bool) (count : N) (mp : amap V) : outcome (amap V) :=
  match mp with
  | [] => Ok []
  | (k, v) :: r => k' <- add_at m (mv k) k count ;; r' <- relocate_keys_add m mv count r ;; Ok ((k', v) :: r')
  end.
Fixpoint relocate_list_add (m : mode) (mv : N -> bool) (count : N) (l : list N) : outcome (list N) :=
  match l with
  | [] => Ok []
  | k :: r => k' <- add_at m (mv k) k count ;; r' <- relocate_list_add m mv count r ;; Ok (k' :: r')
  end.
Fixpoint relocate_cstrs_add (m : mode) (mv : N -> bool) (count : N) (c : list (bytes * list N)) : outcome (list (bytes * list N)) :=
  match c with
  | [] => Ok []
  | (s, cells) :: r => cells' <- relocate_list_add m mv count cells ;; r' <- relocate_cstrs_add m mv count r ;; Ok ((s, cells') :: r')
  end.
Fixpoint adjust_pointers_add (m : mode) (ptrs : amap N) (address count : N) (ge : bool) : outcome (amap N) :=
  match ptrs with
  | [] => Ok []
  | (source, destination) :: r =>
    s' <- add_at m (address <=? source) source count ;;
    d' <- add_at m (moves destination address ge) destination count ;;
    r' <- adjust_pointers_add m r address count ge ;;
    Ok ((s', d') :: r')
  end.
(* the part of the code after the checks *)
Definition allocate_apply (m : mode) (a : archive) (address amount : N) (ge : bool) : outcome unit * archive :=
  let a1 := set_data a (firstn (N.to_nat address) (a_data a) ++ zeros (N.to_nat amount) ++ skipn (N.to_nat address) (a_data a)) in
  match (new_text <- relocate_keys_add m (fun k => address <=? k) amount (a_text a) ;;
         new_labels <- relocate_keys_add m (fun k => moves k address ge) amount (a_labels a) ;;
         new_pointers <- adjust_pointers_add m (a_ptrs a) address amount ge ;;
         Ok (new_text, new_labels, new_pointers)) with
  | Err e => (Err e, a1)
  | Panic k => (Panic k, a1)
  | Ok (new_text, new_labels, new_pointers) =>
    let a2 := {| a_data := a_data a1; a_text := new_text; a_ptrs := new_pointers; a_labels := new_labels;
                 a_cstrs := a_cstrs a; a_endian := a_endian a |} in
    match relocate_cstrs_add m (fun k => address <=? k) amount (a_cstrs a) with
    | Err e => (Err e, a2)
    | Panic k => (Panic k, a2)
    | Ok new_cstrs => (Ok tt, set_cstrs a2 new_cstrs)
    end
  end.
Definition allocate_m (m : mode) (a : archive) (address amount : N) (ge : bool) : outcome unit * archive :=
  match allocate_checks a address amount ge with
  | Err e => (Err e, a)
  | Panic k => (Panic k, a)
  | Ok _ => allocate_apply m a address amount ge
  end.

Definition deallocate (a : archive) (address amount : N) (ge : bool) : outcome archive :=
  _ <- validate_address address (size a) false ;;
  e <- of_option EOob (checked_add64 address amount) ;;
  _ <- validate_address e (size a) true ;;
  _ <- validate_alignment address 4 ;;
  _ <- validate_alignment amount 4 ;;
  let d := firstn (N.to_nat address) (a_data a) ++ skipn (N.to_nat (address + amount)) (a_data a) in
  Ok {| a_data := d;
        a_text := adjust_text (filter_text_or_labels (a_text a) address amount) address amount true;
        a_ptrs := adjust_pointers (filter_pointers (a_ptrs a) address amount) address amount true ge;
        a_labels := adjust_labels (filter_text_or_labels (a_labels a) address amount) address amount true ge;
        a_cstrs := adjust_cstrs (filter_cstrs (fun k => negb (in_range address amount k)) (a_cstrs a)) address amount true;
        a_endian := a_endian a |}.

Definition truncate (a : archive) (address : N) : outcome archive :=
  if size a <=? address then Ok a else
  Ok {| a_data := firstn (N.to_nat address) (a_data a);
        a_text := am_filter_keys (fun k => k <? address) (a_text a);
        a_ptrs := am_filter_keys (fun k => k <? address) (a_ptrs a);
        a_labels := am_filter_keys (fun k => k <? address) (a_labels a);
        a_cstrs := filter_cstrs (fun k => k <? address) (a_cstrs a);
        a_endian := a_endian a |}.

(* ------------------------------------------------------------------ queries *)
(* pointer_destinations(): a set; modelled as the list of destinations (compared sorted, de-duplicated) *)
Definition pointer_destinations (a : archive) : list N := map snd (a_ptrs a).

(* insertion sort, stable: used for all `sort_by` calls on small keyed lists *)
Section Sort.
  Context {A : Type} (leb : A -> A -> bool).
  Fixpoint ins (x : A) (l : list A) : list A :=
    match l with
    | [] => [x]
    | y :: r => if leb x y then x :: y :: r else y :: ins x r
    end.
  (* stable when [leb x y] is true for equal keys and elements are inserted from the right *)
  Definition isort (l : list A) : list A := fold_right ins [] l.
End Sort.

(* all_labels(): flattened (address, label) sorted by address, bucket order preserved *)
Definition all_labels (a : archive) : list (N * bytes) :=
  concat (map (fun p => map (fun l => (fst p, l)) (snd p))
              (isort (fun x y : N * list bytes => fst x <=? fst y) (a_labels a))).

(* find_label_address: the LOWEST address whose bucket contains the label (repaired code, fix 10408e9:
   `.filter(bucket contains target).map(address).min()`), hence independent of the order of the map
   (Proofs/FindLabel.v).  [label_hits]: the addresses whose bucket contains the label, in map order. *)
Definition label_hits (a : archive) (target : bytes) : list N :=
  map fst (filter (fun p : N * list bytes => existsb (bytes_eqb target) (snd p)) (a_labels a)).
Fixpoint min_of (x : N) (l : list N) : N :=
  match l with [] => x | y :: r => min_of (N.min x y) r end.
Definition find_label_address (a : archive) (target : bytes) : option N :=
  match label_hits a target with
  | [] => None
  | x :: r => Some (min_of x r)
  end.
(* the code before the repair: the first hit in map (hash) order *)
Definition find_label_address_first (a : archive) (target : bytes) : option N :=
  match find (fun p : N * list bytes => existsb (bytes_eqb target) (snd p)) (a_labels a) with
  | Some p => Some (fst p)
  | None => None
  end.
