(* Machine-level model of src/cgfx.rs (3DS CGFX container) -- definitions only.
   Header (20 bytes, magic checked) -> DATA block directly behind it (its magic is not checked):
   sixteen (count, self-relative offset) pairs, ALL of them converted with
   `(reader.position() as u32).wrapping_add(reader.read_u32()?)` (the position is the one of the offset
   field itself; the sum is taken modulo 2^32 in both build profiles, so an offset field may be "negative"
   and designate something in front of the field.  Repaired code, finding F23: the sum used to be a plain
   `+`, which panics in a checked build on such a file; the pre-repair expression is [rel32g (Some m)], kept
   for the witness lemma cgfx_backward_unrepaired_panics in Proofs/TexCgfx.v) -> DICT at entry[1].offset: entry_count records of 16 bytes
   behind a 28-byte head, two self-relative offsets each -> one TXOB per record (all of them are
   read before any payload) -> parse_textures: payload (`size` bytes), name (the TXOB's own name
   pointer, UTF-8, decoded without BOM sniffing after the repair F20), decode.
   `data.entry[1]` and `dict.entry[i]` never fail: the vectors have 16 resp. entry_count elements.
   `for _ in 0..entry_count` (DICT) runs on the fuel [S (length f)]: every iteration that succeeds
   consumes 16 bytes of the file. *)
From Coq Require Import List NArith Bool.
From Mila Require Import Lib.Bytes Lib.Machine Model.Pixel Model.Etc1 Model.TexCommon.
Import ListNotations.
Local Open Scope N_scope.

Definition CGFX_MAGIC : N := 0x58464743.       (* "CGFX" little-endian *)

(* the self-relative offset at cursor position p.
   [None]: `(reader.position() as u32).wrapping_add(reader.read_u32()?)` -- the code as it is;
   [Some m]: `reader.position() as u32 + reader.read_u32()?` under the build's mode -- before the repair F23 *)
Definition rel32g (r : option mode) (f : bytes) (p : N) : outcome N :=
  v <- rd32 LE f p ;;
  match r with
  | None => Ok ((trunc_w 32 p + v) mod 2 ^ 32)
  | Some m => add32 m (trunc_w 32 p) v
  end.

(* Header::new; the cursor ends at 0x14 *)
Definition cgfx_header (f : bytes) : outcome unit :=
  magic <- rd32 LE f 0 ;;
  _ <- guard (magic =? CGFX_MAGIC) EBadMagic ;;
  _ <- rd16 LE f 4 ;;
  _ <- rd16 LE f 6 ;;
  _ <- rd32 LE f 8 ;;
  _ <- rd32 LE f 12 ;;
  _ <- rd32 LE f 16 ;;
  Ok tt.

(* the 16 entries of DATA::new, cursor at p: the list of offsets *)
Fixpoint cgfx_data_entries (r : option mode) (f : bytes) (p : N) (n : nat) : outcome (list N) :=
  match n with
  | O => Ok []
  | S n' =>
    _ <- rd32 LE f p ;;
    off <- rel32g r f (p + 4) ;;
    rest <- cgfx_data_entries r f (p + 8) n' ;;
    Ok (off :: rest)
  end.
Definition cgfx_data (r : option mode) (f : bytes) : outcome (list N) :=
  _ <- rd32 LE f 0x14 ;;
  _ <- rd32 LE f 0x18 ;;
  cgfx_data_entries r f 0x1C 16.

(* the entry loop of DICT::new, cursor at p: the object offsets *)
Fixpoint cgfx_dict_entries (fuel : nat) (r : option mode) (f : bytes) (p remaining : N) : outcome (list N) :=
  if remaining =? 0 then Ok [] else
  match fuel with
  | O => Err EOutOfFuel
  | S fuel' =>
    _ <- rel32g r f (p + 8) ;;                     (* filename_offset of the record (not used later) *)
    obj <- rel32g r f (p + 12) ;;
    rest <- cgfx_dict_entries fuel' r f (p + 16) (remaining - 1) ;;
    Ok (obj :: rest)
  end.
Definition cgfx_dict (r : option mode) (f : bytes) (d : N) : outcome (list N) :=
  _ <- rd32 LE f d ;;
  _ <- rd32 LE f (d + 4) ;;
  n <- rd32 LE f (d + 8) ;;
  cgfx_dict_entries (S (length f)) r f (d + 28) n.

Record txob := mkTxob { tx_name_ptr : N; tx_h : N; tx_w : N; tx_fmt : N; tx_size : N; tx_data_ptr : N }.

Definition cgfx_txob (r : option mode) (f : bytes) (o : N) : outcome txob :=
  _ <- rd32 LE f o ;;
  _ <- rd32 LE f (o + 4) ;;
  np <- rel32g r f (o + 12) ;;
  h <- rd32 LE f (o + 24) ;;
  w <- rd32 LE f (o + 28) ;;
  _ <- rd32 LE f (o + 40) ;;
  fmt <- rd32 LE f (o + 52) ;;
  size <- rd32 LE f (o + 68) ;;
  dp <- rel32g r f (o + 72) ;;
  Ok (mkTxob np h w fmt size dp).

Fixpoint cgfx_txobs (r : option mode) (f : bytes) (objs : list N) : outcome (list txob) :=
  match objs with
  | [] => Ok []
  | o :: rest => t <- cgfx_txob r f o ;; ts <- cgfx_txobs r f rest ;; Ok (t :: ts)
  end.

Definition cgfx_texture (m : mode) (f : bytes) (t : txob) : outcome texture :=
  data <- rd_exact f (tx_data_ptr t) (tx_size t) ;;
  name <- read_name utf8_valid f (tx_name_ptr t) ;;
  px <- decode_pixel_data m data (tx_w t) (tx_h t) (tx_fmt t) ;;
  Ok (mkTexture name (tx_w t) (tx_h t) px).

Fixpoint cgfx_textures (m : mode) (f : bytes) (ts : list txob) : outcome (list texture) :=
  match ts with
  | [] => Ok []
  | t :: r => x <- cgfx_texture m f t ;; xs <- cgfx_textures m f r ;; Ok (x :: xs)
  end.

(* cgfx::read with the offset expression as a parameter *)
Definition read_cgfx_g (r : option mode) (m : mode) (f : bytes) : outcome (list texture) :=
  _ <- cgfx_header f ;;
  offs <- cgfx_data r f ;;
  d <- of_option EOther (nth_error offs 1) ;;      (* data.entry[1]: always present *)
  objs <- cgfx_dict r f d ;;
  txs <- cgfx_txobs r f objs ;;
  cgfx_textures m f txs.

(* cgfx::read *)
Definition read_cgfx (m : mode) (f : bytes) : outcome (list texture) := read_cgfx_g None m f.
(* cgfx::read before the repair F23 *)
Definition read_cgfx_unrepaired (m : mode) (f : bytes) : outcome (list texture) := read_cgfx_g (Some m) m f.
