(* Model of src/localization.rs: the six path localizers.  Strings are lists of Unicode
   scalar values.  std::path::Path::{parent,file_name} are modelled on the domain the
   property speaks about: paths made of plain components joined by single '/', with an
   optional trailing '/', and the degenerate strings "", "/", "..", ".".  Every other
   string is [QUnmodelled] (the correspondence only checks "returns, no panic" there).

   The two panic sites of the code - `value.to_str().unwrap()` in get_parent_as_string and
   get_file_name (src/localization.rs:10, :18) - are modelled: [os_to_str] is OsStr::to_str
   (Some iff the OS string is valid Unicode) and a None there is the outcome [LPanic].
   Assumption A-fs (UTF-8 slices): the &OsStr values that Path::parent / Path::file_name return for a
   path built with Path::new(&str) are sub-slices of that str cut next to '/' bytes; '/' is ASCII, so
   such a cut never falls inside a multi-byte sequence and the slice is a str again.  In this model
   (strings = lists of scalar values) that reads: the slices are sub-LISTS of the caller's string
   ([path_parent] / [path_file_name] below; Proofs/LocalizeProofs.v proves they are, and that
   [os_to_str] therefore never fails on a valid caller string: C14_no_panic). *)
From Coq Require Import List NArith Bool.
Import ListNotations.
Local Open Scope N_scope.

Definition str := list N.
Definition SLASH : N := 47.
Definition DOT : N := 46.

Inductive game := GNoOp | GFE9 | GFE10 | GFE13 | GFE14 | GFE15.
Inductive lang := EnglishNA | EnglishEU | Japanese | Spanish | French | Italian | German | Dutch.

Inductive lerr := LMissingParent | LMissingFileName | LUnsupportedLanguage.
Inductive lres := LOk (s : str) | LErr (e : lerr) | LPanic | LUnmodelled.

(* a Rust `char` is a Unicode scalar value: a code point that is not a surrogate; a `str` is a sequence of them *)
Definition scalar (c : N) : bool := orb (c <? 55296) (andb (57343 <? c) (c <? 1114112)).
Definition valid_str (s : str) : bool := forallb scalar s.
(* OsStr::to_str: Some(the same characters) iff the OS string is valid Unicode *)
Definition os_to_str (o : str) : option str := if valid_str o then Some o else None.

(* ASCII helper *)
Definition s_ (l : list N) : str := l.

(* the string each localizer pushes between the directory part and the file name
   (None = the UnsupportedLanguage arm) -- transcribed arm by arm from the source *)
Definition infix (g : game) (l : lang) : option str :=
  match g with
  | GNoOp => Some []
  | GFE9 =>
    match l with
    | Spanish => Some [47; 115; 95]   (* "/s_" *)
    | German => Some [47; 100; 95]    (* "/d_" *)
    | Italian => Some [47; 105; 95]   (* "/i_" *)
    | French => Some [47; 102; 95]    (* "/f_" *)
    | Japanese | EnglishNA | EnglishEU => Some [47]
    | _ => None
    end
  | GFE10 =>
    match l with
    | EnglishNA | EnglishEU => Some [47; 101; 95]  (* "/e_" *)
    | Spanish => Some [47; 115; 95]
    | German => Some [47; 100; 95]
    | Italian => Some [47; 105; 95]
    | French => Some [47; 102; 95]
    | Japanese => Some [47]
    | _ => None
    end
  | GFE13 =>
    match l with
    | EnglishNA => Some [47; 69; 47]   (* "/E/" *)
    | EnglishEU => Some [47; 85; 47]   (* "/U/" *)
    | Japanese => Some [47]
    | Spanish => Some [47; 83; 47]
    | French => Some [47; 70; 47]
    | German => Some [47; 71; 47]
    | Italian => Some [47; 73; 47]
    | Dutch => None
    end
  | GFE14 =>
    match l with
    | EnglishNA => Some [47; 64; 69; 47]  (* "/@E/" *)
    | EnglishEU => Some [47; 64; 85; 47]
    | Japanese => Some [47]
    | Spanish => Some [47; 64; 83; 47]
    | French => Some [47; 64; 70; 47]
    | German => Some [47; 64; 71; 47]
    | Italian => Some [47; 64; 73; 47]
    | Dutch => None
    end
  | GFE15 =>
    match l with
    | EnglishNA => Some [47; 64; 78; 79; 65; 95; 69; 78; 47]   (* "/@NOA_EN/" *)
    | EnglishEU => Some [47; 64; 78; 79; 69; 95; 69; 78; 47]   (* "/@NOE_EN/" *)
    | Japanese => Some [47; 64; 74; 47]                        (* "/@J/" *)
    | Spanish => Some [47; 64; 78; 79; 69; 95; 83; 80; 47]     (* "/@NOE_SP/" *)
    | French => Some [47; 64; 78; 79; 69; 95; 70; 82; 47]      (* "/@NOE_FR/" *)
    | German => Some [47; 64; 78; 79; 69; 95; 71; 69; 47]      (* "/@NOE_GE/" *)
    | Italian => Some [47; 64; 78; 79; 69; 95; 73; 84; 47]     (* "/@NOE_IT/" *)
    | Dutch => Some [47; 64; 78; 79; 69; 95; 68; 85; 47]       (* "/@NOE_DU/" *)
    end
  end.

(* ---- paths ---- *)
(* split on '/': "a/b" -> [a; b], "a/" -> [a; []], "" -> [[]] *)
Fixpoint split_slash (s : str) : list str :=
  match s with
  | [] => [[]]
  | c :: r =>
    if c =? SLASH then [] :: split_slash r
    else match split_slash r with
         | [] => [[c]]            (* unreachable: split_slash never returns [] *)
         | h :: t => (c :: h) :: t
         end
  end.

Fixpoint str_eqb (a b : str) : bool :=
  match a, b with
  | [], [] => true
  | x :: a', y :: b' => andb (x =? y) (str_eqb a' b')
  | _, _ => false
  end.

Definition plain (c : str) : bool :=
  negb (orb (str_eqb c []) (orb (str_eqb c [DOT]) (str_eqb c [DOT; DOT]))).

Inductive shape := SEmpty | SRoot | SDotDot | SDot | SPlain (comps : list str) (trailing : bool) | SOther.

Definition classify (s : str) : shape :=
  if str_eqb s [] then SEmpty
  else if str_eqb s [SLASH] then SRoot
  else if str_eqb s [DOT; DOT] then SDotDot
  else if str_eqb s [DOT] then SDot
  else
    let parts := split_slash s in
    if forallb plain parts then SPlain parts false
    else match rev parts with
         | [] :: (_ :: _) as rinit => if forallb plain rinit then SPlain (rev rinit) true else SOther
         | _ => SOther
         end.

Fixpoint join (cs : list str) : str :=
  match cs with
  | [] => []
  | [c] => c
  | c :: r => c ++ SLASH :: join r
  end.

(* Path::parent / Path::file_name on the modelled domain: Some(&OsStr slice) / None / outside the model.
   parent: "" and "/" have none, ".." and "." have the empty parent, a plain path everything before the last
   component (without the separating '/'; empty for a single component).  file_name: the last plain component
   (a trailing '/' is ignored); None when the path ends in ".." or is "", "/", "." *)
Inductive pathq := QSome (v : str) | QNone | QUnmodelled.
Definition path_parent (s : str) : pathq :=
  match classify s with
  | SEmpty => QNone                         (* Path::new("").parent() = None *)
  | SRoot => QNone                          (* "/" has no parent *)
  | SDotDot => QSome []                     (* parent = Some("") *)
  | SDot => QSome []
  | SOther => QUnmodelled
  | SPlain comps _ => match rev comps with [] => QUnmodelled | _ :: rinit => QSome (join (rev rinit)) end
  end.
Definition path_file_name (s : str) : pathq :=
  match classify s with
  | SEmpty | SRoot | SDotDot | SDot => QNone
  | SOther => QUnmodelled
  | SPlain comps _ => match rev comps with [] => QUnmodelled | file :: _ => QSome file end
  end.

(* get_parent_as_string / get_file_name: `Some(value) => Ok(value.to_str().unwrap().to_string())`, `None => Err(..)` *)
Inductive sres := SOk (s : str) | SErr (e : lerr) | SPanic | SUnmodelled.
Definition get_parent_as_string (s : str) : sres :=
  match path_parent s with
  | QSome v => match os_to_str v with Some t => SOk t | None => SPanic end      (* localization.rs:10 *)
  | QNone => SErr LMissingParent
  | QUnmodelled => SUnmodelled
  end.
Definition get_file_name (s : str) : sres :=
  match path_file_name s with
  | QSome v => match os_to_str v with Some t => SOk t | None => SPanic end      (* localization.rs:18 *)
  | QNone => SErr LMissingFileName
  | QUnmodelled => SUnmodelled
  end.

(* get_parent_and_file_name: parent first (`?`), then the file name (`?`), then "if parent is empty: (file_name, "")" *)
Inductive pf := PFOk (dir file : str) | PFErr (e : lerr) | PFPanic | PFUnmodelled.

Definition parent_and_file (s : str) : pf :=
  match get_parent_as_string s with
  | SErr e => PFErr e
  | SPanic => PFPanic
  | SUnmodelled => PFUnmodelled
  | SOk parent =>
    match get_file_name s with
    | SErr e => PFErr e
    | SPanic => PFPanic
    | SUnmodelled => PFUnmodelled
    | SOk file => if str_eqb parent [] then PFOk file [] else PFOk parent file
    end
  end.

Definition localize (g : game) (l : lang) (path : str) : lres :=
  match g with
  | GNoOp => LOk path
  | _ =>
    match parent_and_file path with
    | PFErr e => LErr e
    | PFPanic => LPanic
    | PFUnmodelled => LUnmodelled
    | PFOk dir file =>
      match infix g l with
      | None => LErr LUnsupportedLanguage
      | Some m => LOk (dir ++ m ++ file)
      end
    end
  end.
