(* Executable checker for the bin-archive format relation [conforms] (Proofs/BinFormatSpec.v):
   conformsb e f c reads the header of [f], cuts out the reserved bytes, the pointer table, the
   label table and the text section, resolves every label entry, and checks every conjunct of
   [conforms e f c].  The witnesses of the relation are computed from [f]; equation (1) of the
   relation is checked by rebuilding the image from them and comparing it with [f].
   Sound (Proofs/BinConformsBSound.v); used, extracted, to confirm that generated files conform
   before they are fed to BinArchive::from_bytes.
   Data-derived numbers stay in N; they become nat only after the bound check against |f|. *)
From Coq Require Import List NArith Bool.
From Mila Require Import Lib.Bytes Lib.Machine Model.BinArchive Model.BinFormat Proofs.BinFormatSpec.
Import ListNotations.
Local Open Scope N_scope.

Definition oN_eqb (o : option N) (v : N) : bool := match o with Some x => x =? v | None => false end.
Definition ob_eqb (o : option bytes) (b : bytes) : bool := match o with Some x => bytes_eqb x b | None => false end.
Fixpoint memN (x : N) (l : list N) : bool := match l with [] => false | y :: r => (x =? y) || memN x r end.
Fixpoint nodupNb (l : list N) : bool := match l with [] => true | x :: r => negb (memN x r) && nodupNb r end.
Fixpoint bucket_eqb (a b : list bytes) : bool :=
  match a, b with
  | [], [] => true
  | x :: a', y :: b' => bytes_eqb x y && bucket_eqb a' b'
  | _, _ => false
  end.

(* n u32 values from the front of bs, and what follows them *)
Fixpoint take_u32s (e : endian) (n : nat) (bs : bytes) : option (list N * bytes) :=
  match n with
  | O => Some ([], bs)
  | S n' =>
    match bs with
    | b0 :: b1 :: b2 :: b3 :: r =>
      match take_u32s e n' r with
      | Some (l, rest) => Some (dec e [b0; b1; b2; b3] :: l, rest)
      | None => None
      end
    | _ => None
    end
  end.
Fixpoint pair_up (l : list N) : option (list (N * N)) :=
  match l with
  | [] => Some []
  | a :: b :: r => match pair_up r with Some t => Some ((a, b) :: t) | None => None end
  | _ => None
  end.
(* the name each label entry points at *)
Fixpoint resolve_names (f : bytes) (tstart : N) (ltab : list (N * N)) : option (list (N * bytes)) :=
  match ltab with
  | [] => Some []
  | (addr, off) :: r =>
    match cstr_atN f (tstart + off + 32), resolve_names f tstart r with
    | Some s, Some t => Some ((addr, s) :: t)
    | _, _ => None
    end
  end.

Definition rebuild (e : endian) (flen : N) (reserved d : bytes) (ptab : list N) (ltab : list (N * N)) (txt : bytes) : bytes :=
  enc e 4 flen ++ enc e 4 (lenN d) ++ enc e 4 (lenL ptab) ++ enc e 4 (lenL ltab) ++ reserved
  ++ d ++ u32s e ptab ++ u32s e (flat ltab) ++ txt.

Definition check_ptr (e : endian) (d : bytes) (dsz : N) (p : N * N) : bool :=
  oN_eqb (u32_at e d (fst p)) (snd p) && (snd p <=? dsz).
Definition check_str (e : endian) (f d : bytes) (dsz : N) (p : N * bytes) : bool :=
  match u32_at e d (fst p) with
  | Some v => (dsz <? v) && ob_eqb (cstr_atN f (v + 32)) (snd p)
  | None => false
  end.
Definition check_addr (names : list (N * bytes)) (labels : amap (list bytes)) (addr : N) : bool :=
  bucket_eqb (names_at addr names) (match am_get addr labels with Some b => b | None => [] end).

Definition check_parts (e : endian) (f : bytes) (flen : N) (c : content)
           (reserved : bytes) (ptab : list N) (ltab : list (N * N)) (txt : bytes) (names : list (N * bytes)) : bool :=
  let d := c_data c in
  let dsz := lenN d in
  let keys := map fst (c_ptrs c) ++ map fst (c_text c) in
  bytes_eqb f (rebuild e flen reserved d ptab ltab txt)
  && Nat.eqb (length reserved) 16 && (flen <? U32)
  && forallb (fun x => x <? U32) ptab && forallb (fun p => (fst p <? U32) && (snd p <? U32)) ltab
  && nodupNb keys
  && Nat.eqb (length ptab) (length keys) && forallb (fun k => memN k ptab) keys
  && forallb (check_ptr e d dsz) (c_ptrs c)
  && forallb (check_str e f d dsz) (c_text c)
  && forallb (fun p => fst p <=? dsz) names
  && nodupNb (map fst (c_labels c))
  && forallb (check_addr names (c_labels c)) (map fst names ++ map fst (c_labels c))
  && forallb (fun kb => match snd kb with [] => false | _ => true end) (c_labels c).

Definition conformsb (e : endian) (f : bytes) (c : content) : bool :=
  let flen := lenN f in
  match u32_at e f 4, u32_at e f 8, u32_at e f 12 with
  | Some dsz, Some pc, Some lc =>
    if 32 + dsz + 4 * pc + 8 * lc <=? flen then
      let reserved := firstn 16 (skipn 16 f) in
      let after_data := skipn (N.to_nat (32 + dsz)) f in
      match take_u32s e (N.to_nat pc) after_data with
      | Some (ptab, rest) =>
        match take_u32s e (N.to_nat (2 * lc)) rest with
        | Some (lflat, txt) =>
          match pair_up lflat with
          | Some ltab =>
            let tstart := lenN (c_data c) + 4 * lenL ptab + 8 * lenL ltab in
            match resolve_names f tstart ltab with
            | Some names => check_parts e f flen c reserved ptab ltab txt names
            | None => false
            end
          | None => false
          end
        | None => false
        end
      | None => false
      end
    else false
  | _, _, _ => false
  end.
