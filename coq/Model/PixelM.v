(* Moded models of src/texture_decoder.rs, src/pixel_encodings.rs, src/texture_utils.rs and the CI8 path of src/tpl.rs:
   the same functions as Model/Pixel.v, but EVERY fixed-width machine operation that can in principle overflow its Rust
   type goes through the Machine monad with the arithmetic mode:
     a + b, a - b, a * b        add_w / sub_w / mul_w at the width of the Rust type (u8 8, u16 16, u32 32, usize/u64 64);
     v << k, v >> k             shl_m / shr_m: the bits shifted out are lost in every build (that is not an overflow in
                                Rust); a shift AMOUNT >= the width is the overflow (panic when checked, masked when wrapping);
     x as u8                    trunc_w 8 (truncation, identical in every build - Rust never checks `as`);
     table[i], slice[a..b]      index_m / explicit bounds test -> Panic PIndex;
     a / b, a % b               division by zero -> Panic POther (identical in every build).
   `&` and `|` cannot overflow.  Model/Pixel.v stays as it is (worker c20's proofs use it); Proofs/PixelMProofs.v proves that
   on u16 dimensions and byte payloads every function here returns, in BOTH modes, Ok of its Model/Pixel.v counterpart, i.e.
   none of the operations overflows.  Definitions only. *)
From Coq Require Import List NArith ZArith Arith Bool.
From Mila Require Import Lib.Bytes Lib.Machine Model.Pixel.
Import ListNotations.
Local Open Scope N_scope.

Definition shl_m (w : N) (m : mode) (v k : N) : outcome N :=
  if k <? w then Ok ((v * 2 ^ k) mod maxw w)
  else match m with Checked => Panic POverflow | Wrapping => Ok ((v * 2 ^ (k mod w)) mod maxw w) end.
Definition shr_m (w : N) (m : mode) (v k : N) : outcome N :=
  if k <? w then Ok (v / 2 ^ k)
  else match m with Checked => Panic POverflow | Wrapping => Ok (v / 2 ^ (k mod w)) end.
Definition index_m {A} (t : list A) (i : N) : outcome A :=
  match nth_error t (N.to_nat i) with Some x => Ok x | None => Panic PIndex end.
Definition div_m (a b : N) : outcome N := if b =? 0 then Panic POther else Ok (a / b).
Definition mod_m (a b : N) : outcome N := if b =? 0 then Panic POther else Ok (a mod b).
Definition u8 (v : N) : N := trunc_w W8 v.

(* ---------------- texture_decoder.rs ---------------- *)
(* ((value >> k) & mask) on u32 *)
Definition fld32 (m : mode) (value k mask : N) : outcome N := s <- shr_m W32 m value k ;; Ok (band s mask).

(* decode_color(value: u32, format: u32) *)
Definition decode_color_m (m : mode) (value format : N) : outcome color :=
  match format with
  | 0 => r <- fld32 m value 24 0xFF ;; g <- fld32 m value 16 0xFF ;; b <- fld32 m value 8 0xFF ;;
         Ok [u8 r; u8 g; u8 b; u8 (band value 0xFF)]
  | 1 => r <- fld32 m value 16 0xFF ;; g <- fld32 m value 8 0xFF ;;
         Ok [u8 r; u8 g; u8 (band value 0xFF); 0xFF]
  | 2 => r <- fld32 m value 11 0x1F ;; g <- fld32 m value 6 0x1F ;; b <- fld32 m value 1 0x1F ;;
         cr <- index_m CONVERT_5_TO_8 r ;; cg <- index_m CONVERT_5_TO_8 g ;; cb <- index_m CONVERT_5_TO_8 b ;;
         Ok [cr; cg; cb; if band value 1 =? 1 then 0xFF else 0]
  | 3 => r <- fld32 m value 11 0x1F ;; g <- fld32 m value 5 0x3F ;;
         cr <- index_m CONVERT_5_TO_8 r ;; g4 <- mul_w W32 m g 4 ;; cb <- index_m CONVERT_5_TO_8 (band value 0x1F) ;;
         Ok [cr; u8 g4; cb; 0xFF]
  | 4 => r <- fld32 m value 12 0xF ;; g <- fld32 m value 8 0xF ;; b <- fld32 m value 4 0xF ;;
         let a := band value 0xF in
         r4 <- shl_m W32 m r 4 ;; g4 <- shl_m W32 m g 4 ;; b4 <- shl_m W32 m b 4 ;; a4 <- shl_m W32 m a 4 ;;
         Ok [u8 (bor r r4); u8 (bor g g4); u8 (bor b b4); u8 (bor a a4)]
  | 5 => l <- fld32 m value 8 0xFF ;; let red := u8 l in Ok [red; red; red; u8 (band value 0xFF)]
  | 6 => l <- shr_m W32 m value 8 ;; let red := u8 l in Ok [red; red; red; 0xFF]
  | 7 => Ok [u8 value; u8 value; u8 value; 0xFF]
  | 8 => Ok [0xFF; 0xFF; 0xFF; u8 value]
  | 9 => l <- shr_m W32 m value 4 ;; let red := u8 l in Ok [red; red; red; u8 (band value 0xF)]
  | 10 => l <- mul_w W32 m value 0x11 ;; let red := u8 l in Ok [red; red; red; 0xFF]
  | 11 => a <- mul_w W32 m value 0x11 ;; Ok [0xFF; 0xFF; 0xFF; u8 a]
  | _ => Ok ZERO_PX
  end.

(* x = TILE_ORDER[pixel] % 8 (u8) ; y = (TILE_ORDER[pixel] as usize - x) / 8 *)
Definition tile_xy_m (m : mode) (p : nat) : outcome (N * N) :=
  t <- index_m TILE_ORDER (N.of_nat p) ;;
  x <- mod_m t 8 ;;
  d <- sub_w W64 m t x ;;
  y <- div_m d 8 ;;
  Ok (x, y).

(* output_index = (tile_x * 8 + x + ((tile_y * 8 + y) * width)) * 4 *)
Definition tile_out_index_m (m : mode) (w : N) (ty tx p : nat) : outcome N :=
  xy <- tile_xy_m m p ;;
  let '(x, y) := xy in
  a <- mul_w W64 m (N.of_nat tx) 8 ;;
  a <- add_w W64 m a x ;;
  b <- mul_w W64 m (N.of_nat ty) 8 ;;
  b <- add_w W64 m b y ;;
  b <- mul_w W64 m b w ;;
  s <- add_w W64 m a b ;;
  mul_w W64 m s 4.

(* the iteration space of the three nested loops *)
Definition tile_iters (tw th : nat) : list (nat * nat * nat) :=
  flat_map (fun ty => flat_map (fun tx => map (fun p => (ty, tx, p)) (seq 0 64)) (seq 0 tw)) (seq 0 th).

(* loop body: output_index, the read, decode_color, bmp[output_index..output_index + 4].copy_from_slice(..) *)
Fixpoint rgba_loop_m (m : mode) (format blen w : N) (its : list (nat * nat * nat)) (rest : bytes) (bmp : list color)
  : outcome (list color) :=
  match its with
  | [] => Ok bmp
  | (ty, tx, p) :: r =>
    oi <- tile_out_index_m m w ty tx p ;;
    match read_elem format rest with
    | None => Err EIo
    | Some (v, rest') =>
      c <- decode_color_m m v format ;;
      e <- add_w W64 m oi 4 ;;
      if e <=? 4 * blen then rgba_loop_m m format blen w r rest' (upd (N.to_nat (oi / 4)) c bmp)
      else Panic PIndex
    end
  end.

Definition decode_rgba_pixels_m (m : mode) (data : bytes) (width height format : N) : outcome (list color) :=
  np <- mul_w W64 m width height ;;
  _ <- mul_w W64 m 4 np ;;
  if ALLOC_LIMIT <=? np then Panic PAlloc else
  tw <- div_m width 8 ;;
  th <- div_m height 8 ;;
  if need format (th * tw * 64) <=? lenN data then
    rgba_loop_m m format np width (tile_iters (N.to_nat tw) (N.to_nat th)) data (repeat ZERO_PX (N.to_nat np))
  else Err EIo.

(* ---------------- pixel_encodings.rs ---------------- *)
(* ((value >> k) & mask) on u16 *)
Definition fld16 (m : mode) (value k mask : N) : outcome N := s <- shr_m W16 m value k ;; Ok (band s mask).

(* decode_rgb5a3_pixel(value: u16): every product is a u16 multiplication *)
Definition decode_rgb5a3_pixel_m (m : mode) (value : N) : outcome color :=
  if band value 0x8000 =? 0 then
    fa <- fld16 m value 12 0x7 ;; a <- mul_w W16 m 0x20 fa ;;
    fr <- fld16 m value 8 0xF ;; r <- mul_w W16 m 0x11 fr ;;
    fg <- fld16 m value 4 0xF ;; g <- mul_w W16 m 0x11 fg ;;
    b <- mul_w W16 m 0x11 (band value 0xF) ;;
    Ok [u8 r; u8 g; u8 b; u8 a]
  else
    fr <- fld16 m value 10 0xFF ;; r <- mul_w W16 m 0x8 fr ;;
    fg <- fld16 m value 5 0x1F ;; g <- mul_w W16 m 0x8 fg ;;
    b <- mul_w W16 m 0x8 (band value 0x1F) ;;
    Ok [u8 r; u8 g; u8 b; 0xFF].

(* the RGB5A3 arm of ColorFormat::decode: for i in (0..len).step_by(2) { &pixel_data[i..i + 2] ... } *)
Fixpoint rgb5a3_loop_m (m : mode) (pos : N) (rest : bytes) : outcome (list color) :=
  match rest with
  | hi :: lo :: r =>
    _ <- add_w W64 m pos 2 ;;
    px <- decode_rgb5a3_pixel_m m (256 * hi + lo) ;;
    t <- rgb5a3_loop_m m (pos + 2) r ;;
    Ok (px :: t)
  | _ => Ok []
  end.
Definition rgb5a3_decode_m (m : mode) (data : bytes) : outcome (list color) :=
  if lenN data mod 2 =? 0 then rgb5a3_loop_m m 0 data else Err EOther.

(* the CI8 arm of decode_indexed: real_index = index * 4 ; &rgba_palette[real_index..real_index + 4] *)
Fixpoint ci8_lookup_m (m : mode) (data : bytes) (pal : list color) : outcome (list color) :=
  match data with
  | [] => Ok []
  | i :: r =>
    if N.of_nat (length pal) <=? i then Err EOob else
    ri <- mul_w W64 m i 4 ;;
    _ <- add_w W64 m ri 4 ;;
    c <- index_m pal i ;;
    px <- ci8_lookup_m m r pal ;;
    Ok (c :: px)
  end.

(* ---------------- texture_utils.rs ---------------- *)
Definition align_m (m : mode) (value increment : N) : outcome N :=
  if increment <=? 1 then Ok value
  else tmp <- mod_m value increment ;;
       if 0 <? tmp then d <- sub_w W64 m increment tmp ;; add_w W64 m value d else Ok value.

(* (index_in_input, index_in_output) of iteration (block_number, block_index) *)
Definition b2s_pair_m (m : mode) (tw bw bh per_row bsz : N) (bn bi : nat) : outcome (N * N) :=
  block_row <- div_m (N.of_nat bn) per_row ;;
  block_column <- mod_m (N.of_nat bn) per_row ;;
  row_in_block <- div_m (N.of_nat bi) bw ;;
  column_in_block <- mod_m (N.of_nat bi) bw ;;
  i <- mul_w W64 m (N.of_nat bn) bsz ;;
  i <- add_w W64 m i (N.of_nat bi) ;;
  o1 <- mul_w W64 m block_row tw ;;
  o1 <- mul_w W64 m o1 bh ;;
  o2 <- mul_w W64 m row_in_block tw ;;
  o3 <- mul_w W64 m block_column bw ;;
  o <- add_w W64 m o1 o2 ;;
  o <- add_w W64 m o o3 ;;
  o <- add_w W64 m o column_in_block ;;
  Ok (i, o).

Definition b2s_iters (bsz nblocks : nat) : list (nat * nat) :=
  flat_map (fun bn => map (fun bi => (bn, bi)) (seq 0 bsz)) (seq 0 nblocks).

Fixpoint b2s_loop_m (m : mode) (data : bytes) (olen : nat) (tw bw bh per_row bsz : N) (its : list (nat * nat)) (out : bytes)
  : outcome bytes :=
  match its with
  | [] => Ok out
  | (bn, bi) :: r =>
    io <- b2s_pair_m m tw bw bh per_row bsz bn bi ;;
    let '(i, o) := io in
    match nth_error data (N.to_nat i) with
    | Some v => if (N.to_nat o <? olen)%nat then b2s_loop_m m data olen tw bw bh per_row bsz r (upd (N.to_nat o) v out)
                else b2s_loop_m m data olen tw bw bh per_row bsz r out
    | None => b2s_loop_m m data olen tw bw bh per_row bsz r out
    end
  end.

Definition block_to_sequential_m (m : mode) (data : bytes) (tw th bw bh : N) : outcome bytes :=
  bsz <- mul_w W64 m bw bh ;;
  per_row <- div_m tw bw ;;
  n <- mul_w W64 m tw th ;;
  nblocks <- div_m n bsz ;;
  b2s_loop_m m data (N.to_nat n) tw bw bh per_row bsz (b2s_iters (N.to_nat bsz) (N.to_nat nblocks)) (repeat 0 (N.to_nat n)).

(* crop: base_index = r * original_width ; &input[base_index..base_index + width] *)
Fixpoint crop_rows_m (m : mode) (input : bytes) (ow w : N) (r : N) (rows : nat) : outcome (option bytes) :=
  match rows with
  | O => Ok (Some [])
  | S k =>
    base <- mul_w W64 m r ow ;;
    _ <- add_w W64 m base w ;;
    if (N.to_nat w <=? length input)%nat then
      t <- crop_rows_m m (skipn (N.to_nat ow) input) ow w (r + 1) k ;;
      match t with
      | Some t => Ok (Some (firstn (N.to_nat w) input ++ t))
      | None => Ok None
      end
    else Ok None
  end.
Definition crop_m (m : mode) (input : bytes) (original_width width height : N) : outcome bytes :=
  c <- crop_rows_m m input original_width width 0 (N.to_nat height) ;;
  match c with Some b => Ok b | None => Panic PIndex end.

(* ---------------- the CI8 path of Tpl::extract_textures ---------------- *)
Definition tpl_ci8_image_m (m : mode) (pal_data img_data : bytes) (width height : N) : outcome bytes :=
  pal <- rgb5a3_decode_m m pal_data ;;
  aw <- align_m m width 8 ;;
  ah <- align_m m height 4 ;;
  seqd <- block_to_sequential_m m img_data aw ah 8 4 ;;
  cropped <- crop_m m seqd aw width height ;;
  px <- ci8_lookup_m m cropped pal ;; Ok (flatten px).

(* ---------------- ctpk::read: (bpp * w as f32 * h as f32) as usize ---------------- *)
(* round to nearest, ties to even, to 24 significant bits: the value of a non-negative integer after a binary32 operation *)
Definition round24 (p : N) : N :=
  if p <? 2 ^ 24 then p else
  let e := N.log2 p - 23 in
  let q := p / 2 ^ e in let r := p mod 2 ^ e in let half := 2 ^ (e - 1) in
  (if (half <? r) || ((r =? half) && N.odd q) then q + 1 else q) * 2 ^ e.

(* bpp * w is exact for u16 w (at most 18 bits); the second product is rounded; bpp2 = 2 * bpp keeps everything integral
   (scaling by two is exact in binary floating point); `as usize` truncates *)
Definition payload_size_f32 (fmt w h : N) : N := round24 (bpp2 fmt * w * h) / 2.


(* what ctpk::read does with a zero-filled payload of len bytes for the formats whose walk reads nothing (L4 = 10, A4 = 11):
   read_exact of payload_size_f32 bytes (Err when the file is shorter), then 4*w*h output bytes *)
Definition ctpk_probe (fmt w h len : N) : option N :=
  if len <? payload_size_f32 fmt w h then None else Some (4 * (w * h)).
