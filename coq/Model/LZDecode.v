(* Machine-level model of decompression in mila after the repairs of F13 / F14:
     lz13::decompress_lz          (src/lz13.rs) - the bounds-checked LZ10/LZ11 decoder that replaced
                                   the call of nintendo_lz::decompress_arr; same algorithm, line by line
     LZ10CompressionFormat::decompress, LZ13CompressionFormat::decompress (wrapper stripping, stored form)
     CompressionFormat::{compress, decompress}  (format dispatch)
   Option::None of decompress_lz and CompressionError::InvalidInput are both [Err EInvalidInput].
   Every subtraction on usize goes through Machine.sub_w, every slice / Vec index through a checked
   access that is [Panic PIndex] when out of range, so "never panics" is a theorem and not a reading.
   Additions, shifts and ORs combine at most four input bytes (values < 2^32 in a 64-bit usize) and
   cannot overflow; they are plain N operations.

   The output Vec<u8> is represented by its reversed list together with its length ([vec]):
   out.push is a cons, out.len() is O(1) and out[i] is the element at distance len-1-i from the
   head, so that the extracted decoder runs in time O(output * displacement). *)
From Coq Require Import List NArith Bool.
From Mila Require Import Lib.Bytes Lib.Machine Model.LZ10 Model.LZ11.
Import ListNotations.
Local Open Scope N_scope.

Record vec := { v_rev : list N; v_len : N }.
Definition v_empty : vec := {| v_rev := []; v_len := 0 |}.
Definition v_push (o : vec) (b : N) : vec := {| v_rev := b :: v_rev o; v_len := v_len o + 1 |}.
(* the Vec as a list, first byte first ([rev_append _ []] is [rev], in linear time) *)
Definition v_list (o : vec) : list N := rev_append (v_rev o) [].
(* out[i] *)
Definition v_get (o : vec) (i : N) : outcome N :=
  if i <? v_len o then
    match nth_error (v_rev o) (N.to_nat (v_len o - 1 - i)) with Some v => Ok v | None => Panic PIndex end
  else Panic PIndex.

(* input.next()?  on  bytes.iter().map(|b| *b as usize) *)
Definition next (bs : list N) : outcome (N * list N) :=
  match bs with b :: r => Ok (b, r) | [] => Err EInvalidInput end.

(* for i in start..start + length { let value = out[i]; out.push(value); } *)
Fixpoint copy_loop (n : nat) (o : vec) (i : N) : outcome vec :=
  match n with
  | O => Ok o
  | S n' => v <- v_get o i ;; copy_loop n' (v_push o v) (i + 1)
  end.

(* the four (length, disp) forms *)
Definition dec_ref (lz11 : bool) (b0 b1 : N) (bs : list N) : outcome (N * N * list N) :=
  if negb lz11 then
    Ok (N.shiftr b0 4 + 3, N.lor (N.shiftl (N.land b0 15) 8) b1, bs)
  else if 1 <? N.shiftr b0 4 then
    Ok (N.shiftr b0 4 + 1, N.lor (N.shiftl (N.land b0 15) 8) b1, bs)
  else if N.shiftr b0 4 =? 0 then
    '(b2, bs) <- next bs ;;
    Ok (N.lor (N.shiftl (N.land b0 15) 4) (N.shiftr b1 4) + 0x11, N.lor (N.shiftl (N.land b1 15) 8) b2, bs)
  else
    '(b2, bs) <- next bs ;;
    '(b3, bs) <- next bs ;;
    Ok (N.lor (N.lor (N.shiftl (N.land b0 15) 12) (N.shiftl b1 4)) (N.shiftr b2 4) + 0x111,
        N.lor (N.shiftl (N.land b2 15) 8) b3, bs).

(* for bit in (0..8).rev() { ... }   ([k] bits still to go, the next one is bit k-1) *)
Fixpoint bits_loop (m : mode) (lz11 : bool) (k : nat) (flags : N) (bs : list N) (o : vec) (size : N)
  : outcome (list N * vec) :=
  match k with
  | O => Ok (bs, o)
  | S bit =>
    if size <=? v_len o then Ok (bs, o)                                   (* break *)
    else if N.land (N.shiftr flags (N.of_nat bit)) 1 =? 0 then
      '(b, bs) <- next bs ;;
      bits_loop m lz11 bit flags bs (v_push o b) size                     (* push; continue *)
    else
      '(b0, bs) <- next bs ;;
      '(b1, bs) <- next bs ;;
      '(length, disp, bs) <- dec_ref lz11 b0 b1 bs ;;
      if v_len o <=? disp then Err EInvalidInput                          (* if disp >= out.len() { return None } *)
      else
        t <- sub_w W64 m (v_len o) disp ;;
        start <- sub_w W64 m t 1 ;;                                       (* out.len() - disp - 1 *)
        o <- copy_loop (N.to_nat length) o start ;;
        bits_loop m lz11 bit flags bs o size
  end.

(* while out.len() < size { let flags = input.next()?; for bit ... }   (fuel: one input byte per round) *)
Fixpoint dec_loop (m : mode) (lz11 : bool) (fuel : nat) (bs : list N) (o : vec) (size : N) : outcome vec :=
  if size <=? v_len o then Ok o else
  match fuel with
  | O => Err EOutOfFuel
  | S f =>
    '(flags, bs) <- next bs ;;
    '(bs, o) <- bits_loop m lz11 8 flags bs o size ;;
    dec_loop m lz11 f bs o size
  end.

Definition decompress_lz (m : mode) (bytes : list N) : outcome (list N) :=
  '(t, bs) <- next bytes ;;
  lz11 <- (if t =? 0x10 then Ok false else if t =? 0x11 then Ok true else Err EInvalidInput) ;;
  '(s0, bs) <- next bs ;;
  '(s1, bs) <- next bs ;;
  '(s2, bs) <- next bs ;;
  let size := N.lor (N.lor s0 (N.shiftl s1 8)) (N.shiftl s2 16) in
  '(size, bs) <- (if andb (size =? 0) lz11 then
                    '(s0, bs) <- next bs ;;
                    '(s1, bs) <- next bs ;;
                    '(s2, bs) <- next bs ;;
                    '(s3, bs) <- next bs ;;
                    Ok (N.lor (N.lor (N.lor s0 (N.shiftl s1 8)) (N.shiftl s2 16)) (N.shiftl s3 24), bs)
                  else Ok (size, bs)) ;;
  o <- dec_loop m lz11 (S (length bs)) bs v_empty size ;;
  Ok (v_list o).

(* LZ10CompressionFormat::decompress *)
Definition lz10_decompress (m : mode) (bytes : list N) : outcome (list N) := decompress_lz m bytes.

(* LZ13CompressionFormat::decompress:
     if bytes.len() < 4 { return Err(InvalidInput) }
     if bytes[0] == 0 { Ok(bytes[4..].to_vec()) }
     else { decompress_lz(if bytes[0] == 0x13 { &bytes[4..] } else { bytes }) }                    *)
Definition lz13_decompress (m : mode) (bytes : list N) : outcome (list N) :=
  if lenN bytes <? 4 then Err EInvalidInput else
  match bytes with
  | [] => Panic PIndex
  | b0 :: _ =>
    if b0 =? 0 then Ok (skipn 4 bytes)
    else decompress_lz m (if b0 =? 0x13 then skipn 4 bytes else bytes)
  end.

(* CompressionFormat *)
Inductive cformat := CF10 | CF13.
Definition cf_decompress (f : cformat) (m : mode) (bytes : list N) : outcome (list N) :=
  match f with CF10 => lz10_decompress m bytes | CF13 => lz13_decompress m bytes end.
Definition cf_compress (f : cformat) (m : mode) (bytes : list N) : outcome (list N) :=
  match f with CF10 => compress10_o bytes | CF13 => compress13_o m bytes end.
