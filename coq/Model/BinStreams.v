(* Model of BinArchiveReader / BinArchiveWriter (src/bin_streams.rs): a cursor over an
   archive.  Each stream operation is the positional call at the cursor; the cursor
   advances by the width iff the call succeeded (`?` returns before `position += w`).
   `position += w` is usize arithmetic: it can only overflow when position is within w
   of usize::MAX, in which case the positional call has already failed (size <= isize::MAX),
   so the sum is written as a plain addition. *)
From Coq Require Import List NArith ZArith Bool.
From Mila Require Import Lib.Bytes Lib.Machine Model.BinArchive.
Import ListNotations.
Local Open Scope N_scope.

(* result of a stream operation: outcome and new cursor (and archive for writers) *)
Definition rd {A} (r : outcome A) (pos w : N) : outcome A * N :=
  match r with Ok v => (Ok v, pos + w) | other => (other, pos) end.

Definition r_read_u8 (a : archive) (pos : N) := rd (read_u8 a pos) pos 1.
Definition r_read_u16 (a : archive) (pos : N) := rd (read_u16 a pos) pos 2.
Definition r_read_u32 (a : archive) (pos : N) := rd (read_u32 a pos) pos 4.
Definition r_read_f32 (a : archive) (pos : N) := rd (read_f32 a pos) pos 4.
(* read_i8/16/32 on a reader: the unsigned stream read, then `as iN` *)
Definition r_read_i8 (a : archive) (pos : N) :=
  match r_read_u8 a pos with (Ok v, p) => (Ok (to_signed 8 v), p) | (Err e, p) => (Err e, p) | (Panic k, p) => (Panic k, p) end.
Definition r_read_i16 (a : archive) (pos : N) :=
  match r_read_u16 a pos with (Ok v, p) => (Ok (to_signed 16 v), p) | (Err e, p) => (Err e, p) | (Panic k, p) => (Panic k, p) end.
Definition r_read_i32 (a : archive) (pos : N) :=
  match r_read_u32 a pos with (Ok v, p) => (Ok (to_signed 32 v), p) | (Err e, p) => (Err e, p) | (Panic k, p) => (Panic k, p) end.
Definition r_read_string (a : archive) (pos : N) := rd (read_string a pos) pos 4.
Definition r_read_pointer (a : archive) (pos : N) := rd (read_pointer a pos) pos 4.
Definition r_read_c_string (a : archive) (pos : N) := rd (read_c_string a pos) pos 4.
(* label reads never move the cursor *)
Definition r_read_labels (a : archive) (pos : N) := (read_labels a pos, pos).
Definition r_read_label (a : archive) (pos index : N) : outcome (option bytes) * N :=
  (match read_labels a pos with
   | Ok (Some bucket) => Ok (if index <? N.of_nat (length bucket) then nth_error bucket (N.to_nat index) else None)
   | Ok None => Ok None
   | Err e => Err e
   | Panic k => Panic k
   end, pos).

(* read_bytes(count): `count` successive read_u8; on failure the cursor stays after the
   bytes already read.  [count] is data-independent (caller supplied); the loop is
   structural on a nat obtained after capping by the remaining size + 1. *)
Fixpoint r_read_bytes_loop (n : nat) (a : archive) (pos : N) (acc : bytes) : outcome bytes * N :=
  match n with
  | O => (Ok (rev acc), pos)
  | S n' =>
    match r_read_u8 a pos with
    | (Ok v, p) => r_read_bytes_loop n' a p (v :: acc)
    | (Err e, p) => (Err e, p)
    | (Panic k, p) => (Panic k, p)
    end
  end.
(* at most size+1 iterations can happen before the first failure, so the count is capped
   there before it becomes a nat *)
Definition r_read_bytes (a : archive) (pos count : N) : outcome bytes * N :=
  r_read_bytes_loop (N.to_nat (N.min count (size a + 1))) a pos [].

(* ---- writer ---- *)
Definition wr (r : outcome archive) (a : archive) (pos w : N) : outcome unit * archive * N :=
  match r with Ok a' => (Ok tt, a', pos + w) | Err e => (Err e, a, pos) | Panic k => (Panic k, a, pos) end.

Definition w_write_u8 (a : archive) (pos v : N) := wr (write_u8 a pos v) a pos 1.
Definition w_write_u16 (a : archive) (pos v : N) := wr (write_u16 a pos v) a pos 2.
Definition w_write_u32 (a : archive) (pos v : N) := wr (write_u32 a pos v) a pos 4.
Definition w_write_f32 (a : archive) (pos v : N) := wr (write_f32 a pos v) a pos 4.
Definition w_write_i8 (a : archive) (pos : N) (z : Z) := w_write_u8 a pos (of_signed 8 z).
Definition w_write_i16 (a : archive) (pos : N) (z : Z) := w_write_u16 a pos (of_signed 16 z).
Definition w_write_i32 (a : archive) (pos : N) (z : Z) := w_write_u32 a pos (of_signed 32 z).
Definition w_write_string (a : archive) (pos : N) (v : option bytes) := wr (write_string a pos v) a pos 4.
Definition w_write_pointer (a : archive) (pos : N) (v : option N) := wr (write_pointer a pos v) a pos 4.
Definition w_write_c_string (a : archive) (pos : N) (s : bytes) := wr (write_c_string a pos s) a pos 4.
Definition w_write_label (a : archive) (pos : N) (l : bytes) := wr (write_label a pos l) a pos 0.
Fixpoint w_write_bytes (a : archive) (pos : N) (bs : bytes) : outcome unit * archive * N :=
  match bs with
  | [] => (Ok tt, a, pos)
  | b :: r =>
    match w_write_u8 a pos b with
    | (Ok _, a', p) => w_write_bytes a' p r
    | other => other
    end
  end.
(* allocate(amount, ge): at the end -> allocate_at_end, else archive.allocate at the cursor *)
Definition w_allocate (a : archive) (pos amount : N) (ge : bool) : outcome unit * archive * N :=
  if pos =? size a then (Ok tt, allocate_at_end a amount, pos)
  else wr (allocate a pos amount ge) a pos 0.
