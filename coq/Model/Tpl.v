(* Machine-level model of src/tpl.rs (GameCube/Wii TPL) -- definitions only.
   The layout is declared with the `binread` derive (binread 2.1.1); its semantics is modelled by hand:
     * big-endian fields read one after the other; a short read is Err (Io), never a panic;
     * `#[br(magic = 0x0020AF30)]`: the first u32 must be the magic (Err BadMagic otherwise);
     * `#[br(parse_with = FilePtr32::parse, count = n)]`: read a u32 pointer, remember the position,
       seek to the ABSOLUTE offset `pointer` (ReadOptions.offset = 0), read the target (a struct, or n
       elements one after the other; Vec<u8> byte by byte), seek back to the remembered position;
       so every structure is read at the offset its pointer names and the fields behind a pointer
       are read from where the pointer field ended;
     * `#[br(repr = u32)]` enums: Err when the value is not one of the listed variants.
   All failures of the parser are Err (TextureParseError::ParserError); no arithmetic can overflow
   (u16 dimensions in usize arithmetic).
   After parsing, every image is decoded: palette (only RGB5A3 is supported, everything else is
   UnsupportedFormat), block_to_sequential, crop, decode_indexed (only CI8 is an indexed format;
   RGB5A3/RGBA8 images end in NotIndexed, all other formats in UnsupportedFormat) -- the CI8 path
   is Pixel.tpl_ci8_image.
   `count = image_count` is a u32: the table loop runs on the fuel [S (length f)] (each element that
   is read consumes 8 bytes of the file). *)
From Coq Require Import List NArith Bool.
From Mila Require Import Lib.Bytes Lib.Machine Model.Pixel Model.Etc1 Model.TexCommon.
Import ListNotations.
Local Open Scope N_scope.

Definition TPL_MAGIC : N := 0x0020AF30.

Definition tpl_image_format_known (v : N) : bool :=
  match v with 0 | 1 | 2 | 3 | 4 | 5 | 6 | 8 | 9 | 10 | 14 => true | _ => false end.
Definition tpl_palette_format_known (v : N) : bool :=
  match v with 0 | 1 | 2 => true | _ => false end.

(* TplImageFormat::block_dimensions *)
Definition tpl_block_dims (fmt : N) : N * N :=
  match fmt with
  | 0 | 8 | 14 => (8, 8)
  | 1 | 2 | 9 => (8, 4)
  | _ => (4, 4)
  end.
(* TplImageFormat::byte_size_of_image *)
Definition tpl_image_bytes (fmt height width : N) : N :=
  let '(bw, bh) := tpl_block_dims fmt in
  let base := align height bh * align width bw in
  match fmt with
  | 0 | 8 => base / 2
  | 1 | 2 | 9 | 14 => base
  | 6 => base * 4
  | _ => base * 2
  end.

Record tpl_image := mkTImg { ti_h : N; ti_w : N; ti_fmt : N; ti_data : bytes }.
Record tpl_palette := mkTPal { tp_fmt : N; tp_data : bytes }.

(* TplImage at absolute offset p (36 bytes; the image data behind the pointer at p + 8) *)
Definition tpl_read_image (f : bytes) (p : N) : outcome tpl_image :=
  h <- rd16 BE f p ;;
  w <- rd16 BE f (p + 2) ;;
  fmt <- rd32 BE f (p + 4) ;;
  _ <- guard (tpl_image_format_known fmt) EOther ;;
  dp <- rd32 BE f (p + 8) ;;
  data <- rd_exact f dp (tpl_image_bytes fmt h w) ;;
  _ <- rd32 BE f (p + 12) ;;
  _ <- rd32 BE f (p + 16) ;;
  _ <- rd32 BE f (p + 20) ;;
  _ <- rd32 BE f (p + 24) ;;
  _ <- rd32 BE f (p + 28) ;;
  _ <- rd8 f (p + 32) ;;
  _ <- rd8 f (p + 33) ;;
  _ <- rd8 f (p + 34) ;;
  _ <- rd8 f (p + 35) ;;
  Ok (mkTImg h w fmt data).

(* TplPalette at absolute offset p (12 bytes) *)
Definition tpl_read_palette (f : bytes) (p : N) : outcome tpl_palette :=
  n <- rd16 BE f p ;;
  _ <- rd8 f (p + 2) ;;
  _ <- rd8 f (p + 3) ;;
  fmt <- rd32 BE f (p + 4) ;;
  _ <- guard (tpl_palette_format_known fmt) EOther ;;
  dp <- rd32 BE f (p + 8) ;;
  data <- rd_exact f dp (n * 2) ;;
  Ok (mkTPal fmt data).

(* TplImageTableItem at cursor position p (two pointers) *)
Definition tpl_read_item (f : bytes) (p : N) : outcome (tpl_image * tpl_palette) :=
  ip <- rd32 BE f p ;;
  img <- tpl_read_image f ip ;;
  pp <- rd32 BE f (p + 4) ;;
  pal <- tpl_read_palette f pp ;;
  Ok (img, pal).

Fixpoint tpl_read_items (fuel : nat) (f : bytes) (p remaining : N) : outcome (list (tpl_image * tpl_palette)) :=
  if remaining =? 0 then Ok [] else
  match fuel with
  | O => Err EOutOfFuel
  | S fuel' =>
    i <- tpl_read_item f p ;;
    r <- tpl_read_items fuel' f (p + 8) (remaining - 1) ;;
    Ok (i :: r)
  end.

(* cursor.read_be::<Tpl>() *)
Definition tpl_parse (f : bytes) : outcome (list (tpl_image * tpl_palette)) :=
  magic <- rd32 BE f 0 ;;
  _ <- guard (magic =? TPL_MAGIC) EBadMagic ;;
  n <- rd32 BE f 4 ;;
  tp <- rd32 BE f 8 ;;
  tpl_read_items (S (length f)) f tp n.

(* the body of the decoding loop *)
Definition tpl_texture (it : tpl_image * tpl_palette) : outcome texture :=
  let '(img, pal) := it in
  if tp_fmt pal =? 2 then
    if ti_fmt img =? 9 then
      px <- tpl_ci8_image (tp_data pal) (ti_data img) (ti_w img) (ti_h img) ;;
      Ok (mkTexture [] (ti_w img) (ti_h img) px)
    else Err EOther                       (* NotIndexed / UnsupportedFormat *)
  else Err EOther.                        (* palette: UnsupportedFormat *)

Fixpoint tpl_textures (its : list (tpl_image * tpl_palette)) : outcome (list texture) :=
  match its with
  | [] => Ok []
  | i :: r => x <- tpl_texture i ;; xs <- tpl_textures r ;; Ok (x :: xs)
  end.

(* Tpl::extract_textures; the [mode] is accepted for uniformity (nothing depends on it) *)
Definition read_tpl (m : mode) (f : bytes) : outcome (list texture) :=
  its <- tpl_parse f ;; tpl_textures its.
