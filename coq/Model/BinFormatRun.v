(* BinArchive::from_bytes with its allocation log: the same computation as Model/BinFormat.v: from_bytes (proved in
   Proofs/BinAllocTotal.v: snd (from_bytes_run e f) = from_bytes e f for every input), returning in addition the size of
   every field-sized allocation REQUESTED, whatever the outcome - like Pack.parse_run.  The only such request of
   src/bin_archive.rs:212-256 is `archive.data.resize(data_size as usize, 0)` (line 229), reached exactly when both
   header checks have passed; it happens BEFORE the data is read and before the pointer and label loops, so it is in the
   log also when one of those fails. *)
From Coq Require Import List NArith Bool.
From Mila Require Import Lib.Bytes Lib.Machine Model.BinArchive Model.BinFormat.
Import ListNotations.
Local Open Scope N_scope.

Definition from_bytes_run (e : endian) (f : bytes) : list N * outcome archive :=
  let flen := lenN f in
  if flen <? 32 then ([], Err ETooSmall) else
  match u32_file e f 4 with
  | Err x => ([], Err x) | Panic p => ([], Panic p)
  | Ok dsz =>
  match u32_file e f 8 with
  | Err x => ([], Err x) | Panic p => ([], Panic p)
  | Ok pc =>
  match u32_file e f 12 with
  | Err x => ([], Err x) | Panic p => ([], Panic p)
  | Ok lc =>
    let tstart := dsz + 4 * pc + 8 * lc in
    if flen <? tstart + 32 then ([], Err ETooSmall) else
    (* archive.data.resize(data_size, 0) *)
    ([dsz],
     d <- of_option EIo (sliceN 32 dsz f) ;;
     a1 <- ptr_loop e f flen dsz (N.to_nat pc) (32 + dsz)
             {| a_data := d; a_text := []; a_ptrs := []; a_labels := []; a_cstrs := []; a_endian := e |} ;;
     lbl_loop e f flen tstart (N.to_nat lc) (32 + dsz + 4 * pc) a1)
  end end end.

Definition from_bytes_allocs (e : endian) (f : bytes) : list N := fst (from_bytes_run e f).
