(* The four texture containers as FORMATS: which byte strings hold which ordered lists of textures
   (name, width, height, format, payload [, palette payload]).  Written from the published layouts
   (3dbrew: CTPK, CGFX; Ohana3DS / SPICA: BCH ("H3D"); YAGCD / Custom Mario Kart wiki: TPL) and the
   property text, independently of the parsers (Model/Ctpk.v, Bch.v, Cgfx.v, Tpl.v do not appear here).
   Tables, names and payloads may lie anywhere in the file (any order, gaps, overlaps) as far as the
   format's offsets can express it.  Names are in encoded form (NUL-free bytes; Shift-JIS in CTPK,
   UTF-8 in BCH and CGFX).  A container addresses its parts with 32-bit offsets, so a conforming 3DS
   file is shorter than 4 GiB.

   CTPK   0 "CTPK" | 4 u16 version | 6 u16 count | 8 u32 texture section | 12 u32 section size |
          16 u32 hash section | 20 u32 short-info section | 24 8 bytes padding
          32 + 32 i: u32 name offset | u32 payload size | u32 payload offset IN the texture section |
                     u32 format | u16 width | u16 height | u8 mip levels | u8 type | u16 cube dir |
                     u32 bitmap-size offset | u32 time stamp
   BCH    0 "BCH\0" | 4 u8 backward compatibility | 5 u8 forward c. | 6 u16 version | 8 u32 contents address |
          12 u32 strings address | 16 u32 commands address | 20 u32 raw data address |
          [24 u32 raw ext address, only when backward compatibility > 0x20] | relocation address |
          contents / strings / commands / raw data [/ raw ext] / relocation lengths | two uninitialised lengths
          contents + 0x24: u32 texture pointer table (relative to contents) | u32 number of textures
          table[i] -> texture record (relative to contents): +0 u32 unit-0 commands (relative to commands),
          +28 u32 name (relative to strings)
          commands: +0 u16 height | +2 u16 width | +16 u32 payload (relative to raw data) | +24 u32 format
   CGFX   0 "CGFX" | 4 u16 BOM | 6 u16 header size | 8 u32 revision | 12 u32 file size | 16 u32 blocks
          0x14 "DATA" | u32 size | 16 x (u32 count, u32 self-relative offset of a DICT); entry 1 = textures;
          self-relative = position of the field + the field, modulo 2^32 (signed offsets)
          DICT: "DICT" | u32 size | u32 count | 16-byte root | count x (u32 ref bit, u16 left, u16 right,
                u32 self-relative name, u32 self-relative object)
          TXOB: +0 u32 type | +4 "TXOB" | +12 self-relative name | +24 u32 height | +28 u32 width |
                +40 u32 mip levels | +52 u32 format | +68 u32 payload size | +72 self-relative payload
   TPL    (big-endian) 0 u32 0x0020AF30 | 4 u32 count | 8 u32 table; table[i] = (u32 image header, u32 palette header)
          image header (36 bytes): u16 height | u16 width | u32 format | u32 data | ...
          palette header (12 bytes): u16 entries | u8 | u8 | u32 format | u32 data *)
From Coq Require Import List NArith Bool.
From Mila Require Import Lib.Bytes Model.Pixel Model.TexCommon.
Import ListNotations.
Local Open Scope N_scope.

Definition CTPK_FMAGIC : N := 0x4B505443.      (* "CTPK" *)
Definition BCH_FMAGIC : N := 0x00484342.       (* "BCH\0" *)
Definition CGFX_FMAGIC : N := 0x58464743.      (* "CGFX" *)
Definition DATA_FMAGIC : N := 0x41544144.      (* "DATA" *)
Definition DICT_FMAGIC : N := 0x54434944.      (* "DICT" *)
Definition TXOB_FMAGIC : N := 0x424F5854.      (* "TXOB" *)
Definition TPL_FMAGIC : N := 0x0020AF30.
Definition TPL_CI8 : N := 9.
Definition TPL_RGB5A3 : N := 2.

(* a 3DS texture: its name is valid text, the payload is the whole payload of a w x h texture of the format *)
Definition tex3ds_wf (valid : bytes -> bool) (t : tex) : Prop :=
  valid (t_name t) = true /\ lenN (t_data t) = payload_size (t_fmt t) (t_w t) (t_h t) /\ t_pal t = [].
(* a TPL texture: CI8 image data in 8x4 blocks + a palette of n RGB5A3 colours; no name *)
Definition textpl_wf (t : tex) : Prop :=
  t_name t = [] /\ t_fmt t = TPL_CI8 /\ lenN (t_data t) = align (t_h t) 4 * align (t_w t) 8 /\
  lenN (t_pal t) mod 2 = 0 /\ lenN (t_pal t) / 2 < 2 ^ 16.

(* a self-relative offset stored at p designates [target]: position + offset modulo 2^32 (the offset is a signed
   32-bit quantity in two's complement, so the target may lie in front of the field) *)
Definition selfrel (f : bytes) (p target : N) : Prop := exists v, u32_at LE f p = Some v /\ target = (p + v) mod 2 ^ 32.
Definition present32 (e : endian) (f : bytes) (p : N) : Prop := exists v, u32_at e f p = Some v.

(* ---------------------------------------------------------------- CTPK *)
Definition ctpk_entry (f : bytes) (tsec i : N) (t : tex) : Prop :=
  let b := 32 + 32 * i in
  exists np dp,
    u32_at LE f b = Some np /\ u32_at LE f (b + 4) = Some (lenN (t_data t)) /\ u32_at LE f (b + 8) = Some dp /\
    u32_at LE f (b + 12) = Some (t_fmt t) /\ u16_at LE f (b + 16) = Some (t_w t) /\ u16_at LE f (b + 18) = Some (t_h t) /\
    b + 32 <= lenN f /\
    cstr_atN f np = Some (t_name t) /\ sliceN (tsec + dp) (lenN (t_data t)) f = Some (t_data t) /\
    tex3ds_wf sjis_name t.

Definition conforms_ctpk (f : bytes) (texs : list tex) : Prop :=
  lenN f < 2 ^ 32 /\ 32 <= lenN f /\ u32_at LE f 0 = Some CTPK_FMAGIC /\
  u16_at LE f 6 = Some (N.of_nat (length texs)) /\
  exists tsec, u32_at LE f 8 = Some tsec /\
    forall i t, nth_error texs i = Some t -> ctpk_entry f tsec (N.of_nat i) t.

(* where the file says payload i is stored *)
Definition ctpk_payload_at (f : bytes) (i off : N) : Prop :=
  exists tsec dp, u32_at LE f 8 = Some tsec /\ u32_at LE f (32 + 32 * i + 8) = Some dp /\ off = tsec + dp.

(* ---------------------------------------------------------------- BCH *)
Record bch_addrs := mkBA { ba_contents : N; ba_strings : N; ba_commands : N; ba_raw : N; ba_table : N }.

Definition bch_entry (f : bytes) (a : bch_addrs) (i : N) (t : tex) : Prop :=
  exists dest c0 noff d0,
    u32_at LE f (ba_contents a + ba_table a + 4 * i) = Some dest /\
    u32_at LE f (ba_contents a + dest) = Some c0 /\
    u32_at LE f (ba_contents a + dest + 28) = Some noff /\
    cstr_atN f (ba_strings a + noff) = Some (t_name t) /\
    u16_at LE f (ba_commands a + c0) = Some (t_h t) /\ u16_at LE f (ba_commands a + c0 + 2) = Some (t_w t) /\
    u32_at LE f (ba_commands a + c0 + 16) = Some d0 /\ u32_at LE f (ba_commands a + c0 + 24) = Some (t_fmt t) /\
    sliceN (ba_raw a + d0) (lenN (t_data t)) f = Some (t_data t) /\
    tex3ds_wf utf8_valid t.

Definition bch_header_at (f : bytes) (a : bch_addrs) : Prop :=
  u32_at LE f 0 = Some BCH_FMAGIC /\
  (* the contents section lies behind the header (56 bytes, 64 with the extended-data fields) *)
  (exists bc, u8_at f 4 = Some bc /\ 56 + (if 0x20 <? bc then 8 else 0) <= ba_contents a) /\
  u32_at LE f 8 = Some (ba_contents a) /\ u32_at LE f 12 = Some (ba_strings a) /\
  u32_at LE f 16 = Some (ba_commands a) /\ u32_at LE f 20 = Some (ba_raw a).

Definition conforms_bch (f : bytes) (texs : list tex) : Prop :=
  lenN f < 2 ^ 32 /\
  exists a, bch_header_at f a /\
    u32_at LE f (ba_contents a + 0x24) = Some (ba_table a) /\
    u32_at LE f (ba_contents a + 0x28) = Some (N.of_nat (length texs)) /\
    ba_contents a + ba_table a <= lenN f /\
    forall i t, nth_error texs i = Some t -> bch_entry f a (N.of_nat i) t.

Definition bch_payload_at (f : bytes) (i off : N) : Prop :=
  exists ca cma ra toff dest c0 d0,
    u32_at LE f 8 = Some ca /\ u32_at LE f 16 = Some cma /\ u32_at LE f 20 = Some ra /\
    u32_at LE f (ca + 0x24) = Some toff /\ u32_at LE f (ca + toff + 4 * i) = Some dest /\
    u32_at LE f (ca + dest) = Some c0 /\ u32_at LE f (cma + c0 + 16) = Some d0 /\ off = ra + d0.

(* ---------------------------------------------------------------- CGFX *)
Definition cgfx_entry (f : bytes) (d i : N) (t : tex) : Prop :=
  let r := d + 28 + 16 * i in
  exists dn o np dp,
    selfrel f (r + 8) dn /\ cstr_atN f dn = Some (t_name t) /\
    selfrel f (r + 12) o /\
    present32 LE f o /\ u32_at LE f (o + 4) = Some TXOB_FMAGIC /\
    selfrel f (o + 12) np /\ cstr_atN f np = Some (t_name t) /\
    u32_at LE f (o + 24) = Some (t_h t) /\ u32_at LE f (o + 28) = Some (t_w t) /\
    present32 LE f (o + 40) /\ u32_at LE f (o + 52) = Some (t_fmt t) /\
    u32_at LE f (o + 68) = Some (lenN (t_data t)) /\
    selfrel f (o + 72) dp /\ sliceN dp (lenN (t_data t)) f = Some (t_data t) /\
    tex3ds_wf utf8_valid t.

Definition conforms_cgfx (f : bytes) (texs : list tex) : Prop :=
  lenN f < 2 ^ 32 /\ u32_at LE f 0 = Some CGFX_FMAGIC /\ 0x14 <= lenN f /\
  u32_at LE f 0x14 = Some DATA_FMAGIC /\ present32 LE f 0x18 /\
  (* room for the sixteen dictionary references (count, self-relative offset) *)
  0x9C <= lenN f /\
  u32_at LE f 0x24 = Some (N.of_nat (length texs)) /\
  exists d, selfrel f 0x28 d /\
    u32_at LE f d = Some DICT_FMAGIC /\ present32 LE f (d + 4) /\
    u32_at LE f (d + 8) = Some (N.of_nat (length texs)) /\ d + 28 <= lenN f /\
    forall i t, nth_error texs i = Some t -> cgfx_entry f d (N.of_nat i) t.

Definition cgfx_payload_at (f : bytes) (i off : N) : Prop :=
  exists d o, selfrel f 0x28 d /\ selfrel f (d + 28 + 16 * i + 12) o /\ selfrel f (o + 72) off.

(* ---------------------------------------------------------------- TPL *)
Definition tpl_entry (f : bytes) (tp i : N) (t : tex) : Prop :=
  exists ip pp dp pdp,
    u32_at BE f (tp + 8 * i) = Some ip /\ u32_at BE f (tp + 8 * i + 4) = Some pp /\
    u16_at BE f ip = Some (t_h t) /\ u16_at BE f (ip + 2) = Some (t_w t) /\ u32_at BE f (ip + 4) = Some TPL_CI8 /\
    u32_at BE f (ip + 8) = Some dp /\ ip + 36 <= lenN f /\
    sliceN dp (lenN (t_data t)) f = Some (t_data t) /\
    u16_at BE f pp = Some (lenN (t_pal t) / 2) /\ pp + 12 <= lenN f /\ u32_at BE f (pp + 4) = Some TPL_RGB5A3 /\
    u32_at BE f (pp + 8) = Some pdp /\ sliceN pdp (lenN (t_pal t)) f = Some (t_pal t) /\
    textpl_wf t.

Definition conforms_tpl (f : bytes) (texs : list tex) : Prop :=
  u32_at BE f 0 = Some TPL_FMAGIC /\ u32_at BE f 4 = Some (N.of_nat (length texs)) /\
  exists tp, u32_at BE f 8 = Some tp /\
    forall i t, nth_error texs i = Some t -> tpl_entry f tp (N.of_nat i) t.

(* where the file says image data / palette data of image i are stored *)
Definition tpl_image_at (f : bytes) (i off : N) : Prop :=
  exists tp ip, u32_at BE f 8 = Some tp /\ u32_at BE f (tp + 8 * i) = Some ip /\ u32_at BE f (ip + 8) = Some off.
Definition tpl_palette_at (f : bytes) (i off : N) : Prop :=
  exists tp pp, u32_at BE f 8 = Some tp /\ u32_at BE f (tp + 8 * i + 4) = Some pp /\ u32_at BE f (pp + 8) = Some off.

(* "the cut at k removes part of the payload [data] stored at [off]" *)
Definition cuts (k off : N) (data : bytes) : Prop := 0 < lenN data /\ k < off + lenN data.

(* ================================================================ boolean checkers *)
Definition oN_eqb (o : option N) (v : N) : bool := match o with Some x => x =? v | None => false end.
Definition ob_eqb (o : option bytes) (b : bytes) : bool := match o with Some x => bytes_eqb x b | None => false end.
Definition is_some {A} (o : option A) : bool := match o with Some _ => true | None => false end.
Definition is_nil {A} (l : list A) : bool := match l with [] => true | _ => false end.

Fixpoint entriesb (eb : N -> tex -> bool) (i : N) (texs : list tex) : bool :=
  match texs with
  | [] => true
  | t :: r => eb i t && entriesb eb (i + 1) r
  end.

Definition tex3ds_wfb (valid : bytes -> bool) (t : tex) : bool :=
  valid (t_name t) && (lenN (t_data t) =? payload_size (t_fmt t) (t_w t) (t_h t)) && is_nil (t_pal t).
Definition textpl_wfb (t : tex) : bool :=
  is_nil (t_name t) && (t_fmt t =? TPL_CI8) && (lenN (t_data t) =? align (t_h t) 4 * align (t_w t) 8)
  && (lenN (t_pal t) mod 2 =? 0) && (lenN (t_pal t) / 2 <? 2 ^ 16).

(* the value of a self-relative offset at p *)
Definition selfrel_of (f : bytes) (p : N) : option N :=
  match u32_at LE f p with Some v => Some ((p + v) mod 2 ^ 32) | None => None end.

Definition ctpk_entryb (f : bytes) (tsec i : N) (t : tex) : bool :=
  let b := 32 + 32 * i in
  match u32_at LE f b, u32_at LE f (b + 8) with
  | Some np, Some dp =>
    oN_eqb (u32_at LE f (b + 4)) (lenN (t_data t)) && oN_eqb (u32_at LE f (b + 12)) (t_fmt t)
    && oN_eqb (u16_at LE f (b + 16)) (t_w t) && oN_eqb (u16_at LE f (b + 18)) (t_h t)
    && (b + 32 <=? lenN f)
    && ob_eqb (cstr_atN f np) (t_name t) && ob_eqb (sliceN (tsec + dp) (lenN (t_data t)) f) (t_data t)
    && tex3ds_wfb sjis_name t
  | _, _ => false
  end.
Definition conforms_ctpkb (f : bytes) (texs : list tex) : bool :=
  (lenN f <? 2 ^ 32) && (32 <=? lenN f) && oN_eqb (u32_at LE f 0) CTPK_FMAGIC
  && oN_eqb (u16_at LE f 6) (N.of_nat (length texs))
  && match u32_at LE f 8 with Some tsec => entriesb (ctpk_entryb f tsec) 0 texs | None => false end.

Definition bch_entryb (f : bytes) (a : bch_addrs) (i : N) (t : tex) : bool :=
  match u32_at LE f (ba_contents a + ba_table a + 4 * i) with
  | Some dest =>
    match u32_at LE f (ba_contents a + dest), u32_at LE f (ba_contents a + dest + 28) with
    | Some c0, Some noff =>
      match u32_at LE f (ba_commands a + c0 + 16) with
      | Some d0 =>
        ob_eqb (cstr_atN f (ba_strings a + noff)) (t_name t)
        && oN_eqb (u16_at LE f (ba_commands a + c0)) (t_h t) && oN_eqb (u16_at LE f (ba_commands a + c0 + 2)) (t_w t)
        && oN_eqb (u32_at LE f (ba_commands a + c0 + 24)) (t_fmt t)
        && ob_eqb (sliceN (ba_raw a + d0) (lenN (t_data t)) f) (t_data t)
        && tex3ds_wfb utf8_valid t
      | None => false
      end
    | _, _ => false
    end
  | None => false
  end.
Definition conforms_bchb (f : bytes) (texs : list tex) : bool :=
  (lenN f <? 2 ^ 32) && oN_eqb (u32_at LE f 0) BCH_FMAGIC &&
  match u8_at f 4, u32_at LE f 8, u32_at LE f 12, u32_at LE f 16, u32_at LE f 20 with
  | Some bc, Some ca, Some sa, Some cma, Some ra =>
    (56 + (if 0x20 <? bc then 8 else 0) <=? ca) &&
    match u32_at LE f (ca + 0x24) with
    | Some toff =>
      oN_eqb (u32_at LE f (ca + 0x28)) (N.of_nat (length texs)) && (ca + toff <=? lenN f)
      && entriesb (bch_entryb f (mkBA ca sa cma ra toff)) 0 texs
    | None => false
    end
  | _, _, _, _, _ => false
  end.

Definition cgfx_entryb (f : bytes) (d i : N) (t : tex) : bool :=
  let r := d + 28 + 16 * i in
  match selfrel_of f (r + 8), selfrel_of f (r + 12) with
  | Some dn, Some o =>
    match selfrel_of f (o + 12), selfrel_of f (o + 72) with
    | Some np, Some dp =>
      ob_eqb (cstr_atN f dn) (t_name t) && is_some (u32_at LE f o) && oN_eqb (u32_at LE f (o + 4)) TXOB_FMAGIC
      && ob_eqb (cstr_atN f np) (t_name t)
      && oN_eqb (u32_at LE f (o + 24)) (t_h t) && oN_eqb (u32_at LE f (o + 28)) (t_w t)
      && is_some (u32_at LE f (o + 40)) && oN_eqb (u32_at LE f (o + 52)) (t_fmt t)
      && oN_eqb (u32_at LE f (o + 68)) (lenN (t_data t))
      && ob_eqb (sliceN dp (lenN (t_data t)) f) (t_data t)
      && tex3ds_wfb utf8_valid t
    | _, _ => false
    end
  | _, _ => false
  end.
Definition conforms_cgfxb (f : bytes) (texs : list tex) : bool :=
  (lenN f <? 2 ^ 32) && oN_eqb (u32_at LE f 0) CGFX_FMAGIC && (0x14 <=? lenN f)
  && oN_eqb (u32_at LE f 0x14) DATA_FMAGIC && is_some (u32_at LE f 0x18)
  && (0x9C <=? lenN f)
  && oN_eqb (u32_at LE f 0x24) (N.of_nat (length texs))
  && match selfrel_of f 0x28 with
     | Some d =>
       oN_eqb (u32_at LE f d) DICT_FMAGIC && is_some (u32_at LE f (d + 4))
       && oN_eqb (u32_at LE f (d + 8)) (N.of_nat (length texs)) && (d + 28 <=? lenN f)
       && entriesb (cgfx_entryb f d) 0 texs
     | None => false
     end.

Definition tpl_entryb (f : bytes) (tp i : N) (t : tex) : bool :=
  match u32_at BE f (tp + 8 * i), u32_at BE f (tp + 8 * i + 4) with
  | Some ip, Some pp =>
    match u32_at BE f (ip + 8), u32_at BE f (pp + 8) with
    | Some dp, Some pdp =>
      oN_eqb (u16_at BE f ip) (t_h t) && oN_eqb (u16_at BE f (ip + 2)) (t_w t) && oN_eqb (u32_at BE f (ip + 4)) TPL_CI8
      && (ip + 36 <=? lenN f) && ob_eqb (sliceN dp (lenN (t_data t)) f) (t_data t)
      && oN_eqb (u16_at BE f pp) (lenN (t_pal t) / 2) && (pp + 12 <=? lenN f) && oN_eqb (u32_at BE f (pp + 4)) TPL_RGB5A3
      && ob_eqb (sliceN pdp (lenN (t_pal t)) f) (t_pal t)
      && textpl_wfb t
    | _, _ => false
    end
  | _, _ => false
  end.
Definition conforms_tplb (f : bytes) (texs : list tex) : bool :=
  oN_eqb (u32_at BE f 0) TPL_FMAGIC && oN_eqb (u32_at BE f 4) (N.of_nat (length texs))
  && match u32_at BE f 8 with Some tp => entriesb (tpl_entryb f tp) 0 texs | None => false end.
