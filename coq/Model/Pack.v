(* Machine-level model of src/fe9_arc.rs (GameCube/Wii "pack" archive) AFTER the repairs
   F7 (wrong magic -> error instead of todo!()) and F8 (entry checked against the input before
   its buffer is allocated).

   parse      : Cursor<&[u8]> reads.  A read that leaves the buffer is io::ErrorKind::UnexpectedEof
                (Err EIo); set_position past the end is legal and makes the next read fail
                (A-std).  read_shift_jis_string: bytes up to the first NUL, Err EUnterminated when
                the buffer ends first.  The only fixed-width arithmetic of the function is the
                u64 sum `file_address + file_size_unpadded` of the repaired bounds check; it is
                modelled with add_w W64 under the [mode] (it cannot overflow: both are u32).
                Every `vec![0; size]` is logged with its size, in program order, also when the
                function ends in Err afterwards.
   serialize  : usize arithmetic on lengths of live buffers is unbounded N (assumption A-usize:
                the sums are bounded by the size of the archive being assembled in memory);
                the conversions `as u16` / `as u32` truncate and are modelled exactly.
   Names are in encoded form (NUL-free Shift-JIS bytes, assumption A-codec); IndexMap is an
   association list in insertion order, inserting an existing key replaces the value in place. *)
From Coq Require Import List NArith Bool.
From Mila Require Import Lib.Bytes Lib.Machine.
Import ListNotations.
Local Open Scope N_scope.

Definition MAGIC : N := 1885430635.            (* 0x7061636B *)
Definition BASE_HEADER_SIZE : N := 8.
Definition PADDING_BOUNDARY : N := 32.
Definition METADATA_SIZE : N := 16.

Notation entry := (bytes * bytes)%type (only parsing).      (* (encoded name, contents) *)

(* IndexMap::insert *)
Fixpoint im_insert (k v : bytes) (l : list entry) : list entry :=
  match l with
  | [] => [(k, v)]
  | (k', v') :: r => if bytes_eqb k k' then (k', v) :: r else (k', v') :: im_insert k v r
  end.

(* ------------------------------------------------------------------ parse *)
Record meta := mkMeta { m_name : N; m_addr : N; m_size : N }.

Definition rd32 (f : bytes) (pos : N) : outcome N := of_option EIo (u32_at BE f pos).
Definition rd16 (f : bytes) (pos : N) : outcome N := of_option EIo (u16_at BE f pos).

(* EntryMetadata::read at cursor position [pos] *)
Definition read_meta (f : bytes) (pos : N) : outcome meta :=
  _ <- rd32 f pos ;;
  na <- rd32 f (pos + 4) ;;
  fa <- rd32 f (pos + 8) ;;
  sz <- rd32 f (pos + 12) ;;
  Ok (mkMeta na fa sz).

Fixpoint read_metas (f : bytes) (pos : N) (n : nat) : outcome (list meta) :=
  match n with
  | O => Ok []
  | S n' => e <- read_meta f pos ;; r <- read_metas f (pos + METADATA_SIZE) n' ;; Ok (e :: r)
  end.

Definition parse_header (f : bytes) : outcome (list meta) :=
  magic <- rd32 f 0 ;;
  _ <- guard (magic =? MAGIC) EBadMagic ;;                 (* F7: was todo!() = Panic PTodo *)
  count <- rd16 f 4 ;;
  read_metas f BASE_HEADER_SIZE (N.to_nat count).            (* count < 2^16 *)

(* the second loop; returns (allocation requests in program order, outcome) *)
Fixpoint read_files (m : mode) (f : bytes) (flen : N) (ms : list meta) (acc : list entry)
  : list N * outcome (list entry) :=
  match ms with
  | [] => ([], Ok acc)
  | e :: r =>
    match cstr_atN f (m_name e) with
    | None => ([], Err EUnterminated)
    | Some name =>
      match add_w W64 m (m_addr e) (m_size e) with
      | Panic p => ([], Panic p)
      | Err x => ([], Err x)
      | Ok fin =>
        if flen <? fin then ([], Err ETooSmall)                 (* F8: check before vec![0; size] *)
        else
          match sliceN (m_addr e) (m_size e) f with
          | None => ([m_size e], Err EIo)                       (* read_exact; unreachable after F8 *)
          | Some body =>
            let '(lg, o) := read_files m f flen r (im_insert name body acc) in
            (m_size e :: lg, o)
          end
      end
    end
  end.

Definition parse_run (m : mode) (f : bytes) : list N * outcome (list entry) :=
  match parse_header f with
  | Ok ms => read_files m f (lenN f) ms []
  | Err e => ([], Err e)
  | Panic p => ([], Panic p)
  end.

Definition parse (m : mode) (f : bytes) : outcome (list entry) := snd (parse_run m f).
Definition parse_allocs (m : mode) (f : bytes) : list N := fst (parse_run m f).

(* ------------------------------------------------------------------ serialize *)
(* first loop: (text_addresses, raw_text) *)
Definition text_step (hl : N) (st : list N * bytes) (k : bytes) : list N * bytes :=
  let '(addrs, txt) := st in (addrs ++ [hl + lenN txt], txt ++ k ++ [0]).

(* `while (x) % 32 != 0 { push(0) }` appends pad_len 32 x zero bytes *)
Definition pad_zeros (x : N) : bytes := zeros (N.to_nat (pad_len PADDING_BOUNDARY x)).

(* second loop: (file_info, raw_files); [base] = header_length + raw_text.len() *)
Definition file_step (base : N) (st : list (N * N) * bytes) (body : bytes) : list (N * N) * bytes :=
  let '(info, raw) := st in
  let raw1 := raw ++ body in
  (info ++ [(base + lenN raw, lenN body)], raw1 ++ pad_zeros (base + lenN raw1)).

Definition row (r : N * (N * N)) : bytes :=
  let '(ta, (fa, sz)) := r in
  [0; 0; 0; 0] ++ enc BE 4 (trunc_w 32 ta) ++ enc BE 4 (trunc_w 32 fa) ++ enc BE 4 (trunc_w 32 sz).

Definition serialize (files : list entry) : outcome bytes :=
  let n := N.of_nat (length files) in
  let hl := BASE_HEADER_SIZE + n * METADATA_SIZE in
  let '(taddrs, txt0) := fold_left (text_step hl) (map fst files) ([], []) in
  let txt := txt0 ++ pad_zeros (hl + lenN txt0) in
  let base := hl + lenN txt in
  let '(finfo, raw) := fold_left (file_step base) (map snd files) ([], []) in
  (* F26 (530f18c): the header stores the count in 16 bits and every address and size in 32 bits;
     `if contents.len() > u16::MAX || image_size > u32::MAX { return Err(OtherError) }`, after the sizes are computed *)
  let image_size := hl + lenN txt + lenN raw in
  if orb (65535 <? n) (4294967295 <? image_size) then Err EOther else
  Ok (enc BE 4 MAGIC ++ enc BE 2 (trunc_w 16 n) ++ [0; 0]
      ++ flat_map row (combine taddrs finfo) ++ txt ++ raw).
