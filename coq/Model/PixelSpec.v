(* Specifications the C19 theorems are stated against, written from the published descriptions of
   the formats (PICA200 tiled textures, Khronos OES_compressed_ETC1_RGB8_texture, GameCube RGB5A3 / CI8),
   NOT from mila's source: Z-order (Morton) index, channel layouts + linear expansion, the ETC1 rules.
   Definitions only. *)
From Coq Require Import List NArith ZArith Bool.
From Mila Require Import Lib.Bytes.
Import ListNotations.
Local Open Scope N_scope.

(* ---------------- Z-order inside an 8x8 tile ---------------- *)
Definition bitn (v i : N) : N := (v / 2 ^ i) mod 2.
(* position of texel (x, y): bits of x and y interleaved, x in the even positions *)
Definition morton (x y : N) : N :=
  bitn x 0 + 2 * bitn y 0 + 4 * bitn x 1 + 8 * bitn y 1 + 16 * bitn x 2 + 32 * bitn y 2.
Definition morton_x (i : N) : N := bitn i 0 + 2 * bitn i 2 + 4 * bitn i 4.
Definition morton_y (i : N) : N := bitn i 1 + 2 * bitn i 3 + 4 * bitn i 5.

(* source element of pixel (X, Y) in a w-wide texture of 8x8 tiles *)
Definition tiled_index (w X Y : N) : N := ((Y / 8) * (w / 8) + X / 8) * 64 + morton (X mod 8) (Y mod 8).

(* the i-th little-endian element of [bpe] bytes of a payload *)
Definition element (bpe : N) (data : bytes) (i : N) : N :=
  dec_le (firstn (N.to_nat bpe) (skipn (N.to_nat (i * bpe)) data)).

(* ETC1 on the 3DS: block of pixel (X, Y) and texel inside it *)
Definition etc_block_index (w X Y : N) : N := ((Y / 8) * (w / 8) + X / 8) * 4 + 2 * ((Y / 4) mod 2) + (X / 4) mod 2.

(* (alpha word, colour word) of block number b of an ETC1 / ETC1A4 payload: little-endian u64s, the alpha
   word first; plain ETC1 is opaque (all alpha nibbles 15) *)
Definition etc_block_at (alpha : bool) (data : bytes) (b : N) : N * N :=
  if alpha then (element 8 data (2 * b), element 8 data (2 * b + 1)) else (0xFFFFFFFFFFFFFFFF, element 8 data b).
Definition etc_block_bytes (alpha : bool) : N := if alpha then 16 else 8.

(* ---------------- channels ---------------- *)
Definition field (v shift bits : N) : N := (v / 2 ^ shift) mod 2 ^ bits.
(* decoded 8-bit channel d of the n-bit field f: within one quantisation step of 255*f/(2^n-1) *)
Definition within_step (d f n : N) : bool :=
  let mx := Z.of_N (2 ^ n - 1) in
  (Z.abs (Z.of_N d * mx - 255 * Z.of_N f) <? Z.of_N (2 ^ (8 - n)) * mx)%Z.
Definition exact_expansion (d f n : N) : bool := (d * (2 ^ n - 1) =? 255 * f).

(* channel layout of the listed 3DS formats: (channel 0..3 = r g b a, shift, bits); luminance formats
   copy L to r, g and b; formats without alpha bits are opaque *)
Inductive chan := CR | CG | CB | CA | CL.
Definition layout (format : N) : list (chan * N * N) :=
  match format with
  | 0 => [(CR, 24, 8); (CG, 16, 8); (CB, 8, 8); (CA, 0, 8)]
  | 2 => [(CR, 11, 5); (CG, 6, 5); (CB, 1, 5); (CA, 0, 1)]
  | 3 => [(CR, 11, 5); (CG, 5, 6); (CB, 0, 5)]
  | 4 => [(CR, 12, 4); (CG, 8, 4); (CB, 4, 4); (CA, 0, 4)]
  | 5 => [(CL, 8, 8); (CA, 0, 8)]
  | 7 => [(CL, 0, 8)]
  | 8 => [(CA, 0, 8)]
  | _ => []
  end.
Definition listed_color_format (format : N) : bool :=
  match format with 0 | 2 | 3 | 4 | 5 | 7 | 8 => true | _ => false end.
Definition bytes_per_element (format : N) : N :=
  match format with 0 => 4 | 2 | 3 | 4 | 5 => 2 | 7 | 8 => 1 | _ => 0 end.
Definition has_alpha (format : N) : bool := existsb (fun e => match fst (fst e) with CA => true | _ => false end) (layout format).

Definition chan_ok (px : list N) (value : N) (e : chan * N * N) : bool :=
  let '(c, shift, bits) := e in
  let f := field value shift bits in
  let ok (d : N) := within_step d f bits && (if (bits =? 8) || (bits =? 4) || (bits =? 1) then exact_expansion d f bits else true) in
  match c with
  | CR => ok (nth 0 px 0) | CG => ok (nth 1 px 0) | CB => ok (nth 2 px 0) | CA => ok (nth 3 px 0)
  | CL => ok (nth 0 px 0) && ok (nth 1 px 0) && ok (nth 2 px 0)
  end.
(* px is an admissible decoding of [value] in [format] *)
Definition color_ok (format value : N) (px : list N) : bool :=
  (length px =? 4)%nat && forallb (fun d => d <? 256) px && forallb (chan_ok px value) (layout format)
  && (has_alpha format || (nth 3 px 0 =? 255)).

(* RGB5A3: bit 15 set -> opaque RGB555, clear -> A3 RGB444 *)
Definition rgb5a3_ok (value : N) (px : list N) : bool :=
  (length px =? 4)%nat && forallb (fun d => d <? 256) px &&
  if field value 15 1 =? 1 then
    within_step (nth 0 px 0) (field value 10 5) 5 && within_step (nth 1 px 0) (field value 5 5) 5
    && within_step (nth 2 px 0) (field value 0 5) 5 && (nth 3 px 0 =? 255)
  else
    within_step (nth 3 px 0) (field value 12 3) 3 && exact_expansion (nth 0 px 0) (field value 8 4) 4
    && exact_expansion (nth 1 px 0) (field value 4 4) 4 && exact_expansion (nth 2 px 0) (field value 0 4) 4.

(* CI8 image in 8x4 blocks: index into the block data of pixel (x, y) of a w-wide image *)
Definition align8 (w : N) : N := (w + 7) / 8 * 8.
Definition align4 (h : N) : N := (h + 3) / 4 * 4.
Definition ci8_index (w x y : N) : N := ((y / 4) * (align8 w / 8) + x / 8) * 32 + (y mod 4) * 8 + x mod 8.
(* i-th big-endian 16-bit entry of a palette / RGB5A3 payload *)
Definition be16_at (data : bytes) (i : N) : N := 256 * nth (N.to_nat (2 * i)) data 0 + nth (N.to_nat (2 * i + 1)) data 0.

(* ---------------- ETC1 ---------------- *)
(* word: the 64 bits of a block, bit 63 = most significant bit of the first byte of the big-endian
   block of the specification (the 3DS stores the block as a little-endian u64 of the same value). *)
Definition etc1_table (cw : N) : Z * Z :=   (* (small, large) magnitude per table codeword *)
  match cw with
  | 0 => (2, 8)%Z | 1 => (5, 17)%Z | 2 => (9, 29)%Z | 3 => (13, 42)%Z
  | 4 => (18, 60)%Z | 5 => (24, 80)%Z | 6 => (33, 106)%Z | _ => (47, 183)%Z
  end.
(* pixel index (msb, lsb): 00 -> +small, 01 -> +large, 10 -> -small, 11 -> -large *)
Definition etc1_modifier (cw : N) (msb lsb : bool) : Z :=
  let '(a, b) := etc1_table cw in
  match msb, lsb with
  | false, false => a | false, true => b | true, false => (- a)%Z | true, true => (- b)%Z
  end.
Definition signed3 (d : N) : Z := if d <? 4 then Z.of_N d else (Z.of_N d - 8)%Z.
Definition extend4 (v : Z) : Z := (16 * v + v)%Z.        (* abcd -> abcdabcd *)
Definition extend5 (v : Z) : Z := (8 * v + v / 4)%Z.     (* abcde -> abcdeabc *)
Definition etc1_diff (word : N) : bool := N.testbit word 33.
Definition etc1_flip (word : N) : bool := N.testbit word 32.

(* base colour channel (top = 63, 55, 47 for r, g, b) of sub-block 1 / 2 *)
Definition etc1_base1 (word top : N) : Z :=
  if etc1_diff word then extend5 (Z.of_N (field word (top - 4) 5)) else extend4 (Z.of_N (field word (top - 3) 4)).
Definition etc1_sum (word top : N) : Z := (Z.of_N (field word (top - 4) 5) + signed3 (field word (top - 7) 3))%Z.
Definition etc1_base2 (word top : N) : Z :=
  if etc1_diff word then extend5 (etc1_sum word top) else extend4 (Z.of_N (field word (top - 7) 4)).
(* the rules define a differential block only when every base + delta stays in 0..31 *)
Definition etc1_in_range (word : N) : bool :=
  negb (etc1_diff word) ||
  forallb (fun top => (0 <=? etc1_sum word top)%Z && (etc1_sum word top <=? 31)%Z) [63; 55; 47].

Definition clamp255 (z : Z) : N := if (z <? 0)%Z then 0 else if (255 <? z)%Z then 255 else Z.to_N z.

(* texel (x, y), x to the right and y down, 0 <= x, y < 4; alpha_word = the 16 4-bit alphas of ETC1A4
   (all ones for plain ETC1) *)
Definition etc1_texel (alpha_word word x y : N) : list N :=
  let second := if etc1_flip word then 2 <=? y else 2 <=? x in
  let cw := if second then field word 34 3 else field word 37 3 in
  let k := 4 * x + y in
  let m := etc1_modifier cw (N.testbit word (16 + k)) (N.testbit word k) in
  let ch top := clamp255 ((if second then etc1_base2 word top else etc1_base1 word top) + m) in
  [ch 63; ch 55; ch 47; 17 * field alpha_word (4 * k) 4].

(* the 16 texels in row-major order *)
Definition etc1_spec (alpha_word word : N) : list (list N) :=
  flat_map (fun y => map (fun x => etc1_texel alpha_word word x y) [0; 1; 2; 3]) [0; 1; 2; 3].
