(* LZ13CompressionFormat::compress (src/lz13.rs, after the repair of F12) and calculate_lz13_header.
   The i32 expressions of the source ((length - 0x111) >> 4 on a negative number, ...) are
   evaluated in Z: Z.shiftr is the arithmetic shift and Z.land the two's-complement AND, which is
   what i32 does as long as the values fit in 32 bits (|length| <= 4096 here). *)
From Coq Require Import List NArith ZArith Bool.
From Mila Require Import Lib.Bytes Lib.Machine Model.LZCore.
Import ListNotations.

(*  if length > 0x110 {
        push(0x10 | (((length - 0x111) >> 12) & 0x0F) as u8); push((((length - 0x111) >> 4) & 0xFF) as u8);
        push((((length - 0x111) << 4) & 0xF0) as u8);
    } else if length > 0x10 {
        push((((length - 0x111) >> 4) & 0x0F) as u8); push((((length - 0x111) << 4) & 0xF0) as u8);
    } else { push((((length - 1) << 4) & 0xF0) as u8); }
    out_buffer[last] |= (((disp - 1) >> 8) & 0x0F) as u8;   push(((disp - 1) & 0xFF) as u8);        *)
Definition tok11 (t : token) : list N :=
  match t with
  | Lit b => [b]
  | Ref len disp =>
    let length := Z.of_nat len in
    let disp := Z.of_nat disp in
    let dhi := Z.land (Z.shiftr (disp - 1) 8) 0x0F in
    let dlo := Z.land (disp - 1) 0xFF in
    let bs :=
      if (0x110 <? length)%Z then
        [ Z.lor 0x10 (Z.land (Z.shiftr (length - 0x111) 12) 0x0F);
          Z.land (Z.shiftr (length - 0x111) 4) 0xFF;
          Z.lor (Z.land (Z.shiftl (length - 0x111) 4) 0xF0) dhi;
          dlo ]
      else if (0x10 <? length)%Z then
        [ Z.land (Z.shiftr (length - 0x111) 4) 0x0F;
          Z.lor (Z.land (Z.shiftl (length - 0x111) 4) 0xF0) dhi;
          dlo ]
      else
        [ Z.lor (Z.land (Z.shiftl (length - 1) 4) 0xF0) dhi;
          dlo ] in
    map Z.to_N bs
  end.

(* ---- calculate_lz13_header (src/lz13.rs:41-96).  All four counters are Wrapping<i32>. -------
   Modelled for inputs shorter than 2^31 bytes (so that the positions sp, x, y themselves never
   wrap and can be list positions); the accumulators buffer_length, max_lead, fc wrap as in the
   source.  The innermost loop
        while y < len && bytes[y] == bytes[y - x] { y += 1 }   ;   y -= sp
   is the common prefix of the suffixes at sp - x and sp, i.e. [cpl (len - sp) ...]. *)
Local Open Scope Z_scope.

Definition w32 (z : Z) : Z := (z + 2147483648) mod 4294967296 - 2147483648.

(* x runs from min(sp, 4096) down to 2; [win] is the suffix at sp - x, [rest] the suffix at sp *)
Fixpoint hdr_search (n : nat) (win rest : list N) (cap : nat) (length : nat) : nat :=
  match n with
  | O => length
  | S n' =>
    let y := cpl cap win rest in
    let length := if andb (Nat.leb 3 y) (Nat.ltb length y) then y else length in
    hdr_search n' (tl win) rest cap length
  end.

Fixpoint hdr_loop (fuel : nat) (whole : list N) (len sp : nat) (max_lead buffer_length fc : Z) : outcome Z :=
  if Nat.leb len sp then Ok (w32 (max_lead + buffer_length)) else
  match fuel with
  | O => Err EOutOfFuel
  | S f =>
    let x := Nat.min sp 4096 in
    let length := hdr_search (x - 1) (skipn (sp - x) whole) (skipn sp whole) (len - sp) 1 in
    let step (sp' : nat) (buffer_length : Z) :=
      let max_lead := Z.max max_lead (w32 (Z.of_nat sp' - buffer_length)) in
      let fc := w32 (fc + 1) in
      if fc =? 8 then hdr_loop f whole len sp' max_lead (w32 (buffer_length + 1)) 0
      else hdr_loop f whole len sp' max_lead buffer_length fc in
    if Nat.eqb length 1 then step (S sp) (w32 (buffer_length + 1))
    else if Nat.leb length 2 then Err EInvalidInput
    else if Nat.leb length 0x10 then step (sp + length)%nat (w32 (w32 (buffer_length + 1) + 1))
    else if Nat.leb length 0x110 then step (sp + length)%nat (w32 (w32 (buffer_length + 2) + 1))
    else step (sp + length)%nat (w32 (w32 (buffer_length + 3) + 1))
  end.

(* Ok((max_lead + buffer_length).0 as usize): a negative i32 sign-extends *)
Definition calculate_lz13_header (x : list N) : outcome N :=
  let len := List.length x in
  v <- hdr_loop len x len 0 0 9 0 ;;
  Ok (Z.to_N (if v <? 0 then v + 18446744073709551616 else v)).

Local Open Scope N_scope.

Definition le24 (n : N) : list N := [N.land n 0xFF; N.land (N.shiftr n 8) 0xFF; N.land (N.shiftr n 16) 0xFF].

(* the 0x13 wrapper and the LZ11 header (lz13.rs, compress; the extended size form is the repair of F12) *)
Definition header13 (h n : N) : list N :=
  0x13 :: le24 h ++ 0x11 ::
  (if orb (n =? 0) (0xFFFFFF <? n) then [0; 0; 0] ++ enc_le 4 (trunc_w W32 n) else le24 n).

(* [hdr] = the value calculate_lz13_header returned *)
Definition compress13_with (m : mode) (hdr : N) (x : list N) : outcome (list N) :=
  let n := lenN x in
  (* result.reserve(12 + length + ((length + 7) >> 3)) *)
  a <- add_w W64 m 12 n ;;
  b <- add_w W64 m n 7 ;;
  _ <- add_w W64 m a (N.shiftr b 3) ;;
  Ok (emit_loop tok11 (header13 hdr n) (tokens 4096 x)).

Definition compress13 (m : mode) (x : list N) : outcome (list N) :=
  h <- calculate_lz13_header x ;;
  compress13_with m h x.

(* variant used by the correspondence on inputs where computing the wrapper length in the
   extracted list model would take too long: wrapper length bytes 0 (masked in the comparison) *)
Definition compress13_nohdr (m : mode) (x : list N) : outcome (list N) := compress13_with m 0 x.

(* LZ13CompressionFormat::compress as it is after the repair of F21 (lz13.rs:158-162):
     let length = bytes.len();
     if length as u64 > 0xFFFF_FFFF { return Err(CompressionError::InputTooLarge(length, "LZ13")) }
   before calculate_lz13_header.  [compress13] is the part after the guard, [compress13_o] the exported function. *)
Definition too_large13 (x : list N) : bool := 0xFFFFFFFF <? lenN x.
Definition compress13_o (m : mode) (x : list N) : outcome (list N) :=
  if too_large13 x then Err ETooLarge else compress13 m x.
Definition compress13_nohdr_o (m : mode) (x : list N) : outcome (list N) :=
  if too_large13 x then Err ETooLarge else compress13_nohdr m x.
