(* Core of the LZ10 / LZ13 compressors of mila (src/lz10.rs, src/lz13.rs).
   Part 1 (down to [expand]) is the prototype of DESIGN.md Appendix B.1, verbatim:
     occ         = get_occurrence_length (src/lz13.rs:8-39), candidates old_ptr .. old_ptr+old_len-2,
                   earliest longest wins, early exit on a full-length match, written over list suffixes;
     tokens L x  = the greedy loop shared by LZ10CompressionFormat::compress (L = 0x12) and
                   LZ13CompressionFormat::compress (L = 0x1000): window min(pos, 0x1000),
                   look-ahead min(rest, L), literal when the match is < 3;
     expand      = what a token stream means (byte-by-byte copy, overlapping references included).
   Part 2 is the emission loop both compressors share (flag byte + up to eight tokens per group).
   Definitions only; proofs live in Proofs/LZCoreProofs.v. *)
From Coq Require Import List NArith Arith Lia Bool.
Import ListNotations.

Definition WINDOW : nat := 4096.

(* common prefix length of two lists, capped at [cap] *)
Fixpoint cpl (cap : nat) (a b : list N) : nat :=
  match cap, a, b with
  | S c, x :: a', y :: b' => if N.eqb x y then S (cpl c a' b') else O
  | _, _, _ => O
  end.

(* [search n win rest newlen oldlen i best bd]: candidates i, i+1, ..., i+n-1;
   [win] is the suffix of the whole input starting at old_ptr + i. *)
Fixpoint search (n : nat) (win rest : list N) (newlen oldlen i best bd : nat) : nat * nat :=
  match n with
  | O => (best, bd)
  | S n' =>
    let cur := cpl newlen win rest in
    if Nat.ltb best cur then
      if Nat.eqb cur newlen then (cur, oldlen - i)
      else search n' (tl win) rest newlen oldlen (S i) cur (oldlen - i)
    else search n' (tl win) rest newlen oldlen (S i) best bd
  end.

(* get_occurrence_length(bytes, new_ptr, new_length, old_ptr, old_length) *)
Definition occ (whole : list N) (newptr newlen oldptr oldlen : nat) : nat * nat :=
  if orb (Nat.eqb newlen 0) (Nat.eqb oldlen 0) then (O, O)
  else search (oldlen - 1) (skipn oldptr whole) (skipn newptr whole) newlen oldlen 0 0 0.

Inductive token := Lit (b : N) | Ref (len disp : nat).

(* the greedy loop shared by LZ10 (L = 18) and LZ13 (L = 4096) *)
Fixpoint tokens_from (fuel : nat) (L : nat) (whole : list N) (pos : nat) : list token :=
  match fuel with
  | O => []
  | S f =>
    if Nat.leb (length whole) pos then [] else
    let oldlen := Nat.min pos WINDOW in
    let '(len, disp) := occ whole pos (Nat.min (length whole - pos) L) (pos - oldlen) oldlen in
    if Nat.ltb len 3 then Lit (nth pos whole 0%N) :: tokens_from f L whole (S pos)
    else Ref len disp :: tokens_from f L whole (pos + len)
  end.

Definition tokens (L : nat) (x : list N) : list token := tokens_from (length x) L x 0.

(* expansion: byte-by-byte copy so that overlapping references mean what they mean *)
Fixpoint copy (n : nat) (out : list N) (start : nat) : option (list N) :=
  match n with
  | O => Some out
  | S n' => match nth_error out start with
            | Some v => copy n' (out ++ [v]) (S start)
            | None => None
            end
  end.

Fixpoint expand_from (ts : list token) (out : list N) : option (list N) :=
  match ts with
  | [] => Some out
  | Lit b :: r => expand_from r (out ++ [b])
  | Ref len disp :: r =>
    if andb (Nat.leb 1 disp) (Nat.leb disp (length out)) then
      match copy len out (length out - disp) with
      | Some o => expand_from r o
      | None => None
      end
    else None
  end.

Definition expand ts := expand_from ts [].

(* ------------------------------------------------------------------------------------------
   Part 2.  The emission loop of both compress functions:

       if buffered_blocks == 8 { flush out_buffer; out_buffer[0] = 0; buffered_blocks = 0 }
       ... literal: push the byte | reference: out_buffer[0] |= (1 << (7 - buffered_blocks)) as u8; push token bytes
       buffered_blocks += 1
     after the loop:  if buffered_blocks > 0 { flush }

   [tb] gives the bytes a token contributes (format specific: LZ10.tok10, LZ11.tok11).  The flag
   byte out_buffer[0] is kept in [e_flag], the rest of out_buffer in [e_ob].  The token list is
   [tokens L x]: which token is produced at a position does not depend on the emission state. *)
Local Open Scope N_scope.

Record estate := { e_buf : list N; e_flag : N; e_ob : list N; e_blocks : N }.

Definition e_init (hdr : list N) : estate := {| e_buf := hdr; e_flag := 0; e_ob := []; e_blocks := 0 |}.

Definition e_flush (s : estate) : estate :=
  {| e_buf := e_buf s ++ e_flag s :: e_ob s; e_flag := 0; e_ob := []; e_blocks := 0 |}.

Definition flag_or (f k : N) (t : token) : N :=
  match t with Lit _ => f | Ref _ _ => N.lor f (N.shiftl 1 (7 - k)) end.

Definition e_step (tb : token -> list N) (s : estate) (t : token) : estate :=
  let s := if e_blocks s =? 8 then e_flush s else s in
  {| e_buf := e_buf s; e_flag := flag_or (e_flag s) (e_blocks s) t; e_ob := e_ob s ++ tb t; e_blocks := e_blocks s + 1 |}.

Definition e_finish (s : estate) : list N := if 0 <? e_blocks s then e_buf (e_flush s) else e_buf s.

Definition emit_loop (tb : token -> list N) (hdr : list N) (ts : list token) : list N :=
  e_finish (fold_left (e_step tb) ts (e_init hdr)).

(* bytes a token stands for when expanded *)
Definition tok_len (t : token) : nat := match t with Lit _ => 1%nat | Ref len _ => len end.
Definition total_len (ts : list token) : nat := fold_right (fun t a => (tok_len t + a)%nat) 0%nat ts.
Definition is_ref (t : token) : bool := match t with Lit _ => false | Ref _ _ => true end.
