(* Additional generally useful lemmas about Lib/Bytes.v (decomposition forms of the accessors:
   "f = pre ++ piece ++ post with |pre| = offset" <-> the accessor returns the piece). *)
From Coq Require Import List NArith ZArith Arith Lia Bool ZifyBool ZifyNat ZifyN.
From Mila Require Import Lib.Bytes.
Import ListNotations.
Local Open Scope N_scope.
Ltac Zify.zify_post_hook ::= Z.div_mod_to_equations.

Lemma lenN_zeros n : lenN (zeros n) = N.of_nat n.
Proof. unfold lenN, zeros. rewrite repeat_length. reflexivity. Qed.
Lemma lenN_enc e n v : lenN (enc e n v) = N.of_nat n.
Proof. unfold lenN. rewrite length_enc. reflexivity. Qed.
Lemma lenN_firstn a f : a <= lenN f -> lenN (firstn (N.to_nat a) f) = a.
Proof. unfold lenN. intros H. rewrite firstn_length. lia. Qed.
Lemma lenN_length (a b : bytes) : lenN a = lenN b -> length a = length b.
Proof. unfold lenN. lia. Qed.
Lemma lenN_map_length {A} (l : list A) (g : A -> bytes) : N.of_nat (length (map g l)) = N.of_nat (length l).
Proof. rewrite map_length. reflexivity. Qed.

(* ---- slices *)
Lemma sliceN_decomp pre mid post f off len :
  f = pre ++ mid ++ post -> lenN pre = off -> lenN mid = len -> sliceN off len f = Some mid.
Proof. intros -> <- <-. apply sliceN_app_exact. Qed.

Lemma sliceN_sound off len f s :
  sliceN off len f = Some s -> exists pre post, f = pre ++ s ++ post /\ lenN pre = off /\ lenN s = len.
Proof.
  intros H. pose proof (sliceN_length _ _ _ _ H) as HL. unfold sliceN in H.
  destruct (N.leb_spec (off + len) (lenN f)) as [Hle|Hle]; [|discriminate]. inversion H as [E]; clear H.
  exists (firstn (N.to_nat off) f), (skipn (N.to_nat len) (skipn (N.to_nat off) f)). split; [|split].
  - rewrite firstn_skipn, firstn_skipn. reflexivity.
  - apply lenN_firstn. lia.
  - rewrite E. exact HL.
Qed.

Lemma sliceN_bound off len f s : sliceN off len f = Some s -> off + len <= lenN f.
Proof. unfold sliceN. destruct (N.leb_spec (off + len) (lenN f)); [auto | discriminate]. Qed.

Lemma wfb_sliceN off len f s : wfb f -> sliceN off len f = Some s -> wfb s.
Proof.
  intros W H. unfold sliceN in H. destruct (off + len <=? lenN f); [|discriminate]. inversion H; subst.
  apply wfb_firstn, wfb_skipn, W.
Qed.

(* ---- fixed-width fields *)
Lemma u32_at_decomp e f pre v post off :
  f = pre ++ enc e 4 v ++ post -> lenN pre = off -> v < 2 ^ 32 -> u32_at e f off = Some v.
Proof. intros -> <- H. apply u32_at_app_exact, H. Qed.

Lemma u16_at_app_exact e pre v post : v < 2 ^ 16 -> u16_at e (pre ++ enc e 2 v ++ post) (lenN pre) = Some v.
Proof.
  intros H. unfold u16_at. pose proof (sliceN_app_exact pre (enc e 2 v) post) as S.
  unfold lenN in S at 2. rewrite length_enc in S. change (N.of_nat 2) with 2 in S. rewrite S.
  rewrite dec_enc; [reflexivity|]. change (256 ^ N.of_nat 2) with (2 ^ 16). exact H.
Qed.
Lemma u16_at_decomp e f pre v post off :
  f = pre ++ enc e 2 v ++ post -> lenN pre = off -> v < 2 ^ 16 -> u16_at e f off = Some v.
Proof. intros -> <- H. apply u16_at_app_exact, H. Qed.

Lemma u32_at_bound e f off v : wfb f -> u32_at e f off = Some v -> v < 2 ^ 32.
Proof.
  intros W H. unfold u32_at in H. destruct (sliceN off 4 f) as [s|] eqn:E; [|discriminate]. inversion H; subst.
  pose proof (sliceN_length _ _ _ _ E) as L. pose proof (dec_bound e s (wfb_sliceN _ _ _ _ W E)) as B.
  unfold lenN in L. rewrite L in B. exact B.
Qed.
Lemma u16_at_bound e f off v : wfb f -> u16_at e f off = Some v -> v < 2 ^ 16.
Proof.
  intros W H. unfold u16_at in H. destruct (sliceN off 2 f) as [s|] eqn:E; [|discriminate]. inversion H; subst.
  pose proof (sliceN_length _ _ _ _ E) as L. pose proof (dec_bound e s (wfb_sliceN _ _ _ _ W E)) as B.
  unfold lenN in L. rewrite L in B. exact B.
Qed.
Lemma u32_at_in_bounds e f off v : u32_at e f off = Some v -> off + 4 <= lenN f.
Proof. unfold u32_at. destruct (sliceN off 4 f) eqn:E; [|discriminate]. intros _. eapply sliceN_bound; eauto. Qed.

(* ---- NUL-terminated strings *)
Lemma cstr_atN_decomp f pre s post a :
  f = pre ++ s ++ 0 :: post -> lenN pre = a -> ~ In 0 s -> cstr_atN f a = Some s.
Proof. intros -> <- H. apply cstr_atN_spec, H. Qed.

Lemma cstr_atN_sound f a s :
  cstr_atN f a = Some s -> exists pre post, f = pre ++ s ++ 0 :: post /\ lenN pre = a /\ ~ In 0 s.
Proof.
  unfold cstr_atN. destruct (N.leb_spec a (lenN f)) as [Hle|Hle]; [|discriminate]. intros H.
  destruct (cstr_sound _ _ H) as (Hn & post & E).
  exists (firstn (N.to_nat a) f), post. split; [|split].
  - rewrite <- E. rewrite firstn_skipn. reflexivity.
  - apply lenN_firstn, Hle.
  - exact Hn.
Qed.

Lemma cstr_atN_bound f a s : cstr_atN f a = Some s -> a + lenN s < lenN f.
Proof.
  intros H. destruct (cstr_atN_sound _ _ _ H) as (pre & post & -> & <- & _).
  rewrite !lenN_app, lenN_cons. lia.
Qed.

Lemma wfb_cstr_atN f a s : wfb f -> cstr_atN f a = Some s -> wfb s.
Proof.
  intros W H. destruct (cstr_atN_sound _ _ _ H) as (pre & post & -> & _ & _).
  apply wfb_app_inv in W. destruct W as [_ W]. apply wfb_app_inv in W. apply W.
Qed.

(* ---- concatenations *)
Lemma concat_nth_decomp {A} (l : list (list A)) i x :
  nth_error l i = Some x -> concat l = concat (firstn i l) ++ x ++ concat (skipn (S i) l).
Proof.
  revert i; induction l as [|y l IH]; intros [|i]; cbn [nth_error]; try discriminate.
  - intros H; inversion H; subst. reflexivity.
  - intros H. cbn [firstn skipn concat]. rewrite (IH i H) at 1. rewrite <- app_assoc. reflexivity.
Qed.

Lemma wfb_concat (l : list bytes) : Forall wfb l -> wfb (concat l).
Proof. induction 1; cbn [concat]; [constructor | apply wfb_app; assumption]. Qed.

Lemma pad_len_aligned k len : 0 < k -> len mod k = 0 -> pad_len k len = 0.
Proof. intros Hk H. unfold pad_len. rewrite H, N.sub_0_r. apply N.mod_same. lia. Qed.
