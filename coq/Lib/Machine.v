(* Outcome monad and machine arithmetic shared by the models.
   A Rust function returning Result<T, E> that may also panic is modelled as a function
   into [outcome T]: Ok v | Err kind | Panic kind.  Arithmetic on fixed-width integers is
   explicit: in [Checked] mode (debug profile, overflow-checks on) an overflow is
   [Panic POverflow]; in [Wrapping] mode (release profile) the result wraps modulo 2^w. *)
From Coq Require Import List NArith ZArith Lia Bool.
Import ListNotations.
Local Open Scope N_scope.

Inductive pkind := POverflow | PIndex | PTodo | PAlloc | PUnwrap | POther.
Inductive ekind := EOob | EUnaligned | ETooSmall | EUnterminated | EEncoding | EDecoding | EIo
                 | ENoCount | ENoInfo | EMissingName | EInvalidInput | EBadMagic | ELabelIndex
                 | EOutOfFuel | EOther
                 | ETooLarge.        (* CompressionError::InputTooLarge: the payload does not fit the size field (F21) *)
Inductive outcome (A : Type) := Ok (a : A) | Err (e : ekind) | Panic (p : pkind).
Arguments Ok {A} a. Arguments Err {A} e. Arguments Panic {A} p.

Inductive mode := Checked | Wrapping.

Definition bind {A B} (c : outcome A) (k : A -> outcome B) : outcome B :=
  match c with Ok a => k a | Err e => Err e | Panic p => Panic p end.
Notation "x <- c ;; k" := (bind c (fun x => k)) (at level 61, c at next level, right associativity).
Notation "' pat <- c ;; k" := (bind c (fun x => match x with pat => k end))
  (at level 61, pat pattern, c at next level, right associativity).

Definition of_option {A} (e : ekind) (o : option A) : outcome A :=
  match o with Some a => Ok a | None => Err e end.
Definition guard (b : bool) (e : ekind) : outcome unit := if b then Ok tt else Err e.
Definition is_panic {A} (o : outcome A) : bool := match o with Panic _ => true | _ => false end.
Definition is_ok {A} (o : outcome A) : bool := match o with Ok _ => true | _ => false end.

(* widths *)
Definition W8 : N := 8. Definition W16 : N := 16. Definition W32 : N := 32. Definition W64 : N := 64.
Definition maxw (w : N) : N := 2 ^ w.

Definition add_w (w : N) (m : mode) (a b : N) : outcome N :=
  let s := a + b in
  if s <? maxw w then Ok s else match m with Checked => Panic POverflow | Wrapping => Ok (s mod maxw w) end.
Definition sub_w (w : N) (m : mode) (a b : N) : outcome N :=
  if b <=? a then Ok (a - b) else match m with Checked => Panic POverflow | Wrapping => Ok ((a + maxw w - b) mod maxw w) end.
Definition mul_w (w : N) (m : mode) (a b : N) : outcome N :=
  let s := a * b in
  if s <? maxw w then Ok s else match m with Checked => Panic POverflow | Wrapping => Ok (s mod maxw w) end.
(* `x as uN` truncation *)
Definition trunc_w (w : N) (a : N) : N := a mod maxw w.

Lemma bind_ok {A B} (a : A) (k : A -> outcome B) : bind (Ok a) k = k a.
Proof. reflexivity. Qed.
Lemma bind_assoc {A B C} (c : outcome A) (k : A -> outcome B) (h : B -> outcome C) :
  bind (bind c k) h = bind c (fun a => bind (k a) h).
Proof. destruct c; reflexivity. Qed.
Lemma bind_Ok_inv {A B} (c : outcome A) (k : A -> outcome B) b :
  bind c k = Ok b -> exists a, c = Ok a /\ k a = Ok b.
Proof. destruct c; cbn; try discriminate. eauto. Qed.
Lemma add_w_ok w m a b : a + b < maxw w -> add_w w m a b = Ok (a + b).
Proof. intros H. unfold add_w. destruct (N.ltb_spec (a + b) (maxw w)); [reflexivity | lia]. Qed.
Lemma sub_w_ok w m a b : b <= a -> sub_w w m a b = Ok (a - b).
Proof. intros H. unfold sub_w. destruct (N.leb_spec b a); [reflexivity | lia]. Qed.
Lemma mul_w_ok w m a b : a * b < maxw w -> mul_w w m a b = Ok (a * b).
Proof. intros H. unfold mul_w. destruct (N.ltb_spec (a * b) (maxw w)); [reflexivity | lia]. Qed.
