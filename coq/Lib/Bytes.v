(* Byte-level library shared by all models.
   Bytes are N (well-formed when < 256); files and data regions are [list N].
   Data-derived numbers stay in N; they become nat (for skipn/firstn) only after a bound
   check against the length of the list they index (sliceN, u32_at, cstr_atN). *)
From Coq Require Import List NArith ZArith Arith Lia Bool ZifyBool ZifyNat ZifyN.
Import ListNotations.
Local Open Scope N_scope.
Ltac Zify.zify_post_hook ::= Z.div_mod_to_equations.

Definition bytes := list N.
Definition wfb (bs : bytes) : Prop := Forall (fun b => b < 256) bs.
Definition wfbb (bs : bytes) : bool := forallb (fun b => b <? 256) bs.

Inductive endian := LE | BE.

Fixpoint enc_le (n : nat) (v : N) : bytes :=
  match n with O => [] | S n' => v mod 256 :: enc_le n' (v / 256) end.
Fixpoint dec_le (bs : bytes) : N :=
  match bs with [] => 0 | b :: r => b + 256 * dec_le r end.
Definition enc (e : endian) (n : nat) (v : N) : bytes :=
  match e with LE => enc_le n v | BE => rev (enc_le n v) end.
Definition dec (e : endian) (bs : bytes) : N :=
  match e with LE => dec_le bs | BE => dec_le (rev bs) end.

Definition lenN (bs : bytes) : N := N.of_nat (length bs).
Definition sliceN (off len : N) (bs : bytes) : option bytes :=
  if off + len <=? lenN bs then Some (firstn (N.to_nat len) (skipn (N.to_nat off) bs)) else None.
Definition u32_at (e : endian) (bs : bytes) (off : N) : option N :=
  match sliceN off 4 bs with Some s => Some (dec e s) | None => None end.
Definition u16_at (e : endian) (bs : bytes) (off : N) : option N :=
  match sliceN off 2 bs with Some s => Some (dec e s) | None => None end.
Definition u8_at (bs : bytes) (off : N) : option N :=
  if off <? lenN bs then nth_error bs (N.to_nat off) else None.

(* bytes up to (excluding) the first 0; None if there is none *)
Fixpoint cstr (bs : bytes) : option bytes :=
  match bs with
  | [] => None
  | b :: r => if b =? 0 then Some [] else match cstr r with Some s => Some (b :: s) | None => None end
  end.
Definition cstr_atN (bs : bytes) (off : N) : option bytes :=
  if off <=? lenN bs then cstr (skipn (N.to_nat off) bs) else None.

Definition zeros (n : nat) : bytes := repeat 0 n.

Fixpoint bytes_eqb (a b : bytes) : bool :=
  match a, b with
  | [], [] => true
  | x :: a', y :: b' => andb (x =? y) (bytes_eqb a' b')
  | _, _ => false
  end.

(* lexicographic comparison (Rust's Ord on [u8] / Vec<u8> / on str via UTF-8 bytes) *)
Fixpoint bytes_cmp (a b : bytes) : comparison :=
  match a, b with
  | [], [] => Eq
  | [], _ :: _ => Lt
  | _ :: _, [] => Gt
  | x :: a', y :: b' => match x ?= y with Eq => bytes_cmp a' b' | c => c end
  end.
Definition bytes_ltb (a b : bytes) : bool := match bytes_cmp a b with Lt => true | _ => false end.
Definition bytes_leb (a b : bytes) : bool := match bytes_cmp a b with Gt => false | _ => true end.

(* padding to a multiple of [k] with zero bytes *)
Definition pad_len (k len : N) : N := (k - len mod k) mod k.
Definition pad_to (k : N) (bs : bytes) : bytes := bs ++ zeros (N.to_nat (pad_len k (lenN bs))).

(* ---------------------------------------------------------------- lemmas *)
Lemma bytes_eqb_spec a b : reflect (a = b) (bytes_eqb a b).
Proof.
  revert b; induction a as [|x a IH]; intros [|y b]; cbn [bytes_eqb]; try (constructor; congruence).
  destruct (N.eqb_spec x y) as [E|E]; cbn [andb].
  - destruct (IH b) as [E'|E']; constructor; congruence.
  - constructor; congruence.
Qed.
Lemma bytes_eqb_refl a : bytes_eqb a a = true.
Proof. destruct (bytes_eqb_spec a a); congruence. Qed.

Lemma length_enc_le n v : length (enc_le n v) = n.
Proof. revert v; induction n as [|n IH]; intros v; cbn [enc_le length]; [reflexivity | rewrite IH; reflexivity]. Qed.
Lemma length_enc e n v : length (enc e n v) = n.
Proof. destruct e; cbn [enc]; rewrite ?rev_length; apply length_enc_le. Qed.

Lemma wfb_enc_le n v : wfb (enc_le n v).
Proof. revert v; induction n as [|n IH]; intros v; cbn [enc_le]; constructor; [lia | apply IH]. Qed.
Lemma wfb_rev bs : wfb bs -> wfb (rev bs).
Proof. apply Forall_rev. Qed.
Lemma wfb_enc e n v : wfb (enc e n v).
Proof. destruct e; cbn [enc]; [|apply wfb_rev]; apply wfb_enc_le. Qed.
Lemma wfb_app a b : wfb a -> wfb b -> wfb (a ++ b).
Proof. intros; apply Forall_app; split; assumption. Qed.
Lemma wfb_app_inv a b : wfb (a ++ b) -> wfb a /\ wfb b.
Proof. apply Forall_app. Qed.
Lemma In_firstn' {A} n (l : list A) x : In x (firstn n l) -> In x l.
Proof. revert l; induction n as [|n IH]; intros [|y l]; cbn [firstn In]; try tauto. intros [H|H]; auto. Qed.
Lemma wfb_firstn n bs : wfb bs -> wfb (firstn n bs).
Proof. intros H. unfold wfb in *. rewrite Forall_forall in *. intros x Hx. apply H. eapply In_firstn'; eauto. Qed.
Lemma In_skipn {A} n (l : list A) x : In x (skipn n l) -> In x l.
Proof. revert l; induction n as [|n IH]; intros [|y l]; cbn; auto. Qed.
Lemma wfb_skipn n bs : wfb bs -> wfb (skipn n bs).
Proof. intros H. unfold wfb in *. rewrite Forall_forall in *. intros x Hx. apply H. eapply In_skipn; eauto. Qed.
Lemma wfb_zeros n : wfb (zeros n).
Proof. unfold zeros. induction n; cbn; constructor; [lia | assumption]. Qed.
Lemma wfbb_spec bs : wfbb bs = true <-> wfb bs.
Proof.
  unfold wfbb, wfb. rewrite forallb_forall, Forall_forall. split; intros H x Hx; specialize (H x Hx); lia.
Qed.

Lemma dec_enc_le n : forall v, v < 256 ^ N.of_nat n -> dec_le (enc_le n v) = v.
Proof.
  induction n as [|n IH]; intros v H.
  - cbn [enc_le dec_le]. change (N.of_nat 0) with 0 in H. rewrite N.pow_0_r in H. lia.
  - cbn [enc_le dec_le]. rewrite IH; [lia|].
    rewrite Nat2N.inj_succ, N.pow_succ_r' in H. lia.
Qed.
Lemma dec_enc e n v : v < 256 ^ N.of_nat n -> dec e (enc e n v) = v.
Proof. destruct e; cbn [enc dec]; [|rewrite rev_involutive]; apply dec_enc_le. Qed.

Lemma dec_le_bound bs : wfb bs -> dec_le bs < 256 ^ N.of_nat (length bs).
Proof.
  induction 1 as [|b r Hb Hr IH]; cbn [dec_le length].
  - cbn. lia.
  - rewrite Nat2N.inj_succ, N.pow_succ_r'. lia.
Qed.
Lemma enc_dec_le bs : wfb bs -> enc_le (length bs) (dec_le bs) = bs.
Proof.
  induction 1 as [|b r Hb Hr IH]; cbn [dec_le length enc_le]; [reflexivity|].
  f_equal; [lia|]. replace ((b + 256 * dec_le r) / 256) with (dec_le r) by lia. exact IH.
Qed.
Lemma enc_dec e bs : wfb bs -> enc e (length bs) (dec e bs) = bs.
Proof.
  intros H. destruct e; cbn [enc dec]; [apply enc_dec_le; exact H|].
  rewrite <- (rev_length bs). rewrite enc_dec_le by (apply wfb_rev; exact H). apply rev_involutive.
Qed.
Lemma dec_bound e bs : wfb bs -> dec e bs < 256 ^ N.of_nat (length bs).
Proof. intros H. destruct e; cbn [dec]; [apply dec_le_bound; exact H|]. rewrite <- rev_length. apply dec_le_bound, wfb_rev, H. Qed.

Lemma lenN_app a b : lenN (a ++ b) = lenN a + lenN b.
Proof. unfold lenN. rewrite app_length. lia. Qed.
Lemma lenN_cons x a : lenN (x :: a) = 1 + lenN a.
Proof. unfold lenN. cbn [length]. lia. Qed.
Lemma lenN_nil : lenN [] = 0.
Proof. reflexivity. Qed.

Lemma skipn_app_exact {A} (pre l : list A) : skipn (length pre) (pre ++ l) = l.
Proof. induction pre; cbn; auto. Qed.
Lemma firstn_app_exact {A} (pre l : list A) : firstn (length pre) (pre ++ l) = pre.
Proof. induction pre; cbn; congruence. Qed.

Lemma sliceN_app_exact pre mid post : sliceN (lenN pre) (lenN mid) (pre ++ mid ++ post) = Some mid.
Proof.
  unfold sliceN. rewrite !lenN_app. destruct (N.leb_spec (lenN pre + lenN mid) (lenN pre + (lenN mid + lenN post))); [|lia].
  unfold lenN. rewrite !Nat2N.id. rewrite skipn_app_exact, firstn_app_exact. reflexivity.
Qed.
Lemma sliceN_length off len bs s : sliceN off len bs = Some s -> lenN s = len.
Proof.
  unfold sliceN. destruct (N.leb_spec (off + len) (lenN bs)) as [H|H]; [|discriminate]. intros E; inversion E; subst.
  unfold lenN in *. rewrite firstn_length, skipn_length. lia.
Qed.
Lemma sliceN_Some off len bs : off + len <= lenN bs -> exists s, sliceN off len bs = Some s.
Proof. intros H. unfold sliceN. destruct (N.leb_spec (off + len) (lenN bs)); [eauto | lia]. Qed.
Lemma sliceN_None off len bs : lenN bs < off + len -> sliceN off len bs = None.
Proof. intros H. unfold sliceN. destruct (N.leb_spec (off + len) (lenN bs)); [lia | reflexivity]. Qed.

Lemma u32_at_app_exact e pre v post : v < 2 ^ 32 -> u32_at e (pre ++ enc e 4 v ++ post) (lenN pre) = Some v.
Proof.
  intros H. unfold u32_at. pose proof (sliceN_app_exact pre (enc e 4 v) post) as S.
  unfold lenN in S at 2. rewrite length_enc in S. change (N.of_nat 4) with 4 in S. rewrite S.
  rewrite dec_enc; [reflexivity|]. change (256 ^ N.of_nat 4) with (2 ^ 32). exact H.
Qed.

Lemma cstr_app s post : ~ In 0 s -> cstr (s ++ 0 :: post) = Some s.
Proof.
  induction s as [|b r IH]; intros H; cbn [app cstr].
  - reflexivity.
  - destruct (N.eqb_spec b 0) as [E|E]; [exfalso; apply H; left; auto|].
    rewrite IH; [reflexivity|]. intros Hin; apply H; right; exact Hin.
Qed.
Lemma cstr_sound bs s : cstr bs = Some s -> ~ In 0 s /\ exists post, bs = s ++ 0 :: post.
Proof.
  revert s; induction bs as [|b r IH]; intros s; cbn [cstr]; [discriminate|].
  destruct (N.eqb_spec b 0) as [E|E].
  - intros H; inversion H; subst. split; [intros []|]. exists r. reflexivity.
  - destruct (cstr r) as [s'|]; [|discriminate]. intros H; inversion H; subst.
    destruct (IH s' eq_refl) as (Hn & post & ->). split.
    + intros [Hb|Hin]; [congruence | exact (Hn Hin)].
    + exists post. reflexivity.
Qed.
Lemma cstr_atN_spec pre s post : ~ In 0 s -> cstr_atN (pre ++ s ++ 0 :: post) (lenN pre) = Some s.
Proof.
  intros H. unfold cstr_atN. rewrite lenN_app. destruct (N.leb_spec (lenN pre) (lenN pre + lenN (s ++ 0 :: post))); [|lia].
  unfold lenN. rewrite Nat2N.id, skipn_app_exact. apply cstr_app; exact H.
Qed.

Lemma pad_len_spec k len : 0 < k -> (len + pad_len k len) mod k = 0 /\ pad_len k len < k.
Proof. intros H. unfold pad_len. split; [|apply N.mod_lt; lia]. 
  assert (E : len = k * (len / k) + len mod k) by (apply N.div_mod'; lia).
  pose proof (N.mod_lt len k ltac:(lia)) as Hlt.
  destruct (N.eq_dec (len mod k) 0) as [Z|NZ].
  - rewrite Z, N.sub_0_r, N.mod_same by lia. rewrite N.add_0_r. exact Z.
  - rewrite (N.mod_small (k - len mod k)) by lia.
    replace (len + (k - len mod k)) with (k * (len / k + 1)) by lia. rewrite N.mul_comm. apply N.mod_mul. lia.
Qed.
