(* C19: the statements of Properties/C19.v assembled from TileProofs, EtcImageProofs, Etc1Proofs, PaletteProofs:
   the public entry points (decode_pixel_data / etc1_decode), output shape, payload sizes, mode independence. *)
From Coq Require Import List NArith ZArith Arith Lia Bool ZifyBool ZifyNat ZifyN.
From Mila Require Import Lib.Bytes Lib.Machine Model.Pixel Model.PixelSpec Model.Etc1
  Proofs.TexFinite Proofs.PixelProofs Proofs.Scatter Proofs.TileProofs Proofs.Etc1Proofs Proofs.EtcImageProofs Proofs.PaletteProofs.
Import ListNotations.
Local Open Scope N_scope.
Ltac Zify.zify_post_hook ::= Z.div_mod_to_equations.

Definition len4 (c : color) : Prop := length c = 4%nat.

(* ---------------- output shape: w*h pixels of four bytes, whatever the payload ---------------- *)
Lemma decode_color_len4 v fmt : len4 (decode_color v fmt).
Proof.
  unfold len4, decode_color. destruct fmt as [|p]; [reflexivity|].
  do 4 (destruct p as [p|p|]; try reflexivity).
Qed.

Lemma upd_Forall {A} (P : A -> Prop) v : forall l i, P v -> Forall P l -> Forall P (upd i v l).
Proof.
  induction l as [|x r IH]; intros [|i] Hv HF; cbn [upd]; auto; inversion HF; subst; constructor; auto.
Qed.

Lemma repeat_Forall {A} (P : A -> Prop) x n : P x -> Forall P (repeat x n).
Proof. intros H. induction n; cbn [repeat]; constructor; auto. Qed.

Lemma flatten_len4 : forall px, Forall len4 px -> length (flatten px) = (4 * length px)%nat.
Proof.
  induction px as [|c r IH]; intros HF; [reflexivity|]. inversion HF as [|? ? Hc HF']; subst.
  unfold flatten in *. cbn [concat length]. rewrite app_length, IH by exact HF'. unfold len4 in Hc. lia.
Qed.

Lemma rgba_loop_shape fmt blen : forall dsts rest bmp px, rgba_loop fmt blen dsts rest bmp = Ok px ->
  length px = length bmp /\ (Forall len4 bmp -> Forall len4 px).
Proof.
  induction dsts as [|d ds IH]; intros rest bmp px H; cbn [rgba_loop] in H.
  - inversion H; subst. auto.
  - destruct (read_elem fmt rest) as [[v r']|]; [|discriminate]. destruct (d <? blen); [|discriminate].
    apply IH in H. destruct H as (L & F). rewrite upd_length in L. split; [exact L|].
    intros HF. apply F. apply upd_Forall; [apply decode_color_len4|exact HF].
Qed.

Lemma decode_rgba_pixels_shape m data w h fmt px : 4 * (w * h) < 2 ^ 64 ->
  decode_rgba_pixels m data w h fmt = Ok px -> length px = N.to_nat (w * h) /\ Forall len4 px.
Proof.
  intros Hsz. unfold decode_rgba_pixels.
  rewrite mul_w_ok by (unfold maxw, W64; lia). cbn [bind].
  rewrite mul_w_ok by (unfold maxw, W64; lia). cbn [bind].
  destruct (ALLOC_LIMIT <=? w * h); [discriminate|].
  destruct (need fmt (h / 8 * (w / 8) * 64) <=? lenN data); [|discriminate].
  intros H. apply rgba_loop_shape in H. destruct H as (Len & F). rewrite repeat_length in Len.
  split; [exact Len|]. apply F. apply repeat_Forall. reflexivity.
Qed.

Lemma texel_len4 p a c1 c2 x y : len4 (texel p a c1 c2 x y).
Proof. reflexivity. Qed.

Lemma decode_block_len4 a p : Forall len4 (decode_block a p).
Proof.
  unfold decode_block. destruct (block_colors p) as [c1 c2]. apply Forall_forall. intros c Hc.
  apply in_flat_map in Hc. destruct Hc as (py & _ & Hc). apply in_map_iff in Hc. destruct Hc as (px & <- & _). apply texel_len4.
Qed.

Lemma nth_Forall {A} (P : A -> Prop) l d n : P d -> Forall P l -> P (nth n l d).
Proof. intros Hd HF. revert n. induction HF; intros [|n]; cbn [nth]; auto. Qed.

Lemma block_writes_len4 w h a p blk : Forall (fun e => len4 (snd e)) (block_writes w h a p blk).
Proof.
  destruct blk as [[[ty tx] by_] bx]. unfold block_writes. apply Forall_forall. intros e He.
  apply in_flat_map in He. destruct He as (py & _ & He). apply in_flat_map in He. destruct He as (px & _ & He).
  destruct ((w <=? _) || (h <=? _)); [destruct He|]. destruct He as [<-|[]]. cbn [snd].
  apply nth_Forall; [reflexivity|apply decode_block_len4].
Qed.

Lemma apply_writes_shape blen : forall ws bmp px, apply_writes blen ws bmp = Ok px -> Forall (fun e => len4 (snd e)) ws ->
  length px = length bmp /\ (Forall len4 bmp -> Forall len4 px).
Proof.
  induction ws as [|[d c] r IH]; intros bmp px H HW; cbn [apply_writes] in H.
  - inversion H; subst. auto.
  - destruct (d <? blen); [|discriminate]. inversion HW as [|? ? Hc HW']; subst. cbn [snd] in Hc.
    apply IH in H; [|exact HW']. destruct H as (L & F). rewrite upd_length in L. split; [exact L|].
    intros HF. apply F. apply upd_Forall; assumption.
Qed.

Lemma etc_loop_shape alpha w h blen : forall blocks rest bmp px, etc_loop alpha w h blen blocks rest bmp = Ok px ->
  length px = length bmp /\ (Forall len4 bmp -> Forall len4 px).
Proof.
  induction blocks as [|blk bs IH]; intros rest bmp px H; cbn [etc_loop] in H.
  - inversion H; subst. auto.
  - destruct (take_block alpha rest) as [[[a p] r']|]; [|discriminate].
    apply bind_Ok_inv in H. destruct H as (bmp' & E1 & E2).
    apply apply_writes_shape in E1; [|apply block_writes_len4]. destruct E1 as (L1 & F1).
    apply IH in E2. destruct E2 as (L2 & F2). split; [congruence|]. auto.
Qed.

Lemma etc1_decode_pixels_shape m data w h alpha px : 4 * w < 2 ^ 64 -> 4 * (w * h) < 2 ^ 64 ->
  etc1_decode_pixels m data w h alpha = Ok px -> length px = N.to_nat (w * h) /\ Forall len4 px.
Proof.
  intros Hw Hsz. unfold etc1_decode_pixels.
  rewrite mul_w_ok by (unfold maxw, W64; lia). cbn [bind].
  rewrite mul_w_ok by (unfold maxw, W64; lia). cbn [bind].
  destruct (ALLOC_LIMIT <=? w * h); [discriminate|].
  destruct (_ <=? lenN data); [|discriminate].
  intros H. apply etc_loop_shape in H. destruct H as (Len & F). rewrite repeat_length in Len.
  split; [exact Len|]. apply F. apply repeat_Forall. reflexivity.
Qed.

(* decode_pixel_data returns exactly 4*w*h bytes whenever it returns at all (every format, every payload) *)
Theorem decode_pixel_data_size : forall m data w h fmt out, 4 * w < 2 ^ 64 -> 4 * (w * h) < 2 ^ 64 ->
  decode_pixel_data m data w h fmt = Ok out -> lenN out = 4 * (w * h).
Proof.
  intros m data w h fmt out Hw Hsz H. unfold decode_pixel_data in H. apply bind_Ok_inv in H. destruct H as (px & E & Eo).
  inversion Eo; subst. clear Eo.
  assert (S : length px = N.to_nat (w * h) /\ Forall len4 px).
  { unfold decode_pixels in E. destruct (fmt <=? 11); [eapply decode_rgba_pixels_shape; eauto|].
    destruct (fmt =? 12); [eapply etc1_decode_pixels_shape; eauto|].
    destruct (fmt =? 13); [eapply etc1_decode_pixels_shape; eauto|discriminate]. }
  destruct S as (L & F). unfold lenN. rewrite flatten_len4 by exact F. lia.
Qed.

(* ---------------- payload sizes: mila's bytes-per-pixel table gives the size the format requires ---------------- *)
Definition listed_format (fmt : N) : bool := listed_color_format fmt || (fmt =? 12) || (fmt =? 13).
Definition required_size (fmt w h : N) : N :=
  if fmt =? 12 then w * h / 16 * 8 else if fmt =? 13 then w * h / 16 * 16 else bytes_per_element fmt * (w * h).

Lemma listed_cases fmt : listed_color_format fmt = true ->
  fmt = 0 \/ fmt = 2 \/ fmt = 3 \/ fmt = 4 \/ fmt = 5 \/ fmt = 7 \/ fmt = 8.
Proof. intros Hf. destruct fmt as [|p]; [left; reflexivity|]. do 4 (destruct p as [p|p|]; try discriminate Hf; auto 10). Qed.

Theorem payload_size_listed : forall fmt w h, listed_format fmt = true -> w mod 8 = 0 -> h mod 8 = 0 ->
  payload_size fmt w h = required_size fmt w h.
Proof.
  intros fmt w h Hf Hw Hh. unfold listed_format in Hf. apply orb_prop in Hf. destruct Hf as [Hf|Hf].
  - apply orb_prop in Hf. destruct Hf as [Hf|Hf].
    + apply listed_cases in Hf. destruct Hf as [->|[->|[->|[->|[->|[->| ->]]]]]];
        unfold payload_size, required_size; cbn [bpp2 bytes_per_element N.eqb Pos.eqb]; rewrite <- N.mul_assoc; generalize (w * h); intros n; lia.
    + apply N.eqb_eq in Hf. subst. unfold payload_size, required_size. cbn [bpp2 N.eqb Pos.eqb]. rewrite <- N.mul_assoc.
      assert (E : w * h = 64 * (w / 8 * (h / 8))) by (replace (w * h) with ((8 * (w / 8)) * (8 * (h / 8))) by (f_equal; lia); lia).
      rewrite E. generalize (w / 8 * (h / 8)). intros n. lia.
  - apply N.eqb_eq in Hf. subst. unfold payload_size, required_size. cbn [bpp2 N.eqb Pos.eqb]. rewrite <- N.mul_assoc.
    assert (E : w * h = 64 * (w / 8 * (h / 8))) by (replace (w * h) with ((8 * (w / 8)) * (8 * (h / 8))) by (f_equal; lia); lia).
    rewrite E. generalize (w / 8 * (h / 8)). intros n. lia.
Qed.

(* ---------------- pixel source through the public entry point ---------------- *)
Theorem color_pixel_source : forall m fmt w h data X Y,
  listed_color_format fmt = true -> w mod 8 = 0 -> h mod 8 = 0 -> w * h < 2 ^ 32 ->
  lenN data = bytes_per_element fmt * (w * h) -> X < w -> Y < h ->
  exists px, decode_pixel_data m data w h fmt = Ok (flatten px) /\ length px = N.to_nat (w * h) /\ Forall len4 px /\
    nth_error px (N.to_nat (Y * w + X)) =
      Some (decode_color (element (bytes_per_element fmt) data (tiled_index w X Y)) fmt).
Proof.
  intros m fmt w h data X Y Hf Hw Hh Hsz Hlen HX HY.
  destruct (rgba_pixel_source m fmt w h data X Y Hf Hw Hh Hsz Hlen HX HY) as (px & E & L & Hn).
  exists px. unfold decode_pixel_data, decode_pixels.
  assert (F11 : fmt <=? 11 = true) by (apply listed_cases in Hf; destruct Hf as [->|[->|[->|[->|[->|[->| ->]]]]]]; reflexivity).
  rewrite F11, E. cbn [bind]. split; [reflexivity|]. split; [exact L|]. split; [|exact Hn].
  apply (decode_rgba_pixels_shape m data w h fmt px); [lia|exact E].
Qed.

Lemma etc1_spec_nth a p x y : x < 4 -> y < 4 -> nth (N.to_nat (4 * y + x)) (etc1_spec a p) ZERO_PX = etc1_texel a p x y.
Proof.
  intros Hx Hy.
  assert (Cx : x = 0 \/ x = 1 \/ x = 2 \/ x = 3) by lia. assert (Cy : y = 0 \/ y = 1 \/ y = 2 \/ y = 3) by lia.
  destruct Cx as [->|[->|[->| ->]]]; destruct Cy as [->|[->|[->| ->]]]; reflexivity.
Qed.

(* ETC1 / ETC1A4: block index, texel, and the colour the published rules give *)
Theorem etc1_image_source : forall m alpha w h data X Y,
  w mod 8 = 0 -> h mod 8 = 0 -> etc_tiles w = w / 8 -> etc_tiles h = h / 8 -> w * h < 2 ^ 32 ->
  lenN data = w * h / 16 * etc_block_bytes alpha -> X < w -> Y < h ->
  exists px, decode_pixel_data m data w h (if alpha then 13 else 12) = Ok (flatten px) /\
    etc1_decode m data w h alpha = Ok (flatten px) /\
    length px = N.to_nat (w * h) /\ Forall len4 px /\
    let bd := etc_block_at alpha data (etc_block_index w X Y) in
    (etc1_in_range (snd bd) = true ->
     nth_error px (N.to_nat (Y * w + X)) = Some (etc1_texel (fst bd) (snd bd) (X mod 4) (Y mod 4))).
Proof.
  intros m alpha w h data X Y Hw Hh Tw Th Hsz Hlen HX HY.
  destruct (etc1_pixel_source m alpha w h data X Y Hw Hh Tw Th Hsz Hlen HX HY) as (px & E & L & Hn).
  exists px.
  assert (S : Forall len4 px) by (apply (etc1_decode_pixels_shape m data w h alpha px); [nia|lia|exact E]).
  split; [|split; [|split; [exact L|split; [exact S|]]]].
  - unfold decode_pixel_data, decode_pixels. destruct alpha; cbn [N.leb N.compare Pos.compare Pos.compare_cont N.eqb Pos.eqb]; rewrite E; reflexivity.
  - unfold etc1_decode. rewrite E. reflexivity.
  - cbv zeta in *. intros HR. rewrite Hn. f_equal. rewrite (decode_block_exact _ _ HR).
    apply etc1_spec_nth; lia.
Qed.

Lemma pow2_tiles k : let w := 8 * 2 ^ k in w mod 8 = 0 /\ etc_tiles w = w / 8.
Proof.
  cbv zeta. assert (P : 0 < 2 ^ k) by (apply N.neq_0_lt_0, N.pow_nonzero; lia). split; [lia|].
  rewrite etc_tiles_pow2. lia.
Qed.

(* the power-of-two sizes of the property are instances *)
Corollary etc1_image_source_pow2 : forall m alpha j k data X Y,
  let w := 8 * 2 ^ j in let h := 8 * 2 ^ k in
  w * h < 2 ^ 32 -> lenN data = w * h / 16 * etc_block_bytes alpha -> X < w -> Y < h ->
  exists px, decode_pixel_data m data w h (if alpha then 13 else 12) = Ok (flatten px) /\
    etc1_decode m data w h alpha = Ok (flatten px) /\
    length px = N.to_nat (w * h) /\ Forall len4 px /\
    let bd := etc_block_at alpha data (etc_block_index w X Y) in
    (etc1_in_range (snd bd) = true ->
     nth_error px (N.to_nat (Y * w + X)) = Some (etc1_texel (fst bd) (snd bd) (X mod 4) (Y mod 4))).
Proof.
  intros m alpha j k data X Y w h. destruct (pow2_tiles j) as (A1 & A2). destruct (pow2_tiles k) as (B1 & B2).
  apply etc1_image_source; assumption.
Qed.

(* ---------------- RGB5A3 and decode_indexed at the function level ---------------- *)
Theorem rgb5a3_decode_spec : forall data, lenN data mod 2 = 0 ->
  exists px, rgb5a3_decode data = Ok px /\ length px = N.to_nat (lenN data / 2) /\
    forall i, i < lenN data / 2 -> nth_error px (N.to_nat i) = Some (decode_rgb5a3_pixel (be16_at data i)).
Proof.
  intros data H. unfold rgb5a3_decode. rewrite H. cbn [N.eqb]. eexists. split; [reflexivity|].
  split; [rewrite rgb5a3_pixels_length; unfold lenN; lia|].
  intros i Hi. rewrite rgb5a3_pixels_nth by (unfold lenN in *; lia). unfold be16_at.
  replace (N.to_nat (2 * i)) with (2 * N.to_nat i)%nat by lia. replace (N.to_nat (2 * i + 1)) with (2 * N.to_nat i + 1)%nat by lia.
  reflexivity.
Qed.

Lemma chunk4_spec : forall n b, length b = (4 * n)%nat ->
  exists pal, chunk4 b = Some pal /\ length pal = n /\
    forall i, (i < n)%nat -> nth_error pal i = Some (firstn 4 (skipn (4 * i) b)).
Proof.
  induction n as [|n IH]; intros b H.
  - destruct b; [|discriminate]. exists []. repeat split. intros; lia.
  - destruct b as [|r [|g [|bl [|a t]]]]; cbn [length] in H; try lia.
    destruct (IH t ltac:(lia)) as (pal & E & L & Hn). cbn [chunk4]. rewrite E. eexists. split; [reflexivity|].
    split; [cbn [length]; lia|]. intros [|i] Hi; [reflexivity|]. cbn [nth_error]. rewrite Hn by lia.
    replace (4 * S i)%nat with (S (S (S (S (4 * i))))) by lia. reflexivity.
Qed.

Theorem decode_indexed_spec : forall data pal_bytes, lenN pal_bytes mod 4 = 0 ->
  Forall (fun i => i < lenN pal_bytes / 4) data ->
  decode_indexed_ci8 data pal_bytes = Ok (concat (map (fun i => firstn 4 (skipn (N.to_nat (4 * i)) pal_bytes)) data)).
Proof.
  intros data pal_bytes Hp HF. unfold decode_indexed_ci8.
  destruct (chunk4_spec (length pal_bytes / 4) pal_bytes ltac:(unfold lenN in Hp; lia)) as (pal & E & L & Hn).
  rewrite E. rewrite (ci8_lookup_spec pal data).
  2:{ eapply Forall_impl; [|exact HF]. cbv beta. intros i Hi. unfold lenN in Hi. lia. }
  cbn [bind]. unfold flatten. do 2 f_equal. apply map_ext_in. intros i Hi.
  rewrite Forall_forall in HF. specialize (HF i Hi). unfold lenN in HF.
  apply nth_error_nth. rewrite Hn by lia. do 3 f_equal. lia.
Qed.

(* ---------------- mode independence ---------------- *)
Lemma rgba_mode_independent data w h fmt : 4 * (w * h) < 2 ^ 64 ->
  decode_rgba_pixels Checked data w h fmt = decode_rgba_pixels Wrapping data w h fmt.
Proof.
  intros Hsz. unfold decode_rgba_pixels.
  rewrite (mul_w_ok W64 Checked), (mul_w_ok W64 Wrapping) by (unfold maxw, W64; lia). cbn [bind].
  rewrite (mul_w_ok W64 Checked), (mul_w_ok W64 Wrapping) by (unfold maxw, W64; lia). reflexivity.
Qed.
Lemma etc_pixels_mode_independent data w h alpha : 4 * w < 2 ^ 64 -> 4 * (w * h) < 2 ^ 64 ->
  etc1_decode_pixels Checked data w h alpha = etc1_decode_pixels Wrapping data w h alpha.
Proof.
  intros Hw Hsz. unfold etc1_decode_pixels.
  rewrite (mul_w_ok W64 Checked), (mul_w_ok W64 Wrapping) by (unfold maxw, W64; lia). cbn [bind].
  rewrite (mul_w_ok W64 Checked), (mul_w_ok W64 Wrapping) by (unfold maxw, W64; lia). reflexivity.
Qed.
Theorem decode_mode_independent : forall data w h fmt, 4 * w < 2 ^ 64 -> 4 * (w * h) < 2 ^ 64 ->
  decode_pixel_data Checked data w h fmt = decode_pixel_data Wrapping data w h fmt.
Proof.
  intros data w h fmt Hw Hsz. unfold decode_pixel_data, decode_pixels.
  rewrite rgba_mode_independent, !etc_pixels_mode_independent by assumption. reflexivity.
Qed.
Theorem etc1_mode_independent : forall data w h alpha, 4 * w < 2 ^ 64 -> 4 * (w * h) < 2 ^ 64 ->
  etc1_decode Checked data w h alpha = etc1_decode Wrapping data w h alpha.
Proof.
  intros data w h alpha Hw Hsz. unfold etc1_decode. rewrite etc_pixels_mode_independent by assumption. reflexivity.
Qed.

(* the decoders without a mode parameter: their machine arithmetic cannot overflow, so there is nothing for the
   build profile to change.  RGB5A3 multiplies in u16: every product fits (all 65 536 values). *)
Definition rgb5a3_products (v : N) : list N :=
  [0x20 * band (shr v 12) 0x7; 0x11 * band (shr v 8) 0xF; 0x11 * band (shr v 4) 0xF; 0x11 * band v 0xF;
   0x8 * band (shr v 10) 0xFF; 0x8 * band (shr v 5) 0x1F; 0x8 * band v 0x1F].
Lemma sweep_rgb5a3_products : all_below 65536 (fun v => forallb (fun p => p <? 65536) (rgb5a3_products v)) = true.
Proof. vm_compute. reflexivity. Qed.
Theorem rgb5a3_products_fit : forall v, v < 65536 -> Forall (fun p => p < 2 ^ 16) (rgb5a3_products v).
Proof.
  intros v Hv. pose proof (all_below_spec _ _ sweep_rgb5a3_products v Hv) as H. cbv beta in H.
  rewrite forallb_forall in H. apply Forall_forall. intros p Hp. specialize (H p Hp). change (2 ^ 16) with 65536. lia.
Qed.

(* the CI8 path computes in usize with u16 dimensions: sizes and every index of block_to_sequential / crop stay
   below the aligned area, which is below 2^33 *)
Theorem ci8_indices_fit : forall w h, 1 <= w < 65536 -> 1 <= h < 65536 ->
  let aw := align w 8 in let ah := align h 4 in
  aw * ah < 2 ^ 33 /\
  (forall i o, In (i, o) (b2s_pairs (N.to_nat aw) 8 4 (N.to_nat (aw * ah / 32))) -> N.of_nat i < aw * ah /\ N.of_nat o < aw * ah) /\
  (forall r, r < h -> r * aw + w <= aw * ah).
Proof.
  intros w h Hw Hh aw ah. unfold aw, ah. rewrite align_8, align_4.
  set (pr := N.to_nat ((w + 7) / 8)). set (br := N.to_nat ((h + 3) / 4)).
  assert (Hpr : (0 < pr)%nat) by (unfold pr; lia). assert (Hbr : (0 < br)%nat) by (unfold br; lia).
  assert (Eaw : align8 w = N.of_nat (8 * pr)) by (unfold align8, pr; lia).
  assert (Eah : align4 h = N.of_nat (4 * br)) by (unfold align4, br; lia).
  assert (Bw : align8 w < 65544) by (unfold align8; lia). assert (Bh : align4 h < 65540) by (unfold align4; lia).
  split; [change (2 ^ 33) with 8589934592; nia|]. split.
  - rewrite Eaw, Eah. rewrite Nat2N.id.
    replace (N.to_nat (N.of_nat (8 * pr) * N.of_nat (4 * br) / 32)) with (pr * br)%nat.
    2:{ replace (N.of_nat (8 * pr) * N.of_nat (4 * br)) with (32 * N.of_nat (pr * br)) by lia.
        generalize (pr * br)%nat. intros q. lia. }
    intros i o Hin. rewrite b2s_pairs_flat in Hin. apply in_map_iff in Hin. destruct Hin as (k & E & Hk). assert (Ei : i = k) by congruence. assert (Eo' : o = oidx (8 * pr) k) by congruence. clear E. subst i o.
    apply in_seq in Hk. destruct (oidx_shape pr br k Hpr ltac:(lia)) as (x & y & Hx & Hy & Eo & _). cbv zeta in *.
    rewrite Eo. split; nia.
  - intros r Hr. assert (w <= align8 w) by (unfold align8; lia). assert (h <= align4 h) by (unfold align4; lia). nia.
Qed.

Theorem mode_independent_all : forall data w h, 4 * w < 2 ^ 64 -> 4 * (w * h) < 2 ^ 64 ->
  (forall fmt, decode_pixel_data Checked data w h fmt = decode_pixel_data Wrapping data w h fmt) /\
  (forall alpha, etc1_decode Checked data w h alpha = etc1_decode Wrapping data w h alpha).
Proof. intros data w h Hw Hsz. split; intros; [apply decode_mode_independent|apply etc1_mode_independent]; assumption. Qed.

(* ---------------- ETC1A4: alpha and colour are independent ---------------- *)
Lemma decode_block_nth a p x y : x < 4 -> y < 4 ->
  nth (N.to_nat (4 * y + x)) (decode_block a p) ZERO_PX = texel p a (fst (block_colors p)) (snd (block_colors p)) x y.
Proof.
  intros Hx Hy.
  assert (Cx : x = 0 \/ x = 1 \/ x = 2 \/ x = 3) by lia. assert (Cy : y = 0 \/ y = 1 \/ y = 2 \/ y = 3) by lia.
  unfold decode_block. destruct (block_colors p) as [c1 c2]. cbn [fst snd].
  destruct Cx as [->|[->|[->| ->]]]; destruct Cy as [->|[->|[->| ->]]]; reflexivity.
Qed.

Lemma texel_alpha p a c1 c2 px py : nth 3 (texel p a c1 c2 px py) 0 = 17 * field a (4 * (4 * px + py)) 4.
Proof.
  unfold texel. cbn [nth]. change 0xF with (N.ones 4). rewrite band_shr_field.
  rewrite alpha_spec by apply (field_lt _ _ 4). do 2 f_equal. lia.
Qed.

(* every texel of every block (in range or not): alpha = 17 * its nibble of the alpha word, whatever the colour word;
   r, g, b do not depend on the alpha word (in particular an all-zero alpha word does not blank the colour) *)
Theorem etc1a4_alpha_colour_independent : forall a p x y, x < 4 -> y < 4 ->
  nth 3 (nth (N.to_nat (4 * y + x)) (decode_block a p) ZERO_PX) 0 = 17 * field a (4 * (4 * x + y)) 4 /\
  forall a', firstn 3 (nth (N.to_nat (4 * y + x)) (decode_block a p) ZERO_PX) =
             firstn 3 (nth (N.to_nat (4 * y + x)) (decode_block a' p) ZERO_PX).
Proof.
  intros a p x y Hx Hy. rewrite decode_block_nth by assumption. split; [apply texel_alpha|].
  intros a'. rewrite decode_block_nth by assumption. reflexivity.
Qed.

(* ---------------- layout and channels combined (payload bytes below 256) ---------------- *)
Lemma element_bound bpe data i : wfb data -> element bpe data i < 256 ^ bpe.
Proof.
  intros H. unfold element.
  set (l := firstn (N.to_nat bpe) (skipn (N.to_nat (i * bpe)) data)).
  assert (W : wfb l) by (apply wfb_firstn, wfb_skipn, H).
  pose proof (dec_le_bound l W) as B.
  assert (L : N.of_nat (length l) <= bpe) by (unfold l; rewrite firstn_length; lia).
  eapply N.lt_le_trans; [exact B|]. apply N.pow_le_mono_r; lia.
Qed.

Lemma listed_pow fmt : listed_color_format fmt = true -> 256 ^ bytes_per_element fmt = 2 ^ (8 * bytes_per_element fmt).
Proof. intros Hf. apply listed_cases in Hf. destruct Hf as [->|[->|[->|[->|[->|[->| ->]]]]]]; reflexivity. Qed.

Theorem color_pixel_ok : forall m fmt w h data X Y,
  listed_color_format fmt = true -> w mod 8 = 0 -> h mod 8 = 0 -> w * h < 2 ^ 32 ->
  lenN data = bytes_per_element fmt * (w * h) -> wfb data -> X < w -> Y < h ->
  exists px c, decode_pixel_data m data w h fmt = Ok (flatten px) /\ length px = N.to_nat (w * h) /\
    nth_error px (N.to_nat (Y * w + X)) = Some c /\
    color_ok fmt (element (bytes_per_element fmt) data (tiled_index w X Y)) c = true.
Proof.
  intros m fmt w h data X Y Hf Hw Hh Hsz Hlen Wf HX HY.
  destruct (color_pixel_source m fmt w h data X Y Hf Hw Hh Hsz Hlen HX HY) as (px & E & L & _ & Hn).
  exists px. eexists. split; [exact E|]. split; [exact L|]. split; [exact Hn|].
  apply channels_all; [exact Hf|]. rewrite <- listed_pow by exact Hf. apply element_bound. exact Wf.
Qed.

Lemma be16_at_bound data i : wfb data -> be16_at data i < 65536.
Proof.
  intros H. unfold be16_at.
  assert (B : forall k, nth k data 0 < 256).
  { intros k. destruct (nth_in_or_default k data 0) as [Hin|E]; [|rewrite E; lia]. unfold wfb in H. rewrite Forall_forall in H. apply H, Hin. }
  pose proof (B (N.to_nat (2 * i))). pose proof (B (N.to_nat (2 * i + 1))). lia.
Qed.

Theorem palette_pixel_ok : forall pal_data img w h,
  1 <= w -> 1 <= h -> lenN img = align8 w * align4 h -> lenN pal_data mod 2 = 0 -> wfb pal_data ->
  (forall x y, x < w -> y < h -> nth (N.to_nat (ci8_index w x y)) img 0 < lenN pal_data / 2) ->
  exists px, tpl_ci8_image pal_data img w h = Ok (flatten px) /\ length px = N.to_nat (w * h) /\
    forall x y, x < w -> y < h -> exists c,
      nth_error px (N.to_nat (y * w + x)) = Some c /\
      rgb5a3_ok (be16_at pal_data (nth (N.to_nat (ci8_index w x y)) img 0)) c = true.
Proof.
  intros pal_data img w h Hw Hh Hlen Hpal Wf Hidx.
  destruct (palette_image_source pal_data img w h Hw Hh Hlen Hpal Hidx) as (px & E & L & Hn).
  exists px. split; [exact E|]. split; [exact L|]. intros x y Hx Hy. eexists. split; [apply Hn; assumption|].
  apply rgb5a3_all. apply be16_at_bound. exact Wf.
Qed.
