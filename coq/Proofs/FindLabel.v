(* find_label_address (the repaired code: lowest address whose bucket contains the label) does not depend on the
   order of the label map.  Shared by the readers that look a label up (aset: AnimClipNameTable; arc: Count, Info). *)
From Coq Require Import List NArith Bool Lia Permutation.
From Mila Require Import Lib.Bytes Model.BinArchive Proofs.AMapLemmas.
Import ListNotations.
Local Open Scope N_scope.

Lemma min_of_le : forall l x, min_of x l <= x /\ forall y, In y l -> min_of x l <= y.
Proof.
  induction l as [|z r IH]; intros x; cbn [min_of]; [split; [lia | intros y []]|].
  destruct (IH (N.min x z)) as [H1 H2]. split; [lia|]. intros y [E|Hy]; [subst; lia | apply H2; exact Hy].
Qed.
Lemma min_of_in : forall l x, min_of x l = x \/ In (min_of x l) l.
Proof.
  induction l as [|z r IH]; intros x; cbn [min_of]; [left; reflexivity|].
  destruct (IH (N.min x z)) as [E|Hin]; [|right; right; exact Hin].
  rewrite E. destruct (N.min_spec x z) as [[_ ->]|[_ ->]]; [left; reflexivity | right; left; reflexivity].
Qed.

(* specification: the least element of the hit list *)
Theorem find_label_address_spec a t m :
  find_label_address a t = Some m <-> In m (label_hits a t) /\ forall y, In y (label_hits a t) -> m <= y.
Proof.
  unfold find_label_address. destruct (label_hits a t) as [|x r].
  - split; [discriminate | intros [[] _]].
  - destruct (min_of_le r x) as [L1 L2]. split.
    + intros E. inversion E; subst m. split.
      * destruct (min_of_in r x) as [-> |Hin]; [left; reflexivity | right; exact Hin].
      * intros y [<-|Hy]; [exact L1 | apply L2; exact Hy].
    + intros [Hin Hmin]. f_equal.
      assert (A : min_of x r <= m) by (destruct Hin as [<-|Hin]; [exact L1 | apply L2; exact Hin]).
      assert (B : m <= min_of x r).
      { apply Hmin. destruct (min_of_in r x) as [-> |H]; [left; reflexivity | right; exact H]. }
      lia.
Qed.
Theorem find_label_address_none a t : find_label_address a t = None <-> label_hits a t = [].
Proof. unfold find_label_address. destruct (label_hits a t); split; intros H; congruence. Qed.

Lemma label_hits_in a t x : In x (label_hits a t) <-> exists b, In (x, b) (a_labels a) /\ In t b.
Proof.
  unfold label_hits. rewrite in_map_iff. split.
  - intros ([x' b] & E & Hin). cbn [fst] in E. subst x'. apply filter_In in Hin. destruct Hin as [Hin Hb]. exists b. split; [exact Hin|].
    cbn [snd] in Hb. apply existsb_exists in Hb. destruct Hb as (u & Hu & Eu). destruct (bytes_eqb_spec t u); [subst; exact Hu | discriminate].
  - intros (b & Hin & Hb). exists (x, b). split; [reflexivity|]. apply filter_In. split; [exact Hin|].
    cbn [snd]. apply existsb_exists. exists t. split; [exact Hb | apply bytes_eqb_refl].
Qed.

(* two archives whose label maps have the same entries (in any order) answer alike *)
Theorem find_label_address_same_entries a a' t :
  (forall x b, In (x, b) (a_labels a) <-> In (x, b) (a_labels a')) -> find_label_address a t = find_label_address a' t.
Proof.
  intros H.
  assert (Hh : forall x, In x (label_hits a t) <-> In x (label_hits a' t)).
  { intros x. rewrite !label_hits_in. split; intros (b & Hin & Hb); exists b; (split; [apply H; exact Hin | exact Hb]). }
  destruct (find_label_address a t) as [m|] eqn:E.
  - symmetry. apply find_label_address_spec. apply find_label_address_spec in E. destruct E as [E1 E2].
    split; [apply Hh; exact E1 | intros y Hy; apply E2, Hh; exact Hy].
  - symmetry. apply find_label_address_none. apply find_label_address_none in E.
    destruct (label_hits a' t) as [|y r]; [reflexivity|]. exfalso.
    assert (Hy : In y (label_hits a t)) by (apply Hh; left; reflexivity). rewrite E in Hy. exact Hy.
Qed.
Theorem find_label_address_perm a a' t :
  Permutation (a_labels a) (a_labels a') -> find_label_address a t = find_label_address a' t.
Proof.
  intros P. apply find_label_address_same_entries. intros x b. split; intros Hin.
  - exact (Permutation_in _ P Hin).
  - exact (Permutation_in _ (Permutation_sym P) Hin).
Qed.
(* maps with distinct keys that agree as maps *)
Theorem find_label_address_same_map a a' t :
  NoDup (am_keys (a_labels a)) -> NoDup (am_keys (a_labels a')) ->
  (forall x, am_get x (a_labels a') = am_get x (a_labels a)) -> find_label_address a' t = find_label_address a t.
Proof.
  intros N1 N2 G. apply find_label_address_same_entries. intros x b.
  assert (K : forall (m : amap (list bytes)), NoDup (am_keys m) -> In (x, b) m <-> am_get x m = Some b).
  { intros m Nm. split; [|apply am_get_in]. unfold am_keys in Nm. induction m as [|[k v] r IH]; intros Hin; [destruct Hin|].
    cbn [map fst] in Nm. inversion Nm as [|? ? Hk Nr]; subst. cbn [am_get]. destruct Hin as [Hin|Hin].
    - inversion Hin; subst. rewrite N.eqb_refl. reflexivity.
    - destruct (N.eqb_spec x k) as [E|E]; [|apply IH; assumption]. subst k. exfalso. apply Hk. apply in_map_iff. exists (x, b). auto. }
  rewrite (K _ N1), (K _ N2), G. tauto.
Qed.

(* with a single hit the answer is that hit; the old first-hit function agrees then *)
Lemma find_label_address_single a t x : label_hits a t = [x] -> find_label_address a t = Some x.
Proof. unfold find_label_address. intros ->. reflexivity. Qed.
Lemma find_label_address_first_hits a t :
  find_label_address_first a t = match label_hits a t with x :: _ => Some x | [] => None end.
Proof.
  unfold find_label_address_first, label_hits. induction (a_labels a) as [|p r IH]; cbn [find filter map]; [reflexivity|].
  destruct (existsb (bytes_eqb t) (snd p)); cbn [map]; [reflexivity | exact IH].
Qed.
