(* Observational equality of archives: what the readers layered on BinArchive (text archive,
   arc) can see of an archive.  The bin-archive round trip (C01) yields an archive that is
   [obs_equal] to the one serialized; the readers are shown to depend on nothing else
   (Proofs/TextFormatRoundTrip.v, Proofs/ArcProofs.v). *)
From Coq Require Import List NArith ZArith Bool Lia ZifyBool ZifyNat ZifyN.
From Mila Require Import Lib.Bytes Lib.Machine Model.BinArchive Model.BinStreams Proofs.AMapLemmas Proofs.BinAccess Proofs.BinAccess2 Proofs.FindLabel.
Import ListNotations.
Local Open Scope N_scope.

(* the addresses whose bucket contains label [l], in the (hash) order of the map *)
Definition label_addrs (a : archive) (l : bytes) : list N :=
  map fst (filter (fun p : N * list bytes => existsb (bytes_eqb l) (snd p)) (a_labels a)).

(* repaired code (fix 10408e9): the LOWEST of these addresses ([label_addrs] = Model.BinArchive.label_hits) *)
Lemma find_label_address_addrs a l :
  find_label_address a l = match label_addrs a l with x :: r => Some (min_of x r) | [] => None end.
Proof. reflexivity. Qed.
Lemma min_of_all_eq x y r : (forall z, In z (y :: r) -> z = x) -> min_of y r = x.
Proof.
  intros H. destruct (min_of_in r y) as [E|Hin]; [rewrite E; apply H; left; reflexivity | apply H; right; exact Hin].
Qed.

Record obs_equal (a a' : archive) : Prop := {
  oe_data : a_data a' = a_data a;
  oe_string : forall x, read_string a' x = read_string a x;
  oe_pointer : forall x, read_pointer a' x = read_pointer a x;
  oe_labels : forall x, read_labels a' x = read_labels a x;
  (* find_label_address (repaired code 10408e9: the lowest address carrying the label) agrees for EVERY label *)
  oe_find : forall l, find_label_address a' l = find_label_address a l }.

Lemma obs_equal_refl a : obs_equal a a.
Proof. constructor; reflexivity. Qed.

(* ---- everything a reader does with the raw bytes depends on a_data (and a_endian) only ---- *)
Lemma size_congr a a' : a_data a' = a_data a -> size a' = size a.
Proof. unfold size. intros ->. reflexivity. Qed.
Lemma read_u8_congr a a' pos : a_data a' = a_data a -> read_u8 a' pos = read_u8 a pos.
Proof. intros E. unfold read_u8, size. rewrite E. reflexivity. Qed.
Lemma r_read_u8_congr a a' pos : a_data a' = a_data a -> r_read_u8 a' pos = r_read_u8 a pos.
Proof. intros E. unfold r_read_u8. rewrite (read_u8_congr a a' pos E). reflexivity. Qed.
Lemma read_uint_congr a a' pos w : a_data a' = a_data a -> a_endian a' = a_endian a -> read_uint a' pos w = read_uint a pos w.
Proof. intros E Ee. unfold read_uint, check_cell, size. rewrite E, Ee. reflexivity. Qed.
Lemma r_read_bytes_loop_congr a a' : a_data a' = a_data a -> forall n pos acc,
  r_read_bytes_loop n a' pos acc = r_read_bytes_loop n a pos acc.
Proof.
  intros E. induction n as [|n IH]; intros pos acc; cbn [r_read_bytes_loop]; [reflexivity|].
  rewrite (r_read_u8_congr a a' pos E). destruct (r_read_u8 a pos) as [[v|e|k] p]; [apply IH | reflexivity | reflexivity].
Qed.
Lemma r_read_bytes_congr a a' pos count : a_data a' = a_data a -> r_read_bytes a' pos count = r_read_bytes a pos count.
Proof. intros E. unfold r_read_bytes. rewrite (size_congr a a' E). apply r_read_bytes_loop_congr. exact E. Qed.

(* ---- a bridge for the owner of the bin-archive round trip: equal maps give obs_equal ---- *)
Lemma label_addrs_in a l x : In x (label_addrs a l) <-> exists b, In (x, b) (a_labels a) /\ existsb (bytes_eqb l) b = true.
Proof.
  unfold label_addrs. rewrite in_map_iff. split.
  - intros ([x' b] & E & Hin). cbn [fst] in E. subst x'. apply filter_In in Hin. destruct Hin as [Hin Hb]. exists b. auto.
  - intros (b & Hin & Hb). exists (x, b). split; [reflexivity|]. apply filter_In. auto.
Qed.

Lemma am_in_get {V} (m : amap V) k v : NoDup (am_keys m) -> In (k, v) m -> am_get k m = Some v.
Proof.
  unfold am_keys. induction m as [|[k' v'] r IH]; intros Hnd Hin; [destruct Hin|].
  cbn [map fst] in Hnd. inversion Hnd as [|x xs Hnotin Hnd']; subst. cbn [am_get].
  destruct Hin as [Hin|Hin].
  - inversion Hin; subst. rewrite N.eqb_refl. reflexivity.
  - destruct (N.eqb_spec k k') as [E|E].
    + subst k'. exfalso. apply Hnotin. apply in_map_iff. exists (k, v). auto.
    + apply IH; assumption.
Qed.

(* if both label maps have distinct keys and agree as maps, a label that sits on exactly one
   address of [a] is found there in [a'] *)
Lemma find_agree_of_maps a a' :
  NoDup (am_keys (a_labels a)) -> NoDup (am_keys (a_labels a')) ->
  (forall x, am_get x (a_labels a') = am_get x (a_labels a)) ->
  forall l x, label_addrs a l = [x] -> find_label_address a' l = Some x.
Proof.
  intros Hnd Hnd' Hget l x H.
  assert (Hall : forall y, In y (label_addrs a' l) -> y = x).
  { intros y Hy. apply label_addrs_in in Hy. destruct Hy as (b & Hin & Hb).
    assert (G : am_get y (a_labels a) = Some b) by (rewrite <- Hget; apply am_in_get; assumption).
    apply am_get_in in G.
    assert (Hy : In y (label_addrs a l)) by (apply label_addrs_in; exists b; auto).
    rewrite H in Hy. destruct Hy as [Hy|[]]. congruence. }
  assert (Hx : In x (label_addrs a' l)).
  { assert (Hx : In x (label_addrs a l)) by (rewrite H; left; reflexivity).
    apply label_addrs_in in Hx. destruct Hx as (b & Hin & Hb).
    assert (G : am_get x (a_labels a') = Some b) by (rewrite Hget; apply am_in_get; assumption).
    apply am_get_in in G. apply label_addrs_in. exists b. auto. }
  rewrite find_label_address_addrs. destruct (label_addrs a' l) as [|y r]; [destruct Hx|].
  f_equal. apply min_of_all_eq. exact Hall.
Qed.

(* since the repair 10408e9 the lookup itself is a function of the label MAP: full agreement, duplicates included *)
Lemma find_agree_all a a' :
  NoDup (am_keys (a_labels a)) -> NoDup (am_keys (a_labels a')) ->
  (forall x, am_get x (a_labels a') = am_get x (a_labels a)) ->
  forall l, find_label_address a' l = find_label_address a l.
Proof. intros N1 N2 G l. apply find_label_address_same_map; assumption. Qed.
