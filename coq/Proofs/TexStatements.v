(* C20: the container theorems in the wording of the property, for the supported textures:
   read m f = Ok (map decoded texs); a strict prefix is never a Panic and is an Err when a payload is cut. *)
From Coq Require Import List NArith Bool.
From Mila Require Import Lib.Bytes Lib.Machine Model.Pixel Model.Etc1 Model.TexCommon Model.TexFormat
  Model.Ctpk Model.Bch Model.Cgfx Model.Tpl
  Proofs.TexBase Proofs.TexCtpk Proofs.TexTpl Proofs.TexBch Proofs.TexCgfx Proofs.TexDecode.
Import ListNotations.
Local Open Scope N_scope.

Lemma no_panic_neq {A} (o : outcome A) : no_panic o -> forall p, o <> Panic p.
Proof. destruct o; cbn; intros H p' E; try discriminate. exact H. Qed.

Theorem read_ctpk_supported m f texs : conforms_ctpk f texs -> Forall supported3ds_f32 texs ->
  read_ctpk m f = Ok (map decoded texs).
Proof.
  intros Hc Hs. destruct (supported_f32_split _ Hs) as (Hs1 & Hx).
  rewrite (read_ctpk_correct m f texs Hc Hx). apply decode_all_supported, Hs1.
Qed.
Theorem read_bch_supported m f texs : conforms_bch f texs -> Forall supported3ds_f32 texs ->
  read_bch m f = Ok (map decoded texs).
Proof.
  intros Hc Hs. destruct (supported_f32_split _ Hs) as (Hs1 & Hx).
  rewrite (read_bch_correct m f texs Hc Hx). apply decode_all_supported, Hs1.
Qed.
Theorem read_cgfx_supported m f texs : conforms_cgfx f texs -> Forall supported3ds texs ->
  read_cgfx m f = Ok (map decoded texs).
Proof. intros Hc Hs. rewrite (read_cgfx_correct m f texs Hc). apply decode_all_supported, Hs. Qed.
Theorem read_tpl_supported m f texs : conforms_tpl f texs -> Forall supportedtpl texs ->
  read_tpl m f = Ok (map tpl_decoded texs).
Proof. intros Hc Hs. rewrite (read_tpl_correct m f texs Hc). apply decode_all_tpl_supported, Hs. Qed.

Theorem ctpk_prefix_supported m f texs k : conforms_ctpk f texs -> Forall supported3ds_f32 texs -> k < lenN f ->
  (forall p, read_ctpk m (firstn (N.to_nat k) f) <> Panic p) /\
  (forall i t off, nth_error texs i = Some t -> ctpk_payload_at f (N.of_nat i) off -> cuts k off (t_data t) ->
     exists e, read_ctpk m (firstn (N.to_nat k) f) = Err e).
Proof.
  intros Hc Hs Hk. destruct (supported_f32_split _ Hs) as (Hs1 & Hx).
  destruct (ctpk_prefix m f texs k Hc Hx (supported_no_panic m texs Hs1) Hk) as (Hn & He).
  split; [apply no_panic_neq, Hn|]. intros i t off Hi Hp Hcut. apply is_err_exists. eapply He; eauto.
Qed.
Theorem bch_prefix_supported m f texs k : conforms_bch f texs -> Forall supported3ds_f32 texs -> k < lenN f ->
  (forall p, read_bch m (firstn (N.to_nat k) f) <> Panic p) /\
  (forall i t off, nth_error texs i = Some t -> bch_payload_at f (N.of_nat i) off -> cuts k off (t_data t) ->
     exists e, read_bch m (firstn (N.to_nat k) f) = Err e).
Proof.
  intros Hc Hs Hk. destruct (supported_f32_split _ Hs) as (Hs1 & Hx).
  destruct (bch_prefix m f texs k Hc Hx (supported_no_panic m texs Hs1) Hk) as (Hn & He).
  split; [apply no_panic_neq, Hn|]. intros i t off Hi Hp Hcut. apply is_err_exists. eapply He; eauto.
Qed.
Theorem cgfx_prefix_supported m f texs k : conforms_cgfx f texs -> Forall supported3ds texs -> k < lenN f ->
  (forall p, read_cgfx m (firstn (N.to_nat k) f) <> Panic p) /\
  (forall i t off, nth_error texs i = Some t -> cgfx_payload_at f (N.of_nat i) off -> cuts k off (t_data t) ->
     exists e, read_cgfx m (firstn (N.to_nat k) f) = Err e).
Proof.
  intros Hc Hs Hk. destruct (cgfx_prefix m f texs k Hc (supported_no_panic m texs Hs) Hk) as (Hn & He).
  split; [apply no_panic_neq, Hn|]. intros i t off Hi Hp Hcut. apply is_err_exists. eapply He; eauto.
Qed.
Theorem tpl_prefix_all m f texs k : conforms_tpl f texs -> k < lenN f ->
  (forall p, read_tpl m (firstn (N.to_nat k) f) <> Panic p) /\
  (forall i t off, nth_error texs i = Some t ->
     (tpl_image_at f (N.of_nat i) off /\ cuts k off (t_data t)) \/ (tpl_palette_at f (N.of_nat i) off /\ cuts k off (t_pal t)) ->
     exists e, read_tpl m (firstn (N.to_nat k) f) = Err e).
Proof.
  intros Hc Hk. destruct (tpl_prefix m f texs k Hc (tpl_all_no_panic texs) Hk) as (Hn & He).
  split; [apply no_panic_neq, Hn|]. intros i t off Hi Hcut. apply is_err_exists. eapply He; eauto.
Qed.

Theorem tpl_prefix_nohyp : forall m f texs k, conforms_tpl f texs -> k < lenN f ->
  no_panic (read_tpl m (firstn (N.to_nat k) f)) /\
  (forall i t off, nth_error texs i = Some t ->
     (tpl_image_at f (N.of_nat i) off /\ cuts k off (t_data t)) \/ (tpl_palette_at f (N.of_nat i) off /\ cuts k off (t_pal t)) ->
     is_err (read_tpl m (firstn (N.to_nat k) f))).
Proof. intros m f texs k Hc. exact (tpl_prefix m f texs k Hc (tpl_all_no_panic texs)). Qed.
