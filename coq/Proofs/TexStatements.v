(* C20: the container theorems in the wording of the property, for the supported textures:
   read m f = Ok (map decoded texs); a strict prefix is never a Panic and is an Err when a payload is cut. *)
From Coq Require Import List NArith Bool.
From Mila Require Import Lib.Bytes Lib.Machine Model.Pixel Model.Etc1 Model.TexCommon Model.TexFormat
  Model.Ctpk Model.Bch Model.Cgfx Model.Tpl
  Proofs.TexBase Proofs.TexCtpk Proofs.TexTpl Proofs.TexBch Proofs.TexCgfx Proofs.TexDecode.
Import ListNotations.
Local Open Scope N_scope.

Lemma no_panic_neq {A} (o : outcome A) : no_panic o -> forall p, o <> Panic p.
Proof. destruct o; cbn; intros H p' E; try discriminate. exact H. Qed.

Theorem read_ctpk_supported m f texs : conforms_ctpk f texs -> Forall supported3ds_f32 texs ->
  read_ctpk m f = Ok (map decoded texs).
Proof.
  intros Hc Hs. destruct (supported_f32_split _ Hs) as (Hs1 & Hx).
  rewrite (read_ctpk_correct m f texs Hc Hx). apply decode_all_supported, Hs1.
Qed.
Theorem read_bch_supported m f texs : conforms_bch f texs -> Forall supported3ds_f32 texs ->
  read_bch m f = Ok (map decoded texs).
Proof.
  intros Hc Hs. destruct (supported_f32_split _ Hs) as (Hs1 & Hx).
  rewrite (read_bch_correct m f texs Hc Hx). apply decode_all_supported, Hs1.
Qed.
Theorem read_cgfx_supported m f texs : conforms_cgfx f texs -> Forall supported3ds texs ->
  read_cgfx m f = Ok (map decoded texs).
Proof. intros Hc Hs. rewrite (read_cgfx_correct m f texs Hc). apply decode_all_supported, Hs. Qed.
Theorem read_tpl_supported m f texs : conforms_tpl f texs -> Forall supportedtpl texs ->
  read_tpl m f = Ok (map tpl_decoded texs).
Proof. intros Hc Hs. rewrite (read_tpl_correct m f texs Hc). apply decode_all_tpl_supported, Hs. Qed.

Theorem ctpk_prefix_supported m f texs k : conforms_ctpk f texs -> Forall supported3ds_f32 texs -> k < lenN f ->
  (forall p, read_ctpk m (firstn (N.to_nat k) f) <> Panic p) /\
  (forall i t off, nth_error texs i = Some t -> ctpk_payload_at f (N.of_nat i) off -> cuts k off (t_data t) ->
     exists e, read_ctpk m (firstn (N.to_nat k) f) = Err e).
Proof.
  intros Hc Hs Hk. destruct (supported_f32_split _ Hs) as (Hs1 & Hx).
  destruct (ctpk_prefix m f texs k Hc Hx (supported_no_panic m texs Hs1) Hk) as (Hn & He).
  split; [apply no_panic_neq, Hn|]. intros i t off Hi Hp Hcut. apply is_err_exists. eapply He; eauto.
Qed.
Theorem bch_prefix_supported m f texs k : conforms_bch f texs -> Forall supported3ds_f32 texs -> k < lenN f ->
  (forall p, read_bch m (firstn (N.to_nat k) f) <> Panic p) /\
  (forall i t off, nth_error texs i = Some t -> bch_payload_at f (N.of_nat i) off -> cuts k off (t_data t) ->
     exists e, read_bch m (firstn (N.to_nat k) f) = Err e).
Proof.
  intros Hc Hs Hk. destruct (supported_f32_split _ Hs) as (Hs1 & Hx).
  destruct (bch_prefix m f texs k Hc Hx (supported_no_panic m texs Hs1) Hk) as (Hn & He).
  split; [apply no_panic_neq, Hn|]. intros i t off Hi Hp Hcut. apply is_err_exists. eapply He; eauto.
Qed.
Theorem cgfx_prefix_supported m f texs k : conforms_cgfx f texs -> Forall supported3ds texs -> k < lenN f ->
  (forall p, read_cgfx m (firstn (N.to_nat k) f) <> Panic p) /\
  (forall i t off, nth_error texs i = Some t -> cgfx_payload_at f (N.of_nat i) off -> cuts k off (t_data t) ->
     exists e, read_cgfx m (firstn (N.to_nat k) f) = Err e).
Proof.
  intros Hc Hs Hk. destruct (cgfx_prefix m f texs k Hc (supported_no_panic m texs Hs) Hk) as (Hn & He).
  split; [apply no_panic_neq, Hn|]. intros i t off Hi Hp Hcut. apply is_err_exists. eapply He; eauto.
Qed.
Theorem tpl_prefix_all m f texs k : conforms_tpl f texs -> k < lenN f ->
  (forall p, read_tpl m (firstn (N.to_nat k) f) <> Panic p) /\
  (forall i t off, nth_error texs i = Some t ->
     (tpl_image_at f (N.of_nat i) off /\ cuts k off (t_data t)) \/ (tpl_palette_at f (N.of_nat i) off /\ cuts k off (t_pal t)) ->
     exists e, read_tpl m (firstn (N.to_nat k) f) = Err e).
Proof.
  intros Hc Hk. destruct (tpl_prefix m f texs k Hc (tpl_all_no_panic texs) Hk) as (Hn & He).
  split; [apply no_panic_neq, Hn|]. intros i t off Hi Hcut. apply is_err_exists. eapply He; eauto.
Qed.

Theorem tpl_prefix_nohyp : forall m f texs k, conforms_tpl f texs -> k < lenN f ->
  no_panic (read_tpl m (firstn (N.to_nat k) f)) /\
  (forall i t off, nth_error texs i = Some t ->
     (tpl_image_at f (N.of_nat i) off /\ cuts k off (t_data t)) \/ (tpl_palette_at f (N.of_nat i) off /\ cuts k off (t_pal t)) ->
     is_err (read_tpl m (firstn (N.to_nat k) f))).
Proof. intros m f texs k Hc. exact (tpl_prefix m f texs k Hc (tpl_all_no_panic texs)). Qed.

(* ---------------------------------------------------------------- C20 composed with C19
   pixel (X, Y) of texture i of a conforming container, in terms of the payload bytes of texture i *)
From Mila Require Import Model.PixelSpec.

Theorem ctpk_pixel m f texs i t X Y : conforms_ctpk f texs -> Forall supported3ds_f32 texs ->
  nth_error texs i = Some t -> listed_color_format (t_fmt t) = true -> X < t_w t -> Y < t_h t ->
  exists out px, read_ctpk m f = Ok out /\
    nth_error out i = Some (mkTexture (t_name t) (t_w t) (t_h t) (flatten px)) /\
    length px = N.to_nat (t_w t * t_h t) /\
    nth_error px (N.to_nat (Y * t_w t + X)) =
      Some (decode_color (element (bytes_per_element (t_fmt t)) (t_data t) (tiled_index (t_w t) X Y)) (t_fmt t)).
Proof.
  intros Hc Hs Hi Hl HX HY. destruct (supported_f32_split _ Hs) as (Hs1 & _).
  assert (Ht : supported3ds t) by (rewrite Forall_forall in Hs1; apply Hs1; eapply nth_error_In; eauto).
  destruct (decoded_pixels t Ht Hl) as (px & Ed & Lp & Hp).
  exists (map decoded texs), px. split; [apply read_ctpk_supported; assumption|].
  split; [rewrite <- Ed; apply map_nth_error, Hi|]. split; [exact Lp | apply Hp; assumption].
Qed.
Theorem bch_pixel m f texs i t X Y : conforms_bch f texs -> Forall supported3ds_f32 texs ->
  nth_error texs i = Some t -> listed_color_format (t_fmt t) = true -> X < t_w t -> Y < t_h t ->
  exists out px, read_bch m f = Ok out /\
    nth_error out i = Some (mkTexture (t_name t) (t_w t) (t_h t) (flatten px)) /\
    length px = N.to_nat (t_w t * t_h t) /\
    nth_error px (N.to_nat (Y * t_w t + X)) =
      Some (decode_color (element (bytes_per_element (t_fmt t)) (t_data t) (tiled_index (t_w t) X Y)) (t_fmt t)).
Proof.
  intros Hc Hs Hi Hl HX HY. destruct (supported_f32_split _ Hs) as (Hs1 & _).
  assert (Ht : supported3ds t) by (rewrite Forall_forall in Hs1; apply Hs1; eapply nth_error_In; eauto).
  destruct (decoded_pixels t Ht Hl) as (px & Ed & Lp & Hp).
  exists (map decoded texs), px. split; [apply read_bch_supported; assumption|].
  split; [rewrite <- Ed; apply map_nth_error, Hi|]. split; [exact Lp | apply Hp; assumption].
Qed.
Theorem cgfx_pixel m f texs i t X Y : conforms_cgfx f texs -> Forall supported3ds texs ->
  nth_error texs i = Some t -> listed_color_format (t_fmt t) = true -> X < t_w t -> Y < t_h t ->
  exists out px, read_cgfx m f = Ok out /\
    nth_error out i = Some (mkTexture (t_name t) (t_w t) (t_h t) (flatten px)) /\
    length px = N.to_nat (t_w t * t_h t) /\
    nth_error px (N.to_nat (Y * t_w t + X)) =
      Some (decode_color (element (bytes_per_element (t_fmt t)) (t_data t) (tiled_index (t_w t) X Y)) (t_fmt t)).
Proof.
  intros Hc Hs1 Hi Hl HX HY.
  assert (Ht : supported3ds t) by (rewrite Forall_forall in Hs1; apply Hs1; eapply nth_error_In; eauto).
  destruct (decoded_pixels t Ht Hl) as (px & Ed & Lp & Hp).
  exists (map decoded texs), px. split; [apply read_cgfx_supported; assumption|].
  split; [rewrite <- Ed; apply map_nth_error, Hi|]. split; [exact Lp | apply Hp; assumption].
Qed.
Theorem tpl_pixel m f texs i t x y : conforms_tpl f texs -> Forall supportedtpl texs ->
  nth_error texs i = Some t -> x < t_w t -> y < t_h t ->
  exists out px, read_tpl m f = Ok out /\
    nth_error out i = Some (mkTexture [] (t_w t) (t_h t) (flatten px)) /\
    length px = N.to_nat (t_w t * t_h t) /\
    nth_error px (N.to_nat (y * t_w t + x)) =
      Some (decode_rgb5a3_pixel (be16_at (t_pal t) (nth (N.to_nat (ci8_index (t_w t) x y)) (t_data t) 0))).
Proof.
  intros Hc Hs Hi Hx Hy.
  assert (Ht : supportedtpl t) by (rewrite Forall_forall in Hs; apply Hs; eapply nth_error_In; eauto).
  destruct (tpl_decoded_pixels t Ht) as (px & _ & Ed & Lp & Hp).
  exists (map tpl_decoded texs), px. split; [apply read_tpl_supported; assumption|].
  split; [rewrite <- Ed; apply map_nth_error, Hi|]. split; [exact Lp | apply Hp; assumption].
Qed.
