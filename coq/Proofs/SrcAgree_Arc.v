(* Agreement of the labels, magic numbers, header sizes and alignment constants of src/arc.rs, src/fe9_arc.rs
   and src/bin_archive.rs (regenerated from the source on every run) with Model/Arc.v, Model/Pack.v and
   Model/BinFormat.v.  Model/PackFormat.v is the independent format specification of C15 and is deliberately
   NOT tied to the source. *)
From Coq Require Import String List NArith ZArith Bool.
From Mila Require Import Generated.SourceTables.
From Mila Require Import Proofs.SrcAgreeLib Lib.Bytes Lib.Machine Model.BinArchive Model.BinStreams Model.BinFormat
                         Model.Arc Model.Pack.
Import ListNotations.
Local Open Scope N_scope.

(* ------------------------------------------------------------------ arc.rs *)
Theorem src_ARC_LABELS_agrees : src_ARC_LABELS = [COUNT; INFO].
Proof. reflexivity. Qed.
Theorem src_ARC_LABELS_agrees_text : src_ARC_LABELS = map s2l ["Count"; "Info"]%string.
Proof. reflexivity. Qed.

Definition arc_trace_p (labels : list bytes) (pads : list N) (m : mode) (a : archive) : outcome (list (bytes * bytes)) :=
  count_address <- of_option ENoCount (find_label_address a (nth 0 labels [])) ;;
  info_address <- of_option ENoInfo (find_label_address a (nth 1 labels [])) ;;
  w0 <- read_u32 a 0 ;;
  let header_padding := if w0 =? 0 then nthN 0 pads else nthN 1 pads in
  count <- fst (r_read_u32 a count_address) ;;
  entries <- entry_loop (data_fuel a) a count info_address header_padding [] ;;
  body_loop a entries [].

Theorem src_ARC_HEADER_PAD_agrees : forall m a, arc_trace m a = arc_trace_p src_ARC_LABELS src_ARC_HEADER_PAD m a.
Proof. intros. reflexivity. Qed.
Theorem src_ARC_HEADER_PAD_agrees_const : src_ARC_HEADER_PAD = [HEADER_PAD; 0].
Proof. reflexivity. Qed.

(* ------------------------------------------------------------------ fe9_arc.rs *)
(* MAGIC, BASE_HEADER_SIZE, PADDING_BOUNDARY, METADATA_SIZE; parse starts reading entries at BASE_HEADER_SIZE
   (`cursor.set_position(0x8)`) and EntryMetadata::read consumes METADATA_SIZE bytes (four u32) *)
Theorem src_PACK_CONSTS_agrees :
  src_PACK_CONSTS = [MAGIC; BASE_HEADER_SIZE; PADDING_BOUNDARY; METADATA_SIZE; BASE_HEADER_SIZE; METADATA_SIZE].
Proof. reflexivity. Qed.

(* ------------------------------------------------------------------ bin_archive.rs *)
Definition cb (i : nat) : N := nthN i src_BIN_HEADER.
Theorem src_BIN_HEADER_agrees_count : List.length src_BIN_HEADER = 12%nat.
Proof. reflexivity. Qed.

Fixpoint ptr_loop_p (h : N) (e : endian) (f : bytes) (flen dsz : N) (n : nat) (pos : N) (a : archive) : outcome archive :=
  match n with
  | O => Ok a
  | S n' =>
    pa <- u32_file e f pos ;;
    pv <- read_u32 a pa ;;
    if dsz <? pv then
      s <- string_at f flen (pv + h) ;;
      a' <- write_string a pa (Some s) ;;
      ptr_loop_p h e f flen dsz n' (pos + 4) a'
    else
      a' <- write_pointer a pa (Some pv) ;;
      ptr_loop_p h e f flen dsz n' (pos + 4) a'
  end.

Fixpoint lbl_loop_p (h : N) (e : endian) (f : bytes) (flen tstart : N) (n : nat) (pos : N) (a : archive) : outcome archive :=
  match n with
  | O => Ok a
  | S n' =>
    addr <- u32_file e f pos ;;
    off <- u32_file e f (pos + 4) ;;
    s <- string_at f flen (tstart + off + h) ;;
    _ <- validate_address addr (size a) true ;;
    lbl_loop_p h e f flen tstart n' (pos + 8) (set_labels a (push_label addr s (a_labels a)))
  end.

Lemma ptr_loop_p_model : forall e f flen dsz n pos a, ptr_loop_p 32 e f flen dsz n pos a = ptr_loop e f flen dsz n pos a.
Proof.
  induction n as [|n IH]; intros pos a; [reflexivity|]. cbn [ptr_loop_p ptr_loop].
  destruct (u32_file e f pos) as [pa| |]; cbn [bind]; try reflexivity.
  destruct (read_u32 a pa) as [pv| |]; cbn [bind]; try reflexivity.
  destruct (dsz <? pv).
  - destruct (string_at f flen (pv + 32)) as [s| |]; cbn [bind]; try reflexivity.
    destruct (write_string a pa (Some s)); cbn [bind]; try reflexivity. apply IH.
  - destruct (write_pointer a pa (Some pv)); cbn [bind]; try reflexivity. apply IH.
Qed.

Lemma lbl_loop_p_model : forall e f flen tstart n pos a, lbl_loop_p 32 e f flen tstart n pos a = lbl_loop e f flen tstart n pos a.
Proof.
  induction n as [|n IH]; intros pos a; [reflexivity|]. cbn [lbl_loop_p lbl_loop].
  destruct (u32_file e f pos) as [addr| |]; cbn [bind]; try reflexivity.
  destruct (u32_file e f (pos + 4)) as [off| |]; cbn [bind]; try reflexivity.
  destruct (string_at f flen (tstart + off + 32)) as [s| |]; cbn [bind]; try reflexivity.
  destruct (validate_address addr (size a) true); cbn [bind]; try reflexivity. apply IH.
Qed.

(* BinArchive::from_bytes with the five uses of the header size, the entry sizes of the text_start computation
   and the position of the data_size field as parameters *)
Definition from_bytes_alloc_p (c : nat -> N) (e : endian) (f : bytes) : outcome (archive * N) :=
  let flen := lenN f in
  if flen <? c 0%nat then Err ETooSmall else
  dsz <- u32_file e f (c 7%nat) ;;
  pc <- u32_file e f (c 7%nat + 4) ;;
  lc <- u32_file e f (c 7%nat + 8) ;;
  let tstart := dsz + c 5%nat * pc + c 6%nat * lc in
  if flen <? tstart + c 1%nat then Err ETooSmall else
  d <- of_option EIo (sliceN (c 2%nat) dsz f) ;;
  a1 <- ptr_loop_p (c 3%nat) e f flen dsz (N.to_nat pc) (c 2%nat + dsz)
          {| a_data := d; a_text := []; a_ptrs := []; a_labels := []; a_cstrs := []; a_endian := e |} ;;
  a2 <- lbl_loop_p (c 4%nat) e f flen tstart (N.to_nat lc) (c 2%nat + dsz + 4 * pc) a1 ;;
  Ok (a2, dsz).

Theorem src_BIN_HEADER_agrees : forall e f, from_bytes_alloc e f = from_bytes_alloc_p cb e f.
Proof.
  intros e f. unfold from_bytes_alloc, from_bytes_alloc_p.
  change (cb 0) with 32. change (cb 1) with 32. change (cb 2) with 32. change (cb 3) with 32. change (cb 4) with 32.
  change (cb 5) with 4. change (cb 6) with 8. change (cb 7) with 4. change (4 + 4) with 8. change (4 + 8) with 12.
  cbv zeta.
  destruct (lenN f <? 32); [reflexivity|].
  destruct (u32_file e f 4) as [dsz| |]; cbn [bind]; try reflexivity.
  destruct (u32_file e f 8) as [pc| |]; cbn [bind]; try reflexivity.
  destruct (u32_file e f 12) as [lc| |]; cbn [bind]; try reflexivity.
  destruct (lenN f <? dsz + 4 * pc + 8 * lc + 32); [reflexivity|].
  destruct (of_option EIo (sliceN 32 dsz f)) as [d| |]; cbn [bind]; try reflexivity.
  rewrite ptr_loop_p_model.
  match goal with |- context [ptr_loop ?a ?b ?c ?d ?n ?p ?x] => destruct (ptr_loop a b c d n p x) as [a1| |] end;
    cbn [bind]; try reflexivity.
  rewrite lbl_loop_p_model. reflexivity.
Qed.

(* BinArchive::serialize with the header size (file size, position of the data = 16 bytes of fields + zero fill),
   the alignment of the c-string pool and the largest accepted file size (`if file_size > u32::MAX as usize { return Err }`,
   fix 524d15f) as parameters *)
Definition serialize_p (kf : name_key) (hsz_size hsz_seek al lim : N) (m : mode) (a : archive) : outcome bytes :=
  let e := a_endian a in
  let dlen := size a in
  let cs := isort (fun x y : bytes * list N => bytes_leb (fst x) (fst y)) (a_cstrs a) in
  let '(cpool, cptrs) := cstr_pool dlen cs pool_empty [] in
  let raw_cstrings := pad_to al (p_raw cpool) in
  let pointers := isort (fun x y : N * N => fst x <=? fst y) (a_ptrs a ++ cptrs) in
  d1 <- poke_all e (a_data a) pointers ;;
  let raw_pointers1 := map fst pointers in
  let labels := isort (label_leb kf e) (a_labels a) in
  let '(tpool1, raw_labels) := emit_labels labels pool_empty [] in
  let text := isort (fun x y : N * bytes => fst x <=? fst y) (a_text a) in
  let text_start := dlen + lenN raw_cstrings
                    + (N.of_nat (List.length raw_pointers1) + N.of_nat (List.length (a_text a)) + N.of_nat (List.length raw_labels)) * 4 in
  '(d2, tpool2, groups) <- emit_text e text_start text d1 tpool1 [] ;;
  let raw_pointers := raw_pointers1 ++ concat (map (fun g => isort N.leb (map (trunc_w 32) (snd g))) groups) in
  let file_size := dlen + lenN raw_cstrings + N.of_nat (List.length raw_pointers) * 4
                   + N.of_nat (List.length raw_labels) * 4 + p_len tpool2 + hsz_size in
  _ <- guard (file_size <=? lim) EOther ;;
  dsz <- add_w 32 m (trunc_w 32 dlen) (trunc_w 32 (lenN raw_cstrings)) ;;
  Ok (enc e 4 (trunc_w 32 file_size) ++ enc e 4 dsz ++ enc e 4 (trunc_w 32 (N.of_nat (List.length raw_pointers)))
      ++ enc e 4 (trunc_w 32 (N.of_nat (List.length raw_labels) / 2)) ++ zeros (N.to_nat (hsz_seek - 16))
      ++ d2 ++ raw_cstrings ++ u32s e raw_pointers ++ u32s e raw_labels ++ p_raw tpool2).

Theorem src_BIN_HEADER_agrees_serialize : forall kf m a,
  BinFormat.serialize_k kf m a = serialize_p kf (cb 8) (cb 9) (cb 10) (cb 11) m a.
Proof. intros kf m a. reflexivity. Qed.

(* reader and writer use one header size *)
Theorem src_BIN_HEADER_agrees_coherent :
  cb 0 = cb 8 /\ cb 1 = cb 8 /\ cb 2 = cb 9 /\ cb 3 = cb 9 /\ cb 4 = cb 9 /\ cb 8 = cb 9.
Proof. repeat split; reflexivity. Qed.
