(* C05, "a header or entry that declares more data, pointers, labels or file bytes than the buffer holds is rejected":
   the clauses that were missing (review item C05-2).
     pack_count_rejected           a pack header whose count declares more table entries than the buffer holds
     bin_pointer_entry_rejected    a pointer-table entry whose 4-byte cell does not lie inside the data region
     bin_label_address_rejected    a label-table entry whose address lies beyond the data region
     bin_label_offset_rejected     a label-table entry whose name offset lies beyond the file
     arc_count_rejected            an arc whose Count is larger than the number of 16-byte records that fit after Info
     layered_header_rejected       the bin header theorem (declared_sizes_rejected) carried to every reader of the form
                                   `a <- BinFormat.from_bytes e f ;; g a` (text archive, arc; aset / asset binary have the
                                   same shape), with the instances for TextFormat.from_bytes and arc_from_bytes
   "Rejected" = `exists e, ... = Err e` (the entry may sit behind an earlier defect that is reported first). *)
From Coq Require Import List NArith ZArith Bool Lia ZifyBool ZifyNat ZifyN.
From Mila Require Import Lib.Bytes Lib.BytesExtra Lib.Machine Model.BinArchive Model.BinStreams Model.BinFormat Model.Pack Model.Arc
  Proofs.BinAccess Proofs.BinAccess2 Proofs.BinFormatSpec Proofs.BinTotal Proofs.PackTotal Proofs.ArcTotal.
From Mila Require Proofs.ArcProofs.
From Mila Require Model.TextMap Model.TextFormat.
Import ListNotations.
Local Open Scope N_scope.

(* ---------------------------------------------------------------- pack: the count *)
Theorem pack_count_rejected m f count : wfb f -> u16_at BE f 4 = Some count -> 1 <= count ->
  lenN f < 8 + 16 * count -> exists e, Pack.parse m f = Err e.
Proof.
  intros W Hc H1 Hlt.
  destruct (Pack.parse m f) as [v|e|p] eqn:P; [exfalso | eauto | exfalso; exact (pack_parse_no_panic m f W p P)].
  unfold Pack.parse, parse_run in P. destruct (parse_header f) as [ms|e|p] eqn:E; cbn [snd] in P; try discriminate.
  destruct (parse_header_inv _ _ E) as (_ & c & Hc' & Hr). rewrite Hc in Hc'. inversion Hc'; subst c.
  destruct (read_metas_nth _ _ _ _ Hr) as [HL Hn].
  destruct (nth_error ms (N.to_nat (count - 1))) as [me|] eqn:Hme.
  - destruct (Hn _ _ Hme) as (_ & _ & Hs). rewrite N2Nat.id in Hs. apply u32_at_in_bounds in Hs. lia.
  - apply nth_error_None in Hme. lia.
Qed.

(* ---------------------------------------------------------------- bin archive: pointer and label entries *)
Lemma write_string_size a address v a' : write_string a address v = Ok a' -> size a' = size a.
Proof. intros H. unfold size. rewrite (keep_data_string a address v a' H). reflexivity. Qed.
Lemma write_pointer_size a address v a' : write_pointer a address v = Ok a' -> size a' = size a.
Proof. intros H. unfold size. rewrite (keep_data_pointer a address v a' H). reflexivity. Qed.

(* every entry of a pointer table that was read successfully names a 4-byte cell inside the data *)
Lemma ptr_loop_Ok_inside e f flen dsz : forall n pos a a', ptr_loop e f flen dsz n pos a = Ok a' ->
  forall j, (j < n)%nat -> exists pa, u32_at e f (pos + 4 * N.of_nat j) = Some pa /\ pa + 4 <= size a.
Proof.
  induction n as [|n IH]; intros pos a a' H j Hj; [lia|]. cbn [ptr_loop] in H. unfold u32_file in H.
  destruct (u32_at e f pos) as [pa|] eqn:Epa; cbn [of_option bind] in H; [|discriminate].
  apply bind_Ok_inv in H. destruct H as (pv & Hpv & H).
  assert (Hin : pa + 4 <= size a).
  { destruct (proj1 (read_uint_ok_iff a pa 4) (ex_intro _ pv Hpv)) as [_ Hle]. change (N.of_nat 4) with 4 in Hle. exact Hle. }
  assert (Hnext : exists a1, size a1 = size a /\ ptr_loop e f flen dsz n (pos + 4) a1 = Ok a').
  { destruct (dsz <? pv).
    - apply bind_Ok_inv in H. destruct H as (s & _ & H). apply bind_Ok_inv in H. destruct H as (a1 & Hw & H).
      exists a1. split; [exact (write_string_size _ _ _ _ Hw) | exact H].
    - apply bind_Ok_inv in H. destruct H as (a1 & Hw & H). exists a1. split; [exact (write_pointer_size _ _ _ _ Hw) | exact H]. }
  destruct Hnext as (a1 & Hs & Hl). destruct j as [|j].
  - exists pa. split; [replace (pos + 4 * N.of_nat 0) with pos by lia; exact Epa | exact Hin].
  - destruct (IH _ _ _ Hl j ltac:(lia)) as (pa' & H1 & H2). exists pa'. split; [|lia].
    replace (pos + 4 * N.of_nat (S j)) with (pos + 4 + 4 * N.of_nat j) by lia. exact H1.
Qed.
Lemma ptr_loop_size e f flen dsz : forall n pos a a', ptr_loop e f flen dsz n pos a = Ok a' -> size a' = size a.
Proof. intros n pos a a' H. destruct (ptr_loop_keeps _ _ _ _ _ _ _ _ H) as [D _]. unfold size. rewrite D. reflexivity. Qed.

(* every entry of a label table that was read successfully has its address within the data (the end included) and its
   name offset inside the file *)
Lemma lbl_loop_Ok_inside e f flen tstart : forall n pos a a', lbl_loop e f flen tstart n pos a = Ok a' ->
  forall j, (j < n)%nat -> exists addr off, u32_at e f (pos + 8 * N.of_nat j) = Some addr /\ u32_at e f (pos + 8 * N.of_nat j + 4) = Some off /\
    addr <= size a /\ tstart + off + 32 < flen.
Proof.
  induction n as [|n IH]; intros pos a a' H j Hj; [lia|]. cbn [lbl_loop] in H. unfold u32_file in H.
  destruct (u32_at e f pos) as [addr|] eqn:Ea; cbn [of_option bind] in H; [|discriminate].
  destruct (u32_at e f (pos + 4)) as [off|] eqn:Eo; cbn [of_option bind] in H; [|discriminate].
  apply bind_Ok_inv in H. destruct H as (s & Hs & H).
  assert (Hoff : tstart + off + 32 < flen).
  { unfold string_at in Hs. destruct (N.ltb_spec (tstart + off + 32) flen); [assumption | discriminate]. }
  apply bind_Ok_inv in H. destruct H as (u & Hv & H).
  assert (Haddr : addr <= size a).
  { rewrite validate_address_true in Hv. destruct (N.leb_spec addr (size a)); [assumption | discriminate]. }
  destruct j as [|j].
  - exists addr, off. replace (pos + 8 * N.of_nat 0) with pos by lia. repeat split; assumption.
  - destruct (IH _ _ _ H j ltac:(lia)) as (addr' & off' & H1 & H2 & H3 & H4). exists addr', off'.
    replace (pos + 8 * N.of_nat (S j)) with (pos + 8 + 8 * N.of_nat j) by lia. repeat split; assumption.
Qed.

(* what from_bytes = Ok says about the header and the tables *)
Lemma from_bytes_Ok_tables e f a : BinFormat.from_bytes e f = Ok a ->
  exists dsz pc lc, u32_at e f 4 = Some dsz /\ u32_at e f 8 = Some pc /\ u32_at e f 12 = Some lc /\
    dsz + 4 * pc + 8 * lc + 32 <= lenN f /\
    (forall i, i < pc -> exists pa, u32_at e f (32 + dsz + 4 * i) = Some pa /\ pa + 4 <= dsz) /\
    (forall j, j < lc -> exists addr off, u32_at e f (32 + dsz + 4 * pc + 8 * j) = Some addr /\
        u32_at e f (32 + dsz + 4 * pc + 8 * j + 4) = Some off /\ addr <= dsz /\ dsz + 4 * pc + 8 * lc + off + 32 < lenN f).
Proof.
  unfold BinFormat.from_bytes, from_bytes_alloc, u32_file. destruct (lenN f <? 32); [discriminate|].
  destruct (u32_at e f 4) as [dsz|]; cbn [of_option bind]; [|discriminate].
  destruct (u32_at e f 8) as [pc|]; cbn [of_option bind]; [|discriminate].
  destruct (u32_at e f 12) as [lc|]; cbn [of_option bind]; [|discriminate].
  destruct (N.ltb_spec (lenN f) (dsz + 4 * pc + 8 * lc + 32)) as [T|T]; [discriminate|].
  destruct (sliceN 32 dsz f) as [d|] eqn:Ed; cbn [of_option bind]; [|discriminate].
  destruct (ptr_loop _ _ _ _ _ _ _) as [a1|x|p] eqn:E1; cbn [bind]; try discriminate.
  destruct (lbl_loop _ _ _ _ _ _ _) as [a2|x|p] eqn:E2; cbn [bind]; try discriminate.
  intros _. exists dsz, pc, lc. split; [reflexivity|]. split; [reflexivity|]. split; [reflexivity|]. split; [exact T|].
  assert (Hd : lenN d = dsz) by (eapply sliceN_length; exact Ed).
  split.
  - intros i Hi. destruct (ptr_loop_Ok_inside _ _ _ _ _ _ _ _ E1 (N.to_nat i) ltac:(lia)) as (pa & H1 & H2).
    rewrite N2Nat.id in H1. exists pa. split; [exact H1|]. unfold size in H2. cbn [a_data] in H2. lia.
  - intros j Hj. destruct (lbl_loop_Ok_inside _ _ _ _ _ _ _ _ E2 (N.to_nat j) ltac:(lia)) as (addr & off & H1 & H2 & H3 & H4).
    rewrite N2Nat.id in H1, H2. exists addr, off. repeat split; try assumption.
    rewrite (ptr_loop_size _ _ _ _ _ _ _ _ E1) in H3. unfold size in H3. cbn [a_data] in H3. lia.
Qed.

Section BinEntries.
  Variables (e : endian) (f : bytes) (dsz pc lc : N).
  Hypothesis H4 : u32_at e f 4 = Some dsz.
  Hypothesis H8 : u32_at e f 8 = Some pc.
  Hypothesis H12 : u32_at e f 12 = Some lc.

  Lemma not_Ok_is_Err : (forall a, BinFormat.from_bytes e f <> Ok a) -> exists er, BinFormat.from_bytes e f = Err er.
  Proof.
    intros H. destruct (BinFormat.from_bytes e f) as [a|er|p] eqn:E; [exfalso; exact (H a eq_refl) | eauto | exfalso; exact (from_bytes_no_panic e f p E)].
  Qed.

  (* entry i of the pointer table names a cell that does not lie inside the data region *)
  Theorem bin_pointer_entry_rejected i pa : i < pc -> u32_at e f (32 + dsz + 4 * i) = Some pa -> dsz < pa + 4 ->
    exists er, BinFormat.from_bytes e f = Err er.
  Proof.
    intros Hi Hpa Hout. apply not_Ok_is_Err. intros a Ha.
    destruct (from_bytes_Ok_tables e f a Ha) as (dsz' & pc' & lc' & E4 & E8 & E12 & _ & Hp & _).
    rewrite H4 in E4. rewrite H8 in E8. rewrite H12 in E12. inversion E4; inversion E8; inversion E12; subst.
    destruct (Hp i Hi) as (pa' & H1 & H2). rewrite Hpa in H1. inversion H1; subst. lia.
  Qed.
  (* entry j of the label table puts a label beyond the end of the data region *)
  Theorem bin_label_address_rejected j addr : j < lc -> u32_at e f (32 + dsz + 4 * pc + 8 * j) = Some addr -> dsz < addr ->
    exists er, BinFormat.from_bytes e f = Err er.
  Proof.
    intros Hj Haddr Hout. apply not_Ok_is_Err. intros a Ha.
    destruct (from_bytes_Ok_tables e f a Ha) as (dsz' & pc' & lc' & E4 & E8 & E12 & _ & _ & Hl).
    rewrite H4 in E4. rewrite H8 in E8. rewrite H12 in E12. inversion E4; inversion E8; inversion E12; subst.
    destruct (Hl j Hj) as (addr' & off & H1 & _ & H3 & _). rewrite Haddr in H1. inversion H1; subst. lia.
  Qed.
  (* entry j of the label table names a string that starts at or beyond the end of the file *)
  Theorem bin_label_offset_rejected j off : j < lc -> u32_at e f (32 + dsz + 4 * pc + 8 * j + 4) = Some off ->
    lenN f <= dsz + 4 * pc + 8 * lc + off + 32 -> exists er, BinFormat.from_bytes e f = Err er.
  Proof.
    intros Hj Hoff Hout. apply not_Ok_is_Err. intros a Ha.
    destruct (from_bytes_Ok_tables e f a Ha) as (dsz' & pc' & lc' & E4 & E8 & E12 & _ & _ & Hl).
    rewrite H4 in E4. rewrite H8 in E8. rewrite H12 in E12. inversion E4; inversion E8; inversion E12; subst.
    destruct (Hl j Hj) as (addr & off' & _ & H2 & _ & H4'). rewrite Hoff in H2. inversion H2; subst. lia.
  Qed.
End BinEntries.

(* ---------------------------------------------------------------- the header theorem, carried to the layered readers *)
(* generic shape: any reader that starts with BinArchive::from_bytes *)
Theorem layered_header_rejected {A} (g : archive -> outcome A) e f dsz pc lc :
  u32_at e f 4 = Some dsz -> u32_at e f 8 = Some pc -> u32_at e f 12 = Some lc ->
  lenN f < dsz + 4 * pc + 8 * lc + 32 -> (a <- BinFormat.from_bytes e f ;; g a) = Err ETooSmall.
Proof. intros H4 H8 H12 Hlt. rewrite (declared_sizes_rejected e f dsz pc lc H4 H8 H12 Hlt). reflexivity. Qed.
(* ... and any error of the bin parser is the error of the layered reader *)
Theorem layered_error_passes {A} (g : archive -> outcome A) e f er :
  BinFormat.from_bytes e f = Err er -> (a <- BinFormat.from_bytes e f ;; g a) = Err er.
Proof. intros H. rewrite H. reflexivity. Qed.

Theorem text_header_rejected fmt e f dsz pc lc :
  u32_at e f 4 = Some dsz -> u32_at e f 8 = Some pc -> u32_at e f 12 = Some lc ->
  lenN f < dsz + 4 * pc + 8 * lc + 32 -> TextFormat.from_bytes fmt e f = Err ETooSmall.
Proof. apply (layered_header_rejected (TextFormat.from_archive fmt)). Qed.
Theorem arc_header_rejected m f dsz pc lc :
  u32_at LE f 4 = Some dsz -> u32_at LE f 8 = Some pc -> u32_at LE f 12 = Some lc ->
  lenN f < dsz + 4 * pc + 8 * lc + 32 -> arc_from_bytes m f = Err ETooSmall.
Proof. apply (layered_header_rejected (arc_from_archive m)). Qed.
Theorem text_short_rejected fmt e f : lenN f < 32 -> TextFormat.from_bytes fmt e f = Err ETooSmall.
Proof.
  intros H. unfold TextFormat.from_bytes, BinFormat.from_bytes, from_bytes_alloc. destruct (N.ltb_spec (lenN f) 32); [reflexivity | lia].
Qed.
Theorem arc_short_rejected m f : lenN f < 32 -> arc_from_bytes m f = Err ETooSmall.
Proof.
  intros H. unfold arc_from_bytes, BinFormat.from_bytes, from_bytes_alloc. destruct (N.ltb_spec (lenN f) 32); [reflexivity | lia].
Qed.

(* ---------------------------------------------------------------- arc: Count larger than the table that fits *)
Lemma entry_loop_Ok_fits a pad : forall fuel remaining pos acc ents,
  entry_loop fuel a remaining pos pad acc = Ok ents -> remaining = 0 \/ pos + 16 * remaining <= size a.
Proof.
  induction fuel as [|fu IH]; intros remaining pos acc ents H; cbn [entry_loop] in H;
    destruct (N.eqb_spec remaining 0) as [Z|Z]; try (left; exact Z); [discriminate|].
  destruct (read_entry_total a pos pad) as [_ S'].
  destruct (read_entry a pos pad) as [[en|er|k] p] eqn:E; try discriminate.
  destruct (S' en p eq_refl) as [-> Hle]. destruct (IH _ _ _ _ H) as [Z'|L]; right; lia.
Qed.

(* the Count word says n >= 1 records but n 16-byte records do not fit between the Info address and the end of the data
   region: some error is reported (out of bounds from the record that leaves the data, or an earlier one) *)
Theorem arc_count_rejected m a c i n :
  find_label_address a COUNT = Some c -> find_label_address a INFO = Some i ->
  read_u32 a c = Ok n -> 1 <= n -> size a < i + 16 * n -> exists er, arc_from_archive m a = Err er.
Proof.
  intros Hc Hi Hn H1 Hout.
  destruct (arc_from_archive m a) as [r|er|k] eqn:E; [exfalso | eauto | exfalso; exact (arc_from_archive_no_panic m a k E)].
  unfold arc_from_archive in E. apply bind_Ok_inv in E. destruct E as (tr & E & _).
  unfold arc_trace in E. rewrite Hc, Hi in E. cbn [of_option bind] in E.
  apply bind_Ok_inv in E. destruct E as (w0 & _ & E).
  unfold r_read_u32 in E. rewrite ArcProofs.fst_rd, Hn in E. cbn [bind] in E.
  apply bind_Ok_inv in E. destruct E as (ents & E & _).
  destruct (entry_loop_Ok_fits _ _ _ _ _ _ _ E) as [Z|L]; lia.
Qed.
Theorem arc_file_count_rejected m f a c i n : BinFormat.from_bytes LE f = Ok a ->
  find_label_address a COUNT = Some c -> find_label_address a INFO = Some i ->
  read_u32 a c = Ok n -> 1 <= n -> size a < i + 16 * n -> exists er, arc_from_bytes m f = Err er.
Proof.
  intros Hp Hc Hi Hn H1 Hout. unfold arc_from_bytes. rewrite Hp. cbn [bind]. eapply arc_count_rejected; eassumption.
Qed.
