(* str::encode_utf16 and the UTF-16 decoder of src/encoded_strings.rs are mutually inverse between
   lists of Unicode scalar values and well-formed unit sequences (Model/TextCodec.v). *)
From Coq Require Import List NArith ZArith Bool Lia ZifyBool ZifyNat ZifyN.
From Mila Require Import Lib.Bytes Lib.Machine Model.TextMap Model.TextFormat Model.TextCodec Proofs.TextFormatRead.
Import ListNotations.
Local Open Scope N_scope.
Ltac Zify.zify_post_hook ::= Z.div_mod_to_equations.

(* a Unicode scalar value: a code point that is not a surrogate *)
Definition scalar (c : N) : Prop := (c < 0xD800 \/ 0xE000 <= c) /\ c < 0x110000.

Lemma is_high_spec u : is_high u = true <-> 0xD800 <= u <= 0xDBFF.
Proof. unfold is_high. rewrite andb_true_iff, !N.leb_le. tauto. Qed.
Lemma is_low_spec u : is_low u = true <-> 0xDC00 <= u <= 0xDFFF.
Proof. unfold is_low. rewrite andb_true_iff, !N.leb_le. tauto. Qed.
Lemma is_high_false u : is_high u = false <-> (u < 0xD800 \/ 0xDBFF < u).
Proof. unfold is_high. rewrite andb_false_iff, !N.leb_gt. tauto. Qed.
Lemma is_low_false u : is_low u = false <-> (u < 0xDC00 \/ 0xDFFF < u).
Proof. unfold is_low. rewrite andb_false_iff, !N.leb_gt. tauto. Qed.

(* ---- one character ---- *)
Lemma decode_encode_char c r : scalar c -> utf16_decode (encode_char c ++ r) = option_map (cons c) (utf16_decode r).
Proof.
  intros (Hs & Hm). unfold encode_char. destruct (N.ltb_spec c 0x10000) as [L|L]; cbn [app utf16_decode].
  - assert (Hh : is_high c = false) by (apply is_high_false; lia).
    assert (Hl : is_low c = false) by (apply is_low_false; lia). rewrite Hh, Hl. reflexivity.
  - set (v := c - 0x10000).
    assert (Hv : v < 0x100000) by (unfold v; lia).
    assert (Hh : is_high (0xD800 + v / 0x400) = true) by (apply is_high_spec; lia).
    assert (Hl : is_low (0xDC00 + v mod 0x400) = true) by (apply is_low_spec; lia).
    rewrite Hh, Hl. f_equal. f_equal. unfold v. lia.
Qed.
Lemma valid_encode_char c r : scalar c -> utf16_valid (encode_char c ++ r) = utf16_valid r.
Proof.
  intros (Hs & Hm). unfold encode_char. destruct (N.ltb_spec c 0x10000) as [L|L]; cbn [app utf16_valid].
  - assert (Hh : is_high c = false) by (apply is_high_false; lia).
    assert (Hl : is_low c = false) by (apply is_low_false; lia). rewrite Hh, Hl. reflexivity.
  - set (v := c - 0x10000).
    assert (Hv : v < 0x100000) by (unfold v; lia).
    assert (Hh : is_high (0xD800 + v / 0x400) = true) by (apply is_high_spec; lia).
    assert (Hl : is_low (0xDC00 + v mod 0x400) = true) by (apply is_low_spec; lia).
    rewrite Hh, Hl. reflexivity.
Qed.
Lemma units_encode_char c : scalar c -> c <> 0 -> Forall unit_ok (encode_char c).
Proof.
  intros (Hs & Hm) Hz. unfold encode_char, unit_ok. destruct (N.ltb_spec c 0x10000) as [L|L].
  - constructor; [lia | constructor].
  - constructor; [lia|]. constructor; [lia | constructor].
Qed.

(* ---- strings ---- *)
Theorem utf16_decode_encode s : Forall scalar s -> utf16_decode (utf16_encode s) = Some s.
Proof.
  induction 1 as [|c r Hc Hr IH]; [reflexivity|]. cbn [utf16_encode flat_map].
  rewrite decode_encode_char by exact Hc. fold (utf16_encode r). rewrite IH. reflexivity.
Qed.
Theorem utf16_encode_valid s : Forall scalar s -> utf16_valid (utf16_encode s) = true.
Proof.
  induction 1 as [|c r Hc Hr IH]; [reflexivity|]. cbn [utf16_encode flat_map].
  rewrite valid_encode_char by exact Hc. exact IH.
Qed.
Theorem utf16_encode_units s : Forall scalar s -> ~ In 0 s -> Forall unit_ok (utf16_encode s).
Proof.
  induction 1 as [|c r Hc Hr IH]; intros Hz; [constructor|]. cbn [utf16_encode flat_map]. apply Forall_app. split.
  - apply units_encode_char; [exact Hc|]. intros E. apply Hz. left. exact E.
  - apply IH. intros Hin. apply Hz. right. exact Hin.
Qed.
(* to_utf_16 of a NUL-free Rust string is in the domain of the C06 round trip *)
Theorem utf16_encode_wf_msg s : Forall scalar s -> ~ In 0 s -> wf_msg Unicode (utf16_encode s).
Proof. intros Hs Hz. split; [apply utf16_encode_units | apply utf16_encode_valid]; assumption. Qed.

(* the converse: every well-formed unit sequence is the encoding of exactly one scalar string (so the units the
   C06 theorems quantify over are exactly the Rust strings) *)
Theorem utf16_valid_decodes : forall n us, (length us <= n)%nat ->
  Forall (fun u => u < 65536) us -> utf16_valid us = true ->
  exists s, utf16_decode us = Some s /\ Forall scalar s /\ utf16_encode s = us.
Proof.
  induction n as [|n IH]; intros us Hn Hu Hv.
  - destruct us; [|cbn in Hn; lia]. exists []. repeat split. constructor.
  - destruct us as [|u r]; [exists []; repeat split; constructor|].
    inversion Hu as [|? ? Hu1 Hur]; subst. cbn [utf16_valid utf16_decode] in *.
    destruct (is_high u) eqn:Hh.
    + destruct r as [|l r']; [discriminate|]. apply andb_true_iff in Hv. destruct Hv as [Hl Hv]. rewrite Hl.
      inversion Hur as [|? ? Hl1 Hur']; subst.
      destruct (IH r' ltac:(cbn [length] in Hn; lia) Hur' Hv) as (s & Hd & Hs & He).
      apply is_high_spec in Hh. apply is_low_spec in Hl.
      exists ((0x10000 + (u - 0xD800) * 0x400 + (l - 0xDC00)) :: s). rewrite Hd. split; [reflexivity|]. split.
      * constructor; [|exact Hs]. unfold scalar. lia.
      * cbn [utf16_encode flat_map]. fold (utf16_encode s). rewrite He. unfold encode_char.
        destruct (N.ltb_spec (0x10000 + (u - 0xD800) * 0x400 + (l - 0xDC00)) 0x10000) as [C|C]; [lia|].
        cbn [app]. f_equal; [lia|]. f_equal. lia.
    + destruct (is_low u) eqn:Hl; [discriminate|].
      destruct (IH r ltac:(cbn [length] in Hn; lia) Hur Hv) as (s & Hd & Hs & He).
      apply is_high_false in Hh. apply is_low_false in Hl.
      exists (u :: s). rewrite Hd. split; [reflexivity|]. split.
      * constructor; [|exact Hs]. unfold scalar. lia.
      * cbn [utf16_encode flat_map]. fold (utf16_encode s). rewrite He. unfold encode_char.
        destruct (N.ltb_spec u 0x10000) as [C|C]; [reflexivity | lia].
Qed.
Theorem utf16_invalid_rejected us : utf16_valid us = false -> utf16_decode us = None.
Proof.
  remember (length us) as n eqn:Hn. revert us Hn. induction n as [n IH] using lt_wf_ind. intros us Hn Hv.
  destruct us as [|u r]; [discriminate|]. cbn [utf16_valid utf16_decode] in *.
  destruct (is_high u).
  - destruct r as [|l r']; [reflexivity|]. destruct (is_low l); [|reflexivity]. cbn [andb] in Hv.
    rewrite (IH (length r') ltac:(subst n; cbn [length]; lia) r' eq_refl Hv). reflexivity.
  - destruct (is_low u); [reflexivity|]. rewrite (IH (length r) ltac:(subst n; cbn [length]; lia) r eq_refl Hv). reflexivity.
Qed.

Theorem utf16_valid_is_encoding us : Forall (fun u => u < 65536) us -> utf16_valid us = true ->
  exists s, utf16_decode us = Some s /\ Forall scalar s /\ utf16_encode s = us.
Proof. apply (utf16_valid_decodes (length us) us). apply le_n. Qed.
Theorem utf16_codec s : Forall scalar s -> utf16_decode (utf16_encode s) = Some s /\ utf16_valid (utf16_encode s) = true.
Proof. intros H. split; [apply utf16_decode_encode | apply utf16_encode_valid]; exact H. Qed.
