(* C18, part 2: what compute_flags computes, for ANY well-formed common schema:
   bit (byte, bit) of the flag bytes is set iff the entry owning that bit is present; the short
   form (4 flag bytes) is chosen iff no extended entry is present; the long-form marker is bit 0
   of byte 0; the announced record size is |flags| + 4 + 4 * (number of present entries), which
   is also 4 * popcount of the flag bytes without the marker. *)
From Coq Require Import List NArith ZArith Bool Lia ZifyBool ZifyNat ZifyN Arith.
From Mila Require Import Lib.Bytes Lib.Machine Model.BinArchive Model.BinStreams Model.AssetBin Proofs.AssetBinSchema.
Import ListNotations.
Local Open Scope N_scope.
Ltac Zify.zify_post_hook ::= Z.div_mod_to_equations.

Definition present (sp : spec) (e : centry) : bool :=
  match e with
  | CS t _ _ => match get_str sp t with Some _ => true | None => false end
  | CT t _ _ _ => get_use sp t
  end.
Fixpoint count_present (sp : spec) (es : list centry) : N :=
  match es with [] => 0 | e :: r => (if present sp e then 1 else 0) + count_present sp r end.
Lemma count_present_app sp a b : count_present sp (a ++ b) = count_present sp a + count_present sp b.
Proof. induction a as [|e r IH]; cbn [app count_present]; [reflexivity | rewrite IH; lia]. Qed.
Lemma count_present_0 sp es : (forall e, In e es -> present sp e = false) -> count_present sp es = 0.
Proof.
  induction es as [|e r IH]; cbn [count_present]; intros H; [reflexivity|].
  rewrite (H e (or_introl eq_refl)), IH; [reflexivity|]. intros e' He'. apply H. right. exact He'.
Qed.

(* ---- raw flags as a fold over the common schema ---- *)
Definition fstep (sp : spec) (fl : list N) (e : centry) : list N :=
  upd (ce_byte e) (fun b => N.lor b (if present sp e then 2 ^ ce_bit e else 0)) fl.
Lemma raw_flags_fold sp es : raw_flags_with (map fproj es) sp = fold_left (fstep sp) es (repeat 0 8%nat).
Proof.
  unfold raw_flags_with. generalize (repeat 0 8%nat). induction es as [|e r IH]; intros fl; cbn [map fold_left]; [reflexivity|].
  rewrite IH. f_equal. destruct e; reflexivity.
Qed.
Lemma length_fold_fstep sp es fl : length (fold_left (fstep sp) es fl) = length fl.
Proof. revert fl; induction es as [|e r IH]; intros fl; cbn [fold_left]; [reflexivity|]. rewrite IH. apply length_upd. Qed.

Definition owns (byte : nat) (bit : N) (sp : spec) (e : centry) : bool :=
  andb (andb (ce_byte e =? byte)%nat (ce_bit e =? bit)) (present sp e).

Lemma fold_fstep_bits sp : forall es fl byte bit,
  (forall e, In e es -> (ce_byte e < length fl)%nat) ->
  N.testbit (nth byte (fold_left (fstep sp) es fl) 0) bit
  = orb (N.testbit (nth byte fl 0) bit) (existsb (owns byte bit sp) es).
Proof.
  induction es as [|e r IH]; intros fl byte bit Hb; cbn [fold_left existsb]; [rewrite orb_false_r; reflexivity|].
  rewrite IH. 2:{ intros e' He'. unfold fstep. rewrite length_upd. apply Hb. right. exact He'. }
  rewrite orb_assoc. f_equal. unfold fstep, owns.
  destruct (Nat.eqb_spec (ce_byte e) byte) as [E|E]; cbn [andb].
  - subst byte. rewrite nth_upd_same by (apply Hb; left; reflexivity). rewrite testbit_lor_mask.
    f_equal. rewrite andb_comm. reflexivity.
  - rewrite nth_upd_other by congruence. rewrite orb_false_r. reflexivity.
Qed.

Section Schema.
Variables (cb ce : list centry).
Hypothesis WF : schema_wf cb ce.
Variable sp : spec.

Let all := cb ++ ce.
Definition raw_flags : list N := raw_flags_with (map fproj (cb ++ ce)) sp.

Lemma all_bytes e : In e (cb ++ ce) -> (ce_byte e <= 6)%nat /\ ce_bit e < 8.
Proof.
  intros H. apply in_app_iff in H. destruct H as [H|H].
  - destruct (sw_base _ _ WF e H). lia.
  - destruct (sw_ext _ _ WF e H). lia.
Qed.
Lemma length_raw_flags : length raw_flags = 8%nat.
Proof. unfold raw_flags. rewrite raw_flags_fold, length_fold_fstep. reflexivity. Qed.

Lemma raw_bits byte bit :
  N.testbit (nth byte raw_flags 0) bit = existsb (owns byte bit sp) (cb ++ ce).
Proof.
  unfold raw_flags. rewrite raw_flags_fold, fold_fstep_bits.
  - replace (nth byte (repeat 0 8%nat) 0) with 0; [rewrite N.bits_0; reflexivity|].
    do 9 (destruct byte as [|byte]; [reflexivity|]). destruct byte; reflexivity.
  - intros e He. rewrite repeat_length. destruct (all_bytes e He). lia.
Qed.

(* the bit of an entry says whether the entry is present *)
Lemma raw_bit_entry e : In e (cb ++ ce) -> N.testbit (nth (ce_byte e) raw_flags 0) (ce_bit e) = present sp e.
Proof.
  intros He. rewrite raw_bits. destruct (present sp e) eqn:P.
  - apply existsb_exists. exists e. split; [exact He|]. unfold owns. rewrite P, Nat.eqb_refl, N.eqb_refl. reflexivity.
  - destruct (existsb (owns (ce_byte e) (ce_bit e) sp) (cb ++ ce)) eqn:X; [|reflexivity].
    apply existsb_exists in X. destruct X as (e' & He' & O). unfold owns in O.
    apply andb_true_iff in O. destruct O as [O P']. apply andb_true_iff in O. destruct O as [O1 O2].
    apply Nat.eqb_eq in O1. apply N.eqb_eq in O2.
    assert (e' = e).
    { apply (NoDup_map_inj ce_pair (cb ++ ce)); [exact (sw_nodup _ _ WF) | exact He' | exact He|].
      unfold ce_pair. congruence. }
    subst e'. congruence.
Qed.
(* a bit nobody owns is clear *)
Lemma raw_bit_free byte bit : (forall e, In e (cb ++ ce) -> ce_pair e <> (byte, bit)) -> N.testbit (nth byte raw_flags 0) bit = false.
Proof.
  intros H. rewrite raw_bits. destruct (existsb (owns byte bit sp) (cb ++ ce)) eqn:X; [|reflexivity].
  apply existsb_exists in X. destruct X as (e & He & O). unfold owns in O.
  apply andb_true_iff in O. destruct O as [O _]. apply andb_true_iff in O. destruct O as [O1 O2].
  apply Nat.eqb_eq in O1. apply N.eqb_eq in O2. exfalso. apply (H e He). unfold ce_pair. congruence.
Qed.
Lemma raw_marker_clear : N.testbit (nth 0 raw_flags 0) 0 = false.
Proof. apply raw_bit_free. intros e He. exact (sw_marker _ _ WF e He). Qed.
Lemma raw_byte_zero byte : (forall e, In e (cb ++ ce) -> present sp e = true -> ce_byte e <> byte) -> nth byte raw_flags 0 = 0.
Proof.
  intros H. apply N.bits_inj. intros bit. rewrite N.bits_0, raw_bits.
  destruct (existsb (owns byte bit sp) (cb ++ ce)) eqn:X; [|reflexivity].
  apply existsb_exists in X. destruct X as (e & He & O). unfold owns in O.
  apply andb_true_iff in O. destruct O as [O P]. apply andb_true_iff in O. destruct O as [O1 _].
  apply Nat.eqb_eq in O1. exfalso. exact (H e He P O1).
Qed.
Lemma raw_byte_small byte : nth byte raw_flags 0 < 256.
Proof.
  change 256 with (2 ^ 8). apply small_of_bits. intros j Hj. apply raw_bit_free.
  intros e He E. destruct (all_bytes e He) as [_ Hb]. unfold ce_pair in E. inversion E; subst. lia.
Qed.

(* ---- short / long ---- *)
Definition short : bool :=
  andb (andb (nth 4 raw_flags 0 =? 0) (nth 5 raw_flags 0 =? 0)) (nth 6 raw_flags 0 =? 0).

Lemma short_iff : short = true <-> (forall e, In e ce -> present sp e = false).
Proof.
  unfold short. rewrite !andb_true_iff, !N.eqb_eq. split.
  - intros [[H4 H5] H6] e He.
    assert (Hin : In e (cb ++ ce)) by (apply in_app_iff; right; exact He).
    rewrite <- (raw_bit_entry e Hin). destruct (sw_ext _ _ WF e He) as [Hb _].
    assert (ce_byte e = 4 \/ ce_byte e = 5 \/ ce_byte e = 6)%nat as [E|[E|E]] by lia; rewrite E, ?H4, ?H5, ?H6; apply N.bits_0.
  - intros H.
    assert (Z : forall byte, (4 <= byte)%nat -> nth byte raw_flags 0 = 0).
    { intros byte Hb. apply raw_byte_zero. intros e He P E. apply in_app_iff in He. destruct He as [He|He].
      - destruct (sw_base _ _ WF e He). lia.
      - rewrite (H e He) in P. discriminate. }
    repeat split; apply Z; lia.
Qed.

Definition flags : list N := fst (compute_flags_with (map fproj (cb ++ ce)) sp).
Definition long : bool := 4 <? lenN flags.

Lemma flags_eq :
  flags = if short then firstn 4 raw_flags else upd 0 (fun b => N.lor b 1) raw_flags.
Proof.
  unfold flags, compute_flags_with. fold raw_flags. fold short. cbn [fst].
  pose proof length_raw_flags as L. destruct short.
  - assert (E : lenN (firstn 4 raw_flags) = 4) by (unfold lenN; rewrite firstn_length; lia).
    rewrite E. reflexivity.
  - assert (E : lenN raw_flags = 8) by (unfold lenN; lia). rewrite E. reflexivity.
Qed.
Lemma length_flags : length flags = if short then 4%nat else 8%nat.
Proof. rewrite flags_eq. pose proof length_raw_flags as L. destruct short; [rewrite firstn_length; lia | rewrite length_upd; exact L]. Qed.
Lemma long_eq : long = negb short.
Proof. unfold long, lenN. rewrite length_flags. destruct short; reflexivity. Qed.
Lemma flags_nonempty : exists f0 rest, flags = f0 :: rest /\ length rest = if short then 3%nat else 7%nat.
Proof.
  pose proof length_flags as L. destruct flags as [|f0 rest]; [destruct short; discriminate|].
  exists f0, rest. split; [reflexivity|]. cbn [length] in L. destruct short; lia.
Qed.

(* the marker bit *)
Lemma flags_marker : N.testbit (nth 0 flags 0) 0 = long.
Proof.
  rewrite long_eq, flags_eq. pose proof length_raw_flags as L. destruct short; cbn [negb].
  - destruct raw_flags as [|r0 r] eqn:E; [discriminate|]. cbn [firstn nth]. pose proof raw_marker_clear as M. rewrite E in M. exact M.
  - rewrite nth_upd_same by lia. rewrite N.lor_spec. change 1 with (2 ^ 0). rewrite N.pow2_bits_true. apply orb_true_r.
Qed.

(* the bit of an entry in the final flag bytes (base entries always; extended entries in the long form) *)
Lemma flags_bit_entry e :
  In e (cb ++ ce) -> (ce_byte e < length flags)%nat ->
  N.testbit (nth (ce_byte e) flags 0) (ce_bit e) = present sp e.
Proof.
  intros He Hlen. rewrite <- (raw_bit_entry e He). rewrite length_flags in Hlen. rewrite flags_eq.
  pose proof length_raw_flags as L. destruct short.
  - f_equal. clear -Hlen L. revert Hlen. generalize (ce_byte e). intros n Hn.
    destruct raw_flags as [|r0 [|r1 [|r2 [|r3 r]]]]; cbn [length] in L; try lia.
    do 4 (destruct n as [|n]; [reflexivity|]). lia.
  - destruct (Nat.eq_dec (ce_byte e) 0) as [E|E].
    + rewrite E. rewrite nth_upd_same by lia. apply testbit_lor_1.
      intros B. apply (sw_marker _ _ WF e He). unfold ce_pair. congruence.
    + rewrite nth_upd_other by congruence. reflexivity.
Qed.
Lemma flags_base_len e : In e cb -> (ce_byte e < length flags)%nat.
Proof. intros He. destruct (sw_base _ _ WF e He). rewrite length_flags. destruct short; lia. Qed.
Lemma flags_ext_len e : In e ce -> long = true -> (ce_byte e < length flags)%nat.
Proof. intros He Hl. destruct (sw_ext _ _ WF e He). rewrite length_flags. rewrite long_eq in Hl. destruct short; [discriminate | lia]. Qed.
Lemma flags_small : Forall (fun b => b < 256) flags.
Proof.
  rewrite flags_eq. apply Forall_forall. intros x Hx. destruct short.
  - apply In_firstn' in Hx. apply (In_nth _ _ 0) in Hx. destruct Hx as (n & _ & <-). apply raw_byte_small.
  - apply (In_nth _ _ 0) in Hx. destruct Hx as (n & Hn & <-). rewrite length_upd in Hn.
    destruct n as [|n].
    + rewrite nth_upd_same by lia. change 256 with (2 ^ 8). apply small_of_bits. intros j Hj.
      rewrite testbit_lor_1 by lia. apply raw_bit_free.
      intros e He E. destruct (all_bytes e He) as [_ Hb]. unfold ce_pair in E. inversion E; subst. lia.
    + rewrite nth_upd_other by lia. apply raw_byte_small.
Qed.

(* ================================================================== popcount and the announced size *)
Fixpoint bitsum (b : N) (l : list N) : N :=
  match l with [] => 0 | i :: r => (if N.testbit b i then 1 else 0) + bitsum b r end.
Definition bits8 : list N := [0; 1; 2; 3; 4; 5; 6; 7].

Lemma count_bits_spec b : count_bits b = bitsum b bits8.
Proof.
  unfold count_bits. fold bits8.
  assert (G : forall l c, fold_left (fun count i => if N.land b (N.shiftl 1 i) =? 0 then count else count + 1) l c = c + bitsum b l).
  { induction l as [|i r IH]; intros c; cbn [fold_left bitsum]; [lia|]. rewrite IH, shiftl_1, land_pow2_eq0.
    destruct (N.testbit b i); cbn [negb]; lia. }
  rewrite G. lia.
Qed.
Lemma bitsum_lor_other b k l : ~ In k l -> bitsum (N.lor b (2 ^ k)) l = bitsum b l.
Proof.
  induction l as [|i r IH]; cbn [bitsum In]; intros H; [reflexivity|].
  rewrite IH by tauto. rewrite N.lor_spec, N.pow2_bits_eqb.
  destruct (N.eqb_spec k i); [exfalso; apply H; left; congruence|]. rewrite orb_false_r. reflexivity.
Qed.
Lemma bitsum_lor_fresh b k l : NoDup l -> In k l -> N.testbit b k = false -> bitsum (N.lor b (2 ^ k)) l = bitsum b l + 1.
Proof.
  induction l as [|i r IH]; cbn [bitsum In]; intros ND Hin Hb; [tauto|].
  inversion ND as [|? ? Hn ND']; subst. rewrite N.lor_spec, N.pow2_bits_eqb.
  destruct Hin as [E|Hin].
  - subst i. rewrite Hb, N.eqb_refl. cbn [orb]. rewrite bitsum_lor_other by exact Hn. lia.
  - destruct (N.eqb_spec k i) as [E|E]; [subst; tauto|]. rewrite orb_false_r, IH by assumption. lia.
Qed.
Lemma count_bits_lor_fresh b k : k < 8 -> N.testbit b k = false -> count_bits (N.lor b (2 ^ k)) = count_bits b + 1.
Proof.
  intros Hk Hb. rewrite !count_bits_spec. apply bitsum_lor_fresh; [|unfold bits8; cbn [In]; lia | exact Hb].
  unfold bits8. repeat (constructor; [cbn [In]; lia|]). constructor.
Qed.
Lemma count_bits_0 : count_bits 0 = 0.
Proof. reflexivity. Qed.

Fixpoint cnt (fl : list N) : N := match fl with [] => 0 | f :: r => count_bits f + cnt r end.
Lemma cnt_upd n f fl : (n < length fl)%nat -> cnt (upd n f fl) + count_bits (nth n fl 0) = cnt fl + count_bits (f (nth n fl 0)).
Proof.
  revert n; induction fl as [|x r IH]; intros [|n]; cbn [length upd cnt nth]; intros H; try lia.
  specialize (IH n ltac:(lia)). lia.
Qed.
Lemma size_fold fl s0 : fold_left (fun size flag => size + count_bits flag * 4) fl s0 = s0 + 4 * cnt fl.
Proof. revert s0; induction fl as [|x r IH]; intros s0; cbn [fold_left cnt]; [lia | rewrite IH; lia]. Qed.

Lemma cnt_fold_fstep : forall es fl,
  (forall e, In e es -> (ce_byte e < length fl)%nat /\ ce_bit e < 8 /\ N.testbit (nth (ce_byte e) fl 0) (ce_bit e) = false) ->
  NoDup (map ce_pair es) ->
  cnt (fold_left (fstep sp) es fl) = cnt fl + count_present sp es.
Proof.
  induction es as [|e r IH]; intros fl H ND; cbn [fold_left count_present]; [lia|].
  inversion ND as [|? ? Hn ND']; subst.
  destruct (H e (or_introl eq_refl)) as (Hl & Hb & Hf).
  rewrite IH; [|intros e' He'|exact ND'].
  - unfold fstep. pose proof (cnt_upd (ce_byte e) (fun b => N.lor b (if present sp e then 2 ^ ce_bit e else 0)) fl Hl) as C.
    cbv beta in C. destruct (present sp e).
    + rewrite count_bits_lor_fresh in C by assumption. lia.
    + rewrite N.lor_0_r in C. lia.
  - destruct (H e' (or_intror He')) as (Hl' & Hb' & Hf'). unfold fstep. rewrite length_upd. repeat split; try assumption.
    destruct (Nat.eq_dec (ce_byte e') (ce_byte e)) as [E|E].
    + rewrite E. rewrite nth_upd_same by exact Hl. rewrite testbit_lor_mask. rewrite <- E, Hf'. cbn [orb].
      destruct (N.eqb_spec (ce_bit e) (ce_bit e')) as [E2|E2]; [|apply andb_false_r].
      exfalso. apply Hn. apply in_map_iff. exists e'. split; [|exact He']. unfold ce_pair. congruence.
    + rewrite nth_upd_other by exact E. exact Hf'.
Qed.

Lemma cnt_raw_flags : cnt raw_flags = count_present sp (cb ++ ce).
Proof.
  unfold raw_flags. rewrite raw_flags_fold. rewrite cnt_fold_fstep; [reflexivity| |exact (sw_nodup _ _ WF)].
  intros e He. destruct (all_bytes e He) as [H1 H2]. rewrite repeat_length. repeat split; try lia.
  replace (nth (ce_byte e) (repeat 0 8%nat) 0) with 0; [apply N.bits_0|].
  generalize (ce_byte e). intros n. do 9 (destruct n as [|n]; [reflexivity|]). destruct n; reflexivity.
Qed.

(* the size compute_flags announces *)
Theorem announced_size :
  snd (compute_flags_with (map fproj (cb ++ ce)) sp) = lenN flags + 4 + 4 * count_present sp (cb ++ ce).
Proof.
  unfold compute_flags_with. fold raw_flags. fold short. cbn [snd]. rewrite size_fold.
  rewrite <- cnt_raw_flags. pose proof length_raw_flags as L. unfold lenN at 2. rewrite length_flags.
  destruct short eqn:S.
  - assert (E : lenN (firstn 4 raw_flags) = 4) by (unfold lenN; rewrite firstn_length; lia). rewrite E.
    change (N.of_nat 4) with 4. f_equal. f_equal.
    unfold short in S. rewrite !andb_true_iff, !N.eqb_eq in S. destruct S as [[S4 S5] S6].
    assert (S7 : nth 7 raw_flags 0 = 0).
    { apply raw_byte_zero. intros e He _ E7. destruct (all_bytes e He). lia. }
    destruct raw_flags as [|r0 [|r1 [|r2 [|r3 [|r4 [|r5 [|r6 [|r7 [|]]]]]]]]]; cbn [length] in L; try lia.
    cbn [nth] in S4, S5, S6, S7. subst. cbn [firstn cnt]. rewrite count_bits_0. lia.
  - assert (E : lenN raw_flags = 8) by (unfold lenN; lia). rewrite E. reflexivity.
Qed.

(* popcount reading of the same number: 4 bytes per set bit, the marker excluded *)
Theorem announced_size_popcount :
  snd (compute_flags_with (map fproj (cb ++ ce)) sp) + (if long then 4 else 0) = lenN flags + 4 + 4 * cnt flags.
Proof.
  rewrite announced_size, <- cnt_raw_flags, long_eq, flags_eq. pose proof length_raw_flags as L.
  destruct short eqn:S; cbn [negb].
  - unfold short in S. rewrite !andb_true_iff, !N.eqb_eq in S. destruct S as [[S4 S5] S6].
    assert (S7 : nth 7 raw_flags 0 = 0).
    { apply raw_byte_zero. intros e He _ E7. destruct (all_bytes e He). lia. }
    destruct raw_flags as [|r0 [|r1 [|r2 [|r3 [|r4 [|r5 [|r6 [|r7 [|]]]]]]]]]; cbn [length] in L; try lia.
    cbn [nth] in S4, S5, S6, S7. subst. cbn [firstn cnt]. rewrite count_bits_0. lia.
  - pose proof (cnt_upd 0 (fun b => N.lor b 1) raw_flags ltac:(lia)) as C. cbv beta in C.
    pose proof (count_bits_lor_fresh (nth 0 raw_flags 0) 0 ltac:(lia) raw_marker_clear) as F.
    change (2 ^ 0) with 1 in F. rewrite F in C. lia.
Qed.

End Schema.
