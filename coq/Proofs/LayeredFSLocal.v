(* The file-system half of C14: every operation applies the same localisation mapping, i.e. a
   localized call addresses exactly what the unlocalized call on [localize p] addresses. *)
From Coq Require Import List NArith Bool Arith Lia.
From Mila Require Import Lib.Bytes Lib.Machine Model.Localize Proofs.LocalizeProofs Model.LayeredFS
  Proofs.LayeredFSBase Proofs.LayeredFSStack.
Import ListNotations.
Local Open Scope N_scope.

Section Consistent.
  Variable S : fsys.
  Variables p p' : str.
  Hypothesis Hloc : localize (c_loc (conf S)) (lng S) p = LOk p'.

  Lemma loc_addr : fs_addr S p true = fs_addr S p' false.
  Proof. apply fs_addr_loc. exact Hloc. Qed.

  Lemma loc_queries :
    fs_exists S p true = fs_exists S p' false /\
    fs_file_exists S p true = fs_file_exists S p' false /\
    fs_directory_exists S p true = fs_directory_exists S p' false /\
    fs_resolve S p true = fs_resolve S p' false /\
    (forall pat, fs_list S p pat true = fs_list S p' pat false) /\
    fs_subdirectories S p true = fs_subdirectories S p' false /\
    fs_create_dir S p true = fs_create_dir S p' false.
  Proof.
    unfold fs_exists, fs_file_exists, fs_directory_exists, fs_list, fs_subdirectories, fs_create_dir.
    rewrite loc_addr. repeat split. unfold fs_resolve, fs_actual. rewrite Hloc. reflexivity.
  Qed.

  (* read and write choose the codec by the name the caller passed; they address localize p *)
  Lemma loc_read_write compress decompress :
    is_compressed (c_comp (conf S)) p = is_compressed (c_comp (conf S)) p' ->
    fs_read decompress S p true = fs_read decompress S p' false /\
    (forall b, fs_write compress S p b true = fs_write compress S p' b false).
  Proof.
    intros E. unfold fs_read, fs_write, decode_by_name, encode_by_name. rewrite loc_addr, E. split; reflexivity.
  Qed.
End Consistent.

(* ---- the codec choice is the same for p and localize p on paths dir/name without a trailing '/' ---- *)
Lemma ends_with_app_long suf x name : (length suf <= length name)%nat -> ends_with suf (x ++ name) = ends_with suf name.
Proof.
  intros Hl. destruct (ends_with suf name) eqn:E.
  - apply ends_with_spec in E. destruct E as (a & ->). apply ends_with_spec. exists (x ++ a). apply app_assoc.
  - destruct (ends_with suf (x ++ name)) eqn:E2; [|reflexivity]. exfalso.
    apply ends_with_spec in E2. destruct E2 as (a & E2).
    assert (X : ends_with suf name = true); [|congruence]. apply ends_with_spec.
    (* compare the two decompositions from the right *)
    apply (f_equal (@rev N)) in E2. rewrite !rev_app_distr in E2.
    assert (Hl' : (length (rev suf) <= length (rev name))%nat) by (rewrite !rev_length; exact Hl).
    exists (rev (skipn (length (rev suf)) (rev name))).
    assert (F : firstn (length (rev suf)) (rev name) = rev suf).
    { apply (f_equal (firstn (length (rev suf)))) in E2.
      rewrite firstn_app in E2. replace (length (rev suf) - length (rev name))%nat with O in E2 by lia.
      cbn [firstn] in E2. rewrite app_nil_r in E2. rewrite E2.
      rewrite firstn_app, Nat.sub_diag, firstn_all. cbn [firstn]. apply app_nil_r. }
    rewrite <- (rev_involutive name) at 1. rewrite <- (firstn_skipn (length (rev suf)) (rev name)) at 1.
    rewrite F, rev_app_distr, rev_involutive. reflexivity.
Qed.

(* a suffix that starts with '.' and contains no '/' cannot straddle an inserted "/<marker without '.'>" *)
Lemma ends_with_marker dir m name t :
  ~ In DOT m -> ~ In SLASH (DOT :: t) ->
  ends_with (DOT :: t) (dir ++ SLASH :: m ++ name) = ends_with (DOT :: t) (dir ++ SLASH :: name).
Proof.
  intros Hm Ht.
  assert (G : forall w, ~ In DOT w -> ends_with (DOT :: t) (dir ++ SLASH :: w ++ name) = ends_with (DOT :: t) name).
  { intros w Hw. destruct (le_lt_dec (length (DOT :: t)) (length name)) as [Hl|Hl].
    - replace (dir ++ SLASH :: w ++ name) with ((dir ++ SLASH :: w) ++ name) by (rewrite <- app_assoc; reflexivity).
      apply ends_with_app_long. exact Hl.
    - (* the suffix is longer than the name: it cannot end the long string, nor the name *)
      assert (E1 : ends_with (DOT :: t) name = false).
      { destruct (ends_with (DOT :: t) name) eqn:E; [|reflexivity]. apply ends_with_spec in E. destruct E as (a & ->).
        rewrite app_length in Hl. lia. }
      rewrite E1. destruct (ends_with (DOT :: t) (dir ++ SLASH :: w ++ name)) eqn:E; [|reflexivity]. exfalso.
      apply ends_with_spec in E. destruct E as (a & E).
      (* DOT :: t = z ++ name with z a non-empty suffix of dir ++ SLASH :: w *)
      assert (Hsplit : exists z, DOT :: t = z ++ name /\ exists y, dir ++ SLASH :: w = y ++ z).
      { replace (dir ++ SLASH :: w ++ name) with ((dir ++ SLASH :: w) ++ name) in E by (rewrite <- app_assoc; reflexivity).
        set (X := dir ++ SLASH :: w) in *.
        apply (f_equal (@rev N)) in E. rewrite !rev_app_distr in E.
        (* rev name ++ rev X = rev (DOT::t) ++ rev a, with |rev name| < |rev (DOT :: t)| *)
        assert (Hl2 : (length (rev name) < length (rev (DOT :: t)))%nat) by (rewrite !rev_length; exact Hl).
        exists (rev (skipn (length (rev name)) (rev (DOT :: t)))). split.
        - assert (F : firstn (length (rev name)) (rev (DOT :: t)) = rev name).
          { apply (f_equal (firstn (length (rev name)))) in E.
            rewrite firstn_app, Nat.sub_diag, firstn_all in E. cbn [firstn] in E. rewrite app_nil_r in E.
            rewrite firstn_app in E. replace (length (rev name) - length (rev (DOT :: t)))%nat with O in E by lia.
            cbn [firstn] in E. rewrite app_nil_r in E. symmetry. exact E. }
          rewrite <- (rev_involutive (DOT :: t)) at 1. rewrite <- (firstn_skipn (length (rev name)) (rev (DOT :: t))) at 1.
          rewrite F, rev_app_distr, rev_involutive. reflexivity.
        - exists (rev (skipn (length (rev (DOT :: t)) - length (rev name)) (rev X))).
          apply (f_equal (skipn (length (rev name)))) in E.
          rewrite skipn_app, Nat.sub_diag, skipn_all in E. cbn [skipn app] in E.
          rewrite skipn_app in E. replace (length (rev name) - length (rev (DOT :: t)))%nat with O in E by lia. cbn [skipn] in E.
          rewrite <- (rev_involutive X) at 1.
          rewrite <- (firstn_skipn (length (rev (DOT :: t)) - length (rev name)) (rev X)) at 1.
          rewrite rev_app_distr. f_equal. f_equal.
          rewrite E. rewrite firstn_app.
          rewrite skipn_length. rewrite Nat.sub_diag. cbn [firstn]. rewrite app_nil_r.
          rewrite firstn_all2; [reflexivity|]. rewrite skipn_length. lia. }
      destruct Hsplit as (z & Ez & y & Ey).
      destruct z as [|z0 z]; [cbn [app] in Ez; rewrite <- Ez in Hl; lia|].
      cbn [app] in Ez. injection Ez as <- Ez.
      (* z0 = DOT is an element of dir ++ SLASH :: w lying in the suffix DOT :: z, and SLASH is not in z *)
      assert (Hz : ~ In SLASH (DOT :: z)).
      { intros Hin. apply Ht. destruct Hin as [H|H]; [left; exact H|]. right. rewrite Ez. apply in_or_app. left. exact H. }
      (* SLASH :: w is a suffix of dir ++ SLASH :: w; compare with the suffix DOT :: z *)
      destruct (le_lt_dec (length (DOT :: z)) (length w)) as [Hw2|Hw2].
      + (* DOT :: z is a suffix of w: DOT in w *)
        assert (S1 : ends_with (DOT :: z) w = true).
        { rewrite <- (ends_with_app_long (DOT :: z) (dir ++ [SLASH]) w Hw2). apply ends_with_spec. exists y.
          rewrite <- app_assoc. cbn [app]. exact Ey. }
        apply ends_with_spec in S1. destruct S1 as (a1 & ->). apply Hw. apply in_or_app. right. left. reflexivity.
      + (* SLASH :: w is a suffix of DOT :: z: SLASH in DOT :: z *)
        assert (S1 : ends_with (SLASH :: w) (DOT :: z) = true).
        { rewrite <- (ends_with_app_long (SLASH :: w) y (DOT :: z)) by (cbn [length] in *; lia). apply ends_with_spec. exists dir.
          symmetry. exact Ey. }
        apply ends_with_spec in S1. destruct S1 as (a1 & S1). apply Hz. rewrite S1. apply in_or_app. right. left. reflexivity. }
  rewrite (G m Hm). rewrite <- (G [] (fun H => H)). reflexivity.
Qed.

(* every marker string is '/' followed by characters other than '.' *)
Lemma infix_shape g l m : g <> GNoOp -> infix g l = Some m -> exists m', m = SLASH :: m' /\ ~ In DOT m'.
Proof.
  intros Hg H. destruct g; try congruence; destruct l; cbn [infix] in H; try discriminate; injection H as <-;
    (eexists; split; [reflexivity|]); cbn [In]; unfold DOT; intros X; repeat (destruct X as [X|X]; [discriminate|]); exact X.
Qed.

Lemma is_compressed_marker c dir m name : ~ In DOT m ->
  is_compressed c (dir ++ SLASH :: m ++ name) = is_compressed c (dir ++ SLASH :: name).
Proof.
  intros Hm. unfold is_compressed.
  assert (E : forall s, In s (suffixes c) -> ends_with s (dir ++ SLASH :: m ++ name) = ends_with s (dir ++ SLASH :: name)).
  { intros s Hs. destruct c; cbn [suffixes In] in Hs.
    - destruct Hs as [<-|[<-|[]]]; apply ends_with_marker; auto; cbn [In]; unfold DOT, SLASH; intros X;
        repeat (destruct X as [X|X]; [discriminate|]); exact X.
    - destruct Hs as [<-|[]]; apply ends_with_marker; auto; cbn [In]; unfold DOT, SLASH; intros X;
        repeat (destruct X as [X|X]; [discriminate|]); exact X. }
  induction (suffixes c) as [|s r IH]; [reflexivity|]. cbn [existsb].
  rewrite (E s) by (left; reflexivity). rewrite IH; [reflexivity|]. intros s' Hs'. apply E. right. exact Hs'.
Qed.

(* on a path dir/name (no trailing '/') localisation does not change whether the name is a compressed one *)
Theorem loc_same_codec g l c dir name p' : g <> GNoOp -> dir <> [] -> Forall plainP (dir ++ [name]) ->
  localize g l (render (dir ++ [name]) false) = LOk p' ->
  is_compressed c p' = is_compressed c (render (dir ++ [name]) false).
Proof.
  intros Hg Hd Hp H.
  assert (E : localize g l (render (dir ++ [name]) false) =
              match infix g l with None => LErr LUnsupportedLanguage | Some m => LOk (join dir ++ m ++ name) end).
  { unfold localize in *. rewrite (parent_and_file_multi_gen dir name false Hd Hp) in *.
    destruct (andb (valid_str (join dir)) (valid_str name)); destruct g; congruence. }
  rewrite E in H. destruct (infix g l) as [m|] eqn:I; [|discriminate]. injection H as <-.
  destruct (infix_shape g l m Hg I) as (m' & -> & Hm').
  unfold render. rewrite app_nil_r, join_snoc by exact Hd. cbn [app]. apply is_compressed_marker. exact Hm'.
Qed.
