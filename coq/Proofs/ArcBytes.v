(* C16 on FILES: the arc reader applied to any byte string that conforms to the bin-archive format
   (Proofs/BinFormatSpec.v: [conforms LE f c]).  Combines C01's parser correctness (through
   Proofs/TextBinBridge.v: parsed_obs_equal) with the archive-level theorems of Proofs/ArcProofs.v; no premise about
   BinFormat.from_bytes is left.  Since the repair 10408e9 (find_label_address = lowest address carrying the label) the
   transfer needs no uniqueness of the Count / Info labels. *)
From Coq Require Import List NArith ZArith Bool Lia ZifyBool ZifyNat ZifyN.
From Mila Require Import Lib.Bytes Lib.Machine Model.BinArchive Model.BinStreams Model.BinFormat Model.Arc
  Proofs.AMapLemmas Proofs.BinFormatSpec Proofs.BinParserCorrect Proofs.FindLabel Proofs.ObsEqual Proofs.TextBinBridge Proofs.ArcProofs.
Import ListNotations.
Local Open Scope N_scope.

(* the general transfer: on EVERY conforming file the byte-level reader is the archive-level reader applied to the
   content - so every archive-level theorem (extraction, the four errors, offset overflow, totality) speaks about files *)
Theorem arc_file_reads_content m f c :
  conforms LE f c -> arc_from_bytes m f = arc_from_archive m (content_archive LE c).
Proof.
  intros Hc. destruct (parsed_obs_equal LE f c Hc) as (a & Hp & He & Ho).
  unfold arc_from_bytes. rewrite Hp. cbn [bind]. exact (arc_from_archive_obs_equal m (content_archive LE c) a Ho He).
Qed.

Theorem arc_extract_from_file m f c files :
  conforms LE f c -> arc_layout (content_archive LE c) files -> arc_from_bytes m f = Ok files.
Proof. intros Hc Hl. rewrite (arc_file_reads_content m f c Hc). apply arc_extract. exact Hl. Qed.

(* an image lacking the Count label / the Info label *)
Theorem arc_file_no_count m f c : conforms LE f c ->
  label_addrs (content_archive LE c) COUNT = [] -> arc_from_bytes m f = Err ENoCount.
Proof. intros Hc H0. rewrite (arc_file_reads_content m f c Hc). apply arc_no_count. exact H0. Qed.
Theorem arc_file_no_info m f c : conforms LE f c ->
  label_addrs (content_archive LE c) COUNT <> [] -> label_addrs (content_archive LE c) INFO = [] -> arc_from_bytes m f = Err ENoInfo.
Proof. intros Hc H1 H0. rewrite (arc_file_reads_content m f c Hc). apply arc_no_info; assumption. Qed.
