(* C16 on FILES: the arc reader applied to any byte string that conforms to the bin-archive format
   (Proofs/BinFormatSpec.v: [conforms LE f c]) with a content c laid out as an arc.  Combines
   C01's parser correctness (through Proofs/TextBinBridge.v: parsed_obs_equal) with the archive-level
   theorems of Proofs/ArcProofs.v; no premise about BinFormat.from_bytes is left. *)
From Coq Require Import List NArith ZArith Bool Lia ZifyBool ZifyNat ZifyN.
From Mila Require Import Lib.Bytes Lib.Machine Model.BinArchive Model.BinStreams Model.BinFormat Model.Arc
  Proofs.AMapLemmas Proofs.BinFormatSpec Proofs.BinParserCorrect Proofs.ObsEqual Proofs.TextBinBridge Proofs.ArcProofs.
Import ListNotations.
Local Open Scope N_scope.

Theorem arc_extract_from_file m f c files :
  conforms LE f c -> arc_layout (content_archive LE c) files -> arc_from_bytes m f = Ok files.
Proof.
  intros Hc Hl. destruct (parsed_obs_equal LE f c Hc) as (a & Hp & He & Ho).
  unfold arc_from_bytes. rewrite Hp. cbn [bind].
  pose proof Hl as (cc & i & w0 & recs & Hcount & Hinfo & _).
  rewrite (arc_from_archive_obs_equal m (content_archive LE c) a cc i Ho He Hcount Hinfo).
  apply arc_extract. exact Hl.
Qed.

(* membership in label_addrs only depends on the label map as a map *)
Lemma label_addrs_incl a a' l :
  NoDup (am_keys (a_labels a')) -> (forall x, am_get x (a_labels a') = am_get x (a_labels a)) ->
  forall y, In y (label_addrs a' l) -> In y (label_addrs a l).
Proof.
  intros Hnd Hget y Hy. apply label_addrs_in in Hy. destruct Hy as (b & Hin & Hb).
  assert (G : am_get y (a_labels a) = Some b) by (rewrite <- Hget; apply am_in_get; assumption).
  apply am_get_in in G. apply label_addrs_in. exists b. auto.
Qed.

Section Errors.
  Variables (m : mode) (f : bytes) (c : content).
  Hypothesis Hc : conforms LE f c.

  Lemma conforms_label_keys : NoDup (am_keys (c_labels c)).
  Proof.
    destruct Hc as (reserved & ptab & ltab & txt & names & H). cbn zeta in H.
    destruct H as (_ & _ & _ & _ & _ & _ & _ & _ & _ & _ & _ & (Hk & _)). exact Hk.
  Qed.

  (* an image lacking the Count label / the Info label *)
  Theorem arc_file_no_count : label_addrs (content_archive LE c) COUNT = [] -> arc_from_bytes m f = Err ENoCount.
  Proof.
    intros H0. destruct (parser_correct LE f c Hc) as (a & Hp & _ & _ & _ & _ & _ & Gl & _ & _ & N3).
    unfold arc_from_bytes. rewrite Hp. cbn [bind]. apply arc_no_count.
    destruct (label_addrs a COUNT) as [|y r] eqn:E; [reflexivity|]. exfalso.
    assert (Hy : In y (label_addrs (content_archive LE c) COUNT)).
    { apply (label_addrs_incl (content_archive LE c) a COUNT N3 Gl). rewrite E. left. reflexivity. }
    rewrite H0 in Hy. exact Hy.
  Qed.
  Theorem arc_file_no_info :
    label_addrs (content_archive LE c) COUNT <> [] -> label_addrs (content_archive LE c) INFO = [] -> arc_from_bytes m f = Err ENoInfo.
  Proof.
    intros H1 H0. destruct (parser_correct LE f c Hc) as (a & Hp & _ & _ & _ & _ & _ & Gl & _ & _ & N3).
    unfold arc_from_bytes. rewrite Hp. cbn [bind]. apply arc_no_info.
    - destruct (label_addrs (content_archive LE c) COUNT) as [|y r] eqn:E; [congruence|]. intros E'.
      assert (Hy : In y (label_addrs a COUNT)).
      { apply (label_addrs_incl a (content_archive LE c) COUNT conforms_label_keys); [intros x; symmetry; apply Gl|]. rewrite E. left. reflexivity. }
      rewrite E' in Hy. exact Hy.
    - destruct (label_addrs a INFO) as [|y r] eqn:E; [reflexivity|]. exfalso.
      assert (Hy : In y (label_addrs (content_archive LE c) INFO)).
      { apply (label_addrs_incl (content_archive LE c) a INFO N3 Gl). rewrite E. left. reflexivity. }
      rewrite H0 in Hy. exact Hy.
  Qed.
End Errors.

(* the general transfer: on every conforming file whose content carries Count and Info on exactly one address each, the
   byte-level reader is the archive-level reader applied to the content - so EVERY archive-level theorem (extraction, record
   without a name, range leaving the data region, offset overflow, totality) speaks about files *)
Theorem arc_file_reads_content m f c cc i :
  conforms LE f c -> label_addrs (content_archive LE c) COUNT = [cc] -> label_addrs (content_archive LE c) INFO = [i] ->
  arc_from_bytes m f = arc_from_archive m (content_archive LE c).
Proof.
  intros Hc Hcount Hinfo. destruct (parsed_obs_equal LE f c Hc) as (a & Hp & He & Ho).
  unfold arc_from_bytes. rewrite Hp. cbn [bind].
  exact (arc_from_archive_obs_equal m (content_archive LE c) a cc i Ho He Hcount Hinfo).
Qed.
