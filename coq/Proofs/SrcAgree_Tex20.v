(* Agreement of the magic numbers and format tables of src/tpl.rs, src/bch.rs and src/cgfx.rs (regenerated
   from the source on every run) with Model/Tpl.v, Model/Bch.v and Model/Cgfx.v.  (src/ctpk.rs checks no
   magic and has no table.) *)
From Coq Require Import String List NArith ZArith Bool.
From Mila Require Import Generated.SourceTables.
From Mila Require Import Proofs.SrcAgreeLib Lib.Bytes Lib.Machine Model.Pixel Model.TexCommon Model.Tpl Model.Bch Model.Cgfx.
Import ListNotations.
Local Open Scope N_scope.

Theorem src_TPL_MAGIC_agrees : src_TPL_MAGIC = TPL_MAGIC.
Proof. reflexivity. Qed.

(* ---- TplImageFormat: discriminants, block dimensions, image size ---- *)
Definition img_disc (r : N * N * N * N * N * N) : N := let '(v, _, _, _, _, _) := r in v.
Definition img_cf (r : N * N * N * N * N * N) : N := let '(_, _, _, _, _, c) := r in c.

(* the accepted discriminants are exactly the listed ones, for EVERY u32 *)
Theorem src_TPL_IMAGE_FORMATS_agrees_known : forall v,
  tpl_image_format_known v = memN v (map img_disc src_TPL_IMAGE_FORMATS).
Proof. intro v. N_cases v 4; reflexivity. Qed.

Theorem src_TPL_IMAGE_FORMATS_agrees :
  Forall (fun r => let '(v, bw, bh, mul, div, _) := r in
                   tpl_block_dims v = (bw, bh) /\
                   forall h w, tpl_image_bytes v h w = align h bh * align w bw * mul / div)
         src_TPL_IMAGE_FORMATS.
Proof.
  repeat constructor; intros h w; unfold tpl_image_bytes; cbn [tpl_block_dims];
    rewrite ?N.mul_1_r, ?N.div_1_r; reflexivity.
Qed.

(* ---- TplPaletteFormat ---- *)
Definition pal_disc (r : N * N * N * N) : N := let '(v, _, _, _) := r in v.
Definition pal_cf (r : N * N * N * N) : N := let '(_, _, _, c) := r in c.

Theorem src_TPL_PALETTE_FORMATS_agrees_known : forall v,
  tpl_palette_format_known v = memN v (map pal_disc src_TPL_PALETTE_FORMATS).
Proof. intro v. N_cases v 2; reflexivity. Qed.

(* every palette format has 2 bytes per entry (the model reads n * 2 bytes) *)
Theorem src_TPL_PALETTE_FORMATS_agrees :
  forallb (fun r => let '(_, mul, div, _) := r in (mul =? 2) && (div =? 1)) src_TPL_PALETTE_FORMATS = true.
Proof. reflexivity. Qed.

(* ---- which (image format, palette format) pairs decode: exactly those whose ColorFormat (position in
   enum ColorFormat: 0 RGBA8, 1 RGB5A3, 2 CI8, 3 Unrecognized) is CI8 for the image and RGB5A3 for the
   palette; evaluated on the empty 0x0 image for every pair of listed formats ---- *)
Definition is_ok {A} (o : outcome A) : bool := match o with Ok _ => true | _ => false end.

Theorem src_TPL_agrees_supported :
  forallb (fun ir => forallb (fun pr =>
    Bool.eqb (is_ok (tpl_texture (mkTImg 0 0 (img_disc ir) [], mkTPal (pal_disc pr) [])))
             ((img_cf ir =? 2) && (pal_cf pr =? 1))) src_TPL_PALETTE_FORMATS) src_TPL_IMAGE_FORMATS = true.
Proof. vm_compute. reflexivity. Qed.

(* ---- BCH ---- *)
Theorem src_BCH_CONSTS_agrees : src_BCH_CONSTS = [BCH_MAGIC; BCH_EXT; 0x24].
Proof. reflexivity. Qed.

Definition bch_content_table_p (off : N) (m : mode) (f : bytes) (ca : N) : outcome (N * N) :=
  p <- add32 m ca off ;;
  v <- rd32 LE f p ;;
  toff <- add32 m v ca ;;
  n <- rd32 LE f (p + 4) ;;
  Ok (toff, n).

Theorem src_BCH_CONSTS_agrees_table : forall m f ca,
  bch_content_table m f ca = bch_content_table_p (nthN 2 src_BCH_CONSTS) m f ca.
Proof. intros. reflexivity. Qed.

(* ---- CGFX ---- *)
Theorem src_CGFX_MAGIC_agrees : src_CGFX_MAGIC = CGFX_MAGIC.
Proof. reflexivity. Qed.
