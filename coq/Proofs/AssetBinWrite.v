(* C18, part 3: the writer.  For ANY well-formed common schema, `append` with the projected tables
   appends exactly the cells [record_cells] of the spec: the flag bytes, the name cell, one string
   cell per present string and one 4-byte raw cell per present typed field, in schema order; the
   room it allocates (the size compute_flags announces) is exactly what it fills. *)
From Coq Require Import List NArith ZArith Bool Lia ZifyBool ZifyNat ZifyN Arith.
From Mila Require Import Lib.Bytes Lib.Machine Model.BinArchive Model.BinStreams Model.AssetBin
  Proofs.AMapLemmas Proofs.BinAccess Proofs.BinAccess2 Proofs.RecsCells Proofs.AssetBinSchema Proofs.AssetBinFlags.
Import ListNotations.
Local Open Scope N_scope.
Ltac Zify.zify_post_hook ::= Z.div_mod_to_equations.

(* bytes of a typed value in the file: colours are stored with channels 0 and 2 exchanged *)
Definition typed_bytes (k : fkind) (v : N) : bytes :=
  match k with KColor => swap02 (enc_le 4 v) | KF32 | KU32 => enc LE 4 v end.
Lemma lenN_typed_bytes k v : lenN (typed_bytes k v) = 4.
Proof. destruct k; reflexivity. Qed.

Definition entry_cells (sp : spec) (e : centry) : list cell :=
  match e with
  | CS t _ _ => match get_str sp t with Some v => [CStr (Some v)] | None => [] end
  | CT t _ _ k => if get_use sp t then [CRaw (typed_bytes k (get_val sp t))] else []
  end.
Fixpoint entries_cells (sp : spec) (es : list centry) : list cell :=
  match es with [] => [] | e :: r => entry_cells sp e ++ entries_cells sp r end.

Lemma entry_cells_size sp e : cells_size (entry_cells sp e) = if present sp e then 4 else 0.
Proof.
  destruct e as [t b i|t b i k]; cbn [entry_cells present].
  - destruct (get_str sp t); reflexivity.
  - destruct (get_use sp t); [|reflexivity]. cbn [cells_size cell_size]. rewrite lenN_typed_bytes. reflexivity.
Qed.
Lemma entries_cells_size sp es : cells_size (entries_cells sp es) = 4 * count_present sp es.
Proof.
  induction es as [|e r IH]; cbn [entries_cells count_present]; [reflexivity|].
  rewrite cells_size_app, entry_cells_size, IH. destruct (present sp e); lia.
Qed.
Lemma entries_cells_absent sp es : (forall e, In e es -> present sp e = false) -> entries_cells sp es = [].
Proof.
  induction es as [|e r IH]; cbn [entries_cells]; intros H; [reflexivity|].
  rewrite IH by (intros e' He'; apply H; right; exact He'). rewrite app_nil_r.
  pose proof (H e (or_introl eq_refl)) as P. destruct e as [t b i|t b i k]; cbn [entry_cells present] in *.
  - destruct (get_str sp t); [discriminate | reflexivity].
  - rewrite P. reflexivity.
Qed.

(* ---- write_entries on a tail ---- *)
Lemma write_entries_mid sp a : keys_below (a_text a) (size a) -> a_endian a = LE ->
  forall es done n,
  cells_size (entries_cells sp es) <= n ->
  write_entries (map wproj es) sp (mid a done n) (size a + cells_size done)
  = (Ok tt, mid a (done ++ entries_cells sp es) (n - cells_size (entries_cells sp es)),
     size a + cells_size done + cells_size (entries_cells sp es)).
Proof.
  intros Hk He. induction es as [|e r IH]; intros done n Hn; cbn [map write_entries entries_cells].
  - cbn [cells_size]. rewrite app_nil_r, N.sub_0_r, N.add_0_r. reflexivity.
  - cbn [entries_cells] in Hn. rewrite cells_size_app in Hn.
    destruct e as [t b i|t b i k]; cbn [wproj entry_cells] in *.
    + destruct (get_str sp t) as [v|].
      * cbn [cells_size cell_size] in Hn. rewrite w_write_string_mid by (try assumption; lia).
        replace (size a + cells_size done + 4) with (size a + cells_size (done ++ [CStr (Some v)]))
          by (rewrite cells_size_app; cbn [cells_size cell_size]; lia).
        rewrite IH by lia. rewrite <- app_assoc. cbn [app]. rewrite !cells_size_app. cbn [cells_size cell_size].
        f_equal; [f_equal; f_equal|]; lia.
      * cbn [app cells_size] in *. apply IH. lia.
    + destruct (get_use sp t).
      * cbn [cells_size cell_size] in Hn. rewrite lenN_typed_bytes in Hn.
        assert (W : write_typed k (mid a done n) (size a + cells_size done) (get_val sp t)
                    = (Ok tt, mid a (done ++ [CRaw (typed_bytes k (get_val sp t))]) (n - 4), size a + cells_size done + 4)).
        { destruct k; cbn [write_typed typed_bytes].
          - unfold write_color. rewrite w_write_bytes_mid by (change (lenN (swap02 (enc_le 4 (get_val sp t)))) with 4; lia). reflexivity.
          - rewrite w_write_f32_mid by lia. rewrite He. reflexivity.
          - rewrite w_write_u32_mid by lia. rewrite He. reflexivity. }
        rewrite W.
        replace (size a + cells_size done + 4) with (size a + cells_size (done ++ [CRaw (typed_bytes k (get_val sp t))]))
          by (rewrite cells_size_app; cbn [cells_size cell_size]; rewrite lenN_typed_bytes; lia).
        rewrite IH by lia. rewrite <- app_assoc. cbn [app]. rewrite !cells_size_app. cbn [cells_size cell_size].
        rewrite lenN_typed_bytes. f_equal; [f_equal; f_equal|]; lia.
      * cbn [app cells_size] in *. apply IH. lia.
Qed.

Section Schema.
Variables (cb ce : list centry).
Hypothesis WF : schema_wf cb ce.

Definition record_cells (sp : spec) : list cell :=
  CRaw (flags cb ce sp) :: CStr (sp_name sp) :: entries_cells sp cb ++ (if long cb ce sp then entries_cells sp ce else []).

Lemma record_cells_size sp :
  cells_size (record_cells sp) = snd (compute_flags_with (map fproj (cb ++ ce)) sp).
Proof.
  rewrite (announced_size cb ce WF sp). unfold record_cells. cbn [cells_size cell_size].
  rewrite cells_size_app, entries_cells_size, count_present_app.
  destruct (long cb ce sp) eqn:L.
  - rewrite entries_cells_size. lia.
  - cbn [cells_size]. rewrite (count_present_0 sp ce); [lia|].
    apply (short_iff cb ce WF sp). rewrite (long_eq cb ce sp) in L. destruct (short cb ce sp); [reflexivity | discriminate].
Qed.
Lemma record_cells_size_ge sp : 8 <= cells_size (record_cells sp).
Proof.
  unfold record_cells. cbn [cells_size cell_size]. unfold lenN. rewrite (length_flags cb ce sp).
  destruct (short cb ce sp); lia.
Qed.

(* append = append_cells (record_cells) *)
Theorem append_with_spec sp a :
  keys_below (a_text a) (size a) -> a_endian a = LE ->
  append_with (map fproj (cb ++ ce)) (map wproj cb) (map wproj ce) sp a = Ok (append_cells a (record_cells sp)).
Proof.
  intros Hk He. unfold append_with.
  pose proof (record_cells_size sp) as SZ.
  destruct (compute_flags_with (map fproj (cb ++ ce)) sp) as [fl sz] eqn:CF.
  assert (Efl : fl = flags cb ce sp) by (unfold flags; rewrite CF; reflexivity).
  cbn [snd] in SZ. subst fl. subst sz.
  rewrite mid_start.
  (* flag bytes *)
  pose proof (w_write_bytes_mid a [] (cells_size (record_cells sp)) (flags cb ce sp)) as W1.
  cbn [cells_size app] in W1. rewrite N.add_0_r in W1. rewrite W1.
  2:{ unfold record_cells. cbn [cells_size cell_size]. lia. }
  (* name *)
  pose proof (w_write_string_mid a [CRaw (flags cb ce sp)] (cells_size (record_cells sp) - lenN (flags cb ce sp)) (sp_name sp) Hk) as W2.
  cbn [cells_size cell_size app] in W2. rewrite N.add_0_r in W2. rewrite W2.
  2:{ unfold record_cells. cbn [cells_size cell_size]. lia. }
  (* base entries *)
  set (d2 := [CRaw (flags cb ce sp); CStr (sp_name sp)]).
  set (n2 := cells_size (record_cells sp) - lenN (flags cb ce sp) - 4).
  assert (P2 : size a + lenN (flags cb ce sp) + 4 = size a + cells_size d2) by (unfold d2; cbn [cells_size cell_size]; lia).
  rewrite P2.
  assert (Hn2 : n2 = cells_size (entries_cells sp cb) + cells_size (if long cb ce sp then entries_cells sp ce else [])).
  { unfold n2, record_cells. cbn [cells_size cell_size]. rewrite cells_size_app. lia. }
  rewrite (write_entries_mid sp a Hk He cb d2 n2) by lia.
  destruct (long cb ce sp) eqn:L; fold (long cb ce sp); rewrite L.
  - replace (size a + cells_size d2 + cells_size (entries_cells sp cb)) with (size a + cells_size (d2 ++ entries_cells sp cb))
      by (rewrite cells_size_app; lia).
    rewrite (write_entries_mid sp a Hk He ce) by lia. cbn [out_of].
    replace (n2 - cells_size (entries_cells sp cb) - cells_size (entries_cells sp ce)) with 0 by lia.
    rewrite mid_end. unfold record_cells, d2. rewrite L. rewrite <- app_assoc. reflexivity.
  - cbn [cells_size] in Hn2. replace (n2 - cells_size (entries_cells sp cb)) with 0 by lia.
    rewrite mid_end. unfold record_cells, d2. rewrite L, app_nil_r. reflexivity.
Qed.

End Schema.
