(* C01: the format relation [conforms] - written from the format description, independent of
   serialize and from_bytes - and byte-level helper lemmas. *)
From Coq Require Import List NArith ZArith Bool Lia Permutation ZifyBool ZifyNat ZifyN.
From Mila Require Import Lib.Bytes Lib.Machine Model.BinArchive Model.BinFormat Proofs.AMapLemmas.
Import ListNotations.
Local Open Scope N_scope.
Ltac Zify.zify_post_hook ::= Z.div_mod_to_equations.

Definition U32 : N := 2 ^ 32.
Definition lenL {A} (l : list A) : N := N.of_nat (length l).

Record content := mkContent {
  c_data : bytes;                     (* the data region as stored *)
  c_ptrs : amap N;                    (* cell -> destination *)
  c_text : amap bytes;                (* cell -> string *)
  c_labels : amap (list bytes) }.     (* address -> bucket, in order *)

Definition flat (l : list (N * N)) : list N := concat (map (fun p => [fst p; snd p]) l).

(* a label-table entry (address, offset) names the NUL-terminated string at text_start + offset *)
Definition resolved (f : bytes) (tstart : N) (entry : N * N) (named : N * bytes) : Prop :=
  fst named = fst entry /\ cstr_atN f (tstart + snd entry + 32) = Some (snd named).

(* per address, the names in table order are the bucket *)
Definition names_at (addr : N) (names : list (N * bytes)) : list bytes :=
  map snd (filter (fun p => fst p =? addr) names).
Definition labels_grouped (names : list (N * bytes)) (labels : amap (list bytes)) : Prop :=
  NoDup (map fst labels) /\
  forall addr, names_at addr names = match am_get addr labels with Some b => b | None => [] end /\
               (am_get addr labels <> Some []).

Definition conforms (e : endian) (f : bytes) (c : content) : Prop :=
  exists (reserved : bytes) (ptab : list N) (ltab : list (N * N)) (txt : bytes) (names : list (N * bytes)),
    let d := c_data c in
    let dsz := lenN d in
    let tstart := dsz + 4 * lenL ptab + 8 * lenL ltab in
    f = enc e 4 (lenN f) ++ enc e 4 dsz ++ enc e 4 (lenL ptab) ++ enc e 4 (lenL ltab) ++ reserved
        ++ d ++ u32s e ptab ++ u32s e (flat ltab) ++ txt
    /\ length reserved = 16%nat /\ lenN f < U32
    /\ Forall (fun x => x < U32) ptab /\ Forall (fun p => fst p < U32 /\ snd p < U32) ltab
    (* pointer table: every pointer cell and every string cell exactly once, in any order *)
    /\ NoDup (map fst (c_ptrs c) ++ map fst (c_text c))
    /\ Permutation ptab (map fst (c_ptrs c) ++ map fst (c_text c))
    (* a pointer cell holds its target, inside the data *)
    /\ (forall cell dest, In (cell, dest) (c_ptrs c) -> u32_at e d cell = Some dest /\ dest <= dsz)
    (* a string cell holds SOME value beyond the data at which (relative to the end of the header) the string sits *)
    /\ (forall cell s, In (cell, s) (c_text c) ->
          exists v, u32_at e d cell = Some v /\ dsz < v /\ cstr_atN f (v + 32) = Some s)
    (* label table: entries resolve to names; per address the names are the bucket, in order *)
    /\ Forall2 (resolved f tstart) ltab names
    /\ Forall (fun p => fst p <= dsz) names
    /\ labels_grouped names (c_labels c).

(* ------------------------------------------------------------------ byte-level lemmas *)
Lemma lenN_enc e n v : lenN (enc e n v) = N.of_nat n.
Proof. unfold lenN. rewrite length_enc. reflexivity. Qed.

Lemma lenN_u32s e l : lenN (u32s e l) = 4 * lenL l.
Proof.
  unfold u32s, lenL. induction l as [|x r IH]; cbn [map concat length]; [reflexivity|].
  rewrite lenN_app, lenN_enc, IH. lia.
Qed.

Lemma trunc_small v : v < U32 -> trunc_w 32 v = v.
Proof. intros H. unfold trunc_w, maxw. apply N.mod_small. exact H. Qed.

Lemma u32s_cons e x r : u32s e (x :: r) = enc e 4 (trunc_w 32 x) ++ u32s e r.
Proof. reflexivity. Qed.

(* reading the head of a u32 table *)
Lemma u32_at_table_head e pre x r post :
  x < U32 -> u32_at e (pre ++ u32s e (x :: r) ++ post) (lenN pre) = Some x.
Proof.
  intros Hx. rewrite u32s_cons, trunc_small by exact Hx. rewrite <- app_assoc.
  apply u32_at_app_exact. exact Hx.
Qed.

Lemma cstr_atN_string_at f p s : cstr_atN f p = Some s -> string_at f (lenN f) p = Ok s.
Proof.
  unfold cstr_atN, string_at. destruct (N.leb_spec p (lenN f)) as [H|H]; [|discriminate].
  intros E. destruct (N.ltb_spec p (lenN f)) as [H2|H2]; [rewrite E; reflexivity|].
  assert (p = lenN f) by lia. subst p. unfold lenN in E. rewrite Nat2N.id, skipn_all in E. discriminate.
Qed.

Lemma u32_at_Some_bound e d cell v : u32_at e d cell = Some v -> cell + 4 <= lenN d.
Proof.
  unfold u32_at, sliceN. destruct (N.leb_spec (cell + 4) (lenN d)); [lia | discriminate].
Qed.
