(* Basic lemmas about Model/LayeredFS.v: path equality, the association list of a layer,
   prefixes, mkdirs, the top-down search, set_last. *)
From Coq Require Import List NArith Bool Arith Lia.
From Mila Require Import Lib.Bytes Lib.Machine Model.Localize Proofs.LocalizeProofs Model.LayeredFS.
Import ListNotations.

(* ------------------------------------------------------------------ path equality *)
Lemma path_eqb_spec a b : reflect (a = b) (path_eqb a b).
Proof.
  revert b; induction a as [|x a IH]; intros [|y b]; cbn [path_eqb]; try (constructor; congruence).
  destruct (str_eqb_spec x y) as [E|E]; cbn [andb].
  - destruct (IH b) as [E'|E']; constructor; congruence.
  - constructor; congruence.
Qed.
Lemma path_eqb_refl a : path_eqb a a = true.
Proof. destruct (path_eqb_spec a a); congruence. Qed.
Lemma path_eqb_neq a b : a <> b -> path_eqb a b = false.
Proof. intros H. destruct (path_eqb_spec a b); congruence. Qed.
Lemma path_eq_dec (a b : path) : {a = b} + {a <> b}.
Proof. destruct (path_eqb_spec a b); [left | right]; assumption. Qed.

(* ------------------------------------------------------------------ assoc / l_get / l_set *)
Lemma assoc_In p e L : assoc p L = Some e -> In (p, e) L.
Proof.
  induction L as [|[q e'] r IH]; cbn [assoc]; [discriminate|].
  destruct (path_eqb_spec p q) as [->|N]; intros H.
  - injection H as ->. left; reflexivity.
  - right; auto.
Qed.
Lemma assoc_None_notin p L : assoc p L = None -> ~ In p (map fst L).
Proof.
  induction L as [|[q e'] r IH]; cbn [assoc map fst In]; [tauto|].
  destruct (path_eqb_spec p q) as [->|N]; [discriminate|]. intros H [E|E]; [congruence | exact (IH H E)].
Qed.
Lemma assoc_notin_None p L : ~ In p (map fst L) -> assoc p L = None.
Proof.
  induction L as [|[q e'] r IH]; cbn [assoc map fst In]; [reflexivity|].
  intros H. destruct (path_eqb_spec p q) as [->|N]; [exfalso; apply H; left; reflexivity|]. apply IH. tauto.
Qed.
Lemma In_assoc_nodup p e L : NoDup (map fst L) -> In (p, e) L -> assoc p L = Some e.
Proof.
  induction L as [|[q e'] r IH]; cbn [assoc map fst In]; [tauto|].
  intros ND [E|E].
  - injection E as -> ->. rewrite path_eqb_refl. reflexivity.
  - inversion ND as [|? ? Hn ND']; subst. destruct (path_eqb_spec p q) as [->|N].
    + exfalso. apply Hn. apply (in_map fst) in E. exact E.
    + apply IH; assumption.
Qed.
Lemma assoc_some_key p e L : assoc p L = Some e -> In p (map fst L).
Proof. intros H. apply assoc_In in H. apply (in_map fst) in H. exact H. Qed.
Lemma key_assoc_some p L : In p (map fst L) -> exists e, assoc p L = Some e.
Proof.
  intros H. destruct (assoc p L) as [e|] eqn:E; [eauto|]. exfalso. exact (assoc_None_notin _ _ E H).
Qed.

Lemma assoc_remove_same p L : assoc p (l_remove p L) = None.
Proof.
  induction L as [|[q e] r IH]; cbn [l_remove assoc]; [reflexivity|].
  destruct (path_eqb_spec p q) as [->|N]; [exact IH|]. cbn [assoc]. rewrite (path_eqb_neq _ _ N). exact IH.
Qed.
Lemma assoc_remove_other p q L : q <> p -> assoc q (l_remove p L) = assoc q L.
Proof.
  intros N. induction L as [|[k e] r IH]; cbn [l_remove assoc]; [reflexivity|].
  destruct (path_eqb_spec p k) as [<-|N2].
  - rewrite (path_eqb_neq _ _ N). exact IH.
  - cbn [assoc]. rewrite IH. reflexivity.
Qed.
Lemma remove_keys_incl p L x : In x (map fst (l_remove p L)) -> In x (map fst L) /\ x <> p.
Proof.
  induction L as [|[k e] r IH]; cbn [l_remove map fst In]; [tauto|].
  destruct (path_eqb_spec p k) as [<-|N2].
  - intros H. destruct (IH H). split; [right|]; assumption.
  - cbn [map fst In]. intros [E|E]; [subst; split; [left; reflexivity | congruence]|].
    destruct (IH E). split; [right|]; assumption.
Qed.
Lemma remove_In p L x e : In (x, e) (l_remove p L) -> In (x, e) L.
Proof.
  induction L as [|[k e'] r IH]; cbn [l_remove In]; [tauto|].
  destruct (path_eqb_spec p k) as [<-|N2]; [intros H; right; auto|].
  cbn [In]. intros [E|E]; [left | right]; auto.
Qed.
Lemma remove_nodup p L : NoDup (map fst L) -> NoDup (map fst (l_remove p L)).
Proof.
  induction L as [|[k e] r IH]; cbn [l_remove map fst]; intros ND; [constructor|].
  inversion ND as [|? ? Hn ND']; subst.
  destruct (path_eqb_spec p k) as [<-|N2]; [auto|].
  cbn [map fst]. constructor; [|auto]. intros H. apply remove_keys_incl in H. tauto.
Qed.

Lemma l_get_nil L : l_get L [] = Some Dir.
Proof. reflexivity. Qed.
Lemma l_get_cons L c p : l_get L (c :: p) = assoc (c :: p) L.
Proof. reflexivity. Qed.
Lemma l_get_assoc L p : p <> [] -> l_get L p = assoc p L.
Proof. destruct p; [congruence | reflexivity]. Qed.

Lemma l_get_set_same L p e : p <> [] -> l_get (l_set L p e) p = Some e.
Proof. intros H. rewrite l_get_assoc by exact H. unfold l_set. cbn [assoc]. rewrite path_eqb_refl. reflexivity. Qed.
Lemma l_get_set_other L p e q : q <> p -> l_get (l_set L p e) q = l_get L q.
Proof.
  intros N. destruct q as [|c q]; [reflexivity|]. rewrite !l_get_cons. unfold l_set. cbn [assoc].
  rewrite (path_eqb_neq _ _ N). apply assoc_remove_other. exact N.
Qed.

(* ------------------------------------------------------------------ prefixes *)
Lemma in_prefixes p q : In q (prefixes p) <-> exists n, (1 <= n <= length p)%nat /\ q = firstn n p.
Proof.
  unfold prefixes. rewrite in_map_iff. split.
  - intros (n & E & Hin). apply in_seq in Hin. exists n. split; [lia | congruence].
  - intros (n & Hn & E). exists n. split; [congruence|]. apply in_seq. lia.
Qed.
Lemma in_proper_prefixes p q : In q (proper_prefixes p) <-> exists n, (1 <= n < length p)%nat /\ q = firstn n p.
Proof.
  unfold proper_prefixes. rewrite in_map_iff. split.
  - intros (n & E & Hin). apply in_seq in Hin. exists n. split; [lia | congruence].
  - intros (n & Hn & E). exists n. split; [congruence|]. apply in_seq. lia.
Qed.
(* the structural reading: q is a non-empty proper prefix of p *)
Lemma in_proper_prefixes_app p q : In q (proper_prefixes p) <-> q <> [] /\ exists r, r <> [] /\ p = q ++ r.
Proof.
  rewrite in_proper_prefixes. split.
  - intros (n & Hn & ->). split.
    + intros E. apply (f_equal (@length _)) in E. rewrite firstn_length in E. cbn in E. lia.
    + exists (skipn n p). split; [|symmetry; apply firstn_skipn].
      intros E. apply (f_equal (@length _)) in E. rewrite skipn_length in E. cbn in E. lia.
  - intros (Hq & r & Hr & ->). exists (length q). split.
    + rewrite app_length. destruct q; [congruence|]. destruct r; [congruence|]. cbn [length]. lia.
    + rewrite firstn_app, Nat.sub_diag, firstn_all. cbn [firstn]. rewrite app_nil_r. reflexivity.
Qed.
Lemma prefixes_split p : p <> [] -> prefixes p = proper_prefixes p ++ [p].
Proof.
  intros H. unfold prefixes, proper_prefixes. destruct p as [|c p]; [congruence|]. cbn [length].
  replace (S (length p) - 1)%nat with (length p) by lia.
  rewrite seq_S, map_app. cbn [map]. f_equal. f_equal.
  change (1 + length p)%nat with (length (c :: p)). apply firstn_all.
Qed.
Lemma prefixes_nil : prefixes [] = [].
Proof. reflexivity. Qed.
Lemma proper_prefixes_nil : proper_prefixes [] = [].
Proof. reflexivity. Qed.
Lemma in_prefixes_iff p q : In q (prefixes p) <-> In q (proper_prefixes p) \/ (q = p /\ p <> []).
Proof.
  destruct p as [|c p]; [cbn; split; [tauto | intros [H|[_ H]]; [tauto | congruence]]|].
  rewrite prefixes_split by discriminate. rewrite in_app_iff. cbn [In]. split.
  - intros [H|[H|[]]]; [left; exact H | right; split; [symmetry; exact H | discriminate]].
  - intros [H|[H _]]; [left; exact H | right; left; symmetry; exact H].
Qed.
Lemma proper_prefix_neq p q : In q (proper_prefixes p) -> q <> p.
Proof.
  rewrite in_proper_prefixes. intros (n & Hn & ->) E. apply (f_equal (@length _)) in E.
  rewrite firstn_length in E. lia.
Qed.
Lemma proper_prefix_nonempty p q : In q (proper_prefixes p) -> q <> [].
Proof. rewrite in_proper_prefixes_app. tauto. Qed.
Lemma prefix_nonempty p q : In q (prefixes p) -> q <> [].
Proof.
  rewrite in_prefixes. intros (n & Hn & ->) E. apply (f_equal (@length _)) in E.
  rewrite firstn_length in E. cbn in E. lia.
Qed.
(* a proper prefix of a proper prefix (of a prefix) is a proper prefix *)
Lemma proper_prefixes_trans p q r : In q (proper_prefixes p) -> In r (proper_prefixes q) -> In r (proper_prefixes p).
Proof.
  rewrite !in_proper_prefixes. intros (n & Hn & ->) (m & Hm & ->). rewrite firstn_length in Hm.
  exists m. split; [lia|]. rewrite firstn_firstn. f_equal. lia.
Qed.
Lemma prefixes_proper_trans p q r : In q (prefixes p) -> In r (proper_prefixes q) -> In r (proper_prefixes p).
Proof.
  rewrite in_prefixes, !in_proper_prefixes. intros (n & Hn & ->) (m & Hm & ->). rewrite firstn_length in Hm.
  exists m. split; [lia|]. rewrite firstn_firstn. f_equal. lia.
Qed.
Lemma prefixes_seq_snoc (p : path) k : (k < length p)%nat ->
  map (fun n => firstn n p) (seq 1 (S k)) = map (fun n => firstn n p) (seq 1 k) ++ [firstn (S k) p].
Proof. intros _. rewrite seq_S, map_app. reflexivity. Qed.

(* ------------------------------------------------------------------ mkdirs *)
Definition inb (q : path) (qs : list path) : bool := existsb (path_eqb q) qs.
Lemma inb_spec q qs : inb q qs = true <-> In q qs.
Proof.
  unfold inb. rewrite existsb_exists. split.
  - intros (x & Hin & E). destruct (path_eqb_spec q x); [subst; exact Hin | discriminate].
  - intros H. exists q. split; [exact H | apply path_eqb_refl].
Qed.

Lemma l_get_mkdir1 L q r :
  l_get (mkdir1 L q) r = match l_get L r with Some e => Some e | None => if path_eqb r q then Some Dir else None end.
Proof.
  unfold mkdir1. destruct (l_get L q) as [e|] eqn:Eq.
  - destruct (l_get L r) as [e'|] eqn:Er; [reflexivity|].
    destruct (path_eqb_spec r q) as [->|N]; [congruence | reflexivity].
  - destruct r as [|c r]; [reflexivity|]. rewrite !l_get_cons. cbn [assoc].
    destruct (path_eqb_spec (c :: r) q) as [<-|N].
    + rewrite l_get_cons in Eq. rewrite Eq. reflexivity.
    + destruct (assoc (c :: r) L); reflexivity.
Qed.

Lemma l_get_mkdirs qs : forall L r,
  l_get (mkdirs L qs) r = match l_get L r with Some e => Some e | None => if inb r qs then Some Dir else None end.
Proof.
  induction qs as [|q qs IH]; intros L r; cbn [mkdirs fold_left].
  - destruct (l_get L r); reflexivity.
  - change (fold_left mkdir1 qs (mkdir1 L q)) with (mkdirs (mkdir1 L q) qs). rewrite IH, l_get_mkdir1.
    destruct (l_get L r) as [e|]; [reflexivity|]. cbn [inb existsb].
    destruct (path_eqb r q); reflexivity.
Qed.

Lemma mkdirs_id qs : forall L, (forall q, In q qs -> l_get L q <> None) -> mkdirs L qs = L.
Proof.
  induction qs as [|q qs IH]; intros L H; cbn [mkdirs fold_left]; [reflexivity|].
  assert (E : mkdir1 L q = L).
  { unfold mkdir1. destruct (l_get L q) eqn:Eq; [reflexivity|]. exfalso. apply (H q); [left; reflexivity | exact Eq]. }
  rewrite E. apply IH. intros q' Hq'. apply H. right. exact Hq'.
Qed.
Lemma mkdirs_app L a b : mkdirs L (a ++ b) = mkdirs (mkdirs L a) b.
Proof. unfold mkdirs. apply fold_left_app. Qed.

Lemma blocked_false L qs : blocked L qs = false <-> forall q, In q qs -> is_file_at L q = false.
Proof.
  unfold blocked. split.
  - intros H q Hq. destruct (is_file_at L q) eqn:E; [|reflexivity].
    assert (existsb (is_file_at L) qs = true) by (apply existsb_exists; eauto). congruence.
  - intros H. destruct (existsb (is_file_at L) qs) eqn:E; [|reflexivity].
    apply existsb_exists in E. destruct E as (q & Hq & E). rewrite (H q Hq) in E. discriminate.
Qed.

(* ------------------------------------------------------------------ search_top *)
Lemma search_top_none P ls : search_top P ls = None <-> forall L, In L ls -> P L = false.
Proof.
  induction ls as [|L r IH]; cbn [search_top In]; [tauto|].
  destruct (search_top P r) as [[i L']|] eqn:E.
  - split; [discriminate|]. intros H. exfalso.
    assert (X : forall L0, In L0 r -> P L0 = false) by (intros; apply H; right; assumption).
    apply IH in X. discriminate.
  - destruct (P L) eqn:EP; split; try discriminate.
    + intros H. rewrite (H L) in EP by (left; reflexivity). discriminate.
    + intros _ L0 [<-|H]; [exact EP | apply (proj1 IH eq_refl); exact H].
    + reflexivity.
Qed.

Lemma search_top_some P ls i L :
  search_top P ls = Some (i, L) <->
  nth_error ls i = Some L /\ P L = true /\ (forall j L', (i < j)%nat -> nth_error ls j = Some L' -> P L' = false).
Proof.
  revert i L. induction ls as [|L0 r IH]; intros i L; cbn [search_top].
  - split; [discriminate|]. intros (H & _). destruct i; discriminate.
  - destruct (search_top P r) as [[i' L']|] eqn:E in |- *.
    + split.
      * intros H. injection H as <- <-. apply IH in E. destruct E as (E1 & E2 & E3). repeat split; auto.
        intros j L2 Hj Hn. destruct j as [|j]; [lia|]. cbn [nth_error] in Hn. eapply E3; [|exact Hn]. lia.
      * intros (H1 & H2 & H3). destruct i as [|i].
        -- exfalso. apply (proj1 (IH i' L')) in E. destruct E as (E1 & E2 & _).
           rewrite (H3 (S i') L') in E2; [discriminate | lia | exact E1].
        -- cbn [nth_error] in H1.
           assert (X : search_top P r = Some (i, L)).
           { apply IH. repeat split; auto. intros j L2 Hj Hn. apply (H3 (S j) L2); [lia | exact Hn]. }
           rewrite X in E. injection E as <- <-. reflexivity.
    + assert (Hnone := proj1 (search_top_none P r) E). destruct (P L0) eqn:EP; split.
      * intros H. injection H as <- <-. repeat split; auto. intros j L2 Hj Hn.
        destruct j as [|j]; [lia|]. cbn [nth_error] in Hn. apply Hnone. eapply nth_error_In; eauto.
      * intros (H1 & H2 & H3). destruct i as [|i]; [cbn in H1; congruence|].
        cbn [nth_error] in H1. rewrite (Hnone L) in H2; [discriminate | eapply nth_error_In; eauto].
      * discriminate.
      * intros (H1 & H2 & H3). destruct i as [|i]; [cbn in H1; congruence|].
        cbn [nth_error] in H1. rewrite (Hnone L) in H2; [discriminate | eapply nth_error_In; eauto].
Qed.

Lemma search_top_exists P ls : (exists L, In L ls /\ P L = true) <-> exists i L, search_top P ls = Some (i, L).
Proof.
  split.
  - intros (L & Hin & HP). destruct (search_top P ls) as [[i L']|] eqn:E; [eauto|].
    rewrite (proj1 (search_top_none P ls) E L Hin) in HP. discriminate.
  - intros (i & L & E). apply search_top_some in E. destruct E as (E1 & E2 & _).
    exists L. split; [eapply nth_error_In; eauto | exact E2].
Qed.
Lemma search_top_existsb P ls :
  match search_top P ls with Some _ => true | None => false end = existsb P ls.
Proof.
  destruct (search_top P ls) as [[i L]|] eqn:E.
  - symmetry. apply existsb_exists. apply search_top_some in E. destruct E as (E1 & E2 & _).
    exists L. split; [eapply nth_error_In; eauto | exact E2].
  - destruct (existsb P ls) eqn:X; [|reflexivity]. apply existsb_exists in X. destruct X as (L & Hin & HP).
    rewrite (proj1 (search_top_none P ls) E L Hin) in HP. discriminate.
Qed.
(* the last layer wins whenever it satisfies the predicate *)
Lemma search_top_last P a x : P x = true -> search_top P (a ++ [x]) = Some (length a, x).
Proof.
  intros H. induction a as [|y a IH]; cbn [app search_top length].
  - rewrite H. reflexivity.
  - rewrite IH. reflexivity.
Qed.

(* ------------------------------------------------------------------ set_last *)
Lemma set_last_cons z l y : l <> [] -> set_last (z :: l) y = z :: set_last l y.
Proof. destruct l; [congruence | reflexivity]. Qed.
Lemma set_last_app a x y : set_last (a ++ [x]) y = a ++ [y].
Proof.
  induction a as [|z a IH]; [reflexivity|]. cbn [app].
  rewrite set_last_cons by (destruct a; discriminate). rewrite IH. reflexivity.
Qed.
Lemma rev_cons_inv {A} (ls : list A) top r : rev ls = top :: r -> ls = rev r ++ [top].
Proof. intros H. apply (f_equal (@rev A)) in H. rewrite rev_involutive in H. exact H. Qed.
Lemma last_snoc {A} (a : list A) x d : last (a ++ [x]) d = x.
Proof. apply last_last. Qed.
Lemma removelast_snoc {A} (a : list A) x : removelast (a ++ [x]) = a.
Proof. apply removelast_last. Qed.
