(* Lemmas about the stack of layers (property C12): which layer a read takes its bytes from,
   where a write goes and what it changes, read-after-write relative to the codec's round-trip
   law, the existence queries, the configuration table. *)
From Coq Require Import List NArith Bool Arith Lia.
From Mila Require Import Lib.Bytes Lib.Machine Model.Localize Proofs.LocalizeProofs Model.LayeredFS Proofs.LayeredFSBase.
Import ListNotations.

(* ------------------------------------------------------------------ one layer: write / create_dir *)
Lemma l_is_file_read L a : l_is_file L a = true -> exists raw, l_read L a = Some raw /\ l_get L (fst a) = Some (File raw) /\ snd a = false.
Proof.
  unfold l_is_file, l_read. destruct (l_get L (fst a)) as [[b|]|]; try discriminate.
  destruct (snd a); [discriminate|]. intros _. eauto.
Qed.
Lemma l_read_is_file L a raw : l_read L a = Some raw -> l_is_file L a = true.
Proof.
  unfold l_is_file, l_read. destruct (l_get L (fst a)) as [[b|]|]; try discriminate.
  destruct (snd a); [discriminate | reflexivity].
Qed.

Lemma not_blocked_prefix_dir L qs q : blocked L qs = false -> In q qs ->
  match l_get L q with Some e => Some e | None => Some Dir end = Some Dir.
Proof.
  intros B Hq. apply (proj1 (blocked_false L qs) B) in Hq. unfold is_file_at in Hq.
  destruct (l_get L q) as [[b|]|]; congruence.
Qed.

Definition after_mkdirs (L : layer) (qs : list path) (q : path) : option entry :=
  match l_get L q with Some e => Some e | None => if inb q qs then Some Dir else None end.

Lemma l_write_ok L p tr c L' : l_write L (p, tr) c = (L', true) ->
  tr = false /\ p <> [] /\ l_get L' p = Some (File c) /\
  (forall q, In q (proper_prefixes p) -> l_get L' q = Some Dir) /\
  (forall q, q <> p -> l_get L' q = after_mkdirs L (proper_prefixes p) q) /\
  l_get L p <> Some Dir /\ blocked L (proper_prefixes p) = false.
Proof.
  unfold l_write. destruct (blocked L (proper_prefixes p)) eqn:B; [intros H; inversion H|].
  destruct tr; [intros H; inversion H|].
  destruct (l_get (mkdirs L (proper_prefixes p)) p) as [[b|]|] eqn:G; intros H; inversion H; subst L'; clear H.
  all: assert (Hp : p <> []) by (intros ->; cbn in G; congruence).
  all: assert (G0 : l_get L p <> Some Dir)
         by (intros X; rewrite l_get_mkdirs, X in G; congruence).
  all: repeat split; auto.
  all: try (apply l_get_set_same; exact Hp).
  all: try (intros q Hq; rewrite l_get_set_other by (apply proper_prefix_neq; exact Hq);
            rewrite l_get_mkdirs; pose proof (not_blocked_prefix_dir L _ q B Hq) as X;
            destruct (l_get L q); [exact X|]; rewrite (proj2 (inb_spec _ _) Hq); reflexivity).
  all: intros q Hq; rewrite l_get_set_other by exact Hq; apply l_get_mkdirs.
Qed.

Lemma l_write_fail L p tr c L' : l_write L (p, tr) c = (L', false) ->
  (L' = L \/ (L' = mkdirs L (proper_prefixes p) /\ blocked L (proper_prefixes p) = false /\
              (tr = true \/ l_get L p = Some Dir))).
Proof.
  unfold l_write. destruct (blocked L (proper_prefixes p)) eqn:B; [intros H; inversion H; left; reflexivity|].
  destruct tr; [intros H; inversion H; right; auto|].
  destruct (l_get (mkdirs L (proper_prefixes p)) p) as [[b|]|] eqn:G; intros H; inversion H; subst L'; clear H.
  right. repeat split; auto. right. rewrite l_get_mkdirs in G.
  destruct (l_get L p) as [e|] eqn:E; [exact G|].
  destruct (inb p (proper_prefixes p)) eqn:I; [|discriminate].
  apply inb_spec in I. exfalso. exact (proper_prefix_neq _ _ I eq_refl).
Qed.

Lemma l_create_dir_spec L a L' ok : l_create_dir L a = (L', ok) ->
  (ok = false -> L' = L /\ blocked L (prefixes (fst a)) = true) /\
  (ok = true -> blocked L (prefixes (fst a)) = false /\ L' = mkdirs L (prefixes (fst a)) /\
                (forall q, In q (prefixes (fst a)) -> l_get L' q = Some Dir) /\
                (forall q, l_get L' q = after_mkdirs L (prefixes (fst a)) q)).
Proof.
  unfold l_create_dir. destruct (blocked L (prefixes (fst a))) eqn:B; intros H; inversion H; subst; clear H.
  - split; [auto | discriminate].
  - split; [discriminate|]. intros _. repeat split; auto.
    + intros q Hq. rewrite l_get_mkdirs. pose proof (not_blocked_prefix_dir L _ q B Hq) as X.
      destruct (l_get L q); [exact X|]. rewrite (proj2 (inb_spec _ _) Hq). reflexivity.
    + intros q. apply l_get_mkdirs.
Qed.

(* ------------------------------------------------------------------ the address of an operation *)
Lemma fs_addr_state S S' p loc : conf S' = conf S -> lng S' = lng S -> fs_addr S' p loc = fs_addr S p loc.
Proof. intros E1 E2. unfold fs_addr, fs_actual. rewrite E1, E2. reflexivity. Qed.

Lemma fs_addr_unloc S p s a : fs_addr S p false = FOk (s, a) <-> s = p /\ parse_path p = Some a.
Proof.
  unfold fs_addr, fs_actual. cbn [fbind]. destruct (parse_path p) as [a'|]; split.
  - intros H. injection H as <- <-. auto.
  - intros (-> & H). injection H as <-. reflexivity.
  - discriminate.
  - intros (_ & H). discriminate.
Qed.

(* a localized operation addresses localize p *)
Lemma fs_addr_loc S p p' : localize (c_loc (conf S)) (lng S) p = LOk p' -> fs_addr S p true = fs_addr S p' false.
Proof. intros H. unfold fs_addr, fs_actual. rewrite H. reflexivity. Qed.

(* ------------------------------------------------------------------ queries *)
Section Queries.
  Variable S : fsys.
  Variables (p s : str) (loc : bool) (a : ppath).
  Hypothesis Haddr : fs_addr S p loc = FOk (s, a).

  Lemma fs_exists_spec : fs_exists S p loc = FOk (existsb (fun L => l_exists L a) (layers S)).
  Proof. unfold fs_exists. rewrite Haddr. cbn [fbind snd]. rewrite search_top_existsb. reflexivity. Qed.
  Lemma fs_file_exists_spec : fs_file_exists S p loc = FOk (existsb (fun L => l_is_file L a) (layers S)).
  Proof. unfold fs_file_exists. rewrite Haddr. cbn [fbind snd]. rewrite search_top_existsb. reflexivity. Qed.
  Lemma fs_directory_exists_spec : fs_directory_exists S p loc = FOk (existsb (fun L => l_is_dir L a) (layers S)).
  Proof. unfold fs_directory_exists. rewrite Haddr. cbn [fbind snd]. rewrite search_top_existsb. reflexivity. Qed.

  Lemma fs_resolve_spec :
    fs_resolve S p loc = FOk (match search_top (fun L => l_exists L a) (layers S) with
                              | Some (i, _) => Some (i, s) | None => None end).
  Proof.
    unfold fs_resolve. unfold fs_addr in Haddr. destruct (fs_actual S p loc) as [s'|e|k]; cbn [fbind] in Haddr; try discriminate.
    destruct (parse_path s') as [a'|]; [|discriminate]. injection Haddr as -> ->. reflexivity.
  Qed.
End Queries.

(* ------------------------------------------------------------------ read / write *)
Section Codec.
  Variable compress decompress : cfmt -> bytes -> outcome bytes.

  Lemma decode_not_notfound S p raw : decode_by_name decompress S p raw <> FErr ENotFound.
  Proof.
    unfold decode_by_name, lift_codec. destruct (is_compressed _ p); [|discriminate].
    destruct (decompress _ raw); discriminate.
  Qed.

  Lemma fs_read_spec S p loc s a :
    fs_addr S p loc = FOk (s, a) ->
    fs_read decompress S p loc =
      match search_top (fun L => l_is_file L a) (layers S) with
      | Some (_, L) => match l_read L a with Some raw => decode_by_name decompress S p raw | None => FErr EUnmodelled end
      | None => FErr ENotFound
      end.
  Proof. intros H. unfold fs_read. rewrite H. reflexivity. Qed.

  (* read = the file of the highest layer that holds a FILE at the addressed location *)
  Theorem read_top_wins S p loc s a r :
    fs_addr S p loc = FOk (s, a) ->
    (fs_read decompress S p loc = r /\ r <> FErr ENotFound <->
     exists i L raw, nth_error (layers S) i = Some L /\ l_read L a = Some raw /\
                     (forall j L', (i < j)%nat -> nth_error (layers S) j = Some L' -> l_is_file L' a = false) /\
                     decode_by_name decompress S p raw = r).
  Proof.
    intros H. rewrite (fs_read_spec S p loc s a H). split.
    - intros (E & NF). destruct (search_top _ (layers S)) as [[i L]|] eqn:T; [|congruence].
      apply search_top_some in T. destruct T as (T1 & T2 & T3).
      destruct (l_is_file_read L a T2) as (raw & R & _). rewrite R in E. exists i, L, raw. auto.
    - intros (i & L & raw & H1 & H2 & H3 & H4).
      assert (T : search_top (fun L => l_is_file L a) (layers S) = Some (i, L)).
      { apply search_top_some. repeat split; auto. eapply l_read_is_file; eauto. }
      rewrite T, H2. split; [exact H4|]. rewrite <- H4. apply decode_not_notfound.
  Qed.

  Theorem read_not_found S p loc s a :
    fs_addr S p loc = FOk (s, a) ->
    (fs_read decompress S p loc = FErr ENotFound <-> forall L, In L (layers S) -> l_is_file L a = false).
  Proof.
    intros H. rewrite (fs_read_spec S p loc s a H). rewrite <- search_top_none.
    destruct (search_top _ (layers S)) as [[i L]|] eqn:T; [|tauto].
    split; [|discriminate]. intros E. exfalso. apply search_top_some in T. destruct T as (_ & T2 & _).
    destruct (l_is_file_read L a T2) as (raw & R & _). rewrite R in E. exact (decode_not_notfound _ _ _ E).
  Qed.

  (* everything fs_write can do, in one statement *)
  Lemma fs_write_cases S p b loc S' r : fs_write compress S p b loc = (S', r) ->
    (S' = S /\ r <> FOk tt) \/
    (exists s pp tr c top rest top' ok,
        fs_addr S p loc = FOk (s, (pp, tr)) /\ encode_by_name compress S p b = FOk c /\
        layers S = rest ++ [top] /\ l_write top (pp, tr) c = (top', ok) /\
        S' = mkFs (rest ++ [top']) (conf S) (lng S) /\ r = (if ok then FOk tt else FErr EWrite)).
  Proof.
    unfold fs_write. destruct (fs_addr S p loc) as [[s [pp tr]]|e|k] eqn:A.
    2,3: intros H; inversion H; left; split; [reflexivity | discriminate].
    destruct (encode_by_name compress S p b) as [c|e|k] eqn:En.
    2,3: intros H; inversion H; left; split; [reflexivity | discriminate].
    destruct (rev (layers S)) as [|top rrest] eqn:R.
    - intros H; inversion H; left; split; [reflexivity | discriminate].
    - cbn [snd]. destruct (l_write top (pp, tr) c) as [top' ok] eqn:W. intros H; inversion H; subst; clear H. right.
      apply rev_cons_inv in R. exists s, pp, tr, c, top, (rev rrest), top', ok.
      repeat split; auto. rewrite R, set_last_app. reflexivity.
  Qed.

  (* lower layers are never touched; configuration and language never change *)
  Theorem write_lower_untouched S p b loc S' r : fs_write compress S p b loc = (S', r) ->
    conf S' = conf S /\ lng S' = lng S /\ length (layers S') = length (layers S) /\
    removelast (layers S') = removelast (layers S).
  Proof.
    intros H. apply fs_write_cases in H. destruct H as [(-> & _)|(s & pp & tr & c & top & rest & top' & ok & A & En & Ly & W & -> & _)].
    - auto.
    - simpl. rewrite Ly, !removelast_snoc, !app_length. auto.
  Qed.

  (* a successful write: the top layer now has File (encoded bytes) at the addressed location,
     directories at all its ancestors, and is otherwise unchanged *)
  Theorem write_ok_top S p b loc S' : fs_write compress S p b loc = (S', FOk tt) ->
    exists s pp c, fs_addr S p loc = FOk (s, (pp, false)) /\ encode_by_name compress S p b = FOk c /\ pp <> [] /\
      layers S <> [] /\
      let top := last (layers S) [] in let top' := last (layers S') [] in
      l_get top' pp = Some (File c) /\
      (forall q, In q (proper_prefixes pp) -> l_get top' q = Some Dir) /\
      (forall q, q <> pp -> ~ (In q (proper_prefixes pp) /\ l_get top q = None) -> l_get top' q = l_get top q) /\
      l_get top pp <> Some Dir /\ (forall q, In q (proper_prefixes pp) -> is_file_at top q = false).
  Proof.
    intros H. apply fs_write_cases in H. destruct H as [(_ & N)|(s & pp & tr & c & top & rest & top' & ok & A & En & Ly & W & -> & R)]; [congruence|].
    destruct ok; [|discriminate]. apply l_write_ok in W. destruct W as (-> & Hp & G & Anc & Oth & ND & B).
    exists s, pp, c. split; [exact A|]. split; [exact En|]. split; [exact Hp|].
    split; [rewrite Ly; destruct rest; discriminate|].
    simpl layers. rewrite Ly, !last_snoc. cbv zeta. split; [exact G|]. split; [exact Anc|]. split; [|split; [exact ND|]].
    - intros q Hq Hn. rewrite (Oth q Hq). unfold after_mkdirs. destruct (l_get top q) eqn:E; [reflexivity|].
      destruct (inb q (proper_prefixes pp)) eqn:I; [|reflexivity]. apply inb_spec in I. exfalso. apply Hn. auto.
    - apply blocked_false. exact B.
  Qed.

  (* a failed write: nothing changes, except that for a path with a trailing '/' (or an existing
     directory as target in a layer whose ancestors are missing - impossible in a well-formed layer)
     the missing ancestor directories may have been created in the top layer *)
  Theorem write_fail_top S p b loc S' r : fs_write compress S p b loc = (S', r) -> r <> FOk tt ->
    S' = S \/
    (exists s pp tr, fs_addr S p loc = FOk (s, (pp, tr)) /\
       let top := last (layers S) [] in let top' := last (layers S') [] in
       (tr = true \/ l_get top pp = Some Dir) /\
       forall q, l_get top' q = l_get top q \/
                 (In q (proper_prefixes pp) /\ l_get top q = None /\ l_get top' q = Some Dir)).
  Proof.
    intros H N. apply fs_write_cases in H. destruct H as [(-> & _)|(s & pp & tr & c & top & rest & top' & ok & A & En & Ly & W & -> & R)]; [left; reflexivity|].
    destruct ok; [congruence|]. apply l_write_fail in W. destruct W as [->|(-> & B & T)].
    - left. destruct S as [ls cf lg]. cbn [layers conf lng] in *. rewrite Ly. reflexivity.
    - right. exists s, pp, tr. split; [exact A|]. simpl layers. rewrite Ly, !last_snoc. split; [exact T|].
      intros q. rewrite l_get_mkdirs. destruct (l_get top q) eqn:E; [left; reflexivity|].
      destruct (inb q (proper_prefixes pp)) eqn:I; [|left; reflexivity]. right. apply inb_spec in I. auto.
  Qed.

  (* ---- read after write, relative to the codec's round-trip law ---- *)
  Section RoundTrip.
    Variable dom : cfmt -> bytes -> Prop.
    Hypothesis round_trip : forall f b c, dom f b -> compress f b = Ok c -> decompress f c = Ok b.

    Lemma decode_encode S p b c : dom (c_comp (conf S)) b ->
      encode_by_name compress S p b = FOk c -> decode_by_name decompress S p c = FOk b.
    Proof.
      unfold encode_by_name, decode_by_name, lift_codec. intros D. destruct (is_compressed _ p).
      - destruct (compress _ b) as [c'|e|k] eqn:E; try discriminate. intros H. injection H as ->.
        rewrite (round_trip _ _ _ D E). reflexivity.
      - intros H. injection H as ->. reflexivity.
    Qed.

    Theorem read_after_write S p b loc S' :
      fs_write compress S p b loc = (S', FOk tt) -> dom (c_comp (conf S)) b ->
      fs_read decompress S' p loc = FOk b.
    Proof.
      intros H D. apply fs_write_cases in H. destruct H as [(_ & N)|(s & pp & tr & c & top & rest & top' & ok & A & En & Ly & W & -> & R)]; [congruence|].
      destruct ok; [|discriminate]. apply l_write_ok in W. destruct W as (-> & Hp & G & _).
      remember (mkFs (rest ++ [top']) (conf S) (lng S)) as S1 eqn:ES.
      assert (A' : fs_addr S1 p loc = FOk (s, (pp, false))) by (rewrite (fs_addr_state S S1) by (subst S1; reflexivity); exact A).
      rewrite (fs_read_spec S1 p loc _ _ A').
      assert (F : l_is_file top' (pp, false) = true) by (unfold l_is_file; cbn [fst snd]; rewrite G; reflexivity).
      assert (EL : layers S1 = rest ++ [top']) by (subst S1; reflexivity). rewrite EL.
      rewrite (search_top_last (fun L => l_is_file L (pp, false)) rest top' F).
      unfold l_read. cbn [fst snd]. rewrite G.
      assert (ED : decode_by_name decompress S1 p c = decode_by_name decompress S p c) by (subst S1; reflexivity).
      rewrite ED. apply decode_encode; assumption.
    Qed.
  End RoundTrip.

  (* after a successful write the queries find the file in the top layer *)
  Theorem queries_after_write S p b loc S' :
    fs_write compress S p b loc = (S', FOk tt) ->
    fs_file_exists S' p loc = FOk true /\ fs_exists S' p loc = FOk true /\
    exists s, fs_resolve S' p loc = FOk (Some (length (layers S') - 1, s))%nat.
  Proof.
    intros H. apply fs_write_cases in H. destruct H as [(_ & N)|(s & pp & tr & c & top & rest & top' & ok & A & En & Ly & W & -> & R)]; [congruence|].
    destruct ok; [|discriminate]. apply l_write_ok in W. destruct W as (-> & Hp & G & _).
    remember (mkFs (rest ++ [top']) (conf S) (lng S)) as S1 eqn:ES.
    assert (A' : fs_addr S1 p loc = FOk (s, (pp, false))) by (rewrite (fs_addr_state S S1) by (subst S1; reflexivity); exact A).
    assert (EL : layers S1 = rest ++ [top']) by (subst S1; reflexivity).
    assert (F : l_is_file top' (pp, false) = true) by (unfold l_is_file; cbn [fst snd]; rewrite G; reflexivity).
    assert (E : l_exists top' (pp, false) = true) by (unfold l_exists; rewrite F; reflexivity).
    rewrite (fs_file_exists_spec S1 p s loc _ A'), (fs_exists_spec S1 p s loc _ A'), (fs_resolve_spec S1 p s loc _ A'), EL.
    rewrite !existsb_app. cbn [existsb]. rewrite F, E, !orb_true_r.
    rewrite (search_top_last (fun L => l_exists L (pp, false)) rest top' E).
    repeat split. exists s. rewrite app_length. cbn [length]. do 3 f_equal. lia.
  Qed.

  (* ---- create_dir ---- *)
  Lemma fs_create_dir_cases S p loc S' r : fs_create_dir S p loc = (S', r) ->
    (S' = S /\ r <> FOk tt) \/
    (exists s a top rest top' ok,
        fs_addr S p loc = FOk (s, a) /\ layers S = rest ++ [top] /\ l_create_dir top a = (top', ok) /\
        S' = mkFs (rest ++ [top']) (conf S) (lng S) /\ r = (if ok then FOk tt else FErr EIo)).
  Proof.
    unfold fs_create_dir. destruct (fs_addr S p loc) as [[s a]|e|k] eqn:A.
    2,3: intros H; inversion H; left; split; [reflexivity | discriminate].
    destruct (rev (layers S)) as [|top rrest] eqn:R.
    - intros H; inversion H; left; split; [reflexivity | discriminate].
    - cbn [snd]. destruct (l_create_dir top a) as [top' ok] eqn:W. intros H; inversion H; subst; clear H. right.
      apply rev_cons_inv in R. exists s, a, top, (rev rrest), top', ok.
      repeat split; auto. rewrite R, set_last_app. reflexivity.
  Qed.

  Theorem create_dir_top_only S p loc S' r : fs_create_dir S p loc = (S', r) ->
    conf S' = conf S /\ lng S' = lng S /\ removelast (layers S') = removelast (layers S) /\
    (r <> FOk tt -> S' = S) /\
    (r = FOk tt -> exists s a, fs_addr S p loc = FOk (s, a) /\
        let top := last (layers S) [] in let top' := last (layers S') [] in
        (forall q, In q (prefixes (fst a)) -> l_get top' q = Some Dir) /\
        (forall q, ~ In q (prefixes (fst a)) -> l_get top' q = l_get top q) /\
        (forall q, l_get top q <> None -> l_get top' q = l_get top q)).
  Proof.
    intros H. apply fs_create_dir_cases in H.
    destruct H as [(-> & N)|(s & a & top & rest & top' & ok & A & Ly & W & -> & R)].
    - repeat split; auto. intros E. congruence.
    - simpl. rewrite Ly, !removelast_snoc. repeat split; auto.
      + intros N. destruct ok; [congruence|]. apply l_create_dir_spec in W. destruct W as (W & _).
        destruct (W eq_refl) as (-> & _). destruct S as [ls cf lg]. cbn [layers conf lng] in *. rewrite Ly. reflexivity.
      + intros E. destruct ok; [|rewrite R in E; discriminate]. apply l_create_dir_spec in W. destruct W as (_ & W).
        destruct (W eq_refl) as (B & -> & Hd & Hg). exists s, a. split; [exact A|]. rewrite !last_snoc. repeat split.
        * exact Hd.
        * intros q Hq. rewrite Hg. unfold after_mkdirs. destruct (l_get top q); [reflexivity|].
          destruct (inb q (prefixes (fst a))) eqn:I; [|reflexivity]. apply inb_spec in I. contradiction.
        * intros q Hq. rewrite Hg. unfold after_mkdirs. destruct (l_get top q); [reflexivity | congruence].
  Qed.
End Codec.

(* ------------------------------------------------------------------ str::ends_with *)
Lemma starts_with_spec pre s : starts_with pre s = true <-> exists r, s = pre ++ r.
Proof.
  revert s; induction pre as [|x pre IH]; intros s; cbn [starts_with].
  - split; [intros _; exists s; reflexivity | reflexivity].
  - destruct s as [|y s]; [split; [discriminate | intros (r & H); discriminate]|].
    rewrite andb_true_iff, IH, N.eqb_eq. split.
    + intros (-> & r & ->). exists r. reflexivity.
    + intros (r & H). injection H as -> ->. eauto.
Qed.
Lemma ends_with_spec suf s : ends_with suf s = true <-> exists a, s = a ++ suf.
Proof.
  unfold ends_with. rewrite starts_with_spec. split.
  - intros (r & H). exists (rev r). apply (f_equal (@rev N)) in H. rewrite rev_involutive, rev_app_distr, rev_involutive in H. exact H.
  - intros (a & ->). exists (rev a). apply rev_app_distr.
Qed.
