(* Lemmas about Model/TextMap.v (property C07). *)
From Coq Require Import List NArith Arith Lia Bool.
From Mila Require Import Model.TextMap.
Import ListNotations.
Local Open Scope N_scope.

(* ---------- string equality ---------- *)
Lemma str_eqb_spec a b : reflect (a = b) (str_eqb a b).
Proof.
  revert b; induction a as [|x a IH]; intros [|y b]; cbn [str_eqb]; try (constructor; congruence).
  destruct (N.eqb_spec x y) as [E|E]; cbn [andb].
  - destruct (IH b) as [E'|E']; constructor; congruence.
  - constructor; congruence.
Qed.
Lemma str_eqb_refl a : str_eqb a a = true.
Proof. destruct (str_eqb_spec a a); congruence. Qed.
Lemma str_eqb_neq a b : a <> b -> str_eqb a b = false.
Proof. destruct (str_eqb_spec a b); congruence. Qed.

(* ---------- escaping ---------- *)
Fixpoint no_bs_n (s : str) : Prop :=
  match s with
  | [] => True
  | c1 :: r1 => match r1 with c2 :: _ => ~ (c1 = BS /\ c2 = LN) | [] => True end /\ no_bs_n r1
  end.

Lemma list_ind2 {A} (P : list A -> Prop) :
  P [] -> (forall a, P [a]) -> (forall a b l, P l -> P (b :: l) -> P (a :: b :: l)) -> forall l, P l.
Proof.
  intros H0 H1 H2 l. assert (H : P l /\ forall a, P (a :: l)).
  { induction l as [|b l [IHl IHbl]].
    - split; [exact H0 | exact H1].
    - split; [apply IHbl |]. intros a. apply H2; [exact IHl | apply IHbl]. }
  tauto.
Qed.

Lemma unescape_head c r : exists c' r', unescape (c :: r) = c' :: r' /\ (c' = c \/ c' = NL).
Proof. destruct r as [|c2 r2]; cbn [unescape]; [eauto|]. destruct (andb _ _); eauto. Qed.

Lemma unescape_normal : forall m, no_bs_n (unescape m).
Proof.
  induction m as [| a | a b l IHl IHbl] using list_ind2.
  - exact I.
  - cbn. auto.
  - cbn [unescape]. destruct (N.eqb_spec a BS) as [Ha|Ha]; destruct (N.eqb_spec b LN) as [Hb|Hb]; cbn [andb].
    + destruct (unescape l) as [|x xs] eqn:E; cbn [no_bs_n]; [auto|].
      split; [|exact IHl]. intros [H _]. unfold NL, BS in H. discriminate.
    + change (no_bs_n (a :: unescape (b :: l))).
      destruct (unescape_head b l) as (c' & r' & E & Hc). rewrite E in *. cbn [no_bs_n]. split; [|exact IHbl].
      intros [_ H]. destruct Hc as [->| ->]; [contradiction | unfold NL, LN in H; discriminate].
    + change (no_bs_n (a :: unescape (b :: l))).
      destruct (unescape_head b l) as (c' & r' & E & Hc). rewrite E in *. cbn [no_bs_n]. split; [|exact IHbl].
      intros [H _]. contradiction.
    + change (no_bs_n (a :: unescape (b :: l))).
      destruct (unescape_head b l) as (c' & r' & E & Hc). rewrite E in *. cbn [no_bs_n]. split; [|exact IHbl].
      intros [H _]. contradiction.
Qed.

Lemma escape_inverse : forall s, no_bs_n s -> unescape (escape s) = s.
Proof.
  induction s as [|c r IH]; intros H; [reflexivity|].
  cbn [no_bs_n] in H. destruct H as [Hh Ht]. specialize (IH Ht).
  cbn [escape]. destruct (N.eqb_spec c NL) as [Hc|Hc].
  - subst c. cbn [unescape]. unfold BS, LN. cbn [N.eqb Pos.eqb andb]. f_equal. exact IH.
  - destruct r as [|c2 r2].
    + cbn. reflexivity.
    + cbn [escape] in *. destruct (N.eqb_spec c2 NL) as [Hc2|Hc2].
      * subst c2. cbn [unescape] in *.
        replace (andb (c =? BS) (BS =? LN)) with false by (unfold BS, LN; cbn; rewrite andb_false_r; reflexivity).
        f_equal. exact IH.
      * cbn [unescape]. cbn [unescape] in IH.
        destruct (N.eqb_spec c BS) as [Hb|Hb]; destruct (N.eqb_spec c2 LN) as [Hn|Hn]; cbn [andb].
        -- exfalso. apply Hh. auto.
        -- f_equal. exact IH.
        -- f_equal. exact IH.
        -- f_equal. exact IH.
Qed.

Lemma escape_no_newline s : ~ In NL (escape s).
Proof.
  induction s as [|c r IH]; cbn [escape]; [auto|].
  destruct (N.eqb_spec c NL) as [H|H]; cbn [In].
  - intros [E|[E|E]]; try (unfold NL, BS, LN in *; congruence); auto.
  - intros [E|E]; try congruence; auto.
Qed.

(* ---------- the association list ---------- *)
Lemma e_lookup_in k es : (exists v, e_lookup k es = Some v) <-> In k (map fst es).
Proof.
  induction es as [|[k' v'] r IH]; cbn [e_lookup map fst In].
  - split; [intros [v H]; discriminate | tauto].
  - destruct (str_eqb_spec k k') as [E|E].
    + split; [auto | eauto].
    + rewrite IH. split; [auto | intros [H|H]; congruence].
Qed.

Lemma e_lookup_none k es : e_lookup k es = None <-> ~ In k (map fst es).
Proof.
  rewrite <- e_lookup_in. destruct (e_lookup k es); split; try congruence; eauto.
  - intros H. exfalso. apply H. eauto.
  - intros _ [v H]. discriminate.
Qed.

Lemma e_set_present k v es : In k (map fst es) -> map fst (e_set k v es) = map fst es.
Proof.
  induction es as [|[k' v'] r IH]; cbn [e_set map fst In]; [tauto|].
  intros H. destruct (str_eqb_spec k k') as [E|E]; cbn [map fst]; [reflexivity|].
  f_equal. apply IH. destruct H; congruence.
Qed.

Lemma e_set_absent k v es : ~ In k (map fst es) -> e_set k v es = es ++ [(k, v)].
Proof.
  induction es as [|[k' v'] r IH]; cbn [e_set map fst In app]; [reflexivity|].
  intros H. destruct (str_eqb_spec k k') as [E|E]; [exfalso; apply H; auto|].
  f_equal. apply IH. tauto.
Qed.

Lemma e_lookup_set_same k v es : e_lookup k (e_set k v es) = Some v.
Proof.
  induction es as [|[k' v'] r IH]; cbn [e_set e_lookup].
  - rewrite str_eqb_refl. reflexivity.
  - destruct (str_eqb k k') eqn:E; cbn [e_lookup]; rewrite E; auto.
Qed.

Lemma e_lookup_set_other k k2 v es : k2 <> k -> e_lookup k2 (e_set k v es) = e_lookup k2 es.
Proof.
  intros Hne. induction es as [|[k' v'] r IH]; cbn [e_set e_lookup].
  - rewrite (str_eqb_neq k2 k Hne). reflexivity.
  - destruct (str_eqb_spec k k') as [E|E]; cbn [e_lookup].
    + subst k'. rewrite (str_eqb_neq k2 k Hne). reflexivity.
    + rewrite IH. reflexivity.
Qed.

Lemma e_del_keys k es : NoDup (map fst es) ->
  map fst (e_del k es) = filter (fun x => negb (str_eqb k x)) (map fst es).
Proof.
  induction es as [|[k' v'] r IH]; cbn [e_del map fst filter]; [reflexivity|].
  intros Hnd. inversion Hnd as [|? ? Hn Hr]; subst.
  destruct (str_eqb_spec k k') as [E|E]; cbn [negb map fst].
  - subst k'. symmetry. clear IH Hnd Hr.
    induction r as [|[k2 v2] r IH]; cbn [map fst filter]; [reflexivity|].
    cbn [map fst In] in Hn.
    destruct (str_eqb_spec k k2) as [E|E]; [exfalso; apply Hn; auto|]. cbn [negb].
    f_equal. apply IH. tauto.
  - f_equal. apply IH. exact Hr.
Qed.

Lemma e_lookup_del_same k es : NoDup (map fst es) -> e_lookup k (e_del k es) = None.
Proof.
  intros Hnd. apply e_lookup_none. rewrite (e_del_keys k es Hnd).
  rewrite filter_In. intros [_ H]. rewrite str_eqb_refl in H. discriminate.
Qed.

Lemma e_lookup_del_other k k2 es : k2 <> k -> e_lookup k2 (e_del k es) = e_lookup k2 es.
Proof.
  intros Hne. induction es as [|[k' v'] r IH]; cbn [e_del e_lookup]; [reflexivity|].
  destruct (str_eqb_spec k k') as [E|E]; cbn [e_lookup].
  - subst k'. rewrite (str_eqb_neq k2 k Hne). reflexivity.
  - rewrite IH. reflexivity.
Qed.

Lemma e_del_values k es : forall k2 v, In (k2, v) (e_del k es) -> In (k2, v) es.
Proof.
  induction es as [|[k' v'] r IH]; cbn [e_del]; [tauto|].
  intros k2 v. destruct (str_eqb k k'); cbn [In]; intuition.
Qed.

Lemma e_set_nodup k v es : NoDup (map fst es) -> NoDup (map fst (e_set k v es)).
Proof.
  intros Hnd. destruct (in_dec (list_eq_dec N.eq_dec) k (map fst es)) as [Hin|Hnin].
  - rewrite e_set_present by exact Hin. exact Hnd.
  - rewrite e_set_absent by exact Hnin. rewrite map_app. cbn [map fst].
    apply NoDup_app_remove_r with (l' := []) || idtac.
    rewrite <- (rev_involutive (map fst es ++ [k])). apply NoDup_rev.
    rewrite rev_app_distr. cbn [rev app]. constructor.
    + rewrite <- in_rev. exact Hnin.
    + apply NoDup_rev. exact Hnd.
Qed.

Lemma e_del_nodup k es : NoDup (map fst es) -> NoDup (map fst (e_del k es)).
Proof. intros Hnd. rewrite e_del_keys by exact Hnd. apply NoDup_filter. exact Hnd. Qed.

(* ---------- histories ---------- *)
Definition tm_exec (t : tmap) (ops : list top) : tmap := fold_left (fun t o => fst (tm_step t o)) ops t.

Lemma tm_run_snoc ops o : tm_run (ops ++ [o]) = fst (tm_step (tm_run ops) o).
Proof. unfold tm_run. rewrite fold_left_app. reflexivity. Qed.

(* what the last relevant operation on k says (scanning the reversed history) *)
Fixpoint last_write (rops : list top) (k : str) : option str :=
  match rops with
  | [] => None
  | TSet k' m :: r => if str_eqb k k' then Some (unescape m) else last_write r k
  | TDel k' :: r => if str_eqb k k' then None else last_write r k
  | _ :: r => last_write r k
  end.

Lemma run_nodup ops : NoDup (tm_keys (tm_run ops)).
Proof.
  induction ops as [|o ops IH] using rev_ind; [constructor|].
  rewrite tm_run_snoc. destruct o; cbn [tm_step fst]; try exact IH.
  - apply e_set_nodup. exact IH.
  - apply e_del_nodup. exact IH.
Qed.

Lemma run_lookup ops k : e_lookup k (t_entries (tm_run ops)) = last_write (rev ops) k.
Proof.
  induction ops as [|o ops IH] using rev_ind; [reflexivity|].
  rewrite tm_run_snoc, rev_app_distr. cbn [rev app].
  destruct o as [k' m|k'|k'|k'|s]; cbn [tm_step fst last_write tm_set tm_del tm_set_title t_entries]; try exact IH.
  - destruct (str_eqb_spec k k') as [E|E].
    + subst. apply e_lookup_set_same.
    + rewrite e_lookup_set_other by exact E. exact IH.
  - destruct (str_eqb_spec k k') as [E|E].
    + subst. apply e_lookup_del_same. apply run_nodup.
    + rewrite e_lookup_del_other by exact E. exact IH.
Qed.

(* every stored message is in normal form (contains no backslash-n pair) *)
Lemma run_normal ops : forall k v, In (k, v) (t_entries (tm_run ops)) -> no_bs_n v.
Proof.
  induction ops as [|o ops IH] using rev_ind; [cbn; tauto|].
  rewrite tm_run_snoc. destruct o as [k' m|k'|k'|k'|s]; cbn [tm_step fst tm_set tm_del tm_set_title t_entries]; try exact IH.
  - intros k v Hin.
    assert (G : forall es, (forall k v, In (k, v) es -> no_bs_n v) -> In (k, v) (e_set k' (unescape m) es) -> no_bs_n v).
    { clear. induction es as [|[k2 v2] r IHr]; cbn [e_set In]; intros Hes H.
      - destruct H as [H|[]]. inversion H; subst. apply unescape_normal.
      - destruct (str_eqb k' k2); cbn [In] in H.
        + destruct H as [H|H]; [inversion H; subst; apply unescape_normal | apply (Hes k v); right; exact H].
        + destruct H as [H|H]; [inversion H; subst; apply (Hes k v); left; reflexivity|].
          apply IHr; [intros; eapply Hes; right; eauto | exact H]. }
    apply (G _ IH Hin).
  - intros k v Hin. apply (IH k v). eapply e_del_values. exact Hin.
Qed.

Lemma e_lookup_In k v es : e_lookup k es = Some v -> In (k, v) es.
Proof.
  induction es as [|[k' v'] r IH]; cbn [e_lookup In]; [discriminate|].
  destruct (str_eqb_spec k k') as [E|E]; intros H.
  - inversion H; subst. auto.
  - auto.
Qed.

Lemma e_set_same_value k v es : e_lookup k es = Some v -> e_set k v es = es.
Proof.
  induction es as [|[k' v'] r IH]; cbn [e_lookup e_set]; [discriminate|].
  destruct (str_eqb_spec k k') as [E|E]; intros H.
  - inversion H; subst. reflexivity.
  - f_equal. apply IH. exact H.
Qed.

(* storing a looked-up message back under its key changes nothing *)
Lemma store_back ops k v : tm_get (tm_run ops) k = Some v ->
  t_entries (tm_set (tm_run ops) k v) = t_entries (tm_run ops).
Proof.
  unfold tm_get, tm_set. cbn [t_entries]. destruct (e_lookup k (t_entries (tm_run ops))) as [s|] eqn:E; cbn [option_map]; [|discriminate].
  intros H. inversion H; subst v. rewrite escape_inverse.
  - apply e_set_same_value. exact E.
  - apply (run_normal ops k s). apply e_lookup_In. exact E.
Qed.

(* dirty flag *)
Lemma dirty_monotone t o : t_dirty t = true -> t_dirty (fst (tm_step t o)) = true.
Proof. destruct o; cbn; auto. Qed.

Lemma dirty_after_set ops k m rest : t_dirty (tm_run (ops ++ TSet k m :: rest)) = true.
Proof.
  unfold tm_run. rewrite fold_left_app. cbn [fold_left tm_step fst].
  set (t0 := tm_set _ k m). assert (H : t_dirty t0 = true) by reflexivity. clearbody t0.
  revert t0 H. induction rest as [|o r IH]; intros t0 H; cbn [fold_left]; [exact H|].
  apply IH. apply dirty_monotone. exact H.
Qed.

Lemma dirty_only_by_set ops : t_dirty (tm_run ops) = true -> exists k m, In (TSet k m) ops.
Proof.
  induction ops as [|o ops IH] using rev_ind; [cbn; discriminate|].
  rewrite tm_run_snoc. destruct o as [k' m|k'|k'|k'|s]; cbn [tm_step fst tm_del tm_set_title t_dirty]; intros H;
    try (destruct (IH H) as (k & m0 & Hin); exists k, m0; apply in_or_app; left; exact Hin).
  exists k', m. apply in_or_app. right. left. reflexivity.
Qed.
