(* The emission loop of both compressors (LZCore.emit_loop: lazy flush, flag accumulated with |=)
   writes exactly the group structure of the format description (LZSpec.enc_body). *)
From Coq Require Import List NArith Arith Lia Bool ZifyBool ZifyNat ZifyN.
From Mila Require Import Lib.Bytes Model.LZCore Model.LZSpec Proofs.LZBits.
Import ListNotations.
Local Open Scope N_scope.

Lemma enc_groups_nil tb fuel : enc_groups tb fuel [] = [].
Proof. destruct fuel; reflexivity. Qed.

Lemma group_fold tb : forall g s, e_blocks s + N.of_nat (length g) <= 8 ->
  fold_left (e_step tb) g s =
  {| e_buf := e_buf s; e_flag := N.lor (e_flag s) (flag_of (e_blocks s) g);
     e_ob := e_ob s ++ concat (map tb g); e_blocks := e_blocks s + N.of_nat (length g) |}.
Proof.
  induction g as [|t r IH]; intros [buf fl ob k] H; cbn [e_buf e_flag e_ob e_blocks] in *.
  - cbn [fold_left flag_of concat map length]. rewrite N.lor_0_r, app_nil_r. f_equal. cbn. lia.
  - cbn [fold_left]. rewrite IH.
    + unfold e_step. cbn [e_buf e_flag e_ob e_blocks].
      destruct (N.eqb_spec k 8) as [E|E]; [cbn [length] in H; lia|]. cbn [e_buf e_flag e_ob e_blocks].
      cbn [flag_of concat map length]. f_equal.
      * destruct t as [b|len disp]; cbn [flag_or is_ref]; [reflexivity|].
        unfold N.setbit. rewrite <- N.lor_assoc. f_equal. apply N.lor_comm.
      * rewrite <- app_assoc. reflexivity.
      * lia.
    + unfold e_step. cbn [e_buf e_flag e_ob e_blocks].
      destruct (N.eqb_spec k 8) as [E|E]; cbn [e_buf e_flag e_ob e_blocks e_flush]; cbn [length] in H; lia.
Qed.

Definition G tb (s : estate) (ts : list token) : list N := e_finish (fold_left (e_step tb) ts s).

Lemma G_norm tb s ts : e_blocks s = 8 -> G tb s ts = G tb (e_flush s) ts.
Proof.
  intros H. unfold G. destruct ts as [|t r]; cbn [fold_left].
  - unfold e_finish. rewrite H. cbn. reflexivity.
  - f_equal. unfold e_step. rewrite H. cbn. reflexivity.
Qed.

Lemma emit_fresh tb : forall fuel ts buf, (length ts <= fuel)%nat ->
  G tb {| e_buf := buf; e_flag := 0; e_ob := []; e_blocks := 0 |} ts = buf ++ enc_groups tb fuel ts.
Proof.
  induction fuel as [|fuel IH]; intros ts buf Hlen.
  - destruct ts; [|cbn [length] in Hlen; lia]. cbn. rewrite app_nil_r. reflexivity.
  - destruct ts as [|t r]; [cbn; rewrite app_nil_r; reflexivity|].
    remember (t :: r) as ts eqn:Ets.
    assert (Hne : (1 <= length ts)%nat) by (subst ts; cbn [length]; lia).
    replace (enc_groups tb (S fuel) ts)
      with (flag_of 0 (firstn 8 ts) :: concat (map tb (firstn 8 ts)) ++ enc_groups tb fuel (skipn 8 ts))
      by (subst ts; reflexivity).
    unfold G. rewrite <- (firstn_skipn 8 ts) at 1. rewrite fold_left_app.
    rewrite (group_fold tb (firstn 8 ts)) by (cbn [e_blocks]; rewrite firstn_length; lia).
    cbn [e_buf e_flag e_ob e_blocks]. rewrite N.lor_0_l, N.add_0_l, app_nil_l.
    destruct (Nat.le_gt_cases 8 (length ts)) as [Hbig|Hsmall].
    + pose proof (G_norm tb) as Hn. unfold G in Hn. rewrite Hn by (cbn [e_blocks]; rewrite firstn_length; lia).
      unfold e_flush. cbn [e_buf e_flag e_ob e_blocks].
      pose proof (IH (skipn 8 ts) (buf ++ flag_of 0 (firstn 8 ts) :: concat (map tb (firstn 8 ts)))) as IH'.
      unfold G in IH'. rewrite IH' by (rewrite skipn_length; lia).
      rewrite <- app_assoc. reflexivity.
    + rewrite (skipn_all2 ts) by lia. rewrite enc_groups_nil, app_nil_r. cbn [fold_left].
      unfold e_finish. cbn [e_blocks e_flush e_buf e_flag e_ob].
      destruct (N.ltb_spec 0 (N.of_nat (length (firstn 8 ts)))) as [Hp|Hp]; [reflexivity|].
      rewrite firstn_length in Hp. lia.
Qed.

Theorem emit_loop_enc tb hdr ts : emit_loop tb hdr ts = hdr ++ enc_body tb ts.
Proof. unfold emit_loop, enc_body, e_init. apply (emit_fresh tb (length ts) ts hdr). lia. Qed.

(* the encoding only looks at the bytes of the tokens it is given *)
Lemma enc_groups_ext tb tb' : forall fuel ts, Forall (fun t => tb t = tb' t) ts -> enc_groups tb fuel ts = enc_groups tb' fuel ts.
Proof.
  induction fuel as [|fuel IH]; intros ts H; [destruct ts; reflexivity|].
  destruct ts as [|t r]; [reflexivity|].
  remember (t :: r) as ts eqn:Ets.
  replace (enc_groups tb (S fuel) ts)
    with (flag_of 0 (firstn 8 ts) :: concat (map tb (firstn 8 ts)) ++ enc_groups tb fuel (skipn 8 ts)) by (subst ts; reflexivity).
  replace (enc_groups tb' (S fuel) ts)
    with (flag_of 0 (firstn 8 ts) :: concat (map tb' (firstn 8 ts)) ++ enc_groups tb' fuel (skipn 8 ts)) by (subst ts; reflexivity).
  f_equal. f_equal.
  - f_equal. apply map_ext_in. intros a Ha. rewrite Forall_forall in H. apply H. eapply In_firstn'. exact Ha.
  - apply IH. rewrite Forall_forall in *. intros a Ha. apply H. eapply In_skipn. exact Ha.
Qed.

Lemma enc_body_ext tb tb' ts : Forall (fun t => tb t = tb' t) ts -> enc_body tb ts = enc_body tb' ts.
Proof. apply enc_groups_ext. Qed.
