(* Well-formed layers (a directory tree: no duplicate keys, plain names, every ancestor of an entry is
   a directory) are an invariant of every operation, and what listings mean on well-formed layers. *)
From Coq Require Import List NArith Bool Arith Lia Sorted.
From Mila Require Import Lib.Bytes Lib.Machine Model.Localize Proofs.LocalizeProofs Model.LayeredFS
  Proofs.LayeredFSBase Proofs.LayeredFSStack Proofs.LayeredFSList.
Import ListNotations.
Local Open Scope N_scope.

(* ------------------------------------------------------------------ parsed paths consist of plain names *)
Lemma split_slash_noslash_all s : Forall (fun c => ~ In SLASH c) (split_slash s).
Proof.
  induction s as [|c r IH]; cbn [split_slash].
  - constructor; [intros []|constructor].
  - destruct (N.eqb_spec c SLASH) as [E|E].
    + constructor; [intros []|exact IH].
    + destruct (split_slash r) as [|h t]; [constructor; [|constructor]|].
      * intros [H|[]]. congruence.
      * inversion IH as [|? ? Hh Ht]; subst. constructor; [|exact Ht]. intros [H|H]; [congruence | exact (Hh H)].
Qed.

Lemma plain_plainP c : plain c = true -> ~ In SLASH c -> plainP c.
Proof.
  unfold plain, plainP. intros H NS.
  destruct (str_eqb_spec c []); [discriminate|].
  destruct (str_eqb_spec c [DOT]); [discriminate|].
  destruct (str_eqb_spec c [DOT; DOT]); [discriminate|]. auto.
Qed.

Lemma forallb_plain_plainP l : forallb plain l = true -> Forall (fun c => ~ In SLASH c) l -> Forall plainP l.
Proof.
  rewrite forallb_forall, !Forall_forall. intros H1 H2 c Hc. apply plain_plainP; auto.
Qed.

Lemma classify_plain s comps tr : classify s = SPlain comps tr -> Forall plainP comps.
Proof.
  unfold classify.
  destruct (str_eqb s []); [discriminate|]. destruct (str_eqb s [SLASH]); [discriminate|].
  destruct (str_eqb s [DOT; DOT]); [discriminate|]. destruct (str_eqb s [DOT]); [discriminate|].
  pose proof (split_slash_noslash_all s) as NS.
  destruct (forallb plain (split_slash s)) eqn:F.
  - intros H. injection H as <- <-. apply forallb_plain_plainP; assumption.
  - destruct (rev (split_slash s)) as [|[|x0 l0] [|c1 r1]] eqn:R; try discriminate.
    destruct (forallb plain (c1 :: r1)) eqn:F2; [|discriminate].
    intros H. injection H as <- <-. change (rev r1 ++ [c1]) with (rev (c1 :: r1)). apply Forall_rev. apply forallb_plain_plainP; [exact F2|].
    assert (E : split_slash s = rev ([] :: c1 :: r1)) by (apply (f_equal (@rev str)) in R; rewrite rev_involutive in R; exact R).
    rewrite E in NS. apply Forall_rev in NS. rewrite rev_involutive in NS. inversion NS; assumption.
Qed.

Lemma parse_path_plain s pp tr : parse_path s = Some (pp, tr) -> Forall plainP pp.
Proof.
  unfold parse_path. destruct (classify s) eqn:C; try discriminate.
  - intros H. injection H as <- <-. constructor.
  - intros H. injection H as <- <-. eapply classify_plain; eauto.
Qed.

Lemma fs_addr_plain S p loc s pp tr : fs_addr S p loc = FOk (s, (pp, tr)) -> Forall plainP pp.
Proof.
  unfold fs_addr. destruct (fs_actual S p loc) as [s'|e|k]; cbn [fbind]; try discriminate.
  destruct (parse_path s') as [[pp' tr']|] eqn:P; [|discriminate]. intros H. injection H as <- <- <-.
  eapply parse_path_plain; eauto.
Qed.

(* rendering a path of plain names and parsing it again *)
Lemma parse_render q : q <> [] -> Forall plainP q -> parse_path (render_path q) = Some (q, false).
Proof.
  intros Hne Hp. unfold parse_path, render_path.
  pose proof (classify_render q false Hne Hp) as C. unfold render in C. rewrite app_nil_r in C. rewrite C. reflexivity.
Qed.

(* ------------------------------------------------------------------ well-formed layers *)
Definition wf_layer (L : layer) : Prop :=
  NoDup (map fst L) /\
  (forall q, In q (map fst L) -> q <> [] /\ Forall plainP q) /\
  (forall q, In q (map fst L) -> forall r, In r (proper_prefixes q) -> assoc r L = Some Dir).
Definition wf_fs (S : fsys) : Prop := Forall wf_layer (layers S).

Lemma wf_nil : wf_layer [].
Proof. unfold wf_layer. cbn [map]. split; [constructor|]. split; intros q []. Qed.

Lemma firstn_Forall {A} (P : A -> Prop) n l : Forall P l -> Forall P (firstn n l).
Proof. rewrite !Forall_forall. intros H x Hx. apply H. eapply In_firstn'; eauto. Qed.

Lemma prefixes_plain p q : Forall plainP p -> In q (prefixes p) -> Forall plainP q.
Proof. intros H Hq. apply in_prefixes in Hq. destruct Hq as (n & _ & ->). apply firstn_Forall. exact H. Qed.
Lemma proper_prefixes_plain p q : Forall plainP p -> In q (proper_prefixes p) -> Forall plainP q.
Proof. intros H Hq. apply in_proper_prefixes in Hq. destruct Hq as (n & _ & ->). apply firstn_Forall. exact H. Qed.

(* adding one missing directory whose ancestors are directories *)
Lemma mkdir1_wf L q : wf_layer L -> q <> [] -> Forall plainP q ->
  (forall r, In r (proper_prefixes q) -> assoc r L = Some Dir) -> wf_layer (mkdir1 L q).
Proof.
  intros (ND & Pl & An) Hq Hp Hanc. unfold mkdir1. destruct (l_get L q) as [e|] eqn:G; [exact (conj ND (conj Pl An))|].
  rewrite l_get_assoc in G by exact Hq. unfold wf_layer. cbn [map fst]. split; [|split].
  - constructor; [apply assoc_None_notin; exact G | exact ND].
  - intros x [<-|Hx]; [split; assumption | apply Pl; exact Hx].
  - intros x Hx r Hr. cbn [assoc].
    assert (X : assoc r L = Some Dir) by (destruct Hx as [<-|Hx]; [apply Hanc; exact Hr | eapply An; eauto]).
    destruct (path_eqb_spec r q) as [->|N]; [congruence | exact X].
Qed.

(* create_dir_all on the first k components *)
Lemma mkdirs_firstn_wf p : Forall plainP p -> forall k L, wf_layer L -> (k <= length p)%nat ->
  (forall q, In q (map (fun n => firstn n p) (seq 1 k)) -> is_file_at L q = false) ->
  wf_layer (mkdirs L (map (fun n => firstn n p) (seq 1 k))) /\
  forall q, In q (map (fun n => firstn n p) (seq 1 k)) -> assoc q (mkdirs L (map (fun n => firstn n p) (seq 1 k))) = Some Dir.
Proof.
  intros Hp. induction k as [|k IH]; intros L W Hk NB.
  - cbn [seq map mkdirs fold_left]. split; [exact W | intros q []].
  - rewrite seq_S, map_app. cbn [map]. rewrite mkdirs_app.
    assert (NB' : forall q, In q (map (fun n => firstn n p) (seq 1 k)) -> is_file_at L q = false).
    { intros q Hq. apply NB. rewrite seq_S, map_app. apply in_or_app. left. exact Hq. }
    destruct (IH L W ltac:(lia) NB') as (W1 & D1).
    set (L1 := mkdirs L (map (fun n => firstn n p) (seq 1 k))) in *.
    set (q := firstn (1 + k) p).
    assert (Hq : q <> []).
    { intros E. apply (f_equal (@length _)) in E. unfold q in E. rewrite firstn_length in E. cbn [length] in E. lia. }
    assert (Hanc : forall r, In r (proper_prefixes q) -> assoc r L1 = Some Dir).
    { intros r Hr. apply D1. apply in_proper_prefixes in Hr. destruct Hr as (m & Hm & ->). unfold q in *.
      rewrite firstn_length in Hm. rewrite firstn_firstn. apply in_map_iff. exists m. split; [f_equal; lia | apply in_seq; lia]. }
    assert (W2 : wf_layer (mkdir1 L1 q)) by (apply mkdir1_wf; auto; apply firstn_Forall; exact Hp).
    change (mkdirs L1 [q]) with (mkdir1 L1 q). split; [exact W2|].
    intros x Hx. rewrite <- l_get_assoc.
    2:{ apply in_app_or in Hx. destruct Hx as [Hx|[<-|[]]]; [|exact Hq].
        apply in_map_iff in Hx. destruct Hx as (m & <- & Hm). apply in_seq in Hm. intros E.
        apply (f_equal (@length _)) in E. rewrite firstn_length in E. cbn [length] in E. lia. }
    rewrite l_get_mkdir1. apply in_app_or in Hx. destruct Hx as [Hx|[<-|[]]].
    + assert (Hx0 : x <> []).
      { apply in_map_iff in Hx. destruct Hx as (m & <- & Hm). apply in_seq in Hm. intros E.
        apply (f_equal (@length _)) in E. rewrite firstn_length in E. cbn [length] in E. lia. }
      rewrite l_get_assoc by exact Hx0. rewrite (D1 x Hx). reflexivity.
    + rewrite path_eqb_refl. unfold L1. rewrite l_get_mkdirs.
      assert (F : is_file_at L q = false) by (apply NB; rewrite seq_S, map_app; apply in_or_app; right; left; reflexivity).
      unfold is_file_at in F. destruct (l_get L q) as [[b|]|]; try discriminate; try reflexivity.
      destruct (inb q _); reflexivity.
Qed.

Lemma mkdirs_prefixes_wf L p : wf_layer L -> Forall plainP p -> blocked L (prefixes p) = false ->
  wf_layer (mkdirs L (prefixes p)) /\ forall q, In q (prefixes p) -> assoc q (mkdirs L (prefixes p)) = Some Dir.
Proof.
  intros W Hp B. apply (mkdirs_firstn_wf p Hp (length p) L W (le_n _)). apply blocked_false. exact B.
Qed.
Lemma mkdirs_proper_prefixes_wf L p : wf_layer L -> Forall plainP p -> blocked L (proper_prefixes p) = false ->
  wf_layer (mkdirs L (proper_prefixes p)) /\ forall q, In q (proper_prefixes p) -> assoc q (mkdirs L (proper_prefixes p)) = Some Dir.
Proof.
  intros W Hp B. apply (mkdirs_firstn_wf p Hp (length p - 1) L W); [lia|]. apply blocked_false. exact B.
Qed.

(* putting a file where no directory is *)
Lemma set_file_wf L p c : wf_layer L -> p <> [] -> Forall plainP p ->
  (forall r, In r (proper_prefixes p) -> assoc r L = Some Dir) -> assoc p L <> Some Dir ->
  wf_layer (l_set L p (File c)).
Proof.
  intros (ND & Pl & An) Hp Hpl Hanc NDir. unfold l_set, wf_layer. cbn [map fst]. split; [|split].
  - constructor; [|apply remove_nodup; exact ND]. intros H. apply remove_keys_incl in H. tauto.
  - intros x [<-|Hx]; [split; assumption|]. apply remove_keys_incl in Hx. apply Pl. tauto.
  - intros x Hx r Hr. cbn [assoc].
    assert (X : assoc r L = Some Dir).
    { destruct Hx as [<-|Hx]; [apply Hanc; exact Hr|]. apply remove_keys_incl in Hx. eapply An; [apply Hx | exact Hr]. }
    destruct (path_eqb_spec r p) as [->|N]; [congruence|]. rewrite assoc_remove_other by exact N. exact X.
Qed.

Lemma l_write_wf L pp tr c L' ok : wf_layer L -> Forall plainP pp -> l_write L (pp, tr) c = (L', ok) -> wf_layer L'.
Proof.
  intros W Hp. unfold l_write. destruct (blocked L (proper_prefixes pp)) eqn:B; [intros H; inversion H; subst; exact W|].
  destruct (mkdirs_proper_prefixes_wf L pp W Hp B) as (W1 & D1).
  destruct tr; [intros H; inversion H; subst; exact W1|].
  destruct (l_get (mkdirs L (proper_prefixes pp)) pp) as [[b|]|] eqn:G; intros H; inversion H; subst; try exact W1.
  all: assert (Hne : pp <> []) by (intros ->; cbn in G; congruence).
  all: apply set_file_wf; auto; rewrite <- l_get_assoc by exact Hne; rewrite G; discriminate.
Qed.

Lemma l_create_dir_wf L (a : ppath) L' ok : wf_layer L -> Forall plainP (fst a) -> l_create_dir L a = (L', ok) -> wf_layer L'.
Proof.
  intros W Hp. unfold l_create_dir. cbv zeta. destruct (blocked L (prefixes (fst a))) eqn:B; intros H; inversion H; subst; [exact W|].
  apply mkdirs_prefixes_wf; assumption.
Qed.

(* with the layers of a well-formed layer: failed write without a trailing '/' changes nothing *)
Lemma l_write_fail_wf L pp c L' : wf_layer L -> l_write L (pp, false) c = (L', false) -> L' = L.
Proof.
  intros (ND & Pl & An) H. apply l_write_fail in H. destruct H as [->|(-> & B & [T|G])]; [reflexivity | discriminate|].
  apply mkdirs_id. intros q Hq.
  assert (Hne : pp <> []) by (intros ->; destruct Hq).
  rewrite l_get_assoc in G by exact Hne. rewrite l_get_assoc by (eapply proper_prefix_nonempty; eauto).
  rewrite (An pp (assoc_some_key _ _ _ G) q Hq). discriminate.
Qed.

Section Codec.
  Variable compress decompress : cfmt -> bytes -> outcome bytes.

  Theorem fs_write_wf S p b loc S' r : wf_fs S -> fs_write compress S p b loc = (S', r) -> wf_fs S'.
  Proof.
    intros W H. apply fs_write_cases in H.
    destruct H as [(-> & _)|(s & pp & tr & c & top & rest & top' & ok & A & En & Ly & Wr & -> & _)]; [exact W|].
    unfold wf_fs in *. simpl layers. rewrite Ly in W. apply Forall_app in W. destruct W as (W1 & W2).
    apply Forall_app. split; [exact W1|]. constructor; [|constructor]. inversion W2; subst.
    eapply (l_write_wf top pp tr c top' ok); [assumption | eapply fs_addr_plain; eauto | exact Wr].
  Qed.

  Theorem fs_create_dir_wf S p loc S' r : wf_fs S -> fs_create_dir S p loc = (S', r) -> wf_fs S'.
  Proof.
    intros W H. apply fs_create_dir_cases in H.
    destruct H as [(-> & _)|(s & a & top & rest & top' & ok & A & Ly & Wr & -> & _)]; [exact W|].
    unfold wf_fs in *. simpl layers. rewrite Ly in W. apply Forall_app in W. destruct W as (W1 & W2).
    apply Forall_app. split; [exact W1|]. constructor; [|constructor]. inversion W2; subst.
    eapply (l_create_dir_wf top a top' ok); [assumption | destruct a as [pp tr]; eapply fs_addr_plain; eauto | exact Wr].
  Qed.

  (* on well-formed layers a failed write of a path WITHOUT trailing '/' changes nothing at all *)
  Theorem fs_write_fail_wf S p b loc S' r s pp : wf_fs S -> fs_addr S p loc = FOk (s, (pp, false)) ->
    fs_write compress S p b loc = (S', r) -> r <> FOk tt -> S' = S.
  Proof.
    intros W A H N. apply fs_write_cases in H.
    destruct H as [(-> & _)|(s' & pp' & tr & c & top & rest & top' & ok & A' & En & Ly & Wr & -> & R)]; [reflexivity|].
    rewrite A in A'. injection A' as <- <- <-. destruct ok; [congruence|].
    unfold wf_fs in W. rewrite Ly in W. apply Forall_app in W. destruct W as (_ & W2). inversion W2; subst.
    apply l_write_fail_wf in Wr; [|assumption]. subst top'. destruct S as [ls cf lg]. cbn [layers conf lng] in *. rewrite Ly. reflexivity.
  Qed.

  Theorem fs_step_wf S o : wf_fs S -> wf_fs (fst (fs_step compress decompress S o)).
  Proof.
    intros W. destruct o; cbn [fs_step fst]; try exact W.
    - destruct (fs_write compress S p b loc) as [S' r] eqn:E. cbn [fst]. eapply fs_write_wf; eauto.
    - destruct (fs_create_dir S p loc) as [S' r] eqn:E. cbn [fst]. eapply fs_create_dir_wf; eauto.
  Qed.

  (* the invariant over all histories *)
  Theorem fs_run_wf os : forall S, wf_fs S -> wf_fs (fs_run compress decompress S os).
  Proof. induction os as [|o r IH]; intros S W; cbn [fs_run]; [exact W|]. apply IH. apply fs_step_wf. exact W. Qed.
End Codec.

(* ------------------------------------------------------------------ listings on well-formed layers *)
Definition present (L : layer) (q : path) : Prop := q <> [] /\ l_get L q <> None.

Lemma present_key L q : wf_layer L -> (present L q <-> In q (map fst L)).
Proof.
  intros (ND & Pl & An). unfold present. split.
  - intros (Hq & G). rewrite l_get_assoc in G by exact Hq. destruct (assoc q L) eqn:E; [|congruence]. eapply assoc_some_key; eauto.
  - intros H. destruct (Pl q H) as (Hq & _). split; [exact Hq|]. rewrite l_get_assoc by exact Hq.
    destruct (key_assoc_some q L H) as (e & ->). discriminate.
Qed.

(* membership of one layer's listing: the entries present strictly under the directory that match the pattern *)
Theorem l_list_wf L d tr pat q : wf_layer L ->
  (In q (l_list L (d, tr) pat) <-> present L q /\ exists rel, q = d ++ rel /\ matchesP pat rel).
Proof.
  intros W. rewrite l_list_In, (present_key L q W). cbn [fst]. split.
  - intros (_ & K & rel & E & M). split; [exact K|]. exists rel. split; [exact E | apply matches_spec; exact M].
  - intros (K & rel & E & M). apply matches_spec in M. repeat split; eauto.
    destruct W as (ND & Pl & An). unfold l_is_dir. cbn [fst].
    destruct d as [|c d]; [reflexivity|]. rewrite l_get_cons.
    rewrite (An q K (c :: d)); [reflexivity|]. apply in_proper_prefixes_app. split; [discriminate|].
    exists rel. split; [eapply matches_nonempty; eauto | exact E].
Qed.

Theorem l_subdirs_wf L d tr q : wf_layer L ->
  (In q (l_subdirs L (d, tr)) <-> l_get L q = Some Dir /\ exists n, q = d ++ [n]).
Proof.
  intros W. rewrite l_subdirs_In. cbn [fst]. destruct W as (ND & Pl & An). split.
  - intros (_ & Hin & n & ->). split; [|eauto]. rewrite l_get_assoc by (destruct d; discriminate). apply In_assoc_nodup; assumption.
  - intros (G & n & ->). assert (Hne : d ++ [n] <> []) by (destruct d; discriminate).
    rewrite l_get_assoc in G by exact Hne. repeat split; eauto; [|apply assoc_In; exact G].
    unfold l_is_dir. cbn [fst]. destruct d as [|c d]; [reflexivity|]. rewrite l_get_cons.
    rewrite (An _ (assoc_some_key _ _ _ G) (c :: d)); [reflexivity|]. apply in_proper_prefixes_app.
    split; [discriminate|]. exists [n]. split; [discriminate | reflexivity].
Qed.

(* every listed path exists according to the filesystem's own existence query *)
Theorem listed_exist S d pat loc l x : wf_fs S -> fs_list S d pat loc = FOk l -> In x l -> fs_exists S x false = FOk true.
Proof.
  intros W H Hx. unfold fs_list in H. destruct (fs_addr S d loc) as [[s a]|e|k] eqn:A; cbn [fbind] in H; try discriminate.
  destruct (wf_pattern pat); [|discriminate]. injection H as <-. apply sort_dedup_In, in_map_iff in Hx. destruct Hx as (q & <- & Hq).
  apply in_flat_map in Hq. destruct Hq as (L & HL & Hq). apply l_list_In in Hq. destruct Hq as (_ & K & _).
  unfold wf_fs in W. rewrite Forall_forall in W. destruct (W L HL) as (ND & Pl & An). destruct (Pl q K) as (Hne & Hp).
  assert (A' : fs_addr S (render_path q) false = FOk (render_path q, (q, false))).
  { apply fs_addr_unloc. split; [reflexivity | apply parse_render; assumption]. }
  rewrite (fs_exists_spec S _ _ _ _ A'). f_equal. apply existsb_exists. exists L. split; [exact HL|].
  unfold l_exists, l_is_file, l_is_dir. cbn [fst snd]. rewrite l_get_assoc by exact Hne.
  destruct (key_assoc_some q L K) as ([b|] & ->); reflexivity.
Qed.
Theorem subdirs_listed_exist S d loc l x : wf_fs S -> fs_subdirectories S d loc = FOk l -> In x l -> fs_directory_exists S x false = FOk true.
Proof.
  intros W H Hx. unfold fs_subdirectories in H. destruct (fs_addr S d loc) as [[s a]|e|k] eqn:A; cbn [fbind] in H; try discriminate.
  injection H as <-. apply sort_dedup_In, in_map_iff in Hx. destruct Hx as (q & <- & Hq).
  apply in_flat_map in Hq. destruct Hq as (L & HL & Hq). apply l_subdirs_In in Hq. destruct Hq as (_ & K & _).
  unfold wf_fs in W. rewrite Forall_forall in W. destruct (W L HL) as (ND & Pl & An).
  assert (K' : In q (map fst L)) by (apply (in_map fst) in K; exact K). destruct (Pl q K') as (Hne & Hp).
  assert (A' : fs_addr S (render_path q) false = FOk (render_path q, (q, false))).
  { apply fs_addr_unloc. split; [reflexivity | apply parse_render; assumption]. }
  rewrite (fs_directory_exists_spec S _ _ _ _ A'). f_equal. apply existsb_exists. exists L. split; [exact HL|].
  unfold l_is_dir. cbn [fst]. rewrite l_get_assoc by exact Hne. rewrite (In_assoc_nodup _ _ _ ND K). reflexivity.
Qed.

(* ------------------------------------------------------------------ the executable check is sound *)
Lemma nodup_keys_spec L : nodup_keys L = true -> NoDup (map fst L).
Proof.
  induction L as [|[p e] r IH]; cbn [nodup_keys map fst]; [constructor|].
  intros H. apply andb_true_iff in H. destruct H as (H1 & H2). constructor; [|auto].
  destruct (assoc p r) eqn:E; [discriminate|]. apply assoc_None_notin. exact E.
Qed.
Lemma plain_name_plainP c : plain_name c = true -> plainP c.
Proof.
  unfold plain_name. intros H. apply andb_true_iff in H. destruct H as (H1 & H2). apply plain_plainP; [exact H1|].
  intros Hin. apply negb_true_iff in H2. assert (X : existsb (fun x => x =? SLASH) c = true); [|congruence].
  apply existsb_exists. exists SLASH. split; [exact Hin | apply N.eqb_refl].
Qed.
Theorem wf_layerb_sound L : wf_layerb L = true -> wf_layer L.
Proof.
  unfold wf_layerb. intros H. apply andb_true_iff in H. destruct H as (H1 & H2).
  rewrite forallb_forall in H2.
  assert (X : forall q, In q (map fst L) -> q <> [] /\ Forall plainP q /\ forall r, In r (proper_prefixes q) -> assoc r L = Some Dir).
  { intros q Hq. apply in_map_iff in Hq. destruct Hq as ([q' e] & <- & Hin). specialize (H2 _ Hin). cbn [fst] in *.
    apply andb_true_iff in H2. destruct H2 as (A & H2). apply andb_true_iff in H2. destruct H2 as (B & C).
    split; [destruct q'; [discriminate | discriminate]|]. split.
    - rewrite forallb_forall in B. apply Forall_forall. intros c Hc. apply plain_name_plainP. auto.
    - rewrite forallb_forall in C. intros r Hr. specialize (C r Hr). unfold is_dir_at in C.
      rewrite l_get_assoc in C by (eapply proper_prefix_nonempty; eauto). destruct (assoc r L) as [[b|]|]; congruence. }
  repeat split; [apply nodup_keys_spec; exact H1 | apply X; assumption | apply X; assumption | apply X; assumption].
Qed.

(* the whole listing statement in one: on well-formed layers the listing consists exactly of the rendered
   entries that some layer holds strictly under the directory and that the pattern selects *)
Theorem list_union S d pat loc s dd tr l : wf_fs S -> fs_addr S d loc = FOk (s, (dd, tr)) -> fs_list S d pat loc = FOk l ->
  forall x, In x l <-> exists L q rel, In L (layers S) /\ present L q /\ q = dd ++ rel /\ matchesP pat rel /\ x = render_path q.
Proof.
  intros W A H x. rewrite (list_spec S d pat loc s (dd, tr) l A H x). unfold wf_fs in W. rewrite Forall_forall in W. split.
  - intros (L & q & HL & Hq & ->). apply (l_list_wf L dd tr pat q (W L HL)) in Hq. destruct Hq as (P & rel & E & M).
    exists L, q, rel. auto.
  - intros (L & q & rel & HL & P & E & M & ->). exists L, q. repeat split; auto.
    apply (l_list_wf L dd tr pat q (W L HL)). split; [exact P|]. exists rel. auto.
Qed.

(* ------------------------------------------------------------------ the modelled pattern arguments *)
Lemma wf_pattern_spec pat : wf_pattern pat = true <->
  match pat with
  | PAll | PStar => True
  | PExt e | PRecExt e => glob_literal e
  | PSub n => plainP n /\ glob_literal n
  end.
Proof.
  destruct pat as [| |e|e|n]; cbn [wf_pattern]; try tauto; try apply plain_pattern_arg_spec.
  rewrite andb_true_iff, plain_pattern_arg_spec. split.
  - intros (P & G). split; [|exact G]. apply plain_plainP; [exact P|]. intros Hin. apply (G SLASH Hin). cbn. tauto.
  - intros (P & G). split; [apply plain_of_plainP; exact P | exact G].
Qed.

(* ------------------------------------------------------------------ review r4, C13-2 / C13-3 *)
(* a listed path answers the existence query OF ITS KIND: a file file_exists, a directory directory_exists, as found in the
   layer that contributed it *)
Theorem listed_exist_kind S d pat loc l x : wf_fs S -> fs_list S d pat loc = FOk l -> In x l ->
  exists L q, In L (layers S) /\ x = render_path q /\
    match l_get L q with
    | Some (File _) => fs_file_exists S x false = FOk true
    | Some Dir => fs_directory_exists S x false = FOk true
    | None => False
    end.
Proof.
  intros W H Hx. unfold fs_list in H. destruct (fs_addr S d loc) as [[s a]|e|k] eqn:A; cbn [fbind] in H; try discriminate.
  destruct (wf_pattern pat); [|discriminate]. injection H as <-. apply sort_dedup_In, in_map_iff in Hx. destruct Hx as (q & <- & Hq).
  apply in_flat_map in Hq. destruct Hq as (L & HL & Hq). apply l_list_In in Hq. destruct Hq as (_ & K & _).
  unfold wf_fs in W. rewrite Forall_forall in W. destruct (W L HL) as (ND & Pl & An). destruct (Pl q K) as (Hne & Hp).
  assert (A' : fs_addr S (render_path q) false = FOk (render_path q, (q, false))).
  { apply fs_addr_unloc. split; [reflexivity | apply parse_render; assumption]. }
  exists L, q. split; [exact HL|]. split; [reflexivity|]. rewrite l_get_assoc by exact Hne.
  destruct (key_assoc_some q L K) as ([b|] & E); rewrite E.
  - rewrite (fs_file_exists_spec S _ _ _ _ A'). f_equal. apply existsb_exists. exists L. split; [exact HL|].
    unfold l_is_file. cbn [fst snd]. rewrite l_get_assoc by exact Hne. rewrite E. reflexivity.
  - rewrite (fs_directory_exists_spec S _ _ _ _ A'). f_equal. apply existsb_exists. exists L. split; [exact HL|].
    unfold l_is_dir. cbn [fst]. rewrite l_get_assoc by exact Hne. rewrite E. reflexivity.
Qed.

(* sub-directories in one statement: the rendered immediate children that are directories in SOME layer *)
Theorem subdirs_union S d loc s dd tr l : wf_fs S -> fs_addr S d loc = FOk (s, (dd, tr)) -> fs_subdirectories S d loc = FOk l ->
  forall x, In x l <-> exists L n, In L (layers S) /\ l_get L (dd ++ [n]) = Some Dir /\ x = render_path (dd ++ [n]).
Proof.
  intros W A H x. rewrite (subdirs_spec S d loc s (dd, tr) l A H x). unfold wf_fs in W. rewrite Forall_forall in W. split.
  - intros (L & q & HL & Hq & ->). apply (l_subdirs_wf L dd tr q (W L HL)) in Hq. destruct Hq as (G & n & ->). eauto.
  - intros (L & n & HL & G & ->). exists L, (dd ++ [n]). repeat split; auto. apply (l_subdirs_wf L dd tr _ (W L HL)). eauto.
Qed.
