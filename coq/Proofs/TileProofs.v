(* C19_pixel_source for the raw 3DS formats: the tile walk of decode_rgba_pixel_data is a scatter whose
   destination map is a bijection; pixel (X, Y) of the result is the decoding of source element
   tiled_index w X Y -- for EVERY width and height that are multiples of 8 (the 25 power-of-two sizes are
   instances). *)
From Coq Require Import List NArith ZArith Arith Lia Bool ZifyBool ZifyNat ZifyN.
From Mila Require Import Lib.Bytes Lib.Machine Model.Pixel Model.PixelSpec Proofs.TexFinite Proofs.PixelProofs Proofs.Scatter.
Import ListNotations.
Local Open Scope N_scope.
Ltac Zify.zify_post_hook ::= Z.div_mod_to_equations.

(* destination of the k-th iteration *)
Definition dstf (w : N) (tw : nat) (k : nat) : N :=
  tile_dst w (k / (tw * 64))%nat ((k mod (tw * 64)) / 64)%nat ((k mod (tw * 64)) mod 64)%nat.

Lemma tile_dsts_flat tw th w : tile_dsts tw th w = map (dstf w tw) (seq 0 (th * (tw * 64))).
Proof.
  unfold tile_dsts.
  rewrite (flat_map_ext _ (fun ty => map (fun j => tile_dst w ty (j / 64)%nat (j mod 64)%nat) (seq 0 (tw * 64)))).
  2:{ intros ty. apply (flat_map_seq (fun tx p => tile_dst w ty tx p) tw 64). }
  rewrite (flat_map_seq (fun ty j => tile_dst w ty (j / 64)%nat (j mod 64)%nat) th (tw * 64)). reflexivity.
Qed.

Lemma tile_xy_morton x y : x < 8 -> y < 8 -> tile_xy (N.to_nat (morton x y)) = (x, y).
Proof.
  intros Hx Hy. unfold tile_xy. pose proof (tile_order_inverse x y Hx Hy) as H. unfold tbl in H. rewrite H.
  f_equal; lia.
Qed.

Lemma tile_xy_inv p : (p < 64)%nat ->
  fst (tile_xy p) < 8 /\ snd (tile_xy p) < 8 /\ morton (fst (tile_xy p)) (snd (tile_xy p)) = N.of_nat p.
Proof.
  intros Hp. unfold tile_xy. cbn [fst snd].
  assert (Hp' : N.of_nat p < 64) by lia.
  pose proof (tile_order_morton _ Hp') as H. unfold tbl in H. rewrite Nat2N.id in H. rewrite H.
  destruct (morton_of_xy _ Hp') as (M & Mx & My).
  replace ((8 * morton_y (N.of_nat p) + morton_x (N.of_nat p)) mod 8) with (morton_x (N.of_nat p)) by lia.
  replace ((8 * morton_y (N.of_nat p) + morton_x (N.of_nat p) - morton_x (N.of_nat p)) / 8) with (morton_y (N.of_nat p)) by lia.
  auto.
Qed.

(* decomposition of an iteration number *)
Lemma iter_decompose tw k th : (0 < tw)%nat -> (k < th * (tw * 64))%nat ->
  let ty := (k / (tw * 64))%nat in let j := (k mod (tw * 64))%nat in
  (ty < th /\ j / 64 < tw /\ j mod 64 < 64 /\ k = (ty * tw + j / 64) * 64 + j mod 64)%nat.
Proof.
  intros Htw Hk ty j.
  assert (HT : (0 < tw * 64)%nat) by lia.
  pose proof (Nat.div_mod k (tw * 64) ltac:(lia)) as E. fold ty j in E.
  pose proof (Nat.mod_upper_bound k (tw * 64) ltac:(lia)) as Hj. fold j in Hj.
  pose proof (Nat.div_mod j 64 ltac:(lia)) as Ej.
  pose proof (Nat.mod_upper_bound j 64 ltac:(lia)) as Hp.
  assert (Hty : (ty < th)%nat).
  { apply Nat.div_lt_upper_bound; lia. }
  assert (Htx : (j / 64 < tw)%nat) by (apply Nat.div_lt_upper_bound; lia).
  repeat split; try assumption. lia.
Qed.

Lemma iter_compose tw ty tx p : (tx < tw)%nat -> (p < 64)%nat ->
  let k := ((ty * tw + tx) * 64 + p)%nat in
  ((k / (tw * 64)) = ty /\ (k mod (tw * 64)) / 64 = tx /\ (k mod (tw * 64)) mod 64 = p)%nat.
Proof.
  intros Htx Hp k.
  assert (E1 : (k / (tw * 64) = ty)%nat).
  { symmetry. apply Nat.div_unique with (r := (tx * 64 + p)%nat); unfold k; lia. }
  assert (E2 : (k mod (tw * 64) = tx * 64 + p)%nat).
  { symmetry. apply Nat.mod_unique with (q := ty); unfold k; lia. }
  rewrite E1, E2. repeat split.
  - symmetry. apply Nat.div_unique with (r := p); lia.
  - symmetry. apply Nat.mod_unique with (q := tx); lia.
Qed.

(* G1: the iteration that reads element tiled_index w X Y writes pixel (X, Y) *)
Lemma dstf_of_pixel w tw th X Y : w = 8 * N.of_nat tw -> X < w -> Y < 8 * N.of_nat th ->
  let k := N.to_nat (tiled_index w X Y) in (k < th * (tw * 64))%nat /\ dstf w tw k = Y * w + X.
Proof.
  intros Hw HX HY k.
  set (x := X mod 8). set (y := Y mod 8).
  assert (Hx : x < 8) by (unfold x; lia). assert (Hy : y < 8) by (unfold y; lia).
  pose proof (morton_lt x y Hx Hy) as Hm.
  set (ty := N.to_nat (Y / 8)). set (tx := N.to_nat (X / 8)). set (p := N.to_nat (morton x y)).
  assert (Htx : (tx < tw)%nat) by (unfold tx; lia).
  assert (Hty : (ty < th)%nat) by (unfold ty; lia).
  assert (Hp : (p < 64)%nat) by (unfold p; lia).
  assert (Ek : k = ((ty * tw + tx) * 64 + p)%nat).
  { unfold k, tiled_index. fold x y. replace (w / 8) with (N.of_nat tw) by lia. unfold ty, tx, p. lia. }
  destruct (iter_compose tw ty tx p Htx Hp) as (E1 & E2 & E3). rewrite <- Ek in E1, E2, E3.
  split.
  - rewrite Ek. nia.
  - unfold dstf. rewrite E1, E2, E3. unfold tile_dst, p. rewrite tile_xy_morton by assumption.
    assert (A1 : N.of_nat tx * 8 + x = X) by (unfold tx, x; lia).
    assert (A2 : N.of_nat ty * 8 + y = Y) by (unfold ty, y; lia).
    rewrite A1, A2. lia.
Qed.

(* the source element whose iteration writes pixel index d *)
Definition srcf (w : N) (d : N) : nat := N.to_nat (tiled_index w (d mod w) (d / w)).

Lemma dstf_shape w tw th k : w = 8 * N.of_nat tw -> (0 < tw)%nat -> (k < th * (tw * 64))%nat ->
  exists a q, a < w /\ q < 8 * N.of_nat th /\ dstf w tw k = a + q * w /\ N.to_nat (tiled_index w a q) = k.
Proof.
  intros Hw Htw Hk.
  destruct (iter_decompose tw k th Htw Hk) as (Hty & Htx & Hp & Ek).
  set (ty := (k / (tw * 64))%nat) in *. set (j := (k mod (tw * 64))%nat) in *.
  set (tx := (j / 64)%nat) in *. set (p := (j mod 64)%nat) in *.
  destruct (tile_xy_inv p Hp) as (Hx & Hy & Hm).
  exists (N.of_nat tx * 8 + fst (tile_xy p)), (N.of_nat ty * 8 + snd (tile_xy p)).
  split; [lia|]. split; [lia|]. split.
  - unfold dstf. fold ty j. fold tx p. unfold tile_dst. destruct (tile_xy p) as [x y]. reflexivity.
  - unfold tiled_index.
    replace ((N.of_nat ty * 8 + snd (tile_xy p)) / 8) with (N.of_nat ty) by lia.
    replace ((N.of_nat tx * 8 + fst (tile_xy p)) / 8) with (N.of_nat tx) by lia.
    replace ((N.of_nat tx * 8 + fst (tile_xy p)) mod 8) with (fst (tile_xy p)) by lia.
    replace ((N.of_nat ty * 8 + snd (tile_xy p)) mod 8) with (snd (tile_xy p)) by lia.
    rewrite Hm. replace (w / 8) with (N.of_nat tw) by lia. lia.
Qed.

Lemma div_mod_unique_N a q w : a < w -> (a + q * w) mod w = a /\ (a + q * w) / w = q.
Proof.
  intros H. split.
  - symmetry. apply N.mod_unique with (q := q); lia.
  - symmetry. apply N.div_unique with (r := a); lia.
Qed.

(* G2: srcf is a left inverse of dstf, hence the destinations are pairwise distinct *)
Lemma srcf_dstf w tw th k : w = 8 * N.of_nat tw -> (0 < tw)%nat -> (k < th * (tw * 64))%nat -> srcf w (dstf w tw k) = k.
Proof.
  intros Hw Htw Hk. destruct (dstf_shape w tw th k Hw Htw Hk) as (a & q & Ha & Hq & E & Ek).
  unfold srcf. rewrite E. destruct (div_mod_unique_N a q w Ha) as (-> & ->). exact Ek.
Qed.

Lemma dstf_lt w tw th k : w = 8 * N.of_nat tw -> (0 < tw)%nat -> (k < th * (tw * 64))%nat ->
  dstf w tw k < w * (8 * N.of_nat th).
Proof.
  intros Hw Htw Hk. destruct (dstf_shape w tw th k Hw Htw Hk) as (a & q & Ha & Hq & E & Ek). rewrite E. nia.
Qed.

(* ---------------- reading the elements ---------------- *)
Lemma read_elem_listed fmt rest : listed_color_format fmt = true ->
  let k := N.to_nat (bytes_per_element fmt) in
  read_elem fmt rest = if (k <=? length rest)%nat then Some (dec_le (firstn k rest), skipn k rest) else None.
Proof.
  intros Hf.
  assert (C : fmt = 0 \/ fmt = 2 \/ fmt = 3 \/ fmt = 4 \/ fmt = 5 \/ fmt = 7 \/ fmt = 8).
  { destruct fmt as [|p]; [left; reflexivity|]. do 4 (destruct p as [p|p|]; try discriminate Hf; auto 10). }
  assert (one : forall (a : N) (r : bytes), Some (a, r) = Some (dec_le [a], r)) by (intros; cbn [dec_le]; do 2 f_equal; lia).
  destruct C as [->|[->|[->|[->|[->|[->| ->]]]]]];
    try (destruct rest as [|a [|b [|c [|d r]]]]; reflexivity);
    (destruct rest as [|a r]; [reflexivity | exact (one a r)]).
Qed.

Lemma read_all_listed fmt : listed_color_format fmt = true ->
  let k := N.to_nat (bytes_per_element fmt) in
  forall n rest, (k * n <= length rest)%nat ->
  read_all fmt n rest = Some (map (fun i => dec_le (firstn k (skipn (i * k) rest))) (seq 0 n)).
Proof.
  intros Hf k. induction n as [|n IH]; intros rest Hlen; [reflexivity|].
  cbn [read_all]. rewrite (read_elem_listed fmt rest Hf). fold k.
  destruct (Nat.leb_spec k (length rest)) as [Hk|Hk]; [|lia].
  rewrite IH by (rewrite skipn_length; lia).
  cbn [seq map]. rewrite (map_seq_shift _ 1%nat). cbn [Nat.mul skipn].
  do 2 f_equal. apply map_ext. intros i. rewrite skipn_skipn'. replace (k + i * k)%nat with ((1 + i) * k)%nat by lia. reflexivity.
Qed.

Lemma nth_error_seq a n k : (k < n)%nat -> nth_error (seq a n) k = Some (a + k)%nat.
Proof.
  revert a k; induction n as [|n IH]; intros a [|k] H; cbn [seq nth_error]; try lia.
  - f_equal. lia.
  - rewrite IH by lia. f_equal. lia.
Qed.

Lemma need_listed fmt n : listed_color_format fmt = true -> need fmt n = bytes_per_element fmt * n.
Proof.
  intros Hf.
  assert (C : fmt = 0 \/ fmt = 2 \/ fmt = 3 \/ fmt = 4 \/ fmt = 5 \/ fmt = 7 \/ fmt = 8).
  { destruct fmt as [|p]; [left; reflexivity|]. do 4 (destruct p as [p|p|]; try discriminate Hf; auto 10). }
  destruct C as [->|[->|[->|[->|[->|[->| ->]]]]]]; cbv [need bytes_per_element]; lia.
Qed.

(* the decoded image as a scatter, for multiples of 8 *)
Lemma decode_rgba_as_scatter m fmt w h data :
  listed_color_format fmt = true -> w mod 8 = 0 -> h mod 8 = 0 -> w * h < 2 ^ 32 ->
  lenN data = bytes_per_element fmt * (w * h) ->
  let tw := N.to_nat (w / 8) in let th := N.to_nat (h / 8) in
  let kk := N.to_nat (bytes_per_element fmt) in
  decode_rgba_pixels m data w h fmt =
  Ok (scatter (combine (map (dstf w tw) (seq 0 (th * (tw * 64))))
                       (map (fun v => decode_color v fmt)
                            (map (fun i => dec_le (firstn kk (skipn (i * kk) data))) (seq 0 (th * (tw * 64))))))
              (repeat ZERO_PX (N.to_nat (w * h)))).
Proof.
  intros Hf Hw Hh Hsz Hlen tw th kk. unfold decode_rgba_pixels.
  rewrite mul_w_ok by (unfold maxw, W64; lia). cbn [bind].
  rewrite mul_w_ok by (unfold maxw, W64; lia). cbn [bind].
  unfold ALLOC_LIMIT. destruct (N.leb_spec (2 ^ 32) (w * h)) as [?|_]; [lia|].
  rewrite need_listed by exact Hf.
  assert (En : h / 8 * (w / 8) * 64 = w * h).
  { replace (w * h) with ((8 * (w / 8)) * (8 * (h / 8))) by (f_equal; lia).
    generalize (w / 8) (h / 8). intros a b. lia. }
  rewrite En, <- Hlen, N.leb_refl.
  fold tw th. rewrite tile_dsts_flat.
  assert (Ecount : (th * (tw * 64))%nat = N.to_nat (w * h)) by (unfold th, tw; lia).
  apply rgba_loop_scatter.
  - rewrite map_length, seq_length. apply (read_all_listed fmt Hf). rewrite Ecount. unfold lenN in Hlen. clear - Hlen. lia.
  - apply Forall_forall. intros d Hd. apply in_map_iff in Hd. destruct Hd as (k & <- & Hk). apply in_seq in Hk.
    destruct (Nat.eq_dec tw 0) as [Z|NZ]; [rewrite Z in Hk; lia|].
    pose proof (dstf_lt w tw th k ltac:(unfold tw; lia) ltac:(lia) ltac:(lia)) as L.
    replace (8 * N.of_nat th) with h in L by (unfold th; lia). exact L.
Qed.

Theorem rgba_pixel_source : forall m fmt w h data X Y,
  listed_color_format fmt = true -> w mod 8 = 0 -> h mod 8 = 0 -> w * h < 2 ^ 32 ->
  lenN data = bytes_per_element fmt * (w * h) -> X < w -> Y < h ->
  exists px, decode_rgba_pixels m data w h fmt = Ok px /\ length px = N.to_nat (w * h) /\
    nth_error px (N.to_nat (Y * w + X)) =
      Some (decode_color (element (bytes_per_element fmt) data (tiled_index w X Y)) fmt).
Proof.
  intros m fmt w h data X Y Hf Hw Hh Hsz Hlen HX HY.
  rewrite (decode_rgba_as_scatter m fmt w h data Hf Hw Hh Hsz Hlen).
  set (tw := N.to_nat (w / 8)). set (th := N.to_nat (h / 8)). set (kk := N.to_nat (bytes_per_element fmt)).
  set (n := (th * (tw * 64))%nat).
  assert (Ew : w = 8 * N.of_nat tw) by (unfold tw; lia).
  assert (Eh : h = 8 * N.of_nat th) by (unfold th; lia).
  assert (Htw : (0 < tw)%nat) by (unfold tw; lia).
  eexists. split; [reflexivity|]. split; [rewrite scatter_length, repeat_length; reflexivity|].
  destruct (dstf_of_pixel w tw th X Y Ew HX ltac:(lia)) as (Hk & Ed). fold n in Hk.
  set (k := N.to_nat (tiled_index w X Y)) in *.
  apply scatter_nth.
  - rewrite map_fst_combine by (rewrite !map_length; reflexivity).
    apply (NoDup_map_inv (dstf w tw) (srcf w)); [|apply seq_NoDup].
    intros i Hi. apply in_seq in Hi. apply (srcf_dstf w tw th); [exact Ew|exact Htw|fold n; lia].
  - apply In_combine_nth with (k := k).
    + rewrite <- Ed. apply map_nth_error. rewrite nth_error_seq by exact Hk. reflexivity.
    + apply (map_nth_error (fun v => decode_color v fmt)). unfold element.
      replace (N.to_nat (tiled_index w X Y * bytes_per_element fmt)) with (k * kk)%nat by (unfold k, kk; lia).
      fold kk. apply (map_nth_error (fun i => dec_le (firstn kk (skipn (i * kk) data)))). rewrite nth_error_seq by exact Hk. reflexivity.
  - rewrite repeat_length. assert (Y * w + X < w * h) by (clear - HX HY; nia). lia.
Qed.
