(* C17, part 1: flag words.  [compile_flags bs] is the number whose bit i is the i-th entry of [bs];
   the reader's test `(flags & (1 << i)) != 0` is that bit; the word is zero iff no entry is set;
   counting lemmas for the space formula. *)
From Coq Require Import List NArith ZArith Bool Lia ZifyBool ZifyNat ZifyN Arith.
From Mila Require Import Lib.Bytes Lib.Machine Model.BinArchive Model.BinStreams Model.ASet.
Import ListNotations.
Local Open Scope N_scope.
Ltac Zify.zify_post_hook ::= Z.div_mod_to_equations.

Lemma nth_nil_false (n : nat) : nth n (@nil bool) false = false.
Proof. destruct n; reflexivity. Qed.

Lemma compile_flags_from_testbit : forall bs i acc j,
  N.testbit (compile_flags_from i bs acc) j
  = orb (N.testbit acc j) (andb (i <=? j) (nth (N.to_nat (j - i)) bs false)).
Proof.
  induction bs as [|b r IH]; intros i acc j; cbn [compile_flags_from].
  - rewrite nth_nil_false, andb_false_r, orb_false_r. reflexivity.
  - rewrite IH.
    assert (E : N.testbit (if b then N.lor acc (N.shiftl 1 i) else acc) j = orb (N.testbit acc j) (andb b (i =? j))).
    { destruct b; [|rewrite andb_false_l, orb_false_r; reflexivity].
      rewrite N.lor_spec, N.shiftl_1_l, N.pow2_bits_eqb. reflexivity. }
    rewrite E. destruct (N.eqb_spec i j) as [Eij|Nij].
    + subst j. replace (i + 1 <=? i) with false by (symmetry; apply N.leb_gt; lia).
      rewrite N.leb_refl, N.sub_diag. cbn [N.to_nat nth andb]. rewrite andb_true_r, orb_false_r. reflexivity.
    + rewrite andb_false_r, orb_false_r. destruct (N.leb_spec i j) as [Lij|Gij].
      * replace (i + 1 <=? j) with true by (symmetry; apply N.leb_le; lia).
        replace (N.to_nat (j - i)) with (S (N.to_nat (j - (i + 1)))) by lia. reflexivity.
      * replace (i + 1 <=? j) with false by (symmetry; apply N.leb_gt; lia). reflexivity.
Qed.

Theorem compile_flags_testbit bs j : N.testbit (compile_flags bs) j = nth (N.to_nat j) bs false.
Proof.
  unfold compile_flags. rewrite compile_flags_from_testbit, N.bits_0, N.sub_0_r.
  replace (0 <=? j) with true by (symmetry; apply N.leb_le; lia). reflexivity.
Qed.

Lemma bits_bound x n : (forall m, n <= m -> N.testbit x m = false) -> x < 2 ^ n.
Proof.
  intros H. destruct (N.eq_dec x 0) as [E|E]; [subst; apply N.neq_0_lt_0, N.pow_nonzero; discriminate|].
  apply N.log2_lt_pow2; [lia|].
  destruct (N.lt_ge_cases (N.log2 x) n) as [L|G]; [exact L|].
  pose proof (N.bit_log2 x E) as B. rewrite (H _ G) in B. discriminate.
Qed.

Theorem compile_flags_bound bs : compile_flags bs < 2 ^ N.of_nat (length bs).
Proof.
  apply bits_bound. intros m Hm. rewrite compile_flags_testbit. apply nth_overflow. lia.
Qed.

Theorem compile_flags_zero bs : compile_flags bs = 0 <-> Forall (fun b => b = false) bs.
Proof.
  split.
  - intros E. apply Forall_forall. intros b Hb. destruct (In_nth bs b false Hb) as (n & Hn & En).
    pose proof (compile_flags_testbit bs (N.of_nat n)) as T. rewrite E, N.bits_0, Nat2N.id, En in T. congruence.
  - intros F. apply N.bits_inj. intros j. rewrite compile_flags_testbit, N.bits_0.
    destruct (Nat.lt_ge_cases (N.to_nat j) (length bs)) as [L|G]; [|apply nth_overflow; exact G].
    rewrite Forall_forall in F. apply F. apply nth_In. exact L.
Qed.

(* the reader's bit test *)
Lemma land_bit_test x i : (N.land x (N.shiftl 1 i) =? 0) = negb (N.testbit x i).
Proof.
  rewrite N.shiftl_1_l. destruct (N.testbit x i) eqn:T; cbn [negb].
  - apply N.eqb_neq. intros E.
    assert (B : N.testbit (N.land x (2 ^ i)) i = true) by (rewrite N.land_spec, T, N.pow2_bits_true; reflexivity).
    rewrite E, N.bits_0 in B. discriminate.
  - apply N.eqb_eq. apply N.bits_inj. intros m. rewrite N.land_spec, N.pow2_bits_eqb, N.bits_0.
    destruct (N.eqb_spec i m) as [E|E]; [subst; rewrite T; reflexivity | apply andb_false_r].
Qed.

Lemma nth_map_seq {A} (f : nat -> A) n b d : (b < n)%nat -> nth b (map f (seq 0 n)) d = f b.
Proof.
  intros H. rewrite (nth_indep _ d (f 0%nat)) by (rewrite map_length, seq_length; lia).
  rewrite map_nth, seq_nth by lia. reflexivity.
Qed.

(* ---- counting ---- *)
Lemma count_true_from : forall bs acc,
  fold_left (fun n (b : bool) => if b then n + 1 else n) bs acc = acc + count_true bs.
Proof.
  unfold count_true. induction bs as [|b r IH]; intros acc; cbn [fold_left]; [lia|].
  rewrite IH, (IH (if b then 0 + 1 else 0)). destruct b; lia.
Qed.
Lemma count_true_cons b r : count_true (b :: r) = (if b then 1 else 0) + count_true r.
Proof. unfold count_true at 1. cbn [fold_left]. rewrite count_true_from. destruct b; lia. Qed.
Lemma count_true_nil : count_true [] = 0.
Proof. reflexivity. Qed.
Lemma count_true_all_false bs : Forall (fun b => b = false) bs -> count_true bs = 0.
Proof.
  induction 1 as [|b r Hb Hr IH]; [reflexivity|]. rewrite count_true_cons, IH, Hb. reflexivity.
Qed.

(* number of list members satisfying a predicate *)
Definition cnt {A} (p : A -> bool) (l : list A) : N := N.of_nat (length (filter p l)).
Lemma cnt_nil {A} (p : A -> bool) : cnt p [] = 0.
Proof. reflexivity. Qed.
Lemma cnt_cons {A} (p : A -> bool) x l : cnt p (x :: l) = (if p x then 1 else 0) + cnt p l.
Proof. unfold cnt. cbn [filter]. destruct (p x); cbn [length]; lia. Qed.
Lemma cnt_app {A} (p : A -> bool) l1 l2 : cnt p (l1 ++ l2) = cnt p l1 + cnt p l2.
Proof. unfold cnt. rewrite filter_app, app_length. lia. Qed.
Lemma count_true_map {A} (p : A -> bool) l : count_true (map p l) = cnt p l.
Proof.
  induction l as [|x r IH]; [reflexivity|]. cbn [map]. rewrite count_true_cons, cnt_cons, IH. reflexivity.
Qed.
Lemma cnt_zero_iff {A} (p : A -> bool) l : cnt p l = 0 <-> existsb p l = false.
Proof.
  induction l as [|x r IH]; [split; reflexivity|]. rewrite cnt_cons. cbn [existsb].
  destruct (p x); cbn [orb]; [split; [lia | discriminate]|]. rewrite <- IH. lia.
Qed.
