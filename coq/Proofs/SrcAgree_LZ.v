(* Agreement of the numeric constants of src/lz10.rs and src/lz13.rs (regenerated from the source on every
   run) with Model/LZCore.v, LZ10.v, LZ11.v, LZDecode.v.  The constants are literals inside the model's
   functions; for each function that contains one, a copy with the constants as parameters is defined here
   and proved equal to the model's function when the parameters are the values read from the source. *)
From Coq Require Import List NArith ZArith Arith Bool Lia.
From Mila Require Import Generated.SourceTables.
From Mila Require Import Proofs.SrcAgreeLib Lib.Bytes Lib.Machine Model.LZCore Model.LZ10 Model.LZ11 Model.LZDecode.
Import ListNotations.

(* ------------------------------------------------------------------ positions in the generated lists *)
Definition c10 (i : nat) : N := nthN i src_LZ10_CONSTS.
Definition c13 (i : nat) : N := nthN i src_LZ13_CONSTS.
Definition cd (i : nat) : N := nthN i src_LZ_DECODE_CONSTS.
Definition ch (i : nat) : N := nthN i src_LZ13_HEADER_CONSTS.

Theorem src_LZ_agrees_counts :
  length src_LZ10_CONSTS = 6%nat /\ length src_LZ13_CONSTS = 11%nat /\
  length src_LZ_DECODE_CONSTS = 9%nat /\ length src_LZ13_HEADER_CONSTS = 8%nat.
Proof. repeat split; reflexivity. Qed.

(* ------------------------------------------------------------------ the shared greedy loop *)
(* LZCore.tokens_from with the window size and the minimum match length as parameters *)
Definition tokens_from_p (window minm : nat) : nat -> nat -> list N -> nat -> list token :=
  fix go (fuel : nat) (L : nat) (whole : list N) (pos : nat) : list token :=
  match fuel with
  | O => []
  | S f =>
    if Nat.leb (length whole) pos then [] else
    let oldlen := Nat.min pos window in
    let '(len, disp) := occ whole pos (Nat.min (length whole - pos) L) (pos - oldlen) oldlen in
    if Nat.ltb len minm then Lit (nth pos whole 0%N) :: go f L whole (S pos)
    else Ref len disp :: go f L whole (pos + len)
  end.

(* the parameters stand outside the `fix`, so the instance is convertible with the model's fixpoint *)
Lemma tokens_from_p_model : tokens_from_p WINDOW 3 = tokens_from.
Proof. reflexivity. Qed.

(* LZ10: window, look-ahead and minimum match of LZ10CompressionFormat::compress *)
Theorem src_LZ10_CONSTS_agrees_loop : forall x,
  tokens 18 x
  = tokens_from_p (N.to_nat (c10 1)) (N.to_nat (c10 3)) (length x) (N.to_nat (c10 2)) x 0.
Proof. intro x. change (N.to_nat (c10 1)) with WINDOW. change (N.to_nat (c10 3)) with 3%nat.
       change (N.to_nat (c10 2)) with 18%nat. rewrite tokens_from_p_model. reflexivity. Qed.

Theorem src_LZ10_CONSTS_agrees_compress : forall x,
  compress10 x = emit_loop tok10 (header10 (lenN x)) (tokens (N.to_nat (c10 2)) x).
Proof. intro x. reflexivity. Qed.

(* LZ13: the same for LZ13CompressionFormat::compress *)
Theorem src_LZ13_CONSTS_agrees_loop : forall x,
  tokens 4096 x
  = tokens_from_p (N.to_nat (c13 2)) (N.to_nat (c13 4)) (length x) (N.to_nat (c13 3)) x 0.
Proof. intro x. change (N.to_nat (c13 2)) with WINDOW. change (N.to_nat (c13 4)) with 3%nat.
       change (N.to_nat (c13 3)) with 4096%nat. rewrite tokens_from_p_model. reflexivity. Qed.

Theorem src_LZ13_CONSTS_agrees_compress : forall m hdr x,
  compress13_with m hdr x
  = (a <- add_w W64 m 12 (lenN x) ;; b <- add_w W64 m (lenN x) 7 ;; _ <- add_w W64 m a (N.shiftr b 3) ;;
     Ok (emit_loop tok11 (header13 hdr (lenN x)) (tokens (N.to_nat (c13 3)) x))).
Proof. intros. reflexivity. Qed.

(* ------------------------------------------------------------------ the emission loop: tokens per flag byte *)
Local Open Scope N_scope.
Definition flag_or_p (blocks f k : N) (t : token) : N :=
  match t with Lit _ => f | Ref _ _ => N.lor f (N.shiftl 1 (blocks - 1 - k)) end.
Definition e_step_p (blocks : N) (tb : token -> list N) (s : estate) (t : token) : estate :=
  let s := if e_blocks s =? blocks then e_flush s else s in
  {| e_buf := e_buf s; e_flag := flag_or_p blocks (e_flag s) (e_blocks s) t; e_ob := e_ob s ++ tb t;
     e_blocks := e_blocks s + 1 |}.

Theorem src_LZ10_CONSTS_agrees_blocks : forall tb s t, e_step tb s t = e_step_p (c10 5) tb s t.
Proof. intros tb s t. unfold e_step, e_step_p. destruct t; reflexivity. Qed.
Theorem src_LZ13_CONSTS_agrees_blocks : forall tb s t, e_step tb s t = e_step_p (c13 9) tb s t.
Proof. intros tb s t. unfold e_step, e_step_p. destruct t; reflexivity. Qed.

(* ------------------------------------------------------------------ LZ10 header and token bytes *)
Definition tok10_p (bias : N) (t : token) : list N :=
  match t with
  | Lit b => [b]
  | Ref len disp =>
    let length := N.of_nat len in
    let disp := N.of_nat disp in
    [ N.lor (N.land (N.shiftl (length - bias) 4) 0xF0) (N.land (N.shiftr (disp - 1) 8) 0x0F);
      N.land (disp - 1) 0xFF ]
  end.

Theorem src_LZ10_CONSTS_agrees_token : forall t, tok10 t = tok10_p (c10 4) t.
Proof. intros [b|len disp]; reflexivity. Qed.

Theorem src_LZ10_CONSTS_agrees_type : forall n, header10 n = c10 0 :: le24 n.
Proof. intro n. reflexivity. Qed.

(* ------------------------------------------------------------------ LZ13 wrapper, LZ11 header and token bytes *)
Definition header13_p (wrap ty ext : N) (h n : N) : list N :=
  wrap :: le24 h ++ ty ::
  (if orb (n =? 0) (ext <? n) then [0; 0; 0] ++ enc_le 4 (trunc_w W32 n) else le24 n).

Theorem src_LZ13_CONSTS_agrees_header : forall h n, header13 h n = header13_p (c13 0) (c13 1) (c13 10) h n.
Proof. intros h n. reflexivity. Qed.

Definition tok11_p (b4 b3 long_bias short_bias : Z) (t : token) : list N :=
  match t with
  | Lit b => [b]
  | Ref len disp =>
    let length := Z.of_nat len in
    let disp := Z.of_nat disp in
    let dhi := Z.land (Z.shiftr (disp - 1) 8) 0x0F in
    let dlo := Z.land (disp - 1) 0xFF in
    let bs :=
      if (b4 <? length)%Z then
        [ Z.lor 0x10 (Z.land (Z.shiftr (length - long_bias) 12) 0x0F);
          Z.land (Z.shiftr (length - long_bias) 4) 0xFF;
          Z.lor (Z.land (Z.shiftl (length - long_bias) 4) 0xF0) dhi;
          dlo ]
      else if (b3 <? length)%Z then
        [ Z.land (Z.shiftr (length - long_bias) 4) 0x0F;
          Z.lor (Z.land (Z.shiftl (length - long_bias) 4) 0xF0) dhi;
          dlo ]
      else
        [ Z.lor (Z.land (Z.shiftl (length - short_bias) 4) 0xF0) dhi;
          dlo ] in
    map Z.to_N bs
  end%Z.

Theorem src_LZ13_CONSTS_agrees_token : forall t,
  tok11 t = tok11_p (Z.of_N (c13 5)) (Z.of_N (c13 6)) (Z.of_N (c13 7)) (Z.of_N (c13 8)) t.
Proof. intros [b|len disp]; reflexivity. Qed.

(* ------------------------------------------------------------------ the decoder *)
Definition dec_ref_p (bias10 bias11a bias11b bias11c : N) (lz11 : bool) (b0 b1 : N) (bs : list N) : outcome (N * N * list N) :=
  if negb lz11 then
    Ok (N.shiftr b0 4 + bias10, N.lor (N.shiftl (N.land b0 15) 8) b1, bs)
  else if 1 <? N.shiftr b0 4 then
    Ok (N.shiftr b0 4 + bias11a, N.lor (N.shiftl (N.land b0 15) 8) b1, bs)
  else if N.shiftr b0 4 =? 0 then
    '(b2, bs) <- next bs ;;
    Ok (N.lor (N.shiftl (N.land b0 15) 4) (N.shiftr b1 4) + bias11b, N.lor (N.shiftl (N.land b1 15) 8) b2, bs)
  else
    '(b2, bs) <- next bs ;;
    '(b3, bs) <- next bs ;;
    Ok (N.lor (N.lor (N.shiftl (N.land b0 15) 12) (N.shiftl b1 4)) (N.shiftr b2 4) + bias11c,
        N.lor (N.shiftl (N.land b2 15) 8) b3, bs).

Theorem src_LZ_DECODE_CONSTS_agrees_forms : forall lz11 b0 b1 bs,
  dec_ref lz11 b0 b1 bs = dec_ref_p (cd 2) (cd 3) (cd 4) (cd 5) lz11 b0 b1 bs.
Proof. intros. reflexivity. Qed.

Definition decompress_lz_p (t10 t11 : N) (m : mode) (bytes : list N) : outcome (list N) :=
  '(t, bs) <- next bytes ;;
  lz11 <- (if t =? t10 then Ok false else if t =? t11 then Ok true else Err EInvalidInput) ;;
  '(s0, bs) <- next bs ;;
  '(s1, bs) <- next bs ;;
  '(s2, bs) <- next bs ;;
  let size := N.lor (N.lor s0 (N.shiftl s1 8)) (N.shiftl s2 16) in
  '(size, bs) <- (if andb (size =? 0) lz11 then
                    '(s0, bs) <- next bs ;;
                    '(s1, bs) <- next bs ;;
                    '(s2, bs) <- next bs ;;
                    '(s3, bs) <- next bs ;;
                    Ok (N.lor (N.lor (N.lor s0 (N.shiftl s1 8)) (N.shiftl s2 16)) (N.shiftl s3 24), bs)
                  else Ok (size, bs)) ;;
  o <- dec_loop m lz11 (S (length bs)) bs v_empty size ;;
  Ok (v_list o).

Theorem src_LZ_DECODE_CONSTS_agrees_type : forall m bytes,
  decompress_lz m bytes = decompress_lz_p (cd 0) (cd 1) m bytes.
Proof. intros. reflexivity. Qed.

Definition lz13_decompress_p (minlen wrap skip : N) (m : mode) (bytes : list N) : outcome (list N) :=
  if lenN bytes <? minlen then Err EInvalidInput else
  match bytes with
  | [] => Panic PIndex
  | b0 :: _ =>
    if b0 =? 0 then Ok (skipn (N.to_nat skip) bytes)
    else decompress_lz m (if b0 =? wrap then skipn (N.to_nat skip) bytes else bytes)
  end.

Theorem src_LZ_DECODE_CONSTS_agrees_wrapper : forall m bytes,
  lz13_decompress m bytes = lz13_decompress_p (cd 6) (cd 7) (cd 8) m bytes.
Proof. intros. reflexivity. Qed.

(* the compressor and the decoder use the same type bytes, wrapper byte and length biases *)
Theorem src_LZ_agrees_coherent :
  c10 0 = cd 0 /\ c13 1 = cd 1 /\ c13 0 = cd 7 /\ c10 4 = cd 2 /\ c13 8 = cd 3 /\ c13 7 = cd 5 /\
  c13 6 + 1 = cd 4 /\ c13 5 + 1 = cd 5.
Proof. repeat split; reflexivity. Qed.

(* ------------------------------------------------------------------ calculate_lz13_header *)
Local Open Scope Z_scope.
Definition hdr_search_p (minm : nat) : nat -> list N -> list N -> nat -> nat -> nat :=
  fix go (n : nat) (win rest : list N) (cap : nat) (length : nat) : nat :=
  match n with
  | O => length
  | S n' =>
    let y := cpl cap win rest in
    let length := if andb (Nat.leb minm y) (Nat.ltb length y) then y else length in
    go n' (tl win) rest cap length
  end.

(* [k0 k1 k2]: the three `length <= K` boundaries; [minx]: the smallest distance tried; [fcmax]: tokens per flag byte *)
Definition hdr_loop_p (window minx minm k0 k1 k2 : nat) (fcmax : Z)
  : nat -> list N -> nat -> nat -> Z -> Z -> Z -> outcome Z :=
  fix go (fuel : nat) (whole : list N) (len sp : nat) (max_lead buffer_length fc : Z) : outcome Z :=
  if Nat.leb len sp then Ok (w32 (max_lead + buffer_length)) else
  match fuel with
  | O => Err EOutOfFuel
  | S f =>
    let x := Nat.min sp window in
    let length := hdr_search_p minm (x - (minx - 1)) (skipn (sp - x) whole) (skipn sp whole) (len - sp) 1 in
    let step (sp' : nat) (buffer_length : Z) :=
      let max_lead := Z.max max_lead (w32 (Z.of_nat sp' - buffer_length)) in
      let fc := w32 (fc + 1) in
      if fc =? fcmax then go f whole len sp' max_lead (w32 (buffer_length + 1)) 0
      else go f whole len sp' max_lead buffer_length fc in
    if Nat.eqb length 1 then step (S sp) (w32 (buffer_length + 1))
    else if Nat.leb length k0 then Err EInvalidInput
    else if Nat.leb length k1 then step (sp + length)%nat (w32 (w32 (buffer_length + 1) + 1))
    else if Nat.leb length k2 then step (sp + length)%nat (w32 (w32 (buffer_length + 2) + 1))
    else step (sp + length)%nat (w32 (w32 (buffer_length + 3) + 1))
  end.

Lemma hdr_loop_p_model : hdr_loop_p 4096 2 3 2 0x10 0x110 8 = hdr_loop.
Proof. reflexivity. Qed.

Theorem src_LZ13_HEADER_CONSTS_agrees : forall x,
  calculate_lz13_header x
  = (let len := List.length x in
     v <- hdr_loop_p (N.to_nat (ch 1)) (N.to_nat (ch 2)) (N.to_nat (ch 3)) (N.to_nat (ch 4)) (N.to_nat (ch 5))
            (N.to_nat (ch 6)) (Z.of_N (ch 7)) len x len 0 0 (Z.of_N (ch 0)) 0 ;;
     Ok (Z.to_N (if v <? 0 then v + 18446744073709551616 else v))).
Proof.
  intro x. unfold calculate_lz13_header.
  change (N.to_nat (ch 1)) with 4096%nat. change (N.to_nat (ch 2)) with 2%nat. change (N.to_nat (ch 3)) with 3%nat.
  change (N.to_nat (ch 4)) with 2%nat. change (N.to_nat (ch 5)) with 16%nat. change (N.to_nat (ch 6)) with 272%nat.
  change (Z.of_N (ch 7)) with 8. change (Z.of_N (ch 0)) with 9.
  cbv zeta. rewrite hdr_loop_p_model. reflexivity.
Qed.

(* the header computation looks for matches with the window and minimum length the compressor uses *)
Theorem src_LZ13_HEADER_CONSTS_agrees_coherent :
  ch 1 = c13 2 /\ ch 3 = c13 4 /\ ch 5 = c13 6 /\ ch 6 = c13 5 /\ ch 7 = c13 9.
Proof. repeat split; reflexivity. Qed.
