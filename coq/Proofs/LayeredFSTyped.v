(* C12, last sentence: "The typed helpers (bin archive, text archive, pack/arc and texture readers, archive
   writers) are exactly that byte-level read or write composed with the codec configured for the game" -
   END TO END, with nothing abstract.

   Model/FsTyped.v instantiates the section variables of Model/LayeredFS.v with the models of the real code
   (LZ10/LZ13 codecs, BinArchive / TextArchive parsers and serializers, arc, fe9_arc, the four texture
   readers).  This file composes the per-property theorems about those models:

     read-after-write of the layered file system with the real codecs      Proofs/LayeredFSCodec.v (C12 + C08/C09)
     bin archive   serialize -> from_bytes                                 Proofs/BinRoundTrip.v   (C01)
     text archive  serialize -> from_bytes                                 Proofs/TextBinBridge.v  (C06)
     pack (fe9_arc) parser on conforming images, builder                   Proofs/PackParse.v, PackSerialize.v (C15)
     arc extraction from conforming files                                  Proofs/ArcBytes.v       (C16)
     texture containers                                                    Proofs/Tex*.v           (C20)

   into statements about the typed helpers themselves: what write_archive stores is what read_archive parses
   back, related to the written archive exactly as C01 says; the same for text archives (C06); a pack / arc /
   texture image written with the byte-level write is read by the typed readers as C15 / C16 / C20 say; the
   typed writers touch the top layer only.

   Domain.  Everything holds for every file system value S, every path string, localized or not, compressed
   name or not, every pair of arithmetic profiles (mc writes, md reads).  The file image must be shorter than
   16 MiB (the domain of the LZ round trip; stated on the archive through C01's size bound [ser_bound], C06's
   [file_bound]).  The archive handed to a typed writer must carry the endianness (and, for text archives, the
   format) the file system is configured with - the readers parse with the CONFIGURED parameters while the
   writers serialize with the parameters STORED IN THE VALUE; [e2e_archive_wrong_endian] shows that the
   hypothesis is necessary.  The *_by_game corollaries spell the configuration out per game. *)
From Coq Require Import List NArith ZArith Bool Arith Lia ZifyBool ZifyNat ZifyN.
From Mila Require Import Lib.Bytes Lib.Machine Model.Localize Model.LayeredFS Model.FsTyped
  Proofs.LayeredFSBase Proofs.LayeredFSStack Proofs.LayeredFSWf Proofs.LayeredFSLocal Proofs.LayeredFSCodec.
From Mila Require Import Model.BinArchive Model.BinFormat Model.TextMap Model.TexCommon.
From Mila Require Model.LZ10 Model.LZ11 Model.LZDecode Model.TextFormat Model.Arc Model.Pack Model.PackFormat Model.TexFormat
  Model.Ctpk Model.Bch Model.Cgfx Model.Tpl.
From Mila Require Import Proofs.AMapLemmas Proofs.BinFormatSpec Proofs.BinSerializeConformsBase Proofs.BinSerializeConformsPhases
  Proofs.BinSerializeConforms Proofs.BinRoundTrip.
From Mila Require Proofs.TextFormatWrite Proofs.TextFormatRoundTrip Proofs.TextBinBridge Proofs.ArcProofs Proofs.ArcBytes
  Proofs.PackParse Proofs.PackSerialize Proofs.TexBase Proofs.TexCtpk Proofs.TexBch Proofs.TexCgfx Proofs.TexTpl Proofs.TexDecode
  Proofs.TexStatements.
Import ListNotations.
Local Open Scope N_scope.
Ltac Zify.zify_post_hook ::= Z.div_mod_to_equations.

(* ------------------------------------------------------------------ the instantiation is the one of Proofs/LayeredFSCodec.v *)
Lemma lz_compress_real mc : lz_compress mc = real_compress mc.
Proof. reflexivity. Qed.
Lemma lz_decompress_real md : lz_decompress md = real_decompress md.
Proof. reflexivity. Qed.

(* the helpers, unfolded: byte-level read, then the real parser with the CONFIGURED endianness / text format;
   real serializer (parameters stored in the value), then byte-level write *)
Theorem typed_helpers_unfold kf mc md S p loc :
  read_archive md S p loc = fbind (read_file md S p loc) (fun b => lift_parse (BinFormat.from_bytes (c_endian (conf S)) b)) /\
  read_text_archive md S p loc = fbind (read_file md S p loc) (fun b => lift_parse (parse_text (LayeredFS.c_text (conf S)) (c_endian (conf S)) b)) /\
  read_arc md S p loc = fbind (read_file md S p loc) (fun b => lift_parse (Arc.arc_from_bytes md b)) /\
  read_fe9_arc md S p loc = fbind (read_file md S p loc) (fun b => lift_parse (Pack.parse md b)) /\
  read_tpl_textures md S p loc = fbind (read_file md S p loc) (fun b => lift_parse (as_vec (Tpl.read_tpl md b))) /\
  read_bch_textures md S p loc = fbind (read_file md S p loc) (fun b => lift_parse (as_map (Bch.read_bch md b))) /\
  read_ctpk_textures md S p loc = fbind (read_file md S p loc) (fun b => lift_parse (as_map (Ctpk.read_ctpk md b))) /\
  read_cgfx_textures md S p loc = fbind (read_file md S p loc) (fun b => lift_parse (as_map (Cgfx.read_cgfx md b))) /\
  (forall a, write_archive kf mc S p a loc =
     match BinFormat.serialize_k kf mc a with
     | Ok f => write_file mc S p f loc | Err x => (S, FErr (EParse x)) | Panic k => (S, FPanic k) end) /\
  (forall a, write_text_archive kf mc S p a loc =
     match TextFormat.serialize kf mc (ta_fmt a) (ta_endian a) (ta_map a) with
     | Ok f => write_file mc S p f loc | Err x => (S, FErr (EParse x)) | Panic k => (S, FPanic k) end).
Proof.
  repeat split.
  - intros a. unfold write_archive, fs_write_archive, ser_bin, write_file. destruct (BinFormat.serialize_k kf mc a); reflexivity.
  - intros a. unfold write_text_archive, fs_write_text_archive, ser_text, write_file.
    destruct (TextFormat.serialize kf mc (ta_fmt a) (ta_endian a) (ta_map a)); reflexivity.
Qed.

(* what LayeredFilesystem::new configures *)
Lemma fs_new_conf ls l g S : fs_new ls l g = FOk S ->
  c_endian (conf S) = endian_of_game g /\ LayeredFS.c_text (conf S) = text_of_game g /\ comp_of_game g = Some (c_comp (conf S)) /\
  layers S = ls /\ lng S = l.
Proof.
  intros H. destruct ls as [|L0 ls]; [discriminate|]. unfold fs_new in H.
  destruct (comp_of_game g) as [c|] eqn:Ec; [|discriminate]. destruct (loc_of_game g) as [lz|]; [|discriminate].
  injection H as <-. repeat split.
Qed.

(* ------------------------------------------------------------------ reading what a byte-level write stored *)
Lemma read_after_write_file mc md S p b loc S' :
  write_file mc S p b loc = (S', FOk tt) -> wfb b -> lenN b < 2 ^ 24 ->
  read_file md S' p loc = FOk b /\ conf S' = conf S.
Proof.
  intros H Hw Hn. split.
  - exact (real_read_after_write mc md S p b loc S' H Hw Hn).
  - exact (proj1 (write_lower_untouched (lz_compress mc) S p b loc S' (FOk tt) H)).
Qed.

(* every typed reader after a successful byte-level write of b to the same path (same localisation choice): the real
   parser applied to b *)
Theorem typed_reads_after_write mc md S p b loc S' :
  write_file mc S p b loc = (S', FOk tt) -> wfb b -> lenN b < 2 ^ 24 ->
  read_file md S' p loc = FOk b /\
  read_archive md S' p loc = lift_parse (BinFormat.from_bytes (c_endian (conf S)) b) /\
  read_text_archive md S' p loc = lift_parse (parse_text (LayeredFS.c_text (conf S)) (c_endian (conf S)) b) /\
  read_arc md S' p loc = lift_parse (Arc.arc_from_bytes md b) /\
  read_fe9_arc md S' p loc = lift_parse (Pack.parse md b) /\
  read_tpl_textures md S' p loc = lift_parse (as_vec (Tpl.read_tpl md b)) /\
  read_bch_textures md S' p loc = lift_parse (as_map (Bch.read_bch md b)) /\
  read_ctpk_textures md S' p loc = lift_parse (as_map (Ctpk.read_ctpk md b)) /\
  read_cgfx_textures md S' p loc = lift_parse (as_map (Cgfx.read_cgfx md b)).
Proof.
  intros H Hw Hn. destruct (read_after_write_file mc md S p b loc S' H Hw Hn) as [R C].
  destruct (typed_helpers_unfold key_bytes mc md S' p loc) as (U1 & U2 & U3 & U4 & U5 & U6 & U7 & U8 & _).
  rewrite U1, U2, U3, U4, U5, U6, U7, U8, R, C. cbn [fbind]. repeat split.
Qed.

(* a typed read in ANY state: the parser applied to the decoded file of the highest layer holding a FILE at the
   addressed location (C12_read_top_wins composed with the parser); stated for an arbitrary parser, the eight
   helpers are its instances by [typed_helpers_unfold] *)
Theorem typed_read_top_wins md {A} (parse : bytes -> outcome A) S p loc s a (r : fres A) :
  fs_addr S p loc = FOk (s, a) ->
  (fbind (read_file md S p loc) (fun b => lift_parse (parse b)) = r /\ r <> FErr ENotFound <->
   exists i L raw, nth_error (layers S) i = Some L /\ l_read L a = Some raw /\
     (forall j L', (i < j)%nat -> nth_error (layers S) j = Some L' -> l_is_file L' a = false) /\
     fbind (decode_by_name (lz_decompress md) S p raw) (fun b => lift_parse (parse b)) = r).
Proof.
  intros Ha.
  assert (NF : forall (x : fres bytes), x <> FErr ENotFound -> fbind x (fun b => lift_parse (parse b)) <> FErr ENotFound).
  { intros [b|e|k] Hx; cbn [fbind]; [|congruence|discriminate]. destruct (parse b); cbn [lift_parse]; discriminate. }
  split.
  - intros [E Hr].
    assert (Hx : read_file md S p loc <> FErr ENotFound).
    { intros Hx. rewrite Hx in E. cbn [fbind] in E. congruence. }
    destruct (proj1 (read_top_wins (lz_decompress md) S p loc s a (read_file md S p loc) Ha) (conj eq_refl Hx)) as (i & L & raw & H1 & H2 & H3 & H4).
    exists i, L, raw. rewrite H4. repeat split; assumption.
  - intros (i & L & raw & H1 & H2 & H3 & H4).
    assert (G : read_file md S p loc = decode_by_name (lz_decompress md) S p raw /\ decode_by_name (lz_decompress md) S p raw <> FErr ENotFound).
    { apply (proj2 (read_top_wins (lz_decompress md) S p loc s a _ Ha)). exists i, L, raw. auto. }
    destruct G as [G1 G2]. rewrite G1, H4. split; [reflexivity|]. rewrite <- H4. apply NF, G2.
Qed.

(* ------------------------------------------------------------------ (a) bin archives: write_archive -> read_archive *)
(* the relation of C01_round_trip between the written archive a and the archive a' read back *)
Definition same_archive (a a' : archive) : Prop :=
  a_endian a' = a_endian a /\ a_cstrs a' = [] /\
  size a' = size a + lenN (pool_bytes a) /\ lenN (pool_bytes a) mod 4 = 0 /\ (a_cstrs a = [] -> size a' = size a) /\
  (forall i, (i < N.to_nat (size a))%nat -> outside (cells a) i -> nth_error (a_data a') i = nth_error (a_data a) i) /\
  (forall x, am_get x (a_text a') = am_get x (a_text a)) /\
  (forall x, ~ In x (cs_cells a) -> am_get x (a_ptrs a') = am_get x (a_ptrs a)) /\
  (forall x, am_get x (a_labels a') = am_get x (a_labels a)) /\
  (forall s cs cell, In (s, cs) (a_cstrs a) -> In cell cs -> read_c_string a' cell = Ok (Some s)).

(* the image of an archive of C01's domain is no longer than C01's size bound *)
Lemma serialize_size kf m a f : wf_archive a -> fits32 a -> BinFormat.serialize_k kf m a = Ok f -> lenN f <= ser_bound a.
Proof.
  intros WF FIT Ef. destruct (serialize_ok_length kf m a f WF Ef) as [L _]. rewrite L.
  apply image_size_bound; [exact WF | apply fits32_size; exact FIT].
Qed.

Lemma small_fits32 a : ser_bound a < 2 ^ 24 -> fits32 a.
Proof. unfold fits32, U32. change (2 ^ 24) with 16777216. lia. Qed.

(* the image written by serialize and everything C01 says about reading it back *)
Lemma archive_image kf mc a : wf_archive a -> ser_bound a < 2 ^ 24 ->
  exists f a', BinFormat.serialize_k kf mc a = Ok f /\ wfb f /\ lenN f < 2 ^ 24 /\
    BinFormat.from_bytes (a_endian a) f = Ok a' /\ same_archive a a'.
Proof.
  intros WF B. pose proof (small_fits32 a B) as FIT.
  destruct (round_trip kf mc a WF FIT) as (f & a' & Hs & Hw & Hp & R).
  exists f, a'. split; [exact Hs|]. split; [exact Hw|]. split.
  - pose proof (serialize_size kf mc a f WF FIT Hs). lia.
  - split; [exact Hp | exact R].
Qed.

Theorem e2e_archive_round_trip kf mc md S p loc a S' :
  wf_archive a -> ser_bound a < 2 ^ 24 -> a_endian a = c_endian (conf S) ->
  write_archive kf mc S p a loc = (S', FOk tt) ->
  exists f a',
    BinFormat.serialize_k kf mc a = Ok f /\ write_file mc S p f loc = (S', FOk tt) /\
    read_file md S' p loc = FOk f /\
    read_archive md S' p loc = FOk a' /\ same_archive a a'.
Proof.
  intros WF B He H. destruct (archive_image kf mc a WF B) as (f & a' & Hs & Hw & Hn & Hp & R).
  destruct (typed_helpers_unfold kf mc md S p loc) as (_ & _ & _ & _ & _ & _ & _ & _ & UW & _).
  rewrite UW, Hs in H.
  destruct (typed_reads_after_write mc md S p f loc S' H Hw Hn) as (Rb & Ra & _).
  exists f, a'. split; [exact Hs|]. split; [exact H|]. split; [exact Rb|]. split; [|exact R].
  rewrite Ra, <- He, Hp. reflexivity.
Qed.

(* the configured endianness, game by game (LayeredFilesystem::new) *)
Definition game_endian_is (g : fsgame) (e : endian) : Prop :=
  match g with FE9 | FE10 => e = BE | FE13 | FE14 | FE15 => e = LE | FE11 | FE12 => False end.
Lemma game_endian ls l g S e : fs_new ls l g = FOk S -> game_endian_is g e -> e = c_endian (conf S).
Proof.
  intros Hn Hg. destruct (fs_new_conf ls l g S Hn) as (He & _ & Hc & _). rewrite He.
  destruct g; cbn in Hg |- *; try exact Hg; contradiction.
Qed.

Theorem e2e_archive_round_trip_by_game kf mc md ls l g S p loc a S' :
  fs_new ls l g = FOk S ->
  wf_archive a -> ser_bound a < 2 ^ 24 -> game_endian_is g (a_endian a) ->
  write_archive kf mc S p a loc = (S', FOk tt) ->
  exists f a',
    BinFormat.serialize_k kf mc a = Ok f /\ write_file mc S p f loc = (S', FOk tt) /\
    read_file md S' p loc = FOk f /\
    read_archive md S' p loc = FOk a' /\ same_archive a a'.
Proof.
  intros Hn WF B Hg. apply e2e_archive_round_trip; try assumption. eapply game_endian; eassumption.
Qed.

(* read_archive of ANY conforming file stored by the byte-level write: C01's parser correctness through the file system *)
Theorem e2e_read_archive_conforming mc md S p loc f c S' :
  write_file mc S p f loc = (S', FOk tt) -> wfb f -> lenN f < 2 ^ 24 ->
  conforms (c_endian (conf S)) f c ->
  exists a, read_archive md S' p loc = FOk a /\ a_data a = c_data c /\ a_endian a = c_endian (conf S) /\ a_cstrs a = [] /\
    (forall x, am_get x (a_ptrs a) = am_get x (c_ptrs c)) /\
    (forall x, am_get x (a_text a) = am_get x (c_text c)) /\
    (forall x, am_get x (a_labels a) = am_get x (c_labels c)).
Proof.
  intros H Hw Hn Hc. destruct (typed_reads_after_write mc md S p f loc S' H Hw Hn) as (_ & Ra & _).
  destruct (BinParserCorrect.parser_correct _ _ _ Hc) as (a & Hp & Hd & He & Hcs & Gp & Gt & Gl & _).
  exists a. rewrite Ra, Hp. repeat split; assumption.
Qed.

(* ------------------------------------------------------------------ (b) text archives *)
Import TextFormatRoundTrip.

(* the image written by TextArchive::serialize and what C06 says about reading it back *)
Lemma text_image_bytes kf mc fmt e t : wf_text fmt t -> wf_text_bytes fmt e t -> file_bound (TextFormatWrite.text_image fmt e t) < 2 ^ 24 ->
  exists f, TextFormat.serialize kf mc fmt e t = Ok f /\ wfb f /\ lenN f < 2 ^ 24 /\
            TextFormat.from_bytes fmt e f = Ok (parsed fmt t).
Proof.
  intros Hw Hb Hs.
  destruct (text_round_trip_bytes kf mc (TextBinBridge.bin_round_trip_plain kf mc) fmt e t Hw Hb) as (f & Hser & Hp).
  exists f. split; [exact Hser|].
  destruct (TextBinBridge.text_image_in_C01_domain fmt e t Hb) as [WF FIT].
  unfold TextFormat.serialize in Hser. rewrite TextFormatWrite.build_archive_spec in Hser. cbn [bind] in Hser.
  destruct (serialize_conforms kf mc _ WF FIT) as (f' & Hs' & Hwf & _). rewrite Hser in Hs'. injection Hs' as <-.
  split; [exact Hwf|]. split; [|exact Hp].
  pose proof (serialize_size kf mc _ f WF FIT Hser) as Hle.
  destruct (text_image_plain fmt e t Hb) as (Et & Ep & Ec & _).
  rewrite (TextBinBridge.plain_ser_bound _ Et Ep Ec) in Hle. lia.
Qed.

Theorem e2e_text_round_trip kf mc md S p loc ta S' :
  wf_text (ta_fmt ta) (ta_map ta) -> wf_text_bytes (ta_fmt ta) (ta_endian ta) (ta_map ta) ->
  file_bound (TextFormatWrite.text_image (ta_fmt ta) (ta_endian ta) (ta_map ta)) < 2 ^ 24 ->
  ta_fmt ta = tformat_of (LayeredFS.c_text (conf S)) -> ta_endian ta = c_endian (conf S) ->
  write_text_archive kf mc S p ta loc = (S', FOk tt) ->
  exists f,
    TextFormat.serialize kf mc (ta_fmt ta) (ta_endian ta) (ta_map ta) = Ok f /\ write_file mc S p f loc = (S', FOk tt) /\
    read_file md S' p loc = FOk f /\
    read_text_archive md S' p loc =
      FOk (mkTA (ta_fmt ta) (ta_endian ta)
             {| t_title := match ta_fmt ta with TextFormat.Unicode => t_title (ta_map ta) | TextFormat.ShiftJIS => [] end;
                t_entries := t_entries (ta_map ta); t_dirty := false |}).
Proof.
  intros Hw Hb Hs Hf He H. destruct (text_image_bytes kf mc _ _ _ Hw Hb Hs) as (f & Hser & Hwf & Hn & Hp).
  destruct (typed_helpers_unfold kf mc md S p loc) as (_ & _ & _ & _ & _ & _ & _ & _ & _ & UW).
  rewrite UW, Hser in H.
  destruct (typed_reads_after_write mc md S p f loc S' H Hwf Hn) as (Rb & _ & Rt & _).
  exists f. split; [exact Hser|]. split; [exact H|]. split; [exact Rb|].
  rewrite Rt. unfold parse_text. rewrite <- Hf, <- He, Hp. reflexivity.
Qed.

Definition game_text_is (g : fsgame) (fmt : TextFormat.tformat) (e : endian) : Prop :=
  match g with
  | FE9 | FE10 => fmt = TextFormat.ShiftJIS /\ e = BE
  | FE13 | FE14 | FE15 => fmt = TextFormat.Unicode /\ e = LE
  | FE11 | FE12 => False
  end.
Lemma game_text ls l g S fmt e : fs_new ls l g = FOk S -> game_text_is g fmt e ->
  fmt = tformat_of (LayeredFS.c_text (conf S)) /\ e = c_endian (conf S).
Proof.
  intros Hn Hg. destruct (fs_new_conf ls l g S Hn) as (He & Ht & _). rewrite He, Ht.
  destruct g; cbn in Hg |- *; try exact Hg; contradiction.
Qed.

Theorem e2e_text_round_trip_by_game kf mc md ls l g S p loc ta S' :
  fs_new ls l g = FOk S ->
  wf_text (ta_fmt ta) (ta_map ta) -> wf_text_bytes (ta_fmt ta) (ta_endian ta) (ta_map ta) ->
  file_bound (TextFormatWrite.text_image (ta_fmt ta) (ta_endian ta) (ta_map ta)) < 2 ^ 24 ->
  game_text_is g (ta_fmt ta) (ta_endian ta) ->
  write_text_archive kf mc S p ta loc = (S', FOk tt) ->
  exists f,
    TextFormat.serialize kf mc (ta_fmt ta) (ta_endian ta) (ta_map ta) = Ok f /\ write_file mc S p f loc = (S', FOk tt) /\
    read_file md S' p loc = FOk f /\
    read_text_archive md S' p loc =
      FOk (mkTA (ta_fmt ta) (ta_endian ta)
             {| t_title := match ta_fmt ta with TextFormat.Unicode => t_title (ta_map ta) | TextFormat.ShiftJIS => [] end;
                t_entries := t_entries (ta_map ta); t_dirty := false |}).
Proof.
  intros Hn Hw Hb Hs Hg. destruct (game_text ls l g S _ _ Hn Hg) as [Hf He]. apply e2e_text_round_trip; assumption.
Qed.

(* ------------------------------------------------------------------ (c) pack, arc, texture containers: byte-level write, typed read *)
(* C15: a conforming pack image *)
Theorem e2e_read_fe9_arc mc md S p loc f fl S' :
  write_file mc S p f loc = (S', FOk tt) -> wfb f -> lenN f < 2 ^ 24 ->
  PackFormat.conforms_pack f fl -> read_fe9_arc md S' p loc = FOk fl.
Proof.
  intros H Hw Hn Hc. destruct (typed_reads_after_write mc md S p f loc S' H Hw Hn) as (_ & _ & _ & _ & R & _).
  rewrite R, (PackParse.parser_correct f fl Hw Hc md). reflexivity.
Qed.
(* ... in particular the image the library's own builder writes *)
Theorem e2e_fe9_arc_round_trip mc md S p loc fl f S' :
  PackFormat.wf_files fl -> N.of_nat (length fl) <= 65535 -> PackFormat.fits32 fl ->
  Pack.serialize fl = Ok f -> lenN f < 2 ^ 24 ->
  write_file mc S p f loc = (S', FOk tt) -> read_fe9_arc md S' p loc = FOk fl.
Proof.
  intros Hwf Hc Hfit Hs Hn H.
  destruct (PackSerialize.serialize_conforms fl Hwf Hc Hfit) as (f' & Hs' & Hconf & _ & _ & W).
  rewrite Hs in Hs'. injection Hs' as <-. eapply e2e_read_fe9_arc; eassumption.
Qed.

(* C16: a file conforming to the bin-archive format whose content is laid out as an arc *)
Theorem e2e_read_arc mc md S p loc f c fl S' :
  write_file mc S p f loc = (S', FOk tt) -> wfb f -> lenN f < 2 ^ 24 ->
  conforms LE f c -> ArcProofs.arc_layout (TextBinBridge.content_archive LE c) fl ->
  read_arc md S' p loc = FOk fl.
Proof.
  intros H Hw Hn Hc Hl. destruct (typed_reads_after_write mc md S p f loc S' H Hw Hn) as (_ & _ & _ & R & _).
  rewrite R, (ArcBytes.arc_extract_from_file md f c fl Hc Hl). reflexivity.
Qed.

(* C20: conforming texture containers; the result IS the per-texture decoding of the packed textures, as a vector
   (tpl) or as the name-keyed map texture_vec_to_map builds (bch, ctpk, cgfx) *)
Theorem e2e_read_ctpk mc md S p loc f texs S' :
  write_file mc S p f loc = (S', FOk tt) -> wfb f -> lenN f < 2 ^ 24 -> TexFormat.conforms_ctpk f texs ->
  Forall f32_exact texs ->
  read_ctpk_textures md S' p loc = lift_parse (as_map (decode_all (decode_tex md) texs)).
Proof.
  intros H Hw Hn Hc Hx. destruct (typed_reads_after_write mc md S p f loc S' H Hw Hn) as (_ & _ & _ & _ & _ & _ & _ & R & _).
  rewrite R, (TexCtpk.read_ctpk_correct md f texs Hc Hx). reflexivity.
Qed.
Theorem e2e_read_bch mc md S p loc f texs S' :
  write_file mc S p f loc = (S', FOk tt) -> wfb f -> lenN f < 2 ^ 24 -> TexFormat.conforms_bch f texs ->
  Forall f32_exact texs ->
  read_bch_textures md S' p loc = lift_parse (as_map (decode_all (decode_tex md) texs)).
Proof.
  intros H Hw Hn Hc Hx. destruct (typed_reads_after_write mc md S p f loc S' H Hw Hn) as (_ & _ & _ & _ & _ & _ & R & _).
  rewrite R, (TexBch.read_bch_correct md f texs Hc Hx). reflexivity.
Qed.
Theorem e2e_read_cgfx mc md S p loc f texs S' :
  write_file mc S p f loc = (S', FOk tt) -> wfb f -> lenN f < 2 ^ 24 -> TexFormat.conforms_cgfx f texs ->
  read_cgfx_textures md S' p loc = lift_parse (as_map (decode_all (decode_tex md) texs)).
Proof.
  intros H Hw Hn Hc. destruct (typed_reads_after_write mc md S p f loc S' H Hw Hn) as (_ & _ & _ & _ & _ & _ & _ & _ & R).
  rewrite R, (TexCgfx.read_cgfx_correct md f texs Hc). reflexivity.
Qed.
Theorem e2e_read_tpl mc md S p loc f texs S' :
  write_file mc S p f loc = (S', FOk tt) -> wfb f -> lenN f < 2 ^ 24 -> TexFormat.conforms_tpl f texs ->
  read_tpl_textures md S' p loc = lift_parse (as_vec (decode_all decode_tpl_tex texs)).
Proof.
  intros H Hw Hn Hc. destruct (typed_reads_after_write mc md S p f loc S' H Hw Hn) as (_ & _ & _ & _ & _ & R & _).
  rewrite R, (TexTpl.read_tpl_correct md f texs Hc). reflexivity.
Qed.

(* on the supported textures (C19's formats) every decoding succeeds: the packed textures, decoded, in order / by name *)
Theorem e2e_read_textures_supported mc md S p loc f texs S' :
  write_file mc S p f loc = (S', FOk tt) -> wfb f -> lenN f < 2 ^ 24 ->
  (TexFormat.conforms_ctpk f texs -> Forall TexDecode.supported3ds_f32 texs ->
     read_ctpk_textures md S' p loc = FOk (TexMap (tex_map (map TexDecode.decoded texs)))) /\
  (TexFormat.conforms_bch f texs -> Forall TexDecode.supported3ds_f32 texs ->
     read_bch_textures md S' p loc = FOk (TexMap (tex_map (map TexDecode.decoded texs)))) /\
  (TexFormat.conforms_cgfx f texs -> Forall TexDecode.supported3ds texs ->
     read_cgfx_textures md S' p loc = FOk (TexMap (tex_map (map TexDecode.decoded texs)))) /\
  (TexFormat.conforms_tpl f texs -> Forall TexDecode.supportedtpl texs ->
     read_tpl_textures md S' p loc = FOk (TexVec (map TexDecode.tpl_decoded texs))).
Proof.
  intros H Hw Hn. repeat split; intros Hc Hs.
  - destruct (TexDecode.supported_f32_split _ Hs) as (Hs1 & Hx).
    rewrite (e2e_read_ctpk mc md S p loc f texs S' H Hw Hn Hc Hx), (TexDecode.decode_all_supported md texs Hs1). reflexivity.
  - destruct (TexDecode.supported_f32_split _ Hs) as (Hs1 & Hx).
    rewrite (e2e_read_bch mc md S p loc f texs S' H Hw Hn Hc Hx), (TexDecode.decode_all_supported md texs Hs1). reflexivity.
  - rewrite (e2e_read_cgfx mc md S p loc f texs S' H Hw Hn Hc), (TexDecode.decode_all_supported md texs Hs). reflexivity.
  - rewrite (e2e_read_tpl mc md S p loc f texs S' H Hw Hn Hc), (TexDecode.decode_all_tpl_supported texs Hs). reflexivity.
Qed.

(* ---- texture_vec_to_map: what the name-keyed map holds ---- *)
Lemma tex_set_keys k v m : In k (map fst m) -> map fst (tex_set k v m) = map fst m.
Proof.
  induction m as [|[k' v'] r IH]; [intros []|]. cbn [tex_set map fst]. destruct (bytes_eqb_spec k k') as [->|Hne]; [reflexivity|].
  intros [E|Hin]; [congruence|]. cbn [map fst]. rewrite (IH Hin). reflexivity.
Qed.
Lemma tex_set_fresh k v m : ~ In k (map fst m) -> tex_set k v m = m ++ [(k, v)].
Proof.
  induction m as [|[k' v'] r IH]; [reflexivity|]. cbn [tex_set map fst]. intros Hn.
  destruct (bytes_eqb_spec k k') as [->|Hne]; [exfalso; apply Hn; left; reflexivity|].
  rewrite IH by (intros Hin; apply Hn; right; exact Hin). reflexivity.
Qed.
Lemma tex_get_set k v m k' : tex_get k' (tex_set k v m) = if bytes_eqb k' k then Some v else tex_get k' m.
Proof.
  induction m as [|[k0 v0] r IH]; cbn [tex_set tex_get].
  - reflexivity.
  - destruct (bytes_eqb_spec k k0) as [->|Hne]; cbn [tex_get].
    + destruct (bytes_eqb k' k0); reflexivity.
    + rewrite IH. destruct (bytes_eqb_spec k' k0) as [->|H0]; [|reflexivity].
      destruct (bytes_eqb_spec k0 k) as [E|_]; [congruence | reflexivity].
Qed.
Lemma tex_map_snoc l t : tex_map (l ++ [t]) = tex_set (x_name t) t (tex_map l).
Proof. unfold tex_map. rewrite fold_left_app. reflexivity. Qed.

(* with distinct names the map is the list itself, keyed by name, in order *)
Theorem tex_map_distinct l : NoDup (map x_name l) -> tex_map l = map (fun t => (x_name t, t)) l.
Proof.
  induction l as [|t r IH] using rev_ind; [reflexivity|]. intros Hd. rewrite map_app in Hd. cbn [map] in Hd.
  assert (Hr : NoDup (map x_name r)) by (eapply NoDup_app_l; exact Hd).
  assert (Hn : ~ In (x_name t) (map x_name r)).
  { intros Hin. apply NoDup_remove_2 in Hd. rewrite app_nil_r in Hd. exact (Hd Hin). }
  rewrite tex_map_snoc, (IH Hr), tex_set_fresh.
  - rewrite map_app. reflexivity.
  - rewrite map_map. cbn [fst]. exact Hn.
Qed.
(* in general a name maps to the LAST texture carrying it, and only names of the list are keys *)
Theorem tex_map_lookup l k : tex_get k (tex_map l) = find (fun t => bytes_eqb k (x_name t)) (rev l).
Proof.
  induction l as [|t r IH] using rev_ind; [reflexivity|].
  rewrite tex_map_snoc, tex_get_set, rev_app_distr. cbn [rev app find]. rewrite IH.
  destruct (bytes_eqb k (x_name t)); reflexivity.
Qed.

(* ------------------------------------------------------------------ (d) the typed writers touch the top layer only *)
Theorem write_archive_lower_untouched kf mc S p a loc S' r :
  write_archive kf mc S p a loc = (S', r) ->
  conf S' = conf S /\ lng S' = lng S /\ length (layers S') = length (layers S) /\ removelast (layers S') = removelast (layers S).
Proof.
  destruct (typed_helpers_unfold kf mc Checked S p loc) as (_ & _ & _ & _ & _ & _ & _ & _ & UW & _). rewrite UW.
  destruct (BinFormat.serialize_k kf mc a) as [f|e|k]; intros H.
  - exact (write_lower_untouched (lz_compress mc) S p f loc S' r H).
  - injection H as <- _. repeat split.
  - injection H as <- _. repeat split.
Qed.
Theorem write_text_archive_lower_untouched kf mc S p a loc S' r :
  write_text_archive kf mc S p a loc = (S', r) ->
  conf S' = conf S /\ lng S' = lng S /\ length (layers S') = length (layers S) /\ removelast (layers S') = removelast (layers S).
Proof.
  destruct (typed_helpers_unfold kf mc Checked S p loc) as (_ & _ & _ & _ & _ & _ & _ & _ & _ & UW). rewrite UW.
  destruct (TextFormat.serialize kf mc (ta_fmt a) (ta_endian a) (ta_map a)) as [f|e|k]; intros H.
  - exact (write_lower_untouched (lz_compress mc) S p f loc S' r H).
  - injection H as <- _. repeat split.
  - injection H as <- _. repeat split.
Qed.

(* a typed writer whose serializer fails changes nothing at all *)
Theorem write_archive_serialize_fails kf mc S p a loc S' r :
  write_archive kf mc S p a loc = (S', r) -> (forall f, BinFormat.serialize_k kf mc a <> Ok f) -> S' = S /\ r <> FOk tt.
Proof.
  destruct (typed_helpers_unfold kf mc Checked S p loc) as (_ & _ & _ & _ & _ & _ & _ & _ & UW & _). rewrite UW.
  destruct (BinFormat.serialize_k kf mc a) as [f|e|k]; intros H Hf; [exfalso; exact (Hf f eq_refl)| |];
    injection H as <- <-; split; [reflexivity | discriminate | reflexivity | discriminate].
Qed.

(* the effect of a successful typed write on the top layer (C12_write_top_only for the image), with the stored file
   identified: a valid LZ stream of the image for a compressed name, the image itself otherwise *)
Definition top_layer_effect (S S' : fsys) (pp : path) (c : bytes) : Prop :=
  pp <> [] /\ layers S <> [] /\
  let top := last (layers S) [] in let top' := last (layers S') [] in
  l_get top' pp = Some (File c) /\
  (forall q, In q (proper_prefixes pp) -> l_get top' q = Some Dir) /\
  (forall q, q <> pp -> ~ (In q (proper_prefixes pp) /\ l_get top q = None) -> l_get top' q = l_get top q) /\
  l_get top pp <> Some Dir /\ (forall q, In q (proper_prefixes pp) -> is_file_at top q = false).

Lemma write_bytes_top_only mc S p f loc S' : write_file mc S p f loc = (S', FOk tt) -> wfb f -> lenN f < 2 ^ 24 ->
  exists s pp c, fs_addr S p loc = FOk (s, (pp, false)) /\ top_layer_effect S S' pp c /\
    if is_compressed (c_comp (conf S)) p then valid_stream (c_comp (conf S)) f c else c = f.
Proof.
  intros H Hw Hn.
  destruct (write_ok_top (lz_compress mc) S p f loc S' H) as (s & pp & c & A & En & Hne & Hl & G1 & G2 & G3 & G4 & G5).
  exists s, pp, c. split; [exact A|]. split; [repeat split; assumption|].
  unfold encode_by_name, lift_codec in En. destruct (is_compressed (c_comp (conf S)) p).
  - destruct (lz_compress mc (c_comp (conf S)) f) as [c'|e|k] eqn:E; try discriminate. injection En as ->.
    exact (real_compress_valid mc _ f c Hw Hn E).
  - injection En as ->. reflexivity.
Qed.

Theorem write_archive_top_only kf mc S p a loc S' :
  wf_archive a -> ser_bound a < 2 ^ 24 ->
  write_archive kf mc S p a loc = (S', FOk tt) ->
  exists f s pp c, BinFormat.serialize_k kf mc a = Ok f /\ fs_addr S p loc = FOk (s, (pp, false)) /\ top_layer_effect S S' pp c /\
    if is_compressed (c_comp (conf S)) p then valid_stream (c_comp (conf S)) f c else c = f.
Proof.
  intros WF B H. destruct (archive_image kf mc a WF B) as (f & a' & Hs & Hw & Hn & _).
  destruct (typed_helpers_unfold kf mc Checked S p loc) as (_ & _ & _ & _ & _ & _ & _ & _ & UW & _). rewrite UW, Hs in H.
  destruct (write_bytes_top_only mc S p f loc S' H Hw Hn) as (s & pp & c & A & T & V). exists f, s, pp, c. auto.
Qed.
Theorem write_text_archive_top_only kf mc S p ta loc S' :
  wf_text (ta_fmt ta) (ta_map ta) -> wf_text_bytes (ta_fmt ta) (ta_endian ta) (ta_map ta) ->
  file_bound (TextFormatWrite.text_image (ta_fmt ta) (ta_endian ta) (ta_map ta)) < 2 ^ 24 ->
  write_text_archive kf mc S p ta loc = (S', FOk tt) ->
  exists f s pp c, TextFormat.serialize kf mc (ta_fmt ta) (ta_endian ta) (ta_map ta) = Ok f /\
    fs_addr S p loc = FOk (s, (pp, false)) /\ top_layer_effect S S' pp c /\
    if is_compressed (c_comp (conf S)) p then valid_stream (c_comp (conf S)) f c else c = f.
Proof.
  intros Hw Hb Hs H. destruct (text_image_bytes kf mc _ _ _ Hw Hb Hs) as (f & Hser & Hwf & Hn & _).
  destruct (typed_helpers_unfold kf mc Checked S p loc) as (_ & _ & _ & _ & _ & _ & _ & _ & _ & UW). rewrite UW, Hser in H.
  destruct (write_bytes_top_only mc S p f loc S' H Hwf Hn) as (s & pp & c & A & T & V). exists f, s, pp, c. auto.
Qed.

(* in the domain the serializers never fail, so a typed write fails exactly when the byte-level write of the image fails:
   the failure theorems of the byte level (C12_write_fail, C12_write_fail_unchanged) apply verbatim *)
Theorem write_archive_is_write kf mc S p a loc : wf_archive a -> ser_bound a < 2 ^ 24 ->
  exists f, BinFormat.serialize_k kf mc a = Ok f /\ wfb f /\ lenN f < 2 ^ 24 /\ write_archive kf mc S p a loc = write_file mc S p f loc.
Proof.
  intros WF B. destruct (archive_image kf mc a WF B) as (f & a' & Hs & Hw & Hn & _).
  destruct (typed_helpers_unfold kf mc Checked S p loc) as (_ & _ & _ & _ & _ & _ & _ & _ & UW & _).
  exists f. rewrite UW, Hs. auto.
Qed.
Theorem write_text_archive_is_write kf mc S p ta loc :
  wf_text (ta_fmt ta) (ta_map ta) -> wf_text_bytes (ta_fmt ta) (ta_endian ta) (ta_map ta) ->
  file_bound (TextFormatWrite.text_image (ta_fmt ta) (ta_endian ta) (ta_map ta)) < 2 ^ 24 ->
  exists f, TextFormat.serialize kf mc (ta_fmt ta) (ta_endian ta) (ta_map ta) = Ok f /\ wfb f /\ lenN f < 2 ^ 24 /\
    write_text_archive kf mc S p ta loc = write_file mc S p f loc.
Proof.
  intros Hw Hb Hs. destruct (text_image_bytes kf mc _ _ _ Hw Hb Hs) as (f & Hser & Hwf & Hn & _).
  destruct (typed_helpers_unfold kf mc Checked S p loc) as (_ & _ & _ & _ & _ & _ & _ & _ & _ & UW).
  exists f. rewrite UW, Hser. auto.
Qed.

(* ------------------------------------------------------------------ everything together, per game *)
(* the complete chain for a bin archive: archive value -> image f (C01) -> stored file c (the game's codec by the caller's name:
   LZ10 for ".cms" / ".cmp" under FE9 / FE10, 0x13-wrapped LZ11 for ".lz" under FE13 - FE15, f itself otherwise) in the top layer at the
   addressed location -> decompressed by the game's decompressor back to f -> parsed with the game's endianness to a' ~ a *)
Theorem e2e_archive_by_game_chain kf mc md ls l g S p loc a S' :
  fs_new ls l g = FOk S ->
  wf_archive a -> ser_bound a < 2 ^ 24 -> game_endian_is g (a_endian a) ->
  write_archive kf mc S p a loc = (S', FOk tt) ->
  exists f a' s pp c,
    BinFormat.serialize_k kf mc a = Ok f /\
    fs_addr S p loc = FOk (s, (pp, false)) /\ l_get (last (layers S') []) pp = Some (File c) /\
    match g with
    | FE9 | FE10 => if orb (ends_with sfx_cms p) (ends_with sfx_cmp p)
                    then valid_stream LayeredFS.LZ10 f c /\ LZDecode.lz10_decompress md c = Ok f else c = f
    | _ => if ends_with sfx_lz p then valid_stream LayeredFS.LZ13 f c /\ LZDecode.lz13_decompress md c = Ok f else c = f
    end /\
    BinFormat.from_bytes (match g with FE9 | FE10 => BE | _ => LE end) f = Ok a' /\
    read_archive md S' p loc = FOk a' /\ same_archive a a'.
Proof.
  intros Hn WF B Hg H. destruct (archive_image kf mc a WF B) as (f & a' & Hs & Hw & Hl & Hp & R).
  destruct (typed_helpers_unfold kf mc md S p loc) as (_ & _ & _ & _ & _ & _ & _ & _ & UW & _).
  pose proof H as H'. rewrite UW, Hs in H'.
  destruct (real_read_after_write_by_game mc md ls l g S p f loc S' Hn H' Hw Hl) as (_ & s & pp & c & A & G & V).
  destruct (e2e_archive_round_trip_by_game kf mc md ls l g S p loc a S' Hn WF B Hg H) as (f2 & a2 & Hs2 & _ & _ & Ra & R2).
  rewrite Hs in Hs2. injection Hs2 as <-.
  exists f, a2, s, pp, c. split; [exact Hs|]. split; [exact A|]. split; [exact G|]. split; [exact V|].
  split; [|split; [exact Ra | exact R2]].
  destruct (typed_reads_after_write mc md S p f loc S' H' Hw Hl) as (_ & Ra' & _).
  rewrite Ra' in Ra. rewrite <- (game_endian ls l g S _ Hn Hg) in Ra.
  assert (E : a_endian a = match g with FE9 | FE10 => BE | _ => LE end) by (destruct g; cbn in Hg; try exact Hg; contradiction).
  rewrite <- E. destruct (BinFormat.from_bytes (a_endian a) f) as [x|x|x]; cbn [lift_parse] in Ra; try discriminate.
  injection Ra as ->. reflexivity.
Qed.

(* the same chain for a text archive: Shift-JIS / big-endian / LZ10 for FE9 and FE10, UTF-16 / little-endian / LZ13 for FE13 - FE15 *)
Theorem e2e_text_by_game_chain kf mc md ls l g S p loc ta S' :
  fs_new ls l g = FOk S ->
  wf_text (ta_fmt ta) (ta_map ta) -> wf_text_bytes (ta_fmt ta) (ta_endian ta) (ta_map ta) ->
  file_bound (TextFormatWrite.text_image (ta_fmt ta) (ta_endian ta) (ta_map ta)) < 2 ^ 24 ->
  game_text_is g (ta_fmt ta) (ta_endian ta) ->
  write_text_archive kf mc S p ta loc = (S', FOk tt) ->
  exists f s pp c,
    TextFormat.serialize kf mc (ta_fmt ta) (ta_endian ta) (ta_map ta) = Ok f /\
    fs_addr S p loc = FOk (s, (pp, false)) /\ l_get (last (layers S') []) pp = Some (File c) /\
    match g with
    | FE9 | FE10 => if orb (ends_with sfx_cms p) (ends_with sfx_cmp p)
                    then valid_stream LayeredFS.LZ10 f c /\ LZDecode.lz10_decompress md c = Ok f else c = f
    | _ => if ends_with sfx_lz p then valid_stream LayeredFS.LZ13 f c /\ LZDecode.lz13_decompress md c = Ok f else c = f
    end /\
    TextFormat.from_bytes (match g with FE9 | FE10 => TextFormat.ShiftJIS | _ => TextFormat.Unicode end)
                          (match g with FE9 | FE10 => BE | _ => LE end) f = Ok (parsed (ta_fmt ta) (ta_map ta)) /\
    read_text_archive md S' p loc = FOk (mkTA (ta_fmt ta) (ta_endian ta) (parsed (ta_fmt ta) (ta_map ta))).
Proof.
  intros Hn Hw Hb Hs Hg H. destruct (text_image_bytes kf mc _ _ _ Hw Hb Hs) as (f & Hser & Hwf & Hl & Hp).
  destruct (typed_helpers_unfold kf mc md S p loc) as (_ & _ & _ & _ & _ & _ & _ & _ & _ & UW).
  pose proof H as H'. rewrite UW, Hser in H'.
  destruct (real_read_after_write_by_game mc md ls l g S p f loc S' Hn H' Hwf Hl) as (_ & s & pp & c & A & G & V).
  destruct (e2e_text_round_trip_by_game kf mc md ls l g S p loc ta S' Hn Hw Hb Hs Hg H) as (f2 & Hs2 & _ & _ & Rt).
  rewrite Hser in Hs2. injection Hs2 as <-.
  exists f, s, pp, c. split; [exact Hser|]. split; [exact A|]. split; [exact G|]. split; [exact V|]. split; [|exact Rt].
  assert (E : ta_fmt ta = match g with FE9 | FE10 => TextFormat.ShiftJIS | _ => TextFormat.Unicode end /\
              ta_endian ta = match g with FE9 | FE10 => BE | _ => LE end)
    by (destruct g; cbn in Hg; try exact Hg; contradiction).
  destruct E as [<- <-]. exact Hp.
Qed.

(* ------------------------------------------------------------------ histories of typed calls *)
Theorem typed_step_lower_untouched kf mc md S o :
  let S' := fst (typed_step kf mc md S o) in
  conf S' = conf S /\ lng S' = lng S /\ length (layers S') = length (layers S) /\ removelast (layers S') = removelast (layers S).
Proof.
  destruct o; cbn [typed_step fst]; try (repeat split; reflexivity).
  - destruct (write_file mc S p b loc) as [S' r] eqn:E. cbn [fst]. exact (write_lower_untouched (lz_compress mc) S p b loc S' r E).
  - destruct (write_archive kf mc S p a loc) as [S' r] eqn:E. cbn [fst]. exact (write_archive_lower_untouched kf mc S p a loc S' r E).
  - destruct (write_text_archive kf mc S p a loc) as [S' r] eqn:E. cbn [fst]. exact (write_text_archive_lower_untouched kf mc S p a loc S' r E).
Qed.

Theorem typed_run_lower_untouched kf mc md os : forall S,
  let S' := typed_run kf mc md S os in
  conf S' = conf S /\ lng S' = lng S /\ length (layers S') = length (layers S) /\ removelast (layers S') = removelast (layers S).
Proof.
  induction os as [|o r IH]; intros S; cbn [typed_run]; [repeat split; reflexivity|].
  destruct (IH (fst (typed_step kf mc md S o))) as (A1 & A2 & A3 & A4).
  destruct (typed_step_lower_untouched kf mc md S o) as (B1 & B2 & B3 & B4).
  cbv zeta. rewrite A1, A2, A3, A4. auto.
Qed.

Theorem typed_step_wf kf mc md S o : wf_fs S -> wf_fs (fst (typed_step kf mc md S o)).
Proof.
  intros W. destruct o; cbn [typed_step fst]; try exact W.
  - destruct (write_file mc S p b loc) as [S' r] eqn:E. cbn [fst]. exact (fs_write_wf (lz_compress mc) S p b loc S' r W E).
  - destruct (typed_helpers_unfold kf mc md S p loc) as (_ & _ & _ & _ & _ & _ & _ & _ & UW & _). rewrite UW.
    destruct (BinFormat.serialize_k kf mc a) as [f|e|k]; cbn [fst]; try exact W.
    destruct (write_file mc S p f loc) as [S' r] eqn:E. cbn [fst]. exact (fs_write_wf (lz_compress mc) S p f loc S' r W E).
  - destruct (typed_helpers_unfold kf mc md S p loc) as (_ & _ & _ & _ & _ & _ & _ & _ & _ & UW). rewrite UW.
    destruct (TextFormat.serialize kf mc (ta_fmt a) (ta_endian a) (ta_map a)) as [f|e|k]; cbn [fst]; try exact W.
    destruct (write_file mc S p f loc) as [S' r] eqn:E. cbn [fst]. exact (fs_write_wf (lz_compress mc) S p f loc S' r W E).
Qed.
Theorem typed_run_wf kf mc md os : forall S, wf_fs S -> wf_fs (typed_run kf mc md S os).
Proof. induction os as [|o r IH]; intros S W; cbn [typed_run]; [exact W|]. apply IH, typed_step_wf, W. Qed.

(* ------------------------------------------------------------------ frame: a write addressed elsewhere does not disturb a read *)
Lemma search_top_snoc P rest x :
  search_top P (rest ++ [x]) = if P x then Some (length rest, x) else search_top P rest.
Proof.
  induction rest as [|y rest IH]; cbn [app search_top length].
  - destruct (P x); reflexivity.
  - rewrite IH. destruct (P x); [reflexivity|]. reflexivity.
Qed.

Lemma l_write_frame L qq tr c L' ok pp : l_write L (qq, tr) c = (L', ok) -> pp <> qq ->
  l_get L' pp = l_get L pp \/ (l_get L pp = None /\ l_get L' pp = Some Dir).
Proof.
  unfold l_write. destruct (blocked L (proper_prefixes qq)); [intros H _; inversion H; left; reflexivity|].
  assert (M : l_get (mkdirs L (proper_prefixes qq)) pp = l_get L pp \/
              (l_get L pp = None /\ l_get (mkdirs L (proper_prefixes qq)) pp = Some Dir)).
  { rewrite l_get_mkdirs. destruct (l_get L pp) as [e|]; [left; reflexivity|].
    destruct (inb pp (proper_prefixes qq)); [right; split; reflexivity | left; reflexivity]. }
  destruct tr; [intros H _; inversion H; subst; exact M|].
  destruct (l_get (mkdirs L (proper_prefixes qq)) qq) as [[b|]|]; intros H Hne; inversion H; subst; try exact M;
    rewrite l_get_set_other by exact Hne; exact M.
Qed.

Lemma l_write_frame_read L qq tr c L' ok a : l_write L (qq, tr) c = (L', ok) -> fst a <> qq ->
  l_is_file L' a = l_is_file L a /\ l_read L' a = l_read L a.
Proof.
  intros H Hne. unfold l_is_file, l_read. destruct (l_write_frame L qq tr c L' ok (fst a) H Hne) as [E|[E1 E2]].
  - rewrite E. split; reflexivity.
  - rewrite E1, E2. split; reflexivity.
Qed.

Section Frame.
  Variable compress decompress : cfmt -> bytes -> outcome bytes.

  Theorem write_frame_read S q b locq S' r p loc s a :
    fs_write compress S q b locq = (S', r) ->
    fs_addr S p loc = FOk (s, a) ->
    (forall s' qq trq, fs_addr S q locq = FOk (s', (qq, trq)) -> qq <> fst a) ->
    fs_read decompress S' p loc = fs_read decompress S p loc.
  Proof.
    intros H A Hne. apply fs_write_cases in H.
    destruct H as [(-> & _)|(s' & qq & trq & c & top & rest & top' & ok & A' & En & Ly & W & -> & _)]; [reflexivity|].
    assert (A2 : fs_addr (mkFs (rest ++ [top']) (conf S) (lng S)) p loc = FOk (s, a))
      by (rewrite (fs_addr_state S (mkFs (rest ++ [top']) (conf S) (lng S)) p loc eq_refl eq_refl); exact A).
    rewrite (fs_read_spec decompress _ p loc s a A2), (fs_read_spec decompress S p loc s a A).
    cbn [layers]. rewrite Ly, !search_top_snoc.
    assert (Hq : fst a <> qq) by (intros E; exact (Hne s' qq trq A' (eq_sym E))).
    destruct (l_write_frame_read top qq trq c top' ok a W Hq) as [E1 E2]. rewrite E1.
    unfold decode_by_name. cbn [conf]. destruct (l_is_file top a); [rewrite E2; reflexivity | reflexivity].
  Qed.
End Frame.

(* a call that does not write to the location pp; the address of a write is judged in S - configuration and language, which
   determine it, never change along a history *)
Definition writes_elsewhere (S : fsys) (pp : path) (o : tcall) : Prop :=
  match o with
  | TWrite q _ l | TWriteArchive q _ l | TWriteText q _ l => forall s qq tr, fs_addr S q l = FOk (s, (qq, tr)) -> qq <> pp
  | _ => True
  end.

Lemma writes_elsewhere_state S S' pp o : conf S' = conf S -> lng S' = lng S -> writes_elsewhere S pp o -> writes_elsewhere S' pp o.
Proof.
  intros C G. destruct o; cbn [writes_elsewhere]; try exact (fun H => H);
    intros H s qq tr A; rewrite (fs_addr_state S S' _ _ C G) in A; exact (H s qq tr A).
Qed.

Theorem typed_step_keeps_read kf mc md md' S o p loc s a :
  fs_addr S p loc = FOk (s, a) -> writes_elsewhere S (fst a) o ->
  read_file md' (fst (typed_step kf mc md S o)) p loc = read_file md' S p loc.
Proof.
  intros A E. destruct o; cbn [typed_step fst]; try reflexivity; cbn [writes_elsewhere] in E.
  - destruct (write_file mc S p0 b loc0) as [S' r] eqn:W. cbn [fst].
    exact (write_frame_read (lz_compress mc) (lz_decompress md') S p0 b loc0 S' r p loc s a W A E).
  - destruct (typed_helpers_unfold kf mc md S p0 loc0) as (_ & _ & _ & _ & _ & _ & _ & _ & UW & _). rewrite UW.
    destruct (BinFormat.serialize_k kf mc a0) as [f|e|k]; cbn [fst]; try reflexivity.
    destruct (write_file mc S p0 f loc0) as [S' r] eqn:W. cbn [fst].
    exact (write_frame_read (lz_compress mc) (lz_decompress md') S p0 f loc0 S' r p loc s a W A E).
  - destruct (typed_helpers_unfold kf mc md S p0 loc0) as (_ & _ & _ & _ & _ & _ & _ & _ & _ & UW). rewrite UW.
    destruct (TextFormat.serialize kf mc (ta_fmt a0) (ta_endian a0) (ta_map a0)) as [f|e|k]; cbn [fst]; try reflexivity.
    destruct (write_file mc S p0 f loc0) as [S' r] eqn:W. cbn [fst].
    exact (write_frame_read (lz_compress mc) (lz_decompress md') S p0 f loc0 S' r p loc s a W A E).
Qed.

(* along any history of typed and byte-level calls none of which writes to the location p addresses, what p reads stays *)
Theorem typed_run_keeps_read kf mc md md' os : forall S p loc s a,
  fs_addr S p loc = FOk (s, a) -> Forall (writes_elsewhere S (fst a)) os ->
  read_file md' (typed_run kf mc md S os) p loc = read_file md' S p loc.
Proof.
  induction os as [|o r IH]; intros S p loc s a A F; cbn [typed_run]; [reflexivity|].
  inversion F as [|? ? Ho Hr]; subst.
  destruct (typed_step_lower_untouched kf mc md S o) as (C & G & _).
  rewrite (IH (fst (typed_step kf mc md S o)) p loc s a).
  - exact (typed_step_keeps_read kf mc md md' S o p loc s a A Ho).
  - rewrite (fs_addr_state S _ p loc C G). exact A.
  - eapply Forall_impl; [|exact Hr]. intros o'. apply writes_elsewhere_state; assumption.
Qed.

(* ... hence every typed reader returns the same value *)
Theorem typed_run_keeps_typed_reads kf mc md md' os S p loc s a :
  fs_addr S p loc = FOk (s, a) -> Forall (writes_elsewhere S (fst a)) os ->
  let S' := typed_run kf mc md S os in
  read_file md' S' p loc = read_file md' S p loc /\
  read_archive md' S' p loc = read_archive md' S p loc /\
  read_text_archive md' S' p loc = read_text_archive md' S p loc /\
  read_arc md' S' p loc = read_arc md' S p loc /\
  read_fe9_arc md' S' p loc = read_fe9_arc md' S p loc /\
  (forall k, read_textures md' k S' p loc = read_textures md' k S p loc).
Proof.
  intros A F S'. pose proof (typed_run_keeps_read kf mc md md' os S p loc s a A F) as R. fold S' in R.
  destruct (typed_run_lower_untouched kf mc md os S) as (C & _). fold S' in C.
  split; [exact R|].
  unfold read_archive, read_text_archive, read_arc, read_fe9_arc, read_textures,
    fs_read_archive, fs_read_text_archive, fs_read_arc, fs_read_fe9_arc, fs_read_textures.
  unfold read_file in R. rewrite R, C. repeat split.
Qed.

(* read-after-write through a history: write_archive, then ANY calls that do not write to the same location (writes to other
   paths, typed or not, succeeding or failing, and reads), then read_archive: the archive of C01's round trip *)
Theorem e2e_archive_round_trip_history kf mc md S p loc a S1 os :
  wf_archive a -> ser_bound a < 2 ^ 24 -> a_endian a = c_endian (conf S) ->
  write_archive kf mc S p a loc = (S1, FOk tt) ->
  (forall s pp tr, fs_addr S p loc = FOk (s, (pp, tr)) -> Forall (writes_elsewhere S pp) os) ->
  exists a', read_archive md (typed_run kf mc md S1 os) p loc = FOk a' /\ same_archive a a'.
Proof.
  intros WF B He H F.
  destruct (e2e_archive_round_trip kf mc md S p loc a S1 WF B He H) as (f & a' & Hs & Hw & _ & Ra & R).
  destruct (write_ok_top (lz_compress mc) S p f loc S1 Hw) as (s & pp & c & A & _).
  destruct (write_archive_lower_untouched kf mc S p a loc S1 (FOk tt) H) as (C & G & _).
  assert (A1 : fs_addr S1 p loc = FOk (s, (pp, false))) by (rewrite (fs_addr_state S S1 p loc C G); exact A).
  assert (F1 : Forall (writes_elsewhere S1 pp) os).
  { eapply Forall_impl; [|exact (F s pp false A)]. intros o. apply writes_elsewhere_state; assumption. }
  destruct (typed_run_keeps_typed_reads kf mc md md os S1 p loc s (pp, false) A1 F1) as (_ & K & _).
  exists a'. rewrite K. split; [exact Ra | exact R].
Qed.

(* ------------------------------------------------------------------ localisation (the file-system half of C14) for the typed helpers *)
(* a localized typed call addresses exactly what the unlocalized call on [localize p] addresses (the codec is chosen by the name the
   caller passed: the premise holds for every path dir/name without trailing '/', C14_fs_same_codec) *)
Theorem typed_localized_consistent kf mc md S p p' :
  localize (c_loc (conf S)) (lng S) p = LOk p' ->
  is_compressed (c_comp (conf S)) p = is_compressed (c_comp (conf S)) p' ->
  read_file md S p true = read_file md S p' false /\
  read_archive md S p true = read_archive md S p' false /\
  read_text_archive md S p true = read_text_archive md S p' false /\
  read_arc md S p true = read_arc md S p' false /\
  read_fe9_arc md S p true = read_fe9_arc md S p' false /\
  (forall k, read_textures md k S p true = read_textures md k S p' false) /\
  (forall b, write_file mc S p b true = write_file mc S p' b false) /\
  (forall a, write_archive kf mc S p a true = write_archive kf mc S p' a false) /\
  (forall a, write_text_archive kf mc S p a true = write_text_archive kf mc S p' a false).
Proof.
  intros Hl Hc. destruct (loc_read_write S p p' Hl (lz_compress mc) (lz_decompress md) Hc) as [R W].
  unfold read_file, write_file, read_archive, read_text_archive, read_arc, read_fe9_arc, read_textures, write_archive, write_text_archive,
    fs_read_archive, fs_read_text_archive, fs_read_arc, fs_read_fe9_arc, fs_read_textures, fs_write_archive, fs_write_text_archive.
  rewrite R. repeat split; try exact W.
  - intros a. destruct (lift_parse (ser_bin kf mc a)); [apply W | reflexivity | reflexivity].
  - intros a. destruct (lift_parse (ser_text kf mc a)); [apply W | reflexivity | reflexivity].
Qed.

(* a localisation error is returned by every typed reader; a typed writer returns it unless its serializer fails first (the code
   serializes before it localizes); nothing changes *)
Theorem typed_localisation_error kf mc md S p e :
  localize (c_loc (conf S)) (lng S) p = LErr e ->
  read_file md S p true = FErr (ELocalization e) /\
  read_archive md S p true = FErr (ELocalization e) /\
  read_text_archive md S p true = FErr (ELocalization e) /\
  read_arc md S p true = FErr (ELocalization e) /\
  read_fe9_arc md S p true = FErr (ELocalization e) /\
  (forall k, read_textures md k S p true = FErr (ELocalization e)) /\
  (forall b, write_file mc S p b true = (S, FErr (ELocalization e))) /\
  (forall a f, BinFormat.serialize_k kf mc a = Ok f -> write_archive kf mc S p a true = (S, FErr (ELocalization e))) /\
  (forall a f, TextFormat.serialize kf mc (ta_fmt a) (ta_endian a) (ta_map a) = Ok f ->
     write_text_archive kf mc S p a true = (S, FErr (ELocalization e))) /\
  (forall a S' r, write_archive kf mc S p a true = (S', r) -> S' = S) /\
  (forall a S' r, write_text_archive kf mc S p a true = (S', r) -> S' = S).
Proof.
  intros Hl.
  assert (A : fs_addr S p true = FErr (ELocalization e)) by (unfold fs_addr, fs_actual; rewrite Hl; reflexivity).
  assert (R : read_file md S p true = FErr (ELocalization e)) by (unfold read_file, fs_read; rewrite A; reflexivity).
  assert (W : forall b, write_file mc S p b true = (S, FErr (ELocalization e))) by (intros b; unfold write_file, fs_write; rewrite A; reflexivity).
  destruct (typed_helpers_unfold kf mc md S p true) as (U1 & U2 & U3 & U4 & _ & _ & _ & _ & UW & UT).
  split; [exact R|]. rewrite U1, U2, U3, U4, R. cbn [fbind].
  repeat split; try exact W.
  - intros k. unfold read_textures, fs_read_textures. unfold read_file in R. rewrite R. reflexivity.
  - intros a f Hs. rewrite UW, Hs. apply W.
  - intros a f Hs. rewrite UT, Hs. apply W.
  - intros a S' r. rewrite UW. destruct (BinFormat.serialize_k kf mc a); [rewrite W|idtac|idtac]; intros H; injection H as <- _; reflexivity.
  - intros a S' r. rewrite UT. destruct (TextFormat.serialize kf mc _ _ _); [rewrite W|idtac|idtac]; intros H; injection H as <- _; reflexivity.
Qed.

(* ------------------------------------------------------------------ non-vacuity *)
(* FE10 (big-endian, LZ10): the mixed archive of C01's domain example (string, pending c-string, pointer, two labels,
   unaligned data) written to "a.cmp" and read back by the other build profile *)
Definition ex_fe10 : fsys := mkFs [[]] (mkConfig LayeredFS.LZ10 GFE10 BE LayeredFS.ShiftJIS) EnglishNA.
Definition ex_cmp : str := [97; 46; 99; 109; 112].
Example e2e_example_archive_hyp :
  fs_new [[]] EnglishNA FE10 = FOk ex_fe10 /\ wf_archive ex_archive /\ ser_bound ex_archive < 2 ^ 24 /\
  game_endian_is FE10 (a_endian ex_archive).
Proof. split; [reflexivity|]. split; [exact (proj1 ex_archive_wf)|]. split; reflexivity. Qed.
Example e2e_example_archive :
  let '(S', r) := write_archive key_bytes Checked ex_fe10 ex_cmp ex_archive false in
  r = FOk tt /\
  l_get (last (layers S') []) [ex_cmp] =
    Some (File [16; 87; 0; 0; 10; 0; 0; 0; 87; 0; 3; 18; 0; 7; 3; 181; 0; 11; 2; 0; 15; 208; 2; 52; 0; 35; 14; 16; 27; 10; 13; 14; 99; 115;
                32; 31; 4; 0; 53; 8; 224; 64; 41; 16; 25; 80; 7; 3; 76; 49; 0; 76; 0; 50; 0; 104; 105; 0]) /\
  read_archive Wrapping S' ex_cmp false =
    FOk {| a_data := [0; 0; 0; 52; 0; 0; 0; 14; 0; 0; 0; 2; 13; 14; 99; 115; 0; 0]; a_text := [(0, [104; 105])];
           a_ptrs := [(4, 14); (8, 2)]; a_labels := [(14, [[76; 49]; [76; 50]])]; a_cstrs := []; a_endian := BE |}.
Proof. vm_compute. repeat split. Qed.

(* the endianness hypothesis is necessary: the same content as a LITTLE-endian archive is written without complaint,
   and read_archive (which parses big-endian for FE10) rejects the file *)
Definition ex_archive_le : archive :=
  {| a_data := a_data ex_archive; a_text := a_text ex_archive; a_ptrs := a_ptrs ex_archive; a_labels := a_labels ex_archive;
     a_cstrs := a_cstrs ex_archive; a_endian := LE |}.
Example e2e_archive_wrong_endian :
  let '(S', r) := write_archive key_bytes Checked ex_fe10 ex_cmp ex_archive_le false in
  r = FOk tt /\ read_archive Checked S' ex_cmp false = FErr (EParse ETooSmall).
Proof. vm_compute. split; reflexivity. Qed.

(* FE14 (little-endian, UTF-16, LZ13), two layers, French, LOCALIZED write of "m/t.bin.lz" (stored at m/@F/t.bin.lz in
   the top layer as a 0x13-wrapped LZ11 stream): a Unicode archive with a BOM-like message, units whose bytes contain a
   misaligned zero pair, a surrogate pair, an empty message and an empty key *)
Definition ex_fe14 : fsys := mkFs [[]; []] (mkConfig LayeredFS.LZ13 GFE14 LE LayeredFS.Unicode) French.
Definition ex_lz : str := [109; 47; 116; 46; 98; 105; 110; 46; 108; 122].
Definition ex_text : text_archive :=
  mkTA TextFormat.Unicode LE
    {| t_title := [84; 105];
       t_entries := [([107; 49], [0xFEFF; 0x0001; 0x0100; 0xD83D; 0xDE00]); ([107; 50], []); ([], [0xFFFE])];
       t_dirty := true |}.
Example e2e_example_text_hyp :
  fs_new [[]; []] French FE14 = FOk ex_fe14 /\
  wf_text (ta_fmt ex_text) (ta_map ex_text) /\ wf_text_bytes (ta_fmt ex_text) (ta_endian ex_text) (ta_map ex_text) /\
  file_bound (TextFormatWrite.text_image (ta_fmt ex_text) (ta_endian ex_text) (ta_map ex_text)) < 2 ^ 24 /\
  game_text_is FE14 (ta_fmt ex_text) (ta_endian ex_text).
Proof.
  split; [reflexivity|]. split; [|split; [|split]].
  - split; [|split].
    + repeat constructor; cbn; intuition discriminate.
    + intros _. cbn. intuition discriminate.
    + repeat constructor; cbn; try reflexivity; try discriminate.
  - split; [|split].
    + repeat constructor.
    + repeat constructor; cbn; intuition discriminate.
    + vm_compute. reflexivity.
  - vm_compute. reflexivity.
  - split; reflexivity.
Qed.
Example e2e_example_text :
  let '(S', r) := write_text_archive key_bytes Checked ex_fe14 ex_lz ex_text true in
  r = FOk tt /\ nth_error (layers S') 0 = Some [] /\
  (exists c, l_get (last (layers S') []) [[109]; [64; 70]; [116; 46; 98; 105; 110; 46; 108; 122]] = Some (File (0x13 :: c))) /\
  read_text_archive Wrapping S' ex_lz true =
    FOk (mkTA TextFormat.Unicode LE {| t_title := [84; 105]; t_entries := t_entries (ta_map ex_text); t_dirty := false |}).
Proof. vm_compute. split; [reflexivity|]. split; [reflexivity|]. split; [eexists; reflexivity | reflexivity]. Qed.

(* FE9: a conforming pack image that the builder would never write (bodies first, one body inside the other, names
   last, junk between) stored under a compressed name with the byte-level write, extracted by read_fe9_arc *)
Definition ex_pack : bytes :=
  [112;97;99;107; 0;2; 9;9;
   1;2;3;4; 0;0;0;47; 0;0;0;41; 0;0;0;4;
   0;0;0;0; 0;0;0;48; 0;0;0;42; 0;0;0;2;
   255; 10;11;12;13; 0;255; 97;98;0].
Definition ex_fe9 : fsys := mkFs [[]] (mkConfig LayeredFS.LZ10 GFE9 BE LayeredFS.ShiftJIS) German.
Definition ex_cms : str := [112; 46; 99; 109; 115].
Example e2e_example_pack :
  wfb ex_pack /\ PackFormat.conforms_pack ex_pack [([97;98], [10;11;12;13]); ([98], [11;12])] /\
  let '(S', r) := write_file Checked ex_fe9 ex_cms ex_pack false in
  r = FOk tt /\ read_fe9_arc Wrapping S' ex_cms false = FOk [([97;98], [10;11;12;13]); ([98], [11;12])].
Proof.
  split; [apply wfbb_spec; vm_compute; reflexivity|].
  split; [apply PackFormatProofs.conforms_packb_sound; vm_compute; reflexivity|].
  vm_compute. split; reflexivity.
Qed.

(* FE13: the 93-byte arc file of C16's non-vacuity example (un-padded, one packed file "b" = 9 8 7; it conforms to the
   bin-archive format with an arc-shaped content: C16_sample_file_conforms, C16_sample_file_layout) stored raw *)
Definition ex_arc_file : bytes :=
  [93;0;0;0; 28;0;0;0; 1;0;0;0; 2;0;0;0] ++ zeros 16
  ++ [7;0;0;0; 9;8;7;0; 1;0;0;0; 59;0;0;0; 0;0;0;0; 3;0;0;0; 4;0;0;0]
  ++ [12;0;0;0] ++ [8;0;0;0; 0;0;0;0; 12;0;0;0; 6;0;0;0]
  ++ [67;111;117;110;116;0; 73;110;102;111;0; 98;0].
Definition ex_fe13 : fsys := mkFs [[]] (mkConfig LayeredFS.LZ13 GFE13 LE LayeredFS.Unicode) EnglishNA.
Example e2e_example_arc :
  let p := [100; 47; 120; 46; 97; 114; 99] in
  let '(S', r) := write_file Checked ex_fe13 p ex_arc_file false in
  r = FOk tt /\ read_arc Wrapping S' p false = FOk [([98], [9;8;7])].
Proof. vm_compute. split; reflexivity. Qed.

(* FE13: the CTPK container of C20's non-vacuity example (one 8x8 L8 texture named 0x83 0x65 0x78, tables / name /
   payload permuted, junk in the gaps) stored under a ".lz" name; read_ctpk_textures returns the one-entry map *)
Definition ex_ctpk_tex : tex :=
  mkTex [131;101;120] 8 8 7
    [11;48;85;122;159;196;233;14;51;88;125;162;199;236;17;54;91;128;165;202;239;20;57;94;131;168;205;242;23;60;97;134;171;208;245;26;63;100;137;174;211;248;29;66;103;140;177;214;251;32;69;106;143;180;217;254;35;72;109;146;183;220;1;38]
    [].
Definition ex_ctpk : bytes :=
   [67;84;80;75;1;0;1;0;67;0;0;0;64;0;0;0;0;0;0;0;0;0;0;0;0;0;0;0;0;0;0;0;131;0;0;0;64;0;0;0;0;0;0;0;7;0;0;0;
   8;0;8;0;1;0;0;0;0;0;0;0;0;0;0;0;202;24;37;11;48;85;122;159;196;233;14;51;88;125;162;199;236;17;54;91;128;
   165;202;239;20;57;94;131;168;205;242;23;60;97;134;171;208;245;26;63;100;137;174;211;248;29;66;103;140;177;
   214;251;32;69;106;143;180;217;254;35;72;109;146;183;220;1;38;131;101;120;0;26].
Example e2e_example_ctpk :
  wfb ex_ctpk /\ TexFormat.conforms_ctpk ex_ctpk [ex_ctpk_tex] /\ Forall TexDecode.supported3ds [ex_ctpk_tex] /\
  let p := [116; 46; 99; 116; 112; 107; 46; 108; 122] in
  let '(S', r) := write_file Checked ex_fe13 p ex_ctpk false in
  r = FOk tt /\
  read_ctpk_textures Wrapping S' p false = FOk (TexMap [([131;101;120], TexDecode.decoded ex_ctpk_tex)]).
Proof.
  split; [apply wfbb_spec; vm_compute; reflexivity|].
  split; [apply TexCtpk.conforms_ctpkb_sound; vm_compute; reflexivity|].
  split; [constructor; [|constructor]; split; [left; repeat split; reflexivity|]; split; reflexivity|].
  vm_compute. split; reflexivity.
Qed.

(* a history: write_archive to "a.cmp", then a byte-level write to "b.bin", a typed write to "d/c.cmp", a FAILING write through
   the file "b.bin" and some reads - none of them writes to the location of "a.cmp" - then read_archive of "a.cmp" *)
Definition ex_history : list tcall :=
  [TWrite [98; 46; 98; 105; 110] [1; 2] false;
   TWriteArchive [100; 47; 99; 46; 99; 109; 112] ex_archive false;
   TWrite [98; 46; 98; 105; 110; 47; 120] [3] false;
   TReadArchive [100; 47; 99; 46; 99; 109; 112] false;
   TRead ex_cmp false].
Example e2e_example_history_hyp :
  forall s pp tr, fs_addr ex_fe10 ex_cmp false = FOk (s, (pp, tr)) -> Forall (writes_elsewhere ex_fe10 pp) ex_history.
Proof.
  intros s pp tr A. vm_compute in A. injection A as _ <- _.
  repeat constructor; cbn [writes_elsewhere]; intros s' qq tr' A'; vm_compute in A'; injection A' as _ <- _; discriminate.
Qed.
Example e2e_example_history :
  let '(S1, r) := write_archive key_bytes Checked ex_fe10 ex_cmp ex_archive false in
  r = FOk tt /\
  exists a', read_archive Wrapping (typed_run key_bytes Checked Wrapping S1 ex_history) ex_cmp false = FOk a' /\ same_archive ex_archive a'.
Proof.
  destruct (write_archive key_bytes Checked ex_fe10 ex_cmp ex_archive false) as [S1 r] eqn:E.
  assert (Hr : r = FOk tt) by (apply (f_equal snd) in E; vm_compute in E; symmetry; exact E).
  subst r. split; [reflexivity|].
  destruct e2e_example_archive_hyp as (_ & WF & B & He).
  exact (e2e_archive_round_trip_history key_bytes Checked Wrapping ex_fe10 ex_cmp false ex_archive S1 ex_history WF B He E e2e_example_history_hyp).
Qed.
