(* Finite-domain helpers: a property checked by computation on [0, n) holds for every number below n.
   The bound is an N (no large nat literal appears). *)
From Coq Require Import List NArith Arith Lia Bool ZifyBool ZifyNat ZifyN.
Import ListNotations.
Local Open Scope N_scope.

(* [n-1; ...; 1; 0] *)
Definition upto (n : N) : list N := N.recursion [] (fun k acc => k :: acc) n.

Lemma in_upto n : forall i, i < n -> In i (upto n).
Proof.
  induction n as [|n IH] using N.peano_ind; intros i Hi; [lia|].
  unfold upto. rewrite N.recursion_succ; [|reflexivity|intros ? ? -> ? ? ->; reflexivity].
  destruct (N.eq_dec i n) as [->|Hne]; [left; reflexivity|]. right. apply IH. lia.
Qed.

Definition all_below (n : N) (P : N -> bool) : bool := forallb P (upto n).

Lemma all_below_spec n P : all_below n P = true -> forall i, i < n -> P i = true.
Proof. unfold all_below. rewrite forallb_forall. intros H i Hi. apply H, in_upto, Hi. Qed.

Definition all_below2 (n1 n2 : N) (P : N -> N -> bool) : bool := all_below n1 (fun a => all_below n2 (P a)).
Lemma all_below2_spec n1 n2 P : all_below2 n1 n2 P = true -> forall a b, a < n1 -> b < n2 -> P a b = true.
Proof.
  unfold all_below2. intros H a b Ha Hb. pose proof (all_below_spec _ _ H a Ha) as H1.
  exact (all_below_spec _ _ H1 b Hb).
Qed.

Definition all_below3 (n1 n2 n3 : N) (P : N -> N -> N -> bool) : bool := all_below n1 (fun a => all_below2 n2 n3 (P a)).
Lemma all_below3_spec n1 n2 n3 P : all_below3 n1 n2 n3 P = true ->
  forall a b c, a < n1 -> b < n2 -> c < n3 -> P a b c = true.
Proof.
  unfold all_below3. intros H a b c Ha Hb Hc. pose proof (all_below_spec _ _ H a Ha) as H1.
  exact (all_below2_spec _ _ _ H1 b c Hb Hc).
Qed.
