(* C18, part 1: the three transcribed schemas of src/asset_binary.rs agree.
   A COMMON schema is an ordered list of entries (field, flag byte, bit [, kind]); each of the three
   tables of Model/AssetBin.v (reader, flag computation, writer) must be the image of the common
   schema under its own projection - a computed fact (vm_compute) - and the common schema must be
   well formed ([schema_ok], also computed): distinct flag bits, none on the long-form marker
   (byte 0 bit 0), base fields in bytes 0..3, extended fields in bytes 4..6, every field of the
   struct covered.  Everything else in Proofs/AssetBin*.v is proved for ANY common schema with
   these properties, so a table that drifts from the others breaks the computed agreement and
   nothing else.  This file also has the bit-level lemmas about flag bytes. *)
From Coq Require Import List NArith ZArith Bool Lia ZifyBool ZifyNat ZifyN Arith.
From Mila Require Import Lib.Bytes Lib.Machine Model.BinArchive Model.BinStreams Model.AssetBin.
Import ListNotations.
Local Open Scope N_scope.
Ltac Zify.zify_post_hook ::= Z.div_mod_to_equations.

Inductive centry :=
| CS (t byte : nat) (bit : N)                 (* optional string t, flagged by bit `bit` of flags[byte] *)
| CT (t byte : nat) (bit : N) (k : fkind).    (* typed field t (value and use flag) *)

Definition ce_byte (e : centry) : nat := match e with CS _ b _ => b | CT _ b _ _ => b end.
Definition ce_bit (e : centry) : N := match e with CS _ _ b => b | CT _ _ b _ => b end.

Definition rproj (e : centry) : rentry :=
  match e with
  | CS t byte bit => RStr t (8 * N.of_nat byte + bit)
  | CT t byte bit k => RTyped byte (2 ^ bit) t t k
  end.
Definition fproj (e : centry) : fentry :=
  match e with
  | CS t byte bit => (byte, 2 ^ bit, FStr t)
  | CT t byte bit k => (byte, 2 ^ bit, FUse t)
  end.
Definition wproj (e : centry) : wentry :=
  match e with
  | CS t _ _ => WStr t
  | CT t _ _ k => WTyped t t k
  end.

(* ---- the common schema of the source, generated (not transcribed) ---- *)
Definition c_base : list centry :=
  map (fun i => CS i ((i + 1) / 8) (N.of_nat ((i + 1) mod 8))) (seq 0 31).
Definition c_ext : list centry :=
  [ CS 31 4 0; CS 32 4 1;
    CT 0 4 2 KColor; CT 1 4 3 KColor; CT 2 4 4 KColor; CT 3 4 5 KF32; CT 4 4 6 KF32; CT 5 4 7 KF32;
    CT 6 5 0 KU32; CT 7 5 1 KU32; CT 8 5 2 KU32; CT 9 5 3 KU32; CT 10 5 4 KColor; CT 11 5 5 KU32; CT 12 5 6 KU32; CT 13 5 7 KU32;
    CT 14 6 0 KU32; CT 15 6 1 KU32; CT 16 6 2 KU32; CT 17 6 3 KU32 ]%nat.

(* ---- well-formedness of a common schema (decidable) ---- *)
Definition pair_eqb (x y : nat * N) : bool := andb (fst x =? fst y)%nat (snd x =? snd y).
Definition ce_pair (e : centry) : nat * N := (ce_byte e, ce_bit e).
Fixpoint nodupb {A} (eqb : A -> A -> bool) (l : list A) : bool :=
  match l with [] => true | x :: r => andb (negb (existsb (eqb x) r)) (nodupb eqb r) end.
Definition is_CS (t : nat) (e : centry) : bool := match e with CS t' _ _ => (t' =? t)%nat | _ => false end.
Definition is_CT (t : nat) (e : centry) : bool := match e with CT t' _ _ _ => (t' =? t)%nat | _ => false end.

Definition schema_ok (cb ce : list centry) : bool :=
  forallb (fun e => andb (ce_byte e <? 4)%nat (ce_bit e <? 8)) cb &&
  forallb (fun e => andb (andb (4 <=? ce_byte e)%nat (ce_byte e <=? 6)%nat) (ce_bit e <? 8)) ce &&
  forallb (fun e => negb (pair_eqb (ce_pair e) (0%nat, 0))) (cb ++ ce) &&
  nodupb pair_eqb (map ce_pair (cb ++ ce)) &&
  forallb (fun t => existsb (is_CS t) (cb ++ ce)) (seq 0 N_STRS) &&
  forallb (fun t => existsb (is_CT t) (cb ++ ce)) (seq 0 N_TYPED).

(* ================================================================== the computed agreement *)
Lemma reader_base_agrees : r_base = map rproj c_base.
Proof. vm_compute. reflexivity. Qed.
Lemma reader_ext_agrees : r_ext = map rproj c_ext.
Proof. vm_compute. reflexivity. Qed.
Lemma flags_agree : f_schema = map fproj (c_base ++ c_ext).
Proof. vm_compute. reflexivity. Qed.
Lemma writer_base_agrees : w_base = map wproj c_base.
Proof. vm_compute. reflexivity. Qed.
Lemma writer_ext_agrees : w_ext = map wproj c_ext.
Proof. vm_compute. reflexivity. Qed.
Lemma source_schema_ok : schema_ok c_base c_ext = true.
Proof. vm_compute. reflexivity. Qed.

(* ================================================================== consequences of schema_ok *)
Lemma nodupb_spec {A} (eqb : A -> A -> bool) (l : list A) :
  (forall x y, eqb x y = true <-> x = y) -> nodupb eqb l = true -> NoDup l.
Proof.
  intros Heq. induction l as [|x r IH]; cbn [nodupb]; intros H; [constructor|].
  apply andb_true_iff in H. destruct H as [H1 H2]. constructor; [|apply IH; exact H2].
  intros Hin. apply negb_true_iff in H1. assert (existsb (eqb x) r = true); [|congruence].
  apply existsb_exists. exists x. split; [exact Hin | apply Heq; reflexivity].
Qed.
Lemma pair_eqb_spec x y : pair_eqb x y = true <-> x = y.
Proof.
  destruct x as [a b], y as [c d]. unfold pair_eqb. cbn [fst snd].
  rewrite andb_true_iff, Nat.eqb_eq, N.eqb_eq. split; [intros [-> ->]; reflexivity | intros H; inversion H; auto].
Qed.
Lemma NoDup_map_inj {A B} (f : A -> B) (l : list A) x y :
  NoDup (map f l) -> In x l -> In y l -> f x = f y -> x = y.
Proof.
  induction l as [|z r IH]; cbn [map In]; intros ND Hx Hy E; [tauto|].
  inversion ND as [|? ? Hn ND']; subst.
  destruct Hx as [Hx|Hx], Hy as [Hy|Hy]; subst; auto.
  - exfalso. apply Hn. rewrite E. apply in_map. exact Hy.
  - exfalso. apply Hn. rewrite <- E. apply in_map. exact Hx.
Qed.

Record schema_wf (cb ce : list centry) : Prop := {
  sw_base : forall e, In e cb -> (ce_byte e < 4)%nat /\ ce_bit e < 8;
  sw_ext : forall e, In e ce -> (4 <= ce_byte e <= 6)%nat /\ ce_bit e < 8;
  sw_marker : forall e, In e (cb ++ ce) -> ce_pair e <> (0%nat, 0);
  sw_nodup : NoDup (map ce_pair (cb ++ ce));
  sw_strs : forall t, (t < N_STRS)%nat -> exists e, In e (cb ++ ce) /\ is_CS t e = true;
  sw_typed : forall t, (t < N_TYPED)%nat -> exists e, In e (cb ++ ce) /\ is_CT t e = true }.

Lemma schema_ok_wf cb ce : schema_ok cb ce = true -> schema_wf cb ce.
Proof.
  unfold schema_ok. rewrite !andb_true_iff. intros (((((H1 & H2) & H3) & H4) & H5) & H6).
  rewrite forallb_forall in H1, H2, H3, H5, H6. constructor.
  - intros e He. specialize (H1 e He). lia.
  - intros e He. specialize (H2 e He). lia.
  - intros e He E. specialize (H3 e He). apply negb_true_iff in H3.
    assert (pair_eqb (ce_pair e) (0%nat, 0) = true) by (apply pair_eqb_spec; exact E). congruence.
  - apply (nodupb_spec pair_eqb); [exact pair_eqb_spec | exact H4].
  - intros t Ht. specialize (H5 t). rewrite in_seq in H5. specialize (H5 ltac:(lia)).
    apply existsb_exists in H5. exact H5.
  - intros t Ht. specialize (H6 t). rewrite in_seq in H6. specialize (H6 ltac:(lia)).
    apply existsb_exists in H6. exact H6.
Qed.

(* ================================================================== bits *)
Lemma land_pow2_eq0 x i : (N.land x (2 ^ i) =? 0) = negb (N.testbit x i).
Proof.
  destruct (N.testbit x i) eqn:E; cbn [negb].
  - apply N.eqb_neq. intros H.
    assert (T : N.testbit (N.land x (2 ^ i)) i = true) by (rewrite N.land_spec, E, N.pow2_bits_true; reflexivity).
    rewrite H, N.bits_0 in T. discriminate.
  - apply N.eqb_eq. apply N.bits_inj. intros j. rewrite N.land_spec, N.bits_0, N.pow2_bits_eqb.
    destruct (N.eqb_spec i j) as [->|Hne]; [rewrite E; reflexivity | apply andb_false_r].
Qed.
Lemma shiftl_1 i : N.shiftl 1 i = 2 ^ i.
Proof. apply N.shiftl_1_l. Qed.
Lemma land_1 x : N.land x 1 = if N.testbit x 0 then 1 else 0.
Proof.
  change 1 with (2 ^ 0) at 1. pose proof (land_pow2_eq0 x 0) as H.
  destruct (N.testbit x 0) eqn:E; cbn [negb] in H.
  - apply N.eqb_neq in H. apply N.bits_inj. intros j. rewrite N.land_spec, N.pow2_bits_eqb.
    destruct (N.eqb_spec 0 j) as [<-|Hne]; [rewrite E; reflexivity|].
    rewrite andb_false_r. symmetry. change 1 with (2 ^ 0). rewrite N.pow2_bits_eqb. apply N.eqb_neq. exact Hne.
  - apply N.eqb_eq in H. exact H.
Qed.
Lemma testbit_lor_mask x (pr : bool) bi j :
  N.testbit (N.lor x (if pr then 2 ^ bi else 0)) j = orb (N.testbit x j) (andb pr (bi =? j)).
Proof.
  rewrite N.lor_spec. destruct pr; cbn [andb].
  - rewrite N.pow2_bits_eqb. reflexivity.
  - rewrite N.bits_0. reflexivity.
Qed.
Lemma testbit_lor_1 x j : j <> 0 -> N.testbit (N.lor x 1) j = N.testbit x j.
Proof.
  intros H. rewrite N.lor_spec. change 1 with (2 ^ 0). rewrite N.pow2_bits_eqb.
  destruct (N.eqb_spec 0 j); [congruence | apply orb_false_r].
Qed.
Lemma small_of_bits x n : (forall j, n <= j -> N.testbit x j = false) -> x < 2 ^ n.
Proof.
  intros H. destruct (N.eq_dec x 0) as [->|Hx]; [apply N.neq_0_lt_0, N.pow_nonzero; lia|].
  apply N.log2_lt_pow2; [lia|]. destruct (N.lt_ge_cases (N.log2 x) n) as [L|L]; [exact L|].
  specialize (H _ L). rewrite N.bit_log2 in H by exact Hx. discriminate.
Qed.

(* ---- list update ---- *)
Lemma length_upd {A} n (f : A -> A) l : length (upd n f l) = length l.
Proof. revert n; induction l as [|x r IH]; intros [|n]; cbn [upd length]; auto. Qed.
Lemma nth_upd_same {A} n (f : A -> A) l d : (n < length l)%nat -> nth n (upd n f l) d = f (nth n l d).
Proof. revert n; induction l as [|x r IH]; intros [|n]; cbn [upd length nth]; intros H; try lia; auto. apply IH. lia. Qed.
Lemma nth_upd_other {A} n i (f : A -> A) l d : i <> n -> nth i (upd n f l) d = nth i l d.
Proof. revert n i; induction l as [|x r IH]; intros [|n] [|i]; cbn [upd nth]; intros H; try congruence; auto. Qed.
