(* Arc part of C05: arc extraction never panics on ANY archive value in either arithmetic mode,
   the fuel of the record loop is never exhausted (every successful iteration consumes 16 bytes
   of the data region, so a huge `count` fails fast), and the witness of finding F9 for the
   code before the repair. *)
From Coq Require Import List NArith ZArith Bool Lia ZifyBool ZifyNat ZifyN.
From Mila Require Import Lib.Bytes Lib.Machine Model.BinArchive Model.BinStreams Model.BinFormat Model.Arc
  Proofs.BinAccess Proofs.BinAccess2 Proofs.ArcProofs.
Import ListNotations.
Local Open Scope N_scope.
Ltac Zify.zify_post_hook ::= Z.div_mod_to_equations.

(* ---------------------------------------------------------------- one record *)
Lemma read_u32_cases a pos :
  (exists v, read_u32 a pos = Ok v /\ pos + 4 <= size a) \/ read_u32 a pos = Err EOob.
Proof.
  unfold read_u32. destruct (inside a pos 4) eqn:E.
  - apply inside_true in E. destruct (proj2 (read_uint_ok_iff a pos 4)) as [v Hv]; [change (N.of_nat 4) with 4; lia|].
    left. exists v. split; [exact Hv | lia].
  - right. apply read_uint_outside. change (N.of_nat 4) with 4. intros H. apply inside_true in H. congruence.
Qed.

(* outcome of reading one record: never a panic; on success 16 bytes of the data region were consumed *)
Lemma read_entry_total a pos pad :
  (forall k p, read_entry a pos pad <> (Panic k, p)) /\
  (forall en p, read_entry a pos pad = (Ok en, p) -> p = pos + 16 /\ pos + 16 <= size a).
Proof.
  unfold read_entry, r_read_string, r_read_u32. rewrite read_string_spec.
  destruct (inside a pos 4) eqn:Ei; cbn [rd]; [|split; intros; discriminate].
  destruct (am_get pos (a_text a)) as [name|]; [|split; intros; discriminate].
  destruct (read_u32_cases a (pos + 4)) as [(v1 & -> & H1)| ->]; cbn [rd]; [|split; intros; discriminate].
  destruct (read_u32_cases a (pos + 4 + 4)) as [(v2 & -> & H2)| ->]; cbn [rd]; [|split; intros; discriminate].
  destruct (read_u32_cases a (pos + 4 + 4 + 4)) as [(v3 & -> & H3)| ->]; cbn [rd]; [|split; intros; discriminate].
  destruct (checked_add32 v3 pad); split; intros; try discriminate.
  inversion H; subst. lia.
Qed.

(* ---------------------------------------------------------------- the loops *)
Lemma entry_loop_no_panic a pad : forall fuel remaining pos acc k, entry_loop fuel a remaining pos pad acc <> Panic k.
Proof.
  induction fuel as [|f IH]; intros remaining pos acc k; cbn [entry_loop]; destruct (remaining =? 0); try discriminate.
  destruct (read_entry_total a pos pad) as [P _].
  destruct (read_entry a pos pad) as [[en|e|k'] p] eqn:E; [apply IH | discriminate | exfalso; exact (P k' p eq_refl)].
Qed.

Lemma entry_loop_fuel a pad : forall fuel remaining pos acc,
  (1 <= fuel)%nat -> size a + 16 <= pos + 16 * N.of_nat fuel ->
  entry_loop fuel a remaining pos pad acc <> Err EOutOfFuel.
Proof.
  induction fuel as [|f IH]; intros remaining pos acc H1 H2; [lia|]. cbn [entry_loop].
  destruct (remaining =? 0); [discriminate|].
  destruct (read_entry_total a pos pad) as [_ S'].
  destruct (read_entry a pos pad) as [[en|e|k'] p] eqn:E; [| | discriminate].
  - destruct (S' en p eq_refl) as [-> Hle]. apply IH; lia.
  - intros C. inversion C; subst. clear C S'.
    (* the error of a record read is never OutOfFuel *)
    unfold read_entry, r_read_string, r_read_u32 in E. rewrite read_string_spec in E.
    destruct (inside a pos 4); cbn [rd] in E; [|discriminate].
    destruct (am_get pos (a_text a)); [|discriminate].
    destruct (read_u32_cases a (pos + 4)) as [(v1 & R1 & _)| R1]; rewrite R1 in E; cbn [rd] in E; [|discriminate].
    destruct (read_u32_cases a (pos + 4 + 4)) as [(v2 & R2 & _)| R2]; rewrite R2 in E; cbn [rd] in E; [|discriminate].
    destruct (read_u32_cases a (pos + 4 + 4 + 4)) as [(v3 & R3 & _)| R3]; rewrite R3 in E; cbn [rd] in E; [|discriminate].
    destruct (checked_add32 v3 pad); discriminate.
Qed.

Lemma read_body_cases a address sz :
  (exists b, fst (r_read_bytes a address sz) = Ok b) \/ fst (r_read_bytes a address sz) = Err EOob.
Proof.
  unfold r_read_bytes. destruct (r_read_bytes_loop _ a address []) as [[bs|e|k] p] eqn:E; cbn [fst].
  - left. eauto.
  - right. apply r_read_bytes_loop_err in E. destruct E as [-> _]. reflexivity.
  - exfalso. exact (r_read_bytes_loop_no_panic _ _ _ _ _ _ E).
Qed.
Lemma body_loop_total a : forall ents acc, (forall k, body_loop a ents acc <> Panic k) /\ body_loop a ents acc <> Err EOutOfFuel.
Proof.
  induction ents as [|en r IH]; intros acc; cbn [body_loop]; [split; [intros k|]; discriminate|].
  destruct (read_body_cases a (ae_address en) (ae_size en)) as [[b ->]| ->]; [apply IH | split; [intros k|]; discriminate].
Qed.

(* ---------------------------------------------------------------- the C05 lemmas *)
Theorem arc_trace_no_panic : forall m a k, arc_trace m a <> Panic k.
Proof.
  intros m a k. unfold arc_trace.
  destruct (find_label_address a COUNT) as [c|]; cbn [of_option bind]; [|discriminate].
  destruct (find_label_address a INFO) as [i|]; cbn [of_option bind]; [|discriminate].
  destruct (read_u32_cases a 0) as [(w0 & -> & _)| ->]; cbn [bind]; [|discriminate].
  unfold r_read_u32. rewrite fst_rd. destruct (read_u32_cases a c) as [(cnt & -> & _)| ->]; cbn [bind]; [|discriminate].
  pose proof (entry_loop_no_panic a (if w0 =? 0 then HEADER_PAD else 0) (data_fuel a) cnt i []) as P.
  destruct (entry_loop (data_fuel a) a cnt i _ []) as [ents|e|k']; cbn [bind]; [| discriminate | exfalso; exact (P k' eq_refl)].
  apply body_loop_total.
Qed.

Theorem arc_from_archive_no_panic : forall m a k, arc_from_archive m a <> Panic k.
Proof.
  intros m a k. unfold arc_from_archive. pose proof (arc_trace_no_panic m a) as P.
  destruct (arc_trace m a) as [tr|e|k']; cbn [bind]; [discriminate | discriminate | exfalso; exact (P k' eq_refl)].
Qed.

Theorem arc_trace_fuel_never_exhausted : forall m a, arc_trace m a <> Err EOutOfFuel.
Proof.
  intros m a. unfold arc_trace.
  destruct (find_label_address a COUNT) as [c|]; cbn [of_option bind]; [|discriminate].
  destruct (find_label_address a INFO) as [i|]; cbn [of_option bind]; [|discriminate].
  destruct (read_u32_cases a 0) as [(w0 & -> & _)| ->]; cbn [bind]; [|discriminate].
  unfold r_read_u32. rewrite fst_rd. destruct (read_u32_cases a c) as [(cnt & -> & _)| ->]; cbn [bind]; [|discriminate].
  assert (F : entry_loop (data_fuel a) a cnt i (if w0 =? 0 then HEADER_PAD else 0) [] <> Err EOutOfFuel).
  { apply entry_loop_fuel; unfold data_fuel, size, lenN; lia. }
  destruct (entry_loop (data_fuel a) a cnt i _ []) as [ents|e|k']; cbn [bind]; [| | discriminate].
  - apply body_loop_total.
  - intros C. apply F. inversion C. reflexivity.
Qed.

Theorem arc_from_archive_fuel_never_exhausted : forall m a, arc_from_archive m a <> Err EOutOfFuel.
Proof.
  intros m a. unfold arc_from_archive. pose proof (arc_trace_fuel_never_exhausted m a) as F.
  destruct (arc_trace m a) as [tr|e|k']; cbn [bind]; [discriminate | | discriminate].
  intros C. apply F. inversion C. reflexivity.
Qed.

(* the repaired code has no profile-dependent arithmetic left *)
Theorem arc_mode_independent : forall a, arc_from_archive Checked a = arc_from_archive Wrapping a.
Proof. reflexivity. Qed.

(* from_bytes = BinArchive::from_bytes (little endian), then the extraction *)
Theorem arc_from_bytes_no_panic : forall m f,
  (forall k, BinFormat.from_bytes LE f <> Panic k) -> forall k, arc_from_bytes m f <> Panic k.
Proof.
  intros m f H k. unfold arc_from_bytes. destruct (BinFormat.from_bytes LE f) as [a|e|k'] eqn:E; cbn [bind].
  - apply arc_from_archive_no_panic.
  - discriminate.
  - exfalso. exact (H k' eq_refl).
Qed.
Theorem arc_from_bytes_fuel_never_exhausted : forall m f,
  BinFormat.from_bytes LE f <> Err EOutOfFuel -> arc_from_bytes m f <> Err EOutOfFuel.
Proof.
  intros m f H. unfold arc_from_bytes. destruct (BinFormat.from_bytes LE f) as [a|e|k'] eqn:E; cbn [bind].
  - apply arc_from_archive_fuel_never_exhausted.
  - intros C. apply H. inversion C. reflexivity.
  - discriminate.
Qed.

(* a record whose range leaves the data region is rejected - the C05 reading of "declared sizes are rejected":
   no buffer is ever requested on the strength of the size field (bytes are appended one by one while they exist) *)
Theorem arc_body_never_longer_than_data a address sz b :
  fst (r_read_bytes a address sz) = Ok b -> lenN b <= size a.
Proof.
  unfold r_read_bytes. destruct (r_read_bytes_loop _ a address []) as [[bs|e|k] p] eqn:E; cbn [fst]; try discriminate.
  intros H. injection H as <-. apply r_read_bytes_loop_spec in E. destruct E as (_ & Hle & ->). cbn [rev app].
  unfold lenN. rewrite firstn_length, skipn_length. unfold size, lenN. lia.
Qed.

(* ---------------------------------------------------------------- finding F9 (code before the repair) *)
(* padded header (first word 0), one record with offset 0xFFFFFFF0 and size 1: `offset + 0x60` *)
Definition f9_archive : archive :=
  {| a_data := zeros 0x50 ++ [0xAA] ++ zeros 0x0F ++ [1; 0; 0; 0] ++ [0; 0; 0; 0; 0; 0; 0; 0; 1; 0; 0; 0; 0xF0; 0xFF; 0xFF; 0xFF];
     a_text := [(0x64, [102])]; a_ptrs := [];
     a_labels := [(0x60, [COUNT]); (0x64, [INFO])]; a_cstrs := []; a_endian := LE |}.

Lemma f9_unrepaired_checked_panics : fst (read_entry_unrepaired Checked f9_archive 0x64 HEADER_PAD) = Panic POverflow.
Proof. vm_compute. reflexivity. Qed.
Lemma f9_unrepaired_wrapping_reads_elsewhere :
  exists en, fst (read_entry_unrepaired Wrapping f9_archive 0x64 HEADER_PAD) = Ok en /\ ae_address en = 0x50 /\
             fst (r_read_bytes f9_archive (ae_address en) (ae_size en)) = Ok [0xAA].
Proof. eexists. vm_compute. repeat split. Qed.
Lemma f9_repaired_rejects : forall m, arc_from_archive m f9_archive = Err EOob.
Proof. intros m. vm_compute. reflexivity. Qed.
