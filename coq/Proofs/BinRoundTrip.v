(* C01: the round trip, assembled from serialize_conforms (Proofs/BinSerializeConforms.v) and
   parser_correct (Proofs/BinParserCorrect.v). *)
From Coq Require Import List NArith ZArith Bool Lia ZifyBool ZifyNat ZifyN.
From Mila Require Import Lib.Bytes Lib.Machine Model.BinArchive Model.BinFormat Proofs.AMapLemmas Proofs.BinAccess Proofs.BinAccess2
  Proofs.BinFormatSpec Proofs.BinParserCorrect Proofs.BinSerializeConformsBase Proofs.BinSerializeConformsPhases Proofs.BinSerializeConforms.
Import ListNotations.
Local Open Scope N_scope.

(* every SUCCESSFUL serialize of a well-formed archive round-trips: no a-priori size bound - since fix 524d15f (finding F25)
   serialize succeeds exactly when the image fits the 32-bit sizes of the format (serialize_ok_iff) *)
Theorem round_trip_ok kf m a f :
  wf_archive a -> serialize_k kf m a = Ok f ->
  exists a',
    wfb f /\ from_bytes (a_endian a) f = Ok a' /\
    a_endian a' = a_endian a /\ a_cstrs a' = [] /\
    (* the same size, plus the c-string pool the format itself appends (nothing without c-strings) *)
    size a' = size a + lenN (pool_bytes a) /\ lenN (pool_bytes a) mod 4 = 0 /\ (a_cstrs a = [] -> size a' = size a) /\
    (* the same raw bytes wherever the cell holds no pointer / string / c-string *)
    (forall i, (i < N.to_nat (size a))%nat -> outside (cells a) i -> nth_error (a_data a') i = nth_error (a_data a) i) /\
    (* the same strings, pointers and labels (per-address order included) *)
    (forall x, am_get x (a_text a') = am_get x (a_text a)) /\
    (forall x, ~ In x (cs_cells a) -> am_get x (a_ptrs a') = am_get x (a_ptrs a)) /\
    (forall x, am_get x (a_labels a') = am_get x (a_labels a)) /\
    (* every pending c-string is readable at its cell *)
    (forall s cs cell, In (s, cs) (a_cstrs a) -> In cell cs -> read_c_string a' cell = Ok (Some s)).
Proof.
  intros WF Hs.
  destruct (serialize_ok_conforms kf m a f WF Hs) as (Hw & Hc).
  destruct (parser_correct _ _ _ Hc) as (a' & Hp & Hd & He & Hcs & Gp & Gt & Gl & _).
  destruct (published_data_len kf a WF) as (L1 & L2 & L3).
  exists a'. split; [exact Hw|]. split; [exact Hp|]. split; [exact He|]. split; [exact Hcs|].
  assert (Hsize : size a' = size a + lenN (pool_bytes a)) by (unfold size at 1; rewrite Hd; exact L1).
  split; [exact Hsize|]. split; [exact L2|]. split; [intros E; rewrite Hsize, (L3 E); apply N.add_0_r|].
  split. { intros i Hi Ho. rewrite Hd. apply published_data_outside; assumption. }
  split. { intros x. rewrite Gt. reflexivity. }
  split. { intros x Hx. rewrite Gp. apply published_own_pointers; assumption. }
  split. { intros x. rewrite Gl. reflexivity. }
  intros s cs cell Hin Hcell.
  destruct (published_cstring kf a WF s cs cell Hin Hcell) as (p & G1 & G2 & G3).
  assert (Hc4 : cell + 4 <= size a).
  { apply (wf_cells_in a WF). unfold cells. apply in_or_app. right. apply in_or_app. right.
    unfold cs_cells. apply in_concat. exists cs. split; [|exact Hcell]. apply in_map_iff. exists (s, cs). auto. }
  unfold read_c_string. rewrite read_pointer_spec.
  assert (Hi : inside a' cell 4 = true) by (apply inside_true; rewrite Hsize; lia).
  rewrite Hi. cbn [bind]. rewrite Gp, G1.
  rewrite validate_address_false. unfold size. rewrite Hd.
  destruct (N.ltb_spec p (lenN (c_data (published kf a)))); [|lia]. cbn [bind]. rewrite G3. reflexivity.
Qed.

(* with the a-priori bound fits32 the image exists *)
Theorem round_trip kf m a :
  wf_archive a -> fits32 a ->
  exists f a',
    serialize_k kf m a = Ok f /\ wfb f /\ from_bytes (a_endian a) f = Ok a' /\
    a_endian a' = a_endian a /\ a_cstrs a' = [] /\
    size a' = size a + lenN (pool_bytes a) /\ lenN (pool_bytes a) mod 4 = 0 /\ (a_cstrs a = [] -> size a' = size a) /\
    (forall i, (i < N.to_nat (size a))%nat -> outside (cells a) i -> nth_error (a_data a') i = nth_error (a_data a) i) /\
    (forall x, am_get x (a_text a') = am_get x (a_text a)) /\
    (forall x, ~ In x (cs_cells a) -> am_get x (a_ptrs a') = am_get x (a_ptrs a)) /\
    (forall x, am_get x (a_labels a') = am_get x (a_labels a)) /\
    (forall s cs cell, In (s, cs) (a_cstrs a) -> In cell cs -> read_c_string a' cell = Ok (Some s)).
Proof.
  intros WF FIT. destruct (serialize_conforms kf m a WF FIT) as (f & Hs & _).
  destruct (round_trip_ok kf m a f WF Hs) as (a' & H). exists f, a'. split; [exact Hs | exact H].
Qed.
