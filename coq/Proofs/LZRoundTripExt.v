(* LZ13 round trip for every payload below 4 GiB, in one statement: the plain 24-bit size form for
   1..2^24-1 bytes and the extended size form (empty payload, 16 MiB and more - the repair of F12) are both
   headers of the specification ([sheader V11 ext n]), so the general "conforming stream" theorem of C11
   applies to the compressor's output.  (The property stops at 16 MiB; inputs that large cannot be run in
   the quick tier, so the extended form of large payloads is covered by this theorem only.) *)
From Coq Require Import List NArith ZArith Arith Lia Bool ZifyBool ZifyNat ZifyN.
From Mila Require Import Lib.Bytes Lib.Machine Model.LZCore Model.LZ11 Model.LZ13Machine Model.LZCompressMachine Model.LZSpec Model.LZDecode
  Proofs.LZBits Proofs.LZCoreProofs Proofs.LZTokens Proofs.LZEmitProofs Proofs.LZSpecProofs Proofs.LZ11Proofs Proofs.LZDecodeProofs Proofs.LZConforming
  Proofs.LZ13MachineProofs Proofs.LZCompressMachineProofs.
Import ListNotations.
Ltac Zify.zify_post_hook ::= Z.div_mod_to_equations.
Local Open Scope N_scope.

Lemma le24_enc_le n : le24 n = enc_le 3 n.
Proof.
  unfold le24. cbn [enc_le]. rewrite !N_land_255, !N_shiftr_div.
  change (2 ^ 8) with 256. change (2 ^ 16) with (256 * 256). rewrite <- N.div_div by lia. reflexivity.
Qed.

Definition ext_form (n : N) : bool := orb (n =? 0) (0xFFFFFF <? n).

Lemma header13_sheader h n : n < 2 ^ 32 -> header13 h n = 0x13 :: le24 h ++ sheader V11 (ext_form n) n.
Proof.
  intros Hn. unfold header13, ext_form. cbn [sheader].
  destruct (orb (n =? 0) (16777215 <? n)).
  - unfold trunc_w. change (maxw W32) with (2 ^ 32). rewrite N.mod_small by exact Hn. reflexivity.
  - rewrite !le24_enc_le. reflexivity.
Qed.

Lemma ext_form_fits n : n < 2 ^ 32 -> size_fits V11 (ext_form n) n.
Proof.
  intros Hn. unfold size_fits, ext_form.
  destruct (N.eqb_spec n 0) as [E|E]; destruct (N.ltb_spec 16777215 n) as [H|H]; cbn [orb]; try exact Hn.
  change (2 ^ 24) with 16777216. lia.
Qed.

Theorem compress13_round_trip_ext m x : wfb x -> lenN x < 2 ^ 32 ->
  exists a b c s, compress13 m x = Ok (0x13 :: a :: b :: c :: s) /\
    sparse11 s = Some (lenN x, tokens 4096 x) /\
    forall m', lz13_decompress m' (0x13 :: a :: b :: c :: s) = Ok x.
Proof.
  intros Hw Hn.
  assert (Hn63 : lenN x < 2 ^ 63).
  { change (2 ^ 32) with 4294967296 in Hn. change (2 ^ 63) with 9223372036854775808. lia. }
  destruct (compress13_enc m x Hn63) as [h Hc].
  rewrite (header13_sheader h (lenN x) Hn) in Hc. unfold le24 in Hc. cbn [app] in Hc.
  pose proof (tokens_valid V11 4096 x Hw ltac:(cbn; lia)) as Hv.
  assert (Ht : N.of_nat (total_len (tokens 4096 x)) = lenN x) by (rewrite tokens_total; reflexivity).
  pose proof (ext_form_fits (lenN x) Hn) as Hfit.
  do 4 eexists. split; [exact Hc|]. split.
  - exact (sparse_enc V11 (ext_form (lenN x)) (tokens 4096 x) (lenN x) Hv Ht Hfit).
  - intros m'.
    destruct (decode_conforming m' V11 (ext_form (lenN x)) (tokens 4096 x) (lenN x) Hv Ht Hfit) as (x' & Hex & _ & _ & _ & Hwr & _).
    rewrite (tokens_expand 4096 x) in Hex. injection Hex as <-. apply Hwr.
Qed.

(* ---- the same for ANY value of the three wrapper length bytes: the decoder never looks at them.  This is what
   makes the round trip independent of calculate_lz13_header, whose list model is proved equal to the
   machine-level one only below 2^31 bytes. ---- *)
Lemma emit13_enc h n x :
  emit_loop tok11 (header13 h n) (tokens 4096 x) = header13 h n ++ enc_body (senc V11) (tokens 4096 x).
Proof.
  rewrite emit_loop_enc. f_equal. apply enc_body_ext.
  eapply Forall_impl; [|apply tokens_ranges]. intros t Ht. apply tok11_senc. exact Ht.
Qed.

Theorem lz13_stream_round_trip h x : wfb x -> lenN x < 2 ^ 32 ->
  exists a b c s, emit_loop tok11 (header13 h (lenN x)) (tokens 4096 x) = 0x13 :: a :: b :: c :: s /\
    sparse11 s = Some (lenN x, tokens 4096 x) /\
    forall m', lz13_decompress m' (0x13 :: a :: b :: c :: s) = Ok x.
Proof.
  intros Hw Hn. rewrite emit13_enc, (header13_sheader h (lenN x) Hn). unfold le24. cbn [app].
  pose proof (tokens_valid V11 4096 x Hw ltac:(cbn; lia)) as Hv.
  assert (Ht : N.of_nat (total_len (tokens 4096 x)) = lenN x) by (rewrite tokens_total; reflexivity).
  pose proof (ext_form_fits (lenN x) Hn) as Hfit.
  do 4 eexists. split; [reflexivity|]. split.
  - exact (sparse_enc V11 (ext_form (lenN x)) (tokens 4096 x) (lenN x) Hv Ht Hfit).
  - intros m'.
    destruct (decode_conforming m' V11 (ext_form (lenN x)) (tokens 4096 x) (lenN x) Hv Ht Hfit) as (x' & Hex & _ & _ & _ & Hwr & _).
    rewrite (tokens_expand 4096 x) in Hex. injection Hex as <-. apply Hwr.
Qed.

(* the exported function (list model with the guard of F21): every byte string below 4 GiB round-trips, every
   longer input is rejected *)
Theorem compress13_o_round_trip m x : wfb x -> lenN x < 2 ^ 32 ->
  exists c, compress13_o m x = Ok c /\ forall m', lz13_decompress m' c = Ok x.
Proof.
  intros Hw Hn. unfold compress13_o. rewrite (too_large13_false x Hn).
  destruct (compress13_round_trip_ext m x Hw Hn) as (a & b & c & s & Hc & _ & Hd). eauto.
Qed.

Theorem compress13_o_rejects m x : 2 ^ 32 <= lenN x -> compress13_o m x = Err ETooLarge.
Proof. intros H. unfold compress13_o. rewrite (too_large13_true x H). reflexivity. Qed.

Lemma compress13_o_small m x : lenN x < 2 ^ 32 -> compress13_o m x = compress13 m x.
Proof. intros H. unfold compress13_o. rewrite (too_large13_false x H). reflexivity. Qed.

Lemma compress13_o_ok_inv m x c : compress13_o m x = Ok c -> lenN x < 2 ^ 32 /\ compress13 m x = Ok c.
Proof.
  unfold compress13_o, too_large13. change (2 ^ 32) with 4294967296.
  destruct (N.ltb_spec 4294967295 (lenN x)) as [Hb|Hs]; [discriminate|]. intros Hc. split; [lia | exact Hc].
Qed.

(* the machine-level model (header value, reservation, loops with checked indexing): the same round trip, for
   every byte string below 4 GiB - in particular between 2^31 and 2^32 bytes, where the list model's wrapper
   length bytes are not proved equal to the code's *)
Theorem compress13_mm_round_trip m x : wfb x -> lenN x < 2 ^ 32 ->
  exists c, compress13_mm m x = Ok c /\ forall m', lz13_decompress m' c = Ok x.
Proof.
  intros Hw Hn. destruct (compress13_mm_ok m x Hn) as [h Hc].
  destruct (lz13_stream_round_trip h x Hw Hn) as (a & b & c & s & He & _ & Hd).
  rewrite He in Hc. eauto.
Qed.
