(* C11 totality: on arbitrary input, in either arithmetic mode, the decoder and the entry points
   return Ok or Err EInvalidInput - never Panic (no index out of range, no subtraction underflow:
   the repairs of F13 and F14) and never the model's own out-of-fuel value (each round of the outer
   loop consumes a flag byte). *)
From Coq Require Import List NArith Arith Lia Bool ZifyBool ZifyNat ZifyN.
From Mila Require Import Lib.Bytes Lib.Machine Model.LZCore Model.LZSpec Model.LZDecode Proofs.LZBits Proofs.LZDecodeProofs.
Import ListNotations.
Local Open Scope N_scope.

Definition safe {A} (P : A -> Prop) (c : outcome A) : Prop :=
  match c with Ok a => P a | Err e => e = EInvalidInput | Panic _ => False end.

Lemma safe_bind {A B} (P : A -> Prop) (Q : B -> Prop) (c : outcome A) (k : A -> outcome B) :
  safe P c -> (forall a, P a -> safe Q (k a)) -> safe Q (bind c k).
Proof. destruct c as [a|e|p]; cbn [safe bind]; auto; intros []. Qed.

Lemma safe_next bs : safe (fun br => (length (snd br) < length bs)%nat) (next bs).
Proof. destruct bs; cbn [next safe snd length]; [reflexivity | lia]. Qed.

Lemma safe_weaken {A} (P Q : A -> Prop) c : safe P c -> (forall a, P a -> Q a) -> safe Q c.
Proof. destruct c; cbn [safe]; auto. Qed.

Lemma dec_ref_safe lz11 b0 b1 bs :
  safe (fun r => (length (snd r) <= length bs)%nat) (dec_ref lz11 b0 b1 bs).
Proof.
  unfold dec_ref. destruct (negb lz11); [cbn [safe snd]; lia|].
  destruct (1 <? N.shiftr b0 4); [cbn [safe snd]; lia|].
  destruct (N.shiftr b0 4 =? 0).
  - eapply safe_bind; [apply safe_next|]. intros [b2 bs2] H2. cbn [snd] in *. cbn [safe snd]. lia.
  - eapply safe_bind; [apply safe_next|]. intros [b2 bs2] H2. cbn [snd] in *.
    eapply safe_bind; [apply safe_next|]. intros [b3 bs3] H3. cbn [snd] in *. cbn [safe snd]. lia.
Qed.

Lemma bits_loop_safe m lz11 : forall k F bs o size, vwf o ->
  safe (fun r => vwf (snd r) /\ (length (fst r) <= length bs)%nat) (bits_loop m lz11 k F bs o size).
Proof.
  induction k as [|k IH]; intros F bs o size Hw; cbn [bits_loop].
  - cbn [safe fst snd]. split; [exact Hw | lia].
  - destruct (size <=? v_len o); [cbn [safe fst snd]; split; [exact Hw | lia]|].
    destruct (N.land (N.shiftr F (N.of_nat k)) 1 =? 0).
    + eapply safe_bind; [apply safe_next|]. intros [b bs1] H1. cbn [snd] in H1.
      eapply safe_weaken; [apply IH; apply vwf_push; exact Hw|]. intros [r o'] [Hw' Hl]. cbn [fst snd] in *. split; [exact Hw' | lia].
    + eapply safe_bind; [apply safe_next|]. intros [b0 bs1] H1. cbn [snd] in H1.
      eapply safe_bind; [apply safe_next|]. intros [b1 bs2] H2. cbn [snd] in H2.
      eapply safe_bind; [apply dec_ref_safe|]. intros [[len disp] bs3] H3. cbn [snd] in H3.
      destruct (N.leb_spec (v_len o) disp) as [Hbad|Hok]; [reflexivity|].
      rewrite (sub_w_ok W64 m (v_len o) disp) by lia. cbn [bind].
      rewrite (sub_w_ok W64 m (v_len o - disp) 1) by lia. cbn [bind].
      destruct (copy_loop_spec (N.to_nat len) o (v_len o - disp - 1) Hw ltac:(lia)) as (o1 & Hc & Hw1 & _ & _).
      rewrite Hc. cbn [bind].
      eapply safe_weaken; [apply IH; exact Hw1|]. intros [r o'] [Hw' Hl]. cbn [fst snd] in *. split; [exact Hw' | lia].
Qed.

Lemma dec_loop_safe m lz11 : forall fuel bs o size, vwf o -> (length bs < fuel)%nat ->
  safe (fun o' => vwf o') (dec_loop m lz11 fuel bs o size).
Proof.
  induction fuel as [|fuel IH]; intros bs o size Hw Hf; [lia|]. cbn [dec_loop].
  destruct (size <=? v_len o); [exact Hw|].
  eapply safe_bind; [apply safe_next|]. intros [flags bs1] H1. cbn [snd] in H1.
  eapply safe_bind; [apply bits_loop_safe; exact Hw|]. intros [bs2 o1] [Hw1 Hl]. cbn [fst snd] in *.
  apply IH; [exact Hw1 | lia].
Qed.

Theorem decompress_lz_safe m bytes : safe (fun _ => True) (decompress_lz m bytes).
Proof.
  unfold decompress_lz.
  eapply safe_bind; [apply safe_next|]. intros [t bs0] _.
  eapply (safe_bind (fun _ => True)).
  { destruct (t =? 16); [exact I|]. destruct (t =? 17); [exact I | reflexivity]. }
  intros lz11 _.
  eapply safe_bind; [apply safe_next|]. intros [s0 bs1] _.
  eapply safe_bind; [apply safe_next|]. intros [s1 bs2] _.
  eapply safe_bind; [apply safe_next|]. intros [s2 bs3] _.
  eapply (safe_bind (fun _ => True)).
  { destruct (andb _ lz11); [|exact I].
    eapply safe_bind; [apply safe_next|]. intros [t0 r0] _.
    eapply safe_bind; [apply safe_next|]. intros [t1 r1] _.
    eapply safe_bind; [apply safe_next|]. intros [t2 r2] _.
    eapply safe_bind; [apply safe_next|]. intros [t3 r3] _. exact I. }
  intros [size bs4] _.
  eapply safe_bind; [apply dec_loop_safe; [apply vwf_empty | lia]|]. intros o _. exact I.
Qed.

Theorem lz13_decompress_safe m bytes : safe (fun _ => True) (lz13_decompress m bytes).
Proof.
  unfold lz13_decompress. destruct (N.ltb_spec (lenN bytes) 4) as [|H4]; [reflexivity|].
  destruct bytes as [|b0 r]; [unfold lenN in H4; cbn [length] in H4; lia|].
  destruct (b0 =? 0); [exact I|]. apply decompress_lz_safe.
Qed.

Theorem cf_decompress_safe f m bytes : safe (fun _ => True) (cf_decompress f m bytes).
Proof. destruct f; [apply decompress_lz_safe | apply lz13_decompress_safe]. Qed.

Lemma safe_not_panic {A} (c : outcome A) : safe (fun _ => True) c -> (exists a, c = Ok a) \/ c = Err EInvalidInput.
Proof. destruct c as [a|e|p]; cbn [safe]; [eauto | intros ->; auto | intros []]. Qed.

Theorem decoders_total m bytes :
  ((exists a, lz10_decompress m bytes = Ok a) \/ lz10_decompress m bytes = Err EInvalidInput) /\
  ((exists a, lz13_decompress m bytes = Ok a) \/ lz13_decompress m bytes = Err EInvalidInput).
Proof. split; apply safe_not_panic; [apply decompress_lz_safe | apply lz13_decompress_safe]. Qed.

(* ---------------------------------------------------------------- the arithmetic mode is irrelevant *)
(* the only operations that could depend on it are the two subtractions, and they are guarded *)
Lemma bits_loop_mode lz11 : forall k F bs o size,
  bits_loop Checked lz11 k F bs o size = bits_loop Wrapping lz11 k F bs o size.
Proof.
  induction k as [|k IH]; intros F bs o size; cbn [bits_loop]; [reflexivity|].
  destruct (size <=? v_len o); [reflexivity|].
  destruct (N.land (N.shiftr F (N.of_nat k)) 1 =? 0).
  - destruct (next bs) as [[b bs1]|e|p]; cbn [bind]; [apply IH | reflexivity | reflexivity].
  - destruct (next bs) as [[b0 bs1]|e|p]; cbn [bind]; try reflexivity.
    destruct (next bs1) as [[b1 bs2]|e|p]; cbn [bind]; try reflexivity.
    destruct (dec_ref lz11 b0 b1 bs2) as [[[len disp] bs3]|e|p]; cbn [bind]; try reflexivity.
    destruct (N.leb_spec (v_len o) disp) as [|Hok]; [reflexivity|].
    rewrite !(sub_w_ok W64 _ (v_len o) disp) by lia. cbn [bind].
    rewrite !(sub_w_ok W64 _ (v_len o - disp) 1) by lia. cbn [bind].
    destruct (copy_loop (N.to_nat len) o (v_len o - disp - 1)) as [o1|e|p]; cbn [bind]; [apply IH | reflexivity | reflexivity].
Qed.

Lemma dec_loop_mode lz11 : forall fuel bs o size,
  dec_loop Checked lz11 fuel bs o size = dec_loop Wrapping lz11 fuel bs o size.
Proof.
  induction fuel as [|fuel IH]; intros bs o size; cbn [dec_loop]; [reflexivity|].
  destruct (size <=? v_len o); [reflexivity|].
  destruct (next bs) as [[flags bs1]|e|p]; cbn [bind]; try reflexivity.
  rewrite bits_loop_mode. destruct (bits_loop Wrapping lz11 8 flags bs1 o size) as [[bs2 o1]|e|p]; cbn [bind]; [apply IH | reflexivity | reflexivity].
Qed.

Theorem decompress_lz_mode m m' bytes : decompress_lz m bytes = decompress_lz m' bytes.
Proof.
  assert (H : decompress_lz Checked bytes = decompress_lz Wrapping bytes).
  { unfold decompress_lz.
    destruct (next bytes) as [[t bs0]|e|p]; cbn [bind]; try reflexivity.
    destruct (if t =? 16 then Ok false else if t =? 17 then Ok true else Err EInvalidInput) as [lz11|e|p]; cbn [bind]; try reflexivity.
    destruct (next bs0) as [[s0 bs1]|e|p]; cbn [bind]; try reflexivity.
    destruct (next bs1) as [[s1 bs2]|e|p]; cbn [bind]; try reflexivity.
    destruct (next bs2) as [[s2 bs3]|e|p]; cbn [bind]; try reflexivity.
    match goal with |- bind ?c _ = bind ?c _ => destruct c as [[size bs4]|e|p]; cbn [bind]; try reflexivity end.
    rewrite dec_loop_mode. reflexivity. }
  destruct m, m'; congruence.
Qed.

Theorem lz13_decompress_mode m m' bytes : lz13_decompress m bytes = lz13_decompress m' bytes.
Proof.
  unfold lz13_decompress. destruct (lenN bytes <? 4); [reflexivity|]. destruct bytes as [|b0 r]; [reflexivity|].
  destruct (b0 =? 0); [reflexivity|]. apply decompress_lz_mode.
Qed.
