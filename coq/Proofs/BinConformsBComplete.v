(* Completeness of the executable format checker: conforms e f c -> conformsb e f c = true
   (so the checker rejects nothing that the relation admits). *)
From Coq Require Import List NArith ZArith Arith Bool Lia Permutation ZifyBool ZifyNat ZifyN.
From Mila Require Import Lib.Bytes Lib.BytesExtra Lib.Machine Model.BinArchive Model.BinFormat Proofs.AMapLemmas Proofs.BinFormatSpec
  Model.BinConformsB Proofs.BinConformsBSound.
Import ListNotations.
Local Open Scope N_scope.
Ltac Zify.zify_post_hook ::= Z.div_mod_to_equations.

Lemma nodupNb_complete l : NoDup l -> nodupNb l = true.
Proof.
  induction 1 as [|x r Hn Hd IH]; cbn [nodupNb]; [reflexivity|]. rewrite IH, andb_true_r, negb_true_iff.
  destruct (memN x r) eqn:E; [apply memN_In in E; contradiction | reflexivity].
Qed.
Lemma bucket_eqb_refl a : bucket_eqb a a = true.
Proof. induction a as [|x a IH]; cbn [bucket_eqb]; [reflexivity|]. rewrite bytes_eqb_refl, IH. reflexivity. Qed.

Lemma enc4_shape e x : exists b0 b1 b2 b3, enc e 4 x = [b0; b1; b2; b3].
Proof.
  pose proof (length_enc e 4 x) as L. destruct (enc e 4 x) as [|b0 [|b1 [|b2 [|b3 [|b4 r]]]]]; cbn [length] in L; try lia. eauto.
Qed.
Lemma take_u32s_u32s e rest : forall l, Forall (fun x => x < U32) l -> take_u32s e (length l) (u32s e l ++ rest) = Some (l, rest).
Proof.
  induction l as [|x r IH]; intros HF; [reflexivity|]. inversion HF as [|? ? Hx Hr]; subst.
  rewrite u32s_cons, trunc_small by exact Hx. destruct (enc4_shape e x) as (b0 & b1 & b2 & b3 & E).
  assert (D : dec e [b0; b1; b2; b3] = x) by (rewrite <- E; apply dec_enc; exact Hx).
  rewrite E. cbn [length take_u32s app]. rewrite (IH Hr), D. reflexivity.
Qed.
Lemma pair_up_flat ltab : pair_up (flat ltab) = Some ltab.
Proof. induction ltab as [|[a b] r IH]; [reflexivity|]. unfold flat in *. cbn [map concat app fst snd pair_up]. rewrite IH. reflexivity. Qed.
Lemma flat_length ltab : length (flat ltab) = (2 * length ltab)%nat.
Proof. unfold flat. induction ltab as [|x r IH]; cbn [map concat length app]; [reflexivity | rewrite IH; lia]. Qed.
Lemma flat_small ltab : Forall (fun p => fst p < U32 /\ snd p < U32) ltab -> Forall (fun x => x < U32) (flat ltab).
Proof. unfold flat. induction 1 as [|[a b] r [Ha Hb] Hr IH]; cbn [map concat app fst snd]; repeat constructor; assumption. Qed.
Lemma resolve_names_complete f tstart : forall ltab names,
  Forall2 (resolved f tstart) ltab names -> resolve_names f tstart ltab = Some names.
Proof.
  induction 1 as [|[addr off] [k s] r t [H1 H2] HF IH]; [reflexivity|]. cbn [fst snd] in *. subst k.
  cbn [resolve_names]. rewrite H2, IH. reflexivity.
Qed.
Lemma am_get_In_nd {V} (l : amap V) k v : NoDup (map fst l) -> In (k, v) l -> am_get k l = Some v.
Proof.
  induction l as [|[k' v'] r IH]; cbn [map fst am_get]; intros Hd Hin; [destruct Hin|].
  inversion Hd as [|? ? Hn Hd']; subst. destruct Hin as [E|Hin].
  - inversion E; subst. rewrite N.eqb_refl. reflexivity.
  - destruct (N.eqb_spec k k') as [->|_]; [exfalso; apply Hn; apply in_map_iff; exists (k', v); auto | apply IH; assumption].
Qed.

Theorem conformsb_complete e f c : conforms e f c -> conformsb e f c = true.
Proof.
  intros (reserved & ptab & ltab & txt & names & Hf & Hres16 & Hfl & Hpt & Hlt & Hdisj & Hperm & Hptr & Htxt & Hres & Hle & Hgrp).
  cbv zeta in *. set (d := c_data c) in *. set (dsz := lenN d) in *.
  assert (R : lenN reserved = 16) by (unfold lenN; rewrite Hres16; reflexivity).
  assert (Lfl : lenL (flat ltab) = 2 * lenL ltab) by (unfold lenL; rewrite flat_length; lia).
  assert (Hlen : lenN f = 32 + dsz + 4 * lenL ptab + 8 * lenL ltab + lenN txt).
  { rewrite Hf at 1. rewrite !lenN_app, !lenN_enc, !lenN_u32s, Lfl, R. unfold dsz. change (N.of_nat 4) with 4. lia. }
  assert (F4 : u32_at e f 4 = Some dsz).
  { eapply (u32_at_decomp e f (enc e 4 (lenN f))); [exact Hf | rewrite lenN_enc; reflexivity | unfold U32 in *; lia]. }
  assert (F8 : u32_at e f 8 = Some (lenL ptab)).
  { eapply (u32_at_decomp e f (enc e 4 (lenN f) ++ enc e 4 dsz)); [rewrite <- app_assoc; exact Hf | rewrite lenN_app, !lenN_enc; reflexivity | unfold U32 in *; lia]. }
  assert (F12 : u32_at e f 12 = Some (lenL ltab)).
  { eapply (u32_at_decomp e f (enc e 4 (lenN f) ++ enc e 4 dsz ++ enc e 4 (lenL ptab))); [rewrite <- !app_assoc; exact Hf | rewrite !lenN_app, !lenN_enc; reflexivity | unfold U32 in *; lia]. }
  unfold conformsb. cbv zeta. rewrite F4, F8, F12.
  destruct (N.leb_spec (32 + dsz + 4 * lenL ptab + 8 * lenL ltab) (lenN f)) as [_|Hbad]; [|lia].
  (* the sections *)
  set (hdr := enc e 4 (lenN f) ++ enc e 4 dsz ++ enc e 4 (lenL ptab) ++ enc e 4 (lenL ltab)).
  assert (Lh : length hdr = 16%nat) by (unfold hdr; rewrite !app_length, !length_enc; reflexivity).
  assert (Hf2 : f = hdr ++ reserved ++ d ++ u32s e ptab ++ u32s e (flat ltab) ++ txt) by (unfold hdr; rewrite <- !app_assoc; exact Hf).
  assert (Eres : firstn 16 (skipn 16 f) = reserved).
  { rewrite Hf2. rewrite <- Lh at 2. rewrite skipn_app_exact. rewrite <- Hres16. apply firstn_app_exact. }
  assert (Eafter : skipn (N.to_nat (32 + dsz)) f = u32s e ptab ++ u32s e (flat ltab) ++ txt).
  { rewrite Hf2 at 1. rewrite !app_assoc. rewrite <- !(app_assoc ((hdr ++ reserved) ++ d)).
    replace (N.to_nat (32 + dsz)) with (length ((hdr ++ reserved) ++ d)); [apply skipn_app_exact|].
    rewrite !app_length, Lh, Hres16. unfold dsz, lenN. lia. }
  rewrite Eres, Eafter. unfold lenL at 1. rewrite Nat2N.id, (take_u32s_u32s e _ ptab Hpt).
  replace (N.to_nat (2 * lenL ltab)) with (length (flat ltab)) by (rewrite flat_length; unfold lenL; lia).
  rewrite (take_u32s_u32s e txt (flat ltab) (flat_small _ Hlt)), pair_up_flat.
  fold d. fold dsz. rewrite (resolve_names_complete _ _ _ _ Hres).
  (* the conjuncts *)
  unfold check_parts. cbv zeta. fold d. fold dsz. rewrite !andb_true_iff.
  assert (C1 : bytes_eqb f (rebuild e (lenN f) reserved d ptab ltab txt) = true).
  { unfold rebuild. fold dsz. rewrite <- Hf. apply bytes_eqb_refl. }
  destruct Hgrp as [Hnl Hg].
  repeat split.
  - exact C1.
  - apply Nat.eqb_eq, Hres16.
  - apply N.ltb_lt, Hfl.
  - apply forallb_forall. intros x Hx. rewrite Forall_forall in Hpt. apply N.ltb_lt, Hpt, Hx.
  - apply forallb_forall. intros x Hx. rewrite Forall_forall in Hlt. destruct (Hlt x Hx). rewrite andb_true_iff, !N.ltb_lt. auto.
  - apply nodupNb_complete, Hdisj.
  - apply Nat.eqb_eq, Permutation_length, Hperm.
  - apply forallb_forall. intros k Hk. apply memN_In. eapply Permutation_in; [apply Permutation_sym, Hperm | exact Hk].
  - apply forallb_forall. intros [cell dest] Hin. destruct (Hptr cell dest Hin) as [Hu Hd]. unfold check_ptr. cbn [fst snd].
    rewrite Hu. cbn [oN_eqb]. rewrite N.eqb_refl. apply N.leb_le, Hd.
  - apply forallb_forall. intros [cell s] Hin. destruct (Htxt cell s Hin) as (v & Hu & Hv & Hs). unfold check_str. cbn [fst snd].
    rewrite Hu, Hs. cbn [ob_eqb]. rewrite bytes_eqb_refl, andb_true_r. apply N.ltb_lt, Hv.
  - apply forallb_forall. intros x Hx. rewrite Forall_forall in Hle. apply N.leb_le, Hle, Hx.
  - apply nodupNb_complete, Hnl.
  - apply forallb_forall. intros addr _. unfold check_addr. destruct (Hg addr) as [E _]. rewrite E. apply bucket_eqb_refl.
  - apply forallb_forall. intros [k b] Hin. cbn [snd]. destruct b; [|reflexivity].
    destruct (Hg k) as [_ Hne]. exfalso. apply Hne. apply am_get_In_nd; assumption.
Qed.

Theorem conformsb_spec e f c : conformsb e f c = true <-> conforms e f c.
Proof. split; [apply conformsb_sound | apply conformsb_complete]. Qed.
