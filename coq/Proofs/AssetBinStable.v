(* C18 / C05: whatever AssetBinary::from_archive returns - from ANY archive with byte-valued data, also a foreign or
   malformed one - is in the domain of the round trip (33 + 18 fields, 32-bit values, NORMAL FORM: the reader starts from
   Default and sets value and use flag together) and hence a fixed point of write -> read. *)
From Coq Require Import List NArith ZArith Bool Lia ZifyBool ZifyNat ZifyN Arith.
From Mila Require Import Lib.Bytes Lib.BytesExtra Lib.Machine Model.BinArchive Model.BinStreams Model.BinFormat Model.AssetBin
  Proofs.AMapLemmas Proofs.BinAccess Proofs.BinAccess2 Proofs.BinTotal Proofs.RecsCells Proofs.AssetBinSchema Proofs.AssetBinFlags
  Proofs.AssetBinWrite Proofs.AssetBinRead Proofs.AssetBinRoundTrip Proofs.AssetBinBytes.
Import ListNotations.
Local Open Scope N_scope.
Ltac Zify.zify_post_hook ::= Z.div_mod_to_equations.

(* ---- values read from byte-valued data are 32-bit ---- *)
Lemma r_read_u32_bound a p v p' : wfb (a_data a) -> r_read_u32 a p = (Ok v, p') -> v < 2 ^ 32.
Proof.
  intros Hw. unfold r_read_u32, read_u32. rewrite read_uint_spec. change (N.of_nat 4) with 4.
  destruct (inside a p 4); [|discriminate]. destruct (sliceN p 4 (a_data a)) as [s|] eqn:S; [|discriminate].
  cbn [rd]. intros E. inversion E; subst.
  pose proof (wfb_sliceN _ _ _ _ Hw S) as Ws. pose proof (sliceN_length _ _ _ _ S) as Ls.
  pose proof (dec_bound (a_endian a) s Ws) as B. replace (length s) with 4%nat in B by (unfold lenN in Ls; lia). exact B.
Qed.
Lemma read_color_bound a p v p' : wfb (a_data a) -> read_color a p = (Ok v, p') -> v < 2 ^ 32.
Proof.
  intros Hw. unfold read_color, r_read_bytes.
  destruct (r_read_bytes_loop _ a p []) as [[bs|e|k] q] eqn:E; [|discriminate|discriminate].
  apply r_read_bytes_loop_spec in E. destruct E as (_ & _ & Ebs). cbn [rev app] in Ebs.
  assert (Wb : wfb bs) by (rewrite Ebs; apply wfb_firstn, wfb_skipn, Hw).
  destruct bs as [|b0 [|b1 [|b2 [|b3 [|b4 r]]]]]; try discriminate. intros H. inversion H; subst.
  pose proof (dec_le_bound (swap02 [b0; b1; b2; b3]) (wfb_swap02 _ Wb)) as B. exact B.
Qed.
Lemma read_typed_bound k a p v p' : wfb (a_data a) -> read_typed k a p = (Ok v, p') -> v < 2 ^ 32.
Proof.
  intros Hw. destruct k; cbn [read_typed].
  - apply read_color_bound; exact Hw.
  - exact (r_read_u32_bound a p v p' Hw).
  - apply r_read_u32_bound; exact Hw.
Qed.

(* ---- the invariant: the boolean form of wf_spec ---- *)
Definition typed_okb (p : bool * N) : bool := andb (snd p <? 2 ^ 32) (orb (fst p) (snd p =? 0)).
Lemma wf_specb_eq sp :
  wf_specb sp = andb (andb (length (sp_strs sp) =? N_STRS)%nat (length (sp_typed sp) =? N_TYPED)%nat) (forallb typed_okb (sp_typed sp)).
Proof. reflexivity. Qed.

Lemma forallb_upd {A} (P : A -> bool) n f l :
  forallb P l = true -> (forall x, P (f x) = true) -> forallb P (upd n f l) = true.
Proof.
  revert n; induction l as [|x r IH]; intros n H Hf; [destruct n; reflexivity|]. cbn [forallb] in H. apply andb_true_iff in H. destruct H as [Hx Hr].
  destruct n as [|n]; cbn [upd forallb]; apply andb_true_iff; split; auto.
Qed.
Lemma upd_upd_same {A} n (f g : A -> A) l : upd n g (upd n f l) = upd n (fun x => g (f x)) l.
Proof. revert n; induction l as [|x r IH]; intros n; [destruct n; reflexivity|]. destruct n as [|n]; cbn [upd]; [reflexivity | rewrite IH; reflexivity]. Qed.

Lemma set_str_wf t v sp : wf_specb sp = true -> wf_specb (set_str t v sp) = true.
Proof. rewrite !wf_specb_eq. cbn [set_str sp_strs sp_typed]. rewrite length_upd. auto. Qed.
Lemma set_name_wf v sp : wf_specb sp = true -> wf_specb (set_name v sp) = true.
Proof. rewrite !wf_specb_eq. cbn [set_name sp_strs sp_typed]. auto. Qed.
Lemma set_val_use_wf t v sp : v < 2 ^ 32 -> wf_specb sp = true -> wf_specb (set_val t v (set_use t sp)) = true.
Proof.
  intros Hv. rewrite !wf_specb_eq. cbn [set_val set_use sp_strs sp_typed]. rewrite upd_upd_same, length_upd.
  rewrite !andb_true_iff. intros [[H1 H2] H3]. split; [split; assumption|].
  apply forallb_upd; [exact H3|]. intros x. unfold typed_okb. cbn [fst snd orb]. rewrite andb_true_r. apply N.ltb_lt. exact Hv.
Qed.

(* every typed entry of the reader tables sets the use flag and the value of the SAME field *)
Definition entry_sameb (e : rentry) : bool :=
  match e with RStr _ _ => true | RTyped _ _ ut vt _ => (ut =? vt)%nat end.
Lemma tables_same : forallb entry_sameb r_base = true /\ forallb entry_sameb r_ext = true.
Proof. split; vm_compute; reflexivity. Qed.

Lemma read_entries_wf a flags : wfb (a_data a) -> forall es sp p sp' p',
  forallb entry_sameb es = true -> wf_specb sp = true ->
  read_entries a flags es sp p = Ok (sp', p') -> wf_specb sp' = true.
Proof.
  intros Hw. induction es as [|e r IH]; intros sp p sp' p' Hs W H; cbn [read_entries] in H.
  - inversion H; subst. exact W.
  - cbn [forallb] in Hs. apply andb_true_iff in Hs. destruct Hs as [He Hr].
    destruct e as [t idx|b mask ut vt k]; cbn [entry_sameb] in He.
    + destruct (read_flag_str a p flags idx) as [[v|e|pk] p1]; try discriminate.
      exact (IH _ _ _ _ Hr (set_str_wf t v sp W) H).
    + apply Nat.eqb_eq in He. subst vt. destruct (nth_error flags b) as [fb|]; [|discriminate].
      destruct (N.land fb mask =? 0); [exact (IH _ _ _ _ Hr W H)|].
      destruct (read_typed k a p) as [[v|e|pk] p1] eqn:R; try discriminate.
      exact (IH _ _ _ _ Hr (set_val_use_wf ut v sp (read_typed_bound k a p v p1 Hw R) W) H).
Qed.

Theorem from_stream_wf a p sp p' : wfb (a_data a) -> from_stream a p = Ok (sp, p') -> wf_spec sp.
Proof.
  intros Hw H. apply wf_specb_sound. unfold from_stream, from_stream_with in H.
  destruct (r_read_u8 a p) as [[raw|e|k] p1]; try discriminate.
  destruct (r_read_bytes a p1 _) as [[rest|e|k] p2]; try discriminate.
  destruct (r_read_string a p2) as [[name|e|k] p3]; try discriminate.
  assert (W0 : wf_specb (set_name name spec_default) = true) by (apply set_name_wf; vm_compute; reflexivity).
  destruct (read_entries a (raw :: rest) r_base (set_name name spec_default) p3) as [[sp1 q1]|e|k] eqn:R1; cbn [bind fst snd] in H; try discriminate.
  pose proof (read_entries_wf a _ Hw _ _ _ _ _ (proj1 tables_same) W0 R1) as W1.
  destruct (3 <? _).
  - exact (read_entries_wf a _ Hw _ _ _ _ _ (proj2 tables_same) W1 H).
  - inversion H; subst. exact W1.
Qed.

Lemma read_specs_wf a : wfb (a_data a) -> forall fuel p acc l,
  Forall wf_spec acc -> read_specs_with r_base r_ext fuel a p acc = Ok l -> Forall wf_spec l.
Proof.
  intros Hw. induction fuel as [|fuel IH]; intros p acc l Hacc H; cbn [read_specs_with] in H; [discriminate|].
  destruct (from_stream_with r_base r_ext a p) as [[sp q]|e|k] eqn:S.
  - apply (IH _ _ _ (Forall_cons _ (from_stream_wf a p sp q Hw S) Hacc) H).
  - inversion H; subst. apply Forall_rev. exact Hacc.
  - discriminate.
Qed.

(* the reader's range lies in the domain of the round trip ... *)
Theorem from_archive_wf a b : wfb (a_data a) -> from_archive a = Ok b -> wf_bin b.
Proof.
  intros Hw H. unfold from_archive, from_archive_with in H.
  destruct (r_read_u32 a 0) as [[fl|e|k] p] eqn:R; try discriminate.
  destruct (read_specs_with r_base r_ext _ a p []) as [specs|e|k] eqn:S; cbn [bind] in H; try discriminate.
  inversion H; subst. split; cbn [ab_flags ab_specs].
  - exact (r_read_u32_bound a 0 fl p Hw R).
  - exact (read_specs_wf a Hw _ _ _ _ (Forall_nil _) S).
Qed.
(* ... hence whatever it returns is a fixed point of write -> read *)
Theorem reader_output_round_trips a b : wfb (a_data a) -> from_archive a = Ok b ->
  wf_bin b /\ exists a', build b = Ok a' /\ from_archive a' = Ok b.
Proof. intros Hw H. pose proof (from_archive_wf a b Hw H) as W. split; [exact W | exact (round_trip_archive b W)]. Qed.

(* every byte string *)
Lemma from_bytes_data_wfb e f a : wfb f -> BinFormat.from_bytes e f = Ok a -> wfb (a_data a).
Proof.
  intros Hw. unfold BinFormat.from_bytes, from_bytes_alloc, u32_file. intros H.
  apply bind_Ok_inv in H. destruct H as ([a0 r] & H & E). inversion E; subst a0. clear E. cbn [fst].
  destruct (lenN f <? 32); [discriminate|].
  destruct (u32_at e f 4) as [dsz|]; cbn [of_option bind] in H; [|discriminate].
  destruct (u32_at e f 8) as [pc|]; cbn [of_option bind] in H; [|discriminate].
  destruct (u32_at e f 12) as [lc|]; cbn [of_option bind] in H; [|discriminate].
  destruct (lenN f <? dsz + 4 * pc + 8 * lc + 32); [discriminate|].
  destruct (sliceN 32 dsz f) as [d|] eqn:Es; cbn [of_option bind] in H; [|discriminate].
  apply bind_Ok_inv in H. destruct H as (a1 & H1 & H). apply bind_Ok_inv in H. destruct H as (a2 & H2 & H).
  inversion H; subst a2 r. apply ptr_loop_keeps in H1. apply lbl_loop_keeps in H2. cbn [a_data] in H1.
  destruct H1 as [D1 _]. destruct H2 as [D2 _]. rewrite D2, D1. exact (wfb_sliceN _ _ _ _ Hw Es).
Qed.
Theorem parse_output_round_trips f b : wfb f -> parse f = Ok b ->
  wf_bin b /\ exists a', build b = Ok a' /\ from_archive a' = Ok b.
Proof.
  intros Hw. unfold parse. destruct (BinFormat.from_bytes LE f) as [a|e|k] eqn:E; cbn [bind]; try discriminate.
  apply reader_output_round_trips. exact (from_bytes_data_wfb LE f a Hw E).
Qed.
