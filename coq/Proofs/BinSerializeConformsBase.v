(* C01, serialize half - part 1: generic ingredients.
   sums invariant under permutation, the text-pool invariant of add_text, slices of
   concatenations, poke_u32. *)
From Coq Require Import List NArith ZArith Arith Bool Lia Permutation ZifyBool ZifyNat ZifyN.
From Mila Require Import Lib.Bytes Lib.BytesExtra Lib.Machine Model.BinArchive Model.BinFormat
  Proofs.AMapLemmas Proofs.SortLemmas Proofs.BinFormatSpec.
Import ListNotations.
Local Open Scope N_scope.
Ltac Zify.zify_post_hook ::= Z.div_mod_to_equations.

(* ------------------------------------------------------------------ sums *)
Definition sumf {A} (f : A -> N) (l : list A) : N := fold_right (fun x acc => f x + acc) 0 l.

Lemma sumf_app {A} (f : A -> N) l l' : sumf f (l ++ l') = sumf f l + sumf f l'.
Proof. induction l as [|x r IH]; cbn [app sumf fold_right]; [reflexivity|]. fold (sumf f (r ++ l')). fold (sumf f r). rewrite IH. lia. Qed.
Lemma sumf_cons {A} (f : A -> N) x l : sumf f (x :: l) = f x + sumf f l.
Proof. reflexivity. Qed.
Lemma sumf_perm {A} (f : A -> N) l l' : Permutation l l' -> sumf f l = sumf f l'.
Proof. induction 1; rewrite ?sumf_cons in *; lia. Qed.
Lemma sumf_In_le {A} (f : A -> N) l x : In x l -> f x <= sumf f l.
Proof. induction l as [|y r IH]; intros []; rewrite sumf_cons; [subst; lia | specialize (IH H); lia]. Qed.
Lemma lenL_sumf {A} (l : list A) : lenL l = sumf (fun _ => 1) l.
Proof. unfold lenL. induction l as [|x r IH]; [reflexivity|]. rewrite sumf_cons, <- IH. cbn [length]. lia. Qed.
Lemma lenL_app {A} (l l' : list A) : lenL (l ++ l') = lenL l + lenL l'.
Proof. unfold lenL. rewrite app_length. lia. Qed.
Lemma lenL_perm {A} (l l' : list A) : Permutation l l' -> lenL l = lenL l'.
Proof. intros H. unfold lenL. rewrite (Permutation_length H). reflexivity. Qed.
Lemma lenL_map {A B} (g : A -> B) (l : list A) : lenL (map g l) = lenL l.
Proof. unfold lenL. rewrite map_length. reflexivity. Qed.
Lemma lenL_concat {A} (l : list (list A)) : lenL (concat l) = sumf (fun x => lenL x) l.
Proof. induction l as [|x r IH]; cbn [concat]; [reflexivity|]. rewrite lenL_app, sumf_cons, IH. reflexivity. Qed.

(* ------------------------------------------------------------------ the text pool *)
(* [s] followed by a NUL stands at offset [off] of [raw] *)
Definition holds (raw : bytes) (off : N) (s : bytes) : Prop :=
  exists pre post, raw = pre ++ s ++ 0 :: post /\ lenN pre = off.

Lemma holds_app raw ext off s : holds raw off s -> holds (raw ++ ext) off s.
Proof. intros (pre & post & -> & L). exists pre, (post ++ ext). split; [|exact L]. rewrite <- !app_assoc. reflexivity. Qed.
Lemma holds_bound raw off s : holds raw off s -> off + lenN s + 1 <= lenN raw.
Proof. intros (pre & post & -> & <-). rewrite !lenN_app, lenN_cons. lia. Qed.
Lemma holds_cstr_atN f pre raw post off s :
  f = pre ++ raw ++ post -> holds raw off s -> ~ In 0 s -> cstr_atN f (lenN pre + off) = Some s.
Proof.
  intros -> (p1 & p2 & -> & <-) Hn. apply (cstr_atN_decomp _ (pre ++ p1) s (p2 ++ post)); [| rewrite lenN_app; reflexivity | exact Hn].
  rewrite <- !app_assoc. reflexivity.
Qed.

Definition pool_ok (p : pool) : Prop :=
  p_len p = lenN (p_raw p) /\ forall s off, In (s, off) (p_offs p) -> holds (p_raw p) off s.
Definition pext (p p' : pool) : Prop := exists ext, p_raw p' = p_raw p ++ ext.

Lemma pool_ok_empty : pool_ok pool_empty.
Proof. split; [reflexivity | intros s off []]. Qed.
Lemma pext_refl p : pext p p.
Proof. exists []. rewrite app_nil_r. reflexivity. Qed.
Lemma pext_trans p q r : pext p q -> pext q r -> pext p r.
Proof. intros [x Hx] [y Hy]. exists (x ++ y). rewrite Hy, Hx, <- app_assoc. reflexivity. Qed.
Lemma holds_pext p p' off s : pext p p' -> holds (p_raw p) off s -> holds (p_raw p') off s.
Proof. intros [x ->]. apply holds_app. Qed.
Lemma pext_len p p' : pext p p' -> lenN (p_raw p) <= lenN (p_raw p').
Proof. intros [x ->]. rewrite lenN_app. lia. Qed.

Lemma offs_get_In s o off : offs_get s o = Some off -> In (s, off) o.
Proof.
  induction o as [|[s' o'] r IH]; cbn [offs_get]; [discriminate|].
  destruct (bytes_eqb_spec s s') as [E|E]; [intros H; inversion H; subst; left; reflexivity | intros H; right; apply IH, H].
Qed.

Lemma add_text_spec p s p' off : pool_ok p -> add_text p s = (p', off) ->
  pool_ok p' /\ pext p p' /\ holds (p_raw p') off s /\ p_len p' <= p_len p + lenN s + 1 /\
  (wfb (p_raw p) -> wfb s -> wfb (p_raw p')).
Proof.
  intros [HL HO]. unfold add_text. destruct (offs_get s (p_offs p)) as [o|] eqn:G; intros H; inversion H; subst; clear H.
  - split; [split; assumption|]. split; [apply pext_refl|]. split; [apply HO, offs_get_In, G|]. split; [lia | auto].
  - unfold pool_ok, pext. cbn [p_raw p_len p_offs]. split; [split|].
    + rewrite !lenN_app. change (lenN [0]) with 1. lia.
    + intros s' o' Hin. apply in_app_or in Hin. destruct Hin as [Hin|[E|[]]].
      * apply holds_app, HO, Hin.
      * inversion E; subst. exists (p_raw p), []. split; [reflexivity | symmetry; exact HL].
    + split; [exists (s ++ [0]); reflexivity|]. split; [exists (p_raw p), []; split; [reflexivity | symmetry; exact HL]|].
      split; [lia|]. intros W1 W2. apply wfb_app; [exact W1|]. apply wfb_app; [exact W2 | repeat constructor; lia].
Qed.

(* ------------------------------------------------------------------ slices of concatenations *)
Lemma sliceN_app_l off len a b : off + len <= lenN a -> sliceN off len (a ++ b) = sliceN off len a.
Proof.
  intros H. unfold sliceN. rewrite lenN_app.
  destruct (N.leb_spec (off + len) (lenN a + lenN b)); [|lia]. destruct (N.leb_spec (off + len) (lenN a)); [|lia].
  f_equal. rewrite skipn_app, firstn_app. unfold lenN in H.
  replace (N.to_nat off - length a)%nat with O by lia. cbn [skipn].
  replace (N.to_nat len - length (skipn (N.to_nat off) a))%nat with O by (rewrite skipn_length; lia).
  cbn [firstn]. apply app_nil_r.
Qed.
Lemma sliceN_app_r off len a b : lenN a <= off -> sliceN off len (a ++ b) = sliceN (off - lenN a) len b.
Proof.
  intros H. unfold sliceN. rewrite lenN_app.
  destruct (N.leb_spec (off + len) (lenN a + lenN b)); destruct (N.leb_spec (off - lenN a + len) (lenN b)); try lia; [|reflexivity].
  f_equal. rewrite skipn_app. unfold lenN in *. rewrite skipn_all2 by lia. cbn [app].
  replace (N.to_nat (off - N.of_nat (length a))) with (N.to_nat off - length a)%nat by lia. reflexivity.
Qed.
Lemma u32_at_app_l e off a b : off + 4 <= lenN a -> u32_at e (a ++ b) off = u32_at e a off.
Proof. intros H. unfold u32_at. rewrite sliceN_app_l by exact H. reflexivity. Qed.

(* replacing a block by one of the same length does not change slices that avoid it *)
Lemma sliceN_mid_swap off len A X Y B :
  lenN X = lenN Y -> off + len <= lenN A \/ lenN A + lenN X <= off ->
  sliceN off len (A ++ X ++ B) = sliceN off len (A ++ Y ++ B).
Proof.
  intros HL [H|H].
  - rewrite !sliceN_app_l by exact H. reflexivity.
  - rewrite !(app_assoc A). rewrite !sliceN_app_r by (rewrite lenN_app; lia). rewrite !lenN_app, HL. reflexivity.
Qed.
Lemma nth_error_mid_swap {T} i (A X Y B : list T) :
  length X = length Y -> (i < length A \/ length A + length X <= i)%nat ->
  nth_error (A ++ X ++ B) i = nth_error (A ++ Y ++ B) i.
Proof.
  intros HL [H|H].
  - rewrite !nth_error_app1 by exact H. reflexivity.
  - rewrite !(nth_error_app2 A) by lia. rewrite !nth_error_app2 by lia. rewrite HL. reflexivity.
Qed.

(* ------------------------------------------------------------------ poke_u32 *)
Lemma skipn_plus {T} m : forall n (l : list T), skipn (n + m) l = skipn n (skipn m l).
Proof.
  induction m as [|m IH]; intros n l; [rewrite Nat.add_0_r; reflexivity|].
  destruct l as [|x l]; [rewrite !skipn_nil; reflexivity|]. rewrite Nat.add_succ_r. cbn [skipn]. apply IH.
Qed.
Lemma poke_decomp e d c v : c + 4 <= lenN d ->
  exists A old B, d = A ++ old ++ B /\ lenN A = c /\ lenN old = 4 /\
                  poke_u32 e d c v = Ok (A ++ enc e 4 (trunc_w 32 v) ++ B).
Proof.
  intros H. exists (firstn (N.to_nat c) d), (firstn 4 (skipn (N.to_nat c) d)), (skipn (N.to_nat (c + 4)) d).
  split; [|split; [|split]].
  - replace (N.to_nat (c + 4)) with (4 + N.to_nat c)%nat by lia. rewrite skipn_plus.
    rewrite firstn_skipn, firstn_skipn. reflexivity.
  - apply lenN_firstn. lia.
  - unfold lenN in *. rewrite firstn_length, skipn_length. lia.
  - unfold poke_u32. destruct (N.leb_spec (c + 4) (lenN d)); [reflexivity | lia].
Qed.

Definition sep (c c' : N) : Prop := c + 4 <= c' \/ c' + 4 <= c.
Lemma sep_sym c c' : sep c c' -> sep c' c.
Proof. unfold sep. tauto. Qed.

Lemma poke_spec e d c v : c + 4 <= lenN d ->
  exists d', poke_u32 e d c v = Ok d' /\ lenN d' = lenN d /\
    u32_at e d' c = Some (trunc_w 32 v) /\
    (forall c', sep c c' -> u32_at e d' c' = u32_at e d c') /\
    (forall i, (i < N.to_nat c \/ N.to_nat c + 4 <= i)%nat -> nth_error d' i = nth_error d i) /\
    (wfb d -> wfb d').
Proof.
  intros H. destruct (poke_decomp e d c v H) as (A & old & B & -> & LA & Lo & ->). eexists. split; [reflexivity|].
  assert (Le : lenN (enc e 4 (trunc_w 32 v)) = lenN old) by (rewrite Lo, lenN_enc; reflexivity).
  split; [|split; [|split; [|split]]].
  - rewrite !lenN_app, Le. reflexivity.
  - rewrite <- LA. apply u32_at_app_exact. unfold trunc_w, maxw. apply N.mod_lt. lia.
  - intros c' Hs. unfold u32_at. rewrite (sliceN_mid_swap c' 4 A _ old B Le); [reflexivity|].
    rewrite Le, Lo, LA. unfold sep in Hs. lia.
  - intros i Hi. apply nth_error_mid_swap; [apply lenN_length, Le|].
    unfold lenN in *. rewrite length_enc. lia.
  - intros W. apply wfb_app_inv in W. destruct W as [WA W]. apply wfb_app_inv in W. destruct W as [_ WB].
    apply wfb_app; [exact WA|]. apply wfb_app; [apply wfb_enc | exact WB].
Qed.
