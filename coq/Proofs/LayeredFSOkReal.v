(* The success criterion of write (Proofs/LayeredFSOk.v) for the models of mila's real codecs: below 16 MiB the codec
   never refuses a payload, so success depends on the path and the top layer only. *)
From Coq Require Import List NArith Bool Arith.
From Mila Require Import Lib.Bytes Lib.Machine Model.Localize Proofs.LocalizeProofs Model.LayeredFS
  Proofs.LayeredFSBase Proofs.LayeredFSStack Proofs.LayeredFSOk Proofs.LayeredFSCodec.
Import ListNotations.
Local Open Scope N_scope.

Theorem real_write_ok_iff mc ls l g S p b loc : fs_new ls l g = FOk S -> lenN b < 2 ^ 24 ->
  (snd (fs_write (real_compress mc) S p b loc) = FOk tt <->
   exists s pp, fs_addr S p loc = FOk (s, (pp, false)) /\
     let top := last (layers S) [] in
     (forall q, In q (proper_prefixes pp) -> is_file_at top q = false) /\ l_get top pp <> Some Dir).
Proof.
  intros Hn Hb. rewrite write_ok_iff. split.
  - intros (s & pp & c & A & _ & _ & H). eauto.
  - intros (s & pp & A & H). destruct (real_encode_ok mc S p b Hb) as [c Hc]. exists s, pp, c.
    split; [exact A|]. split; [exact Hc|]. split; [eapply fs_new_layers; eauto | exact H].
Qed.
