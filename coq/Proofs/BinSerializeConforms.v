(* C01, serialize half - part 3: BinArchive::serialize writes an image that conforms to the
   format (Proofs/BinFormatSpec.v) and carries the archive's published content.

   wf_archive, fits32 and published are written from the property's quantifier:
   "all archives with non-overlapping 4-byte cells, at most one pointer/string/c-string
   annotation per cell, pointer targets within the data, label addresses <= size, strings and
   c-strings mixed freely".  No alignment of the data length is assumed. *)
From Coq Require Import List NArith ZArith Arith Bool Lia Permutation ZifyBool ZifyNat ZifyN.
From Mila Require Import Lib.Bytes Lib.BytesExtra Lib.Machine Model.BinArchive Model.BinFormat
  Proofs.AMapLemmas Proofs.SortLemmas Proofs.BinFormatSpec
  Proofs.BinSerializeConformsBase Proofs.BinSerializeConformsPhases.
Import ListNotations.
Local Open Scope N_scope.
Ltac Zify.zify_post_hook ::= Z.div_mod_to_equations.

(* ------------------------------------------------------------------ the domain *)
Definition cs_cells (a : archive) : list N := concat (map snd (a_cstrs a)).
(* every annotated 4-byte cell: pointers, strings, pending c-strings *)
Definition cells (a : archive) : list N := map fst (a_ptrs a) ++ map fst (a_text a) ++ cs_cells a.

Record wf_archive (a : archive) : Prop := {
  (* at most one annotation per cell (in particular the keys of each map are distinct) *)
  wf_cells_nodup : NoDup (cells a);
  wf_cells_in : forall c, In c (cells a) -> c + 4 <= size a;
  (* cells do not overlap *)
  wf_cells_sep : forall c c', In c (cells a) -> In c' (cells a) -> c <> c' -> sep c c';
  wf_targets : forall c t, In (c, t) (a_ptrs a) -> t <= size a;
  wf_label_keys : NoDup (map fst (a_labels a));
  wf_labels : forall k b, In (k, b) (a_labels a) -> k <= size a /\ b <> [] /\ Forall (fun l => ~ In 0 l /\ wfb l) b;
  wf_strings : forall c s, In (c, s) (a_text a) -> ~ In 0 s /\ wfb s;
  (* the shape cs_push builds *)
  wf_cstr_keys : NoDup (map fst (a_cstrs a));
  wf_cstrs : forall s cs, In (s, cs) (a_cstrs a) -> cs <> [] /\ ~ In 0 s /\ wfb s;
  wf_data : wfb (a_data a) }.

(* a simple upper bound of the image size: data, c-string pool (+ padding), 4 bytes per pointer-table
   entry, 8 per label, every label name and string once with its terminator, header *)
Definition ser_bound (a : archive) : N :=
  size a + (sumf (fun sc => lenN (fst sc) + 1) (a_cstrs a) + 3)
  + 4 * (lenL (a_ptrs a) + sumf (fun sc => lenL (snd sc)) (a_cstrs a) + lenL (a_text a))
  + 8 * sumf (fun kb => lenL (snd kb)) (a_labels a)
  + sumf (fun kb => sumf (fun l => lenN l + 1) (snd kb)) (a_labels a)
  + sumf (fun cs => lenN (snd cs) + 1) (a_text a) + 32.
(* every number written `as u32` fits *)
Definition fits32 (a : archive) : Prop := ser_bound a < U32.

(* ------------------------------------------------------------------ the phases of serialize, named *)
Section Named.
Variable kf : name_key.   (* the sort key of label names (Model/BinFormat.v) *)
Variable a : archive.
Definition cs_sorted := isort (fun x y : bytes * list N => bytes_leb (fst x) (fst y)) (a_cstrs a).
Definition cs_run := cstr_pool (size a) cs_sorted pool_empty [].
Definition cs_ptrs : list (N * N) := snd cs_run.            (* one pointer per pending c-string cell, into the pool *)
Definition pool_bytes : bytes := pad_to 4 (p_raw (fst cs_run)).   (* the padded c-string pool *)
Definition all_ptrs := isort (fun x y : N * N => fst x <=? fst y) (a_ptrs a ++ cs_ptrs).
Definition lab_sorted := isort (label_leb kf (a_endian a)) (a_labels a).
Definition lab_run := emit_labels lab_sorted pool_empty [].
Definition txt_sorted := isort (fun x y : N * bytes => fst x <=? fst y) (a_text a).
Definition text_start : N :=
  size a + lenN pool_bytes
  + (N.of_nat (length (map fst all_ptrs)) + N.of_nat (length (a_text a)) + N.of_nat (length (snd lab_run))) * 4.
Definition ser_data : outcome (bytes * pool * list (N * list N)) :=
  d1 <- poke_all (a_endian a) (a_data a) all_ptrs ;;
  emit_text (a_endian a) text_start txt_sorted d1 (fst lab_run) [].

(* the data region of the image: the data with every pointer / c-string / string cell filled in,
   followed by the padded c-string pool *)
Definition data_region : bytes :=
  match ser_data with
  | Ok (d2, _, _) => d2 ++ pool_bytes
  | _ => a_data a ++ pool_bytes
  end.

Definition published : content :=
  {| c_data := data_region; c_ptrs := a_ptrs a ++ cs_ptrs; c_text := a_text a; c_labels := a_labels a |}.

Definition assemble (m : mode) (r : bytes * pool * list (N * list N)) : outcome bytes :=
  let '(d2, tpool2, groups) := r in
  let e := a_endian a in
  let raw_labels := snd lab_run in
  let raw_pointers := map fst all_ptrs ++ concat (map (fun g => isort N.leb (map (trunc_w 32) (snd g))) groups) in
  let file_size := size a + lenN pool_bytes + N.of_nat (length raw_pointers) * 4
                   + N.of_nat (length raw_labels) * 4 + p_len tpool2 + 32 in
  _ <- guard (file_size <=? 4294967295) EOther ;;
  dsz <- add_w 32 m (trunc_w 32 (size a)) (trunc_w 32 (lenN pool_bytes)) ;;
  Ok (enc e 4 (trunc_w 32 file_size) ++ enc e 4 dsz ++ enc e 4 (trunc_w 32 (N.of_nat (length raw_pointers)))
      ++ enc e 4 (trunc_w 32 (N.of_nat (length raw_labels) / 2)) ++ zeros 16
      ++ d2 ++ pool_bytes ++ u32s e raw_pointers ++ u32s e raw_labels ++ p_raw tpool2).

(* the length of the image assemble builds (exact: BinSerializeConforms.assemble_length) *)
Definition file_size_of (r : bytes * pool * list (N * list N)) : N :=
  let '(d2, tpool2, groups) := r in
  size a + lenN pool_bytes
  + N.of_nat (length (map fst all_ptrs ++ concat (map (fun g => isort N.leb (map (trunc_w 32) (snd g))) groups))) * 4
  + N.of_nat (length (snd lab_run)) * 4 + p_len tpool2 + 32.
(* the size of the image of a: what the guard of serialize compares with u32::MAX (0 if the data phase failed, which it does
   not on well-formed archives: ser_facts) *)
Definition image_size : N := match ser_data with Ok r => file_size_of r | _ => 0 end.

Lemma assemble_guard m r : assemble m r =
  if file_size_of r <=? 4294967295 then
    let '(d2, tpool2, groups) := r in
    let e := a_endian a in
    let raw_labels := snd lab_run in
    let raw_pointers := map fst all_ptrs ++ concat (map (fun g => isort N.leb (map (trunc_w 32) (snd g))) groups) in
    dsz <- add_w 32 m (trunc_w 32 (size a)) (trunc_w 32 (lenN pool_bytes)) ;;
    Ok (enc e 4 (trunc_w 32 (file_size_of r)) ++ enc e 4 dsz ++ enc e 4 (trunc_w 32 (N.of_nat (length raw_pointers)))
        ++ enc e 4 (trunc_w 32 (N.of_nat (length raw_labels) / 2)) ++ zeros 16
        ++ d2 ++ pool_bytes ++ u32s e raw_pointers ++ u32s e raw_labels ++ p_raw tpool2)
  else Err EOther.
Proof.
  destruct r as [[d2 tpool2] groups]. unfold assemble, file_size_of, guard.
  destruct (_ <=? 4294967295); reflexivity.
Qed.
(* above u32::MAX the request is rejected, in both profiles, before any `as u32` is used *)
Lemma assemble_rejects m r : 4294967296 <= file_size_of r -> assemble m r = Err EOther.
Proof. intros H. rewrite assemble_guard. destruct (N.leb_spec (file_size_of r) 4294967295); [lia | reflexivity]. Qed.

Lemma serialize_unfold m : serialize_k kf m a = r <- ser_data ;; assemble m r.
Proof.
  unfold serialize_k, ser_data, assemble, text_start, all_ptrs, pool_bytes, cs_ptrs, lab_run, cs_run, lab_sorted, txt_sorted, cs_sorted.
  destruct (cstr_pool _ _ _ _) as [cpool cptrs]. cbn [fst snd].
  destruct (poke_all _ _ _) as [d1| |]; cbn [bind]; try reflexivity.
  destruct (emit_labels _ _ _) as [tpool1 raw_labels]. cbn [fst snd].
  destruct (emit_text _ _ _ _ _ _) as [[[d2 tpool2] groups]| |]; cbn [bind]; reflexivity.
Qed.
End Named.

(* ------------------------------------------------------------------ list helpers *)
Lemma Permutation_concat {T} (l l' : list (list T)) : Permutation l l' -> Permutation (concat l) (concat l').
Proof.
  induction 1 as [|x l l' H IH|x y l|l l' l'' H1 IH1 H2 IH2]; cbn [concat].
  - reflexivity.
  - apply Permutation_app_head, IH.
  - rewrite !app_assoc. apply Permutation_app_tail, Permutation_app_comm.
  - eapply Permutation_trans; eauto.
Qed.
Lemma NoDup_app_disjoint {T} (l1 l2 : list T) x : NoDup (l1 ++ l2) -> In x l1 -> In x l2 -> False.
Proof.
  induction l1 as [|y r IH]; cbn [app]; intros Hd H1 H2; [destruct H1|].
  inversion Hd as [|? ? Hn Hd']; subst. destruct H1 as [->|H1]; [apply Hn, in_or_app; right; exact H2 | exact (IH Hd' H1 H2)].
Qed.
Lemma NoDup_app_r {T} (l1 l2 : list T) : NoDup (l1 ++ l2) -> NoDup l2.
Proof. induction l1 as [|y r IH]; cbn [app]; intros Hd; [exact Hd|]. inversion Hd; subst. auto. Qed.
Lemma NoDup_app_l {T} (l1 l2 : list T) : NoDup (l1 ++ l2) -> NoDup l1.
Proof.
  induction l1 as [|y r IH]; cbn [app]; intros Hd; [constructor|]. inversion Hd as [|? ? Hn Hd']; subst.
  constructor; [intros H; apply Hn, in_or_app; left; exact H | auto].
Qed.
Lemma in_map_fst {K V} (l : list (K * V)) k v : In (k, v) l -> In k (map fst l).
Proof. intros H. apply in_map_iff. exists (k, v). auto. Qed.
Lemma am_get_In_nodup {V} (l : amap V) k v : NoDup (map fst l) -> In (k, v) l -> am_get k l = Some v.
Proof.
  induction l as [|[k' v'] r IH]; cbn [map fst am_get]; intros Hd Hin; [destruct Hin|].
  inversion Hd as [|? ? Hn Hd']; subst. destruct Hin as [E|Hin].
  - inversion E; subst. rewrite N.eqb_refl. reflexivity.
  - destruct (N.eqb_spec k k') as [->|_]; [exfalso; apply Hn; eapply in_map_fst; eauto | apply IH; assumption].
Qed.
Lemma am_get_perm {V} (l l' : amap V) k : NoDup (map fst l) -> Permutation l l' -> am_get k l = am_get k l'.
Proof.
  intros Hd P. assert (Hd' : NoDup (map fst l')) by (eapply Permutation_NoDup; [apply Permutation_map, P | exact Hd]).
  destruct (am_get k l) as [v|] eqn:G.
  - symmetry. apply am_get_In_nodup; [exact Hd'|]. eapply Permutation_in; [exact P | apply am_get_in, G].
  - destruct (am_get k l') as [v'|] eqn:G'; [|reflexivity]. apply am_get_in in G'.
    apply (Permutation_in _ (Permutation_sym P)) in G'. rewrite (am_get_In_nodup _ _ _ Hd G') in G. discriminate.
Qed.
Lemma am_get_app_notin {V} (l l' : amap V) k : ~ In k (map fst l) -> am_get k (l ++ l') = am_get k l'.
Proof.
  induction l as [|[k' v'] r IH]; cbn [map fst app am_get In]; intros H; [reflexivity|].
  destruct (N.eqb_spec k k') as [->|_]; [exfalso; apply H; left; reflexivity | apply IH; tauto].
Qed.
Lemma am_get_app_in {V} (l l' : amap V) k v : am_get k l = Some v -> am_get k (l ++ l') = Some v.
Proof.
  induction l as [|[k' v'] r IH]; cbn [app am_get]; [discriminate|]. destruct (k =? k'); auto.
Qed.

Definition small32 (x : N) : Prop := x < U32.
(* ------------------------------------------------------------------ the phases under wf_archive / fits32 *)
Section Ser.
Variable kf : name_key.
Variable a : archive.
Hypothesis WF : wf_archive a.
(* the data alone fits 32 bits (implied by the guard of serialize having passed, and by fits32); wrapped in [small32] so that
   `lia` does not pull the hypothesis into lemmas that do not need it *)
Hypothesis SZ : small32 (size a).
Notation e := (a_endian a).

Let P := map fst (a_ptrs a).
Let T := map fst (a_text a).
Let C := cs_cells a.

Lemma cells_all_ok : cells_ok (size a) (cells a).
Proof. destruct WF. split; [assumption | split; assumption]. Qed.

(* ---- c-strings *)
Lemma cs_sorted_perm : Permutation (a_cstrs a) (cs_sorted a).
Proof. apply isort_perm. Qed.

Lemma cs_facts :
  pool_ok (fst (cs_run a)) /\ cs_out (size a) (p_raw (fst (cs_run a))) (cs_sorted a) (cs_ptrs a) /\
  p_len (fst (cs_run a)) <= sumf (fun sc => lenN (fst sc) + 1) (a_cstrs a) /\ wfb (p_raw (fst (cs_run a))).
Proof.
  unfold cs_ptrs, cs_run. destruct (cstr_pool (size a) (cs_sorted a) pool_empty []) as [cpool cptrs] eqn:E. cbn [fst snd].
  destruct (cstr_pool_spec _ _ _ _ _ _ pool_ok_empty E) as (Hok & _ & (out & Eo & Hout) & Hl & Hw). cbn [app] in Eo. subst out.
  split; [exact Hok|]. split; [exact Hout|]. split.
  - rewrite (sumf_perm _ _ _ cs_sorted_perm). cbn [pool_empty p_len] in Hl. lia.
  - apply Hw; [constructor|]. apply Forall_forall. intros [s cs] Hin. cbn [fst].
    apply (Permutation_in _ (Permutation_sym cs_sorted_perm)) in Hin. apply (wf_cstrs a WF s cs Hin).
Qed.

Lemma pool_bytes_shape :
  exists k, pool_bytes a = p_raw (fst (cs_run a)) ++ zeros k /\
            lenN (pool_bytes a) <= lenN (p_raw (fst (cs_run a))) + 3 /\ lenN (pool_bytes a) mod 4 = 0.
Proof.
  unfold pool_bytes, pad_to. eexists. split; [reflexivity|]. rewrite lenN_app, lenN_zeros, N2Nat.id.
  destruct (pad_len_spec 4 (lenN (p_raw (fst (cs_run a)))) ltac:(lia)) as [H1 H2]. split; [lia | exact H1].
Qed.

Lemma cs_ptrs_cells : Permutation (map fst (cs_ptrs a)) C.
Proof.
  destruct cs_facts as (_ & Hout & _). rewrite (cs_out_cells _ _ _ _ Hout). unfold C, cs_cells.
  apply Permutation_concat, Permutation_map, Permutation_sym, cs_sorted_perm.
Qed.

Lemma all_ptrs_perm : Permutation (a_ptrs a ++ cs_ptrs a) (all_ptrs a).
Proof. apply isort_perm. Qed.
Lemma all_ptrs_cells : Permutation (map fst (all_ptrs a)) (P ++ C).
Proof.
  rewrite <- (Permutation_map fst all_ptrs_perm). rewrite map_app. apply Permutation_app_head, cs_ptrs_cells.
Qed.
Lemma txt_sorted_perm : Permutation (a_text a) (txt_sorted a).
Proof. apply isort_perm. Qed.
Lemma txt_cells : Permutation (map fst (txt_sorted a)) T.
Proof. apply Permutation_sym, Permutation_map, txt_sorted_perm. Qed.

Lemma cells_swap : Permutation (cells a) (T ++ P ++ C).
Proof. unfold cells. fold P T C. apply Permutation_app_swap_app. Qed.

Lemma ptr_cells_ok : cells_ok (size a) (map fst (all_ptrs a)).
Proof.
  apply (cells_ok_perm _ (P ++ C)); [apply Permutation_sym, all_ptrs_cells|].
  pose proof (cells_ok_perm _ _ _ cells_swap cells_all_ok) as H.
  apply (cells_ok_incl _ (T ++ P ++ C)); [| intros x Hx; apply in_or_app; right; exact Hx | exact H].
  destruct H as [Hd _]. apply NoDup_app_r in Hd. exact Hd.
Qed.
Lemma txt_cells_ok : cells_ok (size a) (map fst (txt_sorted a)).
Proof.
  apply (cells_ok_perm _ T); [apply Permutation_sym, txt_cells|].
  pose proof (cells_ok_perm _ _ _ cells_swap cells_all_ok) as H.
  apply (cells_ok_incl _ (T ++ P ++ C)); [| intros x Hx; apply in_or_app; left; exact Hx | exact H].
  destruct H as [Hd _]. apply NoDup_app_l in Hd. exact Hd.
Qed.
Lemma ptr_txt_sep c c' : In c (map fst (all_ptrs a)) -> In c' (map fst (txt_sorted a)) -> sep c c'.
Proof.
  intros Hc Hc'. apply (Permutation_in _ all_ptrs_cells) in Hc. apply (Permutation_in _ txt_cells) in Hc'.
  destruct (cells_ok_perm _ _ _ cells_swap cells_all_ok) as (Hd & _ & Hs).
  apply Hs; [apply in_or_app; right; exact Hc | apply in_or_app; left; exact Hc'|].
  intros ->. exact (NoDup_app_disjoint _ _ _ Hd Hc' Hc).
Qed.

(* ---- labels *)
Lemma lab_sorted_perm : Permutation (a_labels a) (lab_sorted kf a).
Proof. apply isort_perm. Qed.

Lemma lab_facts : exists ltab,
  snd (lab_run kf a) = flat ltab /\ pool_ok (fst (lab_run kf a)) /\
  Forall2 (lab_ok (p_raw (fst (lab_run kf a)))) ltab (label_names (lab_sorted kf a)) /\
  p_len (fst (lab_run kf a)) <= sumf (fun kb => sumf (fun l => lenN l + 1) (snd kb)) (a_labels a) /\
  wfb (p_raw (fst (lab_run kf a))).
Proof.
  unfold lab_run. destruct (emit_labels (lab_sorted kf a) pool_empty []) as [tpool1 rl] eqn:E. cbn [fst snd].
  destruct (emit_labels_spec _ _ _ _ _ pool_ok_empty E) as (Hok & _ & (ltab & Eo & HF) & Hl & Hw). cbn [app] in Eo.
  exists ltab. split; [exact Eo|]. split; [exact Hok|]. split; [exact HF|]. split.
  - rewrite (sumf_perm _ _ _ lab_sorted_perm). cbn [pool_empty p_len] in Hl. lia.
  - apply Hw; [constructor|]. apply Forall_forall. intros [k b] Hin. cbn [snd].
    apply (Permutation_in _ (Permutation_sym lab_sorted_perm)) in Hin. destruct (wf_labels a WF k b Hin) as (_ & _ & HF').
    eapply Forall_impl; [|exact HF']. intros l [_ W]. exact W.
Qed.

(* ---- the data after both rounds of pokes, the final text pool, the groups *)
Lemma outside_incl cs cs' i : incl cs' cs -> outside cs i -> outside cs' i.
Proof. intros Hi Ho c Hc. apply Ho, Hi, Hc. Qed.

Lemma ptr_cells_incl : incl (map fst (all_ptrs a)) (cells a).
Proof.
  intros c Hc. apply (Permutation_in _ all_ptrs_cells) in Hc. apply (Permutation_in _ (Permutation_sym cells_swap)).
  apply in_or_app. right. exact Hc.
Qed.
Lemma txt_cells_incl : incl (map fst (txt_sorted a)) (cells a).
Proof.
  intros c Hc. apply (Permutation_in _ txt_cells) in Hc. apply (Permutation_in _ (Permutation_sym cells_swap)).
  apply in_or_app. left. exact Hc.
Qed.

Lemma ser_facts : exists d2 tpool2 groups ltab,
  ser_data kf a = Ok (d2, tpool2, groups) /\
  lenN d2 = size a /\ wfb d2 /\
  (forall c v, In (c, v) (all_ptrs a) -> u32_at e d2 c = Some (trunc_w 32 v)) /\
  (forall c s, In (c, s) (a_text a) ->
     exists off, u32_at e d2 c = Some (trunc_w 32 (text_start kf a + off)) /\ holds (p_raw tpool2) off s) /\
  (forall i, outside (cells a) i -> nth_error d2 i = nth_error (a_data a) i) /\
  pool_ok tpool2 /\ wfb (p_raw tpool2) /\
  p_len tpool2 <= sumf (fun kb => sumf (fun l => lenN l + 1) (snd kb)) (a_labels a)
                  + sumf (fun cs => lenN (snd cs) + 1) (a_text a) /\
  snd (lab_run kf a) = flat ltab /\
  Forall2 (lab_ok (p_raw tpool2)) ltab (label_names (lab_sorted kf a)) /\
  Permutation (concat (map snd groups)) (map fst (txt_sorted a)).
Proof.
  destruct (poke_all_spec e (all_ptrs a) (a_data a) ptr_cells_ok) as (d1 & E1 & L1 & Hu1 & _ & Hn1 & HW1).
  destruct lab_facts as (ltab & Erl & Hok1 & HF1 & Hl1 & Hw1).
  assert (Hc2 : cells_ok (lenN d1) (map fst (txt_sorted a))) by (rewrite L1; exact txt_cells_ok).
  destruct (emit_text_spec e (text_start kf a) (txt_sorted a) d1 (fst (lab_run kf a)) [] Hok1 Hc2)
    as (d2 & tpool2 & groups & E2 & Hok2 & Hx2 & L2 & Hstr & Hfar & Hn2 & HW2 & Hwp & Hperm & Hl2).
  exists d2, tpool2, groups, ltab.
  split; [unfold ser_data; rewrite E1; cbn [bind]; exact E2|].
  split; [unfold size; congruence|]. split; [apply HW2, HW1, (wf_data a WF)|]. split; [|split; [|split]].
  - intros c v Hin. rewrite Hfar; [apply Hu1, Hin|].
    intros c2 Hc2'. apply sep_sym, ptr_txt_sep; [eapply in_map_fst; eauto | exact Hc2'].
  - intros c s Hin. apply Hstr. eapply Permutation_in; [exact txt_sorted_perm | exact Hin].
  - intros i Ho. rewrite Hn2 by (eapply outside_incl; [exact txt_cells_incl | exact Ho]).
    apply Hn1. eapply outside_incl; [exact ptr_cells_incl | exact Ho].
  - split; [exact Hok2|]. split.
    + apply Hwp; [exact Hw1|]. apply Forall_forall. intros [c s] Hin. cbn [snd].
      apply (Permutation_in _ (Permutation_sym txt_sorted_perm)) in Hin. apply (wf_strings a WF c s Hin).
    + split; [rewrite (sumf_perm _ _ _ txt_sorted_perm); lia|]. split; [exact Erl|].
      split; [eapply lab_ok_pext; eauto|]. cbn [map concat app] in Hperm. exact Hperm.
Qed.

(* ---- sizes and bounds *)
Lemma sumf_map {X Y} (f : Y -> N) (g : X -> Y) l : sumf f (map g l) = sumf (fun x => f (g x)) l.
Proof. induction l as [|x r IH]; [reflexivity|]. cbn [map]. rewrite !sumf_cons, IH. reflexivity. Qed.

Lemma lenL_C : lenL C = sumf (fun sc => lenL (snd sc)) (a_cstrs a).
Proof. unfold C, cs_cells. rewrite lenL_concat, sumf_map. reflexivity. Qed.

Lemma size_small : size a + 32 <= ser_bound a.
Proof. unfold ser_bound. lia. Qed.
Lemma cell_small c : In c (cells a) -> c < U32.
Proof. intros H. pose proof (wf_cells_in a WF c H). pose proof SZ as S. unfold small32 in S. lia. Qed.

Definition rp_of (groups : list (N * list N)) : list N :=
  map fst (all_ptrs a) ++ concat (map (fun g => isort N.leb (map (trunc_w 32) (snd g))) groups).

Section Groups.
Variable groups : list (N * list N).
Hypothesis Hperm : Permutation (concat (map snd groups)) (map fst (txt_sorted a)).

Lemma groups_cells : Permutation (concat (map (fun g => isort N.leb (map (trunc_w 32) (snd g))) groups)) T.
Proof.
  rewrite groups_perm, Hperm. rewrite map_trunc_small; [exact txt_cells|].
  apply Forall_forall. intros c Hc. apply cell_small, txt_cells_incl, Hc.
Qed.
Lemma rp_perm : Permutation (rp_of groups) (map fst (a_ptrs a ++ cs_ptrs a) ++ T).
Proof.
  unfold rp_of. apply Permutation_app; [apply Permutation_map, Permutation_sym, all_ptrs_perm | exact groups_cells].
Qed.
Lemma rp_cells : Permutation (rp_of groups) (cells a).
Proof.
  rewrite rp_perm, map_app. fold P. rewrite cs_ptrs_cells. unfold cells. fold P T C.
  rewrite <- app_assoc. apply Permutation_app_head, Permutation_app_comm.
Qed.
Lemma rp_len : lenL (rp_of groups) = lenL (a_ptrs a) + sumf (fun sc => lenL (snd sc)) (a_cstrs a) + lenL (a_text a).
Proof.
  rewrite (lenL_perm _ _ rp_cells). unfold cells. rewrite !lenL_app. fold C. rewrite lenL_C. unfold lenL. rewrite !map_length. lia.
Qed.
Lemma rp_head_len : lenL (map fst (all_ptrs a)) + lenL (a_text a) = lenL (rp_of groups).
Proof.
  unfold rp_of. rewrite lenL_app, (lenL_perm _ _ groups_cells). unfold T. rewrite (lenL_map fst (a_text a)). reflexivity.
Qed.
End Groups.

Lemma label_names_cons k b r : label_names ((k, b) :: r) = map (fun l => (k, l)) b ++ label_names r.
Proof. reflexivity. Qed.
Lemma label_names_len ls : lenL (label_names ls) = sumf (fun kb => lenL (snd kb)) ls.
Proof.
  induction ls as [|[k b] r IH]; [reflexivity|]. rewrite label_names_cons, lenL_app, lenL_map, sumf_cons, IH. reflexivity.
Qed.
Lemma label_names_in ls k l : In (k, l) (label_names ls) -> exists b, In (k, b) ls /\ In l b.
Proof.
  induction ls as [|[k0 b0] r IH]; [intros []|]. rewrite label_names_cons. intros H. apply in_app_or in H. destruct H as [H|H].
  - apply in_map_iff in H. destruct H as (l0 & E & Hl0). inversion E; subst. exists b0. split; [left; reflexivity | exact Hl0].
  - destruct (IH H) as (b & Hb & Hl). exists b. split; [right; exact Hb | exact Hl].
Qed.

Lemma names_at_app addr x y : names_at addr (x ++ y) = names_at addr x ++ names_at addr y.
Proof. unfold names_at. rewrite filter_app, map_app. reflexivity. Qed.
Lemma names_at_bucket addr k b : names_at addr (map (fun l => (k, l)) b) = if k =? addr then b else [].
Proof.
  unfold names_at. induction b as [|l r IH]; cbn [map filter fst]; [destruct (k =? addr); reflexivity|].
  destruct (k =? addr) eqn:E; cbn [map snd]; rewrite IH; reflexivity.
Qed.
Lemma names_at_label_names ls addr : NoDup (map fst ls) ->
  names_at addr (label_names ls) = match am_get addr ls with Some b => b | None => [] end.
Proof.
  induction ls as [|[k b] r IH]; intros Hd; [reflexivity|]. cbn [map fst] in Hd. inversion Hd as [|? ? Hn Hd']; subst.
  rewrite label_names_cons, names_at_app, names_at_bucket, (IH Hd'). cbn [am_get].
  rewrite (N.eqb_sym addr k). destruct (N.eqb_spec k addr) as [->|_]; [|reflexivity].
  assert (G : am_get addr r = None) by (apply am_get_none; exact Hn). rewrite G. apply app_nil_r.
Qed.

(* every label name of the archive *)
Lemma label_name_wf k l : In (k, l) (label_names (lab_sorted kf a)) -> k <= size a /\ ~ In 0 l /\ wfb l.
Proof.
  intros H. destruct (label_names_in _ _ _ H) as (b & Hb & Hl).
  apply (Permutation_in _ (Permutation_sym lab_sorted_perm)) in Hb.
  destruct (wf_labels a WF k b Hb) as (Hk & _ & HF). rewrite Forall_forall in HF. destruct (HF l Hl). auto.
Qed.

Lemma Forall2_len {X Y} (R : X -> Y -> Prop) l l' : Forall2 R l l' -> length l = length l'.
Proof. induction 1; cbn [length]; congruence. Qed.
Lemma Forall2_In_impl {X Y} (R1 R2 : X -> Y -> Prop) (Q : Y -> Prop) l l' :
  Forall Q l' -> (forall x y, Q y -> R1 x y -> R2 x y) -> Forall2 R1 l l' -> Forall2 R2 l l'.
Proof. intros HQ Hi HF. induction HF as [|x y l l' H HF IH]; constructor; inversion HQ; subst; auto. Qed.

(* ---- the image, explicitly *)
Section Final.
Variables (d2 : bytes) (tpool2 : pool) (groups : list (N * list N)) (ltab : list (N * N)).
Hypothesis L2 : lenN d2 = size a.
Hypothesis Hok2 : pool_ok tpool2.
Hypothesis Hlen : p_len tpool2 <= sumf (fun kb => sumf (fun l => lenN l + 1) (snd kb)) (a_labels a)
                                  + sumf (fun cs => lenN (snd cs) + 1) (a_text a).
Hypothesis Erl : snd (lab_run kf a) = flat ltab.
Hypothesis HF : Forall2 (lab_ok (p_raw tpool2)) ltab (label_names (lab_sorted kf a)).
Hypothesis Hperm : Permutation (concat (map snd groups)) (map fst (txt_sorted a)).
Hypothesis W2 : wfb d2.
Hypothesis Wp : wfb (p_raw tpool2).
Hypothesis Hptr : forall c v, In (c, v) (all_ptrs a) -> u32_at e d2 c = Some (trunc_w 32 v).
Hypothesis Hstr : forall c s, In (c, s) (a_text a) ->
  exists off, u32_at e d2 c = Some (trunc_w 32 (text_start kf a + off)) /\ holds (p_raw tpool2) off s.

Let rp := rp_of groups.
Let dsz := size a + lenN (pool_bytes a).
Let fsz := 32 + dsz + 4 * lenL rp + 8 * lenL ltab + lenN (p_raw tpool2).

Definition image_of : bytes :=
  enc e 4 fsz ++ enc e 4 dsz ++ enc e 4 (lenL rp) ++ enc e 4 (lenL ltab) ++ zeros 16
  ++ (d2 ++ pool_bytes a) ++ u32s e rp ++ u32s e (flat ltab) ++ p_raw tpool2.

Lemma ltab_len : lenL ltab = sumf (fun kb => lenL (snd kb)) (a_labels a).
Proof.
  unfold lenL at 1. rewrite (Forall2_len _ _ _ HF). fold (lenL (label_names (lab_sorted kf a))).
  rewrite label_names_len. apply sumf_perm, Permutation_sym, lab_sorted_perm.
Qed.
Lemma pool_bytes_bound : lenN (pool_bytes a) <= sumf (fun sc => lenN (fst sc) + 1) (a_cstrs a) + 3.
Proof.
  destruct pool_bytes_shape as (k & _ & H1 & _). destruct cs_facts as ([Hl _] & _ & Hs & _). lia.
Qed.
Lemma fsz_bound : fsz <= ser_bound a.
Proof.
  unfold fsz, dsz, rp. rewrite (rp_len groups Hperm), ltab_len. destruct Hok2 as [Hl _]. pose proof pool_bytes_bound.
  unfold ser_bound. lia.
Qed.
(* what the guard of serialize compares with u32::MAX is the length of the image *)
Lemma file_size_fsz : file_size_of kf a (d2, tpool2, groups) = fsz.
Proof.
  unfold file_size_of. fold (rp_of groups). fold rp. rewrite Erl.
  assert (E1 : N.of_nat (length rp) = lenL rp) by reflexivity.
  assert (E2 : N.of_nat (length (flat ltab)) = 2 * lenL ltab) by (rewrite length_flat; unfold lenL; lia).
  rewrite E1, E2. destruct Hok2 as [Hl _]. rewrite Hl. unfold fsz, dsz. clear. lia.
Qed.
(* the guard of serialize has passed: the exact image size fits 32 bits (implied by fits32 through fsz_bound) *)
Hypothesis FSZ : small32 fsz.
Lemma fsz_small : fsz < U32.
Proof. exact FSZ. Qed.

Lemma lenN_image : lenN image_of = fsz.
Proof.
  unfold image_of. rewrite !lenN_app, !lenN_enc, !lenN_u32s, lenN_zeros, L2.
  assert (E : lenL (flat ltab) = 2 * lenL ltab) by (unfold lenL; rewrite length_flat; lia).
  rewrite E. unfold fsz, dsz. lia.
Qed.

Lemma assemble_ok m : assemble kf a m (d2, tpool2, groups) = Ok image_of.
Proof.
  pose proof fsz_small as Hs. unfold assemble. fold (rp_of groups). fold rp. rewrite Erl.
  assert (E1 : N.of_nat (length rp) = lenL rp) by reflexivity.
  assert (E2 : N.of_nat (length (flat ltab)) = 2 * lenL ltab) by (rewrite length_flat; unfold lenL; lia).
  rewrite E1, E2. destruct Hok2 as [Hl _]. rewrite Hl.
  replace (size a + lenN (pool_bytes a) + lenL rp * 4 + 2 * lenL ltab * 4 + lenN (p_raw tpool2) + 32) with fsz by (unfold fsz, dsz; lia).
  replace (2 * lenL ltab / 2) with (lenL ltab) by lia.
  unfold fsz, dsz in Hs. rewrite !trunc_small by (unfold U32 in *; lia).
  rewrite add_w_ok by (unfold maxw; unfold U32 in Hs; lia). cbn [bind].
  assert (G : fsz <=? 4294967295 = true) by (apply N.leb_le; unfold fsz, dsz, U32 in *; lia).
  rewrite G. cbn [guard bind].
  unfold image_of. fold dsz. rewrite <- !app_assoc. reflexivity.
Qed.

Lemma dsz_le_fsz : dsz + 32 <= fsz.
Proof. unfold fsz. lia. Qed.

Lemma text_start_eq : text_start kf a = dsz + 4 * lenL rp + 8 * lenL ltab.
Proof.
  unfold text_start. rewrite Erl, length_flat. pose proof (rp_head_len groups Hperm) as H. fold rp in H.
  unfold lenL in *. unfold dsz. lia.
Qed.

(* a string of the final text pool, seen from the start of the file *)
Lemma text_at off s : holds (p_raw tpool2) off s -> ~ In 0 s ->
  cstr_atN image_of (dsz + 4 * lenL rp + 8 * lenL ltab + off + 32) = Some s.
Proof.
  intros Hh Hn.
  set (pre := enc e 4 fsz ++ enc e 4 dsz ++ enc e 4 (lenL rp) ++ enc e 4 (lenL ltab) ++ zeros 16
              ++ (d2 ++ pool_bytes a) ++ u32s e rp ++ u32s e (flat ltab)).
  assert (Ei : image_of = pre ++ p_raw tpool2 ++ []).
  { unfold image_of, pre. rewrite app_nil_r, <- !app_assoc. reflexivity. }
  assert (Lp : lenN pre = dsz + 4 * lenL rp + 8 * lenL ltab + 32).
  { unfold pre. rewrite !lenN_app, !lenN_enc, !lenN_u32s, lenN_zeros, L2.
    assert (E : lenL (flat ltab) = 2 * lenL ltab) by (unfold lenL; rewrite length_flat; lia). rewrite E. unfold dsz. lia. }
  replace (dsz + 4 * lenL rp + 8 * lenL ltab + off + 32) with (lenN pre + off) by lia.
  eapply holds_cstr_atN; eauto.
Qed.

Lemma ptab_small : Forall (fun x => x < U32) rp.
Proof.
  apply Forall_forall. intros c Hc. apply cell_small. eapply Permutation_in; [apply (rp_cells groups Hperm) | exact Hc].
Qed.

Lemma names_wf : Forall (fun named => fst named <= size a /\ ~ In 0 (snd named) /\ wfb (snd named)) (label_names (lab_sorted kf a)).
Proof. apply Forall_forall. intros [k l] Hin. apply label_name_wf, Hin. Qed.

Lemma ltab_small : Forall (fun p => fst p < U32 /\ snd p < U32) ltab.
Proof.
  pose proof fsz_small as Hs. pose proof dsz_le_fsz as Hz.
  assert (HF' : Forall2 (fun (x : N * N) (y : N * bytes) => fst x < U32 /\ snd x < U32) ltab (label_names (lab_sorted kf a))).
  { eapply Forall2_In_impl; [exact names_wf | | exact HF]. intros [addr off] [k l] (Hk & _ & _) [E Hh]. cbn [fst snd] in *. subst.
    apply holds_bound in Hh. unfold fsz in Hs. split; lia. }
  clear -HF'. induction HF'; constructor; auto.
Qed.

Lemma keys_nodup : NoDup (map fst (a_ptrs a ++ cs_ptrs a) ++ map fst (a_text a)).
Proof.
  apply (Permutation_NoDup (l := cells a)); [|apply (wf_cells_nodup a WF)].
  rewrite <- (rp_cells groups Hperm). apply (rp_perm groups Hperm).
Qed.

Lemma In_lenL_pos {X} (l : list X) x : In x l -> 1 <= lenL l.
Proof. destruct l; [intros [] | intros _; unfold lenL; cbn [length]; lia]. Qed.

Lemma pool_dest c dest : In (c, dest) (cs_ptrs a) -> dest <= dsz.
Proof.
  intros H. destruct cs_facts as (_ & Hout & _). destruct (cs_out_fwd _ _ _ _ Hout c dest H) as (s & cells & off & _ & _ & -> & Hh).
  apply holds_bound in Hh. destruct pool_bytes_shape as (k & E & _). unfold dsz. rewrite E, lenN_app. lia.
Qed.

Lemma ptr_cells_hold cell dest : In (cell, dest) (a_ptrs a ++ cs_ptrs a) ->
  u32_at e (d2 ++ pool_bytes a) cell = Some dest /\ dest <= lenN (d2 ++ pool_bytes a).
Proof.
  intros Hin. pose proof fsz_small as Hs. pose proof dsz_le_fsz as Hd.
  assert (Hle : dest <= dsz).
  { apply in_app_or in Hin. destruct Hin as [Hin|Hin]; [|eapply pool_dest; eauto].
    pose proof (wf_targets a WF _ _ Hin). unfold dsz. lia. }
  assert (Hc : cell + 4 <= lenN d2).
  { rewrite L2. apply (wf_cells_in a WF). apply ptr_cells_incl. apply in_map_fst with (v := dest).
    eapply Permutation_in; [exact all_ptrs_perm | exact Hin]. }
  split; [|rewrite lenN_app, L2; exact Hle].
  rewrite u32_at_app_l by exact Hc. rewrite (Hptr cell dest) by (eapply Permutation_in; [exact all_ptrs_perm | exact Hin]).
  rewrite trunc_small by lia. reflexivity.
Qed.

Lemma str_cells_hold cell s : In (cell, s) (a_text a) ->
  exists v, u32_at e (d2 ++ pool_bytes a) cell = Some v /\ lenN (d2 ++ pool_bytes a) < v /\ cstr_atN image_of (v + 32) = Some s.
Proof.
  intros Hin. pose proof fsz_small as Hs. destruct (Hstr cell s Hin) as (off & Hu & Hh).
  pose proof (holds_bound _ _ _ Hh) as Hb. pose proof text_start_eq as Et.
  assert (Hpos : 1 <= lenL rp).
  { unfold rp. rewrite (rp_len groups Hperm). pose proof (In_lenL_pos _ _ Hin). lia. }
  assert (Hc : cell + 4 <= lenN d2).
  { rewrite L2. apply (wf_cells_in a WF). unfold cells. apply in_or_app. right. apply in_or_app. left. eapply in_map_fst; eauto. }
  exists (text_start kf a + off). split; [|split].
  - rewrite u32_at_app_l by exact Hc. rewrite Hu, trunc_small; [reflexivity|]. unfold fsz in Hs. lia.
  - rewrite lenN_app, L2. fold dsz. lia.
  - rewrite Et. apply text_at; [exact Hh | apply (wf_strings a WF cell s Hin)].
Qed.

Lemma labels_resolved :
  Forall2 (resolved image_of (lenN (d2 ++ pool_bytes a) + 4 * lenL rp + 8 * lenL ltab)) ltab (label_names (lab_sorted kf a)).
Proof.
  eapply Forall2_In_impl; [exact names_wf | | exact HF]. intros [addr off] [k l] (_ & Hn & _) [E Hh]. cbn [fst snd] in *.
  split; [exact E|]. cbn [snd]. rewrite lenN_app, L2. fold dsz. apply text_at; assumption.
Qed.

Lemma labels_grouped_ok : labels_grouped (label_names (lab_sorted kf a)) (a_labels a).
Proof.
  split; [apply (wf_label_keys a WF)|]. intros addr. split.
  - rewrite names_at_label_names by (eapply Permutation_NoDup; [apply Permutation_map, lab_sorted_perm | apply (wf_label_keys a WF)]).
    rewrite (am_get_perm _ _ addr (wf_label_keys a WF) lab_sorted_perm). reflexivity.
  - intros G. apply am_get_in in G. destruct (wf_labels a WF _ _ G) as (_ & Hne & _). apply Hne. reflexivity.
Qed.

Lemma image_conforms :
  conforms e image_of {| c_data := d2 ++ pool_bytes a; c_ptrs := a_ptrs a ++ cs_ptrs a; c_text := a_text a; c_labels := a_labels a |}.
Proof.
  exists (zeros 16), rp, ltab, (p_raw tpool2), (label_names (lab_sorted kf a)). cbv zeta. cbn [c_data c_ptrs c_text c_labels].
  split; [|split; [|split; [|split; [|split; [|split; [|split; [|split; [|split; [|split; [|split]]]]]]]]]].
  - rewrite lenN_image. rewrite lenN_app, L2. reflexivity.
  - reflexivity.
  - rewrite lenN_image. exact fsz_small.
  - exact ptab_small.
  - exact ltab_small.
  - exact keys_nodup.
  - apply (rp_perm groups Hperm).
  - exact ptr_cells_hold.
  - exact str_cells_hold.
  - exact labels_resolved.
  - apply Forall_forall. intros [k l] Hin. cbn [fst]. destruct (label_name_wf _ _ Hin) as (Hk & _). rewrite lenN_app, L2. lia.
  - exact labels_grouped_ok.
Qed.

Lemma image_wfb : wfb image_of.
Proof.
  unfold image_of. destruct cs_facts as (_ & _ & _ & Wc).
  assert (Wd : wfb (d2 ++ pool_bytes a)).
  { apply wfb_app; [exact W2|]. unfold pool_bytes, pad_to. apply wfb_app; [exact Wc | apply wfb_zeros]. }
  do 4 (apply wfb_app; [apply wfb_enc|]). apply wfb_app; [apply wfb_zeros|]. apply wfb_app; [exact Wd|].
  do 2 (apply wfb_app; [apply wfb_u32s|]). exact Wp.
Qed.
End Final.
End Ser.

(* ================================================================== the theorems *)
Section Theorems.
Variable kf : name_key.
Lemma published_eq a d2 tpool2 groups : ser_data kf a = Ok (d2, tpool2, groups) ->
  published kf a = {| c_data := d2 ++ pool_bytes a; c_ptrs := a_ptrs a ++ cs_ptrs a; c_text := a_text a; c_labels := a_labels a |}.
Proof. intros E. unfold published, data_region. rewrite E. reflexivity. Qed.

(* ---- the 32-bit guard (fix 524d15f, finding F25): serialize succeeds exactly when the image fits 32-bit sizes ---- *)
Lemma fits32_size a : fits32 a -> size a < U32.
Proof. unfold fits32, ser_bound. lia. Qed.

(* a successful serialize has passed the guard: data and image fit 32 bits *)
Lemma serialize_ok_small m a f d2 tpool2 groups ltab :
  serialize_k kf m a = Ok f -> ser_data kf a = Ok (d2, tpool2, groups) ->
  lenN d2 = size a -> pool_ok tpool2 ->
  p_len tpool2 <= sumf (fun kb => sumf (fun l => lenN l + 1) (snd kb)) (a_labels a) + sumf (fun cs => lenN (snd cs) + 1) (a_text a) ->
  snd (lab_run kf a) = flat ltab ->
  (forall c v, In (c, v) (all_ptrs a) -> u32_at (a_endian a) d2 c = Some (trunc_w 32 v)) ->
  (forall c s, In (c, s) (a_text a) ->
     exists off, u32_at (a_endian a) d2 c = Some (trunc_w 32 (text_start kf a + off)) /\ holds (p_raw tpool2) off s) ->
  small32 (size a) /\
  small32 (32 + (size a + lenN (pool_bytes a)) + 4 * lenL (rp_of a groups) + 8 * lenL ltab + lenN (p_raw tpool2)).
Proof.
  intros Ef Es L2 Hok2 Hlen Erl Hptr Hstr.
  assert (Efs : file_size_of kf a (d2, tpool2, groups) = 32 + (size a + lenN (pool_bytes a)) + 4 * lenL (rp_of a groups) + 8 * lenL ltab + lenN (p_raw tpool2))
    by (eapply file_size_fsz; eassumption).
  rewrite serialize_unfold, Es in Ef. cbn [bind] in Ef. rewrite assemble_guard, Efs in Ef. unfold small32.
  destruct (N.leb_spec (32 + (size a + lenN (pool_bytes a)) + 4 * lenL (rp_of a groups) + 8 * lenL ltab + lenN (p_raw tpool2)) 4294967295) as [H|H];
    [|discriminate]. unfold U32. split; lia.
Qed.

(* everything about a successful serialize of a well-formed archive, WITHOUT an a-priori size bound: success is the bound *)
Lemma serialize_ok_facts m a f : wf_archive a -> serialize_k kf m a = Ok f ->
  exists d2 tpool2 groups ltab,
    ser_data kf a = Ok (d2, tpool2, groups) /\ f = image_of a d2 tpool2 groups ltab /\
    size a < U32 /\
    32 + (size a + lenN (pool_bytes a)) + 4 * lenL (rp_of a groups) + 8 * lenL ltab + lenN (p_raw tpool2) < U32 /\
    image_size kf a = 32 + (size a + lenN (pool_bytes a)) + 4 * lenL (rp_of a groups) + 8 * lenL ltab + lenN (p_raw tpool2) /\
    wfb f /\ conforms (a_endian a) f (published kf a).
Proof.
  intros WF Ef.
  destruct (ser_facts kf a WF) as (d2 & tpool2 & groups & ltab & Es & L2 & W2 & Hptr & Hstr & Hnth & Hok2 & Wp & Hlen & Erl & HF & Hperm).
  exists d2, tpool2, groups, ltab.
  assert (Efs : file_size_of kf a (d2, tpool2, groups) = 32 + (size a + lenN (pool_bytes a)) + 4 * lenL (rp_of a groups) + 8 * lenL ltab + lenN (p_raw tpool2))
    by (eapply file_size_fsz; eassumption).
  rewrite serialize_unfold, Es in Ef. cbn [bind] in Ef.
  assert (FSZ : small32 (32 + (size a + lenN (pool_bytes a)) + 4 * lenL (rp_of a groups) + 8 * lenL ltab + lenN (p_raw tpool2))).
  { rewrite assemble_guard in Ef. rewrite Efs in Ef.
    destruct (N.leb_spec (32 + (size a + lenN (pool_bytes a)) + 4 * lenL (rp_of a groups) + 8 * lenL ltab + lenN (p_raw tpool2)) 4294967295) as [H|H];
      [unfold small32, U32; lia | discriminate]. }
  assert (SZ : small32 (size a)) by (unfold small32 in *; lia).
  assert (E : f = image_of a d2 tpool2 groups ltab).
  { rewrite (assemble_ok kf a d2 tpool2 groups ltab) in Ef by assumption. inversion Ef. reflexivity. }
  split; [exact Es|]. split; [exact E|]. split; [exact SZ|]. split; [exact FSZ|].
  split; [unfold image_size; rewrite Es; exact Efs|]. subst f. split.
  - eapply image_wfb; eassumption.
  - rewrite (published_eq a d2 tpool2 groups Es). eapply image_conforms; eassumption.
Qed.

(* the image of a well-formed archive is never longer than the simple bound of fits32 *)
Theorem image_size_bound a : wf_archive a -> size a < U32 -> image_size kf a <= ser_bound a.
Proof.
  intros WF SZ0. assert (SZ : small32 (size a)) by exact SZ0.
  destruct (ser_facts kf a WF) as (d2 & tpool2 & groups & ltab & Es & L2 & W2 & Hptr & Hstr & Hnth & Hok2 & Wp & Hlen & Erl & HF & Hperm).
  unfold image_size. rewrite Es. erewrite file_size_fsz by eassumption. eapply fsz_bound; eassumption.
Qed.
(* accepted iff the image fits 32-bit sizes, in both arithmetic profiles *)
Theorem serialize_ok_iff m a : wf_archive a -> ((exists f, serialize_k kf m a = Ok f) <-> image_size kf a < U32).
Proof.
  intros WF. split.
  - intros [f Ef]. destruct (serialize_ok_facts m a f WF Ef) as (d2 & tpool2 & groups & ltab & _ & _ & _ & H & E & _). rewrite E. exact H.
  - intros H.
    destruct (ser_facts kf a WF) as (d2 & tpool2 & groups & ltab & Es & L2 & W2 & Hptr & Hstr & Hnth & Hok2 & Wp & Hlen & Erl & HF & Hperm).
    assert (Efs : file_size_of kf a (d2, tpool2, groups) = 32 + (size a + lenN (pool_bytes a)) + 4 * lenL (rp_of a groups) + 8 * lenL ltab + lenN (p_raw tpool2))
    by (eapply file_size_fsz; eassumption).
    unfold image_size in H. rewrite Es, Efs in H.
    exists (image_of a d2 tpool2 groups ltab). rewrite serialize_unfold, Es. cbn [bind]. apply assemble_ok; assumption.
Qed.
(* ... and rejected (Err, no panic, nothing truncated) when it does not *)
Theorem serialize_rejects_large m a : wf_archive a -> U32 <= image_size kf a -> serialize_k kf m a = Err EOther.
Proof.
  intros WF H.
  destruct (ser_facts kf a WF) as (d2 & tpool2 & groups & ltab & Es & _).
  unfold image_size in H. rewrite Es in H. rewrite serialize_unfold, Es. cbn [bind]. apply assemble_rejects. exact H.
Qed.
Theorem serialize_ok_length m a f : wf_archive a -> serialize_k kf m a = Ok f -> lenN f = image_size kf a /\ lenN f < U32.
Proof.
  intros WF Ef.
  destruct (ser_facts kf a WF) as (d2' & tpool2' & groups' & ltab' & Es' & L2 & W2 & Hptr & Hstr & Hnth & Hok2 & Wp & Hlen & Erl & HF & Hperm).
  destruct (serialize_ok_facts m a f WF Ef) as (d2 & tpool2 & groups & ltab0 & Es & E & _ & H & Ei & _).
  rewrite Es in Es'. inversion Es'; subst d2' tpool2' groups'.
  assert (Efs : file_size_of kf a (d2, tpool2, groups) = 32 + (size a + lenN (pool_bytes a)) + 4 * lenL (rp_of a groups) + 8 * lenL ltab' + lenN (p_raw tpool2))
    by (eapply file_size_fsz; eassumption).
  assert (Ef' : f = image_of a d2 tpool2 groups ltab').
  { assert (FSZ : small32 (32 + (size a + lenN (pool_bytes a)) + 4 * lenL (rp_of a groups) + 8 * lenL ltab' + lenN (p_raw tpool2))).
    { rewrite <- Efs. unfold image_size in Ei. rewrite Es in Ei. rewrite Ei. exact H. }
    rewrite serialize_unfold, Es in Ef. cbn [bind] in Ef. rewrite (assemble_ok kf a d2 tpool2 groups ltab') in Ef by assumption.
    inversion Ef. reflexivity. }
  assert (L : lenN f = image_size kf a).
  { rewrite Ef'. unfold image_size. rewrite Es, Efs. eapply lenN_image; eassumption. }
  split; [exact L|]. rewrite L, Ei. exact H.
Qed.

(* C01_serialize_conforms: success IS the size condition *)
Theorem serialize_ok_conforms : forall m a f, wf_archive a -> serialize_k kf m a = Ok f ->
  wfb f /\ conforms (a_endian a) f (published kf a).
Proof. intros m a f WF Ef. destruct (serialize_ok_facts m a f WF Ef) as (_ & _ & _ & _ & _ & _ & _ & _ & _ & H). exact H. Qed.
(* with the a-priori bound fits32 serialize does succeed *)
Theorem serialize_conforms : forall m a, wf_archive a -> fits32 a ->
  exists f, serialize_k kf m a = Ok f /\ wfb f /\ conforms (a_endian a) f (published kf a).
Proof.
  intros m a WF FIT.
  assert (H : image_size kf a < U32) by (pose proof (image_size_bound a WF (fits32_size a FIT)); unfold fits32 in FIT; lia).
  destruct (proj2 (serialize_ok_iff m a WF) H) as [f Ef]. exists f. split; [exact Ef|]. exact (serialize_ok_conforms m a f WF Ef).
Qed.

(* ------------------------------------------------------------------ what published kf a is *)
Theorem published_components : forall a,
  c_ptrs (published kf a) = a_ptrs a ++ cs_ptrs a /\ c_text (published kf a) = a_text a /\ c_labels (published kf a) = a_labels a.
Proof. intros a. repeat split. Qed.

(* size: the data followed by the padded pool; no pool without c-strings *)
Theorem published_data_len : forall a, wf_archive a ->
  lenN (c_data (published kf a)) = size a + lenN (pool_bytes a) /\
  lenN (pool_bytes a) mod 4 = 0 /\ (a_cstrs a = [] -> lenN (pool_bytes a) = 0).
Proof.
  intros a WF.
  destruct (ser_facts kf a WF) as (d2 & tpool2 & groups & ltab & Es & L2 & _).
  rewrite (published_eq a d2 tpool2 groups Es). cbn [c_data]. split; [rewrite lenN_app, L2; reflexivity|]. split.
  - destruct (pool_bytes_shape a) as (k & _ & _ & H). exact H.
  - intros E. unfold pool_bytes, cs_run, cs_sorted. rewrite E. reflexivity.
Qed.

(* outside the annotated cells the original bytes are reproduced *)
Theorem published_data_outside : forall a, wf_archive a ->
  forall i, (i < N.to_nat (size a))%nat -> outside (cells a) i ->
  nth_error (c_data (published kf a)) i = nth_error (a_data a) i.
Proof.
  intros a WF i Hi Ho.
  destruct (ser_facts kf a WF) as (d2 & tpool2 & groups & ltab & Es & L2 & _ & _ & _ & Hnth & _).
  rewrite (published_eq a d2 tpool2 groups Es). cbn [c_data].
  rewrite nth_error_app1 by (unfold lenN in L2; lia). apply Hnth, Ho.
Qed.

(* every pending c-string has become a pointer to a copy of the string inside the data region *)
Theorem published_cstring : forall a, wf_archive a ->
  forall s cs cell, In (s, cs) (a_cstrs a) -> In cell cs ->
  exists p, am_get cell (c_ptrs (published kf a)) = Some p /\ p < lenN (c_data (published kf a)) /\
            cstr_atN (c_data (published kf a)) p = Some s.
Proof.
  intros a WF s cs cell Hs Hc.
  destruct (ser_facts kf a WF) as (d2 & tpool2 & groups & ltab & Es & L2 & _).
  rewrite (published_eq a d2 tpool2 groups Es). cbn [c_data c_ptrs].
  destruct (cs_facts a WF) as (_ & Hout & _).
  assert (Hs' : In (s, cs) (cs_sorted a)) by (eapply Permutation_in; [apply cs_sorted_perm | exact Hs]).
  destruct (cs_out_bwd _ _ _ _ Hout s cs cell Hs' Hc) as (off & Hin & Hh).
  assert (HC : In cell (cs_cells a)).
  { unfold cs_cells. apply in_concat. exists cs. split; [apply in_map_iff; exists (s, cs); auto | exact Hc]. }
  pose proof (wf_cells_nodup a WF) as Hd. unfold cells in Hd.
  assert (Hnp : ~ In cell (map fst (a_ptrs a))).
  { intros Hp. apply (NoDup_app_disjoint _ _ cell Hd Hp). apply in_or_app. right. exact HC. }
  assert (Hdc : NoDup (map fst (cs_ptrs a))).
  { apply (Permutation_NoDup (l := cs_cells a)); [apply Permutation_sym, (cs_ptrs_cells a WF)|].
    apply NoDup_app_r in Hd. apply NoDup_app_r in Hd. exact Hd. }
  exists (size a + off). split; [|split].
  - rewrite am_get_app_notin by exact Hnp. apply am_get_In_nodup; assumption.
  - pose proof (holds_bound _ _ _ Hh). destruct (pool_bytes_shape a) as (k & E & _). rewrite lenN_app, L2, E, lenN_app. lia.
  - destruct (pool_bytes_shape a) as (k & E & _). rewrite E. rewrite <- L2.
    eapply holds_cstr_atN; [reflexivity | exact Hh | apply (wf_cstrs a WF s cs Hs)].
Qed.

(* the archive's own pointers are looked up unchanged *)
Theorem published_own_pointers : forall a, wf_archive a ->
  forall k, ~ In k (cs_cells a) -> am_get k (c_ptrs (published kf a)) = am_get k (a_ptrs a).
Proof.
  intros a WF k Hk. cbn [published c_ptrs].
  destruct (am_get k (a_ptrs a)) as [v|] eqn:G; [apply am_get_app_in, G|].
  rewrite am_get_app_notin by (apply am_get_none, G). apply am_get_none. unfold am_keys. intros Hin. apply Hk.
  eapply Permutation_in; [apply (cs_ptrs_cells a WF) | exact Hin].
Qed.

(* ------------------------------------------------------------------ C01 "the serialized image is itself well-formed" *)
Theorem serialize_image_wellformed : forall m a f, wf_archive a -> serialize_k kf m a = Ok f ->
  exists ptab ltab txt,
    let e := a_endian a in
    let d := c_data (published kf a) in
    (* header totals exact *)
    f = enc e 4 (lenN f) ++ enc e 4 (lenN d) ++ enc e 4 (lenL ptab) ++ enc e 4 (lenL ltab) ++ zeros 16
        ++ d ++ u32s e ptab ++ u32s e (flat ltab) ++ txt /\
    lenN f < U32 /\ lenN d = size a + lenN (pool_bytes a) /\
    (* every pointer-table entry is a cell inside the data; every label address is inside the data and
       its name offset inside the text section *)
    Forall (fun c => c + 4 <= lenN d) ptab /\
    Forall (fun p => fst p <= lenN d /\ snd p < lenN txt) ltab /\
    (* with an aligned data length the pool is padded and both tables start on a multiple of 4 *)
    (size a mod 4 = 0 -> (32 + lenN d) mod 4 = 0 /\ (32 + lenN d + 4 * lenL ptab) mod 4 = 0).
Proof.
  intros m a f WF Ef.
  destruct (ser_facts kf a WF) as (d2 & tpool2 & groups & ltab & Es & L2 & W2 & Hptr & Hstr & Hnth & Hok2 & Wp & Hlen & Erl & HF & Hperm).
  assert (Efs : file_size_of kf a (d2, tpool2, groups) = 32 + (size a + lenN (pool_bytes a)) + 4 * lenL (rp_of a groups) + 8 * lenL ltab + lenN (p_raw tpool2))
    by (eapply file_size_fsz; eassumption).
  assert (FSZ : small32 (32 + (size a + lenN (pool_bytes a)) + 4 * lenL (rp_of a groups) + 8 * lenL ltab + lenN (p_raw tpool2))).
  { pose proof Ef as Ef2. rewrite serialize_unfold, Es in Ef2. cbn [bind] in Ef2. rewrite assemble_guard, Efs in Ef2.
    destruct (N.leb_spec (32 + (size a + lenN (pool_bytes a)) + 4 * lenL (rp_of a groups) + 8 * lenL ltab + lenN (p_raw tpool2)) 4294967295) as [H|H];
      [unfold small32, U32; lia | discriminate]. }
  assert (SZ : small32 (size a)) by (unfold small32 in *; lia).
  assert (E : f = image_of a d2 tpool2 groups ltab).
  { rewrite serialize_unfold, Es in Ef. cbn [bind] in Ef. rewrite (assemble_ok kf a d2 tpool2 groups ltab) in Ef by assumption.
    inversion Ef. reflexivity. }
  assert (LI : lenN (image_of a d2 tpool2 groups ltab)
               = 32 + (size a + lenN (pool_bytes a)) + 4 * lenL (rp_of a groups) + 8 * lenL ltab + lenN (p_raw tpool2))
    by (eapply lenN_image; eassumption).
  exists (rp_of a groups), ltab, (p_raw tpool2). cbv zeta. rewrite (published_eq a d2 tpool2 groups Es). cbn [c_data].
  assert (Ld : lenN (d2 ++ pool_bytes a) = size a + lenN (pool_bytes a)) by (rewrite lenN_app, L2; reflexivity).
  split; [|split; [|split; [|split; [|split]]]].
  - rewrite E at 2. rewrite LI, Ld. rewrite E. reflexivity.
  - rewrite E, LI. exact FSZ.
  - exact Ld.
  - apply Forall_forall. intros c Hc. rewrite Ld. apply (Permutation_in _ (rp_cells a WF SZ groups Hperm)) in Hc.
    pose proof (wf_cells_in a WF c Hc). lia.
  - assert (HF' : Forall2 (fun (x : N * N) (y : N * bytes) => fst x <= lenN (d2 ++ pool_bytes a) /\ snd x < lenN (p_raw tpool2))
                    ltab (label_names (lab_sorted kf a))).
    { eapply Forall2_In_impl; [apply (names_wf kf a WF) | | exact HF]. intros [addr off] [k l] (Hk & _ & _) [E1 Hh]. cbn [fst snd] in *. subst.
      apply holds_bound in Hh. rewrite Ld. split; lia. }
    clear -HF'. induction HF'; constructor; auto.
  - intros Hal. destruct (pool_bytes_shape a) as (k & _ & _ & Hp). rewrite Ld. split; lia.
Qed.

End Theorems.

(* ------------------------------------------------------------------ non-vacuity *)
(* a mixed big-endian archive: string at 0, pending c-string at 4, pointer at 8, two labels on the
   end address, data length 14 (not a multiple of 4) *)
Definition ex_archive : archive :=
  {| a_data := [1;2;3;4;5;6;7;8;9;10;11;12;13;14];
     a_text := [(0, [104;105])];
     a_ptrs := [(8, 2)];
     a_labels := [(14, [[76;49]; [76;50]])];
     a_cstrs := [([99;115], [4])];
     a_endian := BE |}.

Ltac in_cases H := repeat (destruct H as [H|H]; [inversion H; subst; clear H|]); try destruct H.
Ltac wfb_list := apply wfbb_spec; vm_compute; reflexivity.
Ltac no_zero := let H := fresh in intros H; cbn in H; intuition discriminate.

Example ex_archive_wf : wf_archive ex_archive /\ fits32 ex_archive.
Proof.
  split; [|vm_compute; reflexivity]. constructor.
  - change (cells ex_archive) with [8; 0; 4]. repeat constructor; cbn; intuition discriminate.
  - change (cells ex_archive) with [8; 0; 4]. intros c H. in_cases H; vm_compute; discriminate.
  - change (cells ex_archive) with [8; 0; 4]. intros c c' H H'. in_cases H; in_cases H'; intros Hne; try congruence; unfold sep; lia.
  - intros c t H. cbn in H. in_cases H. vm_compute. discriminate.
  - cbn. repeat constructor. intros [].
  - intros k b H. cbn in H. in_cases H. split; [vm_compute; discriminate|]. split; [discriminate|].
    repeat constructor; try no_zero; wfb_list.
  - intros c s H. cbn in H. in_cases H. split; [no_zero | wfb_list].
  - cbn. repeat constructor. intros [].
  - intros s cs H. cbn in H. in_cases H. split; [discriminate|]. split; [no_zero | wfb_list].
  - wfb_list.
Qed.

(* the statements evaluated on it: the image, its published content, and what the parser makes of it *)
Example ex_archive_image :
  serialize_k key_bytes Checked ex_archive =
    Ok [0;0;0;87; 0;0;0;18; 0;0;0;3; 0;0;0;2; 0;0;0;0;0;0;0;0;0;0;0;0;0;0;0;0;
        0;0;0;52; 0;0;0;14; 0;0;0;2; 13;14; 99;115;0;0;
        0;0;0;4; 0;0;0;8; 0;0;0;0;  0;0;0;14; 0;0;0;0; 0;0;0;14; 0;0;0;3;
        76;49;0; 76;50;0; 104;105;0]
  /\ published key_bytes ex_archive =
     {| c_data := [0;0;0;52; 0;0;0;14; 0;0;0;2; 13;14; 99;115;0;0];
        c_ptrs := [(8, 2); (4, 14)]; c_text := [(0, [104;105])]; c_labels := [(14, [[76;49]; [76;50]])] |}.
Proof. split; vm_compute; reflexivity. Qed.
