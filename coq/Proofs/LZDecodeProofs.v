(* The decoder of mila (LZDecode.decompress_lz) against the specification side (LZSpec):
   on every stream the strict parser accepts, in either arithmetic mode, it returns the expansion
   of the parsed tokens (C11 "conforming"), hence decompress . compress = id (C08/C09). *)
From Coq Require Import List NArith Arith Lia Bool ZifyBool ZifyNat ZifyN.
From Mila Require Import Lib.Bytes Lib.Machine Model.LZCore Model.LZSpec Model.LZDecode Proofs.LZBits Proofs.LZCoreProofs.
Import ListNotations.
Local Open Scope N_scope.

Ltac bits2arith :=
  rewrite ?N_shiftr_div, ?N_shiftl_mul, ?N_land_15, ?N_land_255, ?N_land_240, ?N_land_1;
  change (2 ^ 4) with 16 in *; change (2 ^ 8) with 256 in *; change (2 ^ 12) with 4096 in *;
  change (2 ^ 16) with 65536 in *; change (2 ^ 24) with 16777216 in *.

(* ---------------------------------------------------------------- the Vec representation *)
Definition vwf (o : vec) : Prop := v_len o = lenN (v_rev o).

Lemma v_list_rev o : v_list o = rev (v_rev o).
Proof. unfold v_list. rewrite rev_append_rev, app_nil_r. reflexivity. Qed.

Lemma v_list_length o : vwf o -> length (v_list o) = N.to_nat (v_len o).
Proof. intros H. rewrite v_list_rev, rev_length. unfold vwf, lenN in H. lia. Qed.

Lemma v_list_push o b : v_list (v_push o b) = v_list o ++ [b].
Proof. rewrite !v_list_rev. reflexivity. Qed.

Lemma vwf_push o b : vwf o -> vwf (v_push o b).
Proof. unfold vwf, v_push, lenN. cbn [v_rev v_len length]. lia. Qed.

Lemma vwf_empty : vwf v_empty.
Proof. reflexivity. Qed.

Lemma nth_error_rev {A} (l : list A) i : (i < length l)%nat -> nth_error (rev l) i = nth_error l (length l - S i).
Proof.
  intros H. destruct l as [|d l'] eqn:E; [cbn in H; lia|]. rewrite <- E in *.
  rewrite (nth_error_nth' (rev l) d) by (rewrite rev_length; lia).
  rewrite (nth_error_nth' l d) by lia. f_equal. apply rev_nth. exact H.
Qed.

Lemma v_get_spec o i : vwf o -> i < v_len o ->
  exists v, v_get o i = Ok v /\ nth_error (v_list o) (N.to_nat i) = Some v.
Proof.
  intros Hw Hi. unfold v_get. destruct (N.ltb_spec i (v_len o)) as [_|Hc]; [|lia].
  unfold vwf, lenN in Hw.
  rewrite v_list_rev. rewrite nth_error_rev by lia.
  replace (length (v_rev o) - S (N.to_nat i))%nat with (N.to_nat (v_len o - 1 - i)) by lia.
  destruct (nth_error (v_rev o) (N.to_nat (v_len o - 1 - i))) as [v|] eqn:E; [eauto|].
  apply nth_error_None in E. lia.
Qed.

(* for i in start..start+length { out.push(out[i]) }  is LZCore.copy *)
Lemma copy_loop_spec : forall n o i, vwf o -> i < v_len o ->
  exists o', copy_loop n o i = Ok o' /\ vwf o' /\ v_len o' = v_len o + N.of_nat n /\
             copy n (v_list o) (N.to_nat i) = Some (v_list o').
Proof.
  induction n as [|n IH]; intros o i Hw Hi.
  - exists o. cbn [copy_loop copy]. repeat split; [exact Hw | lia].
  - destruct (v_get_spec o i Hw Hi) as (v & Hg & Hn).
    destruct (IH (v_push o v) (i + 1) (vwf_push o v Hw) ltac:(cbn [v_push v_len]; lia)) as (o' & Hc & Hw' & Hl & Hcp).
    exists o'. cbn [copy_loop copy]. rewrite Hg, Hn. cbn [bind]. rewrite Hc.
    repeat split; [exact Hw' | cbn [v_push v_len] in Hl; lia|].
    rewrite v_list_push in Hcp. replace (S (N.to_nat i)) with (N.to_nat (i + 1)) by lia. exact Hcp.
Qed.

(* ---------------------------------------------------------------- one reference token *)
Definition is11 (v : version) : bool := match v with V10 => false | V11 => true end.

Lemma wfb_cons_inv b bs : wfb (b :: bs) -> b < 256 /\ wfb bs.
Proof. intros H. inversion H; subst. split; assumption. Qed.

Lemma dec_ref_stoken v b0 b1 bs len disp bs' :
  wfb (b0 :: b1 :: bs) ->
  stoken v (b0 :: b1 :: bs) = Some (len, disp, bs') ->
  dec_ref (is11 v) b0 b1 bs = Ok (len, disp - 1, bs') /\ 1 <= disp /\ wfb bs' /\ (length bs' <= length bs)%nat.
Proof.
  intros Hw Hs. apply wfb_cons_inv in Hw. destruct Hw as [H0 Hw]. apply wfb_cons_inv in Hw. destruct Hw as [H1 Hw].
  unfold stoken in Hs. unfold dec_ref. destruct v; cbn [is11 negb].
  - inversion Hs; subst; clear Hs. bits2arith. rewrite N_lor_256 by exact H1.
    split; [|split; [lia | split; [exact Hw | lia]]]. do 2 f_equal. f_equal. lia.
  - bits2arith.
    destruct (N.leb_spec 2 (b0 / 16)) as [H2|H2].
    + inversion Hs; subst; clear Hs. destruct (N.ltb_spec 1 (b0 / 16)) as [_|Hc]; [|lia].
      rewrite N_lor_256 by exact H1.
      split; [|split; [lia | split; [exact Hw | lia]]]. do 2 f_equal. f_equal. lia.
    + destruct (N.ltb_spec 1 (b0 / 16)) as [Hc|_]; [lia|].
      destruct (N.eqb_spec (b0 / 16) 0) as [Hz|Hz].
      * destruct bs as [|b2 r']; [discriminate|]. inversion Hs; subst; clear Hs.
        apply wfb_cons_inv in Hw. destruct Hw as [H2' Hw]. cbn [next bind]. bits2arith.
        rewrite N_lor_16 by lia. rewrite N_lor_256 by exact H2'.
        split; [|split; [lia | split; [exact Hw | cbn [length]; lia]]]. do 2 f_equal. f_equal. lia.
      * destruct bs as [|b2 [|b3 r']]; try discriminate. inversion Hs; subst; clear Hs.
        apply wfb_cons_inv in Hw. destruct Hw as [H2' Hw]. apply wfb_cons_inv in Hw. destruct Hw as [H3 Hw].
        cbn [next bind]. bits2arith.
        rewrite N_lor_4096 by lia.
        replace (b0 mod 16 * 4096 + b1 * 16) with ((b0 mod 16 * 256 + b1) * 16) by lia.
        rewrite N_lor_16 by lia. rewrite N_lor_256 by exact H3.
        split; [|split; [lia | split; [exact Hw | cbn [length]; lia]]]. do 2 f_equal. f_equal; lia.
Qed.

Lemma stoken_shape v bs len disp bs' : stoken v bs = Some (len, disp, bs') -> exists b0 b1 r, bs = b0 :: b1 :: r.
Proof. unfold stoken. destruct bs as [|b0 [|b1 r]]; try discriminate. eauto. Qed.

(* ---------------------------------------------------------------- one group of up to eight tokens *)
Lemma bits_loop_sgroup m v : forall k F bs o prod total ts r p,
  wfb bs -> vwf o -> v_len o = prod ->
  sgroup v k F bs prod total = Some (ts, r, p) ->
  exists o', bits_loop m (is11 v) k F bs o total = Ok (r, o') /\ vwf o' /\ v_len o' = p /\
             expand_from ts (v_list o) = Some (v_list o') /\ wfb r /\ (length r <= length bs)%nat.
Proof.
  induction k as [|k IH]; intros F bs o prod total ts r p Hwb Hwo Hlen Hs.
  - cbn [sgroup] in Hs. inversion Hs; subst. exists o. cbn [bits_loop expand_from]. repeat split; auto.
  - subst prod. cbn [sgroup] in Hs. cbn [bits_loop].
    destruct (N.leb_spec total (v_len o)) as [Hstop|Hgo].
    { inversion Hs; subst. exists o. cbn [expand_from]. repeat split; auto. }
    rewrite N_flag_test. destruct (N.testbit F (N.of_nat k)) eqn:Eb; cbn [negb].
    + destruct (stoken v bs) as [[[len disp] bs']|] eqn:Est; [|discriminate].
      destruct (N.leb_spec disp (v_len o)) as [Hreach|_]; [|discriminate].
      destruct (sgroup v k F bs' (v_len o + len) total) as [[[ts' r'] p']|] eqn:Erec; [|discriminate].
      inversion Hs; subst ts r p; clear Hs.
      destruct (stoken_shape v bs len disp bs' Est) as (b0 & b1 & r0 & ->).
      destruct (dec_ref_stoken v b0 b1 r0 len disp bs' Hwb Est) as (Hd & Hd1 & Hwb' & Hl').
      cbn [next bind]. rewrite Hd. cbn [bind].
      destruct (N.leb_spec (v_len o) (disp - 1)) as [Hc|_]; [lia|].
      rewrite (sub_w_ok W64 m (v_len o) (disp - 1)) by lia. cbn [bind].
      rewrite (sub_w_ok W64 m (v_len o - (disp - 1)) 1) by lia. cbn [bind].
      destruct (copy_loop_spec (N.to_nat len) o (v_len o - (disp - 1) - 1) Hwo ltac:(lia)) as (o1 & Hc & Hw1 & Hl1 & Hcp).
      rewrite Hc. cbn [bind].
      destruct (IH F bs' o1 (v_len o + len) total ts' r' p' Hwb' Hw1 ltac:(lia) Erec) as (o' & Hb & Hw' & Hp' & Hex & Hwr & Hlr).
      exists o'. rewrite Hb. repeat split; auto; [|cbn [length]; lia].
      cbn [expand_from]. rewrite (v_list_length o Hwo).
      destruct (Nat.leb_spec 1 (N.to_nat disp)) as [_|Hc1]; [|lia].
      destruct (Nat.leb_spec (N.to_nat disp) (N.to_nat (v_len o))) as [_|Hc2]; [|lia].
      cbn [andb].
      replace (N.to_nat (v_len o) - N.to_nat disp)%nat with (N.to_nat (v_len o - (disp - 1) - 1)) by lia.
      rewrite Hcp. exact Hex.
    + destruct bs as [|b bs']; [discriminate|].
      destruct (sgroup v k F bs' (v_len o + 1) total) as [[[ts' r'] p']|] eqn:Erec; [|discriminate].
      inversion Hs; subst ts r p; clear Hs.
      apply wfb_cons_inv in Hwb. destruct Hwb as [Hb Hwb'].
      cbn [next bind].
      destruct (IH F bs' (v_push o b) (v_len o + 1) total ts' r' p' Hwb' (vwf_push o b Hwo) ltac:(cbn [v_push v_len]; lia) Erec)
        as (o' & Hbl & Hw' & Hp' & Hex & Hwr & Hlr).
      exists o'. rewrite Hbl. repeat split; auto; [|cbn [length]; lia].
      cbn [expand_from]. rewrite <- v_list_push. exact Hex.
Qed.

(* ---------------------------------------------------------------- the whole body *)
Lemma expand_from_app : forall a b out,
  expand_from (a ++ b) out = match expand_from a out with Some o => expand_from b o | None => None end.
Proof.
  induction a as [|t a IH]; intros b out; cbn [app expand_from]; [reflexivity|].
  destruct t as [c|len disp]; [apply IH|].
  destruct (andb _ _); [|reflexivity]. destruct (copy len out _); [apply IH | reflexivity].
Qed.

Lemma dec_loop_sgroups m v : forall fuel bs o prod total ts fuel',
  wfb bs -> vwf o -> v_len o = prod ->
  sgroups v fuel bs prod total = Some ts ->
  (length bs < fuel')%nat ->
  exists o', dec_loop m (is11 v) fuel' bs o total = Ok o' /\ vwf o' /\ v_len o' = total /\
             expand_from ts (v_list o) = Some (v_list o').
Proof.
  induction fuel as [|fuel IH]; intros bs o prod total ts fuel' Hwb Hwo Hlen Hs Hf.
  - cbn [sgroups] in Hs.
    destruct (N.eqb_spec prod total) as [E|E].
    + destruct bs; [|discriminate]. inversion Hs; subst ts.
      exists o. destruct fuel'; cbn [dec_loop]; rewrite Hlen;
        (destruct (N.leb_spec total prod); [|lia]); cbn [expand_from]; repeat split; auto; lia.
    + destruct (N.ltb_spec total prod); discriminate.
  - cbn [sgroups] in Hs.
    destruct (N.eqb_spec prod total) as [E|E].
    + destruct bs; [|discriminate]. inversion Hs; subst ts.
      exists o. destruct fuel'; cbn [dec_loop]; rewrite Hlen;
        (destruct (N.leb_spec total prod); [|lia]); cbn [expand_from]; repeat split; auto; lia.
    + destruct (N.ltb_spec total prod) as [Hc|Hlt]; [discriminate|].
      destruct bs as [|flag bs']; [discriminate|].
      destruct (sgroup v 8 flag bs' prod total) as [[[ts1 r] p]|] eqn:Eg; [|discriminate].
      destruct (sgroups v fuel r p total) as [ts2|] eqn:Er; [|discriminate].
      inversion Hs; subst ts; clear Hs.
      apply wfb_cons_inv in Hwb. destruct Hwb as [_ Hwb'].
      destruct (bits_loop_sgroup m v 8 flag bs' o prod total ts1 r p Hwb' Hwo Hlen Eg) as (o1 & Hb & Hw1 & Hp1 & Hex1 & Hwr & Hlr).
      destruct fuel' as [|f']; [lia|]. cbn [length] in Hf.
      destruct (IH r o1 p total ts2 f' Hwr Hw1 Hp1 Er ltac:(lia)) as (o' & Hd & Hw' & Hl' & Hex2).
      exists o'. cbn [dec_loop]. rewrite Hlen. destruct (N.leb_spec total prod) as [Hc|_]; [lia|].
      cbn [next bind]. rewrite Hb. cbn [bind]. rewrite Hd.
      repeat split; auto. rewrite expand_from_app, Hex1. exact Hex2.
Qed.

Lemma sbody_decode m v body total ts : wfb body -> sbody v body total = Some ts ->
  exists x, dec_loop m (is11 v) (S (length body)) body v_empty total = Ok x /\ vwf x /\ v_len x = total /\
            expand ts = Some (v_list x).
Proof.
  intros Hw Hs. unfold sbody in Hs.
  destruct (dec_loop_sgroups m v _ body v_empty 0 total ts (S (length body)) Hw vwf_empty eq_refl Hs ltac:(lia))
    as (o' & Hd & Hw' & Hl & Hex).
  exists o'. repeat split; auto.
Qed.

(* ---------------------------------------------------------------- headers *)
Lemma size24 l0 l1 l2 : l0 < 256 -> l1 < 256 -> l2 < 256 ->
  N.lor (N.lor l0 (N.shiftl l1 8)) (N.shiftl l2 16) = l0 + 256 * l1 + 65536 * l2.
Proof.
  intros H0 H1 H2. bits2arith.
  rewrite (N.lor_comm l0), N_lor_256 by exact H0.
  rewrite N.lor_comm, N_lor_65536 by lia. lia.
Qed.

Lemma size32 l0 l1 l2 l3 : l0 < 256 -> l1 < 256 -> l2 < 256 -> l3 < 256 ->
  N.lor (N.lor (N.lor l0 (N.shiftl l1 8)) (N.shiftl l2 16)) (N.shiftl l3 24) = l0 + 256 * l1 + 65536 * l2 + 16777216 * l3.
Proof.
  intros H0 H1 H2 H3. rewrite size24 by assumption. bits2arith.
  rewrite N.lor_comm, N_lor_2p24 by lia. lia.
Qed.

Ltac red_disc H := cbv beta iota in H; try discriminate H.

Lemma sparse10_inv s n ts : sparse10 s = Some (n, ts) ->
  wfb s /\ exists l0 l1 l2 body, s = 16 :: l0 :: l1 :: l2 :: body /\ n = l0 + 256 * l1 + 65536 * l2 /\ sbody V10 body n = Some ts.
Proof.
  intros H. unfold sparse10 in H. destruct (wfbb s) eqn:Ew; cbn [negb] in H; [|discriminate H].
  apply wfbb_spec in Ew. split; [exact Ew|].
  destruct s as [|t s]; red_disc H.
  destruct t as [|p]; red_disc H.
  destruct p as [p|p|]; red_disc H. destruct p as [p|p|]; red_disc H.
  destruct p as [p|p|]; red_disc H. destruct p as [p|p|]; red_disc H.
  destruct p as [p|p|]; red_disc H.
  destruct s as [|l0 s]; red_disc H. destruct s as [|l1 s]; red_disc H. destruct s as [|l2 body]; red_disc H.
  destruct (sbody V10 body (l0 + 256 * l1 + 65536 * l2)) as [ts'|] eqn:Eb; [|discriminate H].
  inversion H; subst n ts. exists l0, l1, l2, body. repeat split. exact Eb.
Qed.

Theorem decode_sparse10 m s n ts : sparse10 s = Some (n, ts) ->
  exists x, expand ts = Some x /\ decompress_lz m s = Ok x /\ lenN x = n.
Proof.
  intros H. destruct (sparse10_inv s n ts H) as (Ew & l0 & l1 & l2 & body & -> & Hn & Eb).
  apply wfb_cons_inv in Ew. destruct Ew as [_ Ew].
  apply wfb_cons_inv in Ew. destruct Ew as [H0 Ew].
  apply wfb_cons_inv in Ew. destruct Ew as [H1 Ew].
  apply wfb_cons_inv in Ew. destruct Ew as [H2 Ew].
  destruct (sbody_decode m V10 body _ ts Ew Eb) as (o & Hd & Hw & Hl & Hex).
  exists (v_list o). split; [exact Hex|]. split.
  - unfold decompress_lz. cbn [next bind]. change (16 =? 16) with true. cbv beta iota. cbn [bind next].
    rewrite size24 by assumption. rewrite Bool.andb_false_r. rewrite <- Hn. cbn [bind is11] in *. rewrite Hd. reflexivity.
  - unfold lenN. rewrite (v_list_length o Hw). lia.
Qed.

Lemma sparse11_inv s n ts : sparse11 s = Some (n, ts) ->
  wfb s /\ exists l0 l1 l2 body, s = 17 :: l0 :: l1 :: l2 :: body /\
    ((l0 + 256 * l1 + 65536 * l2 <> 0 /\ n = l0 + 256 * l1 + 65536 * l2 /\ sbody V11 body n = Some ts) \/
     (l0 + 256 * l1 + 65536 * l2 = 0 /\ exists m0 m1 m2 m3 body', body = m0 :: m1 :: m2 :: m3 :: body' /\
        n = m0 + 256 * m1 + 65536 * m2 + 16777216 * m3 /\ sbody V11 body' n = Some ts)).
Proof.
  intros H. unfold sparse11 in H. destruct (wfbb s) eqn:Ew; cbn [negb] in H; [|discriminate H].
  apply wfbb_spec in Ew. split; [exact Ew|].
  destruct s as [|t s]; red_disc H.
  destruct t as [|p]; red_disc H.
  destruct p as [p|p|]; red_disc H. destruct p as [p|p|]; red_disc H.
  destruct p as [p|p|]; red_disc H. destruct p as [p|p|]; red_disc H.
  destruct p as [p|p|]; red_disc H.
  destruct s as [|l0 s]; red_disc H. destruct s as [|l1 s]; red_disc H. destruct s as [|l2 body]; red_disc H.
  exists l0, l1, l2, body. split; [reflexivity|].
  destruct (N.eqb_spec (l0 + 256 * l1 + 65536 * l2) 0) as [E|E].
  - right. split; [exact E|].
    destruct body as [|m0 body]; red_disc H. destruct body as [|m1 body]; red_disc H.
    destruct body as [|m2 body]; red_disc H. destruct body as [|m3 body']; red_disc H.
    destruct (sbody V11 body' (m0 + 256 * m1 + 65536 * m2 + 16777216 * m3)) as [ts'|] eqn:Eb; [|discriminate H].
    inversion H; subst n ts. exists m0, m1, m2, m3, body'. repeat split. exact Eb.
  - left. split; [exact E|].
    destruct (sbody V11 body (l0 + 256 * l1 + 65536 * l2)) as [ts'|] eqn:Eb; [|discriminate H].
    inversion H; subst n ts. split; [reflexivity | exact Eb].
Qed.

Theorem decode_sparse11 m s n ts : sparse11 s = Some (n, ts) ->
  exists x, expand ts = Some x /\ decompress_lz m s = Ok x /\ lenN x = n.
Proof.
  intros H. destruct (sparse11_inv s n ts H) as (Ew & l0 & l1 & l2 & body & -> & Hcase).
  apply wfb_cons_inv in Ew. destruct Ew as [_ Ew].
  apply wfb_cons_inv in Ew. destruct Ew as [H0 Ew].
  apply wfb_cons_inv in Ew. destruct Ew as [H1 Ew].
  apply wfb_cons_inv in Ew. destruct Ew as [H2 Ew].
  unfold decompress_lz. cbn [next bind]. change (17 =? 16) with false. change (17 =? 17) with true. cbv beta iota. cbn [bind next].
  rewrite size24 by assumption.
  destruct Hcase as [(Hnz & Hn & Eb) | (Hz & m0 & m1 & m2 & m3 & body' & -> & Hn & Eb)].
  - destruct (N.eqb_spec (l0 + 256 * l1 + 65536 * l2) 0) as [E|_]; [congruence|]. cbn [andb bind].
    destruct (sbody_decode m V11 body _ ts Ew Eb) as (o & Hd & Hw & Hl & Hex).
    exists (v_list o). split; [exact Hex|]. split.
    + rewrite <- Hn. cbn [is11] in Hd. rewrite Hd. reflexivity.
    + unfold lenN. rewrite (v_list_length o Hw). lia.
  - rewrite Hz. cbn [N.eqb andb bind next].
    apply wfb_cons_inv in Ew. destruct Ew as [G0 Ew].
    apply wfb_cons_inv in Ew. destruct Ew as [G1 Ew].
    apply wfb_cons_inv in Ew. destruct Ew as [G2 Ew].
    apply wfb_cons_inv in Ew. destruct Ew as [G3 Ew].
    rewrite size32 by assumption.
    destruct (sbody_decode m V11 body' _ ts Ew Eb) as (o & Hd & Hw & Hl & Hex).
    exists (v_list o). split; [exact Hex|]. split.
    + rewrite <- Hn. cbn [is11] in Hd. rewrite Hd. reflexivity.
    + unfold lenN. rewrite (v_list_length o Hw). lia.
Qed.

(* ---------------------------------------------------------------- the entry points *)
Lemma lenN_ge4 a b c d r : (lenN (a :: b :: c :: d :: r) <? 4) = false.
Proof. unfold lenN. cbn [length]. destruct (N.ltb_spec (N.of_nat (S (S (S (S (length r)))))) 4); [lia | reflexivity]. Qed.

(* the 0x13 wrapper is stripped: four bytes, the three after the type byte are not looked at *)
Theorem lz13_wrapped m a b c s : lz13_decompress m (0x13 :: a :: b :: c :: s) = decompress_lz m s.
Proof. unfold lz13_decompress. rewrite lenN_ge4. reflexivity. Qed.

(* a bare LZ10 / LZ11 stream is passed through *)
Theorem lz13_bare m t a b c s : t <> 0 -> t <> 0x13 ->
  lz13_decompress m (t :: a :: b :: c :: s) = decompress_lz m (t :: a :: b :: c :: s).
Proof.
  intros H0 H13. unfold lz13_decompress. rewrite lenN_ge4.
  destruct (N.eqb_spec t 0) as [E|_]; [congruence|]. destruct (N.eqb_spec t 19) as [E|_]; [congruence|]. reflexivity.
Qed.

(* the type-0 stored form *)
Theorem lz13_stored m a b c p : lz13_decompress m (0 :: a :: b :: c :: p) = Ok p.
Proof. unfold lz13_decompress. rewrite lenN_ge4. reflexivity. Qed.

(* fewer than four bytes: an error (the repair of F13) *)
Theorem lz13_short m s : (length s < 4)%nat -> lz13_decompress m s = Err EInvalidInput.
Proof.
  intros H. unfold lz13_decompress. unfold lenN.
  destruct (N.ltb_spec (N.of_nat (length s)) 4); [reflexivity | lia].
Qed.

Theorem lz_short m s : (length s < 4)%nat -> decompress_lz m s = Err EInvalidInput.
Proof.
  intros H. unfold decompress_lz.
  destruct s as [|t [|a [|b [|c r]]]]; cbn [length] in H; try lia; cbn [next bind]; try reflexivity;
    (destruct (t =? 16); [|destruct (t =? 17)]; reflexivity).
Qed.

Theorem lz_unknown_type m t s : t <> 0x10 -> t <> 0x11 -> decompress_lz m (t :: s) = Err EInvalidInput.
Proof.
  intros H0 H1. unfold decompress_lz. cbn [next bind].
  destruct (N.eqb_spec t 16) as [E|_]; [congruence|]. destruct (N.eqb_spec t 17) as [E|_]; [congruence|]. reflexivity.
Qed.
