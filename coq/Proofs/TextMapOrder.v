(* Order of keys = order of birth (property C07): the key list of the archive after any
   history is exactly the list of keys that are alive, sorted by the index of the
   operation that (re-)inserted them. *)
From Coq Require Import List NArith Arith Lia Bool Sorted.
From Mila Require Import Model.TextMap Proofs.TextMapProofs.
Import ListNotations.

Definition is_set (k : str) (o : top) : bool := match o with TSet k' _ => str_eqb k k' | _ => false end.
Definition is_del (k : str) (o : top) : bool := match o with TDel k' => str_eqb k k' | _ => false end.

(* specification, independent of the map: index of the first set of k after the last delete of k *)
Definition birth_step (k : str) (i : nat) (cur : option nat) (o : top) : option nat :=
  if is_set k o then match cur with Some b => Some b | None => Some i end
  else if is_del k o then None else cur.
Fixpoint birth_from (ops : list top) (k : str) (i : nat) (cur : option nat) : option nat :=
  match ops with
  | [] => cur
  | o :: r => birth_from r k (S i) (birth_step k i cur o)
  end.
Definition birth (ops : list top) (k : str) : option nat := birth_from ops k 0 None.

Lemma birth_from_app a b k i cur :
  birth_from (a ++ b) k i cur = birth_from b k (i + length a) (birth_from a k i cur).
Proof.
  revert i cur; induction a as [|o a IH]; intros i cur; cbn [app birth_from length].
  - rewrite Nat.add_0_r. reflexivity.
  - rewrite IH. f_equal. lia.
Qed.

Lemma birth_snoc ops o k : birth (ops ++ [o]) k = birth_step k (length ops) (birth ops k) o.
Proof. unfold birth. rewrite birth_from_app. reflexivity. Qed.

Definition order_inv (ops : list top) (kb : list (str * nat)) : Prop :=
  map fst kb = tm_keys (tm_run ops) /\
  Forall (fun p => birth ops (fst p) = Some (snd p) /\ snd p < length ops) kb /\
  StronglySorted lt (map snd kb) /\
  (forall k, ~ In k (tm_keys (tm_run ops)) -> birth ops k = None).

Lemma sorted_filter {A} (f : A -> nat) (p : A -> bool) l :
  StronglySorted lt (map f l) -> StronglySorted lt (map f (filter p l)).
Proof.
  induction l as [|a l IH]; cbn [map filter]; intros H; [constructor|].
  inversion H as [|? ? Hl Ha]; subst. destruct (p a); cbn [map]; [|apply IH; exact Hl].
  constructor; [apply IH; exact Hl|]. rewrite Forall_forall in *. intros x Hx.
  apply Ha. rewrite in_map_iff in *. destruct Hx as (y & <- & Hy). exists y. split; [reflexivity|].
  apply filter_In in Hy. tauto.
Qed.

Lemma sorted_snoc l n : StronglySorted lt l -> Forall (fun x => x < n) l -> StronglySorted lt (l ++ [n]).
Proof.
  induction l as [|a l IH]; cbn [app]; intros Hs Hf.
  - constructor; constructor.
  - inversion Hs as [|? ? Hl Ha]; inversion Hf as [|? ? Han Hfl]; subst. constructor; [apply IH; assumption|].
    apply Forall_app. split; [exact Ha | constructor; [exact Han | constructor]].
Qed.

Lemma map_fst_filter (p : str -> bool) (kb : list (str * nat)) :
  map fst (filter (fun q => p (fst q)) kb) = filter p (map fst kb).
Proof. induction kb as [|[k b] r IH]; cbn [filter map fst]; [reflexivity|]. destruct (p k); cbn [map fst]; congruence. Qed.

Lemma order_invariant ops : exists kb, order_inv ops kb.
Proof.
  induction ops as [|o ops [kb (Hk & Hb & Hs & Hn)]] using rev_ind.
  - exists []. repeat split; try constructor. 
  - pose proof (run_nodup ops) as Hnd.
    destruct o as [k' m|k'|k'|k'|s].
    + (* set *)
      destruct (in_dec (list_eq_dec N.eq_dec) k' (tm_keys (tm_run ops))) as [Hin|Hnin].
      * exists kb. unfold order_inv. rewrite tm_run_snoc. cbn [tm_step fst]. unfold tm_keys, tm_set. cbn [t_entries].
        rewrite e_set_present by exact Hin. repeat split.
        -- exact Hk.
        -- rewrite Forall_forall in *. intros [k b] Hp. specialize (Hb _ Hp). cbn [fst snd] in *. destruct Hb as [Hb Hlt].
           rewrite birth_snoc, app_length, Hb. cbn [length]. split; [|lia]. unfold birth_step, is_set, is_del.
           destruct (str_eqb k k'); reflexivity.
        -- exact Hs.
        -- intros k Hk'. rewrite birth_snoc, (Hn k Hk'). unfold birth_step, is_set, is_del.
           rewrite str_eqb_neq; [reflexivity|]. intros ->. apply Hk'. exact Hin.
      * exists (kb ++ [(k', length ops)]). unfold order_inv. rewrite tm_run_snoc. cbn [tm_step fst]. unfold tm_keys, tm_set. cbn [t_entries].
        rewrite e_set_absent by exact Hnin. rewrite !map_app. cbn [map fst snd]. repeat split.
        -- f_equal. exact Hk.
        -- apply Forall_app. split.
           ++ rewrite Forall_forall in *. intros [k b] Hp. specialize (Hb _ Hp). cbn [fst snd] in *. destruct Hb as [Hb Hlt].
              rewrite birth_snoc, app_length, Hb. cbn [length]. split; [|lia]. unfold birth_step, is_set, is_del.
              destruct (str_eqb k k'); reflexivity.
           ++ constructor; [|constructor]. cbn [fst snd]. rewrite birth_snoc, (Hn k' Hnin), app_length. cbn [length].
              unfold birth_step, is_set. rewrite str_eqb_refl. split; [reflexivity | lia].
        -- apply sorted_snoc; [exact Hs|]. rewrite Forall_map. eapply Forall_impl; [|exact Hb]. cbn. tauto.
        -- intros k Hk'. rewrite in_app_iff in Hk'. cbn [In] in Hk'.
           rewrite birth_snoc, (Hn k) by tauto. unfold birth_step, is_set, is_del.
           rewrite str_eqb_neq; [reflexivity|]. intros ->. tauto.
    + (* delete *)
      exists (filter (fun q => negb (str_eqb k' (fst q))) kb). unfold order_inv. rewrite tm_run_snoc. cbn [tm_step fst].
      unfold tm_keys, tm_del. cbn [t_entries]. rewrite e_del_keys by exact Hnd. repeat split.
      -- rewrite (map_fst_filter (fun x => negb (str_eqb k' x))). f_equal. exact Hk.
      -- rewrite Forall_forall in *. intros [k b] Hp. apply filter_In in Hp. destruct Hp as [Hp Hne]. cbn [fst] in Hne.
         specialize (Hb _ Hp). cbn [fst snd] in *. destruct Hb as [Hb Hlt].
         rewrite birth_snoc, app_length, Hb. cbn [length]. split; [|lia]. unfold birth_step, is_set, is_del.
         destruct (str_eqb_spec k' k) as [E|E]; [discriminate|]. rewrite str_eqb_neq by congruence. reflexivity.
      -- apply sorted_filter. exact Hs.
      -- intros k Hk'. rewrite filter_In in Hk'. rewrite birth_snoc. unfold birth_step, is_set, is_del.
         destruct (str_eqb_spec k k') as [E|E]; [reflexivity|].
         apply Hn. intros Hin. apply Hk'. split; [exact Hin|]. rewrite str_eqb_neq by congruence. reflexivity.
    + exists kb. unfold order_inv. rewrite tm_run_snoc. cbn [tm_step fst]. repeat split; try assumption.
      -- rewrite Forall_forall in *. intros p Hp. destruct (Hb p Hp) as [Hb1 Hb2]. rewrite birth_snoc, app_length, Hb1. cbn. split; [reflexivity|lia].
      -- intros k Hk'. rewrite birth_snoc, (Hn k Hk'). reflexivity.
    + exists kb. unfold order_inv. rewrite tm_run_snoc. cbn [tm_step fst]. repeat split; try assumption.
      -- rewrite Forall_forall in *. intros p Hp. destruct (Hb p Hp) as [Hb1 Hb2]. rewrite birth_snoc, app_length, Hb1. cbn. split; [reflexivity|lia].
      -- intros k Hk'. rewrite birth_snoc, (Hn k Hk'). reflexivity.
    + exists kb. unfold order_inv. rewrite tm_run_snoc. cbn [tm_step fst]. repeat split; try assumption.
      -- rewrite Forall_forall in *. intros p Hp. destruct (Hb p Hp) as [Hb1 Hb2]. rewrite birth_snoc, app_length, Hb1. cbn. split; [reflexivity|lia].
      -- intros k Hk'. rewrite birth_snoc, (Hn k Hk'). reflexivity.
Qed.

(* the published form: keys are exactly the alive keys, in strictly increasing order of birth *)
Theorem keys_by_birth ops :
  exists births : list nat,
    Forall2 (fun k b => birth ops k = Some b) (tm_keys (tm_run ops)) births /\
    StronglySorted lt births /\
    (forall k, In k (tm_keys (tm_run ops)) <-> birth ops k <> None).
Proof.
  destruct (order_invariant ops) as (kb & Hk & Hb & Hs & Hn).
  exists (map snd kb). split; [|split; [exact Hs|]].
  - rewrite <- Hk. clear Hk Hs Hn. induction kb as [|[k b] r IH]; cbn [map fst snd]; [constructor|].
    inversion Hb as [|? ? Hp Hr]; subst. constructor; [apply Hp | apply IH; exact Hr].
  - intros k. split.
    + rewrite <- Hk. intros Hin. rewrite in_map_iff in Hin. destruct Hin as ([k0 b] & <- & Hin).
      rewrite Forall_forall in Hb. destruct (Hb _ Hin) as [H _]. cbn [fst snd] in *. congruence.
    + intros Hne. destruct (in_dec (list_eq_dec N.eq_dec) k (tm_keys (tm_run ops))) as [Hin|Hnin]; [exact Hin|].
      exfalso. apply Hne. apply Hn. exact Hnin.
Qed.
