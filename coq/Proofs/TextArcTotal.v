(* C05, text-archive and arc parts, ABSOLUTE statements: Proofs/TextTotal.v and Proofs/ArcTotal.v prove
   totality of the layered readers relative to BinFormat.from_bytes; Proofs/BinTotal.v proves that
   BinFormat.from_bytes never panics on any byte string.  This file adds "BinFormat.from_bytes never
   reports fuel exhaustion" (it has no fuel: its two loops run over the declared table sizes, which the
   header check bounds by the input) and combines the three into statements over EVERY byte string,
   both encodings, both endiannesses, both arithmetic modes. *)
From Coq Require Import List NArith ZArith Bool Lia ZifyBool ZifyNat ZifyN.
From Mila Require Import Lib.Bytes Lib.Machine Model.BinArchive Model.BinStreams Model.BinFormat Model.TextMap Model.TextFormat Model.Arc
  Proofs.BinAccess Proofs.BinTotal Proofs.TextTotal Proofs.ArcTotal.
Import ListNotations.
Local Open Scope N_scope.

(* ---------------------------------------------------------------- BinFormat.from_bytes has no fuel error *)
Lemma bind_Err_inv {A B} (c : outcome A) (k : A -> outcome B) e :
  bind c k = Err e -> c = Err e \/ exists a, c = Ok a /\ k a = Err e.
Proof. destruct c; cbn [bind]; intros H; [right; eauto | left; inversion H; reflexivity | discriminate]. Qed.

Lemma of_option_io_no_fuel {A} (o : option A) : of_option EIo o <> Err EOutOfFuel.
Proof. destruct o; discriminate. Qed.
Lemma check_cell_no_fuel a address w : check_cell a address w <> Err EOutOfFuel.
Proof. rewrite check_cell_spec. destruct (inside a address w); discriminate. Qed.
Lemma read_uint_no_fuel a address w : read_uint a address w <> Err EOutOfFuel.
Proof.
  rewrite read_uint_spec. destruct (inside a address (N.of_nat w)); [|discriminate].
  destruct (sliceN address (N.of_nat w) (a_data a)); discriminate.
Qed.
Lemma write_string_no_fuel a address v : write_string a address v <> Err EOutOfFuel.
Proof.
  destruct v; unfold write_string, delete_string; intros H; apply bind_Err_inv in H;
    destruct H as [H|(x & _ & H)]; try discriminate; exact (check_cell_no_fuel _ _ _ H).
Qed.
Lemma write_pointer_no_fuel a address v : write_pointer a address v <> Err EOutOfFuel.
Proof.
  destruct v; unfold write_pointer, delete_pointer; intros H; apply bind_Err_inv in H;
    destruct H as [H|(x & _ & H)]; try discriminate; exact (check_cell_no_fuel _ _ _ H).
Qed.
Lemma string_at_no_fuel f flen pos : string_at f flen pos <> Err EOutOfFuel.
Proof. unfold string_at. destruct (pos <? flen); [destruct (cstr _)|]; discriminate. Qed.
Lemma validate_address_no_fuel a s b : validate_address a s b <> Err EOutOfFuel.
Proof. unfold validate_address. destruct (orb _ _); discriminate. Qed.

Lemma ptr_loop_no_fuel e f flen dsz : forall n pos a, ptr_loop e f flen dsz n pos a <> Err EOutOfFuel.
Proof.
  induction n as [|n IH]; intros pos a; cbn [ptr_loop]; [discriminate|]. intros H.
  apply bind_Err_inv in H. destruct H as [H|(pa & _ & H)]; [exact (of_option_io_no_fuel _ H)|].
  apply bind_Err_inv in H. destruct H as [H|(pv & _ & H)]; [exact (read_uint_no_fuel _ _ _ H)|].
  destruct (dsz <? pv).
  - apply bind_Err_inv in H. destruct H as [H|(s & _ & H)]; [exact (string_at_no_fuel _ _ _ H)|].
    apply bind_Err_inv in H. destruct H as [H|(a' & _ & H)]; [exact (write_string_no_fuel _ _ _ H) | exact (IH _ _ H)].
  - apply bind_Err_inv in H. destruct H as [H|(a' & _ & H)]; [exact (write_pointer_no_fuel _ _ _ H) | exact (IH _ _ H)].
Qed.
Lemma lbl_loop_no_fuel e f flen tstart : forall n pos a, lbl_loop e f flen tstart n pos a <> Err EOutOfFuel.
Proof.
  induction n as [|n IH]; intros pos a; cbn [lbl_loop]; [discriminate|]. intros H.
  apply bind_Err_inv in H. destruct H as [H|(addr & _ & H)]; [exact (of_option_io_no_fuel _ H)|].
  apply bind_Err_inv in H. destruct H as [H|(off & _ & H)]; [exact (of_option_io_no_fuel _ H)|].
  apply bind_Err_inv in H. destruct H as [H|(s & _ & H)]; [exact (string_at_no_fuel _ _ _ H)|].
  apply bind_Err_inv in H. destruct H as [H|(u & _ & H)]; [exact (validate_address_no_fuel _ _ _ H) | exact (IH _ _ H)].
Qed.

Theorem bin_from_bytes_no_fuel e f : BinFormat.from_bytes e f <> Err EOutOfFuel.
Proof.
  unfold BinFormat.from_bytes, from_bytes_alloc. intros H.
  apply bind_Err_inv in H. destruct H as [H|(r & _ & H)]; [|discriminate].
  destruct (lenN f <? 32); [discriminate|]. unfold u32_file in H.
  apply bind_Err_inv in H. destruct H as [H|(dsz & _ & H)]; [exact (of_option_io_no_fuel _ H)|].
  apply bind_Err_inv in H. destruct H as [H|(pc & _ & H)]; [exact (of_option_io_no_fuel _ H)|].
  apply bind_Err_inv in H. destruct H as [H|(lc & _ & H)]; [exact (of_option_io_no_fuel _ H)|].
  destruct (lenN f <? dsz + 4 * pc + 8 * lc + 32); [discriminate|].
  apply bind_Err_inv in H. destruct H as [H|(d & _ & H)]; [exact (of_option_io_no_fuel _ H)|].
  apply bind_Err_inv in H. destruct H as [H|(a1 & _ & H)]; [exact (ptr_loop_no_fuel _ _ _ _ _ _ _ H)|].
  apply bind_Err_inv in H. destruct H as [H|(a2 & _ & H)]; [exact (lbl_loop_no_fuel _ _ _ _ _ _ _ H) | discriminate].
Qed.

(* ---------------------------------------------------------------- text archive: every byte string *)
Theorem text_from_bytes_never_panics : forall fmt e f k, TextFormat.from_bytes fmt e f <> Panic k.
Proof. intros fmt e f k. apply text_from_bytes_no_panic. intros k'. apply from_bytes_no_panic. Qed.

Theorem text_from_bytes_fuel_suffices : forall fmt e f, TextFormat.from_bytes fmt e f <> Err EOutOfFuel.
Proof. intros fmt e f. apply text_from_bytes_fuel_never_exhausted. apply bin_from_bytes_no_fuel. Qed.

(* the trace entry point used by the C05 correspondence (leg K prints the (label, message) pairs before insertion) *)
Theorem text_from_bytes_trace_never_panics : forall fmt e f k, TextFormat.from_bytes_trace fmt e f <> Panic k.
Proof.
  intros fmt e f k. unfold TextFormat.from_bytes_trace. destruct (BinFormat.from_bytes e f) as [a|er|k'] eqn:E; cbn [bind].
  - apply text_from_archive_trace_no_panic.
  - discriminate.
  - exfalso. exact (from_bytes_no_panic e f k' E).
Qed.

(* anything accepted re-serializes - to Ok, or to the size error when the image would exceed the 32-bit sizes of the format
   (fix 524d15f) - without a panic, in either arithmetic mode and either endianness *)
Theorem text_accepted_reserializes : forall fmt e f t, TextFormat.from_bytes fmt e f = Ok t ->
  forall kf m e', ((exists f', TextFormat.serialize kf m fmt e' t = Ok f') \/ TextFormat.serialize kf m fmt e' t = Err EOther)
                  /\ forall k, TextFormat.serialize kf m fmt e' t <> Panic k.
Proof. intros fmt e f t _ kf m e'. split; [apply text_serialize_ok_or_too_large | intros k; apply text_serialize_no_panic]. Qed.

(* ---------------------------------------------------------------- arc: every byte string, both modes *)
Theorem arc_from_bytes_never_panics : forall m f k, arc_from_bytes m f <> Panic k.
Proof. intros m f k. apply arc_from_bytes_no_panic. intros k'. apply from_bytes_no_panic. Qed.

Theorem arc_from_bytes_fuel_suffices : forall m f, arc_from_bytes m f <> Err EOutOfFuel.
Proof. intros m f. apply arc_from_bytes_fuel_never_exhausted. apply bin_from_bytes_no_fuel. Qed.

Theorem arc_from_bytes_trace_never_panics : forall m f k, arc_from_bytes_trace m f <> Panic k.
Proof.
  intros m f k. unfold arc_from_bytes_trace. destruct (BinFormat.from_bytes LE f) as [a|er|k'] eqn:E; cbn [bind].
  - apply arc_trace_no_panic.
  - discriminate.
  - exfalso. exact (from_bytes_no_panic LE f k' E).
Qed.

(* every extracted body is at most as long as the FILE (no buffer is sized by a size field) *)
Theorem arc_bodies_bounded_by_file : forall f a address sz b,
  BinFormat.from_bytes LE f = Ok a -> fst (r_read_bytes a address sz) = Ok b -> lenN b + 32 <= lenN f.
Proof.
  intros f a address sz b Hp Hb. pose proof (arc_body_never_longer_than_data a address sz b Hb) as H1.
  unfold BinFormat.from_bytes in Hp. destruct (from_bytes_alloc LE f) as [[a0 r]|er|k] eqn:E; cbn [bind fst] in Hp; try discriminate.
  injection Hp as ->. pose proof (from_bytes_alloc_is_request LE f a r E) as Hr. pose proof (resize_request_bounded LE f r Hr) as Hb2.
  assert (Hsz : size a = r); [|lia].
  revert E. unfold from_bytes_alloc. destruct (lenN f <? 32); [discriminate|]. unfold u32_file.
  destruct (u32_at LE f 4) as [dsz|]; cbn [of_option bind]; [|discriminate].
  destruct (u32_at LE f 8) as [pc|]; cbn [of_option bind]; [|discriminate].
  destruct (u32_at LE f 12) as [lc|]; cbn [of_option bind]; [|discriminate].
  destruct (lenN f <? dsz + 4 * pc + 8 * lc + 32); [discriminate|].
  destruct (sliceN 32 dsz f) as [d|] eqn:Ed; cbn [of_option bind]; [|discriminate].
  destruct (ptr_loop _ _ _ _ _ _ _) as [a1|er|k] eqn:E1; cbn [bind]; try discriminate.
  destruct (lbl_loop _ _ _ _ _ _ _) as [a2|er|k] eqn:E2; cbn [bind]; try discriminate.
  intros E. injection E as <- <-.
  apply lbl_loop_keeps in E2. apply ptr_loop_keeps in E1. destruct E1 as [D1 _]. destruct E2 as [D2 _].
  unfold size. rewrite D2, D1. cbn [a_data]. eapply sliceN_length. exact Ed.
Qed.

(* the no-panic half alone, for arbitrary accepted input (what the property sentence claims) *)
Theorem text_accepted_reserialize_no_panic : forall fmt e f t, TextFormat.from_bytes fmt e f = Ok t ->
  forall kf m e' k, TextFormat.serialize kf m fmt e' t <> Panic k.
Proof. intros fmt e f t _ kf m e' k. apply text_serialize_no_panic. Qed.
