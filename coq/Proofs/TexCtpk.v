(* C20, CTPK: ctpk::read returns the decoding of every packed texture on every conforming file; prefixes
   of conforming files are read without panic and are rejected when a payload byte is missing;
   the boolean checker is sound. *)
From Coq Require Import List NArith ZArith Arith Lia Bool ZifyBool ZifyNat ZifyN.
From Mila Require Import Lib.Bytes Lib.BytesExtra Lib.Machine Model.Pixel Model.Etc1 Model.TexCommon Model.TexFormat
  Model.Ctpk Proofs.TexBase.
Import ListNotations.
Local Open Scope N_scope.
Ltac Zify.zify_post_hook ::= Z.div_mod_to_equations.

(* what a parsed info record has to do with the texture it describes *)
Definition ctpk_match (f : bytes) (tsec : N) (i : ctpk_info) (t : tex) : Prop :=
  ci_fmt i = t_fmt t /\ ci_w i = t_w t /\ ci_h i = t_h t /\
  cstr_atN f (ci_name_ptr i) = Some (t_name t) /\
  sliceN (tsec + ci_data_ptr i) (lenN (t_data t)) f = Some (t_data t) /\
  tex3ds_wf sjis_name t.

Ltac known :=
  first [ erewrite rd32_some by eassumption | erewrite rd16_some by eassumption | erewrite rd8_some by eassumption ];
  cbn [bind].
Ltac some32 := match goal with |- context [bind (rd32 ?e ?f ?p) _] =>
  let v := fresh "v" in let E := fresh "E" in destruct (rd32_in e f p) as (v & E); [lia | rewrite E; cbn [bind]; clear E v] end.
Ltac some16 := match goal with |- context [bind (rd16 ?e ?f ?p) _] =>
  let v := fresh "v" in let E := fresh "E" in destruct (rd16_in e f p) as (v & E); [lia | rewrite E; cbn [bind]; clear E v] end.
Ltac some8 := match goal with |- context [bind (rd8 ?f ?p) _] =>
  let v := fresh "v" in let E := fresh "E" in destruct (rd8_in f p) as (v & E); [lia | rewrite E; cbn [bind]; clear E v] end.
Ltac mono := repeat first [ apply le_refl | apply le_bind; [ solve [auto with texmono] | intros ? ] ].

Section Ctpk.
Variable f : bytes.
Variable tsec : N.

Lemma ctpk_info_ok k t : ctpk_entry f tsec k t ->
  exists i, ctpk_info_at f (32 + 32 * k) = Ok i /\ ctpk_match f tsec i t /\
            u32_at LE f (32 + 32 * k + 8) = Some (ci_data_ptr i).
Proof.
  unfold ctpk_entry. cbv zeta. intros (np & dp & H0 & H4 & H8 & H12 & H16 & H18 & Hlen & Hn & Hd & Hwf).
  unfold ctpk_info_at. do 6 known. some8. some8. some16. some32. some32.
  eexists. split; [reflexivity|]. split; [|exact H8].
  unfold ctpk_match. cbn [ci_fmt ci_w ci_h ci_name_ptr ci_data_ptr]. auto 10.
Qed.

Lemma ctpk_infos_ok : forall texs k,
  (forall j t, nth_error texs j = Some t -> ctpk_entry f tsec (k + N.of_nat j) t) ->
  exists infos, ctpk_infos f (32 + 32 * k) (length texs) = Ok infos /\ Forall2 (ctpk_match f tsec) infos texs /\
    (forall j i, nth_error infos j = Some i -> u32_at LE f (32 + 32 * (k + N.of_nat j) + 8) = Some (ci_data_ptr i)).
Proof.
  induction texs as [|t r IH]; intros k H.
  - exists []. split; [reflexivity|]. split; [constructor|]. intros [|j] i; discriminate.
  - destruct (ctpk_info_ok k t) as (i & Ei & Mi & Pi).
    { specialize (H 0%nat t eq_refl). rewrite N.add_0_r in H. exact H. }
    destruct (IH (k + 1)) as (infos & Er & Mr & Pr).
    { intros j t' Hj. specialize (H (S j) t' Hj). replace (k + 1 + N.of_nat j) with (k + N.of_nat (S j)) by lia. exact H. }
    exists (i :: infos). cbn [length ctpk_infos]. rewrite Ei. cbn [bind].
    replace (32 + 32 * k + 32) with (32 + 32 * (k + 1)) by lia. rewrite Er. cbn [bind].
    split; [reflexivity|]. split; [constructor; assumption|].
    intros [|j] i' Hj; cbn [nth_error] in Hj.
    + inversion Hj; subst. rewrite N.add_0_r. exact Pi.
    + specialize (Pr j i' Hj). replace (k + N.of_nat (S j)) with (k + 1 + N.of_nat j) by lia. exact Pr.
Qed.

Hypothesis Hsmall : lenN f < 2 ^ 32.

Lemma ctpk_texture_ok m i t : ctpk_match f tsec i t -> f32_exact t -> ctpk_texture m f tsec i = decode_tex m t.
Proof.
  intros (Hf & Hw & Hh & Hn & Hd & (Hv & Hsz & _)) Hx. unfold f32_exact in Hx. unfold ctpk_texture, decode_tex.
  apply andb_prop in Hv. destruct Hv as [_ Hv].
  rewrite (read_name_cstr _ _ _ _ Hn Hv). cbn [bind].
  pose proof (sliceN_bound _ _ _ _ Hd) as B.
  rewrite add32_ok by lia. cbn [bind].
  rewrite Hf, Hw, Hh, Hx, <- Hsz. rewrite (rd_exact_some _ _ _ Hd). cbn [bind]. reflexivity.
Qed.

Lemma ctpk_textures_ok m : forall infos texs, Forall2 (ctpk_match f tsec) infos texs -> Forall f32_exact texs ->
  ctpk_textures m f tsec infos = decode_all (decode_tex m) texs.
Proof.
  induction 1 as [|i t infos texs Hm _ IH]; intros Hx; [reflexivity|]. inversion Hx; subst.
  cbn [ctpk_textures decode_all]. rewrite (ctpk_texture_ok m i t Hm), IH by assumption. reflexivity.
Qed.
End Ctpk.

Theorem read_ctpk_correct : forall m f texs, conforms_ctpk f texs -> Forall f32_exact texs ->
  read_ctpk m f = decode_all (decode_tex m) texs.
Proof.
  intros m f texs (Hsmall & H32 & Hmagic & Hcount & tsec & Htsec & Hent) Hx.
  unfold read_ctpk, ctpk_header. known. some16. known. known. some32. some32. some32.
  rewrite Nat2N.id.
  destruct (ctpk_infos_ok f tsec texs 0) as (infos & Ei & Mi & _).
  { intros j t Hj. rewrite N.add_0_l. apply Hent, Hj. }
  change (32 + 32 * 0) with 32 in Ei. rewrite Ei. cbn [bind].
  apply ctpk_textures_ok; assumption.
Qed.

(* ---------------------------------------------------------------- prefixes *)
Lemma ctpk_header_le g r : le_out (ctpk_header g) (ctpk_header (g ++ r)).
Proof. unfold ctpk_header. mono. Qed.
Lemma ctpk_info_at_le g r p : le_out (ctpk_info_at g p) (ctpk_info_at (g ++ r) p).
Proof. unfold ctpk_info_at. mono. Qed.
Lemma ctpk_infos_le g r : forall n p, le_out (ctpk_infos g p n) (ctpk_infos (g ++ r) p n).
Proof.
  induction n as [|n IH]; intros p; cbn [ctpk_infos]; [apply le_refl|].
  apply le_bind; [apply ctpk_info_at_le|]. intros i. apply le_bind; [apply IH|]. intros x. apply le_refl.
Qed.

Lemma no_panic_map_ok {A B} (c : outcome A) (F : A -> B) : no_panic c -> no_panic (x <- c ;; Ok (F x)).
Proof. destruct c; cbn; tauto. Qed.
Lemma no_panic_map_inv {A B} (c : outcome A) (F : A -> B) : no_panic (x <- c ;; Ok (F x)) -> no_panic c.
Proof. destruct c; cbn; tauto. Qed.

Section CtpkPrefix.
Variables g r : bytes.
Variable tsec : N.
Variable m : mode.
Hypothesis Hsmall : lenN (g ++ r) < 2 ^ 32.

Lemma ctpk_texture_prefix i t : ctpk_match (g ++ r) tsec i t -> f32_exact t -> no_panic (decode_tex m t) ->
  no_panic (ctpk_texture m g tsec i) /\
  (cuts (lenN g) (tsec + ci_data_ptr i) (t_data t) -> is_err (ctpk_texture m g tsec i)).
Proof.
  intros (Hf & Hw & Hh & Hn & Hd & (Hv & Hsz & _)) Hx Hdec. unfold f32_exact in Hx. unfold ctpk_texture.
  destruct (read_name_cases sjis_valid g (ci_name_ptr i)) as [(s & ->)|E].
  2:{ split; [apply is_err_no_panic|intros _]; apply is_err_bind, E. }
  cbn [bind]. pose proof (sliceN_bound _ _ _ _ Hd) as B. rewrite add32_ok by lia. cbn [bind].
  rewrite Hf, Hw, Hh, Hx, <- Hsz. split.
  - destruct (rd_exact_le g r (tsec + ci_data_ptr i) (lenN (t_data t))) as [E|(e & E)]; rewrite E; [|exact I].
    rewrite (rd_exact_some _ _ _ Hd). cbn [bind]. apply no_panic_map_ok.
    unfold decode_tex in Hdec. apply no_panic_map_inv in Hdec. exact Hdec.
  - intros (Hpos & Hcut). rewrite rd_exact_cut by assumption. exact I.
Qed.

Lemma ctpk_textures_prefix : forall infos texs, Forall2 (ctpk_match (g ++ r) tsec) infos texs ->
  Forall f32_exact texs -> Forall (fun t => no_panic (decode_tex m t)) texs ->
  no_panic (ctpk_textures m g tsec infos) /\
  (forall j i t, nth_error infos j = Some i -> nth_error texs j = Some t ->
     cuts (lenN g) (tsec + ci_data_ptr i) (t_data t) -> is_err (ctpk_textures m g tsec infos)).
Proof.
  induction 1 as [|i t infos texs Hm _ IH]; intros Hx Hdec.
  - split; [exact I|]. intros [|j] i t; discriminate.
  - inversion Hdec as [|? ? Hd0 Hdr]; subst. inversion Hx as [|? ? Hx0 Hxr]; subst. destruct (IH Hxr Hdr) as (IHn & IHc).
    destruct (ctpk_texture_prefix i t Hm Hx0 Hd0) as (Hn0 & Hc0).
    cbn [ctpk_textures]. split; [apply loop_step_class; assumption|].
    intros [|j] i' t' Hi Ht Hcut; cbn [nth_error] in Hi, Ht.
    + inversion Hi; inversion Ht; subst. apply loop_step_err_l, Hc0, Hcut.
    + apply loop_step_err_r; [exact Hn0 | eapply IHc; eauto].
Qed.
End CtpkPrefix.

Theorem ctpk_prefix : forall m f texs k, conforms_ctpk f texs -> Forall f32_exact texs ->
  Forall (fun t => no_panic (decode_tex m t)) texs -> k < lenN f ->
  no_panic (read_ctpk m (firstn (N.to_nat k) f)) /\
  (forall i t off, nth_error texs i = Some t -> ctpk_payload_at f (N.of_nat i) off -> cuts k off (t_data t) ->
     is_err (read_ctpk m (firstn (N.to_nat k) f))).
Proof.
  intros m f texs k Hc Hx Hdec Hk.
  set (g := firstn (N.to_nat k) f). set (r := skipn (N.to_nat k) f).
  assert (Ef : f = g ++ r) by (symmetry; apply firstn_skipn).
  assert (Lg : lenN g = k) by (apply lenN_firstn; lia).
  pose proof Hc as (Hsmall & H32 & Hmagic & Hcount & tsec & Htsec & Hent).
  assert (Hh : ctpk_header f = Ok (N.of_nat (length texs), tsec)).
  { unfold ctpk_header. known. some16. known. known. some32. some32. some32. reflexivity. }
  destruct (ctpk_infos_ok f tsec texs 0) as (infos & Ei & Mi & Pi).
  { intros j t Hj. rewrite N.add_0_l. apply Hent, Hj. }
  change (32 + 32 * 0) with 32 in Ei.
  unfold read_ctpk.
  pose proof (ctpk_header_le g r) as L1. rewrite <- Ef, Hh in L1.
  destruct (le_out_ok _ _ L1) as [-> | E1].
  2:{ split; [apply is_err_no_panic|intros ? ? ? _ _ _]; apply is_err_bind, E1. }
  cbn [bind]. rewrite Nat2N.id.
  pose proof (ctpk_infos_le g r (length texs) 32) as L2. rewrite <- Ef, Ei in L2.
  destruct (le_out_ok _ _ L2) as [-> | E2].
  2:{ split; [apply is_err_no_panic|intros ? ? ? _ _ _]; apply is_err_bind, E2. }
  cbn [bind].
  rewrite Ef in Mi, Hsmall.
  destruct (ctpk_textures_prefix g r tsec m Hsmall infos texs Mi Hx Hdec) as (Hn & Hcut).
  split; [exact Hn|].
  intros i t off Hi (tsec' & dp & Ht' & Hdp & ->) Hcuts.
  assert (tsec' = tsec) by congruence. subst tsec'.
  destruct (nth_error infos i) as [inf|] eqn:Einf.
  2:{ apply nth_error_None in Einf. apply Forall2_len in Mi. assert (nth_error texs i <> None) by congruence.
      apply nth_error_Some in H. lia. }
  specialize (Pi i inf Einf). rewrite N.add_0_l in Pi. assert (dp = ci_data_ptr inf) by congruence. subst dp.
  apply (Hcut i inf t Einf Hi). rewrite Lg. exact Hcuts.
Qed.

(* ---------------------------------------------------------------- the checker *)
Lemma ctpk_entryb_sound f tsec i t : ctpk_entryb f tsec i t = true -> ctpk_entry f tsec i t.
Proof.
  unfold ctpk_entryb, ctpk_entry. cbv zeta.
  destruct (u32_at LE f (32 + 32 * i)) as [np|] eqn:E0; [|discriminate].
  destruct (u32_at LE f (32 + 32 * i + 8)) as [dp|] eqn:E8; [|discriminate].
  intros H. repeat (apply andb_prop in H; destruct H as [H ?]).
  repeat match goal with
  | Hx : oN_eqb _ _ = true |- _ => apply oN_eqb_spec in Hx
  | Hx : ob_eqb _ _ = true |- _ => apply ob_eqb_spec in Hx
  | Hx : (_ <=? _) = true |- _ => apply N.leb_le in Hx
  | Hx : tex3ds_wfb _ _ = true |- _ => apply tex3ds_wfb_spec in Hx
  end.
  exists np, dp. tauto.
Qed.

Theorem conforms_ctpkb_sound : forall f texs, conforms_ctpkb f texs = true -> conforms_ctpk f texs.
Proof.
  intros f texs H. unfold conforms_ctpkb in H. repeat (apply andb_prop in H; destruct H as [H ?]).
  destruct (u32_at LE f 8) as [tsec|] eqn:E8; [|discriminate].
  split; [apply N.ltb_lt; assumption|]. split; [apply N.leb_le; assumption|].
  split; [apply oN_eqb_spec; assumption|]. split; [apply oN_eqb_spec; assumption|].
  exists tsec. split; [exact E8|]. intros i t Hi. apply ctpk_entryb_sound.
  match goal with Hx : entriesb _ _ _ = true |- _ => pose proof (entriesb_spec _ _ _ Hx i t Hi) as E end.
  rewrite N.add_0_l in E. exact E.
Qed.
