(* Soundness of the executable format checker: conformsb e f c = true -> conforms e f c. *)
From Coq Require Import List NArith ZArith Arith Bool Lia Permutation ZifyBool ZifyNat ZifyN.
From Mila Require Import Lib.Bytes Lib.Machine Model.BinArchive Model.BinFormat Proofs.AMapLemmas Proofs.BinFormatSpec
  Model.BinConformsB.
Import ListNotations.
Local Open Scope N_scope.
Ltac Zify.zify_post_hook ::= Z.div_mod_to_equations.

Lemma memN_In x l : memN x l = true <-> In x l.
Proof.
  induction l as [|y r IH]; cbn [memN In]; [split; [discriminate | tauto]|].
  rewrite orb_true_iff, IH, N.eqb_eq. split; intros [H|H]; auto.
Qed.
Lemma nodupNb_sound l : nodupNb l = true -> NoDup l.
Proof.
  induction l as [|x r IH]; cbn [nodupNb]; [constructor|]. rewrite andb_true_iff, negb_true_iff. intros [H1 H2].
  constructor; [|apply IH, H2]. intros Hin. apply memN_In in Hin. congruence.
Qed.
Lemma bucket_eqb_eq a : forall b, bucket_eqb a b = true -> a = b.
Proof.
  induction a as [|x a IH]; intros [|y b]; cbn [bucket_eqb]; try discriminate; [reflexivity|].
  rewrite andb_true_iff. intros [H1 H2]. destruct (bytes_eqb_spec x y); [|discriminate]. subst. f_equal. apply IH, H2.
Qed.
Lemma oN_eqb_true o v : oN_eqb o v = true -> o = Some v.
Proof. destruct o as [x|]; cbn [oN_eqb]; [|discriminate]. rewrite N.eqb_eq. congruence. Qed.
Lemma ob_eqb_true o b : ob_eqb o b = true -> o = Some b.
Proof. destruct o as [x|]; cbn [ob_eqb]; [|discriminate]. destruct (bytes_eqb_spec x b); [congruence | discriminate]. Qed.

Lemma resolve_names_sound f tstart : forall ltab names,
  resolve_names f tstart ltab = Some names -> Forall2 (resolved f tstart) ltab names.
Proof.
  induction ltab as [|[addr off] r IH]; intros names; cbn [resolve_names].
  - intros H; inversion H; constructor.
  - destruct (cstr_atN f (tstart + off + 32)) as [s|] eqn:Es; [|discriminate].
    destruct (resolve_names f tstart r) as [t|]; [|discriminate]. intros H; inversion H; subst.
    constructor; [split; [reflexivity | exact Es] | apply IH; reflexivity].
Qed.

Lemma names_at_notin addr names : ~ In addr (map fst names) -> names_at addr names = [].
Proof.
  unfold names_at. induction names as [|[k l] r IH]; cbn [map fst filter In]; intros H; [reflexivity|].
  destruct (N.eqb_spec k addr) as [->|_]; [exfalso; apply H; left; reflexivity | apply IH; tauto].
Qed.

Lemma check_parts_sound e f c reserved ptab ltab txt names :
  check_parts e f (lenN f) c reserved ptab ltab txt names = true ->
  Forall2 (resolved f (lenN (c_data c) + 4 * lenL ptab + 8 * lenL ltab)) ltab names ->
  conforms e f c.
Proof.
  unfold check_parts. cbv zeta. rewrite !andb_true_iff.
  intros (((((((((((((H1 & H2) & H2') & H3) & H3') & H4) & H5) & H5') & H6) & H7) & H9) & H10) & H10') & H10'') HF.
  exists reserved, ptab, ltab, txt, names. cbv zeta.
  split; [destruct (bytes_eqb_spec f (rebuild e (lenN f) reserved (c_data c) ptab ltab txt)) as [E|]; [exact E | discriminate]|].
  split; [apply Nat.eqb_eq, H2|]. split; [apply N.ltb_lt, H2'|].
  split. { apply Forall_forall. intros x Hx. rewrite forallb_forall in H3. apply N.ltb_lt, H3, Hx. }
  split. { apply Forall_forall. intros x Hx. rewrite forallb_forall in H3'. specialize (H3' x Hx). rewrite andb_true_iff, !N.ltb_lt in H3'. exact H3'. }
  pose proof (nodupNb_sound _ H4) as Hnd.
  split; [exact Hnd|].
  split.
  { apply Permutation_sym. apply NoDup_Permutation_bis; [exact Hnd | apply Nat.eqb_eq in H5; lia|].
    intros k Hk. rewrite forallb_forall in H5'. apply memN_In, H5', Hk. }
  split.
  { intros cell dest Hin. rewrite forallb_forall in H6. specialize (H6 _ Hin). unfold check_ptr in H6. cbn [fst snd] in H6.
    rewrite andb_true_iff, N.leb_le in H6. destruct H6 as [Ha Hb]. split; [apply oN_eqb_true, Ha | exact Hb]. }
  split.
  { intros cell s Hin. rewrite forallb_forall in H7. specialize (H7 _ Hin). unfold check_str in H7. cbn [fst snd] in H7.
    destruct (u32_at e (c_data c) cell) as [v|]; [|discriminate]. rewrite andb_true_iff, N.ltb_lt in H7. destruct H7 as [Ha Hb].
    exists v. split; [reflexivity|]. split; [exact Ha | apply ob_eqb_true, Hb]. }
  split; [exact HF|].
  split. { apply Forall_forall. intros x Hx. rewrite forallb_forall in H9. apply N.leb_le, H9, Hx. }
  split; [apply nodupNb_sound, H10|].
  intros addr. split.
  - destruct (in_dec N.eq_dec addr (map fst names ++ map fst (c_labels c))) as [Hin|Hnin].
    + rewrite forallb_forall in H10'. apply bucket_eqb_eq, (H10' addr Hin).
    + rewrite names_at_notin by (intros H; apply Hnin, in_or_app; left; exact H).
      assert (G : am_get addr (c_labels c) = None) by (apply am_get_none; intros H; apply Hnin, in_or_app; right; exact H).
      rewrite G. reflexivity.
  - intros G. apply am_get_in in G. rewrite forallb_forall in H10''. specialize (H10'' _ G). discriminate.
Qed.

Theorem conformsb_sound e f c : conformsb e f c = true -> conforms e f c.
Proof.
  unfold conformsb. cbv zeta.
  destruct (u32_at e f 4) as [dsz|]; [|discriminate]. destruct (u32_at e f 8) as [pc|]; [|discriminate].
  destruct (u32_at e f 12) as [lc|]; [|discriminate].
  destruct (32 + dsz + 4 * pc + 8 * lc <=? lenN f); [|discriminate].
  destruct (take_u32s e (N.to_nat pc) _) as [[ptab rest]|]; [|discriminate].
  destruct (take_u32s e (N.to_nat (2 * lc)) rest) as [[lflat txt]|]; [|discriminate].
  destruct (pair_up lflat) as [ltab|]; [|discriminate].
  destruct (resolve_names f _ ltab) as [names|] eqn:En; [|discriminate].
  intros H. eapply check_parts_sound; [exact H | apply resolve_names_sound, En].
Qed.
