(* C20: lemmas shared by the four container proofs.
   (1) the cursor reads return what the format relation says stands in the file;
   (2) prefix monotonicity: a read on a prefix g of f = g ++ r either fails (Err) or returns what the same
       read returns on f; [le_out] lifts this through binds;
   (3) outcome classes through binds. *)
From Coq Require Import List NArith ZArith Arith Lia Bool ZifyBool ZifyNat ZifyN.
From Mila Require Import Lib.Bytes Lib.BytesExtra Lib.Machine Model.Pixel Model.Etc1 Model.TexCommon Model.TexFormat.
Import ListNotations.
Local Open Scope N_scope.
Ltac Zify.zify_post_hook ::= Z.div_mod_to_equations.

(* ---------------------------------------------------------------- (1) reads on the whole file *)
Lemma rd32_some e f p v : u32_at e f p = Some v -> rd32 e f p = Ok v.
Proof. intros H. unfold rd32. rewrite H. reflexivity. Qed.
Lemma rd16_some e f p v : u16_at e f p = Some v -> rd16 e f p = Ok v.
Proof. intros H. unfold rd16. rewrite H. reflexivity. Qed.
Lemma rd8_some f p v : u8_at f p = Some v -> rd8 f p = Ok v.
Proof. intros H. unfold rd8. rewrite H. reflexivity. Qed.

Lemma rd32_in e f p : p + 4 <= lenN f -> exists v, rd32 e f p = Ok v.
Proof.
  intros H. unfold rd32, u32_at. destruct (sliceN_Some p 4 f H) as (s & ->). eexists. reflexivity.
Qed.
Lemma rd16_in e f p : p + 2 <= lenN f -> exists v, rd16 e f p = Ok v.
Proof.
  intros H. unfold rd16, u16_at. destruct (sliceN_Some p 2 f H) as (s & ->). eexists. reflexivity.
Qed.
Lemma rd8_in f p : p < lenN f -> exists v, rd8 f p = Ok v.
Proof.
  intros H. unfold rd8, u8_at. destruct (N.ltb_spec p (lenN f)) as [_|?]; [|lia].
  destruct (nth_error f (N.to_nat p)) as [v|] eqn:E; [eexists; reflexivity|].
  apply nth_error_None in E. unfold lenN in H. lia.
Qed.
Lemma present32_rd e f p : present32 e f p -> exists v, rd32 e f p = Ok v.
Proof. intros (v & H). exists v. apply rd32_some, H. Qed.

Lemma u32_at_le e f p v : u32_at e f p = Some v -> p + 4 <= lenN f.
Proof. unfold u32_at. destruct (sliceN p 4 f) eqn:E; [|discriminate]. intros _. eapply sliceN_bound; eauto. Qed.
Lemma u16_at_le e f p v : u16_at e f p = Some v -> p + 2 <= lenN f.
Proof. unfold u16_at. destruct (sliceN p 2 f) eqn:E; [|discriminate]. intros _. eapply sliceN_bound; eauto. Qed.

Lemma rd_exact_some f p d : sliceN p (lenN d) f = Some d -> rd_exact f p (lenN d) = Ok d.
Proof.
  intros H. unfold rd_exact. destruct (N.eqb_spec (lenN d) 0) as [Z|NZ].
  - destruct d; [reflexivity|]. rewrite lenN_cons in Z. lia.
  - rewrite H. reflexivity.
Qed.

Lemma until0_cstr bs s : cstr bs = Some s -> until0 bs = (s, true).
Proof.
  revert s; induction bs as [|b r IH]; intros s; cbn [cstr until0]; [discriminate|].
  destruct (b =? 0); [intros H; inversion H; reflexivity|].
  destruct (cstr r) as [s'|]; [|discriminate]. intros H; inversion H; subst. rewrite (IH s' eq_refl). reflexivity.
Qed.
Lemma raw_name_cstr f p s : cstr_atN f p = Some s -> raw_name f p = s.
Proof.
  unfold cstr_atN, raw_name. destruct (N.leb_spec p (lenN f)) as [Hle|?]; [|discriminate]. intros H.
  destruct (N.leb_spec (lenN f) p) as [Hge|_].
  - assert (E : skipn (N.to_nat p) f = []) by (apply skipn_all2; unfold lenN in Hge; lia). rewrite E in H. discriminate.
  - rewrite (until0_cstr _ _ H). reflexivity.
Qed.
Lemma read_name_cstr valid f p s : cstr_atN f p = Some s -> valid s = true -> read_name valid f p = Ok s.
Proof. intros H V. unfold read_name. rewrite (raw_name_cstr _ _ _ H), V. reflexivity. Qed.

Lemma add32_ok m a b : a + b < 2 ^ 32 -> add32 m a b = Ok (a + b).
Proof. intros H. unfold add32. apply add_w_ok. exact H. Qed.
Lemma mul32_ok m a b : a * b < 2 ^ 32 -> mul32 m a b = Ok (a * b).
Proof. intros H. unfold mul32. apply mul_w_ok. exact H. Qed.
Lemma trunc32_small p : p < 2 ^ 32 -> trunc_w 32 p = p.
Proof. intros H. unfold trunc_w, maxw. apply N.mod_small. exact H. Qed.

(* ---------------------------------------------------------------- (3) outcome classes *)
Lemma is_err_no_panic {A} (o : outcome A) : is_err o -> no_panic o.
Proof. destruct o; cbn; tauto. Qed.
Lemma is_err_bind {A B} (c : outcome A) (k : A -> outcome B) : is_err c -> is_err (bind c k).
Proof. destruct c; cbn; tauto. Qed.
Lemma is_err_Err {A} e : is_err (@Err A e).
Proof. exact I. Qed.
Lemma no_panic_Ok {A} (a : A) : no_panic (Ok a).
Proof. exact I. Qed.
Lemma no_panic_Err {A} e : no_panic (@Err A e).
Proof. exact I. Qed.
Lemma is_err_exists {A} (o : outcome A) : is_err o -> exists e, o = Err e.
Proof. destruct o; cbn; try tauto. eauto. Qed.

(* ---------------------------------------------------------------- (2) prefixes *)
Definition le_out {A} (og o : outcome A) : Prop := og = o \/ exists e, og = Err e.

Lemma le_refl {A} (o : outcome A) : le_out o o.
Proof. left. reflexivity. Qed.
Lemma le_err {A} e (o : outcome A) : le_out (Err e) o.
Proof. right. eauto. Qed.
Lemma le_bind {A B} (a a' : outcome A) (k k' : A -> outcome B) :
  le_out a a' -> (forall x, le_out (k x) (k' x)) -> le_out (bind a k) (bind a' k').
Proof.
  intros [->|(e & ->)] Hk; [|right; exists e; reflexivity].
  destruct a'; cbn [bind]; [apply Hk | right; eexists; reflexivity | left; reflexivity].
Qed.
Lemma le_out_ok {A} (og : outcome A) v : le_out og (Ok v) -> og = Ok v \/ is_err og.
Proof. intros [->|(e & ->)]; [left; reflexivity | right; exact I]. Qed.

Lemma lenN_app_le g r : lenN g <= lenN (g ++ r).
Proof. rewrite lenN_app. lia. Qed.

Lemma sliceN_app_l g r p n s : sliceN p n g = Some s -> sliceN p n (g ++ r) = Some s.
Proof.
  unfold sliceN. destruct (N.leb_spec (p + n) (lenN g)) as [H|H]; [|discriminate].
  pose proof (lenN_app_le g r). destruct (N.leb_spec (p + n) (lenN (g ++ r))) as [_|?]; [|lia].
  intros E; inversion E; subst. f_equal.
  unfold lenN in H. rewrite skipn_app, firstn_app.
  replace (N.to_nat n - length (skipn (N.to_nat p) g))%nat with 0%nat by (rewrite skipn_length; lia).
  cbn [firstn]. rewrite app_nil_r. reflexivity.
Qed.
Lemma u32_at_app_l e g r p v : u32_at e g p = Some v -> u32_at e (g ++ r) p = Some v.
Proof. unfold u32_at. destruct (sliceN p 4 g) eqn:E; [|discriminate]. rewrite (sliceN_app_l _ r _ _ _ E). auto. Qed.
Lemma u16_at_app_l e g r p v : u16_at e g p = Some v -> u16_at e (g ++ r) p = Some v.
Proof. unfold u16_at. destruct (sliceN p 2 g) eqn:E; [|discriminate]. rewrite (sliceN_app_l _ r _ _ _ E). auto. Qed.
Lemma u8_at_app_l g r p v : u8_at g p = Some v -> u8_at (g ++ r) p = Some v.
Proof.
  unfold u8_at. destruct (N.ltb_spec p (lenN g)) as [H|H]; [|discriminate].
  pose proof (lenN_app_le g r). destruct (N.ltb_spec p (lenN (g ++ r))) as [_|?]; [|lia].
  intros E. rewrite nth_error_app1; [exact E|]. unfold lenN in H. lia.
Qed.

Lemma rd32_le e g r p : le_out (rd32 e g p) (rd32 e (g ++ r) p).
Proof.
  unfold rd32. destruct (u32_at e g p) as [v|] eqn:E; [|apply le_err].
  rewrite (u32_at_app_l _ _ r _ _ E). apply le_refl.
Qed.
Lemma rd16_le e g r p : le_out (rd16 e g p) (rd16 e (g ++ r) p).
Proof.
  unfold rd16. destruct (u16_at e g p) as [v|] eqn:E; [|apply le_err].
  rewrite (u16_at_app_l _ _ r _ _ E). apply le_refl.
Qed.
Lemma rd8_le g r p : le_out (rd8 g p) (rd8 (g ++ r) p).
Proof.
  unfold rd8. destruct (u8_at g p) as [v|] eqn:E; [|apply le_err].
  rewrite (u8_at_app_l _ r _ _ E). apply le_refl.
Qed.
Lemma rd_exact_le g r p n : le_out (rd_exact g p n) (rd_exact (g ++ r) p n).
Proof.
  unfold rd_exact. destruct (n =? 0); [apply le_refl|].
  destruct (sliceN p n g) as [s|] eqn:E; [|apply le_err].
  rewrite (sliceN_app_l _ r _ _ _ E). apply le_refl.
Qed.
(* the cut removes a byte of the block [p, p + n) *)
Lemma rd_exact_cut g p n : 0 < n -> lenN g < p + n -> rd_exact g p n = Err EIo.
Proof.
  intros Hn H. unfold rd_exact. destruct (N.eqb_spec n 0); [lia|]. rewrite sliceN_None by exact H. reflexivity.
Qed.

Global Hint Resolve rd32_le rd16_le rd8_le rd_exact_le le_refl le_err : texmono.

(* read_name on a prefix: some name or BadText, never a panic *)
Lemma read_name_cases valid f p : (exists s, read_name valid f p = Ok s) \/ is_err (read_name valid f p).
Proof. unfold read_name. destruct (valid (raw_name f p)); [left; eauto | right; exact I]. Qed.

(* ---------------------------------------------------------------- entry tables *)
Lemma entriesb_spec eb : forall texs i, entriesb eb i texs = true ->
  forall k t, nth_error texs k = Some t -> eb (i + N.of_nat k) t = true.
Proof.
  induction texs as [|t0 r IH]; intros i H k t Hk; [destruct k; discriminate|].
  cbn [entriesb] in H. apply andb_prop in H. destruct H as [H0 Hr].
  destruct k as [|k]; cbn [nth_error] in Hk.
  - inversion Hk; subst. rewrite N.add_0_r. exact H0.
  - replace (i + N.of_nat (S k)) with (i + 1 + N.of_nat k) by lia. apply (IH (i + 1) Hr k t Hk).
Qed.

Lemma oN_eqb_spec o v : oN_eqb o v = true -> o = Some v.
Proof. destruct o as [x|]; cbn; [|discriminate]. intros H. apply N.eqb_eq in H. congruence. Qed.
Lemma ob_eqb_spec o b : ob_eqb o b = true -> o = Some b.
Proof. destruct o as [x|]; cbn; [|discriminate]. intros H. destruct (bytes_eqb_spec x b); congruence. Qed.
Lemma is_some_spec {A} (o : option A) : is_some o = true -> exists v, o = Some v.
Proof. destruct o; cbn; [eauto | discriminate]. Qed.
Lemma is_nil_spec {A} (l : list A) : is_nil l = true -> l = [].
Proof. destruct l; cbn; [reflexivity | discriminate]. Qed.

Lemma tex3ds_wfb_spec valid t : tex3ds_wfb valid t = true -> tex3ds_wf valid t.
Proof.
  unfold tex3ds_wfb, tex3ds_wf. intros H. apply andb_prop in H. destruct H as [H H3]. apply andb_prop in H. destruct H as [H1 H2].
  split; [exact H1|]. split; [apply N.eqb_eq, H2 | apply is_nil_spec, H3].
Qed.
Lemma textpl_wfb_spec t : textpl_wfb t = true -> textpl_wf t.
Proof.
  unfold textpl_wfb, textpl_wf. intros H. repeat (apply andb_prop in H; destruct H as [H ?]).
  repeat split; [apply is_nil_spec; assumption | apply N.eqb_eq; assumption | apply N.eqb_eq; assumption
                 | apply N.eqb_eq; assumption | apply N.ltb_lt; assumption].
Qed.

(* decode_all unfolds like the texture loops *)
Lemma decode_all_cons dec t r : decode_all dec (t :: r) = (x <- dec t ;; xs <- decode_all dec r ;; Ok (x :: xs)).
Proof. reflexivity. Qed.

(* class of `x <- a ;; xs <- b ;; Ok (x :: xs)` *)
Lemma loop_step_class {A} (a : outcome A) (b : outcome (list A)) :
  no_panic a -> no_panic b -> no_panic (x <- a ;; xs <- b ;; Ok (x :: xs)).
Proof. destruct a; cbn; try tauto. destruct b; cbn; tauto. Qed.
Lemma loop_step_err_l {A} (a : outcome A) (b : outcome (list A)) :
  is_err a -> is_err (x <- a ;; xs <- b ;; Ok (x :: xs)).
Proof. destruct a; cbn; tauto. Qed.
Lemma loop_step_err_r {A} (a : outcome A) (b : outcome (list A)) :
  no_panic a -> is_err b -> is_err (x <- a ;; xs <- b ;; Ok (x :: xs)).
Proof. destruct a; cbn; try tauto. destruct b; cbn; tauto. Qed.

Lemma Forall2_len {A B} (R : A -> B -> Prop) l l' : Forall2 R l l' -> length l = length l'.
Proof. induction 1; cbn; congruence. Qed.

(* ---------------------------------------------------------------- reading a prefix step by step
   [good c o]: o is not a panic, and it is an error when c (a payload is cut) holds *)
Definition good (c : Prop) {A} (o : outcome A) : Prop := no_panic o /\ (c -> is_err o).

Lemma good_err c {A} (o : outcome A) : is_err o -> good c o.
Proof. intros H. split; [apply is_err_no_panic, H | intros _; exact H]. Qed.
Lemma good_bind_err c {A B} (a : outcome A) (k : A -> outcome B) : is_err a -> good c (bind a k).
Proof. intros H. apply good_err, is_err_bind, H. Qed.
Lemma good_le c {A B} (a : outcome A) v (k : A -> outcome B) :
  le_out a (Ok v) -> good c (k v) -> good c (bind a k).
Proof. intros L H. destruct (le_out_ok _ _ L) as [-> | E]; [exact H | apply good_bind_err, E]. Qed.
Lemma good_any c {A B} (a : outcome A) (k : A -> outcome B) :
  ((exists v, a = Ok v) \/ is_err a) -> (forall v, good c (k v)) -> good c (bind a k).
Proof. intros [(v & ->)|E] H; [apply H | apply good_bind_err, E]. Qed.

Lemma rd32_cases e f p : (exists v, rd32 e f p = Ok v) \/ is_err (rd32 e f p).
Proof. unfold rd32. destruct (u32_at e f p); cbn [of_option]; [left; eauto | right; exact I]. Qed.
Lemma rd16_cases e f p : (exists v, rd16 e f p = Ok v) \/ is_err (rd16 e f p).
Proof. unfold rd16. destruct (u16_at e f p); cbn [of_option]; [left; eauto | right; exact I]. Qed.
Lemma rd8_cases f p : (exists v, rd8 f p = Ok v) \/ is_err (rd8 f p).
Proof. unfold rd8. destruct (u8_at f p); cbn [of_option]; [left; eauto | right; exact I]. Qed.

Section Good.
Variables g r : bytes.
Variable c : Prop.
Context {B : Type}.

Lemma good_rd32 e p v (k : N -> outcome B) : u32_at e (g ++ r) p = Some v -> good c (k v) -> good c (bind (rd32 e g p) k).
Proof. intros H. apply good_le. rewrite <- (rd32_some _ _ _ _ H). apply rd32_le. Qed.
Lemma good_rd16 e p v (k : N -> outcome B) : u16_at e (g ++ r) p = Some v -> good c (k v) -> good c (bind (rd16 e g p) k).
Proof. intros H. apply good_le. rewrite <- (rd16_some _ _ _ _ H). apply rd16_le. Qed.
Lemma good_rd8 p v (k : N -> outcome B) : u8_at (g ++ r) p = Some v -> good c (k v) -> good c (bind (rd8 g p) k).
Proof. intros H. apply good_le. rewrite <- (rd8_some _ _ _ H). apply rd8_le. Qed.
Lemma good_rd32_any e p (k : N -> outcome B) : (forall v, good c (k v)) -> good c (bind (rd32 e g p) k).
Proof. apply good_any, rd32_cases. Qed.
Lemma good_rd16_any e p (k : N -> outcome B) : (forall v, good c (k v)) -> good c (bind (rd16 e g p) k).
Proof. apply good_any, rd16_cases. Qed.
Lemma good_rd8_any p (k : N -> outcome B) : (forall v, good c (k v)) -> good c (bind (rd8 g p) k).
Proof. apply good_any, rd8_cases. Qed.
Lemma good_add32 m a b (k : N -> outcome B) : a + b < 2 ^ 32 -> good c (k (a + b)) -> good c (bind (add32 m a b) k).
Proof. intros H. rewrite add32_ok by exact H. auto. Qed.
Lemma good_mul32 m a b (k : N -> outcome B) : a * b < 2 ^ 32 -> good c (k (a * b)) -> good c (bind (mul32 m a b) k).
Proof. intros H. rewrite mul32_ok by exact H. auto. Qed.
Lemma good_name valid p (k : bytes -> outcome B) : (forall s, good c (k s)) -> good c (bind (read_name valid g p) k).
Proof. apply good_any, read_name_cases. Qed.
(* the payload: when the cut removes one of its bytes the read fails, otherwise the rest must not panic *)
Lemma good_exact p d (k : bytes -> outcome B) : sliceN p (lenN d) (g ++ r) = Some d ->
  (c -> cuts (lenN g) p d) -> no_panic (k d) -> good c (bind (rd_exact g p (lenN d)) k).
Proof.
  intros Hd Hc Hk. split.
  - destruct (rd_exact_le g r p (lenN d)) as [E|(e & E)]; rewrite E; [|exact I].
    rewrite (rd_exact_some _ _ _ Hd). exact Hk.
  - intros Hcut. destruct (Hc Hcut) as (Hpos & Hlt). rewrite rd_exact_cut by assumption. exact I.
Qed.
End Good.

(* the texture loops *)
Lemma good_loop_step (c0 c1 c : Prop) {A} (a : outcome A) (b : outcome (list A)) :
  (c -> c0 \/ c1) -> good c0 a -> good c1 b -> good c (x <- a ;; xs <- b ;; Ok (x :: xs)).
Proof.
  intros Hc (Na & Ea) (Nb & Eb). split; [apply loop_step_class; assumption|].
  intros H. destruct (Hc H) as [H0|H1]; [apply loop_step_err_l, Ea, H0 | apply loop_step_err_r; [exact Na | apply Eb, H1]].
Qed.

Lemma u32_at_in e f p : p + 4 <= lenN f -> exists v, u32_at e f p = Some v.
Proof. intros H. unfold u32_at. destruct (sliceN_Some p 4 f H) as (s & ->). eauto. Qed.
