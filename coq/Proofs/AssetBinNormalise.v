(* C18: the round trip for ALL specs.  The file does not store the value of a typed field whose use flag is false, so what is
   read back is the NORMALISED value (absent typed fields hold the default 0); on specs in normal form this is the identity
   (the restricted theorems of Proofs/AssetBinRoundTrip.v / AssetBinBytes.v).  The only hypotheses left are the representation
   invariants of the Rust struct: 33 optional strings, 18 typed fields, 32-bit values. *)
From Coq Require Import List NArith ZArith Bool Lia ZifyBool ZifyNat ZifyN Arith.
From Mila Require Import Lib.Bytes Lib.Machine Model.BinArchive Model.BinStreams Model.BinFormat Model.AssetBin
  Proofs.RecsCells Proofs.RecsBytes Proofs.AssetBinSchema Proofs.AssetBinFlags Proofs.AssetBinWrite Proofs.AssetBinRead
  Proofs.AssetBinRoundTrip Proofs.AssetBinBytes.
Import ListNotations.
Local Open Scope N_scope.

Definition norm_typed (p : bool * N) : bool * N := if fst p then p else (false, 0).
Definition norm_spec (sp : spec) : spec :=
  {| sp_name := sp_name sp; sp_strs := sp_strs sp; sp_typed := map norm_typed (sp_typed sp) |}.
Definition norm_bin (b : asset_binary) : asset_binary := {| ab_flags := ab_flags b; ab_specs := map norm_spec (ab_specs b) |}.

(* representation invariants of AssetSpec / AssetBinary (field count and widths of the Rust types) *)
Definition shape_spec (sp : spec) : Prop :=
  length (sp_strs sp) = N_STRS /\ length (sp_typed sp) = N_TYPED /\ forall t, get_val sp t < 2 ^ 32.
Definition shape_bin (b : asset_binary) : Prop := ab_flags b < 2 ^ 32 /\ Forall shape_spec (ab_specs b).

Lemma get_str_norm sp t : get_str (norm_spec sp) t = get_str sp t.
Proof. reflexivity. Qed.
Lemma nth_norm sp t : nth t (sp_typed (norm_spec sp)) (false, 0) = norm_typed (nth t (sp_typed sp) (false, 0)).
Proof. cbn [norm_spec sp_typed]. change (false, 0) with (norm_typed (false, 0)) at 1. apply map_nth. Qed.
Lemma get_use_norm sp t : get_use (norm_spec sp) t = get_use sp t.
Proof. unfold get_use. rewrite nth_norm. unfold norm_typed. destruct (nth t (sp_typed sp) (false, 0)) as [[|] v]; reflexivity. Qed.
Lemma get_val_norm sp t : get_val (norm_spec sp) t = if get_use sp t then get_val sp t else 0.
Proof. unfold get_val, get_use. rewrite nth_norm. unfold norm_typed. destruct (nth t (sp_typed sp) (false, 0)) as [[|] v]; reflexivity. Qed.

(* ---- the writer never looks at the value of an absent field: same cells ---- *)
Lemma src_present_norm sp s : src_present (norm_spec sp) s = src_present sp s.
Proof. destruct s; cbn [src_present]; [rewrite get_str_norm; reflexivity | apply get_use_norm]. Qed.
Lemma raw_flags_norm fs sp : raw_flags_with fs (norm_spec sp) = raw_flags_with fs sp.
Proof.
  unfold raw_flags_with. generalize (repeat 0 8%nat). induction fs as [|[[byte mask] s] r IH]; intros fl; cbn [fold_left]; [reflexivity|].
  rewrite src_present_norm. apply IH.
Qed.
Lemma compute_flags_norm fs sp : compute_flags_with fs (norm_spec sp) = compute_flags_with fs sp.
Proof. unfold compute_flags_with. rewrite raw_flags_norm. reflexivity. Qed.
Lemma entries_cells_norm sp es : entries_cells (norm_spec sp) es = entries_cells sp es.
Proof.
  induction es as [|e r IH]; cbn [entries_cells]; [reflexivity|]. rewrite IH. f_equal.
  destruct e as [t b i|t b i k]; cbn [entry_cells]; [rewrite get_str_norm; reflexivity|].
  rewrite get_use_norm, get_val_norm. destruct (get_use sp t); reflexivity.
Qed.
Lemma record_cells_norm cb ce sp : record_cells cb ce (norm_spec sp) = record_cells cb ce sp.
Proof.
  unfold record_cells, long, flags. rewrite !compute_flags_norm, !entries_cells_norm. reflexivity.
Qed.
Lemma records_norm cb ce specs : records cb ce (map norm_spec specs) = records cb ce specs.
Proof. induction specs as [|sp r IH]; cbn [map records]; [reflexivity|]. rewrite IH, record_cells_norm. reflexivity. Qed.
Lemma file_cells_norm b : src_file_cells (norm_bin b) = src_file_cells b.
Proof. unfold src_file_cells, file_cells, norm_bin. cbn [ab_flags ab_specs]. rewrite records_norm. reflexivity. Qed.

Theorem build_norm b : build (norm_bin b) = build b.
Proof. rewrite !build_is_cells, file_cells_norm. reflexivity. Qed.
Theorem serialize_norm m b : serialize m (norm_bin b) = serialize m b.
Proof. unfold serialize. rewrite build_norm. reflexivity. Qed.

(* ---- the normalised value is in the domain of the restricted theorems; on that domain normalisation is the identity ---- *)
Lemma norm_spec_wf sp : shape_spec sp -> wf_spec (norm_spec sp).
Proof.
  intros (H1 & H2 & H3). constructor.
  - exact H1.
  - cbn [norm_spec sp_typed]. rewrite map_length. exact H2.
  - intros t. rewrite get_val_norm. destruct (get_use sp t); [apply H3 | reflexivity].
  - intros t. rewrite get_use_norm, get_val_norm. intros ->. reflexivity.
Qed.
Lemma norm_bin_wf b : shape_bin b -> wf_bin (norm_bin b).
Proof.
  intros [Hf Hs]. split; [exact Hf|]. cbn [norm_bin ab_specs]. induction Hs as [|sp r H Hr IH]; cbn [map]; constructor; [apply norm_spec_wf; exact H | exact IH].
Qed.
Lemma wf_spec_shape sp : wf_spec sp -> shape_spec sp.
Proof. intros W. split; [exact (ws_strs sp W)|]. split; [exact (ws_typed sp W) | exact (ws_vals sp W)]. Qed.
Lemma map_id_in {A} (f : A -> A) l : (forall x, In x l -> f x = x) -> map f l = l.
Proof. induction l as [|x r IH]; intros H; cbn [map]; [reflexivity|]. rewrite (H x (or_introl eq_refl)), IH; [reflexivity|]. intros y Hy. apply H. right. exact Hy. Qed.
Lemma norm_spec_id sp : wf_spec sp -> norm_spec sp = sp.
Proof.
  intros W. destruct sp as [nm strs typed]. unfold norm_spec. cbn [sp_name sp_strs sp_typed]. f_equal.
  apply map_id_in. intros p Hp. destruct (In_nth typed p (false, 0) Hp) as (t & _ & E).
  pose proof (ws_normal _ W t) as Nf. unfold get_use, get_val in Nf. cbn [sp_typed] in Nf. rewrite E in Nf.
  unfold norm_typed. destruct p as [[|] v]; cbn [fst snd] in *; [reflexivity | rewrite (Nf eq_refl); reflexivity].
Qed.
Lemma norm_bin_id b : wf_bin b -> norm_bin b = b.
Proof.
  intros [_ Hs]. destruct b as [fl specs]. unfold norm_bin. cbn [ab_flags ab_specs] in *. f_equal.
  apply map_id_in. intros sp Hsp. apply norm_spec_id. rewrite Forall_forall in Hs. exact (Hs sp Hsp).
Qed.
Lemma wf_bin_shape b : wf_bin b -> shape_bin b.
Proof. intros [Hf Hs]. split; [exact Hf|]. eapply Forall_impl; [|exact Hs]. exact wf_spec_shape. Qed.

(* ================================================================== the round trip for all specs *)
(* archive level: the reader returns the normalised value *)
Theorem round_trip_normalises b : shape_bin b ->
  exists a, build b = Ok a /\ from_archive a = Ok (norm_bin b) /\ wf_bin (norm_bin b).
Proof.
  intros S. pose proof (norm_bin_wf b S) as W. destruct (round_trip_archive (norm_bin b) W) as (a & B & R).
  exists a. rewrite <- build_norm. auto.
Qed.

(* byte level: strings NUL-free, image below 2^32; no normal-form condition *)
Definition shape_bin_bytes (b : asset_binary) : Prop := shape_bin b /\ Forall strings_ok (ab_specs b) /\ asset_fits b.
Lemma strings_ok_norm sp : strings_ok sp -> strings_ok (norm_spec sp).
Proof. intros [H1 H2]. split; [exact H1 | intros t v; rewrite get_str_norm; apply H2]. Qed.
Lemma norm_wf_bytes b : shape_bin_bytes b -> wf_bin_bytes (norm_bin b).
Proof.
  intros (S & Hs & Hf). split; [apply norm_bin_wf; exact S|]. split.
  - cbn [norm_bin ab_specs]. induction Hs as [|sp r H Hr IH]; cbn [map]; constructor; [apply strings_ok_norm; exact H | exact IH].
  - unfold asset_fits in *. rewrite file_cells_norm. exact Hf.
Qed.
Theorem round_trip_bytes_normalises m b : shape_bin_bytes b ->
  exists f, serialize m b = Ok f /\ parse f = Ok (norm_bin b) /\ (forall b', parse f = Ok b' -> serialize m b' = Ok f).
Proof.
  intros S. destruct (round_trip_bytes_final m (norm_bin b) (norm_wf_bytes b S)) as (f & Ser & Par & Re).
  exists f. rewrite <- serialize_norm. auto.
Qed.
(* the normal form is exactly what is needed for equality *)
Theorem round_trip_equal_iff m b f : shape_bin_bytes b -> serialize m b = Ok f -> (parse f = Ok b <-> norm_bin b = b).
Proof.
  intros S Ser. destruct (round_trip_bytes_normalises m b S) as (f' & Ser' & Par & _). rewrite Ser in Ser'. inversion Ser'; subst f'.
  rewrite Par. split; [intros E; inversion E; congruence | intros ->; reflexivity].
Qed.

(* ================================================================== the literal reading is false: witness *)
Definition shape_specb (sp : spec) : bool :=
  andb (andb (length (sp_strs sp) =? N_STRS)%nat (length (sp_typed sp) =? N_TYPED)%nat)
       (forallb (fun p : bool * N => snd p <? 2 ^ 32) (sp_typed sp)).
Lemma shape_specb_sound sp : shape_specb sp = true -> shape_spec sp.
Proof.
  unfold shape_specb. rewrite !andb_true_iff, !Nat.eqb_eq, forallb_forall. intros [[H1 H2] H3]. split; [exact H1|]. split; [exact H2|].
  intros t. unfold get_val. destruct (Nat.lt_ge_cases t (length (sp_typed sp))) as [L|L].
  - specialize (H3 _ (nth_In _ (false, 0) L)). lia.
  - rewrite nth_overflow by exact L. cbn [snd]. lia.
Qed.
Definition shape_bin_bytesb (b : asset_binary) : bool :=
  andb (andb (andb (ab_flags b <? 2 ^ 32) (forallb shape_specb (ab_specs b))) (forallb strings_okb (ab_specs b)))
       (cells_size (src_file_cells b) + cells_weight (src_file_cells b) + 35 <? 2 ^ 32).
Lemma shape_bin_bytesb_sound b : shape_bin_bytesb b = true -> shape_bin_bytes b.
Proof.
  unfold shape_bin_bytesb. rewrite !andb_true_iff, !forallb_forall. intros [[[H1 H2] H3] H4]. split; [split|split].
  - lia.
  - apply Forall_forall. intros sp Hsp. apply shape_specb_sound, H2, Hsp.
  - apply Forall_forall. intros sp Hsp. apply strings_okb_sound, H3, Hsp.
  - unfold asset_fits. lia.
Qed.

(* unk3 = 5 with use_unk3 = false *)
Definition nf_witness : asset_binary :=
  {| ab_flags := 0;
     ab_specs := [{| sp_name := None; sp_strs := repeat None N_STRS;
                     sp_typed := upd unk3 (fun _ => (false, 5)) (repeat (false, 0) N_TYPED) |}] |}.
Lemma nf_witness_shape : shape_bin_bytes nf_witness.
Proof. apply shape_bin_bytesb_sound. vm_compute. reflexivity. Qed.
Theorem round_trip_full_refuted :
  ~ (forall m b, shape_bin_bytes b -> exists f, serialize m b = Ok f /\ parse f = Ok b).
Proof.
  intros H. destruct (H Checked nf_witness nf_witness_shape) as (f & S & P).
  apply (round_trip_equal_iff Checked nf_witness f nf_witness_shape S) in P. vm_compute in P. discriminate P.
Qed.
