(* C17, part 3: the reader.  On ANY archive that shows the cell layout of a set (resp. of the whole
   file) and the labels of the sets, the reader returns the set (resp. the value): main flags -> group
   flags -> strings; an unset main bit yields 32 absent slots, an unset group bit one absent slot. *)
From Coq Require Import List NArith ZArith Bool Lia ZifyBool ZifyNat ZifyN Arith.
From Mila Require Import Lib.Bytes Lib.BytesExtra Lib.Machine Model.BinArchive Model.BinStreams Model.ASet
  Proofs.AMapLemmas Proofs.BinAccess Proofs.BinAccess2 Proofs.RecsCells Proofs.ASetBits Proofs.ASetWrite.
Import ListNotations.
Local Open Scope N_scope.
Ltac Zify.zify_post_hook ::= Z.div_mod_to_equations.

Lemma slot_present_false s i : slot_present s i = false -> slot s i = None.
Proof. unfold slot_present. destruct (slot s i); [discriminate | reflexivity]. Qed.
Lemma slot_present_some s i v : slot s i = Some v -> slot_present s i = true.
Proof. unfold slot_present. intros ->. reflexivity. Qed.

Lemma read_group_layout s g a : forall bits acc p,
  Forall (fun b => (b < 32)%nat) bits ->
  let idx := map (fun j => (g * 32 + j + 1)%nat) bits in
  layout a p (slots_cells s idx) ->
  read_group (map N.of_nat bits) (gflag s g) a p acc
  = Ok (rev (map (slot s) idx) ++ acc, p + cells_size (slots_cells s idx)).
Proof.
  induction bits as [|j r IH]; intros acc p Hb idx Hl; subst idx; cbn [map read_group] in *.
  - cbn [slots_cells flat_map cells_size rev app]. rewrite N.add_0_r. reflexivity.
  - inversion Hb as [|? ? Hj Hr]; subst. rewrite land_bit_test, (gflag_testbit s g j Hj).
    rewrite slots_cells_cons in *. apply layout_app in Hl. destruct Hl as [L1 L2].
    destruct (slot s (g * 32 + j + 1)) as [v|] eqn:E.
    + rewrite (slot_present_some _ _ _ E). cbn [negb]. rewrite (slot_cell_some _ _ _ E) in *.
      cbn [layout] in L1. destruct L1 as [C _]. rewrite (r_read_string_cell a p (Some v) C).
      cbn [cells_size cell_size] in L2. rewrite N.add_0_r in L2.
      rewrite (IH (Some v :: acc) (p + 4) Hr L2). cbn [rev]. rewrite <- app_assoc, cells_size_app. cbn [app cells_size cell_size].
      f_equal. f_equal. lia.
    + assert (P : slot_present s (g * 32 + j + 1) = false) by (unfold slot_present; rewrite E; reflexivity).
      rewrite P. cbn [negb]. rewrite (slot_cell_none _ _ E) in *. cbn [cells_size] in L2. rewrite N.add_0_r in L2.
      rewrite (IH (None :: acc) p Hr L2). cbn [rev app cells_size]. rewrite <- app_assoc. reflexivity.
Qed.

Lemma rev_map_none {A B} (f : A -> option B) l : (forall i, In i l -> f i = None) -> rev (map f l) = repeat None (length l).
Proof.
  induction l as [|i r IH]; intros H; [reflexivity|]. cbn [map rev length].
  rewrite IH by (intros k Hk; apply H; right; exact Hk). rewrite (H i (or_introl eq_refl)).
  clear. induction (length r) as [|n IHn]; [reflexivity|]. cbn [repeat app]. rewrite IHn. reflexivity.
Qed.
Lemma seq_below n : Forall (fun b => (b < n)%nat) (seq 0 n).
Proof. apply Forall_forall. intros b Hb. apply in_seq in Hb. lia. Qed.
Lemma group_slots_length g : length (group_slots g) = GROUP_BITS.
Proof. unfold group_slots. rewrite map_length, seq_length. reflexivity. Qed.

Lemma read_groups_layout s a : a_endian a = LE ->
  forall gs acc p, Forall (fun g => (g < 8)%nat) gs ->
  layout a p (flat_map (group_cells s) gs) ->
  read_groups (map N.of_nat gs) (main_flags s) a p acc
  = Ok (rev (map (slot s) (flat_map group_slots gs)) ++ acc, p + cells_size (flat_map (group_cells s) gs)).
Proof.
  intros He. induction gs as [|g r IH]; intros acc p Hg Hl; cbn [map read_groups flat_map] in *.
  - cbn [cells_size rev app]. rewrite N.add_0_r. reflexivity.
  - inversion Hg as [|? ? Hg1 Hr]; subst. rewrite land_bit_test, (main_flags_testbit s g Hg1).
    apply layout_app in Hl. destruct Hl as [L1 L2]. rewrite cells_size_app, map_app, rev_app_distr, <- app_assoc.
    destruct (group_nonempty s g) eqn:X; cbn [negb].
    + rewrite (group_cells_true _ _ X) in *. cbn [layout] in L1. destruct L1 as [C Ls].
      rewrite (r_read_u32_raw a p (gflag s g) He (gflag_bound s g) C).
      change (cell_size (CRaw (enc LE 4 (gflag s g)))) with 4 in Ls.
      pose proof (read_group_layout s g a (seq 0 GROUP_BITS) acc (p + 4) (seq_below 32)) as R. cbv zeta in R.
      fold (group_slots g) in R. unfold range. rewrite (R Ls). cbn [bind fst snd].
      cbn [cells_size cell_size] in L2. change (lenN (enc LE 4 (gflag s g))) with 4 in L2.
      rewrite IH; [|exact Hr|]. 2:{ replace (p + 4 + cells_size (slots_cells s (group_slots g))) with (p + (4 + cells_size (slots_cells s (group_slots g)))) by lia. exact L2. }
      cbn [cells_size cell_size]. change (lenN (enc LE 4 (gflag s g))) with 4. f_equal. f_equal. lia.
    + rewrite (group_cells_false _ _ X) in *. cbn [cells_size] in *. rewrite N.add_0_r in L2.
      rewrite (IH _ p Hr L2). f_equal. f_equal. f_equal. f_equal.
      rewrite rev_map_none, group_slots_length; [reflexivity|].
      intros i Hi. apply slot_present_false. unfold group_nonempty in X.
      destruct (slot_present s i) eqn:P; [|reflexivity].
      assert (existsb (slot_present s) (group_slots g) = true) by (apply existsb_exists; exists i; auto). congruence.
Qed.

(* a set of 257 entries is its label followed by its 256 slots *)
Lemma slot_cons x r i : slot (x :: r) (S i) = slot r i.
Proof. reflexivity. Qed.
Lemma slots_of_set : forall s, map (slot s) (seq 0 (length s)) = s.
Proof.
  induction s as [|x r IH]; [reflexivity|]. cbn [length seq map]. f_equal.
  - unfold slot. cbn [nth_error]. destruct x; reflexivity.
  - rewrite <- seq_shift, map_map. rewrite (map_ext _ (slot r)) by (intros i; apply slot_cons). exact IH.
Qed.
Lemma set_is_slots s : length s = 257%nat -> s = hd None s :: map (slot s) (seq 1 256).
Proof.
  intros H. pose proof (slots_of_set s) as E. rewrite H in E. change (seq 0 257) with (0%nat :: seq 1 256) in E.
  cbn [map] in E. rewrite <- E at 1. f_equal. destruct s as [|x r]; [discriminate|]. unfold slot. cbn [nth_error hd]. destruct x; reflexivity.
Qed.

Definition lbl_bucket (lbl : option bytes) : option (list bytes) :=
  match lbl with Some l => Some [l] | None => None end.

(* what the reader makes of a set vector of ANY length: the label and exactly 256 slots (missing ones absent, extra ones ignored
   - as the writer's `set.get(index)` treats them) *)
Definition norm_set (s : oset) : oset := hd None s :: map (slot s) (seq 1 256).
Lemma norm_set_wf s : length s = 257%nat -> norm_set s = s.
Proof. intros H. symmetry. apply set_is_slots. exact H. Qed.
Lemma norm_set_length s : length (norm_set s) = 257%nat.
Proof. unfold norm_set. cbn [length]. rewrite map_length, seq_length. reflexivity. Qed.

Theorem read_set_layout_gen s a p :
  a_endian a = LE -> layout a p (set_cells s) ->
  am_get p (a_labels a) = lbl_bucket (hd None s) ->
  read_set a p = Ok (norm_set s, p + cells_size (set_cells s)).
Proof.
  intros He Hl Hlab. unfold read_set, set_cells in *. cbn [layout] in Hl. destruct Hl as [C Lg].
  change (cell_size (CRaw (enc LE 4 (main_flags s)))) with 4 in Lg.
  assert (Hin : inside a p 4 = true).
  { apply inside_true. cbn [cell_at] in C. change (lenN (enc LE 4 (main_flags s))) with 4 in C.
    apply sliceN_bound in C. unfold size. lia. }
  assert (RL : r_read_label a p 0 = (Ok (hd None s), p)).
  { unfold r_read_label. rewrite read_labels_spec, Hin, Hlab. destruct (hd None s); reflexivity. }
  rewrite RL. rewrite (r_read_u32_raw a p (main_flags s) He (main_flags_bound s) C).
  unfold range. rewrite (read_groups_layout s a He (seq 0 GROUPS) [hd None s] (p + 4) (seq_below 8) Lg).
  cbn [bind fst snd]. rewrite rev_app_distr, rev_involutive, all_slots. cbn [rev app].
  fold (norm_set s). cbn [cells_size cell_size]. change (lenN (enc LE 4 (main_flags s))) with 4.
  f_equal. f_equal. lia.
Qed.
Theorem read_set_layout s a p :
  a_endian a = LE -> length s = 257%nat -> layout a p (set_cells s) ->
  am_get p (a_labels a) = lbl_bucket (hd None s) ->
  read_set a p = Ok (s, p + cells_size (set_cells s)).
Proof. intros He Hlen Hl Hlab. rewrite (read_set_layout_gen s a p He Hl Hlab), (norm_set_wf s Hlen). reflexivity. Qed.

Lemma am_get_lbl_entry_other x p lbl (m : amap (list bytes)) : x <> p -> am_get x (lbl_entry p lbl ++ m) = am_get x m.
Proof.
  intros H. destruct lbl; cbn [lbl_entry app am_get]; [|reflexivity].
  destruct (N.eqb_spec x p); [congruence | reflexivity].
Qed.
Lemma am_get_sets_labels_first p s r : am_get p (sets_labels p (s :: r)) = lbl_bucket (hd None s).
Proof.
  cbn [sets_labels]. destruct (hd None s); cbn [lbl_entry app am_get lbl_bucket].
  - rewrite N.eqb_refl. reflexivity.
  - apply am_get_none. intros H. apply sets_labels_keys in H. pose proof (set_space_ge s). lia.
Qed.

Theorem read_sets_layout_gen a : a_endian a = LE ->
  forall sets acc p fuel,
  layout a p (sets_cells sets) -> size a = p + cells_size (sets_cells sets) ->
  (forall x, p <= x -> am_get x (a_labels a) = am_get x (sets_labels p sets)) ->
  (length sets <= fuel)%nat ->
  read_sets fuel a p acc = Ok (rev acc ++ map norm_set sets).
Proof.
  intros He. induction sets as [|s r IH]; intros acc p fuel Hl Hs Hlab Hf; cbn [sets_cells cells_size length map] in *.
  - rewrite N.add_0_r in Hs. rewrite app_nil_r.
    destruct fuel; cbn [read_sets]; (destruct (N.leb_spec (size a) p); [reflexivity | lia]).
  - apply layout_app in Hl. destruct Hl as [L1 L2].
    rewrite cells_size_app in Hs. pose proof (set_space_ge s) as G. rewrite <- set_cells_size in G.
    destruct fuel as [|fuel]; [lia|]. cbn [read_sets].
    destruct (N.leb_spec (size a) p) as [Hle|_]; [lia|].
    rewrite (read_set_layout_gen s a p He L1).
    2:{ rewrite (Hlab p (N.le_refl p)). apply am_get_sets_labels_first. }
    rewrite bind_ok. cbn [fst snd].
    replace (rev acc ++ norm_set s :: map norm_set r) with (rev (norm_set s :: acc) ++ map norm_set r)
      by (cbn [rev]; rewrite <- app_assoc; reflexivity).
    apply IH; [exact L2 | lia | | lia].
    intros x Hx. rewrite (Hlab x) by lia. cbn [sets_labels]. rewrite set_cells_size. apply am_get_lbl_entry_other. lia.
Qed.
Lemma map_norm_wf sets : Forall (fun s : oset => length s = 257%nat) sets -> map norm_set sets = sets.
Proof. induction 1 as [|s r Hs Hr IH]; cbn [map]; [reflexivity|]. rewrite IH, (norm_set_wf s Hs). reflexivity. Qed.
Theorem read_sets_layout a : a_endian a = LE ->
  forall sets acc p fuel,
  Forall (fun s : oset => length s = 257%nat) sets ->
  layout a p (sets_cells sets) -> size a = p + cells_size (sets_cells sets) ->
  (forall x, p <= x -> am_get x (a_labels a) = am_get x (sets_labels p sets)) ->
  (length sets <= fuel)%nat ->
  read_sets fuel a p acc = Ok (rev acc ++ sets).
Proof.
  intros He sets acc p fuel Hwf Hl Hs Hlab Hf. rewrite (read_sets_layout_gen a He sets acc p fuel Hl Hs Hlab Hf), (map_norm_wf sets Hwf). reflexivity.
Qed.

Lemma read_strings_layout a : forall t n acc p,
  length t = n -> layout a p (map CStr t) ->
  read_strings n a p acc = Ok (rev acc ++ t, p + 4 * N.of_nat n).
Proof.
  induction t as [|o r IH]; intros n acc p Hn Hl; subst n; cbn [length read_strings map layout] in *.
  - rewrite app_nil_r, N.add_0_r. reflexivity.
  - destruct Hl as [C L]. rewrite (r_read_string_cell a p o C). cbn [cell_size] in L.
    rewrite (IH _ (o :: acc) (p + 4) eq_refl L). cbn [rev]. rewrite <- app_assoc. f_equal. f_equal. lia.
Qed.

(* the reader on any archive that shows the file layout and the labels; sets of any length read back normalised *)
Definition norm_aset (v : aset) : aset := {| as_meta := as_meta v; as_table := as_table v; as_sets := map norm_set (as_sets v) |}.
Lemma norm_aset_wf v : wf_aset v -> norm_aset v = v.
Proof. intros [_ Hs]. unfold norm_aset. rewrite (map_norm_wf _ Hs). destruct v; reflexivity. Qed.

Theorem from_archive_layout_gen v a :
  length (as_table v) = 257%nat -> a_endian a = LE -> layout a 0 (file_cells v) -> size a = cells_size (file_cells v) ->
  find_label_address a ACNT = Some 12 ->
  (forall x, SETS_AT <= x -> am_get x (a_labels a) = am_get x (sets_labels SETS_AT (as_sets v))) ->
  from_archive a = Ok (norm_aset v).
Proof.
  intros Ht He Hl Hsz Hf Hlab. unfold from_archive. rewrite Hf. cbn [of_option bind].
  unfold file_cells in Hl, Hsz. apply layout_app in Hl. destruct Hl as [Lh Lr].
  unfold header_cells in Lh. cbn [layout] in Lh. destruct Lh as (_ & Cm & _).
  change (0 + cell_size (CRaw (enc LE 4 4))) with (0 + 4) in Cm. rewrite (r_read_string_cell a (0 + 4) (as_meta v) Cm).
  change (0 + cells_size (header_cells v)) with 12 in Lr. apply layout_app in Lr. destruct Lr as [Lt Ls].
  unfold TABLE_LEN. rewrite (read_strings_layout a (as_table v) 257 [] 12 Ht Lt). cbn [bind fst snd rev app].
  rewrite cells_size_strs, Ht in Ls. change (12 + 4 * N.of_nat 257) with SETS_AT in *.
  rewrite !cells_size_app, cells_size_strs, Ht in Hsz. change (cells_size (header_cells v)) with 12 in Hsz.
  assert (Hsz' : size a = SETS_AT + cells_size (sets_cells (as_sets v))) by (unfold SETS_AT; lia).
  rewrite (read_sets_layout_gen a He (as_sets v) [] SETS_AT _ Ls Hsz' Hlab).
  - cbn [bind rev app]. reflexivity.
  - pose proof (sets_cells_size_ge (as_sets v)) as G. unfold size, lenN in Hsz'. lia.
Qed.
Theorem from_archive_layout v a :
  wf_aset v -> a_endian a = LE -> layout a 0 (file_cells v) -> size a = cells_size (file_cells v) ->
  find_label_address a ACNT = Some 12 ->
  (forall x, SETS_AT <= x -> am_get x (a_labels a) = am_get x (sets_labels SETS_AT (as_sets v))) ->
  from_archive a = Ok v.
Proof.
  intros W He Hl Hsz Hf Hlab. rewrite (from_archive_layout_gen v a (proj1 W) He Hl Hsz Hf Hlab), (norm_aset_wf v W). reflexivity.
Qed.
