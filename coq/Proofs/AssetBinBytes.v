(* C18, part 6: byte level, record size, short form, trailing word - the statements Properties/C18.v exports. *)
From Coq Require Import List NArith ZArith Bool Lia ZifyBool ZifyNat ZifyN Arith.
From Mila Require Import Lib.Bytes Lib.Machine Model.BinArchive Model.BinStreams Model.BinFormat Model.AssetBin
  Proofs.AMapLemmas Proofs.BinAccess Proofs.BinAccess2 Proofs.RecsCells Proofs.RecsBytes Proofs.AssetBinSchema
  Proofs.AssetBinFlags Proofs.AssetBinWrite Proofs.AssetBinRead Proofs.AssetBinRoundTrip Proofs.RecsBinBridge Proofs.RecsDataSize.
Import ListNotations.
Local Open Scope N_scope.
Ltac Zify.zify_post_hook ::= Z.div_mod_to_equations.

(* strings as the file format can carry them: NUL-free byte strings (A-codec: lossless Shift-JIS) *)
Definition strings_ok (sp : spec) : Prop :=
  (forall v, sp_name sp = Some v -> str_ok v) /\ (forall t v, get_str sp t = Some v -> str_ok v).
(* "sizes fit": the file image (computed without sharing equal strings; 32 header bytes and the 3 spare
   bytes C01's bound counts for c-string pool padding) stays below 2^32 *)
Definition asset_fits (b : asset_binary) : Prop :=
  cells_size (src_file_cells b) + cells_weight (src_file_cells b) + 35 < 2 ^ 32.
Definition wf_bin_bytes (b : asset_binary) : Prop :=
  wf_bin b /\ Forall strings_ok (ab_specs b) /\ asset_fits b.

Lemma wfb_swap02 bs : wfb bs -> wfb (swap02 bs).
Proof.
  intros H. destruct bs as [|a [|b [|c [|d [|]]]]]; cbn [swap02]; try exact H.
  inversion H as [|? ? Ha H1]; subst. inversion H1 as [|? ? Hb H2]; subst. inversion H2 as [|? ? Hc H3]; subst.
  inversion H3 as [|? ? Hd H4]; subst. repeat constructor; assumption.
Qed.
Lemma typed_bytes_ok k v : cell_ok (CRaw (typed_bytes k v)).
Proof.
  cbn [cell_ok]. rewrite lenN_typed_bytes. split; [|reflexivity].
  destruct k; cbn [typed_bytes]; [apply wfb_swap02, wfb_enc_le | apply wfb_enc | apply wfb_enc].
Qed.
Lemma entries_cells_ok sp es : strings_ok sp -> Forall cell_ok (entries_cells sp es).
Proof.
  intros [_ Hs]. induction es as [|e r IH]; cbn [entries_cells]; [constructor|]. apply Forall_app. split; [|exact IH].
  destruct e as [t b i|t b i k]; cbn [entry_cells].
  - destruct (get_str sp t) as [v|] eqn:G; [|constructor]. constructor; [|constructor]. cbn [cell_ok]. exact (Hs t v G).
  - destruct (get_use sp t); [|constructor]. constructor; [apply typed_bytes_ok | constructor].
Qed.
Lemma record_cells_ok sp : strings_ok sp -> Forall cell_ok (src_record_cells sp).
Proof.
  intros Hs. unfold src_record_cells, record_cells. constructor.
  - cbn [cell_ok]. split; [exact (flags_small c_base c_ext src_wf sp)|].
    unfold lenN. rewrite length_flags. destruct (short c_base c_ext sp); reflexivity.
  - constructor.
    + cbn [cell_ok]. destruct (sp_name sp) as [v|] eqn:E; [|exact I]. exact (proj1 Hs v E).
    + apply Forall_app. split; [apply entries_cells_ok; exact Hs|].
      destruct (long c_base c_ext sp); [apply entries_cells_ok; exact Hs | constructor].
Qed.
Lemma file_cells_ok b : Forall strings_ok (ab_specs b) -> Forall cell_ok (src_file_cells b).
Proof.
  intros H. unfold src_file_cells, file_cells. constructor.
  - cbn [cell_ok]. split; [apply wfb_enc | reflexivity].
  - apply Forall_app. split.
    + induction H as [|sp r Hs Hr IH]; cbn [records]; [constructor|]. apply Forall_app. split; [exact (record_cells_ok sp Hs) | exact IH].
    + constructor; [|constructor]. cbn [cell_ok]. split; [apply wfb_zeros | reflexivity].
Qed.

Theorem built_archive_wf b : wf_bin_bytes b -> ba_wf (arch_of (src_file_cells b) []).
Proof.
  intros (_ & Hs & Hf). apply arch_of_wf.
  - apply file_cells_ok. exact Hs.
  - constructor.
  - intros k bk [].
  - cbn [labels_weight]. unfold asset_fits in Hf. lia.
Qed.
Theorem built_archive_bound b : wf_bin_bytes b -> image_bound (arch_of (src_file_cells b) []) + 3 < 2 ^ 32.
Proof.
  intros (_ & _ & Hf). unfold image_bound. rewrite size_arch_of. cbn [arch_of a_text a_labels labels_weight].
  rewrite text_weight_cells. unfold asset_fits in Hf. lia.
Qed.

(* the reader returns b on every archive observationally equal to the built one *)
Theorem from_archive_obs_equal b a' :
  wf_bin b -> obs_equal (arch_of (src_file_cells b) []) a' -> from_archive a' = Ok b.
Proof.
  intros W OE. destruct (layout_obs_equal _ _ _ OE) as (L & S & E).
  apply from_archive_of_layout; assumption.
Qed.

Section Bytes.
Variable m : mode.
Hypothesis bytes_round_trip : forall a, ba_wf a -> image_bound a + 3 < 2 ^ 32 ->
  exists f a', BinFormat.serialize m a = Ok f /\ BinFormat.from_bytes LE f = Ok a' /\ obs_equal a a'.

Theorem round_trip_bytes b :
  wf_bin_bytes b ->
  exists f, serialize m b = Ok f /\ parse f = Ok b /\ (forall b', parse f = Ok b' -> serialize m b' = Ok f).
Proof.
  intros W. destruct (bytes_round_trip _ (built_archive_wf b W) (built_archive_bound b W)) as (f & a' & S & P & OE).
  assert (Ser : serialize m b = Ok f).
  { unfold serialize. rewrite build_is_cells. cbn [bind]. rewrite arch_of_append. exact S. }
  assert (Par : parse f = Ok b).
  { unfold parse. rewrite P. cbn [bind]. apply from_archive_obs_equal; [exact (proj1 W) | exact OE]. }
  exists f. split; [exact Ser|]. split; [exact Par|]. intros b' Hb'. rewrite Par in Hb'. inversion Hb'; subst. exact Ser.
Qed.
End Bytes.

(* the premise is the bin-archive round trip C01 (Proofs/RecsBinBridge.v): no premise left *)
Theorem round_trip_bytes_final m b :
  wf_bin_bytes b ->
  exists f, serialize m b = Ok f /\ parse f = Ok b /\ (forall b', parse f = Ok b' -> serialize m b' = Ok f).
Proof. apply round_trip_bytes. intros a W B. apply recs_bin_round_trip; assumption. Qed.

(* serialization is injective on the domain: two values with the same image are equal *)
Theorem serialize_injective m b1 b2 f :
  wf_bin_bytes b1 -> wf_bin_bytes b2 -> serialize m b1 = Ok f -> serialize m b2 = Ok f -> b1 = b2.
Proof.
  intros W1 W2 S1 S2.
  destruct (round_trip_bytes_final m b1 W1) as (f1 & E1 & P1 & _). destruct (round_trip_bytes_final m b2 W2) as (f2 & E2 & P2 & _).
  rewrite S1 in E1. rewrite S2 in E2. inversion E1; inversion E2; subst f1 f2. rewrite P1 in P2. inversion P2. reflexivity.
Qed.

(* ================================================================== the data region: header word + announced record sizes + trailing word *)
Fixpoint announced_total (specs : list spec) : N :=
  match specs with [] => 0 | sp :: r => snd (compute_flags sp) + announced_total r end.
Lemma records_size specs : cells_size (records c_base c_ext specs) = announced_total specs.
Proof.
  induction specs as [|sp r IH]; cbn [records announced_total cells_size]; [reflexivity|].
  rewrite cells_size_app, IH, (record_cells_size c_base c_ext src_wf sp), compute_flags_eq. reflexivity.
Qed.
Lemma file_cells_size b : cells_size (src_file_cells b) = 4 + announced_total (ab_specs b) + 4.
Proof.
  unfold src_file_cells, file_cells. cbn [cells_size cell_size]. rewrite cells_size_app, records_size.
  cbn [cells_size cell_size]. rewrite lenN_zeros. change (lenN (enc LE 4 (ab_flags b))) with 4. lia.
Qed.
(* ... and this is the data-size field (offset 4) of the file image: every record occupies exactly the bytes its flags announce *)
Theorem data_size_field m b f : 4 + announced_total (ab_specs b) + 4 < 2 ^ 32 -> serialize m b = Ok f ->
  u32_at LE f 4 = Some (4 + announced_total (ab_specs b) + 4).
Proof.
  intros Hs S. unfold serialize in S. rewrite build_is_cells in S. cbn [bind] in S. rewrite <- file_cells_size in *.
  pose proof (serialize_data_size m (append_cells (ba_new LE) (src_file_cells b)) f eq_refl) as D.
  rewrite size_append_cells in D. change (size (ba_new LE)) with 0 in D. rewrite N.add_0_l in D. exact (D Hs S).
Qed.

(* ================================================================== short form, record size, trailing word *)
Definition is_some {A} (o : option A) : bool := match o with Some _ => true | None => false end.
Definition ext_present (sp : spec) : bool :=
  orb (is_some (get_str sp clothing_sound)) (orb (is_some (get_str sp voice)) (existsb (get_use sp) (seq 0 N_TYPED))).

Lemma ext_present_schema sp : ext_present sp = existsb (present sp) c_ext.
Proof.
  unfold ext_present, c_ext, N_TYPED, clothing_sound, voice. cbn [existsb present seq is_some].
  destruct (get_str sp 31), (get_str sp 32); reflexivity.
Qed.

Theorem short_form sp :
  length (fst (compute_flags sp)) = (if ext_present sp then 8%nat else 4%nat).
Proof.
  rewrite compute_flags_eq. change (fst (compute_flags_with (map fproj (c_base ++ c_ext)) sp)) with (flags c_base c_ext sp).
  rewrite length_flags, ext_present_schema.
  destruct (short c_base c_ext sp) eqn:S.
  - pose proof (proj1 (short_iff c_base c_ext src_wf sp) S) as H.
    destruct (existsb (present sp) c_ext) eqn:X; [|reflexivity].
    apply existsb_exists in X. destruct X as (e & He & P). rewrite (H e He) in P. discriminate.
  - destruct (existsb (present sp) c_ext) eqn:X; [reflexivity|].
    assert (short c_base c_ext sp = true); [|congruence].
    apply (short_iff c_base c_ext src_wf sp). intros e He.
    destruct (present sp e) eqn:P; [|reflexivity].
    assert (existsb (present sp) c_ext = true) by (apply existsb_exists; exists e; auto). congruence.
Qed.

(* number of present flagged fields *)
Definition fields_present (sp : spec) : N := count_present sp (c_base ++ c_ext).
(* set bits of the flag bytes, the long-form marker included *)
Definition popcount_flags (fl : list N) : N := cnt fl.

Theorem record_size sp a :
  keys_below (a_text a) (size a) -> a_endian a = LE ->
  let fl := fst (compute_flags sp) in
  let marker := if 4 <? lenN fl then 1 else 0 in
  exists a', append sp a = Ok a' /\
    size a' = size a + lenN fl + 4 + 4 * fields_present sp /\
    fields_present sp + marker = popcount_flags fl /\
    snd (compute_flags sp) = lenN fl + 4 + 4 * fields_present sp.
Proof.
  intros Hk He. cbv zeta. rewrite compute_flags_eq, append_eq.
  exists (append_cells a (src_record_cells sp)). split; [apply (append_with_spec c_base c_ext src_wf sp a Hk He)|].
  pose proof (announced_size c_base c_ext src_wf sp) as A.
  pose proof (announced_size_popcount c_base c_ext src_wf sp) as P.
  change (fst (compute_flags_with (map fproj (c_base ++ c_ext)) sp)) with (flags c_base c_ext sp).
  split; [|split; [|exact A]].
  - rewrite size_append_cells. unfold src_record_cells. rewrite (record_cells_size c_base c_ext src_wf sp), A.
    unfold fields_present. lia.
  - unfold fields_present, popcount_flags. fold (long c_base c_ext sp). rewrite A in P.
    destruct (long c_base c_ext sp); lia.
Qed.

(* the read loop stops at the trailing zero word: it reads as a short all-absent record whose name
   cell lies beyond the data, so from_stream fails there and the loop ends with exactly the specs *)
Theorem read_loop_stops b :
  wf_bin b ->
  exists a, build b = Ok a /\ read_u32 a (size a - 4) = Ok 0 /\ from_stream a (size a - 4) = Err EOob /\
            from_archive a = Ok b.
Proof.
  intros W. exists (append_cells (ba_new LE) (src_file_cells b)). split; [apply build_is_cells|].
  set (pre := CRaw (enc LE 4 (ab_flags b)) :: records c_base c_ext (ab_specs b)).
  assert (Ecs : src_file_cells b = pre ++ [CRaw (zeros (N.to_nat 4))]) by reflexivity.
  set (A := append_cells (ba_new LE) (src_file_cells b)).
  pose proof (layout_append (ba_new LE) (src_file_cells b) (ba_new_keys LE)) as L.
  change (size (ba_new LE)) with 0 in L. fold A in L. rewrite Ecs in L.
  apply layout_app in L. destruct L as [_ L]. cbn [layout] in L. destruct L as [L _].
  assert (Sz : size A = cells_size pre + 4).
  { unfold A. rewrite size_append_cells, Ecs, cells_size_app. cbn [cells_size cell_size]. rewrite lenN_zeros.
    change (size (ba_new LE)) with 0. lia. }
  set (p := 0 + cells_size pre) in *.
  assert (Ep : size A - 4 = p) by lia. rewrite Ep.
  split; [|split].
  - pose proof (r_read_u32_raw A p 0 eq_refl ltac:(lia) L) as R. unfold r_read_u32 in R.
    destruct (read_u32 A p) as [v| |]; cbn [rd] in R; inversion R; reflexivity.
  - rewrite from_stream_eq. apply (from_stream_trailing c_base c_ext A p L). lia.
  - destruct (round_trip_with c_base c_ext src_wf b W) as (a & B & R & E). rewrite from_archive_eq. subst a. exact R.
Qed.

(* re-serializing what was read gives the same archive *)
Theorem reserialize_identical_archive b a b' :
  wf_bin b -> build b = Ok a -> from_archive a = Ok b' -> b' = b /\ build b' = Ok a.
Proof.
  intros W B R. destruct (round_trip_archive b W) as (a0 & B0 & R0). rewrite B in B0. inversion B0; subst a0.
  rewrite R in R0. inversion R0; subst b'. split; [reflexivity | exact B].
Qed.

(* ================================================================== boolean checkers for the well-formedness predicates *)
Definition str_okb (s : bytes) : bool := andb (negb (existsb (N.eqb 0) s)) (wfbb s).
Lemma str_okb_sound s : str_okb s = true -> str_ok s.
Proof.
  unfold str_okb, str_ok. rewrite andb_true_iff, negb_true_iff. intros [H1 H2]. split; [|apply wfbb_spec; exact H2].
  intros Hin. assert (existsb (N.eqb 0) s = true); [|congruence]. apply existsb_exists. exists 0. split; [exact Hin | reflexivity].
Qed.
Definition opt_okb (o : option bytes) : bool := match o with Some s => str_okb s | None => true end.
Definition wf_specb (sp : spec) : bool :=
  andb (andb (length (sp_strs sp) =? N_STRS)%nat (length (sp_typed sp) =? N_TYPED)%nat)
       (forallb (fun p : bool * N => andb (snd p <? 2 ^ 32) (orb (fst p) (snd p =? 0))) (sp_typed sp)).
Definition strings_okb (sp : spec) : bool := andb (opt_okb (sp_name sp)) (forallb opt_okb (sp_strs sp)).

Lemma wf_specb_sound sp : wf_specb sp = true -> wf_spec sp.
Proof.
  unfold wf_specb. rewrite !andb_true_iff, !Nat.eqb_eq, forallb_forall. intros [[H1 H2] H3].
  assert (G : forall t, get_val sp t < 2 ^ 32 /\ (get_use sp t = false -> get_val sp t = 0)).
  { intros t. unfold get_val, get_use. destruct (Nat.lt_ge_cases t (length (sp_typed sp))) as [L|L].
    - specialize (H3 _ (nth_In _ (false, 0) L)). destruct (nth t (sp_typed sp) (false, 0)) as [u v]. cbn [fst snd] in *.
      apply andb_true_iff in H3. destruct H3 as [A B]. split; [lia|]. intros ->. cbn [orb] in B. lia.
    - rewrite nth_overflow by exact L. cbn [fst snd]. split; [lia | reflexivity]. }
  constructor; [exact H1 | exact H2 | intros t; apply G | intros t; apply G].
Qed.
Lemma strings_okb_sound sp : strings_okb sp = true -> strings_ok sp.
Proof.
  unfold strings_okb, strings_ok. rewrite andb_true_iff, forallb_forall. intros [H1 H2]. split.
  - intros v E. rewrite E in H1. apply str_okb_sound. exact H1.
  - intros t v E. unfold get_str in E.
    destruct (Nat.lt_ge_cases t (length (sp_strs sp))) as [L|L]; [|rewrite nth_overflow in E by exact L; discriminate].
    specialize (H2 _ (nth_In _ None L)). rewrite E in H2. apply str_okb_sound. exact H2.
Qed.
Definition wf_bin_bytesb (b : asset_binary) : bool :=
  andb (andb (andb (ab_flags b <? 2 ^ 32) (forallb wf_specb (ab_specs b))) (forallb strings_okb (ab_specs b)))
       (cells_size (src_file_cells b) + cells_weight (src_file_cells b) + 35 <? 2 ^ 32).
Lemma wf_bin_bytesb_sound b : wf_bin_bytesb b = true -> wf_bin_bytes b.
Proof.
  unfold wf_bin_bytesb. rewrite !andb_true_iff, !forallb_forall. intros [[[H1 H2] H3] H4].
  split; [split|split].
  - lia.
  - apply Forall_forall. intros sp Hsp. apply wf_specb_sound, H2, Hsp.
  - apply Forall_forall. intros sp Hsp. apply strings_okb_sound, H3, Hsp.
  - unfold asset_fits. lia.
Qed.
