(* Helpers shared by the Proofs/SrcAgree_*.v files (agreement of the tables that gen/srctables.py
   regenerates from the Rust sources with the hand-written models).  Definitions and tactics only. *)
From Coq Require Import List NArith ZArith Bool String Ascii.
Import ListNotations.
Local Open Scope N_scope.

(* association lists keyed by N, as the translator prints `match` tables *)
Fixpoint lookup {A} (k : N) (l : list (N * A)) : option A :=
  match l with
  | [] => None
  | (k', v) :: r => if k =? k' then Some v else lookup k r
  end.
Definition lookup_d {A} (d : A) (k : N) (l : list (N * A)) : A :=
  match lookup k l with Some v => v | None => d end.
Definition keys {A} (l : list (N * A)) : list N := map fst l.
Definition memN (k : N) (l : list N) : bool := existsb (N.eqb k) l.

(* an identifier / string literal of the source as the translator prints it: scalar values of its characters *)
Definition s2l (s : string) : list N := map N_of_ascii (list_ascii_of_string s).

Definition nthN (i : nat) (l : list N) : N := nth i l 0.
Definition rangeN (n : nat) : list N := map N.of_nat (seq 0 n).

(* case analysis on an arbitrary N down to [k] binary digits: the remaining goals mention a
   positive with at least k+1 digits, on which every `match` against small literals has already
   reduced to its default arm *)
Tactic Notation "N_cases" ident(n) integer(k) :=
  destruct n as [|n]; [ | do k (try (destruct n as [n|n|])) ].
