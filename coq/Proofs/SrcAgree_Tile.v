(* Agreement of the tables of src/texture_decoder.rs, as regenerated from the source on every run
   (Generated/SourceTables.v), with Model/Pixel.v and the dispatch of Model/Etc1.v. *)
From Coq Require Import List NArith ZArith Bool Lia.
From Mila Require Import Generated.SourceTables.
From Mila Require Import Proofs.SrcAgreeLib Lib.Bytes Lib.Machine Model.Pixel Model.Etc1.
Import ListNotations.
Local Open Scope N_scope.

(* ---- TILE_ORDER, CONVERT_5_TO_8: first-class tables of the model ---- *)
Theorem src_TILE_ORDER_agrees : src_TILE_ORDER = Pixel.TILE_ORDER.
Proof. reflexivity. Qed.

(* what the model does with the table: (x, y) of the pixel-th texel of a tile *)
Theorem src_TILE_ORDER_agrees_use : forall p : nat,
  tile_xy p = (let t := nth p src_TILE_ORDER 0 in (t mod 8, (t - t mod 8) / 8)).
Proof. intro p. rewrite src_TILE_ORDER_agrees. reflexivity. Qed.

Theorem src_CONVERT_5_TO_8_agrees : src_CONVERT_5_TO_8 = Pixel.CONVERT_5_TO_8.
Proof. reflexivity. Qed.

Theorem src_CONVERT_5_TO_8_agrees_use : forall i, c5 i = nth (N.to_nat i) src_CONVERT_5_TO_8 0.
Proof. intro i. rewrite src_CONVERT_5_TO_8_agrees. reflexivity. Qed.

(* ---- get_pixel_format_bpp: the model's [bpp2] is the table, for EVERY format number ---- *)
Theorem src_BPP2_agrees : forall f, bpp2 f = lookup_d src_BPP2_DEFAULT f src_BPP2.
Proof. intro f. N_cases f 4; reflexivity. Qed.

(* ---- decode_pixel_data: which decoder a format number reaches ---- *)
Definition decode_pixels_tbl (tbl : list (N * N)) (alpha_fmt : N) (m : mode) (data : bytes) (width height format : N)
  : outcome (list color) :=
  match lookup format tbl with
  | Some 0 => decode_rgba_pixels m data width height format
  | Some 1 => etc1_decode_pixels m data width height (format =? alpha_fmt)
  | _ => Err EOther
  end.

Theorem src_DECODE_DISPATCH_agrees : forall m data width height format,
  decode_pixels m data width height format
  = decode_pixels_tbl src_DECODE_DISPATCH src_ETC1_ALPHA_FORMAT m data width height format.
Proof. intros m data width height f. N_cases f 4; reflexivity. Qed.

(* ---- decode_rgba_pixel_data: bytes a pixel reads / the cursor advances, per format ---- *)
Definition read_width_tbl (tbl : list (N * N * N)) (format : N) : N * N :=
  match lookup format (map (fun r => (fst (fst r), (snd (fst r), snd r))) tbl) with
  | Some (w, back) => (w, w - back)
  | None => (0, 0)
  end.

(* [need f 1] = bytes the first read needs, [need f 2 - need f 1] = bytes the cursor moved *)
Theorem src_READ_WIDTH_agrees : forall f, (need f 1, need f 2 - need f 1) = read_width_tbl src_READ_WIDTH f.
Proof. intro f. N_cases f 4; reflexivity. Qed.

(* the read itself, on a buffer that is long enough: what is left behind the element *)
Theorem src_READ_WIDTH_agrees_read : forall f a b c d rest,
  match read_elem f (a :: b :: c :: d :: rest) with
  | Some (_, rest') =>
    (length rest' + N.to_nat (snd (read_width_tbl src_READ_WIDTH f)))%nat = length (a :: b :: c :: d :: rest)
  | None => False
  end.
Proof.
  intros f a b c d rest.
  N_cases f 4; cbn; lia.
Qed.
