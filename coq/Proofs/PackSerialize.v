(* fe9_arc::serialize writes a conforming image with exact fields and 32-byte aligned files
   (C15_serialize_conforms), and parse inverts it (C15_round_trip). *)
From Coq Require Import List NArith ZArith Arith Lia Bool ZifyBool ZifyNat ZifyN.
From Mila Require Import Lib.Bytes Lib.BytesExtra Lib.Machine Model.PackFormat Model.Pack Proofs.PackParse.
Import ListNotations.
Local Open Scope N_scope.
Ltac Zify.zify_post_hook ::= Z.div_mod_to_equations.

(* ------------------------------------------------------------------ the two loops as recursive layouts *)
Definition cz (k : bytes) : bytes := k ++ [0].

Fixpoint name_offsets (pos : N) (names : list bytes) : list N :=
  match names with
  | [] => []
  | k :: r => pos :: name_offsets (pos + lenN k + 1) r
  end.

Lemma text_fold hl names : forall addrs txt,
  fold_left (text_step hl) names (addrs, txt)
  = (addrs ++ name_offsets (hl + lenN txt) names, txt ++ concat (map cz names)).
Proof.
  induction names as [|k r IH]; intros addrs txt; cbn [fold_left name_offsets map concat].
  - rewrite !app_nil_r. reflexivity.
  - unfold text_step at 2. rewrite IH. f_equal.
    + rewrite <- app_assoc. cbn [app]. do 3 f_equal. rewrite !lenN_app. change (lenN [0]) with 1. lia.
    + unfold cz. rewrite <- !app_assoc. reflexivity.
Qed.

Definition blk (pos : N) (b : bytes) : bytes := b ++ pad_zeros (pos + lenN b).

Fixpoint file_infos (pos : N) (bodies : list bytes) : list (N * N) :=
  match bodies with
  | [] => []
  | b :: r => (pos, lenN b) :: file_infos (pos + lenN (blk pos b)) r
  end.
Fixpoint file_data (pos : N) (bodies : list bytes) : bytes :=
  match bodies with
  | [] => []
  | b :: r => blk pos b ++ file_data (pos + lenN (blk pos b)) r
  end.

Lemma file_fold base bodies : forall info raw,
  fold_left (file_step base) bodies (info, raw)
  = (info ++ file_infos (base + lenN raw) bodies, raw ++ file_data (base + lenN raw) bodies).
Proof.
  induction bodies as [|b r IH]; intros info raw; cbn [fold_left file_infos file_data].
  - rewrite !app_nil_r. reflexivity.
  - unfold file_step at 2. rewrite IH.
    assert (E : base + lenN ((raw ++ b) ++ pad_zeros (base + lenN (raw ++ b))) = base + lenN raw + lenN (blk (base + lenN raw) b)).
    { unfold blk. rewrite !lenN_app. replace (base + (lenN raw + lenN b)) with (base + lenN raw + lenN b) by lia. lia. }
    rewrite E. f_equal.
    + rewrite <- app_assoc. reflexivity.
    + unfold blk. rewrite lenN_app. replace (base + (lenN raw + lenN b)) with (base + lenN raw + lenN b) by lia.
      rewrite <- !app_assoc. reflexivity.
Qed.

Definition HDR (n : N) : bytes := enc BE 4 MAGIC ++ enc BE 2 (trunc_w 16 n) ++ [0; 0].

Definition image (files : list entry) : bytes :=
  let n := N.of_nat (length files) in
  let hl := 8 + n * 16 in
  let txt0 := concat (map cz (map fst files)) in
  let txt := txt0 ++ pad_zeros (hl + lenN txt0) in
  let base := hl + lenN txt in
  HDR n ++ flat_map row (combine (name_offsets hl (map fst files)) (file_infos base (map snd files)))
        ++ txt ++ file_data base (map snd files).

(* the assembling part of serialize; the guard of F26 (530f18c) in front of it *)
Definition too_big (files : list entry) (image_size : N) : bool :=
  orb (65535 <? N.of_nat (length files)) (4294967295 <? image_size).
Lemma serialize_guarded files :
  serialize files =
  let n := N.of_nat (length files) in
  let txt0 := concat (map cz (map fst files)) in
  let txt := txt0 ++ pad_zeros (8 + n * 16 + lenN txt0) in
  if too_big files (8 + n * 16 + lenN txt + lenN (file_data (8 + n * 16 + lenN txt) (map snd files)))
  then Err EOther else Ok (image files).
Proof.
  unfold serialize, image, HDR, too_big, BASE_HEADER_SIZE, METADATA_SIZE.
  rewrite text_fold. cbv beta iota zeta. rewrite file_fold. cbv beta iota zeta.
  rewrite !lenN_nil, !N.add_0_r. cbn [app]. rewrite <- !app_assoc. reflexivity.
Qed.

(* ------------------------------------------------------------------ lengths *)
Lemma lenN_pad_zeros x : lenN (pad_zeros x) = pad_len 32 x.
Proof. unfold pad_zeros, PADDING_BOUNDARY. rewrite lenN_zeros, N2Nat.id. reflexivity. Qed.
Lemma pad32_lt x : pad_len 32 x < 32.
Proof. apply (pad_len_spec 32 x). lia. Qed.
Lemma pad32_aligned x : (x + pad_len 32 x) mod 32 = 0.
Proof. apply (pad_len_spec 32 x). lia. Qed.

Lemma lenN_HDR n : lenN (HDR n) = 8.
Proof. unfold HDR. rewrite !lenN_app, !lenN_enc. reflexivity. Qed.
Lemma lenN_row r : lenN (row r) = 16.
Proof. destruct r as [ta [fa sz]]. unfold row. rewrite !lenN_app, !lenN_enc. reflexivity. Qed.
Lemma lenN_table rows : lenN (flat_map row rows) = 16 * N.of_nat (length rows).
Proof.
  induction rows as [|r rows IH]; cbn [flat_map length]; [reflexivity|].
  rewrite lenN_app, lenN_row, IH. lia.
Qed.
Lemma length_name_offsets names : forall pos, length (name_offsets pos names) = length names.
Proof. induction names as [|k r IH]; intros pos; cbn [name_offsets length]; [reflexivity | rewrite IH; reflexivity]. Qed.
Lemma length_file_infos bodies : forall pos, length (file_infos pos bodies) = length bodies.
Proof. induction bodies as [|k r IH]; intros pos; cbn [file_infos length]; [reflexivity | rewrite IH; reflexivity]. Qed.
Lemma lenN_blk pos b : lenN (blk pos b) = lenN b + pad_len 32 (pos + lenN b).
Proof. unfold blk. rewrite lenN_app, lenN_pad_zeros. reflexivity. Qed.

Definition names_size (names : list bytes) : N := fold_right (fun k acc => lenN k + 1 + acc) 0 names.
Definition bodies_bound (bodies : list bytes) : N := fold_right (fun b acc => lenN b + 31 + acc) 0 bodies.

Lemma lenN_names names : lenN (concat (map cz names)) = names_size names.
Proof.
  induction names as [|k r IH]; cbn [map concat names_size fold_right]; [reflexivity|].
  unfold cz at 1. rewrite !lenN_app, IH. change (lenN [0]) with 1. unfold names_size. lia.
Qed.
Lemma lenN_file_data bodies : forall pos, lenN (file_data pos bodies) <= bodies_bound bodies.
Proof.
  induction bodies as [|b r IH]; intros pos; cbn [file_data bodies_bound fold_right]; [rewrite lenN_nil; lia|].
  rewrite lenN_app, lenN_blk. specialize (IH (pos + (lenN b + pad_len 32 (pos + lenN b)))).
  pose proof (pad32_lt (pos + lenN b)). unfold bodies_bound in IH. lia.
Qed.

(* ------------------------------------------------------------------ where the pieces are *)
Lemma nth_error_combine {A B} (l1 : list A) (l2 : list B) : forall i a b,
  nth_error l1 i = Some a -> nth_error l2 i = Some b -> nth_error (combine l1 l2) i = Some (a, b).
Proof.
  revert l2; induction l1 as [|x l1 IH]; intros [|y l2] [|i] a b; cbn [nth_error combine]; try discriminate.
  - intros H1 H2; inversion H1; inversion H2; reflexivity.
  - apply IH.
Qed.

Lemma table_nth rows : forall i r, nth_error rows i = Some r ->
  exists pre post, flat_map row rows = pre ++ row r ++ post /\ lenN pre = 16 * N.of_nat i.
Proof.
  induction rows as [|r0 rows IH]; intros [|i] r; cbn [nth_error flat_map]; try discriminate.
  - intros H; inversion H; subst. exists [], (flat_map row rows). split; reflexivity.
  - intros H. destruct (IH i r H) as (pre & post & E & L). exists (row r0 ++ pre), post. split.
    + rewrite E, <- app_assoc. reflexivity.
    + rewrite lenN_app, lenN_row, L. lia.
Qed.

Lemma names_nth names : forall pos i k, nth_error names i = Some k ->
  exists pre post, concat (map cz names) = pre ++ k ++ 0 :: post /\
                   nth_error (name_offsets pos names) i = Some (pos + lenN pre).
Proof.
  induction names as [|k0 r IH]; intros pos [|i] k; cbn [nth_error map concat name_offsets]; try discriminate.
  - intros H; inversion H; subst. exists [], (concat (map cz r)). split.
    + unfold cz. rewrite <- app_assoc. reflexivity.
    + rewrite lenN_nil, N.add_0_r. reflexivity.
  - intros H. destruct (IH (pos + lenN k0 + 1) i k H) as (pre & post & E & Hn). exists (cz k0 ++ pre), post. split.
    + rewrite E, <- app_assoc. reflexivity.
    + rewrite Hn. f_equal. unfold cz. rewrite !lenN_app. change (lenN [0]) with 1. lia.
Qed.

Lemma bodies_nth bodies : forall pos i b, pos mod 32 = 0 -> nth_error bodies i = Some b ->
  exists pre post, file_data pos bodies = pre ++ b ++ post /\
                   nth_error (file_infos pos bodies) i = Some (pos + lenN pre, lenN b) /\
                   (pos + lenN pre) mod 32 = 0.
Proof.
  induction bodies as [|b0 r IH]; intros pos [|i] b Hal; cbn [nth_error file_data file_infos]; try discriminate.
  - intros H; inversion H; subst. exists [], (pad_zeros (pos + lenN b) ++ file_data (pos + lenN (blk pos b)) r). split; [|split].
    + unfold blk. rewrite <- app_assoc. reflexivity.
    + rewrite lenN_nil, N.add_0_r. reflexivity.
    + rewrite lenN_nil, N.add_0_r. exact Hal.
  - intros H.
    assert (Hal' : (pos + lenN (blk pos b0)) mod 32 = 0).
    { rewrite lenN_blk. replace (pos + (lenN b0 + pad_len 32 (pos + lenN b0))) with (pos + lenN b0 + pad_len 32 (pos + lenN b0)) by lia.
      apply pad32_aligned. }
    destruct (IH _ i b Hal' H) as (pre & post & E & Hn & Ha). exists (blk pos b0 ++ pre), post. split; [|split].
    + rewrite E, <- app_assoc. reflexivity.
    + rewrite Hn. do 2 f_equal. rewrite lenN_app. lia.
    + rewrite lenN_app. replace (pos + (lenN (blk pos b0) + lenN pre)) with (pos + lenN (blk pos b0) + lenN pre) by lia. exact Ha.
Qed.

(* ------------------------------------------------------------------ one table row inside an image *)
Lemma u32_at_Some e f off : off + 4 <= lenN f -> exists v, u32_at e f off = Some v.
Proof. intros H. unfold u32_at. destruct (sliceN_Some off 4 f H) as [s ->]. eauto. Qed.

Lemma trunc32_small x : x < 2 ^ 32 -> trunc_w 32 x = x.
Proof. intros H. unfold trunc_w, maxw. apply N.mod_small, H. Qed.

Lemma fields_in_image H pre_t post_t X i ta fa sz :
  lenN H = 8 -> lenN pre_t = 16 * i -> ta < 2 ^ 32 -> fa < 2 ^ 32 -> sz < 2 ^ 32 ->
  fields_at (H ++ (pre_t ++ row (ta, (fa, sz)) ++ post_t) ++ X) i ta fa sz.
Proof.
  intros HH Hp Hta Hfa Hsz. unfold fields_at, row. rewrite !trunc32_small by assumption. repeat split.
  - apply u32_at_Some. rewrite !lenN_app, !lenN_enc, HH, Hp. change (lenN [0;0;0;0]) with 4. lia.
  - apply (u32_at_decomp BE _ (H ++ pre_t ++ [0;0;0;0]) ta (enc BE 4 fa ++ enc BE 4 sz ++ post_t ++ X)); [| |exact Hta].
    + rewrite <- !app_assoc. reflexivity.
    + rewrite !lenN_app, HH, Hp. change (lenN [0;0;0;0]) with 4. lia.
  - apply (u32_at_decomp BE _ (H ++ pre_t ++ [0;0;0;0] ++ enc BE 4 ta) fa (enc BE 4 sz ++ post_t ++ X)); [| |exact Hfa].
    + rewrite <- !app_assoc. reflexivity.
    + rewrite !lenN_app, !lenN_enc, HH, Hp. change (lenN [0;0;0;0]) with 4. lia.
  - apply (u32_at_decomp BE _ (H ++ pre_t ++ [0;0;0;0] ++ enc BE 4 ta ++ enc BE 4 fa) sz (post_t ++ X)); [| |exact Hsz].
    + rewrite <- !app_assoc. reflexivity.
    + rewrite !lenN_app, !lenN_enc, HH, Hp. change (lenN [0;0;0;0]) with 4. lia.
Qed.

(* ------------------------------------------------------------------ size of the image *)
Lemma sizes_bound (files : list entry) :
  names_size (map fst files) + bodies_bound (map snd files) + N.of_nat (length files)
  = fold_right (fun e acc => lenN (fst e) + 1 + lenN (snd e) + 32 + acc) 0 files.
Proof.
  induction files as [|e r IH]; cbn [map names_size bodies_bound fold_right length]; [reflexivity|].
  unfold names_size, bodies_bound in IH. rewrite <- IH. lia.
Qed.

Lemma lenN_image (files : list entry) :
  let n := N.of_nat (length files) in
  let txt0 := concat (map cz (map fst files)) in
  let txt := txt0 ++ pad_zeros (8 + n * 16 + lenN txt0) in
  lenN (image files) = 8 + n * 16 + lenN txt + lenN (file_data (8 + n * 16 + lenN txt) (map snd files)).
Proof.
  cbv zeta. unfold image. rewrite !lenN_app, lenN_HDR, lenN_table, combine_length, length_name_offsets, length_file_infos.
  rewrite !map_length, Nat.min_id. lia.
Qed.

(* serialize = the guard on the count and on the size of the image, then the image *)
Lemma serialize_cases files :
  serialize files = if too_big files (lenN (image files)) then Err EOther else Ok (image files).
Proof. rewrite serialize_guarded. cbv zeta. rewrite (lenN_image files). reflexivity. Qed.
Lemma serialize_image files : N.of_nat (length files) <= 65535 -> lenN (image files) < 2 ^ 32 -> serialize files = Ok (image files).
Proof.
  intros Hn Hs. rewrite serialize_cases. unfold too_big.
  destruct (N.ltb_spec 65535 (N.of_nat (length files))); [lia|]. destruct (N.ltb_spec 4294967295 (lenN (image files))); [lia | reflexivity].
Qed.
Lemma serialize_Ok_inv files f : serialize files = Ok f ->
  f = image files /\ N.of_nat (length files) <= 65535 /\ lenN (image files) < 2 ^ 32.
Proof.
  rewrite serialize_cases. unfold too_big.
  destruct (N.ltb_spec 65535 (N.of_nat (length files))); [discriminate|]. destruct (N.ltb_spec 4294967295 (lenN (image files))); [discriminate|].
  cbn [orb]. intros E. inversion E. repeat split; lia.
Qed.

Lemma image_lt_bound (files : list entry) : lenN (image files) < pack_bound files.
Proof.
  rewrite lenN_image. cbv zeta. rewrite lenN_app, lenN_pad_zeros, lenN_names.
  match goal with |- context [lenN (file_data ?p ?b)] => pose proof (lenN_file_data b p) as HB end.
  match goal with |- context [pad_len 32 ?x] => pose proof (pad32_lt x) as HP end.
  unfold pack_bound. rewrite <- sizes_bound. lia.
Qed.

(* ------------------------------------------------------------------ entry i of the image *)
Lemma image_entry_size (files : list entry) i e :
  lenN (image files) < 2 ^ 32 -> nth_error files i = Some e -> ~ In 0 (fst e) ->
  exists na fa sz,
    fields_at (image files) (N.of_nat i) na fa sz /\ name_at (image files) na (fst e) /\
    sliceN fa sz (image files) = Some (snd e) /\ fa mod 32 = 0 /\ sz = lenN (snd e).
Proof.
  intros HLt Hi Hnul.
  pose proof (lenN_image files) as HLen. cbv zeta in HLen. rewrite HLen in HLt.
  unfold image in *.
  set (n := N.of_nat (length files)) in *. set (hl := 8 + n * 16) in *.
  set (names := map fst files) in *. set (bodies := map snd files) in *.
  set (txt0 := concat (map cz names)) in *. set (txt := txt0 ++ pad_zeros (hl + lenN txt0)) in *.
  set (base := hl + lenN txt) in *. set (raw := file_data base bodies) in *.
  set (T := flat_map row (combine (name_offsets hl names) (file_infos base bodies))) in *.
  assert (Hbase : base mod 32 = 0).
  { unfold base, txt. rewrite lenN_app, lenN_pad_zeros.
    replace (hl + (lenN txt0 + pad_len 32 (hl + lenN txt0))) with (hl + lenN txt0 + pad_len 32 (hl + lenN txt0)) by lia.
    apply pad32_aligned. }
  assert (Hni : nth_error names i = Some (fst e)) by (unfold names; apply map_nth_error, Hi).
  assert (Hbi : nth_error bodies i = Some (snd e)) by (unfold bodies; apply map_nth_error, Hi).
  destruct (names_nth names hl i (fst e) Hni) as (pre_n & post_n & En & Hoff).
  destruct (bodies_nth bodies base i (snd e) Hbase Hbi) as (pre_b & post_b & Eb & Hinfo & Hal).
  pose proof (nth_error_combine _ _ _ _ _ Hoff Hinfo) as Hrow.
  destruct (table_nth _ _ _ Hrow) as (pre_t & post_t & ET & Lt).
  fold T in ET. fold txt0 in En. fold raw in Eb.
  assert (Ltxt0 : lenN txt0 = lenN pre_n + lenN (fst e) + 1 + lenN post_n).
  { rewrite En, !lenN_app, lenN_cons. lia. }
  assert (Ltxt : lenN txt0 <= lenN txt) by (unfold txt; rewrite lenN_app; lia).
  assert (Lraw : lenN raw = lenN pre_b + lenN (snd e) + lenN post_b) by (rewrite Eb, !lenN_app; lia).
  exists (hl + lenN pre_n), (base + lenN pre_b), (lenN (snd e)). split; [|split; [|split; [|split]]].
  - rewrite ET. apply fields_in_image; [apply lenN_HDR | exact Lt | lia | lia | lia].
  - exists (HDR n ++ T ++ pre_n), (post_n ++ pad_zeros (hl + lenN txt0) ++ raw). split; [|split].
    + unfold txt. rewrite En. rewrite <- !app_assoc. cbn [app]. reflexivity.
    + rewrite !lenN_app, lenN_HDR. unfold T. rewrite lenN_table, combine_length, length_name_offsets, length_file_infos.
      unfold names, bodies. rewrite !map_length, Nat.min_id. fold n. unfold hl. lia.
    + exact Hnul.
  - apply (sliceN_decomp (HDR n ++ T ++ txt ++ pre_b) (snd e) post_b).
    + rewrite Eb. rewrite <- !app_assoc. reflexivity.
    + rewrite !lenN_app, lenN_HDR. unfold T. rewrite lenN_table, combine_length, length_name_offsets, length_file_infos.
      unfold names, bodies. rewrite !map_length, Nat.min_id. fold n. unfold base, hl. lia.
    + reflexivity.
  - exact Hal.
  - reflexivity.
Qed.

Lemma image_entry (files : list entry) i e :
  fits32 files -> nth_error files i = Some e -> ~ In 0 (fst e) ->
  exists na fa sz,
    fields_at (image files) (N.of_nat i) na fa sz /\ name_at (image files) na (fst e) /\
    sliceN fa sz (image files) = Some (snd e) /\ fa mod 32 = 0 /\ sz = lenN (snd e).
Proof.
  intros Hfit. apply image_entry_size. pose proof (image_lt_bound files). unfold fits32 in Hfit. lia.
Qed.

(* ------------------------------------------------------------------ the image is made of bytes *)
Lemma wfb_pad_zeros x : wfb (pad_zeros x).
Proof. apply wfb_zeros. Qed.
Lemma wfb_table rows : wfb (flat_map row rows).
Proof.
  induction rows as [|[ta [fa sz]] r IH]; cbn [flat_map]; [constructor|]. apply wfb_app; [|exact IH].
  unfold row. apply wfb_app; [repeat constructor; lia|]. apply wfb_app; [apply wfb_enc|]. apply wfb_app; apply wfb_enc.
Qed.
Lemma wfb_names names : Forall wfb names -> wfb (concat (map cz names)).
Proof.
  induction 1 as [|k r Hk Hr IH]; cbn [map concat]; [constructor|]. apply wfb_app; [|exact IH].
  unfold cz. apply wfb_app; [exact Hk | repeat constructor; lia].
Qed.
Lemma wfb_file_data bodies : Forall wfb bodies -> forall pos, wfb (file_data pos bodies).
Proof.
  induction 1 as [|b r Hb Hr IH]; intros pos; cbn [file_data]; [constructor|]. apply wfb_app; [|apply IH].
  unfold blk. apply wfb_app; [exact Hb | apply wfb_pad_zeros].
Qed.
Lemma wfb_image (files : list entry) : wf_files files -> wfb (image files).
Proof.
  intros [_ HF]. unfold image, HDR.
  assert (Hn : Forall wfb (map fst files)).
  { rewrite Forall_forall in *. intros k Hk. apply in_map_iff in Hk. destruct Hk as (e & <- & He). apply (HF e He). }
  assert (Hb : Forall wfb (map snd files)).
  { rewrite Forall_forall in *. intros k Hk. apply in_map_iff in Hk. destruct Hk as (e & <- & He). apply (HF e He). }
  apply wfb_app; [apply wfb_app; [apply wfb_enc | apply wfb_app; [apply wfb_enc | repeat constructor; lia]] |].
  apply wfb_app; [apply wfb_table|].
  apply wfb_app; [apply wfb_app; [apply wfb_names, Hn | apply wfb_pad_zeros] | apply wfb_file_data, Hb].
Qed.

(* ------------------------------------------------------------------ C15_serialize_conforms, C15_round_trip *)
Definition exact_and_aligned (f : bytes) (files : list entry) : Prop :=
  forall i e, nth_error files i = Some e ->
    exists na fa sz, fields_at f (N.of_nat i) na fa sz /\ name_at f na (fst e) /\
                     sliceN fa sz f = Some (snd e) /\ fa mod 32 = 0 /\ sz = lenN (snd e).

(* the image of a well-formed file list that serialize accepts (count <= 65535, image below 4 GiB) conforms *)
Lemma image_conforms (files : list entry) :
  wf_files files -> N.of_nat (length files) <= 65535 -> lenN (image files) < 2 ^ 32 ->
  conforms_pack (image files) files /\ exact_and_aligned (image files) files /\
  u16_at BE (image files) 4 = Some (N.of_nat (length files)) /\ wfb (image files).
Proof.
  intros Hwf Hn Hfit.
  assert (Hcount : u16_at BE (image files) 4 = Some (N.of_nat (length files))).
  { unfold image, HDR. rewrite <- !app_assoc.
    match goal with |- u16_at BE (enc BE 4 MAGIC ++ enc BE 2 ?v ++ ?rest) 4 = _ =>
      replace v with (N.of_nat (length files)) by (unfold trunc_w, maxw; rewrite N.mod_small by lia; reflexivity);
      apply (u16_at_decomp BE _ (enc BE 4 MAGIC) (N.of_nat (length files)) rest); [reflexivity | rewrite lenN_enc; reflexivity | lia] end. }
  assert (Hexact : exact_and_aligned (image files) files).
  { intros i e Hi. apply image_entry_size; [exact Hfit | exact Hi|].
    destruct Hwf as [_ HF]. rewrite Forall_forall in HF. apply (HF e (nth_error_In _ _ Hi)). }
  split; [|split; [exact Hexact | split; [exact Hcount | apply wfb_image, Hwf]]].
  unfold conforms_pack. split; [|split; [|split; [|split]]].
  - unfold image, HDR. rewrite <- !app_assoc.
    match goal with |- u32_at BE (enc BE 4 MAGIC ++ ?rest) 0 = _ =>
      apply (u32_at_decomp BE _ [] MAGIC rest); [reflexivity | reflexivity | reflexivity] end.
  - exact Hn.
  - exact Hcount.
  - intros i e Hi. destruct (Hexact i e Hi) as (na & fa & sz & H1 & H2 & H3 & _). exists na, fa, sz. auto.
  - apply Hwf.
Qed.

(* success is GUARANTEED for at most 65535 files whose size bound fits 32 bits ... *)
Theorem serialize_conforms (files : list entry) :
  wf_files files -> N.of_nat (length files) <= 65535 -> fits32 files ->
  exists f, serialize files = Ok f /\ conforms_pack f files /\ exact_and_aligned f files /\
            u16_at BE f 4 = Some (N.of_nat (length files)) /\ wfb f.
Proof.
  intros Hwf Hn Hfit. pose proof (image_lt_bound files) as HL. unfold fits32 in Hfit.
  exists (image files). split; [apply serialize_image; [exact Hn | lia]|]. apply image_conforms; [exact Hwf | exact Hn | lia].
Qed.
(* ... and WHENEVER serialize succeeds (F26: success itself implies count <= 65535 and image < 4 GiB) the image conforms *)
Theorem serialize_Ok_conforms (files : list entry) f :
  wf_files files -> serialize files = Ok f ->
  conforms_pack f files /\ exact_and_aligned f files /\ u16_at BE f 4 = Some (N.of_nat (length files)) /\ wfb f /\
  N.of_nat (length files) <= 65535 /\ lenN f < 2 ^ 32.
Proof.
  intros Hwf Hs. destruct (serialize_Ok_inv files f Hs) as (-> & Hn & Hl).
  destruct (image_conforms files Hwf Hn Hl) as (H1 & H2 & H3 & H4).
  split; [exact H1|]. split; [exact H2|]. split; [exact H3|]. split; [exact H4|]. split; assumption.
Qed.

Theorem round_trip (files : list entry) :
  wf_files files -> N.of_nat (length files) <= 65535 -> fits32 files ->
  forall m, exists f, serialize files = Ok f /\ parse m f = Ok files.
Proof.
  intros Hwf Hn Hfit m. destruct (serialize_conforms files Hwf Hn Hfit) as (f & Hs & Hc & _ & _ & W).
  exists f. split; [exact Hs | apply parser_correct; assumption].
Qed.
(* no size hypothesis: whatever serialize returns for a well-formed file list parses back to it *)
Theorem round_trip_of_Ok (files : list entry) f :
  wf_files files -> serialize files = Ok f -> forall m, parse m f = Ok files.
Proof.
  intros Hwf Hs m. destruct (serialize_Ok_conforms files f Hwf Hs) as (Hc & _ & _ & W & _). apply parser_correct; assumption.
Qed.

(* F26 (530f18c): more than 65535 files, or an image of 4 GiB or more, is REJECTED (before the repair the count was written
   `as u16` and the sizes `as u32`: 65536 files -> count 0, a file of 2^32 bytes -> size 0) *)
Theorem serialize_rejects_too_many (files : list entry) : 65535 < N.of_nat (length files) -> serialize files = Err EOther.
Proof.
  intros H. rewrite serialize_cases. unfold too_big. destruct (N.ltb_spec 65535 (N.of_nat (length files))); [reflexivity | lia].
Qed.
Theorem serialize_rejects_too_large (files : list entry) : 2 ^ 32 <= lenN (image files) -> serialize files = Err EOther.
Proof.
  intros H. rewrite serialize_cases. unfold too_big. destruct (N.ltb_spec 4294967295 (lenN (image files))) as [L|L]; [rewrite orb_true_r; reflexivity | lia].
Qed.
(* the image holds every body: file contents of 4 GiB or more in total are rejected *)
Lemma lenN_file_data_ge bodies : forall pos, fold_right (fun b acc => lenN b + acc) 0 bodies <= lenN (file_data pos bodies).
Proof.
  induction bodies as [|b r IH]; intros pos; cbn [fold_right file_data]; [lia|]. pose proof (IH (pos + lenN (blk pos b))) as G. pose proof (lenN_blk pos b) as Hb. rewrite lenN_app. lia.
Qed.
Theorem serialize_rejects_big_contents (files : list entry) :
  2 ^ 32 <= fold_right (fun b acc => lenN b + acc) 0 (map snd files) -> serialize files = Err EOther.
Proof.
  intros H. apply serialize_rejects_too_large. rewrite lenN_image. cbv zeta.
  match goal with |- context [lenN (file_data ?p ?b)] => pose proof (lenN_file_data_ge b p) end. lia.
Qed.
(* exactly when it succeeds *)
Theorem serialize_Ok_iff (files : list entry) :
  (exists f, serialize files = Ok f) <-> N.of_nat (length files) <= 65535 /\ lenN (image files) < 2 ^ 32.
Proof.
  split.
  - intros (f & H). destruct (serialize_Ok_inv files f H) as (_ & H1 & H2). split; assumption.
  - intros (H1 & H2). exists (image files). apply serialize_image; assumption.
Qed.
Theorem serialize_never_panics (files : list entry) k : serialize files <> Panic k.
Proof. rewrite serialize_cases. destruct (too_big files (lenN (image files))); discriminate. Qed.
