(* C20: the per-texture decoding used in the container theorems is total on the supported textures
   (the formats and power-of-two sizes of C19; CI8 images whose indices lie in the palette), gives the same
   pixels in both arithmetic modes, and never panics on any well-formed TPL texture. *)
From Coq Require Import List NArith ZArith Arith Lia Bool ZifyBool ZifyNat ZifyN.
From Mila Require Import Lib.Bytes Lib.BytesExtra Lib.Machine Model.Pixel Model.PixelSpec Model.Etc1 Model.TexCommon Model.TexFormat
  Proofs.Scatter Proofs.TileProofs Proofs.EtcImageProofs Proofs.PaletteProofs Proofs.TexBase.
Import ListNotations.
Local Open Scope N_scope.
Ltac Zify.zify_post_hook ::= Z.div_mod_to_equations.

(* ---------------------------------------------------------------- 3DS *)
Definition supported3ds (t : tex) : Prop :=
  ((listed_color_format (t_fmt t) = true /\ t_w t mod 8 = 0 /\ t_h t mod 8 = 0) \/
   ((t_fmt t = 12 \/ t_fmt t = 13) /\ exists a b, t_w t = 8 * 2 ^ a /\ t_h t = 8 * 2 ^ b)) /\
  t_w t * t_h t < 2 ^ 32 /\
  lenN (t_data t) = payload_size (t_fmt t) (t_w t) (t_h t).

(* the pixels of a supported texture (computed in the wrapping mode; the checked mode gives the same) *)
Definition pixels_of (t : tex) : bytes :=
  match decode_pixel_data Wrapping (t_data t) (t_w t) (t_h t) (t_fmt t) with Ok px => px | _ => [] end.
Definition decoded (t : tex) : texture := mkTexture (t_name t) (t_w t) (t_h t) (pixels_of t).

Lemma listed_cases fmt : listed_color_format fmt = true ->
  fmt = 0 \/ fmt = 2 \/ fmt = 3 \/ fmt = 4 \/ fmt = 5 \/ fmt = 7 \/ fmt = 8.
Proof.
  intros Hf. destruct fmt as [|p]; [left; reflexivity|]. do 4 (destruct p as [p|p|]; try discriminate Hf; auto 10).
Qed.

Lemma etc_pixels_mode m m' data w h alpha : 0 < h -> w * h < 2 ^ 32 ->
  etc1_decode_pixels m data w h alpha = etc1_decode_pixels m' data w h alpha.
Proof.
  intros Hh Hsz. unfold etc1_decode_pixels.
  assert (Wlt : w < 2 ^ 32) by nia.
  rewrite !(mul_w_ok W64 _ 4 w) by (unfold maxw, W64; lia). cbn [bind].
  rewrite !(mul_w_ok W64 _ (4 * w) h) by (unfold maxw, W64; nia). cbn [bind]. reflexivity.
Qed.

Lemma decode_supported m t : supported3ds t ->
  exists px, decode_pixel_data m (t_data t) (t_w t) (t_h t) (t_fmt t) = Ok px /\
             decode_pixel_data Wrapping (t_data t) (t_w t) (t_h t) (t_fmt t) = Ok px.
Proof.
  intros (Hfmt & Hsz & Hlen).
  unfold decode_pixel_data, decode_pixels.
  destruct Hfmt as [(Hl & W8 & H8) | (He & a & b & Hw & Hh)].
  - assert (L11 : t_fmt t <=? 11 = true) by (destruct (listed_cases _ Hl) as [->|[->|[->|[->|[->|[->| ->]]]]]]; reflexivity).
    rewrite L11.
    assert (Hlen' : lenN (t_data t) = bytes_per_element (t_fmt t) * (t_w t * t_h t)).
    { rewrite Hlen. unfold payload_size.
      destruct (listed_cases _ Hl) as [E|[E|[E|[E|[E|[E|E]]]]]]; rewrite E; cbv [bpp2 bytes_per_element];
        rewrite <- ?N.mul_assoc; generalize (t_w t * t_h t); intros q; lia. }
    rewrite (decode_rgba_as_scatter m _ _ _ _ Hl W8 H8 Hsz Hlen'), (decode_rgba_as_scatter Wrapping _ _ _ _ Hl W8 H8 Hsz Hlen').
    cbn [bind]. eexists. split; reflexivity.
  - assert (W8 : t_w t mod 8 = 0) by (rewrite Hw, N.mul_comm; apply N.mod_mul; lia).
    assert (H8 : t_h t mod 8 = 0) by (rewrite Hh, N.mul_comm; apply N.mod_mul; lia).
    assert (Wpos : 0 < t_w t) by (rewrite Hw; pose proof (N.pow_nonzero 2 a); lia).
    assert (Hpos : 0 < t_h t) by (rewrite Hh; pose proof (N.pow_nonzero 2 b); lia).
    assert (Tw : etc_tiles (t_w t) = t_w t / 8) by (rewrite Hw, etc_tiles_pow2; rewrite N.mul_comm, N.div_mul by lia; reflexivity).
    assert (Th : etc_tiles (t_h t) = t_h t / 8) by (rewrite Hh, etc_tiles_pow2; rewrite N.mul_comm, N.div_mul by lia; reflexivity).
    assert (M64 : (t_w t * t_h t) mod 16 = 0).
    { assert (Ew : t_w t = 8 * (t_w t / 8)) by lia. assert (Eh : t_h t = 8 * (t_h t / 8)) by lia.
      remember (t_w t / 8) as wa. remember (t_h t / 8) as hb. rewrite Ew, Eh.
      replace (8 * wa * (8 * hb)) with ((4 * wa * hb) * 16) by lia. apply N.mod_mul. lia. }
    destruct He as [E|E]; rewrite E in *; cbn [N.leb N.eqb Pos.eqb N.compare Pos.compare Pos.compare_cont].
    + assert (Hl' : lenN (t_data t) = t_w t * t_h t / 16 * etc_block_bytes false).
      { rewrite Hlen. unfold payload_size. cbv [bpp2 etc_block_bytes]. lia. }
      destruct (etc1_pixel_source m false _ _ _ 0 0 W8 H8 Tw Th Hsz Hl' Wpos Hpos) as (px & Epx & _).
      change (12 <=? 11) with false. change (12 =? 12) with true. cbv iota.
      rewrite (etc_pixels_mode Wrapping m) by assumption. rewrite Epx. cbn [bind]. eexists. split; reflexivity.
    + assert (Hl' : lenN (t_data t) = t_w t * t_h t / 16 * etc_block_bytes true).
      { rewrite Hlen. unfold payload_size. cbv [bpp2 etc_block_bytes]. lia. }
      destruct (etc1_pixel_source m true _ _ _ 0 0 W8 H8 Tw Th Hsz Hl' Wpos Hpos) as (px & Epx & _).
      change (13 <=? 11) with false. change (13 =? 12) with false. change (13 =? 13) with true. cbv iota.
      rewrite (etc_pixels_mode Wrapping m) by assumption. rewrite Epx. cbn [bind]. eexists. split; reflexivity.
Qed.

Lemma decode_tex_supported m t : supported3ds t -> decode_tex m t = Ok (decoded t).
Proof.
  intros H. destruct (decode_supported m t H) as (px & E & Ew). unfold decode_tex, decoded, pixels_of.
  rewrite E, Ew. reflexivity.
Qed.

Lemma decode_all_map dec (F : tex -> texture) : forall ts, Forall (fun t => dec t = Ok (F t)) ts ->
  decode_all dec ts = Ok (map F ts).
Proof.
  induction 1 as [|t r H0 _ IH]; [reflexivity|]. cbn [decode_all map]. rewrite H0, IH. reflexivity.
Qed.
Lemma decode_all_supported m ts : Forall supported3ds ts -> decode_all (decode_tex m) ts = Ok (map decoded ts).
Proof.
  intros H. apply decode_all_map. eapply Forall_impl; [|exact H]. intros t Ht. apply decode_tex_supported, Ht.
Qed.
Lemma supported_no_panic m ts : Forall supported3ds ts -> Forall (fun t => no_panic (decode_tex m t)) ts.
Proof.
  intros H. eapply Forall_impl; [|exact H]. intros t Ht. rewrite (decode_tex_supported m t Ht). exact I.
Qed.

(* composition with C19_pixel_source: pixel (X, Y) of a supported colour texture is decode_color of the payload element
   at the tiled (Morton) index *)
Lemma decoded_pixels t : supported3ds t -> listed_color_format (t_fmt t) = true ->
  exists px, decoded t = mkTexture (t_name t) (t_w t) (t_h t) (flatten px) /\ length px = N.to_nat (t_w t * t_h t) /\
    forall X Y, X < t_w t -> Y < t_h t ->
      nth_error px (N.to_nat (Y * t_w t + X)) =
        Some (decode_color (element (bytes_per_element (t_fmt t)) (t_data t) (tiled_index (t_w t) X Y)) (t_fmt t)).
Proof.
  intros (Hfmt & Hsz & Hlen) Hl.
  destruct Hfmt as [(_ & W8 & H8) | ([E|E] & _)]; try (rewrite E in Hl; discriminate Hl).
  assert (Hlen' : lenN (t_data t) = bytes_per_element (t_fmt t) * (t_w t * t_h t)).
  { rewrite Hlen. unfold payload_size.
    destruct (listed_cases _ Hl) as [E|[E|[E|[E|[E|[E|E]]]]]]; rewrite E; cbv [bpp2 bytes_per_element];
      rewrite <- ?N.mul_assoc; generalize (t_w t * t_h t); intros q; lia. }
  pose proof (decode_rgba_as_scatter Wrapping _ _ _ _ Hl W8 H8 Hsz Hlen') as Es. cbv zeta in Es.
  assert (L11 : t_fmt t <=? 11 = true) by (destruct (listed_cases _ Hl) as [->|[->|[->|[->|[->|[->| ->]]]]]]; reflexivity).
  eexists. split; [|split].
  - unfold decoded, pixels_of, decode_pixel_data, decode_pixels. rewrite L11, Es. cbn [bind]. reflexivity.
  - rewrite scatter_length, repeat_length. reflexivity.
  - intros X Y HX HY.
    destruct (rgba_pixel_source Wrapping _ _ _ _ X Y Hl W8 H8 Hsz Hlen' HX HY) as (px' & Epx & _ & Hp).
    rewrite Es in Epx. inversion Epx; subst. exact Hp.
Qed.

(* ---------------------------------------------------------------- the f32 payload size (CTPK, BCH) *)
Lemma rne24_small q : q < 2 ^ 24 -> rne24 q = q.
Proof.
  intros H. unfold rne24. destruct (N.eq_dec q 0) as [->|NZ]; [reflexivity|].
  assert (L : N.log2 q < 24) by (apply N.log2_lt_pow2; lia).
  replace (N.log2 q - 23) with 0 by lia. reflexivity.
Qed.
Lemma rne24_shift c k : c < 2 ^ 24 -> rne24 (c * 2 ^ k) = c * 2 ^ k.
Proof.
  intros H. destruct (N.eq_dec c 0) as [->|NZ]; [reflexivity|].
  unfold rne24. rewrite N.log2_mul_pow2 by lia.
  assert (L : N.log2 c < 24) by (apply N.log2_lt_pow2; lia).
  set (s := k + N.log2 c - 23). destruct (N.eqb_spec s 0) as [_|Hs]; [reflexivity|].
  assert (Hsk : s <= k) by (unfold s; lia).
  assert (E : c * 2 ^ k = (c * 2 ^ (k - s)) * 2 ^ s).
  { rewrite <- N.mul_assoc, <- N.pow_add_r. f_equal. f_equal. lia. }
  assert (P : 2 ^ s <> 0) by (apply N.pow_nonzero; lia).
  assert (R : (c * 2 ^ k) mod 2 ^ s = 0) by (rewrite E; apply N.mod_mul, P).
  assert (D : (c * 2 ^ k) / 2 ^ s = c * 2 ^ (k - s)) by (rewrite E; apply N.div_mul, P).
  rewrite R, D.
  assert (Hh : 0 < 2 ^ (s - 1)) by (pose proof (N.pow_nonzero 2 (s - 1)); lia).
  destruct (N.ltb_spec (2 ^ (s - 1)) 0) as [?|_]; [lia|].
  destruct (N.eqb_spec 0 (2 ^ (s - 1))) as [?|_]; [lia|]. cbn [orb andb]. symmetry. exact E.
Qed.

(* the request is exact for every payload below 8 MiB ... *)
Lemma f32_exact_small t : bpp2 (t_fmt t) * t_w t * t_h t < 2 ^ 24 -> f32_exact t.
Proof. intros H. unfold f32_exact, payload_size32, payload_size. rewrite rne24_small by exact H. reflexivity. Qed.
(* ... and for power-of-two sides of any size *)
Lemma f32_exact_pow2 t a b : t_w t = 8 * 2 ^ a -> t_h t = 8 * 2 ^ b -> f32_exact t.
Proof.
  intros Hw Hh. unfold f32_exact, payload_size32, payload_size. rewrite Hw, Hh.
  replace (bpp2 (t_fmt t) * (8 * 2 ^ a) * (8 * 2 ^ b)) with (bpp2 (t_fmt t) * 2 ^ (6 + a + b)).
  2:{ rewrite !N.pow_add_r. change (2 ^ 6) with 64. lia. }
  rewrite rne24_shift; [reflexivity|].
  unfold bpp2. destruct (t_fmt t) as [|p]; [reflexivity|]. do 4 (destruct p as [p|p|]; try reflexivity).
Qed.
(* it is NOT exact in general: a 4097 x 4099 L4 texture has 8396801 bytes (and a nibble), the reader asks for 8396802 *)
Lemma f32_inexact_witness : payload_size 10 4097 4099 = 8396801 /\ payload_size32 10 4097 4099 = 8396802.
Proof. split; vm_compute; reflexivity. Qed.

(* supported textures of the containers that compute the payload size in f32 (CTPK, BCH) *)
Definition supported3ds_f32 (t : tex) : Prop := supported3ds t /\ f32_exact t.
Lemma supported_f32_split ts : Forall supported3ds_f32 ts -> Forall supported3ds ts /\ Forall f32_exact ts.
Proof. intros H. split; (eapply Forall_impl; [|exact H]); intros t Ht; apply Ht. Qed.

(* ---------------------------------------------------------------- TPL *)
Lemma b2s_loop_length data olen : forall pairs out, length (b2s_loop data olen pairs out) = length out.
Proof.
  induction pairs as [|[i o] r IH]; intros out; cbn [b2s_loop]; [reflexivity|].
  destruct (nth_error data i); [|apply IH]. destruct (o <? olen)%nat; rewrite IH; [apply upd_length | reflexivity].
Qed.
Lemma Forall_upd {A} (P : A -> Prop) v : forall l i, P v -> Forall P l -> Forall P (upd i v l).
Proof.
  induction l as [|x l IH]; intros i Hv Hl; [destruct i; constructor|].
  inversion Hl; subst. destruct i; cbn [upd]; constructor; auto.
Qed.
Lemma b2s_loop_forall (P : N -> Prop) data olen : Forall P data -> forall pairs out, Forall P out ->
  Forall P (b2s_loop data olen pairs out).
Proof.
  intros Hd. induction pairs as [|[i o] r IH]; intros out Ho; cbn [b2s_loop]; [exact Ho|].
  destruct (nth_error data i) as [v|] eqn:E; [|apply IH, Ho].
  destruct (o <? olen)%nat; apply IH; [|exact Ho].
  apply Forall_upd; [|exact Ho]. rewrite Forall_forall in Hd. apply Hd. eapply nth_error_In; eauto.
Qed.
Lemma b2s_length data tw th bw bh : length (block_to_sequential data tw th bw bh) = N.to_nat (tw * th).
Proof. unfold block_to_sequential. rewrite b2s_loop_length, repeat_length. reflexivity. Qed.
Lemma b2s_forall (P : N -> Prop) data tw th bw bh : P 0 -> Forall P data -> Forall P (block_to_sequential data tw th bw bh).
Proof.
  intros H0 Hd. unfold block_to_sequential. apply b2s_loop_forall; [exact Hd|].
  apply Forall_forall. intros x Hx. apply repeat_spec in Hx. subst. exact H0.
Qed.

Lemma crop_rows_some : forall rows input ow w, (w <= ow)%nat -> (ow * rows <= length input)%nat ->
  exists out, crop_rows input ow w rows = Some out /\ (forall P : N -> Prop, Forall P input -> Forall P out).
Proof.
  induction rows as [|rows IH]; intros input ow w Hw Hlen.
  - exists []. split; [reflexivity|]. intros; constructor.
  - cbn [crop_rows]. destruct (Nat.leb_spec w (length input)) as [_|?]; [|nia].
    destruct (IH (skipn ow input) ow w Hw) as (out & E & HP).
    { rewrite skipn_length. nia. }
    rewrite E. eexists. split; [reflexivity|]. intros P HPi. apply Forall_app. split.
    + apply Forall_forall. intros x Hx. rewrite Forall_forall in HPi. apply HPi. eapply In_firstn'; eauto.
    + apply HP. apply Forall_forall. intros x Hx. rewrite Forall_forall in HPi. apply HPi. eapply In_skipn; eauto.
Qed.

Lemma align_ge v k : v <= align v k.
Proof. unfold align. destruct (k <=? 1); [lia|]. destruct (0 <? v mod k); lia. Qed.

Lemma ci8_lookup_cases data pal : (exists px, ci8_lookup data pal = Ok px) \/ is_err (ci8_lookup data pal).
Proof.
  induction data as [|i r IH]; cbn [ci8_lookup]; [left; eauto|].
  destruct (nth_error pal (N.to_nat i)); [|right; exact I].
  destruct IH as [(px & ->)|E]; [left; cbn; eauto | right; apply is_err_bind, E].
Qed.
Lemma ci8_lookup_ok pal : forall data, Forall (fun b => b < N.of_nat (length pal)) data -> exists px, ci8_lookup data pal = Ok px.
Proof.
  induction 1 as [|i r Hi _ (px & IH)]; cbn [ci8_lookup]; [eauto|].
  destruct (nth_error pal (N.to_nat i)) as [c|] eqn:E; [|apply nth_error_None in E; lia].
  rewrite IH. cbn. eauto.
Qed.

Lemma rgb5a3_pixels_length : forall n data, length data = (2 * n)%nat -> length (rgb5a3_pixels data) = n.
Proof.
  induction n as [|n IH]; intros data H.
  - destruct data; [reflexivity | discriminate].
  - destruct data as [|hi [|lo r]]; cbn [length] in H; try lia. cbn [rgb5a3_pixels length]. f_equal. apply IH. lia.
Qed.

(* the CI8 path cannot panic: the cropped rows always lie inside the re-ordered image *)
Lemma tpl_crop_ok data w h : exists out,
  crop (block_to_sequential data (align w 8) (align h 4) 8 4) (align w 8) w h = Ok out /\
  (forall P : N -> Prop, P 0 -> Forall P data -> Forall P out).
Proof.
  unfold crop.
  destruct (crop_rows_some (N.to_nat h) (block_to_sequential data (align w 8) (align h 4) 8 4)
              (N.to_nat (align w 8)) (N.to_nat w)) as (out & E & HP).
  - pose proof (align_ge w 8). lia.
  - rewrite b2s_length. pose proof (align_ge h 4). nia.
  - rewrite E. exists out. split; [reflexivity|]. intros P H0 Hd. apply HP, b2s_forall; assumption.
Qed.

Lemma tpl_tex_no_panic t : no_panic (decode_tpl_tex t).
Proof.
  unfold decode_tpl_tex, tpl_ci8_image, rgb5a3_decode.
  destruct (lenN (t_pal t) mod 2 =? 0); cbn [bind]; [|exact I].
  destruct (tpl_crop_ok (t_data t) (t_w t) (t_h t)) as (out & -> & _). cbn [bind].
  destruct (ci8_lookup_cases out (rgb5a3_pixels (t_pal t))) as [(px & ->)|E]; [exact I|].
  apply is_err_no_panic. do 2 apply is_err_bind. exact E.
Qed.
Lemma tpl_all_no_panic ts : Forall (fun t => no_panic (decode_tpl_tex t)) ts.
Proof. apply Forall_forall. intros t _. apply tpl_tex_no_panic. Qed.

(* a TPL texture whose VISIBLE pixels index into its even-sized palette (the bytes that pad the 8x4 blocks are free:
   the same condition as C19_palette) *)
Definition supportedtpl (t : tex) : Prop :=
  1 <= t_w t /\ 1 <= t_h t /\ lenN (t_data t) = align8 (t_w t) * align4 (t_h t) /\ lenN (t_pal t) mod 2 = 0 /\
  forall x y, x < t_w t -> y < t_h t -> nth (N.to_nat (ci8_index (t_w t) x y)) (t_data t) 0 < lenN (t_pal t) / 2.
Definition tpl_pixels_of (t : tex) : bytes :=
  match tpl_ci8_image (t_pal t) (t_data t) (t_w t) (t_h t) with Ok px => px | _ => [] end.
Definition tpl_decoded (t : tex) : texture := mkTexture [] (t_w t) (t_h t) (tpl_pixels_of t).

(* ... and its pixels are the decoded palette entries C19 names (composition with C19_palette) *)
Lemma tpl_decoded_pixels t : supportedtpl t ->
  exists px, decode_tpl_tex t = Ok (tpl_decoded t) /\ tpl_decoded t = mkTexture [] (t_w t) (t_h t) (flatten px) /\
    length px = N.to_nat (t_w t * t_h t) /\
    forall x y, x < t_w t -> y < t_h t ->
      nth_error px (N.to_nat (y * t_w t + x)) =
        Some (decode_rgb5a3_pixel (be16_at (t_pal t) (nth (N.to_nat (ci8_index (t_w t) x y)) (t_data t) 0))).
Proof.
  intros (Hw & Hh & Hlen & Hm & Hidx).
  destruct (palette_image_source (t_pal t) (t_data t) (t_w t) (t_h t) Hw Hh Hlen Hm Hidx) as (px & E & L & P).
  exists px. unfold decode_tpl_tex, tpl_decoded, tpl_pixels_of. rewrite E. cbn [bind]. auto.
Qed.
Lemma decode_tpl_supported t : supportedtpl t -> decode_tpl_tex t = Ok (tpl_decoded t).
Proof. intros H. destruct (tpl_decoded_pixels t H) as (px & E & _). exact E. Qed.
Lemma decode_all_tpl_supported ts : Forall supportedtpl ts -> decode_all decode_tpl_tex ts = Ok (map tpl_decoded ts).
Proof.
  intros H. apply decode_all_map. eapply Forall_impl; [|exact H]. intros t Ht. apply decode_tpl_supported, Ht.
Qed.
