(* C03: invariant over all histories of cell-aligned operations. *)
From Coq Require Import List NArith ZArith Bool Lia ZifyBool ZifyNat ZifyN.
From Mila Require Import Lib.Bytes Lib.Machine Model.BinArchive Proofs.AMapLemmas Proofs.BinAccess Proofs.BinRelocate.
Import ListNotations.
Local Open Scope N_scope.
Ltac Zify.zify_post_hook ::= Z.div_mod_to_equations.

Inductive bop :=
| OAllocate (addr n : N) (ge : bool) | OAllocEnd (n : N) | ODealloc (addr n : N) (ge : bool) | OTruncate (addr : N)
| OWriteBytes (addr : N) (bs : bytes) | OWriteString (addr : N) (v : option bytes) | OWritePointer (addr : N) (v : option N)
| OWriteCString (addr : N) (s : bytes) | OWriteLabel (addr : N) (l : bytes) | OWriteLabels (addr : N) (ls : list bytes)
| ODeleteLabels (addr : N) | ODeleteLabel (addr i : N).

Definition run_op (a : archive) (o : bop) : outcome archive :=
  match o with
  | OAllocate addr n ge => allocate a addr n ge
  | OAllocEnd n => Ok (allocate_at_end a n)
  | ODealloc addr n ge => deallocate a addr n ge
  | OTruncate addr => truncate a addr
  | OWriteBytes addr bs => write_bytes a addr bs
  | OWriteString addr v => write_string a addr v
  | OWritePointer addr v => write_pointer a addr v
  | OWriteCString addr s => write_c_string a addr s
  | OWriteLabel addr l => write_label a addr l
  | OWriteLabels addr ls => write_labels a addr ls
  | ODeleteLabels addr => delete_labels a addr
  | ODeleteLabel addr i => delete_label a addr i
  end.
(* a rejected operation leaves the archive as it was *)
Definition bstep (a : archive) (o : bop) : archive := match run_op a o with Ok a' => a' | _ => a end.

(* annotations are placed on cell boundaries; allocate/deallocate check their own alignment *)
Definition aligned_op (o : bop) : Prop :=
  match o with
  | OTruncate addr | OWriteString addr _ | OWritePointer addr _ | OWriteCString addr _ => addr mod 4 = 0
  | _ => True
  end.

Definition cell_ok (a : archive) (k : N) : Prop := k mod 4 = 0 /\ k + 4 <= size a.
Definition wf_cells (a : archive) : Prop :=
  Forall (cell_ok a) (am_keys (a_text a)) /\ Forall (cell_ok a) (am_keys (a_ptrs a)) /\
  Forall (fun k => k <= size a) (am_keys (a_labels a)) /\
  Forall (fun q => Forall (cell_ok a) (snd q)) (a_cstrs a).

Lemma Forall_incl {A} (P : A -> Prop) l l' : incl l' l -> Forall P l -> Forall P l'.
Proof. intros Hi H. rewrite Forall_forall in *. auto. Qed.

Lemma wf_same_size a a' :
  size a' = size a -> am_keys (a_text a') = am_keys (a_text a) -> am_keys (a_ptrs a') = am_keys (a_ptrs a) ->
  am_keys (a_labels a') = am_keys (a_labels a) -> a_cstrs a' = a_cstrs a -> wf_cells a -> wf_cells a'.
Proof. unfold wf_cells, cell_ok. intros -> -> -> -> ->. tauto. Qed.

Lemma cs_push_cells s addr c (P : N -> Prop) :
  P addr -> Forall (fun q => Forall P (snd q)) c -> Forall (fun q : bytes * list N => Forall P (snd q)) (cs_push s addr c).
Proof.
  intros Ha. induction c as [|[s' l] r IH]; intros H; cbn [cs_push].
  - constructor; [constructor; [exact Ha | constructor] | constructor].
  - inversion H as [|? ? Hl Hr]; subst. destruct (bytes_eqb s s'); constructor; cbn [snd] in *; auto.
    apply Forall_app; split; [exact Hl | constructor; [exact Ha | constructor]].
Qed.

Lemma filter_cstrs_forall p c (P Q : N -> Prop) :
  (forall k, P k -> p k = true -> Q k) ->
  Forall (fun q => Forall P (snd q)) c -> Forall (fun q : bytes * list N => Forall Q (snd q)) (filter_cstrs p c).
Proof.
  intros HPQ H. rewrite Forall_forall in *. intros [s cells] Hin.
  destruct (filter_cstrs_cells p c s cells Hin) as (_ & cells0 & Hin0 & ->). cbn [snd].
  specialize (H _ Hin0). cbn [snd] in H. rewrite Forall_forall in *. intros k Hk. apply filter_In in Hk. destruct Hk. auto.
Qed.

Lemma step_preserves a o : aligned_op o -> wf_cells a -> wf_cells (bstep a o).
Proof.
  intros Hal Hwf. unfold bstep. destruct (run_op a o) as [a'|e|k] eqn:E; try exact Hwf.
  destruct Hwf as (Ht & Hp & Hl & Hc).
  destruct o; cbn [run_op aligned_op] in *.
  - (* allocate *)
    assert (Hok : addr <= size a /\ addr mod 4 = 0 /\ n mod 4 = 0).
    { destruct (allocate_accepted _ _ _ _ _ E) as (O1 & O2 & O3 & _). auto. }
    destruct (allocate_spec _ _ _ _ _ E) as (_ & Hs & _ & Kt & _ & Kp & _ & Kl & Kc & _).
    unfold wf_cells, cell_ok. rewrite Kt, Kp, Kl, Kc, Hs. repeat split.
    + rewrite Forall_map. eapply Forall_impl; [|exact Ht]. unfold cell_ok, kappa. intros k [H1 H2]. destruct (N.leb_spec addr k); lia.
    + rewrite Forall_map. eapply Forall_impl; [|exact Hp]. unfold cell_ok, kappa. intros k [H1 H2]. destruct (N.leb_spec addr k); lia.
    + rewrite Forall_map. eapply Forall_impl; [|exact Hl]. unfold tau. intros k H1. destruct (orb _ _); lia.
    + rewrite Forall_map. eapply Forall_impl; [|exact Hc]. intros [s cells] H. cbn [snd] in *. rewrite Forall_map.
      eapply Forall_impl; [|exact H]. unfold cell_ok, kappa. intros k [H1 H2]. destruct (N.leb_spec addr k); lia.
  - (* allocate_at_end *)
    inversion E; subst a'. unfold wf_cells, cell_ok, allocate_at_end, size in *. cbn [set_data a_data a_text a_ptrs a_labels a_cstrs].
    rewrite lenN_app. repeat split.
    + eapply Forall_impl; [|exact Ht]. cbn. intros; lia.
    + eapply Forall_impl; [|exact Hp]. cbn. intros; lia.
    + eapply Forall_impl; [|exact Hl]. cbn. intros; lia.
    + eapply Forall_impl; [|exact Hc]. intros q H. eapply Forall_impl; [|exact H]. cbn. intros; lia.
  - (* deallocate *)
    destruct (deallocate_accepted _ _ _ _ _ E) as (A1 & A2 & A3 & A4).
    destruct (deallocate_spec _ _ _ _ _ E) as (_ & Hs & _ & Kt & Kp & _ & Kl & Kc & _).
    assert (Hback : forall k, cell_ok a k -> negb (in_range addr n k) = true -> cell_ok a' (back addr n k)).
    { unfold cell_ok, back, in_range. intros k [H1 H2] H3.
      destruct (N.leb_spec addr k); destruct (N.ltb_spec k (addr + n)); cbn [andb negb] in H3; try discriminate; lia. }
    unfold wf_cells. rewrite Kt, Kl, Kc. repeat split.
    + rewrite Forall_map. rewrite Forall_forall in *. intros k Hk. apply filter_In in Hk. destruct Hk. auto.
    + rewrite Kp. unfold am_keys. rewrite map_map. cbn [fst]. rewrite Forall_map. rewrite Forall_forall in *.
      intros [k v] Hk. apply filter_In in Hk. destruct Hk as [Hin Hf]. cbn [fst snd] in *.
      apply Hback; [apply Hp; unfold am_keys; apply in_map_iff; exists (k, v); auto|].
      destruct (in_range addr n k); [discriminate | reflexivity].
    + rewrite Forall_map. rewrite Forall_forall in *. intros k Hk. apply filter_In in Hk. destruct Hk as [Hin Hf].
      specialize (Hl k Hin). unfold backl, in_range in *.
      destruct (N.leb_spec addr k); destruct (N.ltb_spec k (addr + n)); cbn [andb negb] in Hf; try discriminate;
        destruct (N.ltb_spec addr k); destruct (N.eqb_spec addr k); destruct ge; cbn [orb andb]; lia.
    + rewrite Forall_map.
      assert (G := filter_cstrs_forall (fun k => negb (in_range addr n k)) (a_cstrs a) (cell_ok a)
                     (fun k => cell_ok a' (back addr n k)) (fun k H1 H2 => Hback k H1 H2) Hc).
      eapply Forall_impl; [|exact G]. intros [s cells] H. cbn [snd] in *. rewrite Forall_map. exact H.
  - (* truncate *)
    destruct (truncate_spec _ _ _ E) as [T1 T2]. destruct (N.leb_spec (size a) addr) as [Hge|Hlt].
    { rewrite (T1 Hge). unfold wf_cells. tauto. }
    destruct (T2 Hlt) as (_ & Hs & _ & _ & _ & Kc & _).
    unfold truncate in E. destruct (N.leb_spec (size a) addr); [lia|]. inversion E; subst a'.
    unfold wf_cells, cell_ok, size in *. cbn [a_data a_text a_ptrs a_labels a_cstrs] in *. rewrite Hs.
    rewrite !am_keys_filter_keys. repeat split.
    + rewrite Forall_forall in *. intros k Hk. apply filter_In in Hk. destruct Hk as [Hin Hf]. specialize (Ht k Hin). lia.
    + rewrite Forall_forall in *. intros k Hk. apply filter_In in Hk. destruct Hk as [Hin Hf]. specialize (Hp k Hin). lia.
    + rewrite Forall_forall in *. intros k Hk. apply filter_In in Hk. destruct Hk as [Hin Hf]. lia.
    + apply (filter_cstrs_forall (fun k => k <? addr) (a_cstrs a) (fun k => k mod 4 = 0 /\ k + 4 <= lenN (a_data a))); [|exact Hc].
      intros k [H1 H2] H3. lia.
  - (* write_bytes *)
    destruct (write_bytes_local _ _ _ _ E) as (_ & Hs & (E1 & E2 & E3 & E4 & _)).
    eapply wf_same_size; try eassumption; try congruence. unfold wf_cells; tauto.
  - (* write_string *)
    destruct v as [s|].
    + revert E. unfold write_string. rewrite check_cell_spec. destruct (inside a addr 4) eqn:Hin; cbn [bind]; [|discriminate].
      intros E; inversion E; subst a'. apply inside_true in Hin.
      unfold wf_cells, cell_ok, size in *. cbn [set_text a_data a_text a_ptrs a_labels a_cstrs]. repeat split; try assumption.
      eapply Forall_incl; [apply am_keys_set|]. constructor; [lia | exact Ht].
    + revert E. unfold write_string, delete_string. rewrite check_cell_spec. destruct (inside a addr 4); cbn [bind]; [|discriminate].
      intros E; inversion E; subst a'.
      unfold wf_cells, cell_ok, size in *. cbn [set_text a_data a_text a_ptrs a_labels a_cstrs]. repeat split; try assumption.
      eapply Forall_incl; [apply am_keys_del_incl | exact Ht].
  - (* write_pointer *)
    destruct v as [s|].
    + revert E. unfold write_pointer. rewrite check_cell_spec. destruct (inside a addr 4) eqn:Hin; cbn [bind]; [|discriminate].
      intros E; inversion E; subst a'. apply inside_true in Hin.
      unfold wf_cells, cell_ok, size in *. cbn [set_ptrs a_data a_text a_ptrs a_labels a_cstrs]. repeat split; try assumption.
      eapply Forall_incl; [apply am_keys_set|]. constructor; [lia | exact Hp].
    + revert E. unfold write_pointer, delete_pointer. rewrite check_cell_spec. destruct (inside a addr 4); cbn [bind]; [|discriminate].
      intros E; inversion E; subst a'.
      unfold wf_cells, cell_ok, size in *. cbn [set_ptrs a_data a_text a_ptrs a_labels a_cstrs]. repeat split; try assumption.
      eapply Forall_incl; [apply am_keys_del_incl | exact Hp].
  - (* write_c_string *)
    revert E. unfold write_c_string. rewrite check_cell_spec. destruct (inside a addr 4) eqn:Hin; cbn [bind]; [|discriminate].
    intros E; inversion E; subst a'. apply inside_true in Hin.
    unfold wf_cells, cell_ok, size in *. cbn [set_cstrs a_data a_text a_ptrs a_labels a_cstrs]. repeat split; try assumption.
    apply cs_push_cells; [lia | exact Hc].
  - (* write_label *)
    revert E. unfold write_label. rewrite validate_address_true. destruct (N.leb_spec addr (size a)); cbn [bind]; [|discriminate].
    intros E. assert (Ha' : exists b, a' = set_labels a (am_set addr b (a_labels a))).
    { destruct (am_get addr (a_labels a)); inversion E; eauto. }
    destruct Ha' as (b & ->).
    unfold wf_cells, cell_ok, size in *. cbn [set_labels a_data a_text a_ptrs a_labels a_cstrs]. repeat split; try assumption.
    eapply Forall_incl; [apply am_keys_set|]. constructor; [assumption | exact Hl].
  - (* write_labels *)
    revert E. unfold write_labels. rewrite validate_address_true. destruct (N.leb_spec addr (size a)); cbn [bind]; [|discriminate].
    intros E; inversion E; subst a'.
    unfold wf_cells, cell_ok, size in *. cbn [set_labels a_data a_text a_ptrs a_labels a_cstrs]. repeat split; try assumption.
    eapply Forall_incl; [apply am_keys_set|]. constructor; [assumption | exact Hl].
  - (* delete_labels *)
    revert E. unfold delete_labels. rewrite check_cell_spec. destruct (inside a addr 4); cbn [bind]; [|discriminate].
    intros E; inversion E; subst a'.
    unfold wf_cells, cell_ok, size in *. cbn [set_labels a_data a_text a_ptrs a_labels a_cstrs]. repeat split; try assumption.
    eapply Forall_incl; [apply am_keys_del_incl | exact Hl].
  - (* delete_label *)
    revert E. unfold delete_label. rewrite check_cell_spec. destruct (inside a addr 4) eqn:Hin; cbn [bind]; [|discriminate].
    destruct (am_get addr (a_labels a)) as [b|] eqn:G; [|intros E; inversion E; subst a'; unfold wf_cells; tauto].
    destruct (i <? _); intros E; inversion E; subst a'.
    unfold wf_cells, cell_ok, size in *. cbn [set_labels a_data a_text a_ptrs a_labels a_cstrs]. repeat split; try assumption.
    eapply Forall_incl; [apply am_keys_set|]. constructor; [|exact Hl].
    apply am_get_some_key in G. rewrite Forall_forall in Hl. apply Hl. exact G.
Qed.

Theorem history_invariant e ops : Forall aligned_op ops -> wf_cells (fold_left bstep ops (ba_new e)).
Proof.
  assert (G : forall l a, Forall aligned_op l -> wf_cells a -> wf_cells (fold_left bstep l a)).
  { induction l as [|o r IH]; intros a Hal Hwf; cbn [fold_left]; [exact Hwf|].
    inversion Hal; subst. apply IH; [assumption|]. apply step_preserves; assumption. }
  intros H. apply G; [exact H|]. unfold wf_cells. cbn. repeat split; constructor.
Qed.

(* usize: after an accepted allocate the new size is a valid vector length and, on a well-formed archive, every annotation key
   (cell or label address) lies inside it - so the key additions `pointer + count` of adjust_text / adjust_labels /
   adjust_pointers / the c-string loop, written as plain sums in the model, stay far below 2^64 in the code *)
Theorem allocate_keys_usize a addr n ge a' :
  wf_cells a -> allocate a addr n ge = Ok a' ->
  size a' <= ISIZE_MAX /\
  Forall (fun k => k + 4 <= ISIZE_MAX) (am_keys (a_text a')) /\ Forall (fun k => k + 4 <= ISIZE_MAX) (am_keys (a_ptrs a')) /\
  Forall (fun k => k <= ISIZE_MAX) (am_keys (a_labels a')) /\
  Forall (fun q => Forall (fun k => k + 4 <= ISIZE_MAX) (snd q)) (a_cstrs a').
Proof.
  intros Hwf E.
  assert (Hs : size a' <= ISIZE_MAX).
  { destruct (allocate_accepted _ _ _ _ _ E) as (_ & _ & _ & Hsz & _).
    destruct (allocate_spec _ _ _ _ _ E) as (_ & Hs & _). rewrite Hs. exact Hsz. }
  assert (Hwf' : wf_cells a').
  { assert (G := step_preserves a (OAllocate addr n ge) I Hwf). unfold bstep in G. cbn [run_op] in G. rewrite E in G. exact G. }
  destruct Hwf' as (Ht & Hp & Hl & Hc). split; [exact Hs|]. unfold cell_ok in *.
  split; [eapply Forall_impl; [|exact Ht]; cbn beta; intros; lia|].
  split; [eapply Forall_impl; [|exact Hp]; cbn beta; intros; lia|].
  split; [eapply Forall_impl; [|exact Hl]; cbn beta; intros; lia|].
  eapply Forall_impl; [|exact Hc]. intros q H. eapply Forall_impl; [|exact H]. cbn beta; intros; lia.
Qed.
