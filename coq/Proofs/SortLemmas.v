(* Insertion sort (Model/BinArchive.v: ins, isort): permutation, sortedness, and uniqueness of the
   result for all permutations of an input on which the order is antisymmetric -
   this is how "for every hash-iteration order" becomes a universally quantified statement. *)
From Coq Require Import List NArith Bool Lia Permutation Sorted.
From Mila Require Import Lib.Bytes Model.BinArchive.
Import ListNotations.

Section Sort.
Context {A : Type} (leb : A -> A -> bool).
Hypothesis leb_total : forall x y, leb x y = true \/ leb y x = true.
Hypothesis leb_trans : forall x y z, leb x y = true -> leb y z = true -> leb x z = true.

Definition le (x y : A) : Prop := leb x y = true.

Lemma ins_perm x l : Permutation (x :: l) (ins leb x l).
Proof.
  induction l as [|y r IH]; cbn [ins]; [reflexivity|].
  destruct (leb x y); [reflexivity|]. rewrite perm_swap. apply perm_skip. exact IH.
Qed.
Lemma isort_perm l : Permutation l (isort leb l).
Proof.
  unfold isort. induction l as [|x r IH]; cbn [fold_right]; [constructor|].
  rewrite <- ins_perm. apply perm_skip. exact IH.
Qed.

Lemma ins_sorted x l : StronglySorted le l -> StronglySorted le (ins leb x l).
Proof.
  induction l as [|y r IH]; intros Hs; cbn [ins].
  - constructor; constructor.
  - inversion Hs as [|? ? Hr Hy]; subst. destruct (leb x y) eqn:E.
    + constructor; [exact Hs|]. constructor; [exact E|].
      rewrite Forall_forall in *. intros z Hz. eapply leb_trans; [exact E | apply Hy; exact Hz].
    + assert (Hyx : le y x) by (destruct (leb_total x y) as [H|H]; [congruence | exact H]).
      constructor; [apply IH; exact Hr|].
      rewrite Forall_forall in *. intros z Hz.
      apply (Permutation_in _ (Permutation_sym (ins_perm x r))) in Hz. destruct Hz as [<-|Hz]; [exact Hyx | apply Hy; exact Hz].
Qed.
Lemma isort_sorted l : StronglySorted le (isort leb l).
Proof. unfold isort. induction l as [|x r IH]; cbn [fold_right]; [constructor | apply ins_sorted; exact IH]. Qed.

Lemma sorted_perm_eq : forall l l',
  (forall x y, In x l -> In y l -> le x y -> le y x -> x = y) ->
  StronglySorted le l -> StronglySorted le l' -> Permutation l l' -> l = l'.
Proof.
  induction l as [|a r IH]; intros l' Hanti Hs Hs' Hp.
  - apply Permutation_nil in Hp. auto.
  - destruct l' as [|b r']; [apply Permutation_sym, Permutation_nil in Hp; discriminate|].
    inversion Hs as [|? ? Hr Ha]; inversion Hs' as [|? ? Hr' Hb]; subst.
    rewrite Forall_forall in Ha, Hb.
    assert (Hab : a = b).
    { assert (Hina : In a (b :: r')) by (apply (Permutation_in _ Hp); left; auto).
      assert (Hinb : In b (a :: r)) by (apply (Permutation_in _ (Permutation_sym Hp)); left; auto).
      destruct Hina as [E|Hina]; [auto|]. destruct Hinb as [E|Hinb]; [auto|].
      apply Hanti; [left; reflexivity | right; exact Hinb | apply Ha; exact Hinb | apply Hb; exact Hina]. }
    subst b. f_equal. apply IH; [|exact Hr | exact Hr' |].
    + intros x y Hx Hy. apply Hanti; right; assumption.
    + apply Permutation_cons_inv with (a := a). exact Hp.
Qed.

Theorem isort_perm_invariant l l' :
  (forall x y, In x l -> In y l -> le x y -> le y x -> x = y) ->
  Permutation l l' -> isort leb l = isort leb l'.
Proof.
  intros Hanti Hp. apply sorted_perm_eq.
  - intros x y Hx Hy. apply Hanti; apply (Permutation_in _ (Permutation_sym (isort_perm l))); assumption.
  - apply isort_sorted.
  - apply isort_sorted.
  - rewrite <- (isort_perm l), <- (isort_perm l'). exact Hp.
Qed.

(* a sorted list is a fixed point *)
Lemma isort_sorted_id l :
  (forall x y, In x l -> In y l -> le x y -> le y x -> x = y) -> StronglySorted le l -> isort leb l = l.
Proof.
  intros Hanti Hs. symmetry. apply sorted_perm_eq; [exact Hanti | exact Hs | apply isort_sorted | apply isort_perm].
Qed.
End Sort.

(* ---- instances ---- *)
Lemma nodup_fst_inj {K V} (l : list (K * V)) x y :
  NoDup (map fst l) -> In x l -> In y l -> fst x = fst y -> x = y.
Proof.
  induction l as [|z r IH]; intros Hnd Hx Hy E; [destruct Hx|].
  inversion Hnd as [|? ? Hn Hr]; subst. destruct Hx as [<-|Hx]; destruct Hy as [<-|Hy]; auto.
  - exfalso. apply Hn. rewrite E. apply in_map. exact Hy.
  - exfalso. apply Hn. rewrite <- E. apply in_map. exact Hx.
Qed.

Local Open Scope N_scope.
Definition key_leb {V} (x y : N * V) : bool := fst x <=? fst y.
Lemma key_leb_total {V} (x y : N * V) : key_leb x y = true \/ key_leb y x = true.
Proof. unfold key_leb. destruct (N.leb_spec (fst x) (fst y)); [left; reflexivity | right; apply N.leb_le; lia]. Qed.
Lemma key_leb_trans {V} (x y z : N * V) : key_leb x y = true -> key_leb y z = true -> key_leb x z = true.
Proof. unfold key_leb. rewrite !N.leb_le. lia. Qed.

Theorem isort_key_perm_invariant {V} (l l' : list (N * V)) :
  NoDup (map fst l) -> Permutation l l' -> isort key_leb l = isort key_leb l'.
Proof.
  intros Hnd Hp. apply isort_perm_invariant; [apply key_leb_total | apply key_leb_trans | | exact Hp].
  intros x y Hx Hy H1 H2. apply (nodup_fst_inj l); auto. unfold le, key_leb in *. rewrite N.leb_le in *. lia.
Qed.

(* ---- byte-string order ---- *)
Lemma bytes_cmp_refl a : bytes_cmp a a = Eq.
Proof. induction a as [|x a IH]; cbn [bytes_cmp]; [reflexivity|]. rewrite N.compare_refl. exact IH. Qed.
Lemma bytes_cmp_eq a b : bytes_cmp a b = Eq -> a = b.
Proof.
  revert b; induction a as [|x a IH]; intros [|y b]; cbn [bytes_cmp]; try discriminate; [reflexivity|].
  destruct (N.compare_spec x y) as [Exy|Exy|Exy]; try discriminate. intros Hc. subst. f_equal. apply IH. exact Hc.
Qed.
Lemma bytes_cmp_antisym a b : bytes_cmp b a = CompOpp (bytes_cmp a b).
Proof.
  revert b; induction a as [|x a IH]; intros [|y b]; cbn [bytes_cmp CompOpp]; try reflexivity.
  rewrite (N.compare_antisym x y). destruct (x ?= y); cbn [CompOpp]; [apply IH | reflexivity | reflexivity].
Qed.
Lemma bytes_cmp_trans_lt a b c : bytes_cmp a b = Lt -> bytes_cmp b c = Lt -> bytes_cmp a c = Lt.
Proof.
  revert b c; induction a as [|x a IH]; intros [|y b] [|z c]; cbn [bytes_cmp]; try discriminate; try reflexivity.
  destruct (N.compare_spec x y) as [Exy|Exy|Exy]; destruct (N.compare_spec y z) as [Eyz|Eyz|Eyz]; try discriminate; intros H1 H2.
  - subst. rewrite N.compare_refl. eapply IH; eauto.
  - subst. apply N.compare_lt_iff in Eyz. rewrite Eyz. reflexivity.
  - subst. apply N.compare_lt_iff in Exy. rewrite Exy. reflexivity.
  - assert (Hxz : x < z) by lia. apply N.compare_lt_iff in Hxz. rewrite Hxz. reflexivity.
Qed.

Lemma bytes_leb_total a b : bytes_leb a b = true \/ bytes_leb b a = true.
Proof. unfold bytes_leb. rewrite (bytes_cmp_antisym a b). destruct (bytes_cmp a b); cbn [CompOpp]; auto. Qed.
Lemma bytes_leb_trans a b c : bytes_leb a b = true -> bytes_leb b c = true -> bytes_leb a c = true.
Proof.
  unfold bytes_leb. destruct (bytes_cmp a b) eqn:E1; try discriminate; destruct (bytes_cmp b c) eqn:E2; try discriminate; intros _ _.
  - apply bytes_cmp_eq in E1, E2. subst. rewrite bytes_cmp_refl. reflexivity.
  - apply bytes_cmp_eq in E1. subst. rewrite E2. reflexivity.
  - apply bytes_cmp_eq in E2. subst. rewrite E1. reflexivity.
  - rewrite (bytes_cmp_trans_lt a b c E1 E2). reflexivity.
Qed.
Lemma bytes_leb_antisym a b : bytes_leb a b = true -> bytes_leb b a = true -> a = b.
Proof.
  unfold bytes_leb. rewrite (bytes_cmp_antisym a b). destruct (bytes_cmp a b) eqn:E; cbn [CompOpp]; try discriminate.
  intros _ _. apply bytes_cmp_eq. exact E.
Qed.
