(* C06, writer side: the data region is the title cell followed by one 4-aligned cell per
   message; label_info pairs every key with the offset of its cell; build_archive yields the
   archive with exactly these bytes and exactly one label bucket [key] per offset. *)
From Coq Require Import List NArith ZArith Bool Lia ZifyBool ZifyNat ZifyN.
From Mila Require Import Lib.Bytes Lib.Machine Model.BinArchive Model.BinStreams Model.TextMap Model.TextFormat
  Proofs.AMapLemmas Proofs.BinAccess Proofs.BinAccess2 Proofs.TextFormatRead.
Import ListNotations.
Local Open Scope N_scope.
Ltac Zify.zify_post_hook ::= Z.div_mod_to_equations.

(* ---------------------------------------------------------------- the layout as cells *)
Definition title_cell (fmt : tformat) (title : str) : bytes :=
  match fmt with Unicode => cell ShiftJIS title | ShiftJIS => [] end.
Definition cells (fmt : tformat) (es : list (str * str)) : bytes := concat (map (fun kv => cell fmt (snd kv)) es).
Fixpoint offsets (fmt : tformat) (start : N) (es : list (str * str)) : list (bytes * N) :=
  match es with
  | [] => []
  | kv :: r => (fst kv, start) :: offsets fmt (start + lenN (cell fmt (snd kv))) r
  end.

Lemma cells_cons fmt kv r : cells fmt (kv :: r) = cell fmt (snd kv) ++ cells fmt r.
Proof. reflexivity. Qed.
Lemma lenN_cells_mod fmt es : lenN (cells fmt es) mod 4 = 0.
Proof.
  induction es as [|kv r IH]; [reflexivity|].
  rewrite cells_cons, lenN_app. pose proof (lenN_cell_mod fmt (snd kv)). lia.
Qed.
Lemma lenN_title_cell_mod fmt title : lenN (title_cell fmt title) mod 4 = 0.
Proof. destruct fmt; cbn [title_cell]; [reflexivity | apply lenN_cell_mod]. Qed.

Lemma layout_fold fmt : forall es buf info, lenN buf mod 4 = 0 ->
  fold_left (layout_step fmt) es (buf, info) = (buf ++ cells fmt es, info ++ offsets fmt (lenN buf) es).
Proof.
  induction es as [|kv r IH]; intros buf info Hb; cbn [fold_left offsets].
  - cbn [cells map concat]. rewrite !app_nil_r. reflexivity.
  - rewrite cells_cons. unfold layout_step at 2. cbn [fst snd]. rewrite (write_message_cell fmt buf (snd kv) Hb).
    rewrite IH.
    + rewrite <- !app_assoc. cbn [app]. rewrite lenN_app. reflexivity.
    + rewrite lenN_app. pose proof (lenN_cell_mod fmt (snd kv)). lia.
Qed.

Theorem layout_spec fmt t :
  layout fmt t = (title_cell fmt (t_title t) ++ cells fmt (t_entries t),
                  offsets fmt (lenN (title_cell fmt (t_title t))) (t_entries t)).
Proof.
  unfold layout.
  assert (E : match fmt with Unicode => write_shift_jis_string [] (t_title t) | ShiftJIS => [] end = title_cell fmt (t_title t)).
  { destruct fmt; reflexivity. }
  rewrite E. rewrite layout_fold by apply lenN_title_cell_mod. reflexivity.
Qed.

(* ---------------------------------------------------------------- offsets *)
Lemma offsets_bounds fmt : forall es start k off,
  In (k, off) (offsets fmt start es) -> start <= off /\ off + 4 <= start + lenN (cells fmt es) /\ off mod 4 = start mod 4.
Proof.
  induction es as [|kv r IH]; intros start k off H; cbn [offsets] in H; [destruct H|].
  rewrite cells_cons, lenN_app.
  pose proof (lenN_cell_ge fmt (snd kv)) as G. pose proof (lenN_cell_mod fmt (snd kv)) as M.
  destruct H as [H|H].
  - inversion H; subst. lia.
  - apply IH in H. lia.
Qed.
Lemma offsets_nodup fmt : forall es start, NoDup (map snd (offsets fmt start es)).
Proof.
  induction es as [|kv r IH]; intros start; cbn [offsets map snd]; constructor; [|apply IH].
  intros Hin. apply in_map_iff in Hin. destruct Hin as ([k off] & E & Hin). cbn [snd] in E. subst off.
  apply offsets_bounds in Hin. pose proof (lenN_cell_ge fmt (snd kv)). lia.
Qed.
Lemma offsets_keys fmt : forall es start, map fst (offsets fmt start es) = map fst es.
Proof. induction es as [|kv r IH]; intros start; cbn [offsets map fst]; [reflexivity | rewrite IH; reflexivity]. Qed.
Lemma offsets_length fmt es start : length (offsets fmt start es) = length es.
Proof. rewrite <- (map_length fst), offsets_keys, map_length. reflexivity. Qed.

(* ---------------------------------------------------------------- writing the labels *)
Definition labels_of (info : list (bytes * N)) : amap (list bytes) := map (fun p => (snd p, [fst p])) info.

Lemma am_set_absent {V} k (v : V) m : am_get k m = None -> am_set k v m = m ++ [(k, v)].
Proof.
  induction m as [|[k' v'] r IH]; cbn [am_get am_set app]; [reflexivity|].
  destruct (N.eqb_spec k k'); [discriminate|]. intros H. rewrite IH by exact H. reflexivity.
Qed.
Lemma am_get_app {V} k (m1 m2 : amap V) :
  am_get k (m1 ++ m2) = match am_get k m1 with Some v => Some v | None => am_get k m2 end.
Proof.
  induction m1 as [|[k' v'] r IH]; cbn [am_get app]; [reflexivity|]. destruct (N.eqb_spec k k'); [reflexivity | exact IH].
Qed.

Lemma write_label_all_spec : forall info a,
  (forall k off, In (k, off) info -> off <= size a) ->
  NoDup (map snd info) ->
  (forall off, In off (map snd info) -> am_get off (a_labels a) = None) ->
  write_label_all a info = Ok (set_labels a (a_labels a ++ labels_of info)).
Proof.
  induction info as [|[l off] r IH]; intros a Hle Hnd Hfree; cbn [write_label_all labels_of map].
  - rewrite app_nil_r. destruct a; reflexivity.
  - unfold write_label. rewrite validate_address_true.
    assert (Ho : off <= size a) by (apply (Hle l); left; reflexivity).
    destruct (N.leb_spec off (size a)); [|lia]. cbn [bind].
    rewrite (Hfree off) by (left; reflexivity). cbn [bind].
    rewrite am_set_absent by (apply Hfree; left; reflexivity).
    inversion Hnd as [|x xs Hnotin Hnd']; subst.
    rewrite IH.
    + cbn [set_labels a_labels a_data a_text a_ptrs a_cstrs a_endian snd fst]. rewrite <- app_assoc. reflexivity.
    + intros k o Hin. unfold size. cbn [set_labels a_data]. apply (Hle k). right. exact Hin.
    + exact Hnd'.
    + intros o Hin. cbn [set_labels a_labels]. rewrite am_get_app. rewrite (Hfree o) by (right; exact Hin).
      cbn [am_get]. destruct (N.eqb_spec o off); [subst; contradiction | reflexivity].
Qed.

(* ---------------------------------------------------------------- the archive handed to BinArchive::serialize *)
Definition text_image (fmt : tformat) (e : endian) (t : tmap) : archive :=
  {| a_data := title_cell fmt (t_title t) ++ cells fmt (t_entries t);
     a_text := []; a_ptrs := [];
     a_labels := labels_of (offsets fmt (lenN (title_cell fmt (t_title t))) (t_entries t));
     a_cstrs := []; a_endian := e |}.

Lemma skipn_all_zeros n : skipn n (zeros n) = [].
Proof. unfold zeros. apply skipn_all2. rewrite repeat_length. lia. Qed.

Lemma write_all_bytes e bs :
  match bs with [] => Ok (allocate_at_end (ba_new e) (lenN bs)) | _ :: _ => write_bytes (allocate_at_end (ba_new e) (lenN bs)) 0 bs end
  = Ok {| a_data := bs; a_text := []; a_ptrs := []; a_labels := []; a_cstrs := []; a_endian := e |}.
Proof.
  destruct bs as [|b bs'] eqn:Eb; [reflexivity|]. rewrite <- Eb.
  set (a0 := allocate_at_end (ba_new e) (lenN bs)).
  assert (Hd0 : a_data a0 = zeros (length bs)).
  { unfold a0, allocate_at_end, ba_new. cbn [set_data a_data app]. unfold lenN. rewrite Nat2N.id. reflexivity. }
  rewrite write_bytes_spec.
  assert (Hs : size a0 = lenN bs) by (unfold size; rewrite Hd0; unfold lenN, zeros; rewrite repeat_length; reflexivity).
  assert (Hin : inside a0 0 (lenN bs) = true).
  { apply inside_true. rewrite Hs. rewrite Eb, lenN_cons. lia. }
  rewrite Hin. f_equal. unfold patched. rewrite Hd0. cbn [N.to_nat firstn app].
  rewrite N.add_0_l. unfold lenN. rewrite Nat2N.id, skipn_all_zeros, app_nil_r. reflexivity.
Qed.

Theorem build_archive_spec fmt e t : build_archive fmt e t = Ok (text_image fmt e t).
Proof.
  unfold build_archive. rewrite layout_spec. rewrite write_all_bytes. cbn [bind].
  rewrite write_label_all_spec.
  - reflexivity.
  - intros k off Hin. unfold size. cbn [a_data].
    apply offsets_bounds in Hin. rewrite lenN_app. lia.
  - apply offsets_nodup.
  - intros off _. reflexivity.
Qed.

(* every stored offset is a multiple of 4, holds its message cell and carries exactly its key *)
Lemma am_get_labels_of info k off :
  NoDup (map snd info) -> In (k, off) info -> am_get off (labels_of info) = Some [k].
Proof.
  induction info as [|[k' off'] r IH]; intros Hnd Hin; [destruct Hin|].
  cbn [labels_of map am_get fst snd]. inversion Hnd as [|x xs Hnotin Hnd']; subst.
  destruct Hin as [Hin|Hin].
  - inversion Hin; subst. rewrite N.eqb_refl. reflexivity.
  - destruct (N.eqb_spec off off') as [E|E].
    + subst off'. exfalso. apply Hnotin. apply in_map_iff. exists (k, off). split; [reflexivity | exact Hin].
    + apply IH; assumption.
Qed.

Lemma offsets_nth fmt : forall es start i kv,
  nth_error es i = Some kv ->
  exists pre post, es = pre ++ kv :: post /\ length pre = i /\
    In (fst kv, start + lenN (cells fmt pre)) (offsets fmt start es).
Proof.
  induction es as [|x r IH]; intros start i kv H; [destruct i; discriminate|].
  destruct i as [|i]; cbn [nth_error] in H.
  - inversion H; subst. exists [], r. repeat split. cbn [offsets cells map concat]. left. rewrite lenN_nil, N.add_0_r. reflexivity.
  - destruct (IH (start + lenN (cell fmt (snd x))) i kv H) as (pre & post & E & L & Hin).
    exists (x :: pre), post. subst r. repeat split; [cbn [length]; congruence|].
    cbn [offsets]. right. rewrite cells_cons, lenN_app.
    rewrite N.add_assoc. exact Hin.
Qed.
