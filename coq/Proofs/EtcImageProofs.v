(* C19_pixel_source for ETC1 / ETC1A4 images: pixel (X, Y) is texel (X mod 4, Y mod 4) of the block with
   index etc_block_index w X Y -- for every width and height that are multiples of 8 whose tile counts
   the float expression computes exactly (all powers of two: etc_tiles_pow2). *)
From Coq Require Import List NArith ZArith Arith Lia Bool ZifyBool ZifyNat ZifyN.
From Mila Require Import Lib.Bytes Lib.Machine Model.Pixel Model.PixelSpec Model.Etc1
  Proofs.TexFinite Proofs.PixelProofs Proofs.Scatter Proofs.TileProofs Proofs.Etc1Proofs.
Import ListNotations.
Local Open Scope N_scope.
Ltac Zify.zify_post_hook ::= Z.div_mod_to_equations.

Lemma etc_tiles_pow2 k : etc_tiles (8 * 2 ^ k) = 2 ^ k.
Proof.
  unfold etc_tiles. assert (P : 0 < 2 ^ k) by (apply N.neq_0_lt_0, N.pow_nonzero; lia).
  replace ((8 * 2 ^ k + 7) / 8) with (2 ^ k) by lia.
  destruct (N.eqb_spec (2 ^ k) 0); [lia|]. rewrite N.log2_pow2 by lia. reflexivity.
Qed.

(* ---------------- generic pieces ---------------- *)
Lemma scatter_app {A} (a b : list (N * A)) bmp : scatter (a ++ b) bmp = scatter b (scatter a bmp).
Proof. revert bmp; induction a as [|[d c] r IH]; intros bmp; cbn [app scatter]; auto. Qed.

Lemma apply_writes_scatter blen : forall ws bmp, Forall (fun w => fst w < blen) ws ->
  apply_writes blen ws bmp = Ok (scatter ws bmp).
Proof.
  induction ws as [|[d c] r IH]; intros bmp HF; cbn [apply_writes scatter]; [reflexivity|].
  inversion HF as [|? ? Hd HF']; subst. cbn [fst] in Hd. destruct (N.ltb_spec d blen); [|lia]. apply IH. exact HF'.
Qed.

Lemma combine_map {A B C} (f : A -> B) (g : A -> C) l : combine (map f l) (map g l) = map (fun x => (f x, g x)) l.
Proof. induction l as [|x r IH]; cbn [map combine]; congruence. Qed.

Lemma flat_map_map {A B C} (f : A -> B) (g : B -> list C) l : flat_map g (map f l) = flat_map (fun x => g (f x)) l.
Proof. induction l as [|x r IH]; cbn [map flat_map]; congruence. Qed.

Fixpoint take_all (alpha : bool) (n : nat) (rest : bytes) : option (list (N * N)) :=
  match n with
  | O => Some []
  | S k => match take_block alpha rest with
           | None => None
           | Some (a, p, r') => match take_all alpha k r' with Some l => Some ((a, p) :: l) | None => None end
           end
  end.

Lemma etc_loop_scatter alpha w h blen : forall blocks rest bmp bd,
  take_all alpha (length blocks) rest = Some bd ->
  (forall blk a p, In (blk, (a, p)) (combine blocks bd) -> Forall (fun x => fst x < blen) (block_writes w h a p blk)) ->
  etc_loop alpha w h blen blocks rest bmp =
  Ok (scatter (flat_map (fun e => block_writes w h (fst (snd e)) (snd (snd e)) (fst e)) (combine blocks bd)) bmp).
Proof.
  induction blocks as [|blk bs IH]; intros rest bmp bd HT HW; cbn [length take_all] in HT.
  - inversion HT. reflexivity.
  - cbn [etc_loop]. destruct (take_block alpha rest) as [[[a p] r']|]; [|discriminate].
    destruct (take_all alpha (length bs) r') as [l|] eqn:E; [|discriminate]. inversion HT; subst.
    cbn [combine flat_map fst snd]. rewrite apply_writes_scatter by (apply HW; left; reflexivity).
    cbn [bind]. rewrite scatter_app. apply IH; [exact E|]. intros blk' a' p' Hin. apply HW. right. exact Hin.
Qed.

(* take_block on enough bytes *)
Lemma take_block_spec alpha rest : (N.to_nat (etc_block_bytes alpha) <= length rest)%nat ->
  take_block alpha rest =
  Some (fst (etc_block_at alpha rest 0), snd (etc_block_at alpha rest 0), skipn (N.to_nat (etc_block_bytes alpha)) rest).
Proof.
  intros H. destruct alpha; cbn [etc_block_bytes] in H.
  - do 16 (destruct rest as [|? rest]; [cbn [length] in H; lia|]). reflexivity.
  - do 8 (destruct rest as [|? rest]; [cbn [length] in H; lia|]). reflexivity.
Qed.

Lemma element_skip bpe data i j : element bpe (skipn (N.to_nat (j * bpe)) data) i = element bpe data (j + i).
Proof. unfold element. rewrite skipn_skipn'. do 3 f_equal. lia. Qed.

Lemma etc_block_at_skip alpha data i j :
  etc_block_at alpha (skipn (N.to_nat (j * etc_block_bytes alpha)) data) i = etc_block_at alpha data (j + i).
Proof.
  unfold etc_block_at. destruct alpha; cbn [etc_block_bytes].
  - replace (j * 16) with ((2 * j) * 8) by lia. rewrite !element_skip. do 2 f_equal; lia.
  - rewrite element_skip. reflexivity.
Qed.

Lemma take_all_spec alpha : forall n rest, (N.to_nat (etc_block_bytes alpha) * n <= length rest)%nat ->
  take_all alpha n rest = Some (map (fun b => etc_block_at alpha rest (N.of_nat b)) (seq 0 n)).
Proof.
  induction n as [|n IH]; intros rest H; [reflexivity|].
  cbn [take_all]. rewrite take_block_spec by lia.
  rewrite IH by (rewrite skipn_length; lia).
  cbn [seq map]. rewrite <- surjective_pairing. do 2 f_equal.
  rewrite (map_seq_shift _ 1%nat). apply map_ext. intros b.
  replace (N.to_nat (etc_block_bytes alpha)) with (N.to_nat (1 * etc_block_bytes alpha)) by lia.
  rewrite etc_block_at_skip. f_equal. lia.
Qed.

(* ---------------- iteration space ---------------- *)
Lemma flat_map_ext_in {A B} (f g : A -> list B) l : (forall a, In a l -> f a = g a) -> flat_map f l = flat_map g l.
Proof.
  induction l as [|x r IH]; intros H; cbn [flat_map]; [reflexivity|].
  rewrite (H x (or_introl eq_refl)), IH; [reflexivity|]. intros a Ha. apply H. right. exact Ha.
Qed.
Lemma flat_map_singleton {A B} (f : A -> B) l : flat_map (fun a => [f a]) l = map f l.
Proof. induction l as [|x r IH]; cbn [flat_map map app]; congruence. Qed.

(* coordinates (tile_y, tile_x, block_y, block_x) of block number b *)
Definition blkc (tw b : nat) : nat * nat * nat * nat :=
  let r := (b mod (tw * 4))%nat in ((b / (tw * 4))%nat, (r / 4)%nat, ((r mod 4) / 2)%nat, ((r mod 4) mod 2)%nat).

Lemma etc_blocks_flat tw th : etc_blocks tw th = map (blkc tw) (seq 0 (th * (tw * 4))).
Proof.
  unfold etc_blocks.
  rewrite (flat_map_ext _ (fun ty => map (fun r => (ty, (r / 4)%nat, ((r mod 4) / 2)%nat, ((r mod 4) mod 2)%nat)) (seq 0 (tw * 4)))).
  2:{ intros ty.
      rewrite (flat_map_ext _ (fun tx => map (fun c => (ty, tx, (c / 2)%nat, (c mod 2)%nat)) (seq 0 4))).
      2:{ intros tx. apply (flat_map_seq (fun by_ bx => (ty, tx, by_, bx)) 2 2). }
      apply (flat_map_seq (fun tx c => (ty, tx, (c / 2)%nat, (c mod 2)%nat)) tw 4). }
  apply (flat_map_seq (fun ty r => (ty, (r / 4)%nat, ((r mod 4) / 2)%nat, ((r mod 4) mod 2)%nat)) th (tw * 4)).
Qed.

(* destination pixel index of texel q (row-major) of the block with coordinates blk *)
Definition pdst (w : N) (blk : nat * nat * nat * nat) (q : nat) : N :=
  let '(ty, tx, by_, bx) := blk in
  let x := N.of_nat (q mod 4) + N.of_nat bx * 4 + N.of_nat tx * 8 in
  let y := N.of_nat (q / 4) + N.of_nat by_ * 4 + N.of_nat ty * 8 in
  y * w + x.

Lemma block_writes_full w h a p ty tx by_ bx :
  N.of_nat tx * 8 + 8 <= w -> N.of_nat ty * 8 + 8 <= h -> (by_ < 2)%nat -> (bx < 2)%nat ->
  block_writes w h a p (ty, tx, by_, bx) =
  map (fun q => (pdst w (ty, tx, by_, bx) q, nth q (decode_block a p) ZERO_PX)) (seq 0 16).
Proof.
  intros Hx Hy Hby Hbx. unfold block_writes.
  set (F := fun py px : nat =>
    ((N.of_nat py + N.of_nat by_ * 4 + N.of_nat ty * 8) * w + (N.of_nat px + N.of_nat bx * 4 + N.of_nat tx * 8),
     nth (py * 4 + px) (decode_block a p) ZERO_PX)).
  rewrite (flat_map_ext_in _ (fun py => map (F py) (seq 0 4))).
  2:{ intros py Hpy. apply in_seq in Hpy. rewrite <- flat_map_singleton. apply flat_map_ext_in. intros px Hpx. apply in_seq in Hpx.
      destruct (N.leb_spec w (N.of_nat px + N.of_nat bx * 4 + N.of_nat tx * 8)); [lia|].
      destruct (N.leb_spec h (N.of_nat py + N.of_nat by_ * 4 + N.of_nat ty * 8)); [lia|]. reflexivity. }
  rewrite (flat_map_seq F 4 4). change (4 * 4)%nat with 16%nat. apply map_ext_in. intros q Hq. apply in_seq in Hq.
  unfold F, pdst. f_equal. f_equal. pose proof (Nat.div_mod q 4). lia.
Qed.

Lemma decomp_c c tw k th : (0 < c)%nat -> (0 < tw)%nat -> (k < th * (tw * c))%nat ->
  let ty := (k / (tw * c))%nat in let j := (k mod (tw * c))%nat in
  (ty < th /\ j / c < tw /\ j mod c < c /\ k = (ty * tw + j / c) * c + j mod c)%nat.
Proof.
  intros Hc Htw Hk ty j.
  pose proof (Nat.div_mod k (tw * c) ltac:(nia)) as E. fold ty j in E.
  pose proof (Nat.mod_upper_bound k (tw * c) ltac:(nia)) as Hj. fold j in Hj.
  pose proof (Nat.div_mod j c ltac:(lia)) as Ej.
  pose proof (Nat.mod_upper_bound j c ltac:(lia)) as Hp.
  assert (Hty : (ty < th)%nat) by (apply Nat.div_lt_upper_bound; nia).
  assert (Htx : (j / c < tw)%nat) by (apply Nat.div_lt_upper_bound; nia).
  repeat split; try assumption. nia.
Qed.

Lemma comp_c c tw ty tx p : (tx < tw)%nat -> (p < c)%nat ->
  let k := ((ty * tw + tx) * c + p)%nat in
  ((k / (tw * c)) = ty /\ (k mod (tw * c)) / c = tx /\ (k mod (tw * c)) mod c = p)%nat.
Proof.
  intros Htx Hp k.
  assert (E1 : (k / (tw * c) = ty)%nat).
  { symmetry. apply Nat.div_unique with (r := (tx * c + p)%nat); unfold k; nia. }
  assert (E2 : (k mod (tw * c) = tx * c + p)%nat).
  { symmetry. apply Nat.mod_unique with (q := ty); unfold k; nia. }
  rewrite E1, E2. repeat split.
  - symmetry. apply Nat.div_unique with (r := p); lia.
  - symmetry. apply Nat.mod_unique with (q := tx); lia.
Qed.

(* destination of the i-th texel write of the whole image *)
Definition edst (w : N) (tw i : nat) : N := pdst w (blkc tw (i / 16)%nat) (i mod 16)%nat.
Definition etexel_index (w X Y : N) : N := etc_block_index w X Y * 16 + 4 * (Y mod 4) + X mod 4.
Definition srcE (w d : N) : nat := N.to_nat (etexel_index w (d mod w) (d / w)).

Lemma edst_of_pixel w tw th X Y : w = 8 * N.of_nat tw -> X < w -> Y < 8 * N.of_nat th ->
  let i := N.to_nat (etexel_index w X Y) in
  (i < th * (tw * 4) * 16)%nat /\ edst w tw i = Y * w + X /\
  (i / 16)%nat = N.to_nat (etc_block_index w X Y) /\ (i mod 16)%nat = N.to_nat (4 * (Y mod 4) + X mod 4).
Proof.
  intros Hw HX HY i.
  set (tx := N.to_nat (X / 8)). set (ty := N.to_nat (Y / 8)).
  set (c := N.to_nat (2 * ((Y / 4) mod 2) + (X / 4) mod 2)).
  set (q := N.to_nat (4 * (Y mod 4) + X mod 4)).
  assert (Htx : (tx < tw)%nat) by (unfold tx; lia). assert (Hty : (ty < th)%nat) by (unfold ty; lia).
  assert (Hc : (c < 4)%nat) by (unfold c; lia). assert (Hq : (q < 16)%nat) by (unfold q; lia).
  set (b := ((ty * tw + tx) * 4 + c)%nat).
  assert (Eb : N.to_nat (etc_block_index w X Y) = b).
  { unfold etc_block_index, b, ty, tx, c. replace (w / 8) with (N.of_nat tw) by lia. lia. }
  assert (Ei : i = (b * 16 + q)%nat) by (unfold i, etexel_index, q; lia).
  assert (Ediv : (i / 16 = b)%nat) by lia. assert (Emod : (i mod 16 = q)%nat) by lia.
  destruct (comp_c 4 tw ty tx c Htx Hc) as (E1 & E2 & E3). fold b in E1, E2, E3.
  split; [|split; [|split]].
  - rewrite Ei. unfold b. nia.
  - unfold edst. rewrite Ediv, Emod. unfold blkc. rewrite E1, E2, E3. unfold pdst.
    assert (A1 : N.of_nat (q mod 4) + N.of_nat (c mod 2) * 4 + N.of_nat tx * 8 = X) by (unfold q, c, tx; lia).
    assert (A2 : N.of_nat (q / 4) + N.of_nat (c / 2) * 4 + N.of_nat ty * 8 = Y) by (unfold q, c, ty; lia).
    rewrite A1, A2. reflexivity.
  - rewrite Ediv. symmetry. exact Eb.
  - exact Emod.
Qed.

Lemma edst_shape w tw th i : w = 8 * N.of_nat tw -> (0 < tw)%nat -> (i < th * (tw * 4) * 16)%nat ->
  exists x y, x < w /\ y < 8 * N.of_nat th /\ edst w tw i = x + y * w /\ N.to_nat (etexel_index w x y) = i.
Proof.
  intros Hw Htw Hi.
  assert (Hb : (i / 16 < th * (tw * 4))%nat) by (apply Nat.div_lt_upper_bound; lia).
  destruct (decomp_c 4 tw (i / 16)%nat th ltac:(lia) Htw Hb) as (Hty & Htx & Hc & Eb).
  set (b := (i / 16)%nat) in *. set (q := (i mod 16)%nat).
  set (ty := (b / (tw * 4))%nat) in *. set (r := (b mod (tw * 4))%nat) in *.
  set (tx := (r / 4)%nat) in *. set (c := (r mod 4)%nat) in *.
  assert (Hq : (q < 16)%nat) by (unfold q; lia).
  exists (N.of_nat (q mod 4) + N.of_nat (c mod 2) * 4 + N.of_nat tx * 8),
         (N.of_nat (q / 4) + N.of_nat (c / 2) * 4 + N.of_nat ty * 8).
  split; [lia|]. split; [lia|]. split.
  - unfold edst, blkc, pdst. fold b q. fold ty r. fold tx c. lia.
  - unfold etexel_index, etc_block_index. replace (w / 8) with (N.of_nat tw) by lia.
    set (x := N.of_nat (q mod 4) + N.of_nat (c mod 2) * 4 + N.of_nat tx * 8).
    set (y := N.of_nat (q / 4) + N.of_nat (c / 2) * 4 + N.of_nat ty * 8).
    assert (X8 : x / 8 = N.of_nat tx) by (unfold x; lia). assert (Y8 : y / 8 = N.of_nat ty) by (unfold y; lia).
    assert (X4 : (x / 4) mod 2 = N.of_nat (c mod 2)) by (unfold x; lia).
    assert (Y4 : (y / 4) mod 2 = N.of_nat (c / 2)) by (unfold y; lia).
    assert (Xm : x mod 4 = N.of_nat (q mod 4)) by (unfold x; lia).
    assert (Ym : y mod 4 = N.of_nat (q / 4)) by (unfold y; lia).
    rewrite X8, Y8, X4, Y4, Xm, Ym.
    assert (Ei : i = (b * 16 + q)%nat) by (unfold b, q; pose proof (Nat.div_mod i 16); lia).
    rewrite Ei, Eb. fold tx c. lia.
Qed.

Lemma srcE_edst w tw th i : w = 8 * N.of_nat tw -> (0 < tw)%nat -> (i < th * (tw * 4) * 16)%nat -> srcE w (edst w tw i) = i.
Proof.
  intros Hw Htw Hi. destruct (edst_shape w tw th i Hw Htw Hi) as (x & y & Hx & Hy & E & Ei).
  unfold srcE. rewrite E. destruct (div_mod_unique_N x y w Hx) as (-> & ->). exact Ei.
Qed.

Lemma edst_lt w tw th i : w = 8 * N.of_nat tw -> (0 < tw)%nat -> (i < th * (tw * 4) * 16)%nat ->
  edst w tw i < w * (8 * N.of_nat th).
Proof.
  intros Hw Htw Hi. destruct (edst_shape w tw th i Hw Htw Hi) as (x & y & Hx & Hy & E & Ei). rewrite E. nia.
Qed.

(* ---------------- the whole image ---------------- *)
Definition ecol (alpha : bool) (data : bytes) (i : nat) : color :=
  let bd := etc_block_at alpha data (N.of_nat (i / 16)) in nth (i mod 16) (decode_block (fst bd) (snd bd)) ZERO_PX.

Lemma blkc_bounds w h tw th b : w = 8 * N.of_nat tw -> h = 8 * N.of_nat th -> (0 < tw)%nat -> (b < th * (tw * 4))%nat ->
  exists ty tx by_ bx, blkc tw b = (ty, tx, by_, bx) /\
    N.of_nat tx * 8 + 8 <= w /\ N.of_nat ty * 8 + 8 <= h /\ (by_ < 2)%nat /\ (bx < 2)%nat.
Proof.
  intros Hw Hh Htw Hb. destruct (decomp_c 4 tw b th ltac:(lia) Htw Hb) as (Hty & Htx & Hc & Eb).
  unfold blkc. do 4 eexists. split; [reflexivity|].
  set (r := (b mod (tw * 4))%nat) in *. repeat split; lia.
Qed.

Lemma etc_writes_flat alpha w h data tw th : w = 8 * N.of_nat tw -> h = 8 * N.of_nat th -> (0 < tw)%nat ->
  let nb := (th * (tw * 4))%nat in
  flat_map (fun e => block_writes w h (fst (snd e)) (snd (snd e)) (fst e))
           (combine (map (blkc tw) (seq 0 nb)) (map (fun b => etc_block_at alpha data (N.of_nat b)) (seq 0 nb)))
  = map (fun i => (edst w tw i, ecol alpha data i)) (seq 0 (nb * 16)).
Proof.
  intros Hw Hh Htw nb. rewrite combine_map, flat_map_map. cbn [fst snd].
  rewrite (flat_map_ext_in _ (fun b => map (fun q => (pdst w (blkc tw b) q,
              nth q (decode_block (fst (etc_block_at alpha data (N.of_nat b))) (snd (etc_block_at alpha data (N.of_nat b)))) ZERO_PX))
              (seq 0 16))).
  2:{ intros b Hb. apply in_seq in Hb.
      destruct (blkc_bounds w h tw th b Hw Hh Htw ltac:(unfold nb in Hb; lia)) as (ty & tx & by_ & bx & E & B1 & B2 & B3 & B4).
      rewrite E. apply block_writes_full; assumption. }
  rewrite (flat_map_seq (fun b q => (pdst w (blkc tw b) q,
              nth q (decode_block (fst (etc_block_at alpha data (N.of_nat b))) (snd (etc_block_at alpha data (N.of_nat b)))) ZERO_PX)) nb 16).
  reflexivity.
Qed.

Theorem etc1_pixel_source : forall m alpha w h data X Y,
  w mod 8 = 0 -> h mod 8 = 0 -> etc_tiles w = w / 8 -> etc_tiles h = h / 8 -> w * h < 2 ^ 32 ->
  lenN data = w * h / 16 * etc_block_bytes alpha -> X < w -> Y < h ->
  exists px, etc1_decode_pixels m data w h alpha = Ok px /\ length px = N.to_nat (w * h) /\
    nth_error px (N.to_nat (Y * w + X)) =
      Some (let bd := etc_block_at alpha data (etc_block_index w X Y) in
            nth (N.to_nat (4 * (Y mod 4) + X mod 4)) (decode_block (fst bd) (snd bd)) ZERO_PX).
Proof.
  intros m alpha w h data X Y Hw Hh Tw Th Hsz Hlen HX HY.
  set (tw := N.to_nat (w / 8)). set (th := N.to_nat (h / 8)).
  assert (Ew : w = 8 * N.of_nat tw) by (unfold tw; lia).
  assert (Eh : h = 8 * N.of_nat th) by (unfold th; lia).
  assert (Htw : (0 < tw)%nat) by (unfold tw; lia).
  assert (Hth : (0 < th)%nat) by (unfold th; lia).
  set (nb := (th * (tw * 4))%nat).
  assert (Ewh : w * h = 64 * (N.of_nat tw * N.of_nat th)) by (rewrite Ew, Eh; lia).
  assert (E16 : w * h / 16 = N.of_nat nb) by (rewrite Ewh; unfold nb; lia).
  assert (Wlt : w < 2 ^ 32) by nia.
  unfold etc1_decode_pixels.
  rewrite mul_w_ok by (unfold maxw, W64; lia). cbn [bind].
  rewrite mul_w_ok by (unfold maxw, W64; nia). cbn [bind].
  unfold ALLOC_LIMIT. destruct (N.leb_spec (2 ^ 32) (w * h)) as [?|_]; [lia|].
  rewrite Tw, Th.
  assert (Eg : h / 8 * (w / 8) * 4 * (if alpha then 16 else 8) = lenN data).
  { rewrite Hlen, E16. unfold nb, etc_block_bytes. replace (w / 8) with (N.of_nat tw) by lia.
    replace (h / 8) with (N.of_nat th) by lia. lia. }
  rewrite Eg, N.leb_refl. fold tw th. rewrite etc_blocks_flat. fold nb.
  assert (Hbytes : (N.to_nat (etc_block_bytes alpha) * nb <= length data)%nat).
  { unfold lenN in Hlen. rewrite E16 in Hlen. lia. }
  rewrite (etc_loop_scatter alpha w h (w * h) (map (blkc tw) (seq 0 nb)) data _
             (map (fun b => etc_block_at alpha data (N.of_nat b)) (seq 0 nb))).
  2:{ rewrite map_length, seq_length. apply take_all_spec. exact Hbytes. }
  2:{ intros blk a p Hin. rewrite combine_map in Hin. apply in_map_iff in Hin. destruct Hin as (b & E & Hb).
      apply in_seq in Hb. assert (E1 : blk = blkc tw b) by congruence. rewrite E1. clear E E1.
      destruct (blkc_bounds w h tw th b Ew Eh Htw ltac:(fold nb; lia)) as (ty & tx & by_ & bx & Eb & B1 & B2 & B3 & B4).
      rewrite Eb, block_writes_full by assumption. apply Forall_forall. intros e He. apply in_map_iff in He.
      destruct He as (q & <- & Hq). apply in_seq in Hq. cbn [fst]. rewrite <- Eb.
      replace (pdst w (blkc tw b) q) with (edst w tw (b * 16 + q)).
      2:{ unfold edst. replace ((b * 16 + q) / 16)%nat with b by lia. replace ((b * 16 + q) mod 16)%nat with q by lia. reflexivity. }
      pose proof (edst_lt w tw th (b * 16 + q) Ew Htw ltac:(fold nb; lia)) as L. rewrite <- Eh in L. exact L. }
  pose proof (etc_writes_flat alpha w h data tw th Ew Eh Htw) as EF. cbv zeta in EF. fold nb in EF. rewrite EF. clear EF.
  eexists. split; [reflexivity|]. split; [rewrite scatter_length, repeat_length; reflexivity|].
  destruct (edst_of_pixel w tw th X Y Ew HX ltac:(lia)) as (Hi & Ed & Ediv & Emod). fold nb in Hi.
  set (i := N.to_nat (etexel_index w X Y)) in *.
  apply scatter_nth.
  - rewrite map_map. cbn [fst].
    apply (NoDup_map_inv (edst w tw) (srcE w)); [|apply seq_NoDup].
    intros j Hj. apply in_seq in Hj. apply (srcE_edst w tw th); [exact Ew|exact Htw|fold nb; lia].
  - apply in_map_iff. exists i. split; [|apply in_seq; lia].
    rewrite Ed. f_equal. unfold ecol. rewrite Ediv, Emod, N2Nat.id. reflexivity.
  - rewrite repeat_length. assert (Y * w + X < w * h) by (clear - HX HY; nia). lia.
Qed.
