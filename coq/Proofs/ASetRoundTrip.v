(* C17, part 4: archive level round trip, space formula, byte level - the statements Properties/C17.v exports. *)
From Coq Require Import List NArith ZArith Bool Lia ZifyBool ZifyNat ZifyN Arith.
From Mila Require Import Lib.Bytes Lib.BytesExtra Lib.Machine Model.BinArchive Model.BinStreams Model.BinFormat Model.ASet
  Proofs.AMapLemmas Proofs.BinAccess Proofs.BinAccess2 Proofs.RecsCells Proofs.RecsBytes Proofs.RecsBinBridge
  Proofs.ASetBits Proofs.ASetWrite Proofs.ASetRead Proofs.RecsDataSize Proofs.FindLabel.
Import ListNotations.
Local Open Scope N_scope.
Ltac Zify.zify_post_hook ::= Z.div_mod_to_equations.

(* ================================================================== (a) archive level *)
Lemma layout_same_data a a' : a_data a = a_data a' -> a_text a = a_text a' ->
  forall cs p, layout a p cs -> layout a' p cs.
Proof.
  intros Hd Ht. induction cs as [|c r IH]; intros p; cbn [layout]; [auto|]. intros [C L]. split; [|apply IH; exact L].
  destruct c as [bs|o]; cbn [cell_at] in *; unfold size in *; rewrite <- ?Hd, <- ?Ht; exact C.
Qed.

Lemma built_arch_of v : built v = arch_of (file_cells v) (file_labels v).
Proof. reflexivity. Qed.
Lemma size_built v : size (built v) = cells_size (file_cells v).
Proof. unfold size, built. cbn [a_data]. apply lenN_cells_bytes. Qed.
Lemma layout_built v : layout (built v) 0 (file_cells v).
Proof.
  apply (layout_same_data (append_cells (ba_new LE) (file_cells v))); [reflexivity | reflexivity|].
  apply (layout_append (ba_new LE)). intros k [].
Qed.

Lemma sets_labels_nodup_early sets : forall p, NoDup (am_keys (sets_labels p sets)).
Proof.
  induction sets as [|s r IH]; intros p; cbn [sets_labels]; [constructor|]. rewrite am_keys_app.
  destruct (hd None s); cbn [lbl_entry am_keys map fst app]; [|apply IH]. constructor; [|apply IH].
  intros H. apply sets_labels_keys in H. pose proof (set_space_ge s). lia.
Qed.
Lemma wf_sets_nonempty sets : Forall (fun s : oset => length s = 257%nat) sets -> Forall (fun s : oset => s <> []) sets.
Proof. apply Forall_impl. intros s H E. subst s. discriminate. Qed.

(* the table label is looked up at the LOWEST address carrying it: the table is written at 12, every set behind it, so the lookup
   finds the table also when sets carry the label AnimClipNameTable, whatever the order of the label map *)
Lemma file_labels_nodup v : NoDup (am_keys (file_labels v)).
Proof.
  unfold file_labels. cbn [am_keys map fst]. constructor; [|apply sets_labels_nodup_early].
  intros H. apply sets_labels_keys in H. unfold SETS_AT in H. lia.
Qed.
Lemma find_table_built v : find_label_address (built v) ACNT = Some 12.
Proof.
  apply find_label_address_spec. split.
  - apply label_hits_in. exists [ACNT]. split; [left; reflexivity | left; reflexivity].
  - intros y Hy. apply label_hits_in in Hy. destruct Hy as (b & Hin & _). cbn [built a_labels] in Hin. unfold file_labels in Hin.
    destruct Hin as [Hin|Hin]; [inversion Hin; lia|].
    assert (Hk : In y (am_keys (sets_labels SETS_AT (as_sets v)))) by (apply in_map_iff; exists (y, b); auto).
    apply sets_labels_keys in Hk. unfold SETS_AT in Hk. lia.
Qed.

Theorem from_archive_built v : wf_aset v -> from_archive (built v) = Ok v.
Proof.
  intros W. apply from_archive_layout; [exact W | reflexivity | apply layout_built | apply size_built | |].
  - apply find_table_built.
  - intros x Hx. unfold built, file_labels. cbn [a_labels am_get]. destruct (N.eqb_spec x 12) as [E|E]; [unfold SETS_AT in Hx; lia | reflexivity].
Qed.

(* values outside the domain (sets shorter or longer than 257 entries): the writer treats missing slots as absent and ignores
   extra ones (`set.get(index)`), so the value read back is the NORMALISED value *)
Theorem from_archive_built_gen v : length (as_table v) = 257%nat -> from_archive (built v) = Ok (norm_aset v).
Proof.
  intros Ht. apply from_archive_layout_gen; [exact Ht | reflexivity | apply layout_built | apply size_built | |].
  - apply find_table_built.
  - intros x Hx. unfold built, file_labels. cbn [a_labels am_get]. destruct (N.eqb_spec x 12) as [E|E]; [unfold SETS_AT in Hx; lia | reflexivity].
Qed.
Theorem round_trip_normalises v :
  length (as_table v) = 257%nat -> Forall (fun s : oset => s <> []) (as_sets v) ->
  exists a, build v = Ok a /\ from_archive a = Ok (norm_aset v) /\ wf_aset (norm_aset v).
Proof.
  intros Ht Hs. exists (built v). split; [apply build_spec; assumption|]. split; [apply from_archive_built_gen; exact Ht|].
  split; [exact Ht|]. cbn [norm_aset as_sets]. apply Forall_forall. intros s Hin. apply in_map_iff in Hin.
  destruct Hin as (s0 & <- & _). apply norm_set_length.
Qed.

Theorem round_trip_archive v : wf_aset v -> exists a, build v = Ok a /\ from_archive a = Ok v /\ a = built v.
Proof.
  intros W. exists (built v). split; [|split; [apply from_archive_built; exact W | reflexivity]].
  destruct W as [Ht Hs]. apply build_spec; [exact Ht | apply wf_sets_nonempty; exact Hs].
Qed.

Theorem reserialize_identical_archive v a v' :
  wf_aset v -> build v = Ok a -> from_archive a = Ok v' -> v' = v /\ build v' = Ok a.
Proof.
  intros W B R. destruct (round_trip_archive v W) as (a0 & B0 & R0 & _). rewrite B in B0. inversion B0; subst a0.
  rewrite R in R0. inversion R0; subst v'. split; [reflexivity | exact B].
Qed.

(* ================================================================== (b) space *)
Fixpoint sets_space (sets : list oset) : N := match sets with [] => 0 | s :: r => set_space s + sets_space r end.
Lemma sets_cells_size sets : cells_size (sets_cells sets) = sets_space sets.
Proof. induction sets as [|s r IH]; cbn [sets_cells sets_space cells_size]; [reflexivity|]. rewrite cells_size_app, set_cells_size, IH. reflexivity. Qed.

(* the data region of the written file: 12 header bytes, 257 table cells, and per set one main-flags word,
   one flags word per NON-EMPTY group and one cell per PRESENT slot *)
Theorem space_file v : wf_aset v ->
  exists a, build v = Ok a /\ size a = 12 + 4 * 257 + sets_space (as_sets v).
Proof.
  intros W. destruct (round_trip_archive v W) as (a & B & _ & E). exists a. split; [exact B|]. subst a.
  rewrite size_built. unfold file_cells. rewrite !cells_size_app, cells_size_strs, (proj1 W), sets_cells_size.
  change (cells_size (header_cells v)) with 12. lia.
Qed.

(* ... and this is the data-size field (offset 4) of the file image *)
Theorem space_file_bytes m v f : wf_aset v -> 12 + 4 * 257 + sets_space (as_sets v) < 2 ^ 32 ->
  serialize m v = Ok f -> u32_at LE f 4 = Some (12 + 4 * 257 + sets_space (as_sets v)).
Proof.
  intros W Hs S. destruct (space_file v W) as (a & B & Sz). unfold serialize in S. rewrite B in S. cbn [bind] in S.
  destruct (round_trip_archive v W) as (a0 & B0 & _ & E). rewrite B in B0.
  assert (Ea : a = built v) by congruence.
  rewrite <- Sz. change LE with (a_endian (built v)). rewrite <- Ea. apply (serialize_data_size m a f); [rewrite Ea; reflexivity | lia | exact S].
Qed.

(* one set record *)
Theorem space_set lbl rest A :
  keys_below (a_text A) (size A) -> keys_below (a_labels A) (size A) -> a_endian A = LE ->
  let s := lbl :: rest in
  exists A', write_set s A (size A) = (Ok tt, A', size A + set_space s) /\ size A' = size A + set_space s /\
             (flags_to_write (compiled_flags s) + strings_to_write s + 1) * 4 = set_space s.
Proof.
  intros Hk Hl He s. eexists. split; [|split].
  - rewrite <- set_cells_size. apply (write_set_spec lbl rest A Hk Hl He).
  - rewrite <- set_cells_size. apply size_append_cells.
  - apply set_alloc_size.
Qed.

(* a set without any present slot costs exactly its main-flags word *)
Lemma group_nonempty_present s g : (g < 8)%nat -> group_nonempty s g = true -> exists i, In i (seq 1 256) /\ slot_present s i = true.
Proof.
  intros Hg X. unfold group_nonempty in X. apply existsb_exists in X. destruct X as (i & Hi & P). exists i. split; [|exact P].
  rewrite <- all_slots. apply in_flat_map. exists g. split; [apply in_seq; unfold GROUPS; lia | exact Hi].
Qed.
Lemma space_aux a b : a = 0 -> b = 0 -> 4 * (1 + a + b) = 4.
Proof. intros -> ->. reflexivity. Qed.
(* unfolding by REWRITING: conversion between [present_slots s] and its body can make the kernel normalise
   a 256-fold nested conditional *)
Lemma present_slots_eq s : present_slots s = cnt (slot_present s) (seq 1 256).
Proof. unfold present_slots. reflexivity. Qed.
Lemma nonempty_groups_eq s : nonempty_groups s = cnt (group_nonempty s) (seq 0 GROUPS).
Proof. unfold nonempty_groups. reflexivity. Qed.
Lemma set_space_eq s : set_space s = 4 * (1 + nonempty_groups s + present_slots s).
Proof. unfold set_space. reflexivity. Qed.
Theorem space_empty_set s : present_slots s = 0 -> set_space s = 4.
Proof.
  intros H0. pose proof H0 as H. rewrite present_slots_eq in H. apply (proj1 (cnt_zero_iff (slot_present s) (seq 1 256))) in H.
  assert (G : nonempty_groups s = 0).
  { rewrite nonempty_groups_eq. apply (proj2 (cnt_zero_iff (group_nonempty s) (seq 0 GROUPS))). apply Bool.not_true_is_false. intros X.
    apply existsb_exists in X. destruct X as (g & Hg & P). apply in_seq in Hg. unfold GROUPS in Hg.
    destruct (group_nonempty_present s g ltac:(lia) P) as (i & Hi & Q).
    assert (T : existsb (slot_present s) (seq 1 256) = true) by (apply existsb_exists; exists i; auto).
    rewrite H in T. discriminate T. }
  rewrite set_space_eq. exact (space_aux _ _ G H0).
Qed.
(* the cells of an entirely absent group: none (neither a flags word nor strings) *)
Theorem absent_group_omitted s g : group_nonempty s g = false -> group_cells s g = [].
Proof. exact (group_cells_false s g). Qed.
Theorem present_group_cells s g : group_nonempty s g = true ->
  cells_size (group_cells s g) = 4 + 4 * cnt (slot_present s) (group_slots g).
Proof. intros X. rewrite group_cells_size, X. lia. Qed.

(* ================================================================== (d) byte level *)
Definition opt_ok (o : option bytes) : Prop := forall s, o = Some s -> str_ok s.
Definition strings_ok (v : aset) : Prop :=
  opt_ok (as_meta v) /\ Forall opt_ok (as_table v) /\ Forall (Forall opt_ok) (as_sets v).
(* (before fix 10408e9 of /repo the table label was reserved: find_label_address returned the first hit in HASH order, and a
   set carrying the label AnimClipNameTable made the file unreadable in about half of the runs - finding F22.  The repaired
   code returns the lowest address; no condition on the labels is left.) *)
(* "sizes fit": the file image (computed without sharing equal strings; 32 header bytes + the 3 spare bytes of C01's bound) *)
Definition aset_fits (v : aset) : Prop :=
  cells_size (file_cells v) + cells_weight (file_cells v) + labels_weight (file_labels v) + 35 < 2 ^ 32.
Definition wf_aset_bytes (v : aset) : Prop := wf_aset v /\ strings_ok v /\ aset_fits v.

Lemma enc_cell_ok x : cell_ok (CRaw (enc LE 4 x)).
Proof. cbn [cell_ok]. split; [apply wfb_enc | reflexivity]. Qed.
Lemma slot_in s i x : slot s i = Some x -> In (Some x) s.
Proof.
  unfold slot. destruct (nth_error s i) as [[y|]|] eqn:E; try discriminate. intros H. inversion H; subst.
  eapply nth_error_In; eauto.
Qed.
Lemma slots_cells_ok s l : Forall opt_ok s -> Forall cell_ok (slots_cells s l).
Proof.
  intros Hs. unfold slots_cells. induction l as [|i r IH]; cbn [flat_map]; [constructor|]. apply Forall_app. split; [|exact IH].
  unfold slot_cell. destruct (slot s i) as [x|] eqn:E; [|constructor]. constructor; [|constructor]. cbn [cell_ok].
  rewrite Forall_forall in Hs. exact (Hs _ (slot_in s i x E) x eq_refl).
Qed.
Lemma set_cells_ok s : Forall opt_ok s -> Forall cell_ok (set_cells s).
Proof.
  intros Hs. unfold set_cells. constructor; [apply enc_cell_ok|].
  induction (seq 0 GROUPS) as [|g r IH]; cbn [flat_map]; [constructor|]. apply Forall_app. split; [|exact IH].
  unfold group_cells. destruct (group_nonempty s g); [|constructor]. constructor; [apply enc_cell_ok | apply slots_cells_ok; exact Hs].
Qed.
Lemma file_cells_ok v : strings_ok v -> Forall cell_ok (file_cells v).
Proof.
  intros (Hm & Ht & Hs). unfold file_cells, header_cells. apply Forall_app. split; [|apply Forall_app; split].
  - constructor; [apply enc_cell_ok|]. constructor; [|constructor; [apply enc_cell_ok | constructor]].
    cbn [cell_ok]. destruct (as_meta v) as [x|] eqn:E; [exact (Hm x eq_refl) | exact I].
  - induction Ht as [|o r Ho Hr IH]; cbn [map]; constructor; [|exact IH]. cbn [cell_ok]. destruct o as [x|]; [exact (Ho x eq_refl) | exact I].
  - induction Hs as [|s r H1 Hr IH]; cbn [sets_cells]; [constructor|]. apply Forall_app. split; [apply set_cells_ok; exact H1 | exact IH].
Qed.

Lemma set_space_mod4 s : set_space s mod 4 = 0.
Proof. unfold set_space. lia. Qed.
Lemma sets_labels_in sets : forall p k b, In (k, b) (sets_labels p sets) ->
  exists s l, In s sets /\ hd None s = Some l /\ b = [l].
Proof.
  induction sets as [|s r IH]; intros p k b; cbn [sets_labels]; [intros []|]. rewrite in_app_iff. intros [H|H].
  - destruct (hd None s) as [l|] eqn:E; cbn [lbl_entry In] in H; [|destruct H]. destruct H as [H|[]]. inversion H; subst.
    exists s, l. split; [left; reflexivity | auto].
  - destruct (IH _ _ _ H) as (s' & l & Hin & E & Eb). exists s', l. split; [right; exact Hin | auto].
Qed.
Lemma sets_labels_nodup sets : forall p, NoDup (am_keys (sets_labels p sets)).
Proof.
  induction sets as [|s r IH]; intros p; cbn [sets_labels]; [constructor|]. rewrite am_keys_app.
  destruct (hd None s); cbn [lbl_entry am_keys map fst app]; [|apply IH]. constructor; [|apply IH].
  intros H. apply sets_labels_keys in H. pose proof (set_space_ge s). lia.
Qed.
Lemma sets_labels_aligned sets : forall p k, p mod 4 = 0 -> In k (am_keys (sets_labels p sets)) -> k mod 4 = 0.
Proof.
  induction sets as [|s r IH]; intros p k Hp; cbn [sets_labels]; [intros []|]. rewrite am_keys_app, in_app_iff. intros [H|H].
  - destruct (hd None s); cbn [lbl_entry am_keys map fst In] in H; [|destruct H]. destruct H as [H|[]]. subst. exact Hp.
  - apply (IH (p + set_space s)); [|exact H]. pose proof (set_space_mod4 s). lia.
Qed.

Lemma acnt_ok : str_ok ACNT.
Proof.
  split.
  - unfold ACNT. cbn [In]. intros H. repeat (destruct H as [H|H]; [discriminate|]). exact H.
  - apply wfbb_spec. reflexivity.
Qed.

Theorem built_wf v : wf_aset_bytes v -> ba_wf (built v).
Proof.
  intros (W & Hs & Hf). rewrite built_arch_of. apply arch_of_wf.
  - apply file_cells_ok. exact Hs.
  - apply file_labels_nodup.
  - intros k b Hin. unfold file_labels in Hin. destruct Hin as [Hin|Hin].
    + inversion Hin; subst. split; [reflexivity|]. split.
      * unfold file_cells. rewrite cells_size_app. change (cells_size (header_cells v)) with 12. lia.
      * split; [discriminate|]. constructor; [apply acnt_ok | constructor].
    + assert (Hk : In k (am_keys (sets_labels SETS_AT (as_sets v)))) by (apply in_map_iff; exists (k, b); auto).
      split; [apply (sets_labels_aligned (as_sets v) SETS_AT k eq_refl Hk)|]. split.
      * apply sets_labels_keys in Hk. unfold file_cells. rewrite !cells_size_app, cells_size_strs, (proj1 W).
        change (cells_size (header_cells v)) with 12. unfold SETS_AT in Hk. lia.
      * destruct (sets_labels_in _ _ _ _ Hin) as (s & l & Hsin & E & Eb). subst b. split; [discriminate|].
        constructor; [|constructor]. destruct Hs as (_ & _ & Hsets). rewrite Forall_forall in Hsets.
        specialize (Hsets s Hsin). destruct s as [|x r]; [discriminate|]. cbn [hd] in E. subst x.
        inversion Hsets as [|? ? Hx _]; subst. exact (Hx l eq_refl).
  - unfold aset_fits in Hf. lia.
Qed.
Theorem built_bound v : wf_aset_bytes v -> image_bound (built v) + 3 < 2 ^ 32.
Proof.
  intros (_ & _ & Hf). unfold image_bound. rewrite size_built. cbn [built a_text a_labels].
  rewrite text_weight_cells. unfold aset_fits in Hf. lia.
Qed.

(* the reader returns v on every archive observationally equal to the built one, whatever the order of its label map
   and whatever labels the sets carry *)
Theorem from_archive_obs_equal v a' :
  wf_aset v -> obs_equal (built v) a' -> from_archive a' = Ok v.
Proof.
  intros W OE. rewrite built_arch_of in OE. destruct (layout_obs_equal _ _ _ OE) as (L & S & E).
  destruct OE as (_ & _ & _ & _ & _ & Hl & ND). cbn [arch_of a_labels] in Hl.
  apply from_archive_layout; try assumption.
  - rewrite <- (find_table_built v). apply find_label_address_same_map; [apply file_labels_nodup | exact ND | exact Hl].
  - intros x Hx. rewrite Hl. unfold file_labels. cbn [am_get].
    destruct (N.eqb_spec x 12) as [E12|E12]; [unfold SETS_AT in Hx; lia | reflexivity].
Qed.

Section Bytes.
Variable m : mode.
Hypothesis bytes_round_trip : forall a, ba_wf a -> image_bound a + 3 < 2 ^ 32 ->
  exists f a', BinFormat.serialize m a = Ok f /\ BinFormat.from_bytes LE f = Ok a' /\ obs_equal a a'.

Theorem round_trip_bytes v :
  wf_aset_bytes v ->
  exists f, serialize m v = Ok f /\ parse f = Ok v /\ (forall v', parse f = Ok v' -> serialize m v' = Ok f).
Proof.
  intros W. destruct (bytes_round_trip _ (built_wf v W) (built_bound v W)) as (f & a' & S & P & OE).
  destruct W as (W & Hs & Hf).
  assert (B : build v = Ok (built v)) by (destruct W as [Ht Hsets]; apply build_spec; [exact Ht | apply wf_sets_nonempty; exact Hsets]).
  assert (Ser : serialize m v = Ok f) by (unfold serialize; rewrite B; exact S).
  assert (Par : parse f = Ok v) by (unfold parse; rewrite P; cbn [bind]; apply from_archive_obs_equal; assumption).
  exists f. split; [exact Ser|]. split; [exact Par|]. intros v' Hv'. rewrite Par in Hv'. inversion Hv'; subst. exact Ser.
Qed.
End Bytes.

(* the premise is the bin-archive round trip C01 (Proofs/RecsBinBridge.v): no premise left *)
Theorem round_trip_bytes_final m v :
  wf_aset_bytes v ->
  exists f, serialize m v = Ok f /\ parse f = Ok v /\ (forall v', parse f = Ok v' -> serialize m v' = Ok f).
Proof. apply round_trip_bytes. intros a W B. apply recs_bin_round_trip; assumption. Qed.

(* serialization is injective on the domain: two values with the same image are equal *)
Theorem serialize_injective m v1 v2 f :
  wf_aset_bytes v1 -> wf_aset_bytes v2 -> serialize m v1 = Ok f -> serialize m v2 = Ok f -> v1 = v2.
Proof.
  intros W1 W2 S1 S2.
  destruct (round_trip_bytes_final m v1 W1) as (f1 & E1 & P1 & _). destruct (round_trip_bytes_final m v2 W2) as (f2 & E2 & P2 & _).
  rewrite S1 in E1. rewrite S2 in E2. inversion E1; inversion E2; subst f1 f2. rewrite P1 in P2. inversion P2. reflexivity.
Qed.

(* ================================================================== boolean checkers for the well-formedness predicates *)
Definition str_okb (s : bytes) : bool := andb (negb (existsb (N.eqb 0) s)) (wfbb s).
Lemma str_okb_sound s : str_okb s = true -> str_ok s.
Proof.
  unfold str_okb, str_ok. rewrite andb_true_iff, negb_true_iff. intros [H1 H2]. split; [|apply wfbb_spec; exact H2].
  intros Hin. assert (existsb (N.eqb 0) s = true); [|congruence]. apply existsb_exists. exists 0. split; [exact Hin | reflexivity].
Qed.
Definition opt_okb (o : option bytes) : bool := match o with Some s => str_okb s | None => true end.
Lemma opt_okb_sound o : opt_okb o = true -> opt_ok o.
Proof. intros H s E. subst o. apply str_okb_sound. exact H. Qed.
Definition wf_asetb (v : aset) : bool :=
  andb (length (as_table v) =? 257)%nat (forallb (fun s : oset => (length s =? 257)%nat) (as_sets v)).
Lemma wf_asetb_sound v : wf_asetb v = true -> wf_aset v.
Proof.
  unfold wf_asetb, wf_aset. rewrite andb_true_iff, Nat.eqb_eq, forallb_forall. intros [H1 H2]. split; [exact H1|].
  apply Forall_forall. intros s Hs. apply Nat.eqb_eq. apply H2. exact Hs.
Qed.
Definition opt_eqb (o : option bytes) (t : bytes) : bool := match o with Some s => bytes_eqb s t | None => false end.
Definition wf_aset_bytesb (v : aset) : bool :=
  andb (andb (wf_asetb v)
    (andb (opt_okb (as_meta v)) (andb (forallb opt_okb (as_table v)) (forallb (forallb opt_okb) (as_sets v)))))
    (cells_size (file_cells v) + cells_weight (file_cells v) + labels_weight (file_labels v) + 35 <? 2 ^ 32).
Lemma wf_aset_bytesb_sound v : wf_aset_bytesb v = true -> wf_aset_bytes v.
Proof.
  unfold wf_aset_bytesb. rewrite !andb_true_iff, !forallb_forall. intros [[H1 (H2 & H3 & H4)] H6].
  split; [apply wf_asetb_sound; exact H1|]. split.
  - split; [apply opt_okb_sound; exact H2|]. split.
    + apply Forall_forall. intros o Ho. apply opt_okb_sound, H3, Ho.
    + apply Forall_forall. intros s Hs. specialize (H4 s Hs). rewrite forallb_forall in H4.
      apply Forall_forall. intros o Ho. apply opt_okb_sound, H4, Ho.
  - unfold aset_fits. lia.
Qed.
