(* C01, serialize half - part 2: what each phase of BinArchive::serialize produces
   (cstr_pool, poke_all, emit_labels, emit_text, the grouped string cells). *)
From Coq Require Import List NArith ZArith Arith Bool Lia Permutation ZifyBool ZifyNat ZifyN.
From Mila Require Import Lib.Bytes Lib.BytesExtra Lib.Machine Model.BinArchive Model.BinFormat
  Proofs.AMapLemmas Proofs.SortLemmas Proofs.BinFormatSpec Proofs.BinSerializeConformsBase.
Import ListNotations.
Local Open Scope N_scope.
Ltac Zify.zify_post_hook ::= Z.div_mod_to_equations.

(* ------------------------------------------------------------------ cells *)
(* distinct cells inside [0, n), pairwise at least 4 apart *)
Definition cells_ok (n : N) (cs : list N) : Prop :=
  NoDup cs /\ (forall c, In c cs -> c + 4 <= n) /\ (forall c c', In c cs -> In c' cs -> c <> c' -> sep c c').

Lemma cells_ok_perm n cs cs' : Permutation cs cs' -> cells_ok n cs -> cells_ok n cs'.
Proof.
  intros P (H1 & H2 & H3). split; [eapply Permutation_NoDup; eauto|]. split.
  - intros c Hc. apply H2. eapply Permutation_in; [apply Permutation_sym, P | exact Hc].
  - intros c c' Hc Hc'. apply H3; (eapply Permutation_in; [apply Permutation_sym, P | assumption]).
Qed.
Lemma cells_ok_cons n c cs : cells_ok n (c :: cs) ->
  c + 4 <= n /\ ~ In c cs /\ (forall c2, In c2 cs -> sep c2 c) /\ cells_ok n cs.
Proof.
  intros (H1 & H2 & H3). inversion H1 as [|? ? Hn Hd]; subst. split; [apply H2; left; reflexivity|]. split; [exact Hn|]. split.
  - intros c2 Hc2. apply H3; [right; exact Hc2 | left; reflexivity | intros E; subst; contradiction].
  - split; [exact Hd|]. split; [intros x Hx; apply H2; right; exact Hx | intros x y Hx Hy; apply H3; right; assumption].
Qed.
Lemma cells_ok_incl n cs cs' : NoDup cs' -> incl cs' cs -> cells_ok n cs -> cells_ok n cs'.
Proof. intros Hd Hi (H1 & H2 & H3). split; [exact Hd|]. split; [intros c Hc; apply H2, Hi, Hc | intros c c' Hc Hc'; apply H3; apply Hi; assumption]. Qed.
Lemma cells_ok_len n n' cs : n = n' -> cells_ok n cs -> cells_ok n' cs.
Proof. intros ->. auto. Qed.

(* i lies in none of the 4-byte cells *)
Definition outside (cs : list N) (i : nat) : Prop := forall c, In c cs -> (i < N.to_nat c \/ N.to_nat c + 4 <= i)%nat.

(* ------------------------------------------------------------------ poke_all *)
Lemma poke_all_spec e ps : forall d, cells_ok (lenN d) (map fst ps) ->
  exists d1, poke_all e d ps = Ok d1 /\ lenN d1 = lenN d /\
    (forall c v, In (c, v) ps -> u32_at e d1 c = Some (trunc_w 32 v)) /\
    (forall c', (forall c, In c (map fst ps) -> sep c c') -> u32_at e d1 c' = u32_at e d c') /\
    (forall i, outside (map fst ps) i -> nth_error d1 i = nth_error d i) /\
    (wfb d -> wfb d1).
Proof.
  induction ps as [|[c v] r IH]; intros d Hok; cbn [poke_all map fst].
  - exists d. repeat split; auto. intros c v [].
  - cbn [map fst] in Hok. destruct (cells_ok_cons _ _ _ Hok) as (Hin & Hnot & Hsep & Hok').
    destruct (poke_spec e d c v Hin) as (d' & -> & L' & Hu & Hfar & Hnth & HW). cbn [bind].
    destruct (IH d' (cells_ok_len _ _ _ (eq_sym L') Hok')) as (d1 & E1 & L1 & Hu1 & Hfar1 & Hnth1 & HW1).
    exists d1. split; [exact E1|]. split; [congruence|]. split; [|split; [|split]].
    + intros c0 v0 [E|Hin0]; [inversion E; subst; rewrite Hfar1; [exact Hu | exact Hsep] | apply Hu1, Hin0].
    + intros c' Hc'. rewrite Hfar1 by (intros c2 H2; apply Hc'; right; exact H2). apply Hfar, Hc'. left; reflexivity.
    + intros i Hi. rewrite Hnth1 by (intros c2 H2; apply Hi; right; exact H2). apply Hnth, Hi. left; reflexivity.
    + auto.
Qed.

(* ------------------------------------------------------------------ c-string pool *)
(* per key, in order: one pointer per cell to base + (an offset at which the key stands in raw) *)
Inductive cs_out (base : N) (raw : bytes) : list (bytes * list N) -> list (N * N) -> Prop :=
| cs_out_nil : cs_out base raw [] []
| cs_out_cons s cells r off out :
    holds raw off s -> cs_out base raw r out ->
    cs_out base raw ((s, cells) :: r) (map (fun c => (c, base + off)) cells ++ out).

Lemma cs_out_ext base raw ext cs out : cs_out base raw cs out -> cs_out base (raw ++ ext) cs out.
Proof. induction 1; constructor; [apply holds_app|]; assumption. Qed.
Lemma cs_out_cells base raw cs out : cs_out base raw cs out -> map fst out = concat (map snd cs).
Proof.
  induction 1 as [|s cells r off out Hh Ho IH]; [reflexivity|]. cbn [map snd concat]. rewrite map_app, IH, map_map. cbn [fst].
  rewrite map_id. reflexivity.
Qed.
Lemma cs_out_fwd base raw cs out : cs_out base raw cs out -> forall c dest, In (c, dest) out ->
  exists s cells off, In (s, cells) cs /\ In c cells /\ dest = base + off /\ holds raw off s.
Proof.
  induction 1 as [|s cells r off out Hh Ho IH]; intros c dest Hin; [destruct Hin|].
  apply in_app_or in Hin. destruct Hin as [Hin|Hin].
  - apply in_map_iff in Hin. destruct Hin as (c0 & E & Hc0). inversion E; subst. exists s, cells, off. repeat split; auto. left; reflexivity.
  - destruct (IH c dest Hin) as (s' & cells' & off' & H1 & H2 & H3 & H4). exists s', cells', off'. repeat split; auto. right; exact H1.
Qed.
Lemma cs_out_bwd base raw cs out : cs_out base raw cs out -> forall s cells c, In (s, cells) cs -> In c cells ->
  exists off, In (c, base + off) out /\ holds raw off s.
Proof.
  induction 1 as [|s0 cells0 r off out Hh Ho IH]; intros s cells c Hin Hc; [destruct Hin|].
  destruct Hin as [E|Hin].
  - inversion E; subst. exists off. split; [|exact Hh]. apply in_or_app. left. apply in_map_iff. exists c. auto.
  - destruct (IH s cells c Hin Hc) as (off' & H1 & H2). exists off'. split; [apply in_or_app; right; exact H1 | exact H2].
Qed.

Lemma cstr_pool_spec base cs : forall p acc p' acc',
  pool_ok p -> cstr_pool base cs p acc = (p', acc') ->
  pool_ok p' /\ pext p p' /\ (exists out, acc' = acc ++ out /\ cs_out base (p_raw p') cs out) /\
  p_len p' <= p_len p + sumf (fun sc => lenN (fst sc) + 1) cs /\
  (wfb (p_raw p) -> Forall (fun sc => wfb (fst sc)) cs -> wfb (p_raw p')).
Proof.
  induction cs as [|[s cells] r IH]; intros p acc p' acc' Hok; cbn [cstr_pool].
  - intros E; inversion E; subst. split; [exact Hok|]. split; [apply pext_refl|]. split; [exists []; split; [rewrite app_nil_r; reflexivity | constructor]|].
    split; [cbn; lia | auto].
  - destruct (add_text p s) as [p1 off] eqn:Ea. intros E.
    destruct (add_text_spec _ _ _ _ Hok Ea) as (Hok1 & Hx1 & Hh1 & Hl1 & Hw1).
    destruct (IH _ _ _ _ Hok1 E) as (Hok' & Hx' & (out & Eo & Hout) & Hl' & Hw').
    split; [exact Hok'|]. split; [eapply pext_trans; eauto|]. split; [|split].
    + exists (map (fun c => (c, base + off)) cells ++ out). split; [rewrite Eo, <- app_assoc; reflexivity|].
      constructor; [eapply holds_pext; eauto | exact Hout].
    + rewrite sumf_cons. cbn [fst]. lia.
    + intros W HF. inversion HF; subst. apply Hw'; [apply Hw1; assumption | assumption].
Qed.

(* ------------------------------------------------------------------ label table *)
Definition lab_ok (raw : bytes) (entry : N * N) (named : N * bytes) : Prop :=
  fst named = fst entry /\ holds raw (snd entry) (snd named).
Definition label_names (ls : list (N * list bytes)) : list (N * bytes) :=
  concat (map (fun kb => map (fun l => (fst kb, l)) (snd kb)) ls).

Lemma lab_ok_pext p p' ltab names : pext p p' -> Forall2 (lab_ok (p_raw p)) ltab names -> Forall2 (lab_ok (p_raw p')) ltab names.
Proof. intros Hx. induction 1 as [|x y l l' [H1 H2] HF IH]; constructor; [split; [exact H1 | eapply holds_pext; eauto] | exact IH]. Qed.
Lemma flat_app l l' : flat (l ++ l') = flat l ++ flat l'.
Proof. unfold flat. rewrite map_app, concat_app. reflexivity. Qed.
Lemma length_flat l : length (flat l) = (2 * length l)%nat.
Proof. unfold flat. induction l as [|x r IH]; cbn [map concat length app]; [reflexivity | rewrite IH; lia]. Qed.

Lemma emit_bucket_spec addr bucket : forall p acc p' acc',
  pool_ok p -> emit_bucket addr bucket p acc = (p', acc') ->
  pool_ok p' /\ pext p p' /\
  (exists ltab, acc' = acc ++ flat ltab /\ Forall2 (lab_ok (p_raw p')) ltab (map (fun l => (addr, l)) bucket)) /\
  p_len p' <= p_len p + sumf (fun l => lenN l + 1) bucket /\
  (wfb (p_raw p) -> Forall wfb bucket -> wfb (p_raw p')).
Proof.
  induction bucket as [|l r IH]; intros p acc p' acc' Hok; cbn [emit_bucket].
  - intros E; inversion E; subst. split; [exact Hok|]. split; [apply pext_refl|].
    split; [exists []; split; [rewrite app_nil_r; reflexivity | constructor]|]. split; [cbn; lia | auto].
  - destruct (add_text p l) as [p1 off] eqn:Ea. intros E.
    destruct (add_text_spec _ _ _ _ Hok Ea) as (Hok1 & Hx1 & Hh1 & Hl1 & Hw1).
    destruct (IH _ _ _ _ Hok1 E) as (Hok' & Hx' & (ltab & Eo & HF) & Hl' & Hw').
    split; [exact Hok'|]. split; [eapply pext_trans; eauto|]. split; [|split].
    + exists ((addr, off) :: ltab). split; [rewrite Eo, <- app_assoc; reflexivity|]. cbn [map].
      constructor; [split; [reflexivity | eapply holds_pext; eauto] | exact HF].
    + rewrite sumf_cons. lia.
    + intros W HFw. inversion HFw; subst. apply Hw'; [apply Hw1; assumption | assumption].
Qed.

Lemma emit_labels_spec ls : forall p acc p' acc',
  pool_ok p -> emit_labels ls p acc = (p', acc') ->
  pool_ok p' /\ pext p p' /\
  (exists ltab, acc' = acc ++ flat ltab /\ Forall2 (lab_ok (p_raw p')) ltab (label_names ls)) /\
  p_len p' <= p_len p + sumf (fun kb => sumf (fun l => lenN l + 1) (snd kb)) ls /\
  (wfb (p_raw p) -> Forall (fun kb => Forall wfb (snd kb)) ls -> wfb (p_raw p')).
Proof.
  induction ls as [|[addr bucket] r IH]; intros p acc p' acc' Hok; cbn [emit_labels].
  - intros E; inversion E; subst. split; [exact Hok|]. split; [apply pext_refl|].
    split; [exists []; split; [rewrite app_nil_r; reflexivity | constructor]|]. split; [cbn; lia | auto].
  - destruct (emit_bucket addr bucket p acc) as [p1 acc1] eqn:Eb. intros E.
    destruct (emit_bucket_spec _ _ _ _ _ _ Hok Eb) as (Hok1 & Hx1 & (lt1 & Eo1 & HF1) & Hl1 & Hw1).
    destruct (IH _ _ _ _ Hok1 E) as (Hok' & Hx' & (lt2 & Eo2 & HF2) & Hl' & Hw').
    split; [exact Hok'|]. split; [eapply pext_trans; eauto|]. split; [|split].
    + exists (lt1 ++ lt2). split; [rewrite Eo2, Eo1, flat_app, <- app_assoc; reflexivity|].
      unfold label_names. cbn [map concat fst snd]. apply Forall2_app; [eapply lab_ok_pext; eauto | exact HF2].
    + rewrite sumf_cons. cbn [snd]. lia.
    + intros W HFw. inversion HFw; subst. apply Hw'; [apply Hw1; assumption | assumption].
Qed.

(* ------------------------------------------------------------------ strings *)
Lemma group_add_perm off c g : Permutation (concat (map snd (group_add off c g))) (concat (map snd g) ++ [c]).
Proof.
  induction g as [|[o cells] r IH]; cbn [group_add map snd concat app]; [reflexivity|].
  destruct (off =? o); cbn [map snd concat].
  - rewrite <- !app_assoc. apply Permutation_app_head. apply Permutation_app_comm.
  - rewrite <- app_assoc. apply Permutation_app_head. exact IH.
Qed.

Lemma emit_text_spec e tstart ts : forall d p g,
  pool_ok p -> cells_ok (lenN d) (map fst ts) ->
  exists d' p' g', emit_text e tstart ts d p g = Ok (d', p', g') /\
    pool_ok p' /\ pext p p' /\ lenN d' = lenN d /\
    (forall c s, In (c, s) ts -> exists off, u32_at e d' c = Some (trunc_w 32 (tstart + off)) /\ holds (p_raw p') off s) /\
    (forall c', (forall c, In c (map fst ts) -> sep c c') -> u32_at e d' c' = u32_at e d c') /\
    (forall i, outside (map fst ts) i -> nth_error d' i = nth_error d i) /\
    (wfb d -> wfb d') /\
    (wfb (p_raw p) -> Forall (fun cs => wfb (snd cs)) ts -> wfb (p_raw p')) /\
    Permutation (concat (map snd g')) (concat (map snd g) ++ map fst ts) /\
    p_len p' <= p_len p + sumf (fun cs => lenN (snd cs) + 1) ts.
Proof.
  induction ts as [|[c s] r IH]; intros d p g Hok Hcells; cbn [emit_text map fst].
  - exists d, p, g. split; [reflexivity|]. split; [exact Hok|]. split; [apply pext_refl|]. split; [reflexivity|].
    split; [intros c s []|]. repeat split; auto. + rewrite app_nil_r. reflexivity. + cbn. lia.
  - cbn [map fst] in Hcells. destruct (cells_ok_cons _ _ _ Hcells) as (Hin & Hnot & Hsep & Hcells').
    destruct (add_text p s) as [p1 off] eqn:Ea.
    destruct (add_text_spec _ _ _ _ Hok Ea) as (Hok1 & Hx1 & Hh1 & Hl1 & Hw1).
    destruct (poke_spec e d c (tstart + off) Hin) as (d1 & -> & L1 & Hu & Hfar & Hnth & HW). cbn [bind].
    destruct (IH d1 p1 (group_add off c g) Hok1 (cells_ok_len _ _ _ (eq_sym L1) Hcells'))
      as (d' & p' & g' & E & Hok' & Hx' & L' & Hstr & Hfar' & Hnth' & HW' & Hwp' & Hperm & Hl').
    exists d', p', g'. split; [exact E|]. split; [exact Hok'|]. split; [eapply pext_trans; eauto|]. split; [congruence|].
    split; [|split; [|split; [|split; [|split; [|split]]]]].
    + intros c0 s0 [E0|Hin0].
      * inversion E0; subst. exists off. split; [rewrite Hfar'; [exact Hu | exact Hsep] | eapply holds_pext; eauto].
      * apply Hstr, Hin0.
    + intros c' Hc'. rewrite Hfar' by (intros c2 H2; apply Hc'; right; exact H2). apply Hfar, Hc'. left; reflexivity.
    + intros i Hi. rewrite Hnth' by (intros c2 H2; apply Hi; right; exact H2). apply Hnth, Hi. left; reflexivity.
    + auto.
    + intros W HF. inversion HF; subst. apply Hwp'; [apply Hw1; assumption | assumption].
    + rewrite Hperm. rewrite (group_add_perm off c g). rewrite <- app_assoc. reflexivity.
    + rewrite sumf_cons. cbn [snd]. lia.
Qed.

(* the second half of the pointer table: the groups, each sorted, hold exactly the string cells *)
Lemma groups_perm (groups : list (N * list N)) :
  Permutation (concat (map (fun g => isort N.leb (map (trunc_w 32) (snd g))) groups))
              (map (trunc_w 32) (concat (map snd groups))).
Proof.
  induction groups as [|[o cells] r IH]; cbn [map snd concat]; [reflexivity|].
  rewrite map_app. apply Permutation_app; [apply Permutation_sym, isort_perm | exact IH].
Qed.

Lemma map_trunc_small l : Forall (fun x => x < U32) l -> map (trunc_w 32) l = l.
Proof. induction 1 as [|x r Hx Hr IH]; cbn [map]; [reflexivity|]. rewrite trunc_small by exact Hx. rewrite IH. reflexivity. Qed.

Lemma wfb_u32s e l : wfb (u32s e l).
Proof. unfold u32s. induction l as [|x r IH]; cbn [map concat]; [constructor|]. apply wfb_app; [apply wfb_enc | exact IH]. Qed.
