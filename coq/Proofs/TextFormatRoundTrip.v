(* C06: from_archive inverts build_archive (archive level, fully proved); the layout facts;
   the reader depends only on the observable content of the archive, hence the round trip on
   BYTES follows from the bin-archive round trip (explicit premise inside Section ByteLevel). *)
From Coq Require Import List NArith ZArith Bool Lia ZifyBool ZifyNat ZifyN.
From Mila Require Import Lib.Bytes Lib.Machine Model.BinArchive Model.BinStreams Model.BinFormat Model.TextMap Model.TextFormat
  Proofs.AMapLemmas Proofs.BinAccess Proofs.BinAccess2 Proofs.TextMapProofs Proofs.ObsEqual
  Proofs.TextFormatRead Proofs.TextFormatWrite.
Import ListNotations.
Local Open Scope N_scope.
Ltac Zify.zify_post_hook ::= Z.div_mod_to_equations.

(* ---------------------------------------------------------------- well-formed text archives *)
(* archive level: keys pairwise distinct; the title (Unicode format) and every message free of
   its terminator; UTF-16 messages are non-zero 16-bit units without unpaired surrogates
   (what str::encode_utf16 produces) *)
Definition wf_text (fmt : tformat) (t : tmap) : Prop :=
  NoDup (map fst (t_entries t)) /\
  (fmt = Unicode -> ~ In 0 (t_title t)) /\
  Forall (fun kv => wf_msg fmt (snd kv)) (t_entries t).

Definition parsed (fmt : tformat) (t : tmap) : tmap :=
  {| t_title := match fmt with Unicode => t_title t | ShiftJIS => [] end; t_entries := t_entries t; t_dirty := false |}.

Definition ins (acc : list (str * str)) (kv : str * str) : list (str * str) := e_set (fst kv) (snd kv) acc.

Lemma cells_app fmt x y : cells fmt (x ++ y) = cells fmt x ++ cells fmt y.
Proof. unfold cells. rewrite map_app, concat_app. reflexivity. Qed.
Lemma length_cells_ge fmt es : (length es <= length (cells fmt es))%nat.
Proof.
  induction es as [|kv r IH]; [cbn; lia|]. rewrite cells_cons, app_length. cbn [length].
  pose proof (lenN_cell_ge fmt (snd kv)) as G. unfold lenN in G. lia.
Qed.

(* ---------------------------------------------------------------- the walk over the cells *)
Lemma walk_cells fmt a : forall es pre acc fuel sfuel,
  a_data a = pre ++ cells fmt es -> lenN pre mod 4 = 0 ->
  Forall (fun kv => wf_msg fmt (snd kv)) es ->
  (forall k off, In (k, off) (offsets fmt (lenN pre) es) -> am_get off (a_labels a) = Some [k]) ->
  (length es < fuel)%nat -> (length (a_data a) < sfuel)%nat ->
  walk fuel sfuel fmt a (lenN pre) acc = Ok (fold_left ins es acc).
Proof.
  induction es as [|kv r IH]; intros pre acc fuel sfuel E Hp Hw Hl Hf Hsf.
  - destruct fuel as [|f]; [cbn in Hf; lia|]. cbn [walk fold_left].
    assert (Hs : size a = lenN pre) by (unfold size; rewrite E; cbn [cells map concat]; rewrite app_nil_r; reflexivity).
    rewrite Hs, N.ltb_irrefl. reflexivity.
  - destruct fuel as [|f]; [cbn in Hf; lia|]. cbn [walk fold_left].
    rewrite cells_cons in E.
    pose proof (lenN_cell_ge fmt (snd kv)) as G.
    assert (Hs : lenN pre + lenN (cell fmt (snd kv)) <= size a).
    { unfold size. rewrite E, !lenN_app. lia. }
    destruct (N.ltb_spec (lenN pre) (size a)) as [_|C]; [|lia].
    cbn [r_read_labels fst]. rewrite read_labels_spec.
    assert (Hin : inside a (lenN pre) 4 = true) by (apply inside_true; lia).
    rewrite Hin. cbn [bind].
    rewrite (Hl (fst kv) (lenN pre)) by (cbn [offsets]; left; reflexivity).
    inversion Hw as [|x xs Hm Hw']; subst.
    rewrite (read_message_cell fmt a pre (snd kv) (cells fmt r) sfuel E Hp Hm Hsf). cbn [bind].
    replace (lenN pre + lenN (cell fmt (snd kv))) with (lenN (pre ++ cell fmt (snd kv))) by (rewrite lenN_app; reflexivity).
    apply IH.
    + rewrite E, <- app_assoc. reflexivity.
    + rewrite lenN_app. pose proof (lenN_cell_mod fmt (snd kv)). lia.
    + exact Hw'.
    + intros k off Hk. apply Hl. cbn [offsets]. right. rewrite lenN_app in Hk. exact Hk.
    + cbn [length] in Hf. lia.
    + exact Hsf.
Qed.

Lemma fold_ins_distinct : forall es acc, NoDup (map fst (acc ++ es)) -> fold_left ins es acc = acc ++ es.
Proof.
  induction es as [|kv r IH]; intros acc Hnd; cbn [fold_left]; [rewrite app_nil_r; reflexivity|].
  unfold ins at 2. rewrite e_set_absent.
  - rewrite IH.
    + rewrite <- app_assoc. destruct kv; reflexivity.
    + rewrite <- app_assoc. destruct kv; exact Hnd.
  - rewrite map_app in Hnd. cbn [map] in Hnd. apply NoDup_remove_2 in Hnd. intros Hin. apply Hnd. apply in_or_app. left. exact Hin.
Qed.

(* ---------------------------------------------------------------- archive-level round trip *)
Theorem from_archive_text_image fmt e t : wf_text fmt t -> from_archive fmt (text_image fmt e t) = Ok (parsed fmt t).
Proof.
  intros (Hnd & Ht & Hw). unfold from_archive.
  set (a := text_image fmt e t).
  assert (Hd : a_data a = title_cell fmt (t_title t) ++ cells fmt (t_entries t)) by reflexivity.
  assert (Hfuel : (length (a_data a) < data_fuel a)%nat) by (unfold data_fuel; lia).
  assert (Htitle : read_title fmt (data_fuel a) a =
                   (Ok (match fmt with Unicode => t_title t | ShiftJIS => [] end), lenN (title_cell fmt (t_title t)))).
  { destruct fmt; cbn [read_title title_cell]; [reflexivity|].
    change 0 with (lenN (@nil N)) at 1.
    rewrite (read_sjis_cell a [] (t_title t) (cells Unicode (t_entries t)) (data_fuel a)).
    - rewrite lenN_nil, N.add_0_l. reflexivity.
    - exact Hd.
    - reflexivity.
    - apply Ht. reflexivity.
    - pose proof (length_le_cell ShiftJIS (t_title t)). rewrite Hd in Hfuel. cbn [title_cell] in Hfuel. rewrite app_length in Hfuel. lia. }
  rewrite Htitle. cbn [bind].
  rewrite (walk_cells fmt a (t_entries t) (title_cell fmt (t_title t)) [] (data_fuel a) (data_fuel a)).
  - cbn [bind]. rewrite fold_ins_distinct by exact Hnd. reflexivity.
  - exact Hd.
  - apply lenN_title_cell_mod.
  - exact Hw.
  - intros k off Hin. unfold a, text_image. cbn [a_labels]. apply am_get_labels_of; [apply offsets_nodup | exact Hin].
  - pose proof (length_cells_ge fmt (t_entries t)). unfold data_fuel. rewrite Hd, app_length. lia.
  - exact Hfuel.
Qed.

Theorem text_round_trip_archive fmt e t : wf_text fmt t ->
  exists a, build_archive fmt e t = Ok a /\ from_archive fmt a = Ok (parsed fmt t).
Proof. intros H. exists (text_image fmt e t). split; [apply build_archive_spec | apply from_archive_text_image; exact H]. Qed.

(* ---------------------------------------------------------------- layout *)
(* the offset recorded for entry i *)
Definition entry_offset (fmt : tformat) (t : tmap) (i : nat) : N :=
  lenN (title_cell fmt (t_title t)) + lenN (cells fmt (firstn i (t_entries t))).

Theorem text_image_layout fmt e t i k m :
  nth_error (t_entries t) i = Some (k, m) ->
  let a := text_image fmt e t in
  let off := entry_offset fmt t i in
  off mod 4 = 0 /\ am_get off (a_labels a) = Some [k] /\ sliceN off (lenN (cell fmt m)) (a_data a) = Some (cell fmt m)
  /\ read_labels a off = Ok (Some [k]).
Proof.
  intros H a off.
  destruct (offsets_nth fmt (t_entries t) (lenN (title_cell fmt (t_title t))) i (k, m) H) as (pre & post & E & L & Hin).
  assert (Hpre : firstn i (t_entries t) = pre).
  { rewrite E, <- L. apply firstn_app_exact. }
  assert (Hoff : off = lenN (title_cell fmt (t_title t)) + lenN (cells fmt pre)) by (unfold off, entry_offset; rewrite Hpre; reflexivity).
  cbn [fst] in Hin. rewrite <- Hoff in Hin.
  assert (Hmod : off mod 4 = 0).
  { rewrite Hoff. pose proof (lenN_title_cell_mod fmt (t_title t)). pose proof (lenN_cells_mod fmt pre). lia. }
  assert (Hget : am_get off (a_labels a) = Some [k]).
  { unfold a, text_image. cbn [a_labels]. apply am_get_labels_of; [apply offsets_nodup | exact Hin]. }
  assert (Hd : a_data a = (title_cell fmt (t_title t) ++ cells fmt pre) ++ cell fmt m ++ cells fmt post).
  { unfold a, text_image. cbn [a_data]. rewrite E, cells_app, cells_cons. cbn [snd]. rewrite <- app_assoc. reflexivity. }
  assert (Hoff' : off = lenN (title_cell fmt (t_title t) ++ cells fmt pre)) by (rewrite lenN_app; exact Hoff).
  repeat split.
  - exact Hmod.
  - exact Hget.
  - rewrite Hd, Hoff'. apply sliceN_app_exact.
  - rewrite read_labels_spec.
    assert (Hi : inside a off 4 = true).
    { apply inside_true. unfold size. rewrite Hd, lenN_app, <- Hoff', lenN_app.
      pose proof (lenN_cell_ge fmt m). lia. }
    rewrite Hi, Hget. reflexivity.
Qed.

(* nothing else is labelled: the label addresses are exactly the recorded offsets, in entry order *)
Theorem text_image_label_keys fmt e t :
  am_keys (a_labels (text_image fmt e t)) = map snd (offsets fmt (lenN (title_cell fmt (t_title t))) (t_entries t)).
Proof. unfold text_image, am_keys, labels_of. cbn [a_labels]. rewrite map_map. reflexivity. Qed.

(* ---------------------------------------------------------------- the reader sees observations only *)
Section Congr.
  Variables a a' : archive.
  Hypothesis Hd : a_data a' = a_data a.
  Hypothesis Hl : forall x, read_labels a' x = read_labels a x.

  Lemma read_sjis_loop_congr : forall fuel pos acc, read_sjis_loop fuel a' pos acc = read_sjis_loop fuel a pos acc.
  Proof.
    induction fuel as [|f IH]; intros pos acc; cbn [read_sjis_loop]; [reflexivity|].
    rewrite (r_read_u8_congr a a' pos Hd). destruct (r_read_u8 a pos) as [[v|e|k] p]; try reflexivity.
    destruct (v =? 0); [reflexivity | apply IH].
  Qed.
  Lemma read_utf16_loop_congr : forall fuel pos acc, read_utf16_loop fuel a' pos acc = read_utf16_loop fuel a pos acc.
  Proof.
    induction fuel as [|f IH]; intros pos acc; cbn [read_utf16_loop]; [reflexivity|].
    rewrite (r_read_u8_congr a a' pos Hd). destruct (r_read_u8 a pos) as [r1 p1].
    rewrite (r_read_u8_congr a a' p1 Hd). destruct (r_read_u8 a p1) as [r2 p2].
    destruct r1 as [b1|e1|k1]; destruct r2 as [b2|e2|k2]; try reflexivity.
    destruct (andb (b1 =? 0) (b2 =? 0)); [reflexivity | apply IH].
  Qed.
  Lemma r_read_message_congr fmt fuel pos : r_read_message fmt fuel a' pos = r_read_message fmt fuel a pos.
  Proof.
    destruct fmt; cbn [r_read_message]; unfold r_read_shift_jis_string, r_read_utf_16_string;
      [rewrite read_sjis_loop_congr | rewrite read_utf16_loop_congr]; reflexivity.
  Qed.
  Lemma walk_congr fmt sfuel : forall fuel pos acc, walk fuel sfuel fmt a' pos acc = walk fuel sfuel fmt a pos acc.
  Proof.
    induction fuel as [|f IH]; intros pos acc; cbn [walk]; [reflexivity|].
    rewrite (size_congr a a' Hd). destruct (pos <? size a); [|reflexivity].
    cbn [r_read_labels fst]. rewrite Hl. destruct (read_labels a pos) as [ls|e|k]; cbn [bind]; try reflexivity.
    rewrite r_read_message_congr. destruct (r_read_message fmt sfuel a pos) as [[msg|e|k] p]; cbn [bind]; try reflexivity.
    apply IH.
  Qed.
  Lemma walk_trace_congr fmt sfuel : forall fuel pos acc, walk_trace fuel sfuel fmt a' pos acc = walk_trace fuel sfuel fmt a pos acc.
  Proof.
    induction fuel as [|f IH]; intros pos acc; cbn [walk_trace]; [reflexivity|].
    rewrite (size_congr a a' Hd). destruct (pos <? size a); [|reflexivity].
    cbn [r_read_labels fst]. rewrite Hl. destruct (read_labels a pos) as [ls|e|k]; cbn [bind]; try reflexivity.
    rewrite r_read_message_congr. destruct (r_read_message fmt sfuel a pos) as [[msg|e|k] p]; cbn [bind]; try reflexivity.
    apply IH.
  Qed.
  Theorem from_archive_congr fmt : from_archive fmt a' = from_archive fmt a.
  Proof.
    unfold from_archive, data_fuel, read_title. rewrite Hd.
    destruct fmt.
    - rewrite walk_congr. reflexivity.
    - unfold r_read_shift_jis_string. rewrite read_sjis_loop_congr.
      destruct (read_sjis_loop (S (length (a_data a))) a 0 []) as [[s|e|k] p]; cbn [bind]; try reflexivity.
      rewrite walk_congr. reflexivity.
  Qed.
End Congr.

Theorem from_archive_obs_equal fmt a a' : obs_equal a a' -> from_archive fmt a' = from_archive fmt a.
Proof. intros H. apply from_archive_congr; [apply (oe_data a a' H) | apply (oe_labels a a' H)]. Qed.

(* ---------------------------------------------------------------- byte level *)
(* The archives the text writer hands to BinArchive::serialize: raw bytes and labels only.
   [file_bound] is an upper bound of the image size (the name pool shares equal names). *)
Definition label_count (a : archive) : N := N.of_nat (length (concat (map snd (a_labels a)))).
Definition name_bytes (a : archive) : N := N.of_nat (length (concat (map (fun l : bytes => l ++ [0]) (concat (map snd (a_labels a)))))).
(* 32 header bytes + 3 spare bytes (the generic bound of the bin-archive development counts the padding of the
   - here empty - c-string pool), the data, 8 bytes per label-table entry, every name with its terminator *)
Definition file_bound (a : archive) : N := 35 + size a + 8 * label_count a + name_bytes a.

Definition plain_labelled (a : archive) : Prop :=
  a_text a = [] /\ a_ptrs a = [] /\ a_cstrs a = [] /\
  wfb (a_data a) /\
  NoDup (am_keys (a_labels a)) /\
  (forall address bucket, In (address, bucket) (a_labels a) ->
     address <= size a /\ bucket <> [] /\ Forall (fun l => wfb l /\ ~ In 0 l) bucket) /\
  file_bound a < 2 ^ 32.

(* what the byte level needs on top of wf_text: real bytes / 16-bit units, NUL-free keys, a file below 4 GiB *)
Definition wf_text_bytes (fmt : tformat) (e : endian) (t : tmap) : Prop :=
  wfb (t_title t) /\
  Forall (fun kv => wfb (fst kv) /\ ~ In 0 (fst kv) /\ match fmt with ShiftJIS => wfb (snd kv) | Unicode => True end) (t_entries t) /\
  file_bound (text_image fmt e t) < 2 ^ 32.

Lemma wfb_units_le us : wfb (units_le us).
Proof.
  unfold units_le. induction us as [|u r IH]; cbn [flat_map]; [constructor|]. apply wfb_app; [apply wfb_enc | exact IH].
Qed.
Lemma wfb_pad_to k bs : wfb bs -> wfb (pad_to k bs).
Proof. intros H. unfold pad_to. apply wfb_app; [exact H | apply wfb_zeros]. Qed.
Lemma wfb_cell fmt m : match fmt with ShiftJIS => wfb m | Unicode => True end -> wfb (cell fmt m).
Proof.
  destruct fmt; cbn [cell]; intros H; apply wfb_pad_to, wfb_app.
  - exact H.
  - constructor; [lia | constructor].
  - apply wfb_units_le.
  - repeat constructor; lia.
Qed.

Lemma text_image_plain fmt e t : wf_text_bytes fmt e t -> plain_labelled (text_image fmt e t).
Proof.
  intros (Ht & Hes & Hb). unfold plain_labelled. repeat split; try reflexivity.
  - cbn [text_image a_data]. apply wfb_app.
    + destruct fmt; cbn [title_cell]; [constructor | apply (wfb_cell ShiftJIS); exact Ht].
    + unfold cells. induction (t_entries t) as [|kv r IH]; cbn [map concat]; [constructor|].
      inversion Hes as [|x xs (_ & _ & Hm) Hr]; subst. apply wfb_app; [apply wfb_cell; exact Hm | apply IH; exact Hr].
  - rewrite text_image_label_keys. apply offsets_nodup.
  - cbn [text_image a_labels] in H. unfold labels_of in H. apply in_map_iff in H. destruct H as ([k off] & E & Hin).
    cbn [fst snd] in E. injection E as Ea Eb. subst address bucket. apply offsets_bounds in Hin. unfold size. cbn [text_image a_data]. rewrite lenN_app. lia.
  - cbn [text_image a_labels] in H. unfold labels_of in H. apply in_map_iff in H. destruct H as ([k off] & E & Hin).
    cbn [fst snd] in E. injection E as Ea Eb. subst address bucket. discriminate.
  - cbn [text_image a_labels] in H. unfold labels_of in H. apply in_map_iff in H. destruct H as ([k off] & E & Hin).
    cbn [fst snd] in E. injection E as Ea Eb. subst address bucket. constructor; [|constructor].
    assert (Hk : In k (map fst (t_entries t))).
    { rewrite <- (offsets_keys fmt (t_entries t) (lenN (title_cell fmt (t_title t)))). apply in_map_iff. exists (k, off). auto. }
    apply in_map_iff in Hk. destruct Hk as (kv & Ek & Hkv). rewrite Forall_forall in Hes. destruct (Hes kv Hkv) as (W & Z & _).
    subst k. split; assumption.
  - exact Hb.
Qed.

Section ByteLevel.
  Variable kf : name_key.
  Variable m : mode.
  (* The bin-archive round trip for archives made of raw bytes and labels - an instance of the
     C01 round-trip theorem; to be discharged when the developments are merged. *)
  Hypothesis bytes_round_trip : forall a, plain_labelled a ->
    exists f a', BinFormat.serialize_k kf m a = Ok f /\ BinFormat.from_bytes (a_endian a) f = Ok a' /\ obs_equal a a'.

  Theorem text_round_trip_bytes fmt e t : wf_text fmt t -> wf_text_bytes fmt e t ->
    exists f, TextFormat.serialize kf m fmt e t = Ok f /\ TextFormat.from_bytes fmt e f = Ok (parsed fmt t).
  Proof.
    intros Hw Hb. destruct (bytes_round_trip (text_image fmt e t) (text_image_plain fmt e t Hb)) as (f & a' & Hs & Hp & Ho).
    exists f. unfold TextFormat.serialize, TextFormat.from_bytes. rewrite build_archive_spec. cbn [bind]. split; [exact Hs|].
    cbn [text_image a_endian] in Hp. rewrite Hp. cbn [bind].
    rewrite (from_archive_obs_equal fmt _ _ Ho). apply from_archive_text_image. exact Hw.
  Qed.

  (* the layout, on the file: in the archive parsed from the image every entry's offset is a
     multiple of 4, carries exactly the label [key] and holds exactly the message's cell *)
  Theorem text_layout_bytes fmt e t : wf_text_bytes fmt e t ->
    exists f a', TextFormat.serialize kf m fmt e t = Ok f /\ BinFormat.from_bytes e f = Ok a' /\
      forall i k msg, nth_error (t_entries t) i = Some (k, msg) ->
        let off := entry_offset fmt t i in
        off mod 4 = 0 /\ read_labels a' off = Ok (Some [k]) /\ sliceN off (lenN (cell fmt msg)) (a_data a') = Some (cell fmt msg).
  Proof.
    intros Hb. destruct (bytes_round_trip (text_image fmt e t) (text_image_plain fmt e t Hb)) as (f & a' & Hs & Hp & Ho).
    exists f, a'. unfold TextFormat.serialize. rewrite build_archive_spec. cbn [bind]. split; [exact Hs|]. split; [exact Hp|].
    intros i k msg Hn. destruct (text_image_layout fmt e t i k msg Hn) as (H1 & _ & H3 & H4).
    split; [exact H1|]. split.
    - rewrite (oe_labels _ _ Ho). exact H4.
    - rewrite (oe_data _ _ Ho). exact H3.
  Qed.
End ByteLevel.

(* ---------------------------------------------------------------- statements as used in Properties/C06.v *)
Definition same_text (fmt : tformat) (t t' : tmap) : Prop :=
  (fmt = Unicode -> t_title t' = t_title t) /\ t_entries t' = t_entries t /\ t_dirty t' = false.

Lemma same_text_parsed fmt t : same_text fmt t (parsed fmt t).
Proof. unfold same_text, parsed. cbn. repeat split. intros ->. reflexivity. Qed.

Theorem text_round_trip_archive_explicit fmt e t : wf_text fmt t ->
  exists a t', build_archive fmt e t = Ok a /\ from_archive fmt a = Ok t' /\ same_text fmt t t'.
Proof.
  intros H. destruct (text_round_trip_archive fmt e t H) as (a & Hb & Hf).
  exists a, (parsed fmt t). repeat split; try assumption; apply same_text_parsed.
Qed.

Theorem build_archive_layout fmt e t a :
  build_archive fmt e t = Ok a ->
  forall i k msg, nth_error (t_entries t) i = Some (k, msg) ->
    let off := entry_offset fmt t i in
    off mod 4 = 0 /\ read_labels a off = Ok (Some [k]) /\ am_get off (a_labels a) = Some [k] /\
    sliceN off (lenN (cell fmt msg)) (a_data a) = Some (cell fmt msg).
Proof.
  rewrite build_archive_spec. intros E. injection E as <-. intros i k msg Hn.
  destruct (text_image_layout fmt e t i k msg Hn) as (H1 & H2 & H3 & H4). repeat split; assumption.
Qed.

Theorem build_archive_label_keys fmt e t a :
  build_archive fmt e t = Ok a ->
  am_keys (a_labels a) = map (entry_offset fmt t) (seq 0 (length (t_entries t))) /\ a_text a = [] /\ a_ptrs a = [] /\ a_cstrs a = [].
Proof.
  rewrite build_archive_spec. intros E. injection E as <-. split; [|repeat split].
  rewrite text_image_label_keys. unfold entry_offset.
  generalize (lenN (title_cell fmt (t_title t))) as start. induction (t_entries t) as [|kv r IH]; intros start; [reflexivity|].
  cbn [offsets map snd length seq firstn]. f_equal.
  - cbn [cells map concat]. rewrite lenN_nil. lia.
  - rewrite IH. rewrite <- seq_shift, map_map. apply map_ext. intros i. cbn [firstn]. rewrite cells_cons, lenN_app. lia.
Qed.

(* the premise of the byte-level statements: the bin-archive round trip on plain labelled archives *)
Definition bin_round_trip_premise (kf : name_key) (m : mode) : Prop :=
  forall a, plain_labelled a ->
    exists f a', BinFormat.serialize_k kf m a = Ok f /\ BinFormat.from_bytes (a_endian a) f = Ok a' /\ obs_equal a a'.

Theorem text_round_trip_bytes_explicit kf m : bin_round_trip_premise kf m ->
  forall fmt e t, wf_text fmt t -> wf_text_bytes fmt e t ->
    exists f t', TextFormat.serialize kf m fmt e t = Ok f /\ TextFormat.from_bytes fmt e f = Ok t' /\ same_text fmt t t'.
Proof.
  intros P fmt e t Hw Hb. destruct (text_round_trip_bytes kf m P fmt e t Hw Hb) as (f & Hs & Hp).
  exists f, (parsed fmt t). repeat split; try assumption; apply same_text_parsed.
Qed.
