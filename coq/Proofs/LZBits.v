(* Bit operations of the sources (shift, mask, or) as the arithmetic the format description uses.
   N for the usize / u8 expressions, Z for the i32 expressions of lz13.rs (negative operands). *)
From Coq Require Import NArith ZArith Lia Bool ZifyBool ZifyNat ZifyN.
Ltac Zify.zify_post_hook ::= Z.div_mod_to_equations.

(* ------------------------------------------------------------------ N *)
Local Open Scope N_scope.

Lemma N_small_bits_high a n m : a < 2 ^ n -> n <= m -> N.testbit a m = false.
Proof. intros Ha Hm. rewrite <- (N.mod_small a (2 ^ n)) by exact Ha. apply N.mod_pow2_bits_high. exact Hm. Qed.

Lemma N_land_shiftl_low a b n : b < 2 ^ n -> N.land (N.shiftl a n) b = 0.
Proof.
  intros Hb. apply N.bits_inj. intros m. rewrite N.land_spec, N.bits_0.
  destruct (N.ltb_spec m n) as [H|H].
  - rewrite N.shiftl_spec_low by exact H. reflexivity.
  - rewrite (N_small_bits_high b n m Hb H). apply andb_false_r.
Qed.

Lemma N_lor_mul_add a b n : b < 2 ^ n -> N.lor (a * 2 ^ n) b = a * 2 ^ n + b.
Proof.
  intros Hb. rewrite <- N.shiftl_mul_pow2.
  rewrite <- N.lxor_lor by (apply N_land_shiftl_low; exact Hb).
  symmetry. apply N.add_nocarry_lxor. apply N_land_shiftl_low; exact Hb.
Qed.

Lemma N_land_shiftl_mask a b n : N.land a (N.shiftl b n) = N.shiftl (N.land (N.shiftr a n) b) n.
Proof.
  apply N.bits_inj. intros m. rewrite N.land_spec.
  destruct (N.ltb_spec m n) as [H|H].
  - rewrite !N.shiftl_spec_low by exact H. apply andb_false_r.
  - rewrite !N.shiftl_spec_high by lia. rewrite N.land_spec, N.shiftr_spec by lia.
    replace (m - n + n) with m by lia. reflexivity.
Qed.

Lemma N_shiftr_div a k : N.shiftr a k = a / 2 ^ k. Proof. apply N.shiftr_div_pow2. Qed.
Lemma N_shiftl_mul a k : N.shiftl a k = a * 2 ^ k. Proof. apply N.shiftl_mul_pow2. Qed.
Lemma N_land_1 a : N.land a 1 = a mod 2. Proof. change 1 with (N.ones 1) at 1. rewrite N.land_ones. reflexivity. Qed.
Lemma N_land_15 a : N.land a 15 = a mod 16. Proof. change 15 with (N.ones 4). rewrite N.land_ones. reflexivity. Qed.
Lemma N_land_255 a : N.land a 255 = a mod 256. Proof. change 255 with (N.ones 8). rewrite N.land_ones. reflexivity. Qed.
Lemma N_land_240 a : N.land a 240 = ((a / 16) mod 16) * 16.
Proof.
  change 240 with (N.shiftl (N.ones 4) 4). rewrite N_land_shiftl_mask, N.land_ones, N.shiftr_div_pow2, N.shiftl_mul_pow2.
  reflexivity.
Qed.
Lemma N_lor_16 a b : b < 16 -> N.lor (a * 16) b = a * 16 + b.
Proof. intros H. apply (N_lor_mul_add a b 4). exact H. Qed.
Lemma N_lor_256 a b : b < 256 -> N.lor (a * 256) b = a * 256 + b.
Proof. intros H. apply (N_lor_mul_add a b 8). exact H. Qed.
Lemma N_lor_4096 a b : b < 4096 -> N.lor (a * 4096) b = a * 4096 + b.
Proof. intros H. apply (N_lor_mul_add a b 12). exact H. Qed.
Lemma N_lor_65536 a b : b < 65536 -> N.lor (a * 65536) b = a * 65536 + b.
Proof. intros H. apply (N_lor_mul_add a b 16). exact H. Qed.
Lemma N_lor_2p24 a b : b < 16777216 -> N.lor (a * 16777216) b = a * 16777216 + b.
Proof. intros H. apply (N_lor_mul_add a b 24). exact H. Qed.

(* the flag test of the decoder:  (flags >> bit) & 1 == 0 *)
Lemma N_flag_test f b : (N.land (N.shiftr f b) 1 =? 0) = negb (N.testbit f b).
Proof.
  rewrite N_land_1, N.shiftr_div_pow2, N.testbit_eqb.
  pose proof (N.mod_upper_bound (f / 2 ^ b) 2 ltac:(lia)) as H.
  set (v := (f / 2 ^ b) mod 2) in *. clearbody v.
  destruct (N.eqb_spec v 0) as [E|E], (N.eqb_spec v 1) as [E'|E']; cbn [negb]; try reflexivity; lia.
Qed.

(* the flag of the compressor:  flag | (1 << (7 - k)) *)
Lemma N_testbit_flag_or f k j : N.testbit (N.lor f (N.shiftl 1 k)) j = N.testbit f j || (k =? j).
Proof. rewrite N.lor_spec, N.shiftl_1_l, N.pow2_bits_eqb. reflexivity. Qed.

(* ------------------------------------------------------------------ Z *)
Local Open Scope Z_scope.

Lemma Z_small_bits_high a n m : 0 <= a < 2 ^ n -> 0 <= n <= m -> Z.testbit a m = false.
Proof. intros Ha Hm. rewrite <- (Z.mod_small a (2 ^ n)) by exact Ha. apply Z.mod_pow2_bits_high. exact Hm. Qed.

Lemma Z_land_shiftl_low a b n : 0 <= n -> 0 <= b < 2 ^ n -> Z.land (Z.shiftl a n) b = 0.
Proof.
  intros Hn Hb. apply Z.bits_inj'. intros m Hm. rewrite Z.land_spec, Z.bits_0.
  destruct (Z.ltb_spec m n) as [H|H].
  - rewrite Z.shiftl_spec_low by exact H. reflexivity.
  - rewrite (Z_small_bits_high b n m Hb) by lia. apply andb_false_r.
Qed.

Lemma Z_lor_mul_add a b n : 0 <= n -> 0 <= b < 2 ^ n -> Z.lor (a * 2 ^ n) b = a * 2 ^ n + b.
Proof.
  intros Hn Hb. rewrite <- Z.shiftl_mul_pow2 by exact Hn.
  rewrite <- Z.lxor_lor by (apply Z_land_shiftl_low; assumption).
  symmetry. apply Z.add_nocarry_lxor. apply Z_land_shiftl_low; assumption.
Qed.

Lemma Z_land_shiftl_mask a b n : 0 <= n -> Z.land a (Z.shiftl b n) = Z.shiftl (Z.land (Z.shiftr a n) b) n.
Proof.
  intros Hn. apply Z.bits_inj'. intros m Hm. rewrite Z.land_spec, !Z.shiftl_spec by exact Hm.
  destruct (Z.ltb_spec m n) as [H|H].
  - rewrite !(Z.testbit_neg_r _ (m - n)) by lia. apply andb_false_r.
  - rewrite Z.land_spec, Z.shiftr_spec by lia. replace (m - n + n) with m by lia. reflexivity.
Qed.

Lemma Z_shiftr4 a : Z.shiftr a 4 = a / 16. Proof. rewrite Z.shiftr_div_pow2 by lia. reflexivity. Qed.
Lemma Z_shiftr8 a : Z.shiftr a 8 = a / 256. Proof. rewrite Z.shiftr_div_pow2 by lia. reflexivity. Qed.
Lemma Z_shiftr12 a : Z.shiftr a 12 = a / 4096. Proof. rewrite Z.shiftr_div_pow2 by lia. reflexivity. Qed.
Lemma Z_shiftl4 a : Z.shiftl a 4 = a * 16. Proof. rewrite Z.shiftl_mul_pow2 by lia. reflexivity. Qed.
Lemma Z_land_15 a : Z.land a 15 = a mod 16. Proof. change 15 with (Z.ones 4). rewrite Z.land_ones by lia. reflexivity. Qed.
Lemma Z_land_255 a : Z.land a 255 = a mod 256. Proof. change 255 with (Z.ones 8). rewrite Z.land_ones by lia. reflexivity. Qed.
Lemma Z_land_240 a : Z.land a 240 = ((a / 16) mod 16) * 16.
Proof.
  change 240 with (Z.shiftl (Z.ones 4) 4). rewrite Z_land_shiftl_mask by lia.
  rewrite Z.land_ones, Z.shiftr_div_pow2, Z.shiftl_mul_pow2 by lia. reflexivity.
Qed.
Lemma Z_lor_16 a b : 0 <= b < 16 -> Z.lor (a * 16) b = a * 16 + b.
Proof. intros H. apply (Z_lor_mul_add a b 4); lia. Qed.
