(* C20, TPL: Tpl::extract_textures returns the decoding of every packed image on every conforming file;
   prefixes of conforming files are read without panic and rejected when a byte of image or palette data
   is missing; the boolean checker is sound. *)
From Coq Require Import List NArith ZArith Arith Lia Bool ZifyBool ZifyNat ZifyN.
From Mila Require Import Lib.Bytes Lib.BytesExtra Lib.Machine Model.Pixel Model.Etc1 Model.TexCommon Model.TexFormat
  Model.Tpl Proofs.TexBase.
Import ListNotations.
Local Open Scope N_scope.
Ltac Zify.zify_post_hook ::= Z.div_mod_to_equations.

Ltac known :=
  first [ erewrite rd32_some by eassumption | erewrite rd16_some by eassumption | erewrite rd8_some by eassumption ];
  cbn [bind].
Ltac some32 := match goal with |- context [bind (rd32 ?e ?f ?p) _] =>
  let v := fresh "v" in let E := fresh "E" in destruct (rd32_in e f p) as (v & E); [lia | rewrite E; cbn [bind]; clear E v] end.
Ltac some8 := match goal with |- context [bind (rd8 ?f ?p) _] =>
  let v := fresh "v" in let E := fresh "E" in destruct (rd8_in f p) as (v & E); [lia | rewrite E; cbn [bind]; clear E v] end.
Ltac mono := repeat first [ apply le_refl | apply le_bind; [ solve [auto with texmono] | intros ? ] ].

(* the parsed form of a stored image *)
Definition item_of (t : tex) : tpl_image * tpl_palette :=
  (mkTImg (t_h t) (t_w t) 9 (t_data t), mkTPal 2 (t_pal t)).

Lemma tpl_ci8_bytes h w : tpl_image_bytes 9 h w = align h 4 * align w 8.
Proof. reflexivity. Qed.

Lemma pal_len t : textpl_wf t -> lenN (t_pal t) / 2 * 2 = lenN (t_pal t).
Proof. intros (_ & _ & _ & Hm & _). lia. Qed.

Section TplFile.
Variable f : bytes.
Variable tp : N.

Lemma tpl_image_ok ip dp t : u16_at BE f ip = Some (t_h t) -> u16_at BE f (ip + 2) = Some (t_w t) ->
  u32_at BE f (ip + 4) = Some TPL_CI8 -> u32_at BE f (ip + 8) = Some dp -> ip + 36 <= lenN f ->
  sliceN dp (lenN (t_data t)) f = Some (t_data t) -> textpl_wf t ->
  tpl_read_image f ip = Ok (mkTImg (t_h t) (t_w t) 9 (t_data t)).
Proof.
  intros Hh Hw Hfmt Hdp Hilen Hd Hwf. pose proof Hwf as (_ & _ & Hsz & _ & _).
  unfold tpl_read_image. do 3 known. unfold TPL_CI8. cbn [tpl_image_format_known guard bind].
  known. rewrite tpl_ci8_bytes, <- Hsz, (rd_exact_some _ _ _ Hd). cbn [bind].
  do 5 some32. do 4 some8. reflexivity.
Qed.

Lemma tpl_item_ok k t : tpl_entry f tp k t -> tpl_read_item f (tp + 8 * k) = Ok (item_of t).
Proof.
  intros (ip & pp & dp & pdp & Hip & Hpp & Hh & Hw & Hfmt & Hdp & Hilen & Hd & Hn & Hplen & Hpf & Hpdp & Hp & Hwf).
  unfold tpl_read_item. known. rewrite (tpl_image_ok ip dp t) by assumption. cbn [bind]. known.
  unfold tpl_read_palette. known. some8. some8. known. unfold TPL_RGB5A3. cbn [tpl_palette_format_known guard bind].
  known. rewrite (pal_len t Hwf), (rd_exact_some _ _ _ Hp). cbn [bind]. reflexivity.
Qed.

Lemma tpl_items_ok : forall texs k fuel, (length texs <= fuel)%nat ->
  (forall j t, nth_error texs j = Some t -> tpl_entry f tp (k + N.of_nat j) t) ->
  tpl_read_items fuel f (tp + 8 * k) (N.of_nat (length texs)) = Ok (map item_of texs).
Proof.
  induction texs as [|t r IH]; intros k fuel Hfuel H.
  - destruct fuel; reflexivity.
  - destruct fuel as [|fuel]; [cbn in Hfuel; lia|]. cbn [length] in *.
    cbn [tpl_read_items]. destruct (N.eqb_spec (N.of_nat (S (length r))) 0) as [Z|_]; [lia|].
    rewrite (tpl_item_ok k t) by (specialize (H 0%nat t eq_refl); rewrite N.add_0_r in H; exact H). cbn [bind].
    replace (tp + 8 * k + 8) with (tp + 8 * (k + 1)) by lia.
    replace (N.of_nat (S (length r)) - 1) with (N.of_nat (length r)) by lia.
    rewrite IH; [reflexivity | lia |].
    intros j t' Hj. specialize (H (S j) t' Hj). replace (k + 1 + N.of_nat j) with (k + N.of_nat (S j)) by lia. exact H.
Qed.
End TplFile.

Lemma tpl_textures_ok : forall texs, tpl_textures (map item_of texs) = decode_all decode_tpl_tex texs.
Proof. induction texs as [|t r IH]; [reflexivity|]. cbn [map tpl_textures decode_all]. rewrite IH. reflexivity. Qed.

(* the table of n > 0 entries lies in the file, so n is below the fuel *)
Lemma tpl_fuel f tp texs : (forall i t, nth_error texs i = Some t -> tpl_entry f tp (N.of_nat i) t) ->
  (length texs <= S (length f))%nat.
Proof.
  intros H. destruct texs as [|t0 r] eqn:E; [cbn; lia|]. rewrite <- E in *.
  assert (Hn : (0 < length texs)%nat) by (rewrite E; cbn; lia).
  destruct (nth_error texs (length texs - 1)) as [t|] eqn:Et.
  2:{ apply nth_error_None in Et. lia. }
  destruct (H _ t Et) as (ip & pp & dp & pdp & _ & Hpp & _).
  apply u32_at_le in Hpp. unfold lenN in Hpp. lia.
Qed.

Theorem read_tpl_correct : forall m f texs, conforms_tpl f texs -> read_tpl m f = decode_all decode_tpl_tex texs.
Proof.
  intros m f texs (Hmagic & Hn & tp & Htp & Hent).
  unfold read_tpl, tpl_parse. known. unfold TPL_FMAGIC, TPL_MAGIC. cbn [N.eqb Pos.eqb guard bind]. do 2 known.
  pose proof (tpl_items_ok f tp texs 0 (S (length f)) (tpl_fuel f tp texs Hent)) as E.
  rewrite N.mul_0_r, N.add_0_r in E. rewrite E; [|intros j t Hj; rewrite N.add_0_l; apply Hent, Hj].
  cbn [bind]. apply tpl_textures_ok.
Qed.

(* ---------------------------------------------------------------- prefixes *)
Lemma tpl_read_image_le g r p : le_out (tpl_read_image g p) (tpl_read_image (g ++ r) p).
Proof. unfold tpl_read_image. mono. Qed.
Lemma tpl_read_palette_le g r p : le_out (tpl_read_palette g p) (tpl_read_palette (g ++ r) p).
Proof. unfold tpl_read_palette. mono. Qed.
Lemma tpl_read_item_le g r p : le_out (tpl_read_item g p) (tpl_read_item (g ++ r) p).
Proof.
  unfold tpl_read_item. apply le_bind; [auto with texmono|]. intros ip. apply le_bind; [apply tpl_read_image_le|].
  intros img. apply le_bind; [auto with texmono|]. intros pp. apply le_bind; [apply tpl_read_palette_le|]. intros pal. apply le_refl.
Qed.
Lemma tpl_read_items_le g r : forall fg ff p n, (N.to_nat n <= ff)%nat ->
  le_out (tpl_read_items fg g p n) (tpl_read_items ff (g ++ r) p n).
Proof.
  induction fg as [|fg IH]; intros ff p n Hff.
  - cbn [tpl_read_items]. destruct (N.eqb_spec n 0) as [->|NZ]; [destruct ff; apply le_refl | apply le_err].
  - destruct ff as [|ff]; cbn [tpl_read_items]; destruct (N.eqb_spec n 0) as [->|NZ]; try apply le_refl; [lia|].
    apply le_bind; [apply tpl_read_item_le|]. intros i. apply le_bind; [apply IH; lia|]. intros x. apply le_refl.
Qed.

Section TplPrefix.
Variables g r : bytes.
Variable tp : N.

(* stepping through a read of g whose value on g ++ r is known *)
Ltac stepg32 H :=
  match type of H with u32_at ?e _ ?p = Some ?v =>
    let L := fresh "L" in pose proof (rd32_le e g r p) as L; rewrite (rd32_some _ _ _ _ H) in L;
    destruct (le_out_ok _ _ L) as [-> | ?]; [cbn [bind]; clear L | apply is_err_bind; assumption] end.
Ltac stepg16 H :=
  match type of H with u16_at ?e _ ?p = Some ?v =>
    let L := fresh "L" in pose proof (rd16_le e g r p) as L; rewrite (rd16_some _ _ _ _ H) in L;
    destruct (le_out_ok _ _ L) as [-> | ?]; [cbn [bind]; clear L | apply is_err_bind; assumption] end.

Lemma tpl_item_cut k t : tpl_entry (g ++ r) tp k t ->
  (forall dp, (exists ip, u32_at BE (g ++ r) (tp + 8 * k) = Some ip /\ u32_at BE (g ++ r) (ip + 8) = Some dp) ->
              cuts (lenN g) dp (t_data t) -> is_err (tpl_read_item g (tp + 8 * k))) /\
  (forall pdp, (exists pp, u32_at BE (g ++ r) (tp + 8 * k + 4) = Some pp /\ u32_at BE (g ++ r) (pp + 8) = Some pdp) ->
              cuts (lenN g) pdp (t_pal t) -> is_err (tpl_read_item g (tp + 8 * k))).
Proof.
  intros (ip & pp & dp & pdp & Hip & Hpp & Hh & Hw & Hfmt & Hdp & Hilen & Hd & Hn & Hplen & Hpf & Hpdp & Hp & Hwf).
  pose proof Hwf as (_ & _ & Hsz & _ & _).
  split.
  - intros dp' (ip' & Hip' & Hdp') (Hpos & Hcut).
    assert (ip' = ip) by congruence. subst ip'. assert (dp' = dp) by congruence. subst dp'.
    unfold tpl_read_item. stepg32 Hip. apply is_err_bind. unfold tpl_read_image.
    stepg16 Hh. stepg16 Hw. stepg32 Hfmt. unfold TPL_CI8. cbn [tpl_image_format_known guard bind]. stepg32 Hdp.
    rewrite tpl_ci8_bytes, <- Hsz, rd_exact_cut by assumption. exact I.
  - intros pdp' (pp' & Hpp' & Hpdp') (Hpos & Hcut).
    assert (pp' = pp) by congruence. subst pp'. assert (pdp' = pdp) by congruence. subst pdp'.
    unfold tpl_read_item. stepg32 Hip.
    pose proof (tpl_read_image_le g r ip) as L. destruct L as [L | (e & L)]; rewrite L; [|exact I].
    rewrite (tpl_image_ok (g ++ r) ip dp t) by assumption. cbn [bind].
    stepg32 Hpp. apply is_err_bind. unfold tpl_read_palette. stepg16 Hn.
    destruct (rd8_in (g ++ r) (pp + 2)) as (v2 & Ev2); [lia|].
    destruct (rd8_le g r (pp + 2)) as [E|(e & E)]; rewrite E; [rewrite Ev2; cbn [bind] | exact I].
    destruct (rd8_in (g ++ r) (pp + 3)) as (v3 & Ev3); [lia|].
    destruct (rd8_le g r (pp + 3)) as [E'|(e & E')]; rewrite E'; [rewrite Ev3; cbn [bind] | exact I].
    stepg32 Hpf. unfold TPL_RGB5A3. cbn [tpl_palette_format_known guard bind]. stepg32 Hpdp.
    rewrite (pal_len t Hwf), rd_exact_cut by assumption. exact I.
Qed.

Lemma tpl_items_cut : forall texs k fuel,
  (forall j t, nth_error texs j = Some t -> tpl_entry (g ++ r) tp (k + N.of_nat j) t) ->
  forall j t, nth_error texs j = Some t ->
    is_err (tpl_read_item g (tp + 8 * (k + N.of_nat j))) ->
    is_err (tpl_read_items fuel g (tp + 8 * k) (N.of_nat (length texs))).
Proof.
  induction texs as [|t0 rr IH]; intros k fuel H j t Hj Herr; [destruct j; discriminate|].
  cbn [length]. destruct fuel as [|fuel]; cbn [tpl_read_items];
    (destruct (N.eqb_spec (N.of_nat (S (length rr))) 0) as [Z|_]; [lia|]); [exact I|].
  destruct j as [|j]; cbn [nth_error] in Hj.
  - rewrite N.add_0_r in Herr. apply is_err_bind, Herr.
  - destruct (tpl_read_item_le g r (tp + 8 * k)) as [E|(e & E)]; rewrite E; [|exact I].
    rewrite (tpl_item_ok (g ++ r) tp k t0) by (specialize (H 0%nat t0 eq_refl); rewrite N.add_0_r in H; exact H).
    cbn [bind]. apply is_err_bind.
    replace (tp + 8 * k + 8) with (tp + 8 * (k + 1)) by lia.
    replace (N.of_nat (S (length rr)) - 1) with (N.of_nat (length rr)) by lia.
    apply (IH (k + 1) fuel) with (j := j) (t := t); [|exact Hj|].
    + intros j' t' Hj'. specialize (H (S j') t' Hj'). replace (k + 1 + N.of_nat j') with (k + N.of_nat (S j')) by lia. exact H.
    + replace (k + 1 + N.of_nat j) with (k + N.of_nat (S j)) by lia. exact Herr.
Qed.
End TplPrefix.

Theorem tpl_prefix : forall m f texs k, conforms_tpl f texs -> Forall (fun t => no_panic (decode_tpl_tex t)) texs ->
  k < lenN f ->
  no_panic (read_tpl m (firstn (N.to_nat k) f)) /\
  (forall i t off, nth_error texs i = Some t ->
     (tpl_image_at f (N.of_nat i) off /\ cuts k off (t_data t)) \/ (tpl_palette_at f (N.of_nat i) off /\ cuts k off (t_pal t)) ->
     is_err (read_tpl m (firstn (N.to_nat k) f))).
Proof.
  intros m f texs k Hc Hdec Hk.
  set (g := firstn (N.to_nat k) f). set (r := skipn (N.to_nat k) f).
  assert (Ef : f = g ++ r) by (symmetry; apply firstn_skipn).
  assert (Lg : lenN g = k) by (apply lenN_firstn; lia).
  pose proof Hc as (Hmagic & Hn & tp & Htp & Hent).
  pose proof (read_tpl_correct m f texs Hc) as Hfull.
  assert (Hitems : tpl_read_items (S (length f)) f tp (N.of_nat (length texs)) = Ok (map item_of texs)).
  { pose proof (tpl_items_ok f tp texs 0 (S (length f)) (tpl_fuel f tp texs Hent)) as E.
    rewrite N.mul_0_r, N.add_0_r in E. apply E. intros j t Hj. rewrite N.add_0_l. apply Hent, Hj. }
  (* the three header reads on g *)
  assert (Hhead : (exists e, tpl_parse g = Err e) \/
                  tpl_parse g = tpl_read_items (S (length g)) g tp (N.of_nat (length texs))).
  { unfold tpl_parse.
    pose proof (rd32_le BE g r 0) as L0. rewrite <- Ef, (rd32_some _ _ _ _ Hmagic) in L0.
    destruct L0 as [-> | (e & ->)]; [|left; eexists; reflexivity].
    unfold TPL_FMAGIC, TPL_MAGIC. cbn [N.eqb Pos.eqb guard bind].
    pose proof (rd32_le BE g r 4) as L4. rewrite <- Ef, (rd32_some _ _ _ _ Hn) in L4.
    destruct L4 as [-> | (e & ->)]; [|left; eexists; reflexivity]. cbn [bind].
    pose proof (rd32_le BE g r 8) as L8. rewrite <- Ef, (rd32_some _ _ _ _ Htp) in L8.
    destruct L8 as [-> | (e & ->)]; [|left; eexists; reflexivity]. cbn [bind]. right. reflexivity. }
  unfold read_tpl. destruct Hhead as [(e & ->) | ->].
  { split; [exact I|]. intros; exact I. }
  split.
  - assert (Hfu : (N.to_nat (N.of_nat (length texs)) <= S (length f))%nat).
    { pose proof (tpl_fuel f tp texs Hent). lia. }
    pose proof (tpl_read_items_le g r (S (length g)) (S (length f)) tp (N.of_nat (length texs)) Hfu) as L.
    rewrite <- Ef, Hitems in L. destruct (le_out_ok _ _ L) as [-> | E].
    + cbn [bind]. rewrite tpl_textures_ok. clear - Hdec. induction Hdec as [|t rr H0 _ IH]; [exact I|].
      cbn [decode_all]. apply loop_step_class; assumption.
    + apply is_err_no_panic, is_err_bind, E.
  - intros i t off Hi Hcut. apply is_err_bind.
    assert (Hent' : forall j t, nth_error texs j = Some t -> tpl_entry (g ++ r) tp (0 + N.of_nat j) t).
    { intros j t' Hj. rewrite <- Ef, N.add_0_l. apply Hent, Hj. }
    pose proof (tpl_items_cut g r tp texs 0 (S (length g)) Hent' i t Hi) as C.
    rewrite N.mul_0_r, N.add_0_r, N.add_0_l in C. apply C.
    destruct (tpl_item_cut g r tp (N.of_nat i) t) as (Ci & Cp); [rewrite <- Ef; apply Hent, Hi|].
    destruct Hcut as [((tp' & ip & Htp' & Hip & Hoff) & Hcuts) | ((tp' & pp & Htp' & Hpp & Hoff) & Hcuts)];
      assert (tp' = tp) by congruence; subst tp'.
    + apply (Ci off); [exists ip; rewrite <- Ef; split; assumption | rewrite Lg; exact Hcuts].
    + apply (Cp off); [exists pp; rewrite <- Ef; split; assumption | rewrite Lg; exact Hcuts].
Qed.

(* ---------------------------------------------------------------- the checker *)
Lemma tpl_entryb_sound f tp i t : tpl_entryb f tp i t = true -> tpl_entry f tp i t.
Proof.
  unfold tpl_entryb, tpl_entry.
  destruct (u32_at BE f (tp + 8 * i)) as [ip|] eqn:E0; [|discriminate].
  destruct (u32_at BE f (tp + 8 * i + 4)) as [pp|] eqn:E4; [|discriminate].
  destruct (u32_at BE f (ip + 8)) as [dp|] eqn:E8; [|discriminate].
  destruct (u32_at BE f (pp + 8)) as [pdp|] eqn:E9; [|discriminate].
  intros H. repeat (apply andb_prop in H; destruct H as [H ?]).
  repeat match goal with
  | Hx : oN_eqb _ _ = true |- _ => apply oN_eqb_spec in Hx
  | Hx : ob_eqb _ _ = true |- _ => apply ob_eqb_spec in Hx
  | Hx : (_ <=? _) = true |- _ => apply N.leb_le in Hx
  | Hx : textpl_wfb _ = true |- _ => apply textpl_wfb_spec in Hx
  end.
  exists ip, pp, dp, pdp. tauto.
Qed.

Theorem conforms_tplb_sound : forall f texs, conforms_tplb f texs = true -> conforms_tpl f texs.
Proof.
  intros f texs H. unfold conforms_tplb in H. repeat (apply andb_prop in H; destruct H as [H ?]).
  destruct (u32_at BE f 8) as [tp|] eqn:E8; [|discriminate].
  split; [apply oN_eqb_spec; assumption|]. split; [apply oN_eqb_spec; assumption|].
  exists tp. split; [exact E8|]. intros i t Hi. apply tpl_entryb_sound.
  match goal with Hx : entriesb _ _ _ = true |- _ => pose proof (entriesb_spec _ _ _ Hx i t Hi) as E end.
  rewrite N.add_0_l in E. exact E.
Qed.
